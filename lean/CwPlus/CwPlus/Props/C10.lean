import CwPlus.Lemmas.Cw4Stake
import CwPlus.Lemmas.Snapshot
/-!
# C10 — cw4-stake: stakes are fully backed, weight follows stake, exit only after the delay

All theorems are about the model `CwPlus.Cw4Stake` (contract + funds world).  `tx` is one atomic
transaction, `run` a finite history of `(block, transaction)` pairs with failed transactions rolled
back; nothing is assumed about the blocks (they need not even be monotone for these clauses).
Helper lemmas (specification of every transaction kind) live in `Lemmas/Cw4Stake.lean`.
-/
namespace CwPlus.Props.C10
open CwPlus CwPlus.Cw4Stake CwPlus.Snapshot

/-- Σ of all recorded stakes. -/
def stakeTotal (s : State) : Nat := AMap.sum s.stake
/-- Σ of all unreleased claims. -/
def claimsTotal (s : State) : Nat := claimTotal s.claims

/-- The books are backed: the contract's holdings in the stake token are exactly the recorded stakes
plus the unreleased claims plus what was sent to it without bonding. -/
def Backed (w : World) : Prop := w.held = stakeTotal w.st + claimsTotal w.st + w.extra

def Op.isDonate : Op → Bool
  | .donate _ _ => true
  | _ => false

/-! ## backing -/

theorem deposited_books {w w' : World} {h : Nat} {snd : Addr} {amt : Nat} {out : List Out}
    (hd : Deposited w w' h snd amt out) :
    stakeTotal w'.st = stakeTotal w.st + amt ∧ claimsTotal w'.st = claimsTotal w.st ∧
    w'.held = w.held + amt ∧ w'.extra = w.extra := by
  obtain ⟨new, _, _, _, hu, _, hh, _, he, _⟩ := hd
  obtain ⟨e1, _⟩ := um_pair hu
  obtain ⟨_, _, _, hs, hc⟩ := um_frame (bondState w.st snd amt) h snd new
  have := AMap.sum_set w.st.stake snd (stakeOf w.st snd + amt)
  refine ⟨?_, ?_, hh, he⟩
  · unfold stakeTotal; rw [e1, hs]; simp only [bondState]; unfold stakeOf at this ⊢; omega
  · unfold claimsTotal; rw [e1, hc]; simp only [bondState]

/-- Every successful transaction keeps the books backed (one step of `backing`). -/
theorem backing_tx {w w' : World} {blk : Block} {op : Op} {out : List Out}
    (hi : Backed w) (h : tx w blk op = .ok (w', out)) : Backed w' := by
  unfold Backed at *
  cases op with
  | bond snd coins =>
    obtain ⟨d, amt, _, _, _, hd⟩ := tx_bond_ok h
    obtain ⟨a, b, c, e⟩ := deposited_books hd
    omega
  | send snd token amt ok =>
    obtain ⟨_, _, hd⟩ := tx_send_ok h
    obtain ⟨a, b, c, e⟩ := deposited_books hd
    omega
  | receive snd sender amt ok => exact (tx_receive_never h).elim
  | unbond snd amt =>
    obtain ⟨new, hle, _, hu, _, hh, _, he, _⟩ := tx_unbond_ok h
    obtain ⟨e1, _⟩ := um_pair hu
    obtain ⟨_, _, _, hs, hc⟩ := um_frame (unbondState w.st blk snd amt) blk.height snd new
    have h1 := AMap.sum_set w.st.stake snd (stakeOf w.st snd - amt)
    have h2 := claimTotal_set w.st.claims snd (claimsOf w.st snd ++ [⟨amt, w.st.cfg.period.after blk⟩])
    have h3 := AMap.get?_le_sum w.st.stake snd
    rw [amountSum_append] at h2
    unfold stakeTotal claimsTotal at *
    rw [e1, hs, hc, hh, he]
    simp only [unbondState]
    simp only [amountSum, List.map_cons, List.map_nil, List.sum_cons, List.sum_nil] at h2
    unfold stakeOf claimsOf at *
    omega
  | claim snd =>
    obtain ⟨hne, hle, _, hst, hh, _, he, _⟩ := tx_claim_ok h
    have h2 := claimTotal_set w.st.claims snd (waiting blk (claimsOf w.st snd))
    have h3 := amountSum_matured_waiting blk (claimsOf w.st snd)
    simp only [stakeTotal, claimsTotal, hst, hh, he]
    unfold claimsOf at *
    simp only [stakeTotal, claimsTotal] at hi
    omega
  | updateAdmin snd a =>
    obtain ⟨_, _, adm, rfl⟩ := tx_updateAdmin_ok h
    simpa [stakeTotal, claimsTotal] using hi
  | addHook snd a =>
    obtain ⟨_, _, _, rfl⟩ := tx_addHook_ok h
    simpa [stakeTotal, claimsTotal] using hi
  | removeHook snd a =>
    obtain ⟨_, _, _, rfl⟩ := tx_removeHook_ok h
    simpa [stakeTotal, claimsTotal] using hi
  | donate snd amt =>
    obtain ⟨_, _, rfl⟩ := tx_donate_ok h
    simp only [stakeTotal, claimsTotal] at hi ⊢
    omega

/-- A fresh contract (holding nothing, no stakes, no claims) is backed. -/
theorem backing_init {m : InstMsg} {st : State} (h : instantiate m = .ok st) (bal : AMap Addr Nat) (acc : List Addr) :
    Backed (World.init st bal acc) := by
  simp [instantiate] at h
  obtain ⟨adm, _, rfl⟩ := h
  simp [Backed, World.init, stakeTotal, claimsTotal]

/-- **C10 `backing`**: after any accepted instantiation and any finite history of transactions (bond,
cw20 send, forged receive, unbond, claim, admin/hook operations, plain transfers to the contract; any
senders, amounts, blocks; failed ones rolled back) the contract holds exactly
Σ stakes + Σ unreleased claims + the plain transfers it received. -/
theorem backing {m : InstMsg} {st : State} (h : instantiate m = .ok st) (bal : AMap Addr Nat) (acc : List Addr)
    (ops : List (Block × Op)) : Backed (run (World.init st bal acc) ops) :=
  run_inv Backed (fun _ _ _ _ _ hi ht => backing_tx hi ht) (backing_init h bal acc) ops

/-- **C10 `backing`, lower bound**: holdings ≥ Σ stakes + Σ unreleased claims, always. -/
theorem backing_ge {m : InstMsg} {st : State} (h : instantiate m = .ok st) (bal : AMap Addr Nat) (acc : List Addr)
    (ops : List (Block × Op)) :
    stakeTotal (run (World.init st bal acc) ops).st + claimsTotal (run (World.init st bal acc) ops).st
      ≤ (run (World.init st bal acc) ops).held := by
  have := backing h bal acc ops
  unfold Backed at this
  omega

/-- The ghost counter of plain transfers moves only by a `donate`. -/
theorem extra_tx {w w' : World} {blk : Block} {op : Op} {out : List Out}
    (h : tx w blk op = .ok (w', out)) (hn : Op.isDonate op = false) : w'.extra = w.extra := by
  cases op with
  | bond snd coins => obtain ⟨_, _, _, _, _, hd⟩ := tx_bond_ok h; exact (deposited_books hd).2.2.2
  | send snd token amt ok => obtain ⟨_, _, hd⟩ := tx_send_ok h; exact (deposited_books hd).2.2.2
  | receive snd sender amt ok => exact (tx_receive_never h).elim
  | unbond snd amt => obtain ⟨_, _, _, _, _, _, _, he, _⟩ := tx_unbond_ok h; exact he
  | claim snd => obtain ⟨_, _, _, _, _, _, he, _⟩ := tx_claim_ok h; exact he
  | updateAdmin snd a => obtain ⟨_, _, adm, rfl⟩ := tx_updateAdmin_ok h; rfl
  | addHook snd a => obtain ⟨_, _, _, rfl⟩ := tx_addHook_ok h; rfl
  | removeHook snd a => obtain ⟨_, _, _, rfl⟩ := tx_removeHook_ok h; rfl
  | donate snd amt => simp [Op.isDonate] at hn

/-- **C10 `backing`, exact form**: when the contract is funded only by bonding (no plain transfer in
the history) its holdings are *exactly* Σ stakes + Σ unreleased claims. -/
theorem backing_exact {m : InstMsg} {st : State} (h : instantiate m = .ok st) (bal : AMap Addr Nat) (acc : List Addr)
    (ops : List (Block × Op)) (hno : ∀ o ∈ ops, Op.isDonate o.2 = false) :
    (run (World.init st bal acc) ops).held =
      stakeTotal (run (World.init st bal acc) ops).st + claimsTotal (run (World.init st bal acc) ops).st := by
  have hb := backing h bal acc ops
  have he : (run (World.init st bal acc) ops).extra = 0 := by
    have h0 : (World.init st bal acc).extra = 0 := rfl
    generalize World.init st bal acc = w at h0
    clear hb h
    induction ops generalizing w with
    | nil => exact h0
    | cons o rest ih =>
      simp only [run, List.foldl_cons]
      apply ih (fun o' ho' => hno o' (by simp [ho']))
      unfold step
      split
      · rename_i w' out ht
        rw [extra_tx ht (hno o (by simp))]; exact h0
      · exact h0
  unfold Backed at hb
  omega

/-- The payout of a claim can never fail for lack of funds: whatever matured is covered by the holdings. -/
theorem claim_covered {w : World} (hi : Backed w) (blk : Block) (snd : Addr) :
    amountSum (matured blk (claimsOf w.st snd)) ≤ w.held := by
  unfold Backed at hi
  have h1 := amountSum_matured_waiting blk (claimsOf w.st snd)
  have h2 := claimTotal_set w.st.claims snd []
  simp only [claimsTotal] at hi
  unfold claimsOf at *
  simp [amountSum] at h2
  simp only [amountSum] at h1 ⊢
  omega

/-- **C10, the paying direction of `claim_pays_matured_once`**: in a backed world whose holdings fit
`u128`, a `Claim` by an address with a positive amount of matured claims always succeeds — the payout
can fail neither for lack of funds nor by overflow — so the matured claims *are* paid. -/
theorem claim_succeeds {w : World} (hi : Backed w) (hfit : w.held ≤ U128_MAX) (blk : Block) (snd : Addr)
    (hdue : 0 < amountSum (matured blk (claimsOf w.st snd))) :
    ∃ w' out, tx w blk (.claim snd) = .ok (w', out) := by
  have hcov := claim_covered hi blk snd
  have h1 : amountSum (matured blk (claimsOf w.st snd)) ≤ U128_MAX := by omega
  have h2 : amountSum (matured blk (claimsOf w.st snd)) ≠ 0 := by omega
  obtain ⟨w', hw'⟩ := deliver_payout_ok
    { w with st := { w.st with claims := w.st.claims.set snd (waiting blk (claimsOf w.st snd)) } } snd _ h2 hcov
  refine ⟨w', [payout w.st.cfg.denom snd (amountSum (matured blk (claimsOf w.st snd)))], ?_⟩
  simp only [tx, execute, execClaim, finish]
  simp only [check, h1, h2, decide_true, if_true, ne_eq, not_false_eq_true, bind, Except.bind, pure, Except.pure]
  simp only at hw'
  rw [hw']

/-! ## stake_frame -/

/-- Stake tokens the transaction `op` bonds for `a`. -/
def bonded (op : Op) (a : Addr) : Nat :=
  match op with
  | .bond snd coins => if snd = a then (coins.map (·.2)).sum else 0
  | .send snd _ amt _ => if snd = a then amt else 0
  | _ => 0

/-- Stake tokens the transaction `op` unbonds for `a`. -/
def unbonded (op : Op) (a : Addr) : Nat :=
  match op with
  | .unbond snd amt => if snd = a then amt else 0
  | _ => 0

theorem deposited_stake {w w' : World} {h : Nat} {snd : Addr} {amt : Nat} {out : List Out}
    (hd : Deposited w w' h snd amt out) (a : Addr) :
    stakeOf w'.st a = if snd = a then stakeOf w.st a + amt else stakeOf w.st a := by
  obtain ⟨new, _, _, _, hu, _⟩ := hd
  obtain ⟨e1, _⟩ := um_pair hu
  obtain ⟨_, _, _, hs, _⟩ := um_frame (bondState w.st snd amt) h snd new
  unfold stakeOf
  rw [e1, hs]
  simp only [bondState, AMap.get?_set]
  split
  · rename_i e; subst e; simp [stakeOf]
  · rfl

/-- **C10 `stake_frame`**: a successful transaction changes the stake of `a` by exactly what `a`
itself bonded (`Bond` with funds / cw20 `Send`) or unbonded in it — nothing else ever moves a stake:
not another user's transaction, not a claim, not an admin operation, not a plain transfer. -/
theorem stake_frame {w w' : World} {blk : Block} {op : Op} {out : List Out}
    (h : tx w blk op = .ok (w', out)) (a : Addr) :
    stakeOf w'.st a + unbonded op a = stakeOf w.st a + bonded op a ∧ unbonded op a ≤ stakeOf w.st a := by
  cases op with
  | bond snd coins =>
    obtain ⟨d, amt, _, rfl, _, hd⟩ := tx_bond_ok h
    rw [deposited_stake hd a]
    simp only [bonded, unbonded]
    split <;> simp
  | send snd token amt ok =>
    obtain ⟨_, _, hd⟩ := tx_send_ok h
    rw [deposited_stake hd a]
    simp only [bonded, unbonded]
    split <;> simp
  | receive snd sender amt ok => exact (tx_receive_never h).elim
  | unbond snd amt =>
    obtain ⟨new, hle, _, hu, _⟩ := tx_unbond_ok h
    obtain ⟨e1, _⟩ := um_pair hu
    obtain ⟨_, _, _, hs, _⟩ := um_frame (unbondState w.st blk snd amt) blk.height snd new
    simp only [bonded, unbonded]
    unfold stakeOf at *
    rw [e1, hs]
    simp only [unbondState, stakeOf, AMap.get?_set]
    split
    · rename_i e; subst e; simp; omega
    · simp
  | claim snd =>
    obtain ⟨_, _, _, hst, _⟩ := tx_claim_ok h
    simp [bonded, unbonded, stakeOf, hst]
  | updateAdmin snd x => obtain ⟨_, _, adm, rfl⟩ := tx_updateAdmin_ok h; simp [bonded, unbonded, stakeOf]
  | addHook snd x => obtain ⟨_, _, _, rfl⟩ := tx_addHook_ok h; simp [bonded, unbonded, stakeOf]
  | removeHook snd x => obtain ⟨_, _, _, rfl⟩ := tx_removeHook_ok h; simp [bonded, unbonded, stakeOf]
  | donate snd amt => obtain ⟨_, _, rfl⟩ := tx_donate_ok h; simp [bonded, unbonded, stakeOf]

/-- **C10 `stake_frame`, histories**: over any history in which `a` signs no transaction, the stake of
`a` does not change. -/
theorem stake_frame_run (a : Addr) (w : World) (ops : List (Block × Op)) (hs : ∀ o ∈ ops, Op.sender o.2 ≠ a) :
    stakeOf (run w ops).st a = stakeOf w.st a := by
  induction ops generalizing w with
  | nil => rfl
  | cons o rest ih =>
    simp only [run, List.foldl_cons]
    have ih' := ih (step w o.1 o.2) (fun o' ho' => hs o' (by simp [ho']))
    simp only [run] at ih'
    rw [ih']
    unfold step
    split
    · rename_i w' out ht
      have hne := hs o (by simp)
      have := stake_frame ht a
      have hb : bonded o.2 a = 0 := by
        unfold bonded; split <;> simp_all [Op.sender]
      have hu : unbonded o.2 a = 0 := by
        unfold unbonded; split <;> simp_all [Op.sender]
      omega
    · rfl

/-! ## only_configured_token -/

/-- **C10 `only_configured_token`**: a bond succeeds only with exactly one coin of the configured
native denom (native configuration) or through a cw20 `Send` of the configured cw20 token carrying the
`Bond {}` payload (cw20 configuration); a `Receive` forged by an account never succeeds. -/
theorem only_configured_token {w w' : World} {blk : Block} {op : Op} {out : List Out}
    (h : tx w blk op = .ok (w', out)) :
    (∀ snd coins, op = .bond snd coins → ∃ d amt, w.st.cfg.denom = .native d ∧ coins = [(d, amt)] ∧ amt ≠ 0) ∧
    (∀ snd token amt ok, op = .send snd token amt ok → w.st.cfg.denom = .cw20 token ∧ ok = true) ∧
    (∀ snd sender amt ok, op ≠ .receive snd sender amt ok) := by
  refine ⟨?_, ?_, ?_⟩
  · rintro snd coins rfl
    obtain ⟨d, amt, hd, hc, hz, _⟩ := tx_bond_ok h
    exact ⟨d, amt, hd, hc, hz⟩
  · rintro snd token amt ok rfl
    obtain ⟨hd, hok, _⟩ := tx_send_ok h
    exact ⟨hd, hok⟩
  · rintro snd sender amt ok rfl
    exact tx_receive_never h

/-- The configuration never changes. -/
theorem cfg_tx {w w' : World} {blk : Block} {op : Op} {out : List Out}
    (h : tx w blk op = .ok (w', out)) : w'.st.cfg = w.st.cfg := by
  cases op with
  | bond snd coins =>
    obtain ⟨_, _, _, _, _, new, _, _, _, hu, _⟩ := tx_bond_ok h
    rw [(um_pair hu).1, (um_frame _ _ _ _).1]; rfl
  | send snd token amt ok =>
    obtain ⟨_, _, new, _, _, _, hu, _⟩ := tx_send_ok h
    rw [(um_pair hu).1, (um_frame _ _ _ _).1]; rfl
  | receive snd sender amt ok => exact (tx_receive_never h).elim
  | unbond snd amt =>
    obtain ⟨new, _, _, hu, _⟩ := tx_unbond_ok h
    rw [(um_pair hu).1, (um_frame _ _ _ _).1]; rfl
  | claim snd => obtain ⟨_, _, _, hst, _⟩ := tx_claim_ok h; rw [hst]
  | updateAdmin snd x => obtain ⟨_, _, adm, rfl⟩ := tx_updateAdmin_ok h; rfl
  | addHook snd x => obtain ⟨_, _, _, rfl⟩ := tx_addHook_ok h; rfl
  | removeHook snd x => obtain ⟨_, _, _, rfl⟩ := tx_removeHook_ok h; rfl
  | donate snd amt => obtain ⟨_, _, rfl⟩ := tx_donate_ok h; rfl

theorem cfg_run (w : World) (ops : List (Block × Op)) : (run w ops).st.cfg = w.st.cfg :=
  run_inv (fun x => x.st.cfg = w.st.cfg) (fun _ _ _ _ _ hi ht => (cfg_tx ht).trans hi) rfl ops

/-! ## claim_pays_matured_once -/

/-- **C10 `claim_pays_matured_once`**: a successful `Claim` by `snd` at block `blk` emits exactly one
message paying `snd` the sum of *all* its claims that are expired at `blk` (a positive amount, in the
configured token), removes exactly those claims, moves exactly that amount from the contract's holdings
to `snd`, leaves everybody else's claims alone — and a second `Claim` in the same block fails. -/
theorem claim_pays_matured_once {w w' : World} {blk : Block} {snd : Addr} {out : List Out}
    (h : tx w blk (.claim snd) = .ok (w', out)) :
    0 < amountSum (matured blk (claimsOf w.st snd)) ∧
    out = [payout w.st.cfg.denom snd (amountSum (matured blk (claimsOf w.st snd)))] ∧
    claimsOf w'.st snd = waiting blk (claimsOf w.st snd) ∧
    (∀ a, a ≠ snd → claimsOf w'.st a = claimsOf w.st a) ∧
    balOf w' snd = balOf w snd + amountSum (matured blk (claimsOf w.st snd)) ∧
    w'.held + amountSum (matured blk (claimsOf w.st snd)) = w.held ∧
    (∀ r, tx w' blk (.claim snd) ≠ .ok r) := by
  obtain ⟨hne, hle, ho, hst, hh, hb, _, _⟩ := tx_claim_ok h
  have hc : claimsOf w'.st snd = waiting blk (claimsOf w.st snd) := by simp [claimsOf, hst]
  refine ⟨by omega, ho, hc, ?_, ?_, by omega, ?_⟩
  · intro a ha
    simp only [claimsOf, hst]
    rw [AMap.get?_set_ne _ _ _ _ (Ne.symm ha)]
  · simp [balOf, hb]
  · rintro ⟨w'', out''⟩ h2
    obtain ⟨hne2, _⟩ := tx_claim_ok h2
    rw [hc, matured_waiting] at hne2
    exact hne2 rfl

/-! ## claim_not_early -/

/-- `(period.after b).is_expired(blk)` means that the whole unbonding period has passed since `b`. -/
theorem after_isExpired (d : Duration) (b blk : Block) :
    (d.after b).isExpired blk = true ↔
      (match d with
       | .height n => b.height + n ≤ blk.height
       | .time secs => b.time + secs * 1000000000 ≤ blk.time) := by
  cases d <;> simp [Duration.after, Expiration.isExpired]

/-- **C10 `claim_not_early` (creation)**: a successful `Unbond { tokens }` at block `blk` appends to the
sender's claims exactly one claim of `tokens` releasing at `unbonding_period.after(blk)`; other users'
claims are untouched. -/
theorem unbond_creates_claim {w w' : World} {blk : Block} {snd : Addr} {amt : Nat} {out : List Out}
    (h : tx w blk (.unbond snd amt) = .ok (w', out)) :
    claimsOf w'.st snd = claimsOf w.st snd ++ [⟨amt, w.st.cfg.period.after blk⟩] ∧
    (∀ a, a ≠ snd → claimsOf w'.st a = claimsOf w.st a) := by
  obtain ⟨new, _, _, hu, _⟩ := tx_unbond_ok h
  obtain ⟨e1, _⟩ := um_pair hu
  obtain ⟨_, _, _, _, hc⟩ := um_frame (unbondState w.st blk snd amt) blk.height snd new
  constructor
  · unfold claimsOf; rw [e1, hc]; simp [unbondState, claimsOf]
  · intro a ha
    unfold claimsOf; rw [e1, hc]; simp only [unbondState]
    rw [AMap.get?_set_ne _ _ _ _ (Ne.symm ha)]

/-- **C10 `claim_not_early` (payment)**: every claim that a successful `Claim` at block `blk` removes
(= pays) is expired at `blk`; claims that are not yet expired stay. -/
theorem claim_not_early {w w' : World} {blk : Block} {snd : Addr} {out : List Out}
    (h : tx w blk (.claim snd) = .ok (w', out)) (c : Claim) (hc : c ∈ claimsOf w.st snd) :
    (c ∉ claimsOf w'.st snd → c.releaseAt.isExpired blk = true) ∧
    (c.releaseAt.isExpired blk = false → c ∈ claimsOf w'.st snd) := by
  have e := (claim_pays_matured_once h).2.2.1
  rw [e]
  constructor
  · intro hn
    by_cases hx : c.releaseAt.isExpired blk = true
    · exact hx
    · exfalso; apply hn; simp [waiting, hc, hx]
  · intro hx
    simp [waiting, hc, hx]

/-- Claims change only by the owner's own unbond (append) or claim (matured ones removed). -/
theorem claims_frame {w w' : World} {blk : Block} {op : Op} {out : List Out}
    (h : tx w blk op = .ok (w', out)) (a : Addr) :
    claimsOf w'.st a =
      (match op with
       | .unbond snd amt => if snd = a then claimsOf w.st a ++ [⟨amt, w.st.cfg.period.after blk⟩] else claimsOf w.st a
       | .claim snd => if snd = a then waiting blk (claimsOf w.st a) else claimsOf w.st a
       | _ => claimsOf w.st a) := by
  cases op with
  | bond snd coins =>
    obtain ⟨_, _, _, _, _, new, _, _, _, hu, _⟩ := tx_bond_ok h
    simp only [claimsOf]; rw [(um_pair hu).1, (um_frame _ _ _ _).2.2.2.2]; rfl
  | send snd token amt ok =>
    obtain ⟨_, _, new, _, _, _, hu, _⟩ := tx_send_ok h
    simp only [claimsOf]; rw [(um_pair hu).1, (um_frame _ _ _ _).2.2.2.2]; rfl
  | receive snd sender amt ok => exact (tx_receive_never h).elim
  | unbond snd amt =>
    obtain ⟨h1, h2⟩ := unbond_creates_claim h
    simp only
    split
    · rename_i e; subst e; exact h1
    · rename_i e; exact h2 a (Ne.symm e)
  | claim snd =>
    obtain ⟨_, _, h1, h2, _⟩ := claim_pays_matured_once h
    simp only
    split
    · rename_i e; subst e; exact h1
    · rename_i e; exact h2 a (Ne.symm e)
  | updateAdmin snd x => obtain ⟨_, _, adm, rfl⟩ := tx_updateAdmin_ok h; rfl
  | addHook snd x => obtain ⟨_, _, _, rfl⟩ := tx_addHook_ok h; rfl
  | removeHook snd x => obtain ⟨_, _, _, rfl⟩ := tx_removeHook_ok h; rfl
  | donate snd amt => obtain ⟨_, _, rfl⟩ := tx_donate_ok h; rfl

/-- Every claim on the books stems from an unbond of its owner in the history, with that amount, and
releases exactly one unbonding period after the block of that unbond. -/
def ClaimsFrom (cfg : Config) (past : List (Block × Op)) (w : World) : Prop :=
  w.st.cfg = cfg ∧
  ∀ a c, c ∈ claimsOf w.st a → ∃ b amt, (b, Op.unbond a amt) ∈ past ∧ c = ⟨amt, cfg.period.after b⟩

theorem claimsFrom_step {cfg : Config} {past : List (Block × Op)} {w : World} (hi : ClaimsFrom cfg past w)
    (o : Block × Op) : ClaimsFrom cfg (past ++ [o]) (step w o.1 o.2) := by
  obtain ⟨hcfg, hcl⟩ := hi
  unfold step
  split
  · rename_i w' out ht
    refine ⟨(cfg_tx ht).trans hcfg, ?_⟩
    intro a c hc
    rw [claims_frame ht a] at hc
    have old : ∀ c, c ∈ claimsOf w.st a → ∃ b amt, (b, Op.unbond a amt) ∈ past ++ [o] ∧ c = ⟨amt, cfg.period.after b⟩ := by
      intro c hc
      obtain ⟨b, amt, hm, e⟩ := hcl a c hc
      exact ⟨b, amt, by simp [hm], e⟩
    obtain ⟨blk, op⟩ := o
    cases op with
    | unbond snd amt =>
      simp only at hc
      split at hc
      · rename_i e; subst e
        rw [List.mem_append] at hc
        rcases hc with hc | hc
        · exact old c hc
        · simp at hc; subst hc
          exact ⟨blk, amt, by simp, by rw [hcfg]⟩
      · exact old c hc
    | claim snd =>
      simp only at hc
      split at hc
      · exact old c (by simp [waiting] at hc; exact hc.1)
      · exact old c hc
    | bond snd coins => exact old c hc
    | send snd token amt ok => exact old c hc
    | receive snd sender amt ok => exact old c hc
    | updateAdmin snd x => exact old c hc
    | addHook snd x => exact old c hc
    | removeHook snd x => exact old c hc
    | donate snd amt => exact old c hc
  · refine ⟨hcfg, ?_⟩
    intro a c hc
    obtain ⟨b, amt, hm, e⟩ := hcl a c hc
    exact ⟨b, amt, by simp [hm], e⟩

theorem claimsFrom_run {cfg : Config} (past : List (Block × Op)) (w : World) (hi : ClaimsFrom cfg past w)
    (ops : List (Block × Op)) : ClaimsFrom cfg (past ++ ops) (run w ops) := by
  induction ops generalizing past w with
  | nil => simpa [run] using hi
  | cons o rest ih =>
    have := ih (past ++ [o]) (step w o.1 o.2) (claimsFrom_step hi o)
    simpa [run, List.append_assoc] using this

/-- **C10 `claim_not_early` (histories)**: after any history, every unreleased claim of `a` was created by
an `Unbond { amt }` of `a` itself at some block `b` of that history, has that amount, and its `release_at`
is `unbonding_period.after(b)`; together with `claim_not_early` (a claim is paid only when
`release_at.is_expired`) and `after_isExpired` nothing is paid before the whole unbonding period has
passed since the unbond. -/
theorem claim_release_at {m : InstMsg} {st : State} (h : instantiate m = .ok st) (bal : AMap Addr Nat) (acc : List Addr)
    (ops : List (Block × Op)) (a : Addr) (c : Claim) (hc : c ∈ claimsOf (run (World.init st bal acc) ops).st a) :
    ∃ b amt, (b, Op.unbond a amt) ∈ ops ∧ c = ⟨amt, st.cfg.period.after b⟩ := by
  have h0 : ClaimsFrom st.cfg [] (World.init st bal acc) := by
    refine ⟨rfl, ?_⟩
    simp [instantiate] at h
    obtain ⟨adm, _, rfl⟩ := h
    intro a c hc
    simp [World.init, claimsOf] at hc
  have := (claimsFrom_run [] _ h0 ops).2 a c hc
  simpa using this

/-! ## member_iff_min_bond, weight_is_quotient -/

/-- The membership table is exactly what `calc_weight` says about the current stakes. -/
def WeightInv (s : State) : Prop :=
  1 ≤ s.cfg.minBond ∧ ∀ a, calcWeight s.cfg (stakeOf s a) = .ok (weightOf s a)

theorem weightInv_um {s : State} {h : Nat} {snd : Addr} {st : Nat} {new : Option Nat} (stake' : AMap Addr Nat)
    (hi : WeightInv s) (hst : ∀ a, (stake'.get? a).getD 0 = if snd = a then st else stakeOf s a)
    (hc : calcWeight s.cfg st = .ok new) (claims' : AMap Addr (List Claim)) :
    WeightInv (um { s with stake := stake', claims := claims' } h snd new).1 := by
  obtain ⟨h1, h2⟩ := hi
  obtain ⟨ecfg, _, _, es, _⟩ := um_frame { s with stake := stake', claims := claims' } h snd new
  refine ⟨by rw [ecfg]; exact h1, ?_⟩
  intro a
  unfold weightOf stakeOf
  rw [um_get?, ecfg, es]
  simp only
  rw [hst a]
  split
  · exact hc
  · exact h2 a

/-- Every successful transaction keeps the membership table consistent with the stakes. -/
theorem weightInv_tx {w w' : World} {blk : Block} {op : Op} {out : List Out}
    (hi : WeightInv w.st) (h : tx w blk op = .ok (w', out)) : WeightInv w'.st := by
  cases op with
  | bond snd coins =>
    obtain ⟨_, amt, _, _, _, new, _, _, hc, hu, _⟩ := tx_bond_ok h
    rw [(um_pair hu).1]
    exact weightInv_um _ hi (fun a => by simp only [AMap.get?_set]; split <;> simp [stakeOf]) hc w.st.claims
  | send snd token amt ok =>
    obtain ⟨_, _, new, _, _, hc, hu, _⟩ := tx_send_ok h
    rw [(um_pair hu).1]
    exact weightInv_um _ hi (fun a => by simp only [AMap.get?_set]; split <;> simp [stakeOf]) hc w.st.claims
  | receive snd sender amt ok => exact (tx_receive_never h).elim
  | unbond snd amt =>
    obtain ⟨new, _, hc, hu, _⟩ := tx_unbond_ok h
    rw [(um_pair hu).1]
    exact weightInv_um _ hi (fun a => by simp only [AMap.get?_set]; split <;> simp [stakeOf]) hc _
  | claim snd => obtain ⟨_, _, _, hst, _⟩ := tx_claim_ok h; rw [hst]; exact hi
  | updateAdmin snd x => obtain ⟨_, _, adm, rfl⟩ := tx_updateAdmin_ok h; exact hi
  | addHook snd x => obtain ⟨_, _, _, rfl⟩ := tx_addHook_ok h; exact hi
  | removeHook snd x => obtain ⟨_, _, _, rfl⟩ := tx_removeHook_ok h; exact hi
  | donate snd amt => obtain ⟨_, _, rfl⟩ := tx_donate_ok h; exact hi

theorem weightInv_init {m : InstMsg} {st : State} (h : instantiate m = .ok st) : WeightInv st := by
  simp [instantiate] at h
  obtain ⟨adm, _, rfl⟩ := h
  refine ⟨by simp; omega, ?_⟩
  intro a
  have : ¬ (max m.minBond 1 = 0) := by omega
  simp [calcWeight, stakeOf, weightOf, SnapMap.get?, this]

theorem weightInv_run {m : InstMsg} {st : State} (h : instantiate m = .ok st) (bal : AMap Addr Nat) (acc : List Addr)
    (ops : List (Block × Op)) : WeightInv (run (World.init st bal acc) ops).st :=
  run_inv (fun w => WeightInv w.st) (fun _ _ _ _ _ hi ht => weightInv_tx hi ht) (weightInv_init h) ops

/-- The stored `min_bond` is `max(min_bond, 1)` of the instantiation message. -/
theorem min_bond_at_least_one {m : InstMsg} {st : State} (h : instantiate m = .ok st) :
    st.cfg.minBond = max m.minBond 1 := by
  simp [instantiate] at h
  obtain ⟨adm, _, rfl⟩ := h
  rfl

/-- **C10 `member_iff_min_bond`**: after any history, an address is reported as a member exactly when
its stake is at least the (stored) minimum bond. -/
theorem member_iff_min_bond {m : InstMsg} {st : State} (h : instantiate m = .ok st) (bal : AMap Addr Nat)
    (acc : List Addr) (ops : List (Block × Op)) (a : Addr) :
    (weightOf (run (World.init st bal acc) ops).st a).isSome = true ↔
      (run (World.init st bal acc) ops).st.cfg.minBond ≤ stakeOf (run (World.init st bal acc) ops).st a := by
  obtain ⟨_, h2⟩ := weightInv_run h bal acc ops
  obtain ⟨e, _⟩ := calcWeight_ok (h2 a)
  rw [e]
  split
  · simp; omega
  · simp; omega

/-- **C10 `weight_is_quotient`**: after any history, whenever an address is reported as a member its
weight is exactly `stake / tokens_per_weight` (integer quotient of the *current* stake — never stale,
never wrapped: it fits `u64`), and `tokens_per_weight` is not zero. -/
theorem weight_is_quotient {m : InstMsg} {st : State} (h : instantiate m = .ok st) (bal : AMap Addr Nat)
    (acc : List Addr) (ops : List (Block × Op)) (a : Addr) (wt : Nat)
    (hw : weightOf (run (World.init st bal acc) ops).st a = some wt) :
    wt = stakeOf (run (World.init st bal acc) ops).st a / (run (World.init st bal acc) ops).st.cfg.tokensPerWeight ∧
    wt ≤ U64_MAX ∧ (run (World.init st bal acc) ops).st.cfg.tokensPerWeight ≠ 0 := by
  obtain ⟨_, h2⟩ := weightInv_run h bal acc ops
  obtain ⟨e, hb⟩ := calcWeight_ok (h2 a)
  rw [hw] at e
  split at e
  · simp at e
  · rename_i hge
    simp at e
    obtain ⟨h3, h4⟩ := hb (by omega)
    exact ⟨e, by omega, h3⟩

/-- A stake whose quotient does not fit `u64` can never be recorded: the bond fails (D4 fix). -/
theorem no_wrap {w w' : World} {blk : Block} {op : Op} {out : List Out}
    (hi : WeightInv w.st) (h : tx w blk op = .ok (w', out)) (a : Addr)
    (hm : w'.st.cfg.minBond ≤ stakeOf w'.st a) :
    stakeOf w'.st a / w'.st.cfg.tokensPerWeight ≤ U64_MAX := by
  obtain ⟨_, h2⟩ := weightInv_tx hi h
  exact ((calcWeight_ok (h2 a)).2 hm).2

/-! ## Non-vacuity: concrete histories -/

def cfgMsg : InstMsg := ⟨.native "ustake", 10, 0, .height 5, some ⟨true, "admin"⟩⟩
def blk0 : Block := ⟨100, 1000⟩
def blk9 : Block := ⟨109, 1900⟩

def stOf (m : InstMsg) : State :=
  match instantiate m with
  | .ok st => st
  | .error _ => default

/-- alice bonds 57, unbonds 20 (claim releasing at height 105), tries to claim at once, bob sends 3
tokens to the contract, alice claims at height 109 and gets 20 back; her second claim fails. -/
def demoOps : List (Block × Op) :=
  [(blk0, .bond "alice" [("ustake", 57)]), (blk0, .unbond "alice" 20), (blk0, .claim "alice"),
   (blk0, .donate "bob" 3), (blk9, .claim "alice"), (blk9, .claim "alice")]

def demoWorld : World := run (World.init (stOf cfgMsg) [("alice", 100), ("bob", 5)] []) demoOps

example : (instantiate cfgMsg).isOk = true := by decide
example : stakeOf demoWorld.st "alice" = 37 ∧ weightOf demoWorld.st "alice" = some 3 ∧
    claimsOf demoWorld.st "alice" = [] ∧ balOf demoWorld "alice" = 63 ∧ demoWorld.held = 40 ∧
    demoWorld.extra = 3 ∧ demoWorld.st.cfg.minBond = 1 := by decide
/-- the early claim (same block as the unbond) fails -/
example : (tx (run (World.init (stOf cfgMsg) [("alice", 100)] []) (demoOps.take 2)) blk0 (.claim "alice")).isOk = false := by
  decide
/-- D4 witness on the model: stake 2^64+5 with tokens_per_weight = 1 is refused, 2^64−1 is accepted -/
example :
    let w := World.init (stOf ⟨.native "ustake", 1, 0, .height 5, none⟩) [("alice", 18446744073709551621)] []
    (tx w blk0 (.bond "alice" [("ustake", 18446744073709551621)])).isOk = false ∧
    (tx w blk0 (.bond "alice" [("ustake", 18446744073709551615)])).isOk = true := by
  decide


/-! ## A liveness quirk of `update_membership`: `total + new − old` is evaluated left to right

`TOTAL.update(|t| t + new − old)` computes `total + new` first, in `u64` with overflow checks.  While a
member's old weight is still part of the total, `total + new` counts that member twice, so the
intermediate sum can exceed `u64::MAX` although the final value `total − old + new` fits.  The
transaction then panics and is rolled back: a *partial* unbond (or a further bond) by a very large
staker can be refused.  Nothing is recorded wrongly — this is **not a violation of C10** (stakes stay
backed, weights stay exact quotients, nobody's stake changes; the staker can still exit by unbonding
down below `min_bond`, which makes `new = 0`) — it is a liveness quirk, documented here precisely. -/

/-- **`update_total_ok_of_room`** (the general positive statement): when the new weight is computable
(`calc_weight` succeeds), the member's old weight is part of the total (always true after an
instantiation: C09 `total_eq_sum_members` / `no_underflow`) and there is room for the intermediate sum,
`total + new ≤ u64::MAX`, then `update_membership` — hence the update of the total — cannot fail, and
its result is the closed form `um`. -/
theorem update_total_ok_of_room {s : State} {h : Nat} {a : Addr} {ns : Nat} {new : Option Nat}
    (hc : calcWeight s.cfg ns = .ok new) (hpart : (s.members.get? a).getD 0 ≤ s.total)
    (hroom : s.total + new.getD 0 ≤ U64_MAX) :
    updateMembership s h a ns = .ok (um s h a new) := by
  unfold updateMembership um
  simp only [hc, bind, Except.bind]
  by_cases hn : new = s.members.get? a
  · simp [hn, pure, Except.pure]
  · have h2 : (s.members.get? a).getD 0 ≤ s.total + new.getD 0 := by omega
    simp [hn, addU64, subU64, hroom, h2, pure, Except.pure]

/-- The converse: when the weight changes and the intermediate sum does not fit, `update_membership`
fails with the `u64` overflow — whatever the final value would have been. -/
theorem update_total_overflow_of_no_room {s : State} {h : Nat} {a : Addr} {ns : Nat} {new : Option Nat}
    (hc : calcWeight s.cfg ns = .ok new) (hne : new ≠ s.members.get? a)
    (hno : U64_MAX < s.total + new.getD 0) :
    updateMembership s h a ns = .error "overflow.u64" := by
  unfold updateMembership
  have : ¬ (s.total + new.getD 0 ≤ U64_MAX) := by omega
  simp [hc, bind, Except.bind, hne, addU64, this]

/-- tokens_per_weight = 1, min_bond = 1, no admin -/
def bigCfg : InstMsg := ⟨.native "ustake", 1, 0, .height 5, none⟩
/-- alice owns 2^64 − 1 stake tokens -/
def bigWorld : World := World.init (stOf bigCfg) [("alice", 18446744073709551615)] []
/-- … and has bonded them all: weight = total = 2^64 − 1 -/
def bigBonded : World := step bigWorld blk0 (.bond "alice" [("ustake", 18446744073709551615)])

/-- **`unbond_may_overflow_total`** (concrete instance on the model): with `tokens_per_weight = 1` a bond
of 2^64 − 1 is accepted (weight and total 2^64 − 1); then `unbond 4` — new weight 2^64 − 5, final total
2^64 − 5, both representable — is refused with the `u64` overflow tag because `total + new = 2^65 − 6`
is computed first; the state is unchanged by the failed transaction, and unbonding everything (new
weight 0) still works. -/
theorem unbond_may_overflow_total :
    (tx bigWorld blk0 (.bond "alice" [("ustake", 18446744073709551615)])).isOk = true ∧
    bigBonded.st.total = 18446744073709551615 ∧ weightOf bigBonded.st "alice" = some 18446744073709551615 ∧
    (tx bigBonded blk0 (.unbond "alice" 4)).tag = "overflow.u64" ∧
    stakeOf (step bigBonded blk0 (.unbond "alice" 4)).st "alice" = 18446744073709551615 ∧
    (tx bigBonded blk0 (.unbond "alice" 18446744073709551615)).isOk = true := by
  decide

/-- non-vacuity of `update_total_ok_of_room` / `update_total_overflow_of_no_room` on concrete states -/
example : updateMembership demoWorld.st 200 "alice" 17 = .ok (um demoWorld.st 200 "alice" (some 1)) :=
  update_total_ok_of_room (by rfl) (by decide) (by decide)
example : updateMembership bigBonded.st 200 "alice" 18446744073709551611 = .error "overflow.u64" :=
  update_total_overflow_of_no_room (new := some 18446744073709551611) (by rfl) (by decide) (by decide)

/-! # History-level ledgers (review round)

The theorems above are per transaction or about the books as a whole.  The ones below follow one address
through an arbitrary history: which claims it holds (`claims_ledger`), where every paid claim came from and
that its whole period had passed (`paid_after_period`), what happened to its balance (`balance_frame`), and
the exact accounting `paid out + unreleased claims + stake = bonded` (`value_conservation`).  They also
remove two assumptions of the first round: the contract may hold funds before the history starts
(`backing_from`), and the `u128` bound of `claim_succeeds` is discharged from the token's supply
(`supply_conserved`, `claim_succeeds_run`). -/

/-! ## backing from any backed world -/

/-- **C10 `backing`, any start**: from *any* backed world — in particular a contract that was funded
before or at its instantiation, `held = extra = e` — every history keeps the books backed.  (`backing` is
the instance `World.init`, where the contract starts with nothing.) -/
theorem backing_from {w : World} (hi : Backed w) (ops : List (Block × Op)) : Backed (run w ops) :=
  run_inv Backed (fun _ _ _ _ _ hi ht => backing_tx hi ht) hi ops

/-- A contract instantiated while already holding `e` stake tokens (sent to its address beforehand or
attached to the instantiation): those tokens are plain transfers. -/
def initFunded (st : State) (e : Nat) (bal : AMap Addr Nat) (acc : List Addr) : World :=
  { st := st, held := e, bal := bal, extra := e, accepting := acc }

/-- **C10 `backing`, pre-funded contract**: holdings ≥ Σ stakes + Σ unreleased claims after every history
of a contract that started with any amount `e` of the stake token; the surplus is exactly `e` plus the
later plain transfers. -/
theorem backing_prefunded {m : InstMsg} {st : State} (h : instantiate m = .ok st) (e : Nat) (bal : AMap Addr Nat)
    (acc : List Addr) (ops : List (Block × Op)) :
    Backed (run (initFunded st e bal acc) ops) ∧
    stakeTotal (run (initFunded st e bal acc) ops).st + claimsTotal (run (initFunded st e bal acc) ops).st
      ≤ (run (initFunded st e bal acc) ops).held := by
  have h0 : Backed (initFunded st e bal acc) := by
    simp [instantiate] at h
    obtain ⟨adm, _, rfl⟩ := h
    simp [Backed, initFunded, stakeTotal, claimsTotal]
  have := backing_from h0 ops
  refine ⟨this, ?_⟩
  unfold Backed at this
  omega

/-! ## balance_frame, held_frame -/

/-- Stake tokens the transaction `op` sends to the contract as a plain transfer of `a`. -/
def donated (op : Op) (a : Addr) : Nat :=
  match op with
  | .donate snd amt => if snd = a then amt else 0
  | _ => 0

/-- What a `Claim` by `a` at `blk` pays to `a` (all its matured claims); 0 for every other transaction. -/
def claimDue (w : World) (blk : Block) (op : Op) (a : Addr) : Nat :=
  match op with
  | .claim snd => if snd = a then amountSum (matured blk (claimsOf w.st a)) else 0
  | _ => 0

theorem balOf_set (w : World) (k x : Addr) (v : Nat) :
    ((w.bal.set k v).get? x).getD 0 = if k = x then v else balOf w x := by
  rw [AMap.get?_set]; split <;> simp [balOf]

theorem deposited_bal {w w' : World} {h : Nat} {snd : Addr} {amt : Nat} {out : List Out}
    (hd : Deposited w w' h snd amt out) (x : Addr) :
    balOf w' x = (if snd = x then balOf w x - amt else balOf w x) ∧ amt ≤ balOf w snd := by
  obtain ⟨new, hle, _, _, _, _, _, hb, _⟩ := hd
  refine ⟨?_, hle⟩
  unfold balOf at *
  rw [hb, AMap.get?_set]
  split
  · rename_i e; subst e; simp
  · rfl

/-- **C10 `stake_frame`, the payer's side ("by exactly the amount")**: a successful transaction changes
the stake-token balance of an account `x` only when `x` itself signed it, and then by exactly the amount it
bonded (`Bond` / cw20 `Send`), transferred to the contract, or was paid by its own `Claim` (the sum of its
matured claims).  Nobody else's balance moves; unbonding moves no tokens. -/
theorem balance_frame {w w' : World} {blk : Block} {op : Op} {out : List Out}
    (h : tx w blk op = .ok (w', out)) (x : Addr) :
    balOf w' x + bonded op x + donated op x = balOf w x + claimDue w blk op x ∧
    bonded op x + donated op x ≤ balOf w x := by
  cases op with
  | bond snd coins =>
    obtain ⟨d, amt, _, rfl, _, hd⟩ := tx_bond_ok h
    obtain ⟨e, hle⟩ := deposited_bal hd x
    rw [e]
    simp only [bonded, donated, claimDue]
    split
    · rename_i e; subst e; simp; omega
    · simp
  | send snd token amt ok =>
    obtain ⟨_, _, hd⟩ := tx_send_ok h
    obtain ⟨e, hle⟩ := deposited_bal hd x
    rw [e]
    simp only [bonded, donated, claimDue]
    split
    · rename_i e; subst e; simp; omega
    · simp
  | receive snd sender amt ok => exact (tx_receive_never h).elim
  | unbond snd amt =>
    obtain ⟨new, _, _, _, _, _, hb, _⟩ := tx_unbond_ok h
    simp [bonded, donated, claimDue, balOf, hb]
  | claim snd =>
    obtain ⟨_, _, _, _, _, hb, _⟩ := tx_claim_ok h
    simp only [bonded, donated, claimDue]
    unfold balOf at *
    rw [hb, AMap.get?_set]
    split
    · rename_i e; subst e; simp
    · simp
  | updateAdmin snd a => obtain ⟨_, _, adm, rfl⟩ := tx_updateAdmin_ok h; simp [bonded, donated, claimDue, balOf]
  | addHook snd a => obtain ⟨_, _, _, rfl⟩ := tx_addHook_ok h; simp [bonded, donated, claimDue, balOf]
  | removeHook snd a => obtain ⟨_, _, _, rfl⟩ := tx_removeHook_ok h; simp [bonded, donated, claimDue, balOf]
  | donate snd amt =>
    obtain ⟨hle, _, rfl⟩ := tx_donate_ok h
    simp only [bonded, donated, claimDue]
    unfold balOf at *
    simp only [AMap.get?_set]
    split
    · rename_i e; subst e; simp; omega
    · simp

/-- **C10 `only_configured_token`, ledger form**: the contract's holdings in the stake token rise only by
what the signer bonded (one coin of the configured denom / a `Send` of the configured cw20 token — see
`only_configured_token`) or plainly transferred, and fall only by what a `Claim` pays its signer. -/
theorem held_frame {w w' : World} {blk : Block} {op : Op} {out : List Out}
    (h : tx w blk op = .ok (w', out)) :
    w'.held + claimDue w blk op (Op.sender op) =
      w.held + bonded op (Op.sender op) + donated op (Op.sender op) ∧
    claimDue w blk op (Op.sender op) ≤ w.held := by
  cases op with
  | bond snd coins =>
    obtain ⟨d, amt, _, rfl, _, hd⟩ := tx_bond_ok h
    have := (deposited_books hd).2.2.1
    simp [bonded, donated, claimDue, Op.sender, this]
  | send snd token amt ok =>
    obtain ⟨_, _, hd⟩ := tx_send_ok h
    have := (deposited_books hd).2.2.1
    simp [bonded, donated, claimDue, Op.sender, this]
  | receive snd sender amt ok => exact (tx_receive_never h).elim
  | unbond snd amt =>
    obtain ⟨new, _, _, _, _, hh, _⟩ := tx_unbond_ok h
    simp [bonded, donated, claimDue, hh]
  | claim snd =>
    obtain ⟨_, hle, _, _, hh, _⟩ := tx_claim_ok h
    simp only [bonded, donated, claimDue, Op.sender, if_true]
    omega
  | updateAdmin snd a => obtain ⟨_, _, adm, rfl⟩ := tx_updateAdmin_ok h; simp [bonded, donated, claimDue]
  | addHook snd a => obtain ⟨_, _, _, rfl⟩ := tx_addHook_ok h; simp [bonded, donated, claimDue]
  | removeHook snd a => obtain ⟨_, _, _, rfl⟩ := tx_removeHook_ok h; simp [bonded, donated, claimDue]
  | donate snd amt =>
    obtain ⟨_, _, rfl⟩ := tx_donate_ok h
    simp [bonded, donated, claimDue, Op.sender]

/-! ## supply_conserved, claim_succeeds_run -/

/-- One transaction moves stake tokens between the users and the contract and creates or destroys none. -/
theorem supply_tx {w w' : World} {blk : Block} {op : Op} {out : List Out}
    (h : tx w blk op = .ok (w', out)) : w'.held + AMap.sum w'.bal = w.held + AMap.sum w.bal := by
  have dep : ∀ {h' : Nat} {snd : Addr} {amt : Nat}, Deposited w w' h' snd amt out →
      w'.held + AMap.sum w'.bal = w.held + AMap.sum w.bal := by
    intro h' snd amt hd
    obtain ⟨new, hle, _, _, _, _, hh, hb, _⟩ := hd
    have := AMap.sum_set w.bal snd (balOf w snd - amt)
    rw [hh, hb]
    unfold balOf at *
    omega
  cases op with
  | bond snd coins => obtain ⟨_, _, _, _, _, hd⟩ := tx_bond_ok h; exact dep hd
  | send snd token amt ok => obtain ⟨_, _, hd⟩ := tx_send_ok h; exact dep hd
  | receive snd sender amt ok => exact (tx_receive_never h).elim
  | unbond snd amt => obtain ⟨new, _, _, _, _, hh, hb, _⟩ := tx_unbond_ok h; rw [hh, hb]
  | claim snd =>
    obtain ⟨_, hle, _, _, hh, hb, _⟩ := tx_claim_ok h
    have := AMap.sum_set w.bal snd (balOf w snd + amountSum (matured blk (claimsOf w.st snd)))
    rw [hh, hb]
    unfold balOf at *
    omega
  | updateAdmin snd a => obtain ⟨_, _, adm, rfl⟩ := tx_updateAdmin_ok h; rfl
  | addHook snd a => obtain ⟨_, _, _, rfl⟩ := tx_addHook_ok h; rfl
  | removeHook snd a => obtain ⟨_, _, _, rfl⟩ := tx_removeHook_ok h; rfl
  | donate snd amt =>
    obtain ⟨hle, _, rfl⟩ := tx_donate_ok h
    have := AMap.sum_set w.bal snd (balOf w snd - amt)
    simp only
    unfold balOf at *
    omega

/-- **C10 `backing`, the token side**: over every history the stake tokens held by the contract plus
those held by the users are constant — the contract neither mints nor burns; in particular its holdings
never exceed the supply it started from. -/
theorem supply_conserved (w : World) (ops : List (Block × Op)) :
    (run w ops).held + AMap.sum (run w ops).bal = w.held + AMap.sum w.bal :=
  run_inv (fun x => x.held + AMap.sum x.bal = w.held + AMap.sum w.bal)
    (fun _ _ _ _ _ hi ht => (supply_tx ht).trans hi) rfl ops

/-- `claim_succeeds` along histories from any backed world whose token supply fits `u128`. -/
theorem claim_succeeds_from {w : World} (hi : Backed w) (hfit : w.held + AMap.sum w.bal ≤ U128_MAX)
    (ops : List (Block × Op)) (blk : Block) (a : Addr)
    (hdue : 0 < amountSum (matured blk (claimsOf (run w ops).st a))) :
    ∃ w' out, tx (run w ops) blk (.claim a) = .ok (w', out) := by
  have := supply_conserved w ops
  exact claim_succeeds (backing_from hi ops) (by omega) blk a hdue

/-- **C10 `claim_pays_matured_once`, paying direction over histories**: after any accepted instantiation
and any history, when the users' token balances at the start sum to at most `u128::MAX` (the supply of
the stake token fits `u128` — the stated assumption about the token), a `Claim` by an address with a
positive amount of matured claims succeeds: it can be refused neither for lack of funds nor by overflow.
(The hypothesis `hfit` of `claim_succeeds` is discharged here.) -/
theorem claim_succeeds_run {m : InstMsg} {st : State} (h : instantiate m = .ok st) (bal : AMap Addr Nat)
    (acc : List Addr) (hsupply : AMap.sum bal ≤ U128_MAX) (ops : List (Block × Op)) (blk : Block) (a : Addr)
    (hdue : 0 < amountSum (matured blk (claimsOf (run (World.init st bal acc) ops).st a))) :
    ∃ w' out, tx (run (World.init st bal acc) ops) blk (.claim a) = .ok (w', out) :=
  claim_succeeds_from (backing_init h bal acc) (by simpa [World.init] using hsupply) ops blk a hdue

/-! ## claims_ledger -/

/-- The effect of one transaction of the history on the claims of `a`: a *successful* `Unbond { amt }` of
`a` at block `blk` appends one claim of `amt` releasing at `period.after(blk)`, a *successful* `Claim` of
`a` at `blk` keeps exactly the claims not yet expired at `blk`; everything else (other senders, other
kinds, failed transactions) changes nothing. -/
def ledgerStep (cfg : Config) (ok : Bool) (blk : Block) (op : Op) (a : Addr) (l : List Claim) : List Claim :=
  match ok, op with
  | true, .unbond snd amt => if snd = a then l ++ [⟨amt, cfg.period.after blk⟩] else l
  | true, .claim snd => if snd = a then waiting blk l else l
  | _, _ => l

/-- The claims ledger of `a`: fold of `ledgerStep` along the history (success is that of `tx` in the world
reached so far). -/
def ledger (cfg : Config) (w : World) (ops : List (Block × Op)) (a : Addr) (l : List Claim) : List Claim :=
  match ops with
  | [] => l
  | o :: rest => ledger cfg (step w o.1 o.2) rest a (ledgerStep cfg (tx w o.1 o.2).isOk o.1 o.2 a l)

theorem cfg_step (w : World) (blk : Block) (op : Op) : (step w blk op).st.cfg = w.st.cfg := by
  unfold step; split
  · rename_i w' out ht; exact cfg_tx ht
  · rfl

theorem claims_step (w : World) (blk : Block) (op : Op) (a : Addr) :
    claimsOf (step w blk op).st a = ledgerStep w.st.cfg (tx w blk op).isOk blk op a (claimsOf w.st a) := by
  rcases step_cases w blk op with ⟨w', out, ht, hs, _, hok⟩ | ⟨hs, _, hok⟩
  · rw [hs, hok, claims_frame ht a]
    cases op <;> rfl
  · rw [hs, hok]
    cases op <;> rfl

/-- The claims ledger from any world. -/
theorem claims_ledger_from (w : World) (ops : List (Block × Op)) (a : Addr) :
    claimsOf (run w ops).st a = ledger w.st.cfg w ops a (claimsOf w.st a) := by
  induction ops generalizing w with
  | nil => rfl
  | cons o rest ih =>
    rw [run_cons, ih, cfg_step, claims_step]
    rfl

/-- **C10 `claim_pays_matured_once` / `claim_not_early`, the claims ledger over histories**: after any
accepted instantiation and any history, the claims recorded for `a` are exactly the ledger of the history —
one claim `⟨amt, unbonding_period.after(block)⟩` appended per *successful* `Unbond { amt }` of `a`, in
order, the expired ones dropped at each *successful* `Claim` of `a`, nothing else.  So a claim is created
once per unbond, is removed (= paid, `claim_pays_matured_once`) at most once, and no claim appears that no
unbond created. -/
theorem claims_ledger {m : InstMsg} {st : State} (h : instantiate m = .ok st) (bal : AMap Addr Nat)
    (acc : List Addr) (ops : List (Block × Op)) (a : Addr) :
    claimsOf (run (World.init st bal acc) ops).st a = ledger st.cfg (World.init st bal acc) ops a [] := by
  rw [claims_ledger_from]
  simp [instantiate] at h
  obtain ⟨adm, _, rfl⟩ := h
  rfl

/-! ## paid_after_period -/

/-- Every claim on the books was created by a *successful* unbond of its owner at an identified position
of the history. -/
def Origin (w0 : World) (ops : List (Block × Op)) (a : Addr) (c : Claim) : Prop :=
  ∃ pre b amt post, ops = pre ++ (b, Op.unbond a amt) :: post ∧
    (tx (run w0 pre) b (.unbond a amt)).isOk = true ∧ c = ⟨amt, w0.st.cfg.period.after b⟩

theorem origin_snoc {w0 : World} {ops : List (Block × Op)} {a : Addr} {c : Claim} (o : Block × Op)
    (h : Origin w0 ops a c) : Origin w0 (ops ++ [o]) a c := by
  obtain ⟨pre, b, amt, post, e, hok, hc⟩ := h
  exact ⟨pre, b, amt, post ++ [o], by simp [e], hok, hc⟩

theorem origin_run (w0 : World) (h0 : ∀ a, claimsOf w0.st a = []) (ops : List (Block × Op)) :
    ∀ a c, c ∈ claimsOf (run w0 ops).st a → Origin w0 ops a c := by
  induction ops using List.rev_induction with
  | nil => intro a c hc; simp [h0 a] at hc
  | snoc ops o ih =>
    intro a c hc
    rw [run_append, run_cons, run_nil, claims_step, cfg_run] at hc
    obtain ⟨blk, op⟩ := o
    have old : ∀ c, c ∈ claimsOf (run w0 ops).st a → Origin w0 (ops ++ [(blk, op)]) a c :=
      fun c hc => origin_snoc _ (ih a c hc)
    cases hok : (tx (run w0 ops) blk op).isOk with
    | false => rw [hok] at hc; exact old c (by cases op <;> exact hc)
    | true =>
      rw [hok] at hc
      cases op with
      | unbond snd amt =>
        simp only [ledgerStep] at hc
        split at hc
        · rename_i e; subst e
          rcases List.mem_append.mp hc with hc | hc
          · exact old c hc
          · simp at hc
            exact ⟨ops, blk, amt, [], rfl, hok, hc⟩
        · exact old c hc
      | claim snd =>
        simp only [ledgerStep] at hc
        split at hc
        · exact old c (by simp [waiting] at hc; exact hc.1)
        · exact old c hc
      | bond _ _ => exact old c hc
      | send _ _ _ _ => exact old c hc
      | receive _ _ _ _ => exact old c hc
      | updateAdmin _ _ => exact old c hc
      | addHook _ _ => exact old c hc
      | removeHook _ _ => exact old c hc
      | donate _ _ => exact old c hc

/-- The whole unbonding period has passed between block `b` and block `blk`. -/
def PeriodPassed (d : Duration) (b blk : Block) : Prop :=
  match d with
  | .height n => b.height + n ≤ blk.height
  | .time secs => b.time + secs * 1000000000 ≤ blk.time

/-- **C10 `claim_not_early`, end to end**: after any accepted instantiation and any history `ops`, when a
`Claim` by `a` at block `blk` succeeds, it pays `a` exactly the sum of the claims `c` that it removes, and
every one of them was created by a *successful* `Unbond { amt }` of `a` itself at an identified position
of the history, at a block `b`, has that amount, and the whole unbonding period (blocks or seconds, as
configured) has passed between `b` and `blk`.  Nothing is ever paid that was not unbonded by the payee,
and nothing before the delay. -/
theorem paid_after_period {m : InstMsg} {st : State} (h : instantiate m = .ok st) (bal : AMap Addr Nat)
    (acc : List Addr) (ops : List (Block × Op)) (blk : Block) (a : Addr) {w' : World} {out : List Out}
    (hc : tx (run (World.init st bal acc) ops) blk (.claim a) = .ok (w', out)) :
    out = [payout st.cfg.denom a (amountSum (matured blk (claimsOf (run (World.init st bal acc) ops).st a)))] ∧
    claimsOf w'.st a = waiting blk (claimsOf (run (World.init st bal acc) ops).st a) ∧
    ∀ c ∈ matured blk (claimsOf (run (World.init st bal acc) ops).st a),
      ∃ pre b amt post, ops = pre ++ (b, Op.unbond a amt) :: post ∧
        (tx (run (World.init st bal acc) pre) b (.unbond a amt)).isOk = true ∧
        c = ⟨amt, st.cfg.period.after b⟩ ∧ PeriodPassed st.cfg.period b blk := by
  obtain ⟨_, ho, hw, _⟩ := claim_pays_matured_once hc
  have hcfg : (run (World.init st bal acc) ops).st.cfg = st.cfg := cfg_run _ _
  rw [hcfg] at ho
  refine ⟨ho, hw, ?_⟩
  intro c hm
  have hm' := List.mem_filter.mp hm
  have h0 : ∀ a, claimsOf (World.init st bal acc).st a = [] := by
    intro a
    simp [instantiate] at h
    obtain ⟨adm, _, rfl⟩ := h
    rfl
  obtain ⟨pre, b, amt, post, e, hok, hce⟩ := origin_run _ h0 ops a c hm'.1
  refine ⟨pre, b, amt, post, e, hok, hce, ?_⟩
  have hexp := hm'.2
  rw [hce] at hexp
  exact (after_isExpired st.cfg.period b blk).mp hexp

/-! ## Per-user accounting over histories: stake ledger, claims ledger in value, balance ledger -/

/-- Stake tokens the messages `out` pay to `a` (bank sends / cw20 transfers addressed to `a`). -/
def paidTo (a : Addr) : List Out → Nat
  | [] => 0
  | .bank to amt _ :: rest => (if to = a then amt else 0) + paidTo a rest
  | .cw20Transfer _ to amt :: rest => (if to = a then amt else 0) + paidTo a rest
  | .hook _ _ _ _ :: rest => paidTo a rest

theorem paidTo_append (a : Addr) (x y : List Out) : paidTo a (x ++ y) = paidTo a x + paidTo a y := by
  induction x with
  | nil => simp [paidTo]
  | cons o rest ih => cases o <;> simp [paidTo, ih] <;> omega

theorem paidTo_hooks (a : Addr) {out : List Out} (hh : ∀ o ∈ out, ∃ hk k old nw, o = Out.hook hk k old nw) :
    paidTo a out = 0 := by
  induction out with
  | nil => rfl
  | cons o rest ih =>
    obtain ⟨hk, k, old, nw, rfl⟩ := hh o (by simp)
    simp [paidTo, ih (fun o ho => hh o (by simp [ho]))]

theorem paidTo_payout (a : Addr) (d : Denom) (to : Addr) (amt : Nat) :
    paidTo a [payout d to amt] = if to = a then amt else 0 := by
  cases d <;> simp [payout, paidTo]

/-- Σ of `f op a` over the *successful* transactions of a history (`f` = `bonded`, `unbonded`, `donated`). -/
def flow (f : Op → Addr → Nat) (a : Addr) (w : World) : List (Block × Op) → Nat
  | [] => 0
  | o :: rest => (if (tx w o.1 o.2).isOk then f o.2 a else 0) + flow f a (step w o.1 o.2) rest

/-- The messages of a successful transaction pay `a` exactly what its own `Claim` is due; bonds and unbonds
emit only hook notifications. -/
theorem paid_tx {w w' : World} {blk : Block} {op : Op} {out : List Out}
    (h : tx w blk op = .ok (w', out)) (a : Addr) : paidTo a out = claimDue w blk op a := by
  cases op with
  | bond snd coins =>
    obtain ⟨_, _, _, _, _, new, _, _, _, hu, _⟩ := tx_bond_ok h
    rw [(um_pair hu).2, paidTo_hooks a (um_out_hooks _ _ _ _)]; rfl
  | send snd token amt ok =>
    obtain ⟨_, _, new, _, _, _, hu, _⟩ := tx_send_ok h
    rw [(um_pair hu).2, paidTo_hooks a (um_out_hooks _ _ _ _)]; rfl
  | receive snd sender amt ok => exact (tx_receive_never h).elim
  | unbond snd amt =>
    obtain ⟨new, _, _, hu, _⟩ := tx_unbond_ok h
    rw [(um_pair hu).2, paidTo_hooks a (um_out_hooks _ _ _ _)]; rfl
  | claim snd =>
    obtain ⟨_, _, ho, _⟩ := tx_claim_ok h
    rw [ho, paidTo_payout]
    simp only [claimDue]
    split
    · rename_i e; subst e; rfl
    · rfl
  | updateAdmin snd x => obtain ⟨_, ho, _⟩ := tx_updateAdmin_ok h; rw [ho]; rfl
  | addHook snd x => obtain ⟨_, ho, _⟩ := tx_addHook_ok h; rw [ho]; rfl
  | removeHook snd x => obtain ⟨_, ho, _⟩ := tx_removeHook_ok h; rw [ho]; rfl
  | donate snd amt => obtain ⟨_, ho, _⟩ := tx_donate_ok h; rw [ho]; rfl

/-- One transaction, the claims of `a` in value: what `a` unbonds becomes a claim, what a `Claim` pays
leaves the claims. -/
theorem claims_value_tx {w w' : World} {blk : Block} {op : Op} {out : List Out}
    (h : tx w blk op = .ok (w', out)) (a : Addr) :
    amountSum (claimsOf w'.st a) + claimDue w blk op a = amountSum (claimsOf w.st a) + unbonded op a := by
  rw [claims_frame h a]
  cases op with
  | unbond snd amt =>
    simp only [claimDue, unbonded]
    split
    · simp [amountSum]
    · rfl
  | claim snd =>
    simp only [claimDue, unbonded]
    split
    · have := amountSum_matured_waiting blk (claimsOf w.st a); omega
    · rfl
  | bond _ _ => rfl
  | send _ _ _ _ => rfl
  | receive _ _ _ _ => rfl
  | updateAdmin _ _ => rfl
  | addHook _ _ => rfl
  | removeHook _ _ => rfl
  | donate _ _ => rfl

/-- **C10 `stake_frame`, ledger over histories**: after any history from any world, the stake of `a` plus
everything `a` successfully unbonded equals its initial stake plus everything `a` successfully bonded
(native `Bond` or cw20 `Send`).  Failed transactions and other users' transactions contribute nothing. -/
theorem stake_ledger (a : Addr) (w : World) (ops : List (Block × Op)) :
    stakeOf (run w ops).st a + flow unbonded a w ops = stakeOf w.st a + flow bonded a w ops := by
  induction ops generalizing w with
  | nil => rfl
  | cons o rest ih =>
    have ih' := ih (step w o.1 o.2)
    simp only [run_cons, flow]
    rcases step_cases w o.1 o.2 with ⟨w', out, ht, hs, _, hok⟩ | ⟨hs, _, hok⟩
    · have := (stake_frame ht a).1
      rw [hs] at ih' ⊢; rw [hok]; simp only [if_true]; omega
    · rw [hs] at ih' ⊢; rw [hok]; simp only [Bool.false_eq_true, if_false]; omega

/-- **C10 `claim_pays_matured_once`, "once" in value**: after any history, everything paid out to `a` plus
`a`'s unreleased claims equals its initial claims plus everything `a` successfully unbonded: every unbonded
token is either still waiting as a claim or was paid out — exactly once. -/
theorem claims_value_ledger (a : Addr) (w : World) (ops : List (Block × Op)) :
    paidTo a (outs w ops) + amountSum (claimsOf (run w ops).st a)
      = amountSum (claimsOf w.st a) + flow unbonded a w ops := by
  induction ops generalizing w with
  | nil => simp [paidTo, flow]
  | cons o rest ih =>
    have ih' := ih (step w o.1 o.2)
    simp only [run_cons, outs_cons, flow, paidTo_append]
    rcases step_cases w o.1 o.2 with ⟨w', out, ht, hs, ho, hok⟩ | ⟨hs, ho, hok⟩
    · have h1 := claims_value_tx ht a
      have h2 := paid_tx ht a
      rw [hs] at ih' ⊢; rw [hok, ho]; simp only [if_true]; omega
    · rw [hs] at ih' ⊢; rw [hok, ho]; simp only [Bool.false_eq_true, if_false, paidTo]; omega

/-- **C10 `stake_frame`, the payer's side over histories**: the stake-token balance of `a` after any
history is its initial balance, minus what it successfully bonded and plainly transferred to the contract,
plus what the contract paid it. -/
theorem balance_ledger (a : Addr) (w : World) (ops : List (Block × Op)) :
    balOf (run w ops) a + flow bonded a w ops + flow donated a w ops = balOf w a + paidTo a (outs w ops) := by
  induction ops generalizing w with
  | nil => simp [paidTo, flow]
  | cons o rest ih =>
    have ih' := ih (step w o.1 o.2)
    simp only [run_cons, outs_cons, flow, paidTo_append]
    rcases step_cases w o.1 o.2 with ⟨w', out, ht, hs, ho, hok⟩ | ⟨hs, ho, hok⟩
    · have h1 := (balance_frame ht a).1
      have h2 := paid_tx ht a
      rw [hs] at ih' ⊢; rw [hok, ho]; simp only [if_true]; omega
    · rw [hs] at ih' ⊢; rw [hok, ho]; simp only [Bool.false_eq_true, if_false, paidTo]; omega

/-- **C10 value conservation per user** (`backing` and "exactly the amount", address by address): after any
accepted instantiation and any history, for every address
`paid out to a + unreleased claims of a + stake of a = everything a successfully bonded`.
Nobody gets out more than they put in, and nothing they put in disappears. -/
theorem value_conservation {m : InstMsg} {st : State} (h : instantiate m = .ok st) (bal : AMap Addr Nat)
    (acc : List Addr) (ops : List (Block × Op)) (a : Addr) :
    paidTo a (outs (World.init st bal acc) ops)
      + amountSum (claimsOf (run (World.init st bal acc) ops).st a)
      + stakeOf (run (World.init st bal acc) ops).st a
      = flow bonded a (World.init st bal acc) ops := by
  have h1 := stake_ledger a (World.init st bal acc) ops
  have h2 := claims_value_ledger a (World.init st bal acc) ops
  have h0 : stakeOf (World.init st bal acc).st a = 0 ∧ amountSum (claimsOf (World.init st bal acc).st a) = 0 := by
    simp [instantiate] at h
    obtain ⟨adm, _, rfl⟩ := h
    exact ⟨rfl, rfl⟩
  omega

/-! ## Non-vacuity of the history-level theorems -/

theorem inst_cfgMsg : instantiate cfgMsg = .ok (stOf cfgMsg) := rfl

/-- cw20 stake token, unbonding period of 60 seconds -/
def cw20Msg : InstMsg := ⟨.cw20 "tok", 10, 20, .time 60, none⟩
theorem inst_cw20Msg : instantiate cw20Msg = .ok (stOf cw20Msg) := rfl
def tblk (secs : Nat) : Block := ⟨100 + secs, 1000 + secs * 1000000000⟩

/-- carol sends 50 of the configured cw20 token with `Bond {}`, tries the wrong token, a garbled payload and
a forged `Receive`, unbonds 30 at t = 0 s, claims too early at t = 59 s, claims at t = 60 s. -/
def cw20Ops : List (Block × Op) :=
  [(tblk 0, .send "carol" "tok" 50 true), (tblk 0, .send "carol" "other" 50 true),
   (tblk 0, .send "carol" "tok" 5 false), (tblk 0, .receive "carol" ⟨true, "carol"⟩ 1000 true),
   (tblk 0, .unbond "carol" 30), (tblk 59, .claim "carol"), (tblk 60, .claim "carol")]

def cw20World0 : World := World.init (stOf cw20Msg) [("carol", 80)] []
def cw20World : World := run cw20World0 cw20Ops

/-- cw20 + time-based configuration: only the configured token bonds, the claim is refused at 59 s and paid
at 60 s -/
example : stakeOf cw20World.st "carol" = 20 ∧ weightOf cw20World.st "carol" = some 2 ∧
    claimsOf cw20World.st "carol" = [] ∧ balOf cw20World "carol" = 60 ∧ cw20World.held = 20 ∧
    outs cw20World0 cw20Ops = [.cw20Transfer "tok" "carol" 30] := by decide
example : ((List.range 7).map (fun i => (tx (run cw20World0 (cw20Ops.take i)) (cw20Ops[i]!).1 (cw20Ops[i]!).2).isOk))
    = [true, false, false, false, true, false, true] := by decide

/-- `claims_ledger`, `paid_after_period`, `value_conservation` on the cw20 history (5 of 6 ops, then the
successful claim at 60 s). -/
example : claimsOf (run cw20World0 (cw20Ops.take 6)).st "carol"
    = ledger (stOf cw20Msg).cfg cw20World0 (cw20Ops.take 6) "carol" [] :=
  claims_ledger inst_cw20Msg _ _ _ _
example : ledger (stOf cw20Msg).cfg cw20World0 (cw20Ops.take 6) "carol" [] = [⟨30, .atTime 60000001000⟩] := by
  decide
example : ∃ w' out, tx (run cw20World0 (cw20Ops.take 6)) (tblk 60) (.claim "carol") = .ok (w', out) ∧
    ∀ c ∈ matured (tblk 60) (claimsOf (run cw20World0 (cw20Ops.take 6)).st "carol"),
      ∃ pre b amt post, cw20Ops.take 6 = pre ++ (b, Op.unbond "carol" amt) :: post ∧
        (tx (run cw20World0 pre) b (.unbond "carol" amt)).isOk = true ∧
        c = ⟨amt, (stOf cw20Msg).cfg.period.after b⟩ ∧ PeriodPassed (stOf cw20Msg).cfg.period b (tblk 60) := by
  obtain ⟨w', out, ht⟩ := claim_succeeds_run inst_cw20Msg [("carol", 80)] [] (by decide) (cw20Ops.take 6)
    (tblk 60) "carol" (by decide)
  exact ⟨w', out, ht, (paid_after_period inst_cw20Msg _ _ _ _ _ ht).2.2⟩
example : paidTo "carol" (outs cw20World0 cw20Ops) = 30 ∧ flow bonded "carol" cw20World0 cw20Ops = 50 ∧
    flow unbonded "carol" cw20World0 cw20Ops = 30 := by decide

/-- native / height-based history of the first round: ledgers of alice and bob -/
example : paidTo "alice" (outs (World.init (stOf cfgMsg) [("alice", 100), ("bob", 5)] []) demoOps) = 20 ∧
    flow bonded "alice" (World.init (stOf cfgMsg) [("alice", 100), ("bob", 5)] []) demoOps = 57 ∧
    flow donated "bob" (World.init (stOf cfgMsg) [("alice", 100), ("bob", 5)] []) demoOps = 3 := by decide
example := value_conservation inst_cfgMsg [("alice", 100), ("bob", 5)] [] demoOps "alice"
example := balance_ledger "bob" (World.init (stOf cfgMsg) [("alice", 100), ("bob", 5)] []) demoOps

/-- a contract that already held 7 tokens when instantiated stays backed; its surplus is 7 + bob's 3 -/
example : (run (initFunded (stOf cfgMsg) 7 [("alice", 100), ("bob", 5)] []) demoOps).held = 47 ∧
    (run (initFunded (stOf cfgMsg) 7 [("alice", 100), ("bob", 5)] []) demoOps).extra = 10 := by decide
example := backing_prefunded inst_cfgMsg 7 [("alice", 100), ("bob", 5)] [] demoOps

/-- `balance_frame` / `held_frame` / `supply_tx` on alice's successful claim at height 109 -/
example : ∃ w' out, tx (run (World.init (stOf cfgMsg) [("alice", 100), ("bob", 5)] []) (demoOps.take 4)) blk9
    (.claim "alice") = .ok (w', out) ∧ balOf w' "alice" = 63 ∧ w'.held = 40 := by
  obtain ⟨w', out, ht⟩ := claim_succeeds_run inst_cfgMsg [("alice", 100), ("bob", 5)] [] (by decide)
    (demoOps.take 4) blk9 "alice" (by decide)
  refine ⟨w', out, ht, ?_, ?_⟩
  · have := (balance_frame ht "alice").1
    have e : balOf (run (World.init (stOf cfgMsg) [("alice", 100), ("bob", 5)] []) (demoOps.take 4)) "alice" = 43 := by
      decide
    have e2 : claimDue (run (World.init (stOf cfgMsg) [("alice", 100), ("bob", 5)] []) (demoOps.take 4)) blk9
        (.claim "alice") "alice" = 20 := by decide
    simp only [bonded, donated] at this
    omega
  · have := (held_frame ht).1
    have e : (run (World.init (stOf cfgMsg) [("alice", 100), ("bob", 5)] []) (demoOps.take 4)).held = 60 := by decide
    have e2 : claimDue (run (World.init (stOf cfgMsg) [("alice", 100), ("bob", 5)] []) (demoOps.take 4)) blk9
        (.claim "alice") "alice" = 20 := by decide
    simp only [bonded, donated, Op.sender] at this
    omega

/-- `only_configured_token`, native configuration: a foreign denom, two coins, a zero coin and a cw20 `Send`
are all refused; exactly one coin of `ustake` is accepted — and the theorem applies to that transaction. -/
example :
    let w := World.init (stOf cfgMsg) [("alice", 100)] []
    (tx w blk0 (.bond "alice" [("uother", 5)])).isOk = false ∧
    (tx w blk0 (.bond "alice" [("ustake", 5), ("uother", 5)])).isOk = false ∧
    (tx w blk0 (.bond "alice" [("ustake", 0)])).isOk = false ∧
    (tx w blk0 (.bond "alice" [])).isOk = false ∧
    (tx w blk0 (.send "alice" "tok" 5 true)).isOk = false ∧
    (tx w blk0 (.bond "alice" [("ustake", 5)])).isOk = true := by decide
example : ∃ w' out, tx (World.init (stOf cfgMsg) [("alice", 100)] []) blk0 (.bond "alice" [("ustake", 5)]) = .ok (w', out) ∧
    ∃ d amt, (stOf cfgMsg).cfg.denom = .native d ∧ [("ustake", 5)] = [(d, amt)] ∧ amt ≠ 0 := by
  rcases step_cases (World.init (stOf cfgMsg) [("alice", 100)] []) blk0 (.bond "alice" [("ustake", 5)])
    with ⟨w', out, ht, _, _, _⟩ | ⟨_, _, hf⟩
  · exact ⟨w', out, ht, (only_configured_token ht).1 _ _ rfl⟩
  · exact absurd hf (by decide)

/-! ## "Once", claim by claim: created claims = paid claims + waiting claims (as multisets) -/

/-- The claims a transaction of the history pays to `a`: the matured ones, when it is a successful `Claim`
of `a`. -/
def paidStep (w : World) (blk : Block) (op : Op) (a : Addr) : List Claim :=
  match (tx w blk op).isOk, op with
  | true, .claim snd => if snd = a then matured blk (claimsOf w.st a) else []
  | _, _ => []

/-- The claim a transaction of the history creates for `a`: one, when it is a successful `Unbond` of `a`. -/
def createdStep (w : World) (blk : Block) (op : Op) (a : Addr) : List Claim :=
  match (tx w blk op).isOk, op with
  | true, .unbond snd amt => if snd = a then [⟨amt, w.st.cfg.period.after blk⟩] else []
  | _, _ => []

/-- All claims paid to `a` along a history, in order of payment. -/
def paidClaims (a : Addr) (w : World) : List (Block × Op) → List Claim
  | [] => []
  | o :: rest => paidStep w o.1 o.2 a ++ paidClaims a (step w o.1 o.2) rest

/-- All claims created for `a` along a history, in order of creation. -/
def createdClaims (a : Addr) (w : World) : List (Block × Op) → List Claim
  | [] => []
  | o :: rest => createdStep w o.1 o.2 a ++ createdClaims a (step w o.1 o.2) rest

theorem claims_perm_step (w : World) (blk : Block) (op : Op) (a : Addr) :
    (paidStep w blk op a ++ claimsOf (step w blk op).st a).Perm (claimsOf w.st a ++ createdStep w blk op a) := by
  rw [claims_step]
  unfold paidStep createdStep
  cases hok : (tx w blk op).isOk with
  | false => cases op <;> simp [ledgerStep]
  | true =>
    cases op with
    | unbond snd amt =>
      simp only [ledgerStep]
      split <;> simp
    | claim snd =>
      simp only [ledgerStep]
      split
      · simp only [List.append_nil, matured, waiting]
        exact List.filter_append_perm _ _
      · simp
    | bond _ _ => simp [ledgerStep]
    | send _ _ _ _ => simp [ledgerStep]
    | receive _ _ _ _ => simp [ledgerStep]
    | updateAdmin _ _ => simp [ledgerStep]
    | addHook _ _ => simp [ledgerStep]
    | removeHook _ _ => simp [ledgerStep]
    | donate _ _ => simp [ledgerStep]

/-- **C10 `claim_pays_matured_once`, "once" claim by claim**: after any history from any world, the claims
paid to `a` together with the claims still waiting for `a` are — as multisets — exactly `a`'s initial claims
together with the claims created by `a`'s successful unbonds.  So every created claim is either still waiting
or was paid, never both, never twice, and none is lost; nothing is paid that was not created. -/
theorem claims_paid_once (a : Addr) (w : World) (ops : List (Block × Op)) :
    (paidClaims a w ops ++ claimsOf (run w ops).st a).Perm (claimsOf w.st a ++ createdClaims a w ops) := by
  induction ops generalizing w with
  | nil => simp [paidClaims, createdClaims]
  | cons o rest ih =>
    have h1 := claims_perm_step w o.1 o.2 a
    have h2 := ih (step w o.1 o.2)
    simp only [paidClaims, createdClaims, run_cons]
    calc (paidStep w o.1 o.2 a ++ paidClaims a (step w o.1 o.2) rest ++ claimsOf (run (step w o.1 o.2) rest).st a)
        = paidStep w o.1 o.2 a ++ (paidClaims a (step w o.1 o.2) rest ++ claimsOf (run (step w o.1 o.2) rest).st a) := by
          rw [List.append_assoc]
      _ |>.Perm (paidStep w o.1 o.2 a ++ (claimsOf (step w o.1 o.2).st a ++ createdClaims a (step w o.1 o.2) rest)) :=
          List.Perm.append_left _ h2
      _ = (paidStep w o.1 o.2 a ++ claimsOf (step w o.1 o.2).st a) ++ createdClaims a (step w o.1 o.2) rest := by
          rw [List.append_assoc]
      _ |>.Perm ((claimsOf w.st a ++ createdStep w o.1 o.2 a) ++ createdClaims a (step w o.1 o.2) rest) :=
          List.Perm.append_right _ h1
      _ = claimsOf w.st a ++ (createdStep w o.1 o.2 a ++ createdClaims a (step w o.1 o.2) rest) := by
          rw [List.append_assoc]

/-- The tokens the contract's messages pay to `a` are exactly the amounts of the claims paid to `a`. -/
theorem paidTo_eq_paidClaims (a : Addr) (w : World) (ops : List (Block × Op)) :
    paidTo a (outs w ops) = amountSum (paidClaims a w ops) := by
  induction ops generalizing w with
  | nil => rfl
  | cons o rest ih =>
    simp only [outs_cons, paidTo_append, paidClaims, amountSum_append, ih]
    congr 1
    unfold paidStep
    rcases step_cases w o.1 o.2 with ⟨w', out, ht, _, ho, hok⟩ | ⟨_, ho, hok⟩
    · rw [ho, hok, paid_tx ht a]
      cases o.2 <;> simp [claimDue, amountSum]
      split <;> simp
    · rw [ho, hok]; simp [paidTo, amountSum]

/-- on `demoOps`: alice's one created claim `⟨20, height 105⟩` was paid once (at height 109), none waits -/
example : paidClaims "alice" (World.init (stOf cfgMsg) [("alice", 100), ("bob", 5)] []) demoOps = [⟨20, .atHeight 105⟩] ∧
    createdClaims "alice" (World.init (stOf cfgMsg) [("alice", 100), ("bob", 5)] []) demoOps = [⟨20, .atHeight 105⟩] := by
  decide

end CwPlus.Props.C10
