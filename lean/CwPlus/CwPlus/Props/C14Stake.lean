import CwPlus.Lemmas.Cw4Stake
/-!
# C14 — cw4: only the admin changes hooks/admin, and hooks hear every change truthfully (cw4-stake part)

In cw4-stake the membership itself is not administered (weights follow stakes, see C10); the admin can
only add/remove hooks and hand over / give up the admin role.

* `hooks_admin_change_auth`: a transaction that changes the hook list or the admin is an
  `UpdateAdmin` / `AddHook` / `RemoveHook` signed by the current admin; `admin_none_frozen(_run)`: once the
  admin is cleared, admin and hooks never change again.
* `bond_unbond_diffs_truthful`: a bond (native or cw20) or unbond that changes the sender's weight sends
  every currently registered hook exactly one message with the single diff `(sender, true old weight,
  true new weight)`, in registration order; when the weight does not change no message is sent at all; the
  weights of all other addresses are untouched.  `silent_ops`: no other transaction sends a hook message or
  changes a weight.  `removed_hook_silent`: a removed hook is not among the targets of later notifications.
-/
namespace CwPlus.Props.C14Stake
open CwPlus CwPlus.Cw4Stake CwPlus.Snapshot

def Op.isAdminOp : Op → Bool
  | .updateAdmin _ _ | .addHook _ _ | .removeHook _ _ => true
  | _ => false

/-- Bond / unbond transactions only read `admin` and `hooks`. -/
theorem um_admin_hooks {st : State} {out : List Out} {s : State} {h : Nat} {a : Addr} {new : Option Nat}
    (e : (st, out) = um s h a new) : st.admin = s.admin ∧ st.hooks = s.hooks := by
  rw [(um_pair e).1]
  exact ⟨(um_frame _ _ _ _).2.1, (um_frame _ _ _ _).2.2.1⟩

/-- **C14 `hooks_admin_change_auth` (cw4-stake)**: if a successful transaction changes the admin or the
hook list, it is one of `UpdateAdmin` / `AddHook` / `RemoveHook` and its sender is the current admin. -/
theorem hooks_admin_change_auth {w w' : World} {blk : Block} {op : Op} {out : List Out}
    (h : tx w blk op = .ok (w', out)) (hc : w'.st.admin ≠ w.st.admin ∨ w'.st.hooks ≠ w.st.hooks) :
    w.st.admin = some (Op.sender op) ∧ Op.isAdminOp op = true := by
  cases op with
  | bond snd coins =>
    obtain ⟨_, amt, _, _, _, new, _, _, _, hu, _⟩ := tx_bond_ok h
    obtain ⟨e1, e2⟩ := um_admin_hooks hu
    exact absurd hc (by simp [e1, e2, bondState])
  | send snd token amt ok =>
    obtain ⟨_, _, new, _, _, _, hu, _⟩ := tx_send_ok h
    obtain ⟨e1, e2⟩ := um_admin_hooks hu
    exact absurd hc (by simp [e1, e2, bondState])
  | receive snd sender amt ok => exact (tx_receive_never h).elim
  | unbond snd amt =>
    obtain ⟨new, _, _, hu, _⟩ := tx_unbond_ok h
    obtain ⟨e1, e2⟩ := um_admin_hooks hu
    exact absurd hc (by simp [e1, e2, unbondState])
  | claim snd => obtain ⟨_, _, _, hst, _⟩ := tx_claim_ok h; exact absurd hc (by simp [hst])
  | updateAdmin snd x => obtain ⟨ha, _, _⟩ := tx_updateAdmin_ok h; exact ⟨ha, rfl⟩
  | addHook snd x => obtain ⟨ha, _, _⟩ := tx_addHook_ok h; exact ⟨ha, rfl⟩
  | removeHook snd x => obtain ⟨ha, _, _⟩ := tx_removeHook_ok h; exact ⟨ha, rfl⟩
  | donate snd amt => obtain ⟨_, _, rfl⟩ := tx_donate_ok h; exact absurd hc (by simp)

/-- **C14 `admin_none_frozen`**: with the admin cleared no transaction changes admin or hooks. -/
theorem admin_none_frozen {w w' : World} {blk : Block} {op : Op} {out : List Out}
    (hn : w.st.admin = none) (h : tx w blk op = .ok (w', out)) :
    w'.st.admin = none ∧ w'.st.hooks = w.st.hooks := by
  by_cases hc : w'.st.admin ≠ w.st.admin ∨ w'.st.hooks ≠ w.st.hooks
  · have := (hooks_admin_change_auth h hc).1
    rw [hn] at this; cases this
  · have : w'.st.admin = w.st.admin ∧ w'.st.hooks = w.st.hooks := by
      constructor
      · exact Classical.not_not.mp (fun hx => hc (Or.inl hx))
      · exact Classical.not_not.mp (fun hx => hc (Or.inr hx))
    exact ⟨this.1.trans hn, this.2⟩

/-- … forever: over every later history. -/
theorem admin_none_frozen_run (w : World) (hn : w.st.admin = none) (ops : List (Block × Op)) :
    (run w ops).st.admin = none ∧ (run w ops).st.hooks = w.st.hooks :=
  run_inv (fun x => x.st.admin = none ∧ x.st.hooks = w.st.hooks)
    (fun _ _ _ _ _ hi ht => by
      obtain ⟨a, b⟩ := admin_none_frozen hi.1 ht
      exact ⟨a, b.trans hi.2⟩)
    ⟨hn, rfl⟩ ops

/-- What the three admin operations do (and that they send nothing). -/
theorem admin_ops_effect {w w' : World} {blk : Block} {op : Op} {out : List Out}
    (h : tx w blk op = .ok (w', out)) (ha : Op.isAdminOp op = true) :
    out = [] ∧ w'.st.members = w.st.members ∧ w'.st.total = w.st.total ∧ w'.st.stake = w.st.stake ∧
    (match op with
     | .updateAdmin _ _ => w'.st.hooks = w.st.hooks
     | .addHook _ a => a.text ∉ w.st.hooks ∧ w'.st.hooks = w.st.hooks ++ [a.text] ∧ w'.st.admin = w.st.admin
     | .removeHook _ a => a.text ∈ w.st.hooks ∧ w'.st.hooks = w.st.hooks.erase a.text ∧ w'.st.admin = w.st.admin
     | _ => True) := by
  cases op with
  | updateAdmin snd x => obtain ⟨_, ho, adm, rfl⟩ := tx_updateAdmin_ok h; exact ⟨ho, rfl, rfl, rfl, rfl⟩
  | addHook snd x => obtain ⟨_, ho, hn, rfl⟩ := tx_addHook_ok h; exact ⟨ho, rfl, rfl, rfl, hn, rfl, rfl⟩
  | removeHook snd x => obtain ⟨_, ho, hn, rfl⟩ := tx_removeHook_ok h; exact ⟨ho, rfl, rfl, rfl, hn, rfl, rfl⟩
  | bond _ _ => simp [Op.isAdminOp] at ha
  | send _ _ _ _ => simp [Op.isAdminOp] at ha
  | receive _ _ _ _ => simp [Op.isAdminOp] at ha
  | unbond _ _ => simp [Op.isAdminOp] at ha
  | claim _ => simp [Op.isAdminOp] at ha
  | donate _ _ => simp [Op.isAdminOp] at ha

/-! ## Truthful notifications -/

/-- The address whose stake a transaction bonds / unbonds. -/
def Op.staker : Op → Option Addr
  | .bond snd _ | .send snd _ _ _ | .unbond snd _ => some snd
  | _ => none

/-- The notifications a weight change `old → new` of `a` must produce: one single-diff message per
registered hook, in registration order; none when nothing changed. -/
def expectedMsgs (hooks : List Addr) (a : Addr) (old new : Option Nat) : List Out :=
  if new = old then [] else hooks.map (fun hk => Out.hook hk a old new)

theorem um_truthful {st : State} {out : List Out} {s : State} {h : Nat} {a : Addr} {new : Option Nat}
    (e : (st, out) = um s h a new) :
    out = expectedMsgs s.hooks a (s.members.get? a) (st.members.get? a) ∧
    (∀ x, x ≠ a → st.members.get? x = s.members.get? x) := by
  obtain ⟨e1, e2⟩ := um_pair e
  have hnew : st.members.get? a = new := by rw [e1, um_get?]; simp
  constructor
  · rw [hnew, e2, um_out]; rfl
  · intro x hx
    rw [e1, um_get?]
    simp [Ne.symm hx]

/-- **C14 `bond_unbond_diffs_truthful` (cw4-stake)**: a successful bond (native funds or cw20 send) or
unbond by `a` emits exactly: nothing if `a`'s weight is unchanged, otherwise one message per hook registered
*at that moment*, in order, each carrying the single diff `(a, weight before, weight after)` with the true
values as reported by `Member { addr: a }` before and after; nobody else's weight changes; and every
notified hook accepted its message (otherwise the whole transaction would have been rolled back). -/
theorem bond_unbond_diffs_truthful {w w' : World} {blk : Block} {op : Op} {out : List Out} {a : Addr}
    (h : tx w blk op = .ok (w', out)) (hs : Op.staker op = some a) :
    out = expectedMsgs w.st.hooks a (weightOf w.st a) (weightOf w'.st a) ∧
    (∀ x, x ≠ a → weightOf w'.st x = weightOf w.st x) ∧
    (weightOf w'.st a ≠ weightOf w.st a → ∀ hk ∈ w.st.hooks, hk ∈ w.accepting) := by
  have key : ∀ (s : State) (new : Option Nat), s.hooks = w.st.hooks → s.members = w.st.members →
      (w'.st, out) = um s blk.height a new →
      out = expectedMsgs w.st.hooks a (weightOf w.st a) (weightOf w'.st a) ∧
      (∀ x, x ≠ a → weightOf w'.st x = weightOf w.st x) := by
    intro s new hh hm hu
    have := um_truthful hu
    rw [hh, hm] at this
    exact this
  have acc : out = expectedMsgs w.st.hooks a (weightOf w.st a) (weightOf w'.st a) →
      weightOf w'.st a ≠ weightOf w.st a → ∀ hk ∈ w.st.hooks, hk ∈ w.accepting := by
    intro ho hne hk hmem
    -- the messages were delivered in this very transaction
    have hd : ∃ w1 : World, w1.accepting = w.accepting ∧ deliver w1 out = .ok w' := by
      cases op with
      | bond snd coins =>
        simp only [tx, Res.bind_ok, check_ok] at h
        obtain ⟨_, _, w1, h1, r, _, hf⟩ := h
        obtain ⟨hdl, rfl⟩ := finish_ok hf
        obtain ⟨_, rfl⟩ := payIn_ok h1
        exact ⟨_, by rfl, hdl⟩
      | send snd token amt ok =>
        simp only [tx] at h
        split at h
        · simp only [Res.bind_ok] at h
          obtain ⟨w1, h1, r, _, hf⟩ := h
          obtain ⟨hdl, rfl⟩ := finish_ok hf
          obtain ⟨_, rfl⟩ := payIn_ok h1
          exact ⟨_, by rfl, hdl⟩
        · simp only [Res.bind_ok, Res.pure_ok] at h
          obtain ⟨w1, rfl, r, _, hf⟩ := h
          obtain ⟨hdl, rfl⟩ := finish_ok hf
          exact ⟨_, by rfl, hdl⟩
      | unbond snd amt =>
        simp only [tx, Res.bind_ok] at h
        obtain ⟨r, _, hf⟩ := h
        obtain ⟨hdl, rfl⟩ := finish_ok hf
        exact ⟨_, by rfl, hdl⟩
      | receive _ _ _ _ => simp [Op.staker] at hs
      | claim _ => simp [Op.staker] at hs
      | updateAdmin _ _ => simp [Op.staker] at hs
      | addHook _ _ => simp [Op.staker] at hs
      | removeHook _ _ => simp [Op.staker] at hs
      | donate _ _ => simp [Op.staker] at hs
    obtain ⟨w1, hacc, hdl⟩ := hd
    rw [← hacc]
    apply deliver_hooks_accepting hdl hk a (weightOf w.st a) (weightOf w'.st a)
    rw [ho]
    simp [expectedMsgs, hne, hmem]
  cases op with
  | bond snd coins =>
    simp [Op.staker] at hs; subst hs
    obtain ⟨_, amt, _, _, _, new, _, _, _, hu, _⟩ := tx_bond_ok h
    obtain ⟨k1, k2⟩ := key (bondState w.st snd amt) new rfl rfl hu
    exact ⟨k1, k2, acc k1⟩
  | send snd token amt ok =>
    simp [Op.staker] at hs; subst hs
    obtain ⟨_, _, new, _, _, _, hu, _⟩ := tx_send_ok h
    obtain ⟨k1, k2⟩ := key (bondState w.st snd amt) new rfl rfl hu
    exact ⟨k1, k2, acc k1⟩
  | unbond snd amt =>
    simp [Op.staker] at hs; subst hs
    obtain ⟨new, _, _, hu, _⟩ := tx_unbond_ok h
    obtain ⟨k1, k2⟩ := key (unbondState w.st blk snd amt) new rfl rfl hu
    exact ⟨k1, k2, acc k1⟩
  | receive _ _ _ _ => simp [Op.staker] at hs
  | claim _ => simp [Op.staker] at hs
  | updateAdmin _ _ => simp [Op.staker] at hs
  | addHook _ _ => simp [Op.staker] at hs
  | removeHook _ _ => simp [Op.staker] at hs
  | donate _ _ => simp [Op.staker] at hs

/-- **C14 no spurious notifications**: every other successful transaction (claim, admin operations, plain
transfers) sends no hook message and changes no weight. -/
theorem silent_ops {w w' : World} {blk : Block} {op : Op} {out : List Out}
    (h : tx w blk op = .ok (w', out)) (hs : Op.staker op = none) :
    (∀ hk k old new, Out.hook hk k old new ∉ out) ∧ (∀ x, weightOf w'.st x = weightOf w.st x) := by
  cases op with
  | bond _ _ => simp [Op.staker] at hs
  | send _ _ _ _ => simp [Op.staker] at hs
  | unbond _ _ => simp [Op.staker] at hs
  | receive snd sender amt ok => exact (tx_receive_never h).elim
  | claim snd =>
    obtain ⟨_, _, ho, hst, _⟩ := tx_claim_ok h
    refine ⟨?_, fun x => by simp [weightOf, hst]⟩
    intro hk k old new
    rw [ho]; unfold payout; split <;> simp
  | updateAdmin snd x => obtain ⟨_, ho, adm, rfl⟩ := tx_updateAdmin_ok h; exact ⟨by simp [ho], fun _ => rfl⟩
  | addHook snd x => obtain ⟨_, ho, _, rfl⟩ := tx_addHook_ok h; exact ⟨by simp [ho], fun _ => rfl⟩
  | removeHook snd x => obtain ⟨_, ho, _, rfl⟩ := tx_removeHook_ok h; exact ⟨by simp [ho], fun _ => rfl⟩
  | donate snd amt => obtain ⟨_, ho, rfl⟩ := tx_donate_ok h; exact ⟨by simp [ho], fun _ => rfl⟩

/-- **C14 `removed_hook_silent`**: a hook that is not registered when a transaction runs is not a target of
any of its notifications. -/
theorem removed_hook_silent {w w' : World} {blk : Block} {op : Op} {out : List Out}
    (h : tx w blk op = .ok (w', out)) (hk : Addr) (hn : hk ∉ w.st.hooks) :
    ∀ k old new, Out.hook hk k old new ∉ out := by
  intro k old new hm
  cases hs : Op.staker op with
  | none => exact (silent_ops h hs).1 hk k old new hm
  | some a =>
    obtain ⟨ho, _⟩ := bond_unbond_diffs_truthful h hs
    rw [ho] at hm
    unfold expectedMsgs at hm
    split at hm
    · simp at hm
    · simp at hm
      exact hn (by obtain ⟨x, hx, e, _⟩ := hm; exact e ▸ hx)

/-! ## Non-vacuity -/

def cfgMsg : InstMsg := ⟨.native "ustake", 10, 20, .height 5, some ⟨true, "admin"⟩⟩

def stOf (m : InstMsg) : State :=
  match instantiate m with
  | .ok st => st
  | .error _ => default

def w0 : World := World.init (stOf cfgMsg) [("alice", 100)] ["hookA", "hookB"]
def b1 : Block := ⟨100, 0⟩

/-- the admin registers two hooks, a stranger cannot; alice's bond of 35 notifies both with `(alice, -, 3)`,
her further bond of 4 (weight stays 3) notifies nobody, after removing hookA only hookB hears the unbond -/
def w1 : World := run w0 [(b1, .addHook "admin" ⟨true, "hookA"⟩), (b1, .addHook "admin" ⟨true, "hookB"⟩),
  (b1, .addHook "mallory" ⟨true, "hookC"⟩)]

example : w1.st.hooks = ["hookA", "hookB"] := by decide
example : (tx w1 b1 (.bond "alice" [("ustake", 35)])).toOption.map (·.2)
    = some [.hook "hookA" "alice" none (some 3), .hook "hookB" "alice" none (some 3)] := by decide
example : (tx (run w1 [(b1, .bond "alice" [("ustake", 35)])]) b1 (.bond "alice" [("ustake", 4)])).toOption.map (·.2)
    = some [] := by decide
example : (tx (run w1 [(b1, .bond "alice" [("ustake", 35)]), (b1, .removeHook "admin" ⟨true, "hookA"⟩)]) b1
    (.unbond "alice" 20)).toOption.map (·.2) = some [.hook "hookB" "alice" (some 3) none] := by decide
/-- a registered hook that does not accept the message makes the bond fail as a whole -/
example : (tx (run w1 [(b1, .addHook "admin" ⟨true, "refuser"⟩)]) b1 (.bond "alice" [("ustake", 35)])).isOk = false := by
  decide

/-! # History-level theorems (review round) -/

/-! ## Each hook is registered once (closes "exactly one notification per hook" for cw4-stake) -/

/-- How a successful transaction changes the hook list. -/
theorem hooks_tx {w w' : World} {blk : Block} {op : Op} {out : List Out} (h : tx w blk op = .ok (w', out)) :
    w'.st.hooks = (match op with
      | .addHook _ a => w.st.hooks ++ [a.text]
      | .removeHook _ a => w.st.hooks.erase a.text
      | _ => w.st.hooks) ∧
    (∀ s a, op = .addHook s a → a.text ∉ w.st.hooks) := by
  by_cases ha : Op.isAdminOp op = true
  · obtain ⟨_, _, _, _, hm⟩ := admin_ops_effect h ha
    cases op with
    | updateAdmin snd x => exact ⟨hm, by intro _ _ e; cases e⟩
    | addHook snd x => exact ⟨hm.2.1, by intro _ _ e; cases e; exact hm.1⟩
    | removeHook snd x => exact ⟨hm.2.1, by intro _ _ e; cases e⟩
    | bond _ _ => simp [Op.isAdminOp] at ha
    | send _ _ _ _ => simp [Op.isAdminOp] at ha
    | receive _ _ _ _ => simp [Op.isAdminOp] at ha
    | unbond _ _ => simp [Op.isAdminOp] at ha
    | claim _ => simp [Op.isAdminOp] at ha
    | donate _ _ => simp [Op.isAdminOp] at ha
  · have hh : w'.st.hooks = w.st.hooks := by
      apply Classical.byContradiction
      intro hne
      exact ha (hooks_admin_change_auth h (Or.inr hne)).2
    cases op with
    | updateAdmin _ _ => simp [Op.isAdminOp] at ha
    | addHook _ _ => simp [Op.isAdminOp] at ha
    | removeHook _ _ => simp [Op.isAdminOp] at ha
    | bond _ _ => exact ⟨hh, by intro _ _ e; cases e⟩
    | send _ _ _ _ => exact ⟨hh, by intro _ _ e; cases e⟩
    | receive _ _ _ _ => exact ⟨hh, by intro _ _ e; cases e⟩
    | unbond _ _ => exact ⟨hh, by intro _ _ e; cases e⟩
    | claim _ => exact ⟨hh, by intro _ _ e; cases e⟩
    | donate _ _ => exact ⟨hh, by intro _ _ e; cases e⟩

theorem hooks_nodup_tx {w w' : World} {blk : Block} {op : Op} {out : List Out}
    (hn : w.st.hooks.Nodup) (h : tx w blk op = .ok (w', out)) : w'.st.hooks.Nodup := by
  obtain ⟨e, hnew⟩ := hooks_tx h
  rw [e]
  cases op with
  | addHook snd a =>
    simp only
    rw [List.nodup_append]
    refine ⟨hn, by simp, ?_⟩
    intro x hx y hy
    simp at hy; subst hy
    intro e; subst e; exact hnew snd a rfl hx
  | removeHook snd a => exact hn.erase _
  | updateAdmin _ _ => exact hn
  | bond _ _ => exact hn
  | send _ _ _ _ => exact hn
  | receive _ _ _ _ => exact hn
  | unbond _ _ => exact hn
  | claim _ => exact hn
  | donate _ _ => exact hn

theorem run_hooks_nodup {w : World} (hn : w.st.hooks.Nodup) (ops : List (Block × Op)) :
    (run w ops).st.hooks.Nodup :=
  run_inv (fun x => x.st.hooks.Nodup) (fun _ _ _ _ _ hi ht => hooks_nodup_tx hi ht) hn ops

/-- **C14 (cw4-stake), each hook is registered once**: after any accepted instantiation and any history the
hook list holds no address twice — so "one message per entry of the hook list"
(`bond_unbond_diffs_truthful`) is "exactly one message per registered hook". -/
theorem reachable_hooks_nodup {m : InstMsg} {st : State} (h : instantiate m = .ok st) (bal : AMap Addr Nat)
    (acc : List Addr) (ops : List (Block × Op)) : (run (World.init st bal acc) ops).st.hooks.Nodup := by
  apply run_hooks_nodup
  simp [instantiate] at h
  obtain ⟨adm, _, rfl⟩ := h
  exact List.nodup_nil

/-- **C14 (cw4-stake), exactly one notification per registered hook**: on every reachable world, a
successful bond / unbond of `a` that changes `a`'s weight emits a list of messages without repetition, as
many as there are registered hooks, and a hook gets the message `(a, old weight, new weight)` iff it is
registered: every registered hook hears the change exactly once, nobody else hears anything. -/
theorem exactly_one_msg_per_hook {m : InstMsg} {st : State} (hi : instantiate m = .ok st) (bal : AMap Addr Nat)
    (acc : List Addr) (ops : List (Block × Op)) {w' : World} {blk : Block} {op : Op} {out : List Out} {a : Addr}
    (h : tx (run (World.init st bal acc) ops) blk op = .ok (w', out)) (hs : Op.staker op = some a)
    (hch : weightOf w'.st a ≠ weightOf (run (World.init st bal acc) ops).st a) :
    out.Nodup ∧ out.length = (run (World.init st bal acc) ops).st.hooks.length ∧
    ∀ hk, hk ∈ (run (World.init st bal acc) ops).st.hooks ↔
      Out.hook hk a (weightOf (run (World.init st bal acc) ops).st a) (weightOf w'.st a) ∈ out := by
  have hn := reachable_hooks_nodup hi bal acc ops
  obtain ⟨ho, _⟩ := bond_unbond_diffs_truthful h hs
  rw [ho]
  simp only [expectedMsgs, hch, if_false]
  refine ⟨?_, by simp, ?_⟩
  · exact List.Pairwise.map _ (fun x y hxy e => hxy (by injection e)) hn
  · intro hk
    simp

/-! ## A hook that is not registered hears nothing, over histories -/

theorem step_hooks_not_mem {w : World} {hk : Addr} (hn : hk ∉ w.st.hooks) (blk : Block) (op : Op)
    (hno : ∀ s a, op = .addHook s a → a.text ≠ hk) : hk ∉ (step w blk op).st.hooks := by
  rcases step_cases w blk op with ⟨w', out, ht, hs, _, _⟩ | ⟨hs, _, _⟩
  · rw [hs, (hooks_tx ht).1]
    cases op with
    | addHook snd a =>
      simp only [List.mem_append, List.mem_singleton, not_or]
      exact ⟨hn, fun e => hno snd a rfl e.symm⟩
    | removeHook snd a => exact fun hm => hn (List.mem_of_mem_erase hm)
    | updateAdmin _ _ => exact hn
    | bond _ _ => exact hn
    | send _ _ _ _ => exact hn
    | receive _ _ _ _ => exact hn
    | unbond _ _ => exact hn
    | claim _ => exact hn
    | donate _ _ => exact hn
  · rw [hs]; exact hn

/-- **C14 `removed_hook_silent` (cw4-stake), histories**: a hook that is not registered stays
unregistered and receives no notification along any history, as long as no `AddHook` names it. -/
theorem unregistered_silent {w : World} {hk : Addr} (hn : hk ∉ w.st.hooks) (ops : List (Block × Op))
    (hno : ∀ o ∈ ops, ∀ s a, o.2 = .addHook s a → a.text ≠ hk) :
    hk ∉ (run w ops).st.hooks ∧ ∀ k old new, Out.hook hk k old new ∉ outs w ops := by
  induction ops generalizing w with
  | nil => exact ⟨hn, by simp⟩
  | cons o rest ih =>
    have hstep := step_hooks_not_mem hn o.1 o.2 (hno o (by simp))
    obtain ⟨i1, i2⟩ := ih hstep (fun o' ho' => hno o' (by simp [ho']))
    refine ⟨i1, ?_⟩
    intro k old new hm
    simp only [outs_cons, List.mem_append] at hm
    rcases hm with hm | hm
    · rcases step_cases w o.1 o.2 with ⟨w', out, ht, _, ho, _⟩ | ⟨_, ho, _⟩
      · rw [ho] at hm; exact removed_hook_silent ht hk hn k old new hm
      · rw [ho] at hm; cases hm
    · exact i2 k old new hm

/-- **C14 `removed_hook_silent` (cw4-stake), after the removal, forever**: on a world whose hook list has
no repetition (every reachable one, `reachable_hooks_nodup`), after a successful `RemoveHook { addr }` the
address is no longer registered and no bond / unbond of any later history notifies it, unless and until an
`AddHook` registers it again. -/
theorem removed_hook_silent_run {w w' : World} {blk : Block} {snd : Addr} {a : AddrArg} {out : List Out}
    (hn : w.st.hooks.Nodup) (h : tx w blk (.removeHook snd a) = .ok (w', out)) (ops : List (Block × Op))
    (hno : ∀ o ∈ ops, ∀ s b, o.2 = .addHook s b → b.text ≠ a.text) :
    out = [] ∧ a.text ∉ (run w' ops).st.hooks ∧ ∀ k old new, Out.hook a.text k old new ∉ outs w' ops := by
  obtain ⟨_, ho, _, rfl⟩ := tx_removeHook_ok h
  have hnot : a.text ∉ w.st.hooks.erase a.text := fun hm => ((List.Nodup.mem_erase_iff hn).mp hm).1 rfl
  obtain ⟨h1, h2⟩ := unregistered_silent (w := { w with st := { w.st with hooks := w.st.hooks.erase a.text } })
    hnot ops hno
  exact ⟨ho, h1, h2⟩

/-! ## A registered hook can rebuild the membership from what it hears -/

/-- The membership change one notification describes. -/
def applyNote (m : AMap Addr Nat) (k : Addr) (new : Option Nat) : AMap Addr Nat :=
  match new with
  | some v => m.set k v
  | none => m.erase k

/-- What hook `hk` does with the messages of a history: it ignores what is not addressed to it and applies
each diff it receives to its replica of the member table — refusing (`none`) if the reported `old` weight is
not what its replica holds. -/
def replica (hk : Addr) : AMap Addr Nat → List Out → Option (AMap Addr Nat)
  | m, [] => some m
  | m, .hook t k old new :: rest =>
    if t = hk then (if m.get? k = old then replica hk (applyNote m k new) rest else none)
    else replica hk m rest
  | m, _ :: rest => replica hk m rest

theorem replica_append (hk : Addr) (m : AMap Addr Nat) (x y : List Out) :
    replica hk m (x ++ y) = (replica hk m x).bind (fun m' => replica hk m' y) := by
  induction x generalizing m with
  | nil => rfl
  | cons o rest ih =>
    cases o with
    | hook t k old new =>
      simp only [List.cons_append, replica]
      split
      · split
        · exact ih _
        · rfl
      · exact ih _
    | bank _ _ _ => simp only [List.cons_append, replica]; exact ih _
    | cw20Transfer _ _ _ => simp only [List.cons_append, replica]; exact ih _

/-- Messages that are not addressed to `hk` leave its replica alone. -/
theorem replica_not_addressed (hk : Addr) (m : AMap Addr Nat) {out : List Out}
    (hh : ∀ k old new, Out.hook hk k old new ∉ out) : replica hk m out = some m := by
  induction out with
  | nil => rfl
  | cons o rest ih =>
    have ih' := ih (fun k old new hm => hh k old new (by simp [hm]))
    cases o with
    | hook t k old new =>
      simp only [replica]
      split
      · rename_i e; subst e; exact absurd (by simp) (hh k old new)
      · exact ih'
    | bank _ _ _ => simp only [replica]; exact ih'
    | cw20Transfer _ _ _ => simp only [replica]; exact ih'

/-- One notification round `hooks.map (hook · a old new)` with `hk` registered exactly once. -/
theorem replica_round (hk : Addr) (m : AMap Addr Nat) (a : Addr) (old new : Option Nat) (hooks : List Addr)
    (hn : hooks.Nodup) (hmem : hk ∈ hooks) (hold : m.get? a = old) :
    replica hk m (hooks.map (fun t => Out.hook t a old new)) = some (applyNote m a new) := by
  induction hooks with
  | nil => cases hmem
  | cons t rest ih =>
    simp only [List.map_cons, replica]
    rw [List.nodup_cons] at hn
    by_cases e : t = hk
    · subst e
      simp only [if_true, hold]
      apply replica_not_addressed
      intro k o n hm
      simp only [List.mem_map] at hm
      obtain ⟨x, hx, e⟩ := hm
      injection e with e1
      subst e1
      exact hn.1 hx
    · simp only [e, if_false]
      exact ih hn.2 (by simpa [Ne.symm e] using hmem)

/-- The member table after `update_membership`, as a map. -/
theorem um_cur (s : State) (h : Nat) (a : Addr) (new : Option Nat) (hne : new ≠ s.members.get? a) :
    (um s h a new).1.members.cur = applyNote s.members.cur a new := by
  unfold um
  simp only [hne, if_false]
  cases new with
  | some v => exact snap_cur_write_some _ _ _ _
  | none => exact snap_cur_write_none _ _ _

theorem um_replica {st : State} {out : List Out} {s : State} {h : Nat} {a : Addr} {new : Option Nat} {hk : Addr}
    (e : (st, out) = um s h a new) (hn : s.hooks.Nodup) (hmem : hk ∈ s.hooks) :
    replica hk s.members.cur out = some st.members.cur := by
  obtain ⟨e1, e2⟩ := um_pair e
  by_cases hne : new = s.members.get? a
  · have : um s h a new = (s, []) := by unfold um; simp [hne]
    rw [e1, e2, this]; rfl
  · rw [e1, e2, um_cur s h a new hne, um_out]
    simp only [hne, if_false]
    exact replica_round hk _ a _ new s.hooks hn hmem rfl

/-- One successful transaction: the messages it sends to a registered hook turn the hook's replica of the
member table before the transaction into the member table after it. -/
theorem replica_tx {w w' : World} {blk : Block} {op : Op} {out : List Out} {hk : Addr}
    (h : tx w blk op = .ok (w', out)) (hn : w.st.hooks.Nodup) (hmem : hk ∈ w.st.hooks) :
    replica hk w.st.members.cur out = some w'.st.members.cur := by
  cases hs : Op.staker op with
  | some a =>
    cases op with
    | bond snd coins =>
      obtain ⟨_, amt, _, _, _, new, _, _, _, hu, _⟩ := tx_bond_ok h
      exact um_replica (s := bondState w.st snd amt) hu hn hmem
    | send snd token amt ok =>
      obtain ⟨_, _, new, _, _, _, hu, _⟩ := tx_send_ok h
      exact um_replica (s := bondState w.st snd amt) hu hn hmem
    | unbond snd amt =>
      obtain ⟨new, _, _, hu, _⟩ := tx_unbond_ok h
      exact um_replica (s := unbondState w.st blk snd amt) hu hn hmem
    | receive _ _ _ _ => simp [Op.staker] at hs
    | claim _ => simp [Op.staker] at hs
    | updateAdmin _ _ => simp [Op.staker] at hs
    | addHook _ _ => simp [Op.staker] at hs
    | removeHook _ _ => simp [Op.staker] at hs
    | donate _ _ => simp [Op.staker] at hs
  | none =>
    obtain ⟨h1, _⟩ := silent_ops h hs
    rw [replica_not_addressed hk _ (fun k old new => h1 hk k old new)]
    have hm : w'.st.members = w.st.members := by
      cases op with
      | bond _ _ => simp [Op.staker] at hs
      | send _ _ _ _ => simp [Op.staker] at hs
      | unbond _ _ => simp [Op.staker] at hs
      | receive snd sender amt ok => exact (tx_receive_never h).elim
      | claim snd => obtain ⟨_, _, _, hst, _⟩ := tx_claim_ok h; rw [hst]
      | updateAdmin snd x => obtain ⟨_, _, adm, rfl⟩ := tx_updateAdmin_ok h; rfl
      | addHook snd x => obtain ⟨_, _, _, rfl⟩ := tx_addHook_ok h; rfl
      | removeHook snd x => obtain ⟨_, _, _, rfl⟩ := tx_removeHook_ok h; rfl
      | donate snd amt => obtain ⟨_, _, rfl⟩ := tx_donate_ok h; rfl
    rw [hm]

theorem step_hooks_mem {w : World} {hk : Addr} (hmem : hk ∈ w.st.hooks) (blk : Block) (op : Op)
    (hstay : ∀ s a, op = .removeHook s a → a.text ≠ hk) : hk ∈ (step w blk op).st.hooks := by
  rcases step_cases w blk op with ⟨w', out, ht, hs, _, _⟩ | ⟨hs, _, _⟩
  · rw [hs, (hooks_tx ht).1]
    cases op with
    | addHook snd a => simp [hmem]
    | removeHook snd a => exact (List.mem_erase_of_ne (Ne.symm (hstay snd a rfl))).mpr hmem
    | updateAdmin _ _ => exact hmem
    | bond _ _ => exact hmem
    | send _ _ _ _ => exact hmem
    | receive _ _ _ _ => exact hmem
    | unbond _ _ => exact hmem
    | claim _ => exact hmem
    | donate _ _ => exact hmem
  · rw [hs]; exact hmem

/-- `hk` is registered at every point of the history (at the start and after each transaction). -/
def StaysRegistered (hk : Addr) (w : World) (ops : List (Block × Op)) : Prop :=
  ∀ n, n ≤ ops.length → hk ∈ (run w (ops.take n)).st.hooks

theorem staysRegistered_cons {hk : Addr} {w : World} {o : Block × Op} {rest : List (Block × Op)}
    (h : StaysRegistered hk w (o :: rest)) :
    hk ∈ w.st.hooks ∧ StaysRegistered hk (step w o.1 o.2) rest := by
  refine ⟨by simpa using h 0 (by simp), ?_⟩
  intro n hn
  have := h (n + 1) (by simpa using hn)
  simpa using this

/-- **C14 (cw4-stake), hooks hear every change truthfully — end to end**: a hook `hk` that is registered
(once: every reachable world, `reachable_hooks_nodup`) and stays registered during a history can rebuild the
member table from nothing but the notifications it receives: starting from the table at the time of
registration and applying each received diff `(key, old, new)` in order — checking every `old` against its
own replica — it never hits a mismatch and ends with exactly the contract's current member table.  So no
change of any weight goes unreported, no reported change did not happen, and every reported previous / new
weight is the true one, over whole histories of bonds, unbonds, claims, admin operations (also failed
attempts to remove `hk`), plain transfers and failed transactions of any senders. -/
theorem hook_replica_registered {w : World} {hk : Addr} (hn : w.st.hooks.Nodup)
    (ops : List (Block × Op)) (hreg : StaysRegistered hk w ops) :
    replica hk w.st.members.cur (outs w ops) = some (run w ops).st.members.cur := by
  induction ops generalizing w with
  | nil => rfl
  | cons o rest ih =>
    obtain ⟨hmem, hreg'⟩ := staysRegistered_cons hreg
    have hn' : (step w o.1 o.2).st.hooks.Nodup := by
      have := run_hooks_nodup hn [o]; simpa using this
    have i1 := ih hn' hreg'
    rw [outs_cons, replica_append, run_cons]
    rcases step_cases w o.1 o.2 with ⟨w', out, ht, hs, ho, _⟩ | ⟨hs, ho, _⟩
    · rw [ho, replica_tx ht hn hmem]
      rw [hs] at i1 ⊢
      exact i1
    · rw [ho]
      rw [hs] at i1 ⊢
      exact i1

/-- A registered hook stays registered as long as no `RemoveHook` names it. -/
theorem staysRegistered_of_not_removed {w : World} {hk : Addr} (hmem : hk ∈ w.st.hooks)
    (ops : List (Block × Op)) (hstay : ∀ o ∈ ops, ∀ s a, o.2 = .removeHook s a → a.text ≠ hk) :
    StaysRegistered hk w ops := by
  induction ops generalizing w with
  | nil => intro n _; simpa using hmem
  | cons o rest ih =>
    have hmem' := step_hooks_mem hmem o.1 o.2 (hstay o (by simp))
    have := ih hmem' (fun o' ho' => hstay o' (by simp [ho']))
    intro n hn
    cases n with
    | zero => simpa using hmem
    | succ k => simpa using this k (by simpa using hn)

/-- **`hook_replica`** in the form "nobody asks to remove `hk`" (sufficient for `StaysRegistered`). -/
theorem hook_replica {w : World} {hk : Addr} (hn : w.st.hooks.Nodup) (hmem : hk ∈ w.st.hooks)
    (ops : List (Block × Op)) (hstay : ∀ o ∈ ops, ∀ s a, o.2 = .removeHook s a → a.text ≠ hk) :
    replica hk w.st.members.cur (outs w ops) = some (run w ops).st.members.cur ∧ hk ∈ (run w ops).st.hooks := by
  have hreg := staysRegistered_of_not_removed hmem ops hstay
  refine ⟨hook_replica_registered hn ops hreg, ?_⟩
  have := hreg ops.length (Nat.le_refl _)
  simpa using this

/-- The weight the hook's replica reports is the contract's: corollary of `hook_replica` for point reads. -/
theorem hook_replica_weight {w : World} {hk : Addr} (hn : w.st.hooks.Nodup) (hmem : hk ∈ w.st.hooks)
    (ops : List (Block × Op)) (hstay : ∀ o ∈ ops, ∀ s a, o.2 = .removeHook s a → a.text ≠ hk) :
    ∃ m, replica hk w.st.members.cur (outs w ops) = some m ∧ ∀ a, m.get? a = weightOf (run w ops).st a :=
  ⟨_, (hook_replica hn hmem ops hstay).1, fun _ => rfl⟩

/-! ## Membership changes only by the member's own bond / unbond, over histories -/

/-- **C14 / C10 (cw4-stake)**: over any history in which `a` signs no transaction the weight of `a` does
not change — nobody but `a` (not the admin, not another staker) can change `a`'s membership. -/
theorem weight_frame_run (a : Addr) (w : World) (ops : List (Block × Op)) (hs : ∀ o ∈ ops, Op.sender o.2 ≠ a) :
    weightOf (run w ops).st a = weightOf w.st a := by
  induction ops generalizing w with
  | nil => rfl
  | cons o rest ih =>
    rw [run_cons, ih (step w o.1 o.2) (fun o' ho' => hs o' (by simp [ho']))]
    rcases step_cases w o.1 o.2 with ⟨w', out, ht, hst, _, _⟩ | ⟨hst, _, _⟩
    · rw [hst]
      have hne := hs o (by simp)
      cases hk : Op.staker o.2 with
      | none => exact (silent_ops ht hk).2 a
      | some b =>
        have hb : b ≠ a := by
          intro e; subst e
          apply hne
          cases hop : o.2 <;> rw [hop] at hk <;> simp [Op.staker] at hk <;> simp [Op.sender, hk]
        exact (bond_unbond_diffs_truthful ht hk).2.1 a (Ne.symm hb)
    · rw [hst]

/-! ## Non-vacuity of the history-level theorems -/

/-- Decidable forms of the side conditions "no `RemoveHook` / `AddHook` names `hk`". -/
def Op.removesHook (hk : Addr) : Op → Bool
  | .removeHook _ a => a.text == hk
  | _ => false
def Op.addsHook (hk : Addr) : Op → Bool
  | .addHook _ a => a.text == hk
  | _ => false

theorem stays_of_removesHook {hk : Addr} {ops : List (Block × Op)} (h : ∀ o ∈ ops, Op.removesHook hk o.2 = false) :
    ∀ o ∈ ops, ∀ s a, o.2 = .removeHook s a → a.text ≠ hk := by
  intro o ho s a e
  have := h o ho
  rw [e] at this
  simpa [Op.removesHook] using this

theorem notAdded_of_addsHook {hk : Addr} {ops : List (Block × Op)} (h : ∀ o ∈ ops, Op.addsHook hk o.2 = false) :
    ∀ o ∈ ops, ∀ s a, o.2 = .addHook s a → a.text ≠ hk := by
  intro o ho s a e
  have := h o ho
  rw [e] at this
  simpa [Op.addsHook] using this

theorem inst_cfgMsg : instantiate cfgMsg = .ok (stOf cfgMsg) := rfl

/-- after `w1` (hookA, hookB registered): alice bonds 35 (weight 3), bonds 4 (still 3), the admin removes
hookA, alice unbonds 20 (no longer a member), mallory tries to remove hookB, alice bonds 30 again (weight 4) -/
def laterOps : List (Block × Op) :=
  [(b1, .bond "alice" [("ustake", 35)]), (b1, .bond "alice" [("ustake", 4)]),
   (b1, .removeHook "admin" ⟨true, "hookA"⟩), (b1, .unbond "alice" 20),
   (b1, .removeHook "mallory" ⟨true, "hookB"⟩), (b1, .bond "alice" [("ustake", 30)])]

example : outs w1 laterOps =
    [.hook "hookA" "alice" none (some 3), .hook "hookB" "alice" none (some 3),
     .hook "hookB" "alice" (some 3) none, .hook "hookB" "alice" none (some 4)] := by decide
example : (run w1 laterOps).st.members.cur = [("alice", 4)] ∧ (run w1 laterOps).st.hooks = ["hookB"] := by decide
/-- hookB stays registered along `laterOps` (mallory's attempt to remove it fails) and rebuilds the table
`[("alice", 4)]` -/
example : replica "hookB" w1.st.members.cur (outs w1 laterOps) = some (run w1 laterOps).st.members.cur :=
  hook_replica_registered (w := w1) (hk := "hookB") (by decide) laterOps (by unfold StaysRegistered; decide)
/-- nobody names hookB in the first four transactions -/
example := hook_replica (w := w1) (hk := "hookB") (by decide) (by decide) (laterOps.take 4)
  (stays_of_removesHook (by decide))
/-- hookA, removed by the third transaction, hears nothing of the last three -/
example : ∀ k old new, Out.hook "hookA" k old new ∉ outs (run w1 (laterOps.take 3)) (laterOps.drop 3) :=
  (unregistered_silent (w := run w1 (laterOps.take 3)) (hk := "hookA") (by decide) (laterOps.drop 3)
    (notAdded_of_addsHook (by decide))).2
example := reachable_hooks_nodup inst_cfgMsg [("alice", 100)] ["hookA", "hookB"]
  [(b1, .addHook "admin" ⟨true, "hookA"⟩), (b1, .addHook "admin" ⟨true, "hookA"⟩)]
/-- bob signs nothing in `laterOps`: his (absent) weight is untouched; alice's is not -/
example : weightOf (run w1 laterOps).st "bob" = weightOf w1.st "bob" :=
  weight_frame_run "bob" w1 laterOps (by decide)

/-- **admin cleared (cw4-stake)**: the admin gives up the role; afterwards neither the former admin nor
anybody else can add or remove a hook or install an admin, while staking goes on and still notifies the
hooks registered at that moment. -/
def frozenWorld : World := run w1 [(b1, .updateAdmin "admin" none)]
def frozenOps : List (Block × Op) :=
  [(b1, .addHook "admin" ⟨true, "hookC"⟩), (b1, .removeHook "admin" ⟨true, "hookA"⟩),
   (b1, .updateAdmin "admin" (some ⟨true, "admin"⟩)), (b1, .updateAdmin "mallory" (some ⟨true, "mallory"⟩)),
   (b1, .bond "alice" [("ustake", 35)])]
example : frozenWorld.st.admin = none := by decide
example : (run frozenWorld frozenOps).st.admin = none ∧ (run frozenWorld frozenOps).st.hooks = ["hookA", "hookB"] :=
  admin_none_frozen_run frozenWorld (by decide) frozenOps
example : weightOf (run frozenWorld frozenOps).st "alice" = some 3 ∧
    outs frozenWorld frozenOps = [.hook "hookA" "alice" none (some 3), .hook "hookB" "alice" none (some 3)] := by
  decide

theorem tx_ok_of_isOk {w : World} {blk : Block} {op : Op} (h : (tx w blk op).isOk = true) :
    ∃ w' out, tx w blk op = .ok (w', out) ∧ step w blk op = w' := by
  rcases step_cases w blk op with ⟨w', out, ht, hs, _, _⟩ | ⟨_, _, hf⟩
  · exact ⟨w', out, ht, hs⟩
  · rw [h] at hf; cases hf

/-- `exactly_one_msg_per_hook` on alice's first bond in `w1` (two hooks): two distinct messages -/
example : ∃ w' out, tx w1 b1 (.bond "alice" [("ustake", 35)]) = .ok (w', out) ∧ out.Nodup ∧ out.length = 2 ∧
    Out.hook "hookB" "alice" none (some 3) ∈ out := by
  obtain ⟨w', out, ht, hs⟩ := tx_ok_of_isOk (w := w1) (blk := b1) (op := .bond "alice" [("ustake", 35)]) (by decide)
  have hw : weightOf w'.st "alice" = some 3 := by rw [← hs]; decide
  have hch : weightOf w'.st "alice" ≠ weightOf w1.st "alice" := by rw [hw]; decide
  obtain ⟨h1, h2, h3⟩ := exactly_one_msg_per_hook inst_cfgMsg [("alice", 100)] ["hookA", "hookB"] _ ht rfl hch
  refine ⟨w', out, ht, h1, h2, ?_⟩
  have := (h3 "hookB").mp (by decide)
  rw [hw] at this
  exact this

/-- `removed_hook_silent_run` on the third transaction of `laterOps` and the three after it -/
example : ∃ w' out, tx (run w1 (laterOps.take 2)) b1 (.removeHook "admin" ⟨true, "hookA"⟩) = .ok (w', out) ∧
    "hookA" ∉ (run w' (laterOps.drop 3)).st.hooks ∧
    ∀ k old new, Out.hook "hookA" k old new ∉ outs w' (laterOps.drop 3) := by
  obtain ⟨w', out, ht, _⟩ := tx_ok_of_isOk (w := run w1 (laterOps.take 2)) (blk := b1)
    (op := .removeHook "admin" ⟨true, "hookA"⟩) (by decide)
  obtain ⟨_, h2, h3⟩ := removed_hook_silent_run (a := ⟨true, "hookA"⟩) (by decide) ht (laterOps.drop 3)
    (notAdded_of_addsHook (by decide))
  exact ⟨w', out, ht, h2, h3⟩

end CwPlus.Props.C14Stake
