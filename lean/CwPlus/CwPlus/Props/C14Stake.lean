import CwPlus.Lemmas.Cw4Stake
/-!
# C14 — cw4: only the admin changes hooks/admin, and hooks hear every change truthfully (cw4-stake part)

In cw4-stake the membership itself is not administered (weights follow stakes, see C10); the admin can
only add/remove hooks and hand over / give up the admin role.

* `hooks_admin_change_auth`: a transaction that changes the hook list or the admin is an
  `UpdateAdmin` / `AddHook` / `RemoveHook` signed by the current admin; `admin_none_frozen(_run)`: once the
  admin is cleared, admin and hooks never change again.
* `bond_unbond_diffs_truthful`: a bond (native or cw20) or unbond that changes the sender's weight sends
  every currently registered hook exactly one message with the single diff `(sender, true old weight,
  true new weight)`, in registration order; when the weight does not change no message is sent at all; the
  weights of all other addresses are untouched.  `silent_ops`: no other transaction sends a hook message or
  changes a weight.  `removed_hook_silent`: a removed hook is not among the targets of later notifications.
-/
namespace CwPlus.Props.C14Stake
open CwPlus CwPlus.Cw4Stake CwPlus.Snapshot

def Op.isAdminOp : Op → Bool
  | .updateAdmin _ _ | .addHook _ _ | .removeHook _ _ => true
  | _ => false

/-- Bond / unbond transactions only read `admin` and `hooks`. -/
theorem um_admin_hooks {st : State} {out : List Out} {s : State} {h : Nat} {a : Addr} {new : Option Nat}
    (e : (st, out) = um s h a new) : st.admin = s.admin ∧ st.hooks = s.hooks := by
  rw [(um_pair e).1]
  exact ⟨(um_frame _ _ _ _).2.1, (um_frame _ _ _ _).2.2.1⟩

/-- **C14 `hooks_admin_change_auth` (cw4-stake)**: if a successful transaction changes the admin or the
hook list, it is one of `UpdateAdmin` / `AddHook` / `RemoveHook` and its sender is the current admin. -/
theorem hooks_admin_change_auth {w w' : World} {blk : Block} {op : Op} {out : List Out}
    (h : tx w blk op = .ok (w', out)) (hc : w'.st.admin ≠ w.st.admin ∨ w'.st.hooks ≠ w.st.hooks) :
    w.st.admin = some (Op.sender op) ∧ Op.isAdminOp op = true := by
  cases op with
  | bond snd coins =>
    obtain ⟨_, amt, _, _, _, new, _, _, _, hu, _⟩ := tx_bond_ok h
    obtain ⟨e1, e2⟩ := um_admin_hooks hu
    exact absurd hc (by simp [e1, e2, bondState])
  | send snd token amt ok =>
    obtain ⟨_, _, new, _, _, _, hu, _⟩ := tx_send_ok h
    obtain ⟨e1, e2⟩ := um_admin_hooks hu
    exact absurd hc (by simp [e1, e2, bondState])
  | receive snd sender amt ok => exact (tx_receive_never h).elim
  | unbond snd amt =>
    obtain ⟨new, _, _, hu, _⟩ := tx_unbond_ok h
    obtain ⟨e1, e2⟩ := um_admin_hooks hu
    exact absurd hc (by simp [e1, e2, unbondState])
  | claim snd => obtain ⟨_, _, _, hst, _⟩ := tx_claim_ok h; exact absurd hc (by simp [hst])
  | updateAdmin snd x => obtain ⟨ha, _, _⟩ := tx_updateAdmin_ok h; exact ⟨ha, rfl⟩
  | addHook snd x => obtain ⟨ha, _, _⟩ := tx_addHook_ok h; exact ⟨ha, rfl⟩
  | removeHook snd x => obtain ⟨ha, _, _⟩ := tx_removeHook_ok h; exact ⟨ha, rfl⟩
  | donate snd amt => obtain ⟨_, _, rfl⟩ := tx_donate_ok h; exact absurd hc (by simp)

/-- **C14 `admin_none_frozen`**: with the admin cleared no transaction changes admin or hooks. -/
theorem admin_none_frozen {w w' : World} {blk : Block} {op : Op} {out : List Out}
    (hn : w.st.admin = none) (h : tx w blk op = .ok (w', out)) :
    w'.st.admin = none ∧ w'.st.hooks = w.st.hooks := by
  by_cases hc : w'.st.admin ≠ w.st.admin ∨ w'.st.hooks ≠ w.st.hooks
  · have := (hooks_admin_change_auth h hc).1
    rw [hn] at this; cases this
  · have : w'.st.admin = w.st.admin ∧ w'.st.hooks = w.st.hooks := by
      constructor
      · exact Classical.not_not.mp (fun hx => hc (Or.inl hx))
      · exact Classical.not_not.mp (fun hx => hc (Or.inr hx))
    exact ⟨this.1.trans hn, this.2⟩

/-- … forever: over every later history. -/
theorem admin_none_frozen_run (w : World) (hn : w.st.admin = none) (ops : List (Block × Op)) :
    (run w ops).st.admin = none ∧ (run w ops).st.hooks = w.st.hooks :=
  run_inv (fun x => x.st.admin = none ∧ x.st.hooks = w.st.hooks)
    (fun _ _ _ _ _ hi ht => by
      obtain ⟨a, b⟩ := admin_none_frozen hi.1 ht
      exact ⟨a, b.trans hi.2⟩)
    ⟨hn, rfl⟩ ops

/-- What the three admin operations do (and that they send nothing). -/
theorem admin_ops_effect {w w' : World} {blk : Block} {op : Op} {out : List Out}
    (h : tx w blk op = .ok (w', out)) (ha : Op.isAdminOp op = true) :
    out = [] ∧ w'.st.members = w.st.members ∧ w'.st.total = w.st.total ∧ w'.st.stake = w.st.stake ∧
    (match op with
     | .updateAdmin _ _ => w'.st.hooks = w.st.hooks
     | .addHook _ a => a.text ∉ w.st.hooks ∧ w'.st.hooks = w.st.hooks ++ [a.text] ∧ w'.st.admin = w.st.admin
     | .removeHook _ a => a.text ∈ w.st.hooks ∧ w'.st.hooks = w.st.hooks.erase a.text ∧ w'.st.admin = w.st.admin
     | _ => True) := by
  cases op with
  | updateAdmin snd x => obtain ⟨_, ho, adm, rfl⟩ := tx_updateAdmin_ok h; exact ⟨ho, rfl, rfl, rfl, rfl⟩
  | addHook snd x => obtain ⟨_, ho, hn, rfl⟩ := tx_addHook_ok h; exact ⟨ho, rfl, rfl, rfl, hn, rfl, rfl⟩
  | removeHook snd x => obtain ⟨_, ho, hn, rfl⟩ := tx_removeHook_ok h; exact ⟨ho, rfl, rfl, rfl, hn, rfl, rfl⟩
  | bond _ _ => simp [Op.isAdminOp] at ha
  | send _ _ _ _ => simp [Op.isAdminOp] at ha
  | receive _ _ _ _ => simp [Op.isAdminOp] at ha
  | unbond _ _ => simp [Op.isAdminOp] at ha
  | claim _ => simp [Op.isAdminOp] at ha
  | donate _ _ => simp [Op.isAdminOp] at ha

/-! ## Truthful notifications -/

/-- The address whose stake a transaction bonds / unbonds. -/
def Op.staker : Op → Option Addr
  | .bond snd _ | .send snd _ _ _ | .unbond snd _ => some snd
  | _ => none

/-- The notifications a weight change `old → new` of `a` must produce: one single-diff message per
registered hook, in registration order; none when nothing changed. -/
def expectedMsgs (hooks : List Addr) (a : Addr) (old new : Option Nat) : List Out :=
  if new = old then [] else hooks.map (fun hk => Out.hook hk a old new)

theorem um_truthful {st : State} {out : List Out} {s : State} {h : Nat} {a : Addr} {new : Option Nat}
    (e : (st, out) = um s h a new) :
    out = expectedMsgs s.hooks a (s.members.get? a) (st.members.get? a) ∧
    (∀ x, x ≠ a → st.members.get? x = s.members.get? x) := by
  obtain ⟨e1, e2⟩ := um_pair e
  have hnew : st.members.get? a = new := by rw [e1, um_get?]; simp
  constructor
  · rw [hnew, e2, um_out]; rfl
  · intro x hx
    rw [e1, um_get?]
    simp [Ne.symm hx]

/-- **C14 `bond_unbond_diffs_truthful` (cw4-stake)**: a successful bond (native funds or cw20 send) or
unbond by `a` emits exactly: nothing if `a`'s weight is unchanged, otherwise one message per hook registered
*at that moment*, in order, each carrying the single diff `(a, weight before, weight after)` with the true
values as reported by `Member { addr: a }` before and after; nobody else's weight changes; and every
notified hook accepted its message (otherwise the whole transaction would have been rolled back). -/
theorem bond_unbond_diffs_truthful {w w' : World} {blk : Block} {op : Op} {out : List Out} {a : Addr}
    (h : tx w blk op = .ok (w', out)) (hs : Op.staker op = some a) :
    out = expectedMsgs w.st.hooks a (weightOf w.st a) (weightOf w'.st a) ∧
    (∀ x, x ≠ a → weightOf w'.st x = weightOf w.st x) ∧
    (weightOf w'.st a ≠ weightOf w.st a → ∀ hk ∈ w.st.hooks, hk ∈ w.accepting) := by
  have key : ∀ (s : State) (new : Option Nat), s.hooks = w.st.hooks → s.members = w.st.members →
      (w'.st, out) = um s blk.height a new →
      out = expectedMsgs w.st.hooks a (weightOf w.st a) (weightOf w'.st a) ∧
      (∀ x, x ≠ a → weightOf w'.st x = weightOf w.st x) := by
    intro s new hh hm hu
    have := um_truthful hu
    rw [hh, hm] at this
    exact this
  have acc : out = expectedMsgs w.st.hooks a (weightOf w.st a) (weightOf w'.st a) →
      weightOf w'.st a ≠ weightOf w.st a → ∀ hk ∈ w.st.hooks, hk ∈ w.accepting := by
    intro ho hne hk hmem
    -- the messages were delivered in this very transaction
    have hd : ∃ w1 : World, w1.accepting = w.accepting ∧ deliver w1 out = .ok w' := by
      cases op with
      | bond snd coins =>
        simp only [tx, Res.bind_ok, check_ok] at h
        obtain ⟨_, _, w1, h1, r, _, hf⟩ := h
        obtain ⟨hdl, rfl⟩ := finish_ok hf
        obtain ⟨_, rfl⟩ := payIn_ok h1
        exact ⟨_, by rfl, hdl⟩
      | send snd token amt ok =>
        simp only [tx] at h
        split at h
        · simp only [Res.bind_ok] at h
          obtain ⟨w1, h1, r, _, hf⟩ := h
          obtain ⟨hdl, rfl⟩ := finish_ok hf
          obtain ⟨_, rfl⟩ := payIn_ok h1
          exact ⟨_, by rfl, hdl⟩
        · simp only [Res.bind_ok, Res.pure_ok] at h
          obtain ⟨w1, rfl, r, _, hf⟩ := h
          obtain ⟨hdl, rfl⟩ := finish_ok hf
          exact ⟨_, by rfl, hdl⟩
      | unbond snd amt =>
        simp only [tx, Res.bind_ok] at h
        obtain ⟨r, _, hf⟩ := h
        obtain ⟨hdl, rfl⟩ := finish_ok hf
        exact ⟨_, by rfl, hdl⟩
      | receive _ _ _ _ => simp [Op.staker] at hs
      | claim _ => simp [Op.staker] at hs
      | updateAdmin _ _ => simp [Op.staker] at hs
      | addHook _ _ => simp [Op.staker] at hs
      | removeHook _ _ => simp [Op.staker] at hs
      | donate _ _ => simp [Op.staker] at hs
    obtain ⟨w1, hacc, hdl⟩ := hd
    rw [← hacc]
    apply deliver_hooks_accepting hdl hk a (weightOf w.st a) (weightOf w'.st a)
    rw [ho]
    simp [expectedMsgs, hne, hmem]
  cases op with
  | bond snd coins =>
    simp [Op.staker] at hs; subst hs
    obtain ⟨_, amt, _, _, _, new, _, _, _, hu, _⟩ := tx_bond_ok h
    obtain ⟨k1, k2⟩ := key (bondState w.st snd amt) new rfl rfl hu
    exact ⟨k1, k2, acc k1⟩
  | send snd token amt ok =>
    simp [Op.staker] at hs; subst hs
    obtain ⟨_, _, new, _, _, _, hu, _⟩ := tx_send_ok h
    obtain ⟨k1, k2⟩ := key (bondState w.st snd amt) new rfl rfl hu
    exact ⟨k1, k2, acc k1⟩
  | unbond snd amt =>
    simp [Op.staker] at hs; subst hs
    obtain ⟨new, _, _, hu, _⟩ := tx_unbond_ok h
    obtain ⟨k1, k2⟩ := key (unbondState w.st blk snd amt) new rfl rfl hu
    exact ⟨k1, k2, acc k1⟩
  | receive _ _ _ _ => simp [Op.staker] at hs
  | claim _ => simp [Op.staker] at hs
  | updateAdmin _ _ => simp [Op.staker] at hs
  | addHook _ _ => simp [Op.staker] at hs
  | removeHook _ _ => simp [Op.staker] at hs
  | donate _ _ => simp [Op.staker] at hs

/-- **C14 no spurious notifications**: every other successful transaction (claim, admin operations, plain
transfers) sends no hook message and changes no weight. -/
theorem silent_ops {w w' : World} {blk : Block} {op : Op} {out : List Out}
    (h : tx w blk op = .ok (w', out)) (hs : Op.staker op = none) :
    (∀ hk k old new, Out.hook hk k old new ∉ out) ∧ (∀ x, weightOf w'.st x = weightOf w.st x) := by
  cases op with
  | bond _ _ => simp [Op.staker] at hs
  | send _ _ _ _ => simp [Op.staker] at hs
  | unbond _ _ => simp [Op.staker] at hs
  | receive snd sender amt ok => exact (tx_receive_never h).elim
  | claim snd =>
    obtain ⟨_, _, ho, hst, _⟩ := tx_claim_ok h
    refine ⟨?_, fun x => by simp [weightOf, hst]⟩
    intro hk k old new
    rw [ho]; unfold payout; split <;> simp
  | updateAdmin snd x => obtain ⟨_, ho, adm, rfl⟩ := tx_updateAdmin_ok h; exact ⟨by simp [ho], fun _ => rfl⟩
  | addHook snd x => obtain ⟨_, ho, _, rfl⟩ := tx_addHook_ok h; exact ⟨by simp [ho], fun _ => rfl⟩
  | removeHook snd x => obtain ⟨_, ho, _, rfl⟩ := tx_removeHook_ok h; exact ⟨by simp [ho], fun _ => rfl⟩
  | donate snd amt => obtain ⟨_, ho, rfl⟩ := tx_donate_ok h; exact ⟨by simp [ho], fun _ => rfl⟩

/-- **C14 `removed_hook_silent`**: a hook that is not registered when a transaction runs is not a target of
any of its notifications. -/
theorem removed_hook_silent {w w' : World} {blk : Block} {op : Op} {out : List Out}
    (h : tx w blk op = .ok (w', out)) (hk : Addr) (hn : hk ∉ w.st.hooks) :
    ∀ k old new, Out.hook hk k old new ∉ out := by
  intro k old new hm
  cases hs : Op.staker op with
  | none => exact (silent_ops h hs).1 hk k old new hm
  | some a =>
    obtain ⟨ho, _⟩ := bond_unbond_diffs_truthful h hs
    rw [ho] at hm
    unfold expectedMsgs at hm
    split at hm
    · simp at hm
    · simp at hm
      exact hn (by obtain ⟨x, hx, e, _⟩ := hm; exact e ▸ hx)

/-! ## Non-vacuity -/

def cfgMsg : InstMsg := ⟨.native "ustake", 10, 20, .height 5, some ⟨true, "admin"⟩⟩

def stOf (m : InstMsg) : State :=
  match instantiate m with
  | .ok st => st
  | .error _ => default

def w0 : World := World.init (stOf cfgMsg) [("alice", 100)] ["hookA", "hookB"]
def b1 : Block := ⟨100, 0⟩

/-- the admin registers two hooks, a stranger cannot; alice's bond of 35 notifies both with `(alice, -, 3)`,
her further bond of 4 (weight stays 3) notifies nobody, after removing hookA only hookB hears the unbond -/
def w1 : World := run w0 [(b1, .addHook "admin" ⟨true, "hookA"⟩), (b1, .addHook "admin" ⟨true, "hookB"⟩),
  (b1, .addHook "mallory" ⟨true, "hookC"⟩)]

example : w1.st.hooks = ["hookA", "hookB"] := by decide
example : (tx w1 b1 (.bond "alice" [("ustake", 35)])).toOption.map (·.2)
    = some [.hook "hookA" "alice" none (some 3), .hook "hookB" "alice" none (some 3)] := by decide
example : (tx (run w1 [(b1, .bond "alice" [("ustake", 35)])]) b1 (.bond "alice" [("ustake", 4)])).toOption.map (·.2)
    = some [] := by decide
example : (tx (run w1 [(b1, .bond "alice" [("ustake", 35)]), (b1, .removeHook "admin" ⟨true, "hookA"⟩)]) b1
    (.unbond "alice" 20)).toOption.map (·.2) = some [.hook "hookB" "alice" (some 3) none] := by decide
/-- a registered hook that does not accept the message makes the bond fail as a whole -/
example : (tx (run w1 [(b1, .addHook "admin" ⟨true, "refuser"⟩)]) b1 (.bond "alice" [("ustake", 35)])).isOk = false := by
  decide

end CwPlus.Props.C14Stake
