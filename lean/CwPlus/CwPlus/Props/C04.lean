import CwPlus.Lemmas.Cw3Arith
/-!
# C04 — cw3: threshold arithmetic is exact, rounds up, and decides early only soundly

All theorems are about the model `CwPlus.Cw3` of `packages/cw3/src/proposal.rs` and hold for ALL
weights `≤ U64_MAX` and all decimals (18-digit atomics) `≤ 10^18`; nothing is sampled.
Helper arithmetic lives in `Lemmas/Cw3Arith.lean`.
-/
namespace CwPlus.Props.C04
open CwPlus CwPlus.Cw3

/-! ## 1. `votes_needed` -/

/-- C04 "for all weights up to the 64-bit limit": the required weight never exceeds the base weight,
so the `as u64` cast of the Rust code is lossless. -/
theorem vn_le {w a : Nat} (ha : a ≤ DEC_ONE) (hw : w ≤ U64_MAX) : votesNeeded w a ≤ w := by
  rw [vn_eq_raw ha hw]; exact vnRaw_le ha

/-- no intermediate overflow: `10^9·w` fits `u128`, `mul_floor` fits `Uint128`, the cast is the identity -/
theorem vn_no_overflow {w a : Nat} (ha : a ≤ DEC_ONE) (hw : w ≤ U64_MAX) :
    PRECISION_FACTOR * w ≤ U128_MAX ∧ PRECISION_FACTOR * w * a / DEC_ONE ≤ U128_MAX ∧
    votesNeeded w a = (PRECISION_FACTOR * w * a / DEC_ONE + PRECISION_FACTOR - 1) / PRECISION_FACTOR :=
  ⟨(vn_intermediate_fits ha hw).1, (vn_intermediate_fits ha hw).2, vn_eq_raw ha hw⟩

/-- the required weight is monotone in the base weight -/
theorem vn_mono {w w' a : Nat} (ha : a ≤ DEC_ONE) (hw : w' ≤ U64_MAX) (h : w ≤ w') :
    votesNeeded w a ≤ votesNeeded w' a := by
  rw [vn_eq_raw ha hw, vn_eq_raw ha (Nat.le_trans h hw)]; exact vnRaw_mono h

/-- C04 "exact, rounded up": for a percentage with at most 9 decimal places (`a = 10^9·p`)
`votes_needed` is exactly `⌈w·p / 10^9⌉`. -/
theorem vn_exact {w p : Nat} (hp : p ≤ PRECISION_FACTOR) (hw : w ≤ U64_MAX) :
    votesNeeded w (PRECISION_FACTOR * p) = (w * p + PRECISION_FACTOR - 1) / PRECISION_FACTOR := by
  have ha : PRECISION_FACTOR * p ≤ DEC_ONE := by
    simp only [PRECISION_FACTOR, DEC_ONE] at *; omega
  rw [vn_eq_raw ha hw, vnRaw_exact]

/-- … equivalently: `y` reaches the requirement iff `y / w ≥ p / 10^9` in exact arithmetic -/
theorem vn_exact_le_iff {w p y : Nat} (hp : p ≤ PRECISION_FACTOR) (hw : w ≤ U64_MAX) :
    votesNeeded w (PRECISION_FACTOR * p) ≤ y ↔ w * p ≤ y * PRECISION_FACTOR := by
  rw [vn_exact hp hw, ceil9_le_iff]

/-- C04 "within one vote, never stricter than exact" (18-digit decimals): the library floors
`10^9·w·a / 10^18` before taking the ceiling, so it may require one vote LESS than the exact
ceiling `⌈w·a / 10^18⌉`, never more. -/
theorem vn_within_one {w a : Nat} (ha : a ≤ DEC_ONE) (hw : w ≤ U64_MAX) :
    votesNeeded w a ≤ exactCeil w a ∧ exactCeil w a ≤ votesNeeded w a + 1 := by
  rw [vn_eq_raw ha hw]; exact vnRaw_within_one w a

/-- cross-multiplied reading of `vn_within_one` -/
theorem vn_le_iff_within_one {w a y : Nat} (ha : a ≤ DEC_ONE) (hw : w ≤ U64_MAX) :
    (w * a ≤ y * DEC_ONE → votesNeeded w a ≤ y) ∧ (votesNeeded w a ≤ y → w * a ≤ (y + 1) * DEC_ONE) := by
  have h := vn_within_one (w := w) ha hw
  have e1 := ceil18_le_iff (w * a) y
  have e2 := ceil18_le_iff (w * a) (y + 1)
  unfold exactCeil at h
  constructor
  · intro hy; have := e1.mpr hy; omega
  · intro hy; apply e2.mp; omega

/-- the requirements for `a` and for `1 - a` together cover the whole base weight
(so "passed" and "rejected" can never both hold) -/
theorem vn_compl {w a : Nat} (ha : a ≤ DEC_ONE) (hw : w ≤ U64_MAX) :
    w ≤ votesNeeded w a + votesNeeded w (DEC_ONE - a) := by
  rw [vn_eq_raw ha hw, vn_eq_raw (Nat.sub_le _ _) hw]; exact vnRaw_compl ha

/-! ## 2. Premise, closed forms of the decision functions -/

/-- all votes cast -/
@[reducible] def cast (v : Votes) : Nat := v.yes + v.no + v.abstain + v.veto

/-- tally after further votes `c` -/
@[reducible] def plus (v c : Votes) : Votes := ⟨v.yes + c.yes, v.no + c.no, v.abstain + c.abstain, v.veto + c.veto⟩

/-- The premise of C04: the tally does not exceed the total weight (a `u64`) and the threshold
passed `Threshold::validate` for this total. -/
structure Premise (p : Tally) : Prop where
  tally_le : cast p.votes ≤ p.totalWeight
  total_u64 : p.totalWeight ≤ U64_MAX
  valid : p.threshold.validate p.totalWeight = .ok ()

theorem valid_count {k total : Nat} (h : (Threshold.absoluteCount k).validate total = .ok ()) :
    0 < k ∧ k ≤ total := by
  simp [Threshold.validate] at h; omega

theorem valid_pct {a total : Nat} (h : (Threshold.absolutePercentage a).validate total = .ok ()) :
    DEC_ONE / 2 ≤ a ∧ a ≤ DEC_ONE := by
  simpa [Threshold.validate] using h

theorem valid_quorum {t q total : Nat} (h : (Threshold.thresholdQuorum t q).validate total = .ok ()) :
    DEC_ONE / 2 ≤ t ∧ t ≤ DEC_ONE ∧ 0 < q ∧ q ≤ DEC_ONE := by
  simp [Threshold.validate] at h; omega

theorem total_ok {v : Votes} (h : cast v ≤ U64_MAX) : v.total = .ok (cast v) := by
  unfold cast at h
  simp [Votes.total, addU64, cast, bind, Except.bind]
  have h1 : v.yes + v.no ≤ U64_MAX := by omega
  have h2 : v.yes + v.no + v.abstain ≤ U64_MAX := by omega
  simp [h1, h2, h]

/-- What `is_passed` computes, as a pure formula.  Only the base of a quorum threshold depends
on expiry: the opinions cast once expired, the whole non-abstaining weight before. -/
def libPassesAt (thr : Threshold) (total : Nat) (v : Votes) (expired : Bool) : Bool :=
  decide (0 < v.yes) &&
  match thr with
  | .absoluteCount k => decide (k ≤ v.yes)
  | .absolutePercentage a => decide (votesNeeded (total - v.abstain) a ≤ v.yes)
  | .thresholdQuorum t q =>
    decide (votesNeeded total q ≤ cast v) &&
    decide (votesNeeded ((if expired then cast v else total) - v.abstain) t ≤ v.yes)

/-- The library's decision on a FINAL tally (what `is_passed` computes once the proposal has expired). -/
def libPasses (thr : Threshold) (total : Nat) (v : Votes) : Bool := libPassesAt thr total v true

/-- The documented cw3 rule on a final tally in EXACT arithmetic (cross-multiplied integers,
independent of `votes_needed`): `yes ≥ k`; `yes/(total-abstain) ≥ a`; quorum `cast/total ≥ q` and
`yes/(cast-abstain) ≥ t`; and at least some Yes weight. -/
def exactPasses (thr : Threshold) (total : Nat) (v : Votes) : Bool :=
  decide (0 < v.yes) &&
  match thr with
  | .absoluteCount k => decide (k ≤ v.yes)
  | .absolutePercentage a => decide ((total - v.abstain) * a ≤ v.yes * DEC_ONE)
  | .thresholdQuorum t q =>
    decide (total * q ≤ cast v * DEC_ONE) && decide ((cast v - v.abstain) * t ≤ v.yes * DEC_ONE)

/-- the same with one vote of slack on every percentage requirement -/
def laxPasses (thr : Threshold) (total : Nat) (v : Votes) : Bool :=
  decide (0 < v.yes) &&
  match thr with
  | .absoluteCount k => decide (k ≤ v.yes)
  | .absolutePercentage a => decide ((total - v.abstain) * a ≤ (v.yes + 1) * DEC_ONE)
  | .thresholdQuorum t q =>
    decide (total * q ≤ (cast v + 1) * DEC_ONE) && decide ((cast v - v.abstain) * t ≤ (v.yes + 1) * DEC_ONE)

/-- `is_passed`, AbsoluteCount (expired or not) -/
theorem isPassed_count {p : Tally} {k : Nat} (blk : Block) (ht : p.threshold = .absoluteCount k) :
    isPassed p blk = .ok (decide (0 < p.votes.yes ∧ k ≤ p.votes.yes)) := by
  unfold isPassed; rw [ht]
  by_cases h0 : p.votes.yes = 0
  · simp [h0]
  · have : 0 < p.votes.yes := by omega
    simp [h0, this]

/-- `is_passed`, AbsolutePercentage (expired or not) -/
theorem isPassed_pct {p : Tally} {a : Nat} (blk : Block) (ht : p.threshold = .absolutePercentage a)
    (hab : p.votes.abstain ≤ p.totalWeight) :
    isPassed p blk = .ok (decide (0 < p.votes.yes ∧ votesNeeded (p.totalWeight - p.votes.abstain) a ≤ p.votes.yes)) := by
  unfold isPassed; rw [ht]
  by_cases h0 : p.votes.yes = 0
  · simp [h0]
  · have : 0 < p.votes.yes := by omega
    simp [h0, this, subU64, hab, bind, Except.bind, pure, Except.pure]

/-- `is_passed`, ThresholdQuorum: the base of the threshold is the opinions cast once expired,
the whole non-abstaining weight before. -/
theorem isPassed_quorum {p : Tally} {t q : Nat} (blk : Block) (ht : p.threshold = .thresholdQuorum t q)
    (hc : cast p.votes ≤ p.totalWeight) (hu : p.totalWeight ≤ U64_MAX) :
    isPassed p blk = .ok (decide (0 < p.votes.yes ∧ votesNeeded p.totalWeight q ≤ cast p.votes ∧
      votesNeeded ((if p.expires.isExpired blk then cast p.votes else p.totalWeight) - p.votes.abstain) t ≤ p.votes.yes)) := by
  have htot := total_ok (v := p.votes) (Nat.le_trans hc hu)
  have hab : p.votes.abstain ≤ p.totalWeight := by unfold cast at hc; omega
  have hab' : p.votes.abstain ≤ cast p.votes := by unfold cast; omega
  unfold isPassed; rw [ht]
  generalize votesNeeded = vn
  generalize cast p.votes = c at *
  by_cases h0 : p.votes.yes = 0
  · rw [if_pos h0, decide_eq_false (fun h => by have := h.1; omega)]
  · have hy : 0 < p.votes.yes := by omega
    simp only [h0, if_false, htot]
    rw [ok_bind]
    by_cases hq : c < vn p.totalWeight q
    · rw [if_pos hq, pure_eq_ok, decide_eq_false (fun h => by have := h.2.1; omega)]
    · have hq' : vn p.totalWeight q ≤ c := by omega
      rw [if_neg hq]
      by_cases he : p.expires.isExpired blk = true
      · rw [if_pos he, if_pos he, subU64_bind_of_le hab', pure_eq_ok]
        exact ok_decide_congr ⟨fun h => ⟨hy, hq', h⟩, fun h => h.2.2⟩
      · rw [if_neg he, if_neg he, subU64_bind_of_le hab, pure_eq_ok]
        exact ok_decide_congr ⟨fun h => ⟨hy, hq', h⟩, fun h => h.2.2⟩

/-- `is_rejected`, AbsoluteCount with a reachable weight -/
theorem isRejected_count {p : Tally} {k : Nat} (blk : Block) (ht : p.threshold = .absoluteCount k)
    (hk : k ≤ p.totalWeight) :
    isRejected p blk = .ok (decide (p.totalWeight - k < p.votes.no)) := by
  unfold isRejected; rw [ht]
  simp only []
  rw [subU64_bind_of_le hk, pure_eq_ok]

/-- `is_rejected`, AbsolutePercentage -/
theorem isRejected_pct {p : Tally} {a : Nat} (blk : Block) (ht : p.threshold = .absolutePercentage a)
    (hab : p.votes.abstain ≤ p.totalWeight) (ha : a ≤ DEC_ONE) :
    isRejected p blk =
      .ok (decide (votesNeeded (p.totalWeight - p.votes.abstain) (DEC_ONE - a) < p.votes.no)) := by
  unfold isRejected; rw [ht]
  simp only []
  rw [subU64_bind_of_le hab, oneMinus_bind_of_le ha, pure_eq_ok]

/-- `is_rejected`, ThresholdQuorum -/
theorem isRejected_quorum {p : Tally} {t q : Nat} (blk : Block) (ht : p.threshold = .thresholdQuorum t q)
    (hc : cast p.votes ≤ p.totalWeight) (hu : p.totalWeight ≤ U64_MAX) (ha : t ≤ DEC_ONE) :
    isRejected p blk = .ok (decide (votesNeeded
      ((if p.expires.isExpired blk then cast p.votes else p.totalWeight) - p.votes.abstain) (DEC_ONE - t) < p.votes.no)) := by
  have htot := total_ok (v := p.votes) (Nat.le_trans hc hu)
  have hab : p.votes.abstain ≤ p.totalWeight := by unfold cast at hc; omega
  have hab' : p.votes.abstain ≤ cast p.votes := by unfold cast; omega
  unfold isRejected; rw [ht]
  simp only []
  by_cases he : p.expires.isExpired blk = true
  · rw [if_pos he, if_pos he, htot, ok_bind, subU64_bind_of_le hab', oneMinus_bind_of_le ha, pure_eq_ok]
  · rw [if_neg he, if_neg he, subU64_bind_of_le hab, oneMinus_bind_of_le ha, pure_eq_ok]

/-! ## 3. No panic inside the premise; never passed without Yes weight -/

theorem Premise.abstain_le {p : Tally} (h : Premise p) : p.votes.abstain ≤ p.totalWeight := by
  have := h.tally_le; unfold cast at this; omega

/-- under the premise `is_passed` is the library formula -/
theorem isPassed_eq {p : Tally} (h : Premise p) (blk : Block) :
    isPassed p blk = .ok (libPassesAt p.threshold p.totalWeight p.votes (p.expires.isExpired blk)) := by
  cases ht : p.threshold with
  | absoluteCount k => rw [isPassed_count blk ht]; simp [libPassesAt]
  | absolutePercentage a => rw [isPassed_pct blk ht h.abstain_le]; simp [libPassesAt]
  | thresholdQuorum t q => rw [isPassed_quorum blk ht h.tally_le h.total_u64]; simp [libPassesAt]

/-- C04 "for all weights up to the 64-bit limit": inside the premise none of the `u64`
subtractions/additions, the `Decimal` subtraction or the `as u64` cast can fail — the three
decision functions return a value. -/
theorem no_panic {p : Tally} (h : Premise p) (blk : Block) :
    (∃ b, isPassed p blk = .ok b) ∧ (∃ b, isRejected p blk = .ok b) ∧ (∃ s, currentStatus p blk = .ok s) := by
  have hp : ∃ b, isPassed p blk = .ok b := ⟨_, isPassed_eq h blk⟩
  have hr : ∃ b, isRejected p blk = .ok b := by
    have hv := h.valid
    cases ht : p.threshold with
    | absoluteCount k => rw [ht] at hv; exact ⟨_, isRejected_count blk ht (valid_count hv).2⟩
    | absolutePercentage a => rw [ht] at hv; exact ⟨_, isRejected_pct blk ht h.abstain_le (valid_pct hv).2⟩
    | thresholdQuorum t q =>
      rw [ht] at hv; exact ⟨_, isRejected_quorum blk ht h.tally_le h.total_u64 (valid_quorum hv).2.1⟩
  refine ⟨hp, hr, ?_⟩
  obtain ⟨b, hb⟩ := hp
  obtain ⟨r, hr⟩ := hr
  unfold currentStatus
  by_cases hs : p.status ≠ .open
  · rw [if_pos hs]; exact ⟨_, rfl⟩
  · rw [if_neg hs, hb, ok_bind]
    cases b with
    | true => exact ⟨_, rfl⟩
    | false =>
      rw [hr]
      simp only [Bool.false_eq_true, if_false, ok_bind]
      split <;> exact ⟨_, rfl⟩

/-- C04 "never Passed without Yes weight" — for EVERY tally and threshold, even outside the premise
(this is the guard added by the fix of defect D1). -/
theorem passed_needs_yes {p : Tally} {blk : Block} (h : isPassed p blk = .ok true) : 0 < p.votes.yes := by
  unfold isPassed at h
  by_cases h0 : p.votes.yes = 0
  · rw [if_pos h0] at h; cases h
  · omega

/-! ## 4. After expiry the decision is the documented formula -/

/-- C04 clause 1, all threshold kinds at once: once expired, `is_passed` is `libPasses`
(Yes weight present, and the required Yes weight `votes_needed`, i.e. the percentage rounded up,
is reached; quorum computed over all votes cast, threshold over the opinions cast). -/
theorem expired_decision_eq_formula {p : Tally} (h : Premise p) {blk : Block}
    (he : p.expires.isExpired blk = true) :
    isPassed p blk = .ok (libPasses p.threshold p.totalWeight p.votes) := by
  rw [isPassed_eq h blk, he]; rfl

/-- AbsoluteCount `k`: passed iff `yes ≥ k` (exact; `k ≥ 1` by validation, `0 < yes` is the D1 guard) -/
theorem expired_decision_eq_formula_count {p : Tally} {k : Nat} (blk : Block)
    (ht : p.threshold = .absoluteCount k) :
    isPassed p blk = .ok (decide (0 < p.votes.yes ∧ k ≤ p.votes.yes)) := isPassed_count blk ht

/-- AbsolutePercentage `a`: passed iff `0 < yes` and `yes ≥ votes_needed(total - abstain, a)` -/
theorem expired_decision_eq_formula_pct {p : Tally} {a : Nat} (h : Premise p) (blk : Block)
    (ht : p.threshold = .absolutePercentage a) :
    isPassed p blk = .ok (decide (0 < p.votes.yes ∧
      votesNeeded (p.totalWeight - p.votes.abstain) a ≤ p.votes.yes)) := isPassed_pct blk ht h.abstain_le

/-- ThresholdQuorum `t q`, expired: passed iff `0 < yes`, `cast ≥ votes_needed(total, q)` and
`yes ≥ votes_needed(cast - abstain, t)` -/
theorem expired_decision_eq_formula_quorum {p : Tally} {t q : Nat} (h : Premise p) {blk : Block}
    (ht : p.threshold = .thresholdQuorum t q) (he : p.expires.isExpired blk = true) :
    isPassed p blk = .ok (decide (0 < p.votes.yes ∧ votesNeeded p.totalWeight q ≤ cast p.votes ∧
      votesNeeded (cast p.votes - p.votes.abstain) t ≤ p.votes.yes)) := by
  rw [isPassed_quorum blk ht h.tally_le h.total_u64, he]; rfl

/-- for a decimal with at most 9 places the requirement is the exact rational comparison -/
theorem vn_le_iff_exact9 {w a y : Nat} (h9 : PRECISION_FACTOR ∣ a) (ha : a ≤ DEC_ONE) (hw : w ≤ U64_MAX) :
    votesNeeded w a ≤ y ↔ w * a ≤ y * DEC_ONE := by
  obtain ⟨p, rfl⟩ := h9
  have hp : p ≤ PRECISION_FACTOR := by simp only [PRECISION_FACTOR, DEC_ONE] at *; omega
  rw [vn_exact_le_iff hp hw, Nat.mul_left_comm w PRECISION_FACTOR p]
  generalize w * p = A
  simp only [PRECISION_FACTOR, DEC_ONE]; omega

/-- thresholds written with at most 9 decimal places -/
def nineDecimals : Threshold → Prop
  | .absoluteCount _ => True
  | .absolutePercentage a => PRECISION_FACTOR ∣ a
  | .thresholdQuorum t q => PRECISION_FACTOR ∣ t ∧ PRECISION_FACTOR ∣ q

/-- C04 "up to 9 decimal places (exact)": for such thresholds the library's final decision IS the
documented formula in exact rational arithmetic (cross-multiplied). -/
theorem libPasses_eq_exact9 {thr : Threshold} {total : Nat} {v : Votes}
    (hv : thr.validate total = .ok ()) (hc : cast v ≤ total) (hu : total ≤ U64_MAX) (h9 : nineDecimals thr) :
    libPasses thr total v = exactPasses thr total v := by
  have hab : v.abstain ≤ total := by unfold cast at hc; omega
  cases thr with
  | absoluteCount k => rfl
  | absolutePercentage a =>
    have := vn_le_iff_exact9 (w := total - v.abstain) (y := v.yes) h9 (valid_pct hv).2 (by omega)
    simp only [libPasses, libPassesAt, exactPasses, this]
  | thresholdQuorum t q =>
    have hq := valid_quorum hv
    have e1 := vn_le_iff_exact9 (w := total) (y := cast v) h9.2 hq.2.2.2 hu
    have e2 := vn_le_iff_exact9 (w := cast v - v.abstain) (y := v.yes) h9.1 hq.2.1 (by omega)
    simp only [libPasses, libPassesAt, exactPasses, e1, e2, if_true]

/-- C04 "up to 18 decimal places (within one vote, never stricter than exact)": whenever the exact
formula passes the library passes, and whenever the library passes the exact formula passes with
at most one vote of slack on each percentage requirement. -/
theorem libPasses_within_one {thr : Threshold} {total : Nat} {v : Votes}
    (hv : thr.validate total = .ok ()) (hc : cast v ≤ total) (hu : total ≤ U64_MAX) :
    (exactPasses thr total v = true → libPasses thr total v = true) ∧
    (libPasses thr total v = true → laxPasses thr total v = true) := by
  have hab : v.abstain ≤ total := by unfold cast at hc; omega
  cases thr with
  | absoluteCount k => exact ⟨id, id⟩
  | absolutePercentage a =>
    have := vn_le_iff_within_one (w := total - v.abstain) (y := v.yes) (valid_pct hv).2 (by omega)
    simp only [libPasses, libPassesAt, exactPasses, laxPasses, Bool.and_eq_true, decide_eq_true_eq]
    exact ⟨fun h => ⟨h.1, this.1 h.2⟩, fun h => ⟨h.1, this.2 h.2⟩⟩
  | thresholdQuorum t q =>
    have hq := valid_quorum hv
    have e1 := vn_le_iff_within_one (w := total) (y := cast v) hq.2.2.2 hu
    have e2 := vn_le_iff_within_one (w := cast v - v.abstain) (y := v.yes) hq.2.1 (by omega)
    simp only [libPasses, libPassesAt, exactPasses, laxPasses, Bool.and_eq_true, decide_eq_true_eq, if_true]
    exact ⟨fun h => ⟨h.1, e1.1 h.2.1, e2.1 h.2.2⟩, fun h => ⟨h.1, e1.2 h.2.1, e2.2 h.2.2⟩⟩

/-- C04 clause 1 for 9-decimal thresholds, on the decision function itself -/
theorem expired_decision_exact9 {p : Tally} (h : Premise p) {blk : Block}
    (he : p.expires.isExpired blk = true) (h9 : nineDecimals p.threshold) :
    isPassed p blk = .ok (exactPasses p.threshold p.totalWeight p.votes) := by
  rw [expired_decision_eq_formula h he, libPasses_eq_exact9 h.valid h.tally_le h.total_u64 h9]

/-- C04 clause 1 for 18-digit thresholds, on the decision function itself: never stricter than the
exact formula, at most one vote more permissive. -/
theorem expired_decision_within_one {p : Tally} (h : Premise p) {blk : Block}
    (he : p.expires.isExpired blk = true) :
    (exactPasses p.threshold p.totalWeight p.votes = true → isPassed p blk = .ok true) ∧
    (isPassed p blk = .ok true → laxPasses p.threshold p.totalWeight p.votes = true) := by
  have := libPasses_within_one (v := p.votes) h.valid h.tally_le h.total_u64
  rw [expired_decision_eq_formula h he]
  exact ⟨fun hx => congrArg _ (this.1 hx), fun hx => this.2 (Except.ok.inj hx)⟩

/-- **C04 clause 1 for `current_status` itself**: inside the premise, the status computed for a proposal stored Open
that has expired is decided by the documented formula alone — Passed if `libPasses` (Yes weight present and the
percentage, rounded up, reached; quorum over all votes cast, threshold over the opinions cast), Rejected otherwise;
never Open, never an error. -/
theorem expired_status_eq_formula {p : Tally} (h : Premise p) (ho : p.status = .open) {blk : Block}
    (he : p.expires.isExpired blk = true) :
    currentStatus p blk = .ok (if libPasses p.threshold p.totalWeight p.votes then .passed else .rejected) := by
  obtain ⟨_, ⟨r, hr⟩, _⟩ := no_panic h blk
  unfold currentStatus
  rw [if_neg (by simp [ho]), expired_decision_eq_formula h he, ok_bind]
  cases hl : libPasses p.threshold p.totalWeight p.votes with
  | true => rfl
  | false =>
    rw [hr]
    simp only [Bool.false_eq_true, if_false, ok_bind, he, Bool.or_true, if_true]
    rfl

/-- … for thresholds with at most 9 decimals: decided by the EXACT cross-multiplied rule. -/
theorem expired_status_exact9 {p : Tally} (h : Premise p) (ho : p.status = .open) {blk : Block}
    (he : p.expires.isExpired blk = true) (h9 : nineDecimals p.threshold) :
    currentStatus p blk = .ok (if exactPasses p.threshold p.totalWeight p.votes then .passed else .rejected) := by
  rw [expired_status_eq_formula h ho he, libPasses_eq_exact9 h.valid h.tally_le h.total_u64 h9]

/-- … for 18-digit thresholds: Passed whenever the exact rule passes, Rejected whenever even the rule with one vote of
slack fails. -/
theorem expired_status_within_one {p : Tally} (h : Premise p) (ho : p.status = .open) {blk : Block}
    (he : p.expires.isExpired blk = true) :
    (exactPasses p.threshold p.totalWeight p.votes = true → currentStatus p blk = .ok .passed) ∧
    (laxPasses p.threshold p.totalWeight p.votes = false → currentStatus p blk = .ok .rejected) := by
  have hw := libPasses_within_one (v := p.votes) h.valid h.tally_le h.total_u64
  rw [expired_status_eq_formula h ho he]
  constructor
  · intro hx; rw [hw.1 hx]; rfl
  · intro hx
    cases hl : libPasses p.threshold p.totalWeight p.votes with
    | false => rfl
    | true => rw [hw.2 hl] at hx; cases hx

/-! ## 5. Early decisions are sound; never both -/

/-- What `is_rejected` computes, as a pure formula. -/
def libRejectsAt (thr : Threshold) (total : Nat) (v : Votes) (expired : Bool) : Bool :=
  match thr with
  | .absoluteCount k => decide (total - k < v.no)
  | .absolutePercentage a => decide (votesNeeded (total - v.abstain) (DEC_ONE - a) < v.no)
  | .thresholdQuorum t _ =>
    decide (votesNeeded ((if expired then cast v else total) - v.abstain) (DEC_ONE - t) < v.no)

/-- under the premise `is_rejected` is the library formula -/
theorem isRejected_eq {p : Tally} (h : Premise p) (blk : Block) :
    isRejected p blk = .ok (libRejectsAt p.threshold p.totalWeight p.votes (p.expires.isExpired blk)) := by
  have hv := h.valid
  cases ht : p.threshold with
  | absoluteCount k => rw [ht] at hv; rw [isRejected_count blk ht (valid_count hv).2]; rfl
  | absolutePercentage a => rw [ht] at hv; rw [isRejected_pct blk ht h.abstain_le (valid_pct hv).2]; rfl
  | thresholdQuorum t q =>
    rw [ht] at hv; rw [isRejected_quorum blk ht h.tally_le h.total_u64 (valid_quorum hv).2.1]; rfl

theorem cast_plus (v c : Votes) : cast (plus v c) = cast v + cast c := by
  simp only [cast]; omega

/-- the pure core of `passed_sound` -/
theorem libPassesAt_open_completion {thr : Threshold} {total : Nat} {v : Votes}
    (hv : thr.validate total = .ok ()) (hu : total ≤ U64_MAX)
    (hp : libPassesAt thr total v false = true) (c : Votes) (hc : cast (plus v c) ≤ total) (e : Bool) :
    libPassesAt thr total (plus v c) e = true := by
  obtain ⟨y, n, ab, ve⟩ := v
  obtain ⟨cy, cn, cab, cve⟩ := c
  simp only [cast] at hc
  cases thr with
  | absoluteCount k =>
    simp only [libPassesAt] at hp ⊢
    simp only [Bool.and_eq_true, decide_eq_true_eq] at hp ⊢; omega
  | absolutePercentage a =>
    have hm := vn_mono (w := total - (ab + cab)) (w' := total - ab) (valid_pct hv).2 (by omega) (by omega)
    simp only [libPassesAt] at hp ⊢
    simp only [Bool.and_eq_true, decide_eq_true_eq] at hp ⊢; omega
  | thresholdQuorum t q =>
    have hm : votesNeeded ((if e = true then y + cy + (n + cn) + (ab + cab) + (ve + cve) else total) - (ab + cab)) t
        ≤ votesNeeded (total - ab) t := by
      apply vn_mono (valid_quorum hv).2.1 (by omega)
      cases e <;> simp only [Bool.false_eq_true, if_true, if_false] <;> omega
    simp only [libPassesAt, cast] at hp ⊢
    simp only [Bool.and_eq_true, decide_eq_true_eq, Bool.false_eq_true, if_false] at hp ⊢
    omega

/-- C04 clause 2a: before expiry the library reports Passed only if EVERY completion of the
outstanding votes (any further yes/no/abstain/veto weights `c` keeping the tally within the total)
still passes as a final tally — stated against the library's own after-expiry decision. -/
theorem passed_sound {p : Tally} (h : Premise p) {blk : Block} (hne : p.expires.isExpired blk = false)
    (hp : isPassed p blk = .ok true) (c : Votes) (hc : cast (plus p.votes c) ≤ p.totalWeight) :
    libPasses p.threshold p.totalWeight (plus p.votes c) = true := by
  rw [isPassed_eq h blk, hne] at hp
  exact libPassesAt_open_completion h.valid h.total_u64 (Except.ok.inj hp) c hc true

/-- … the same on the decision function: the completed proposal, evaluated at any block at which it
has expired, is passed. -/
theorem passed_sound_at {p : Tally} (h : Premise p) {blk : Block} (hne : p.expires.isExpired blk = false)
    (hp : isPassed p blk = .ok true) (c : Votes) (hc : cast (plus p.votes c) ≤ p.totalWeight)
    {blk' : Block} (he : p.expires.isExpired blk' = true) :
    isPassed { p with votes := plus p.votes c } blk' = .ok true := by
  have h' : Premise { p with votes := plus p.votes c } := ⟨hc, h.total_u64, h.valid⟩
  rw [expired_decision_eq_formula h' he]
  exact congrArg _ (passed_sound h hne hp c hc)

/-- against exact arithmetic the early Passed is sound within one vote (exact for 9 decimals) -/
theorem passed_sound_exact {p : Tally} (h : Premise p) {blk : Block} (hne : p.expires.isExpired blk = false)
    (hp : isPassed p blk = .ok true) (c : Votes) (hc : cast (plus p.votes c) ≤ p.totalWeight) :
    laxPasses p.threshold p.totalWeight (plus p.votes c) = true ∧
    (nineDecimals p.threshold → exactPasses p.threshold p.totalWeight (plus p.votes c) = true) := by
  have hl := passed_sound h hne hp c hc
  refine ⟨(libPasses_within_one h.valid hc h.total_u64).2 hl, fun h9 => ?_⟩
  rw [← libPasses_eq_exact9 h.valid hc h.total_u64 h9]; exact hl

/-- the pure core of `rejected_sound` -/
theorem libRejectsAt_open_completion {thr : Threshold} {total : Nat} {v : Votes}
    (hv : thr.validate total = .ok ()) (hu : total ≤ U64_MAX)
    (hr : libRejectsAt thr total v false = true) (c : Votes) (hc : cast (plus v c) ≤ total) :
    libPasses thr total (plus v c) = false := by
  obtain ⟨y, n, ab, ve⟩ := v
  obtain ⟨cy, cn, cab, cve⟩ := c
  simp only [cast] at hc
  apply Bool.eq_false_iff.mpr
  intro hp
  cases thr with
  | absoluteCount k =>
    have := valid_count hv
    simp only [libRejectsAt, libPasses, libPassesAt] at hr hp
    simp only [Bool.and_eq_true, decide_eq_true_eq] at hr hp; omega
  | absolutePercentage a =>
    have ha := (valid_pct hv).2
    have hm := vn_mono (w := total - (ab + cab)) (w' := total - ab) (a := DEC_ONE - a)
      (Nat.sub_le _ _) (by omega) (by omega)
    have hk := vn_compl (w := total - (ab + cab)) ha (by omega)
    simp only [libRejectsAt, libPasses, libPassesAt] at hr hp
    simp only [Bool.and_eq_true, decide_eq_true_eq] at hr hp; omega
  | thresholdQuorum t q =>
    have ha := (valid_quorum hv).2.1
    have hm := vn_mono (w := y + cy + (n + cn) + (ab + cab) + (ve + cve) - (ab + cab)) (w' := total - ab)
      (a := DEC_ONE - t) (Nat.sub_le _ _) (by omega) (by omega)
    have hk := vn_compl (w := y + cy + (n + cn) + (ab + cab) + (ve + cve) - (ab + cab)) ha (by omega)
    simp only [libRejectsAt, libPasses, libPassesAt, cast] at hr hp
    simp only [Bool.and_eq_true, decide_eq_true_eq, Bool.false_eq_true, if_false, if_true] at hr hp
    omega

/-- C04 clause 2b: before expiry the library reports Rejected only if NO completion of the
outstanding votes passes as a final tally. -/
theorem rejected_sound {p : Tally} (h : Premise p) {blk : Block} (hne : p.expires.isExpired blk = false)
    (hr : isRejected p blk = .ok true) (c : Votes) (hc : cast (plus p.votes c) ≤ p.totalWeight) :
    libPasses p.threshold p.totalWeight (plus p.votes c) = false := by
  rw [isRejected_eq h blk, hne] at hr
  exact libRejectsAt_open_completion h.valid h.total_u64 (Except.ok.inj hr) c hc

/-- … on the decision function -/
theorem rejected_sound_at {p : Tally} (h : Premise p) {blk : Block} (hne : p.expires.isExpired blk = false)
    (hr : isRejected p blk = .ok true) (c : Votes) (hc : cast (plus p.votes c) ≤ p.totalWeight)
    {blk' : Block} (he : p.expires.isExpired blk' = true) :
    isPassed { p with votes := plus p.votes c } blk' = .ok false := by
  have h' : Premise { p with votes := plus p.votes c } := ⟨hc, h.total_u64, h.valid⟩
  rw [expired_decision_eq_formula h' he]
  exact congrArg _ (rejected_sound h hne hr c hc)

/-- an early Rejected also excludes every completion in EXACT arithmetic (the library is never
stricter than exact, so "no completion passes the library" implies "none passes exactly") -/
theorem rejected_sound_exact {p : Tally} (h : Premise p) {blk : Block} (hne : p.expires.isExpired blk = false)
    (hr : isRejected p blk = .ok true) (c : Votes) (hc : cast (plus p.votes c) ≤ p.totalWeight) :
    exactPasses p.threshold p.totalWeight (plus p.votes c) = false := by
  have hl := rejected_sound h hne hr c hc
  apply Bool.eq_false_iff.mpr
  intro hx
  rw [(libPasses_within_one h.valid hc h.total_u64).1 hx] at hl
  cases hl

/-- C04 clause 3: no tally is reported both passed and rejected (expired or not). -/
theorem not_both {p : Tally} (h : Premise p) (blk : Block) :
    ¬ (isPassed p blk = .ok true ∧ isRejected p blk = .ok true) := by
  rintro ⟨hp, hr⟩
  rw [isPassed_eq h blk] at hp
  rw [isRejected_eq h blk] at hr
  have hp := Except.ok.inj hp
  have hr := Except.ok.inj hr
  have hv := h.valid
  have hc := h.tally_le
  have hu := h.total_u64
  unfold cast at hc
  generalize p.threshold = thr at *
  generalize p.totalWeight = total at *
  generalize p.expires.isExpired blk = e at *
  generalize p.votes = v at *
  cases thr with
  | absoluteCount k =>
    have := valid_count hv
    simp only [libRejectsAt, libPassesAt, Bool.and_eq_true, decide_eq_true_eq] at hr hp; omega
  | absolutePercentage a =>
    have hk := vn_compl (w := total - v.abstain) (valid_pct hv).2 (by omega)
    simp only [libRejectsAt, libPassesAt, Bool.and_eq_true, decide_eq_true_eq] at hr hp; omega
  | thresholdQuorum t q =>
    have hk := vn_compl (w := (if e then cast v else total) - v.abstain) (valid_quorum hv).2.1
      (by cases e <;> simp only [Bool.false_eq_true, if_true, if_false, cast] <;> omega)
    simp only [libRejectsAt, libPassesAt, Bool.and_eq_true, decide_eq_true_eq] at hr hp
    cases e <;> simp only [Bool.false_eq_true, if_true, if_false, cast] at hr hp hk <;> omega

/-! ## 6. Stability (reused by C03/C05) -/

/-- block `b'` is not earlier than `b` -/
def later (b b' : Block) : Prop := b.height ≤ b'.height ∧ b.time ≤ b'.time

theorem expired_mono {e : Expiration} {b b' : Block} (hl : later b b') (he : e.isExpired b = true) :
    e.isExpired b' = true := by
  obtain ⟨h1, h2⟩ := hl
  cases e <;> simp only [Expiration.isExpired, decide_eq_true_eq] at he ⊢ <;> first | omega | exact he

def noVotes : Votes := ⟨0, 0, 0, 0⟩

theorem plus_noVotes (v : Votes) : plus v noVotes = v := by cases v; rfl

/-- Once passed, always passed: if `is_passed` holds at block `b` it holds at every later block `b'`,
also after further votes `c` (votes are only accepted before expiry: `c` is empty if the proposal
had already expired at `b`). -/
theorem passed_stable {p : Tally} (h : Premise p) {b b' : Block} (hl : later b b')
    (hp : isPassed p b = .ok true) (c : Votes) (hc : cast (plus p.votes c) ≤ p.totalWeight)
    (hvote : p.expires.isExpired b = true → c = noVotes) :
    isPassed { p with votes := plus p.votes c } b' = .ok true := by
  have h' : Premise { p with votes := plus p.votes c } := ⟨hc, h.total_u64, h.valid⟩
  rw [isPassed_eq h' b']
  rw [isPassed_eq h b] at hp
  have hp := Except.ok.inj hp
  apply congrArg
  cases he : p.expires.isExpired b with
  | false =>
    rw [he] at hp
    exact libPassesAt_open_completion h.valid h.total_u64 hp c hc _
  | true =>
    rw [he] at hp
    have he' : p.expires.isExpired b' = true := expired_mono hl he
    show libPassesAt p.threshold p.totalWeight (plus p.votes c) (p.expires.isExpired b') = true
    rw [hvote he, plus_noVotes, he']; exact hp

/-- the same tally stays passed as time goes by -/
theorem passed_stable_time {p : Tally} (h : Premise p) {b b' : Block} (hl : later b b')
    (hp : isPassed p b = .ok true) : isPassed p b' = .ok true := by
  have := passed_stable h hl hp noVotes (by rw [plus_noVotes]; exact h.tally_le) (fun _ => rfl)
  rw [plus_noVotes] at this
  exact this

/-- hence the reported status of an Open-stored proposal that is Passed stays Passed -/
theorem status_passed_stable {p : Tally} (h : Premise p) {b b' : Block} (hl : later b b')
    (hs : currentStatus p b = .ok .passed) (c : Votes) (hc : cast (plus p.votes c) ≤ p.totalWeight)
    (hvote : p.expires.isExpired b = true → c = noVotes) :
    currentStatus { p with votes := plus p.votes c } b' = .ok .passed := by
  unfold currentStatus at hs ⊢
  by_cases hst : p.status ≠ .open
  · rw [if_pos hst] at hs; rw [if_pos hst]; exact hs
  · rw [if_neg hst] at hs; rw [if_neg hst]
    obtain ⟨pb, hpb⟩ := (no_panic h b).1
    rw [hpb, ok_bind] at hs
    cases pb with
    | true => rw [passed_stable h hl hpb c hc hvote, ok_bind]; rfl
    | false =>
      exfalso
      obtain ⟨rb, hrb⟩ := (no_panic h b).2.1
      rw [hrb, ok_bind] at hs
      simp only [Bool.false_eq_true, if_false] at hs
      split at hs <;> cases hs

/-! ## 6b. Completeness of the early Passed, stability of Rejected -/

/-- Converse of `passed_sound`: before expiry, if every completion of the outstanding votes passes
as a final tally, the library already reports Passed (two completions suffice: nobody else votes,
and everybody else votes No). -/
theorem passed_complete {p : Tally} (h : Premise p) {blk : Block} (hne : p.expires.isExpired blk = false)
    (hall : ∀ c : Votes, cast (plus p.votes c) ≤ p.totalWeight →
      libPasses p.threshold p.totalWeight (plus p.votes c) = true) :
    isPassed p blk = .ok true := by
  rw [isPassed_eq h blk, hne]
  apply congrArg
  have h0 := hall noVotes (by rw [plus_noVotes]; exact h.tally_le)
  rw [plus_noVotes] at h0
  have hc := h.tally_le
  have h1 := hall ⟨0, p.totalWeight - cast p.votes, 0, 0⟩ (by simp only [cast] at hc ⊢; omega)
  generalize p.threshold = thr at *
  generalize p.totalWeight = total at *
  generalize p.votes = v at *
  obtain ⟨y, n, ab, ve⟩ := v
  simp only [cast] at hc
  cases thr with
  | absoluteCount k => exact h0
  | absolutePercentage a => exact h0
  | thresholdQuorum t q =>
    have e : y + 0 + (n + (total - (y + n + ab + ve))) + (ab + 0) + (ve + 0) - (ab + 0) = total - ab := by omega
    simp only [libPasses, libPassesAt, cast] at h0 h1 ⊢
    simp only [Bool.and_eq_true, decide_eq_true_eq, Bool.false_eq_true, if_false, if_true] at h0 h1 ⊢
    rw [e] at h1
    exact ⟨h0.1, h0.2.1, by omega⟩

/-- `is_rejected` before expiry is stable under further votes -/
theorem libRejectsAt_open_mono {thr : Threshold} {total : Nat} {v : Votes}
    (hv : thr.validate total = .ok ()) (hu : total ≤ U64_MAX)
    (hr : libRejectsAt thr total v false = true) (c : Votes) (hc : cast (plus v c) ≤ total) :
    libRejectsAt thr total (plus v c) false = true := by
  obtain ⟨y, n, ab, ve⟩ := v
  obtain ⟨cy, cn, cab, cve⟩ := c
  simp only [cast] at hc
  cases thr with
  | absoluteCount k =>
    simp only [libRejectsAt] at hr ⊢
    simp only [decide_eq_true_eq] at hr ⊢; omega
  | absolutePercentage a =>
    have hm := vn_mono (w := total - (ab + cab)) (w' := total - ab) (a := DEC_ONE - a)
      (Nat.sub_le _ _) (by omega) (by omega)
    simp only [libRejectsAt] at hr ⊢
    simp only [decide_eq_true_eq] at hr ⊢; omega
  | thresholdQuorum t q =>
    have hm := vn_mono (w := total - (ab + cab)) (w' := total - ab) (a := DEC_ONE - t)
      (Nat.sub_le _ _) (by omega) (by omega)
    simp only [libRejectsAt] at hr ⊢
    simp only [decide_eq_true_eq, Bool.false_eq_true, if_false] at hr ⊢; omega

/-- Once Rejected, always Rejected: if an Open-stored proposal is reported Rejected at block `b`
(voted down early, or expired without passing), it is reported Rejected at every later block `b'`,
also after further votes `c` (none if it had already expired at `b`). -/
theorem rejected_stable {p : Tally} (h : Premise p) {b b' : Block} (hl : later b b')
    (hs : currentStatus p b = .ok .rejected) (c : Votes) (hc : cast (plus p.votes c) ≤ p.totalWeight)
    (hvote : p.expires.isExpired b = true → c = noVotes) :
    currentStatus { p with votes := plus p.votes c } b' = .ok .rejected := by
  have h' : Premise { p with votes := plus p.votes c } := ⟨hc, h.total_u64, h.valid⟩
  unfold currentStatus at hs ⊢
  by_cases hst : p.status ≠ .open
  · rw [if_pos hst] at hs; rw [if_pos hst]; exact hs
  · rw [if_neg hst] at hs; rw [if_neg hst]
    rw [isPassed_eq h b, ok_bind] at hs
    rw [isPassed_eq h' b', ok_bind]
    cases hpb : libPassesAt p.threshold p.totalWeight p.votes (p.expires.isExpired b) with
    | true => rw [hpb] at hs; cases hs
    | false =>
      rw [hpb] at hs
      simp only [Bool.false_eq_true, if_false] at hs
      rw [isRejected_eq h b, ok_bind] at hs
      rw [isRejected_eq h' b']
      show (if libPassesAt p.threshold p.totalWeight (plus p.votes c) (p.expires.isExpired b') = true then _ else _) = _
      cases he : p.expires.isExpired b with
      | true =>
        -- already expired at b: no further votes, still expired, same decision
        have he' := expired_mono hl he
        rw [hvote he, plus_noVotes, he']
        rw [he] at hpb
        rw [hpb]
        simp only [Bool.false_eq_true, if_false, ok_bind, Bool.or_true, if_true]
        rfl
      | false =>
        rw [he] at hs hpb
        have hrej : libRejectsAt p.threshold p.totalWeight p.votes false = true := by
          cases hr : libRejectsAt p.threshold p.totalWeight p.votes false with
          | true => rfl
          | false => rw [hr] at hs; simp only [Bool.or_self, Bool.false_eq_true, if_false] at hs; cases hs
        cases he' : p.expires.isExpired b' with
        | true =>
          have := libRejectsAt_open_completion h.valid h.total_u64 hrej c hc
          unfold libPasses at this
          rw [this]
          simp only [Bool.false_eq_true, if_false, ok_bind, Bool.or_true, if_true]
          rfl
        | false =>
          have hr' := libRejectsAt_open_mono h.valid h.total_u64 hrej c hc
          have hnb := not_both h' b'
          rw [isPassed_eq h' b', isRejected_eq h' b'] at hnb
          have e1 : ({ p with votes := plus p.votes c } : Tally).expires.isExpired b' = false := he'
          rw [e1] at hnb
          show (if libPassesAt p.threshold p.totalWeight (plus p.votes c) false = true then _ else _) = _
          cases hp' : libPassesAt p.threshold p.totalWeight (plus p.votes c) false with
          | true => exact absurd ⟨congrArg _ hp', congrArg _ hr'⟩ hnb
          | false =>
            simp only [Bool.false_eq_true, if_false, ok_bind]
            rw [hr']
            rfl

/-! ## 7. The excluded region -/

/-- Outside the premise: an `AbsoluteCount` weight above the total (rejected by
`Threshold::validate`; reachable in cw3-flex only if the group shrinks later) makes `is_rejected`
panic on the `u64` subtraction `total_weight - weight`, while `is_passed` is simply `false` for
tallies within the total. -/
theorem count_above_total {p : Tally} {k : Nat} (blk : Block) (ht : p.threshold = .absoluteCount k)
    (hk : p.totalWeight < k) :
    (∃ e, isRejected p blk = .error e) ∧ (cast p.votes ≤ p.totalWeight → isPassed p blk = .ok false) := by
  constructor
  · refine ⟨"underflow.u64", ?_⟩
    unfold isRejected; rw [ht]
    simp only []
    rw [subU64_bind_of_lt hk]
  · intro hc
    rw [isPassed_count blk ht]
    unfold cast at hc
    exact congrArg _ (decide_eq_false (by omega))

/-! ## 8. The hypotheses are satisfiable (closed instances, by evaluation) -/

/-- decidable equality of results, only to let `decide` evaluate the closed examples below -/
@[instance_reducible] def decEqRes {α : Type} [DecidableEq α] : DecidableEq (Res α)
  | .ok a, .ok b => if h : a = b then isTrue (h ▸ rfl) else isFalse (fun e => h (Except.ok.inj e))
  | .error a, .error b => if h : a = b then isTrue (h ▸ rfl) else isFalse (fun e => h (Except.error.inj e))
  | .ok _, .error _ => isFalse (fun e => nomatch e)
  | .error _, .ok _ => isFalse (fun e => nomatch e)
attribute [local instance] decEqRes

/-- 9-decimal example: 51 % of 15 with 2 abstaining needs `⌈13·0.51⌉ = 7` -/
example : votesNeeded 13 510000000000000000 = 7 := by decide
/-- 18-digit example where the library is one vote more permissive than exact: `w = 2`,
`a = 0.5 + 10^-18` ("more than half"): exact `⌈w·a⌉ = 2`, library `1` -/
example : votesNeeded 2 500000000000000001 = 1 ∧ exactCeil 2 500000000000000001 = 2 := by decide
/-- the top of the range: no wrap-around at `w = 2^64 - 1`, `a = 1` -/
example : votesNeeded U64_MAX DEC_ONE = U64_MAX := by decide

def exQuorum : Tally :=
  { status := .open, threshold := .thresholdQuorum 600000000000000000 400000000000000000,
    totalWeight := 30, votes := ⟨18, 3, 2, 0⟩, expires := .atHeight 100 }

example : Premise exQuorum := ⟨by decide, by decide, by decide⟩
/-- passed early (block 50 < 100): 18 ≥ ⌈0.6·28⌉ = 17 and 23 ≥ 12 -/
example : isPassed exQuorum ⟨50, 0⟩ = .ok true ∧ isRejected exQuorum ⟨50, 0⟩ = .ok false ∧
    exQuorum.expires.isExpired ⟨50, 0⟩ = false := by decide
/-- a completion (all 7 outstanding vote no), evaluated after expiry: still passed, 18 ≥ ⌈0.6·28⌉ -/
example : isPassed { exQuorum with votes := plus exQuorum.votes ⟨0, 7, 0, 0⟩ } ⟨100, 0⟩ = .ok true := by decide

def exRejected : Tally :=
  { status := .open, threshold := .absolutePercentage 666666667000000000,
    totalWeight := 18446744073709551615, votes := ⟨5, 6148914691236517205, 10, 0⟩, expires := .never }

example : Premise exRejected := ⟨by decide, by decide, by decide⟩
example : isRejected exRejected ⟨1, 1⟩ = .ok true ∧ isPassed exRejected ⟨1, 1⟩ = .ok false ∧
    currentStatus exRejected ⟨1, 1⟩ = .ok .rejected := by decide

/-- the D1 witness: everybody abstains -/
def exAllAbstain : Tally :=
  { status := .open, threshold := .absolutePercentage 500000000000000000,
    totalWeight := 10, votes := ⟨0, 0, 10, 0⟩, expires := .atHeight 100 }

example : Premise exAllAbstain := ⟨by decide, by decide, by decide⟩
/-- … not passed; Open while voting, Rejected once expired -/
example : isPassed exAllAbstain ⟨100, 0⟩ = .ok false ∧ currentStatus exAllAbstain ⟨50, 0⟩ = .ok .open ∧
    currentStatus exAllAbstain ⟨100, 0⟩ = .ok .rejected := by decide

/-- the excluded region is really excluded by `validate`, and really panics -/
def exAbove : Tally :=
  { status := .open, threshold := .absoluteCount 11, totalWeight := 10, votes := ⟨1, 1, 0, 0⟩, expires := .never }

example : (Threshold.absoluteCount 11).validate 10 ≠ .ok () ∧
    isRejected exAbove ⟨1, 1⟩ = .error "underflow.u64" ∧ isPassed exAbove ⟨1, 1⟩ = .ok false := by decide

/-- non-vacuity of `expired_status_eq_formula` / `expired_status_exact9`: `exQuorum` (premise above, stored Open,
9-decimal threshold) expired at block 100: Passed by the formula; `exAllAbstain` expired: Rejected by the formula -/
example : exQuorum.status = .open ∧ exQuorum.expires.isExpired ⟨100, 0⟩ = true ∧
    libPasses exQuorum.threshold exQuorum.totalWeight exQuorum.votes = true ∧
    exactPasses exQuorum.threshold exQuorum.totalWeight exQuorum.votes = true ∧
    currentStatus exQuorum ⟨100, 0⟩ = .ok .passed ∧
    libPasses exAllAbstain.threshold exAllAbstain.totalWeight exAllAbstain.votes = false := by decide
example : nineDecimals exQuorum.threshold := ⟨⟨600000000, by decide⟩, ⟨400000000, by decide⟩⟩

/-- **`is_rejected` is NOT complete, also for `AbsoluteCount`** (and likewise for `AbsolutePercentage`): it counts only No
votes, so abstentions and vetoes that make passing impossible do not trigger it.  Total 10, count 6, five abstained:
no completion of the outstanding 5 votes can reach 6 Yes, yet `is_rejected` is false (the proposal is reported Open
until it expires, then Rejected).  So a `rejected_complete` converse of `rejected_sound` is false of the code for
every threshold kind — not only because the quorum is ignored. -/
theorem rejected_not_complete_count :
    (∀ c : Votes, cast (plus ⟨0, 0, 5, 0⟩ c) ≤ 10 → libPasses (.absoluteCount 6) 10 (plus ⟨0, 0, 5, 0⟩ c) = false) ∧
    libRejectsAt (.absoluteCount 6) 10 ⟨0, 0, 5, 0⟩ false = false ∧
    isRejected ⟨.open, .absoluteCount 6, 10, ⟨0, 0, 5, 0⟩, .atHeight 100⟩ ⟨50, 0⟩ = .ok false ∧
    currentStatus ⟨.open, .absoluteCount 6, 10, ⟨0, 0, 5, 0⟩, .atHeight 100⟩ ⟨50, 0⟩ = .ok .open := by
  refine ⟨?_, by decide, by decide, by decide⟩
  intro c hc
  simp only [libPasses, libPassesAt, plus, Bool.and_eq_false_iff, decide_eq_false_iff_not]
  simp only [cast, plus] at hc
  right; omega

/-! ## 9. Quorum tightness, completeness of the early Rejected under exact conditions, no regress -/

/-- **For `ThresholdQuorum` an early (or late) Passed implies the quorum is already met**: `is_passed = true` only if the
votes cast reach `votes_needed(total_weight, quorum)` — before expiry as well as after; further votes can only add to
the votes cast, so the quorum stays met (`passed_stable`). -/
theorem passed_implies_quorum {p : Tally} {t q : Nat} (h : Premise p) {blk : Block}
    (ht : p.threshold = .thresholdQuorum t q) (hp : isPassed p blk = .ok true) :
    votesNeeded p.totalWeight q ≤ cast p.votes := by
  rw [isPassed_quorum blk ht h.tally_le h.total_u64] at hp
  have := Except.ok.inj hp
  simp only [decide_eq_true_eq] at this
  exact this.2.1

/-- … in exact arithmetic: the turnout `cast / total` is at least `quorum`, up to the one vote of `vn_within_one`
(`total·q ≤ (cast + 1)·10^18`), and exactly (`total·q ≤ cast·10^18`) for a quorum with at most 9 decimals. -/
theorem passed_implies_quorum_exact {p : Tally} {t q : Nat} (h : Premise p) {blk : Block}
    (ht : p.threshold = .thresholdQuorum t q) (hp : isPassed p blk = .ok true) :
    p.totalWeight * q ≤ (cast p.votes + 1) * DEC_ONE ∧
    (PRECISION_FACTOR ∣ q → p.totalWeight * q ≤ cast p.votes * DEC_ONE) := by
  have hq := passed_implies_quorum h ht hp
  have hv := h.valid; rw [ht] at hv
  have hqq := (valid_quorum hv).2.2.2
  exact ⟨(vn_le_iff_within_one hqq h.total_u64).2 hq, fun h9 => (vn_le_iff_exact9 h9 hqq h.total_u64).mp hq⟩

/-- **Tightness of the quorum test**: conversely, a ThresholdQuorum proposal whose votes cast do not reach
`votes_needed(total, quorum)` is never Passed, whatever the Yes share — not before expiry, not after. -/
theorem no_quorum_not_passed {p : Tally} {t q : Nat} (h : Premise p) (blk : Block)
    (ht : p.threshold = .thresholdQuorum t q) (hq : cast p.votes < votesNeeded p.totalWeight q) :
    isPassed p blk = .ok false := by
  rw [isPassed_quorum blk ht h.tally_le h.total_u64]
  exact congrArg _ (decide_eq_false (fun hx => by have := hx.2.1; omega))

/-- No completion of the outstanding votes passes as a final tally. -/
def NoCompletionPasses (thr : Threshold) (total : Nat) (v : Votes) : Prop :=
  ∀ c : Votes, cast (plus v c) ≤ total → libPasses thr total (plus v c) = false

/-- **AbsoluteCount: what "no completion passes" means, exactly.**  With a validated count `k` (`1 ≤ k ≤ total`) and a
tally within the total, no completion of the outstanding votes can pass iff the weight that has NOT voted Yes-or-nothing
— No, Abstain and Veto together — exceeds `total - k`. -/
theorem noCompletionPasses_count_iff {k total : Nat} {v : Votes} (hk : 0 < k ∧ k ≤ total) (hc : cast v ≤ total) :
    NoCompletionPasses (.absoluteCount k) total v ↔ total - k < v.no + v.abstain + v.veto := by
  obtain ⟨y, n, ab, ve⟩ := v
  simp only [cast] at hc
  constructor
  · intro hall
    have := hall ⟨total - (y + n + ab + ve), 0, 0, 0⟩ (by simp only [cast, plus]; omega)
    simp only [libPasses, libPassesAt, plus, Bool.and_eq_false_iff, decide_eq_false_iff_not] at this
    simp only
    omega
  · intro hlt c hcc
    simp only [cast, plus] at hcc
    simp only [libPasses, libPassesAt, plus, Bool.and_eq_false_iff, decide_eq_false_iff_not]
    simp only at hlt
    right; omega

/-- `is_rejected` for AbsoluteCount counts the No weight only: it is true iff `total - k < no`. -/
theorem isRejected_count_iff {p : Tally} {k : Nat} (h : Premise p) (blk : Block) (ht : p.threshold = .absoluteCount k) :
    isRejected p blk = .ok true ↔ p.totalWeight - k < p.votes.no := by
  have hv := h.valid; rw [ht] at hv
  rw [isRejected_count blk ht (valid_count hv).2]
  constructor
  · intro hx; simpa using Except.ok.inj hx
  · intro hx; exact congrArg _ (decide_eq_true hx)

/-- **`rejected_complete_no_only` — the exact condition under which the early Rejected IS complete, AbsoluteCount.**
(`rejected_not_complete_count` shows the unconditional converse of `rejected_sound` is false.)  For an `AbsoluteCount`
threshold, if nobody has abstained or vetoed so far (`abstain = 0 ∧ veto = 0`: only Yes/No votes have been cast), then
`is_rejected` is true EXACTLY when no completion of the outstanding votes can pass — before expiry as well as after.  In
general (`noCompletionPasses_count_iff`, `isRejected_count_iff`) the gap between "cannot pass any more" and "reported
Rejected" is exactly the abstained and vetoed weight: the first compares `total - k` with `no + abstain + veto`, the code
with `no` alone. -/
theorem rejected_complete_no_only {p : Tally} {k : Nat} (h : Premise p) (blk : Block)
    (ht : p.threshold = .absoluteCount k) (hab : p.votes.abstain = 0) (hve : p.votes.veto = 0) :
    isRejected p blk = .ok true ↔ NoCompletionPasses p.threshold p.totalWeight p.votes := by
  have hv := h.valid; rw [ht] at hv
  rw [isRejected_count_iff h blk ht, ht, noCompletionPasses_count_iff (valid_count hv) h.tally_le, hab, hve]
  simp

/-- **AbsolutePercentage: complete under `abstain = 0 ∧ veto = 0` only when the two roundings are tight.**  For an
`AbsolutePercentage a` threshold with only Yes/No votes cast, not everybody having voted No (`no < total`), and
`votes_needed(total, a) + votes_needed(total, 1 - a) = total` (no rounding loss: e.g. `total·a` is a whole number of
votes), `is_rejected` is true whenever no completion of the outstanding votes can pass.  Without the tightness condition
this is false: `rejected_not_complete_pct_no_only`. -/
theorem rejected_complete_pct_no_only_tight {p : Tally} {a : Nat} (h : Premise p) (blk : Block)
    (ht : p.threshold = .absolutePercentage a) (hab : p.votes.abstain = 0) (hve : p.votes.veto = 0)
    (hno : p.votes.no < p.totalWeight)
    (htight : votesNeeded p.totalWeight a + votesNeeded p.totalWeight (DEC_ONE - a) = p.totalWeight)
    (hall : NoCompletionPasses p.threshold p.totalWeight p.votes) : isRejected p blk = .ok true := by
  have hv := h.valid; rw [ht] at hv
  rw [isRejected_pct blk ht h.abstain_le (valid_pct hv).2]
  apply congrArg
  have hc := h.tally_le
  have := hall ⟨p.totalWeight - cast p.votes, 0, 0, 0⟩ (by simp only [cast, plus] at hc ⊢; omega)
  rw [ht] at this
  simp only [libPasses, libPassesAt, plus, Bool.and_eq_false_iff, decide_eq_false_iff_not, cast] at this
  simp only [cast] at hc
  rw [hab, hve] at this hc
  simp only [Nat.add_zero, Nat.sub_zero] at this hc
  rw [hab]
  simp only [Nat.sub_zero, decide_eq_true_eq]
  rcases this with h1 | h1 <;> omega

/-- **AbsolutePercentage with only Yes/No votes is NOT complete in general** (rounding): total 10, threshold 51 %, five No
votes and nothing else.  Passing needs `⌈10·0.51⌉ = 6` Yes, at most 5 are outstanding — no completion passes — but
`is_rejected` compares `no = 5 > ⌈10·0.49⌉ = 5`, false: the proposal is reported Open until it expires. -/
theorem rejected_not_complete_pct_no_only :
    NoCompletionPasses (.absolutePercentage 510000000000000000) 10 ⟨0, 5, 0, 0⟩ ∧
    isRejected ⟨.open, .absolutePercentage 510000000000000000, 10, ⟨0, 5, 0, 0⟩, .atHeight 100⟩ ⟨50, 0⟩ = .ok false ∧
    currentStatus ⟨.open, .absolutePercentage 510000000000000000, 10, ⟨0, 5, 0, 0⟩, .atHeight 100⟩ ⟨50, 0⟩ = .ok .open := by
  refine ⟨?_, by decide, by decide⟩
  intro c hc
  obtain ⟨cy, cn, cab, cve⟩ := c
  simp only [cast, plus] at hc
  simp only [libPasses, libPassesAt, plus, Bool.and_eq_false_iff, decide_eq_false_iff_not]
  right
  have hcab : cab = 0 ∨ cab = 1 ∨ cab = 2 ∨ cab = 3 ∨ cab = 4 ∨ cab = 5 := by omega
  have e0 : votesNeeded 10 510000000000000000 = 6 := by decide
  have e1 : votesNeeded 9 510000000000000000 = 5 := by decide
  have e2 : votesNeeded 8 510000000000000000 = 5 := by decide
  have e3 : votesNeeded 7 510000000000000000 = 4 := by decide
  have e4 : votesNeeded 6 510000000000000000 = 4 := by decide
  have e5 : votesNeeded 5 510000000000000000 = 3 := by decide
  rcases hcab with rfl | rfl | rfl | rfl | rfl | rfl <;> simp only [Nat.zero_add] <;>
    first
    | (rw [show 10 - 0 = 10 from rfl, e0]; omega)
    | (rw [show 10 - 1 = 9 from rfl, e1]; omega)
    | (rw [show 10 - 2 = 8 from rfl, e2]; omega)
    | (rw [show 10 - 3 = 7 from rfl, e3]; omega)
    | (rw [show 10 - 4 = 6 from rfl, e4]; omega)
    | (rw [show 10 - 5 = 5 from rfl, e5]; omega)

/-- **… nor when everybody has voted No**: a single voter of weight 1 votes No under a 50 % threshold.  Nothing is
outstanding and nothing can pass, yet `no = 1 > ⌈1·0.5⌉ = 1` is false: reported Open until expiry. -/
theorem rejected_not_complete_all_no :
    NoCompletionPasses (.absolutePercentage 500000000000000000) 1 ⟨0, 1, 0, 0⟩ ∧
    isRejected ⟨.open, .absolutePercentage 500000000000000000, 1, ⟨0, 1, 0, 0⟩, .atHeight 100⟩ ⟨50, 0⟩ = .ok false := by
  refine ⟨?_, by decide⟩
  intro c hc
  obtain ⟨cy, cn, cab, cve⟩ := c
  simp only [cast, plus] at hc
  simp only [libPasses, libPassesAt, plus, Bool.and_eq_false_iff, decide_eq_false_iff_not]
  left; omega

/-- **`status_never_regresses_with_votes`**: the status reported for a proposal never goes back as time passes and
further votes arrive.  Inside the premise, if `current_status` answers `s` at block `b`, then after any further votes `c`
(tally still within the total; none if the proposal had already expired at `b`) it answers at every later block `b'`, and
the answer is `s` again unless `s` was Open: Passed stays Passed (`status_passed_stable`), Rejected stays Rejected
(`rejected_stable`), a stored Executed/Rejected/Passed status is returned unchanged; only Open may move on. -/
theorem status_never_regresses_with_votes {p : Tally} (h : Premise p) {b b' : Block} (hl : later b b') {s : Status}
    (hs : currentStatus p b = .ok s) (c : Votes) (hc : cast (plus p.votes c) ≤ p.totalWeight)
    (hvote : p.expires.isExpired b = true → c = noVotes) :
    ∃ s', currentStatus { p with votes := plus p.votes c } b' = .ok s' ∧ (s' = s ∨ s = .open) := by
  have h' : Premise { p with votes := plus p.votes c } := ⟨hc, h.total_u64, h.valid⟩
  by_cases hst : p.status ≠ .open
  · have e1 : currentStatus p b = .ok p.status := by unfold currentStatus; rw [if_pos hst]
    have e2 : currentStatus { p with votes := plus p.votes c } b' = .ok p.status := by
      unfold currentStatus; rw [if_pos hst]
    rw [e1] at hs; cases hs
    exact ⟨_, e2, Or.inl rfl⟩
  · cases s with
    | passed => exact ⟨_, status_passed_stable h hl hs c hc hvote, Or.inl rfl⟩
    | rejected => exact ⟨_, rejected_stable h hl hs c hc hvote, Or.inl rfl⟩
    | «open» =>
      obtain ⟨s', hs'⟩ := (no_panic h' b').2.2
      exact ⟨s', hs', Or.inr rfl⟩
    | pending =>
      exfalso
      unfold currentStatus at hs
      rw [if_neg hst] at hs
      obtain ⟨pb, hpb⟩ := (no_panic h b).1
      obtain ⟨rb, hrb⟩ := (no_panic h b).2.1
      rw [hpb, ok_bind] at hs
      cases pb <;> simp only [Bool.false_eq_true, if_false, if_true] at hs
      · rw [hrb, ok_bind] at hs; split at hs <;> cases hs
      · cases hs
    | executed =>
      exfalso
      unfold currentStatus at hs
      rw [if_neg hst] at hs
      obtain ⟨pb, hpb⟩ := (no_panic h b).1
      obtain ⟨rb, hrb⟩ := (no_panic h b).2.1
      rw [hpb, ok_bind] at hs
      cases pb <;> simp only [Bool.false_eq_true, if_false, if_true] at hs
      · rw [hrb, ok_bind] at hs; split at hs <;> cases hs
      · cases hs

/-- non-vacuity of `passed_implies_quorum(_exact)` / `status_never_regresses_with_votes`: `exQuorum` is Passed before
expiry with 23 votes cast ≥ `⌈0.4·30⌉ = 12`; -/
example : isPassed exQuorum ⟨50, 0⟩ = .ok true ∧ votesNeeded exQuorum.totalWeight 400000000000000000 = 12 ∧
    cast exQuorum.votes = 23 ∧ currentStatus exQuorum ⟨50, 0⟩ = .ok .passed ∧
    currentStatus { exQuorum with votes := plus exQuorum.votes ⟨0, 7, 0, 0⟩ } ⟨100, 0⟩ = .ok .passed := by decide

/-- non-vacuity of `no_quorum_not_passed`: 5 of 30 voted, all Yes — below the quorum of 12: not passed, early or late -/
example : isPassed { exQuorum with votes := ⟨5, 0, 0, 0⟩ } ⟨50, 0⟩ = .ok false ∧
    isPassed { exQuorum with votes := ⟨5, 0, 0, 0⟩ } ⟨100, 0⟩ = .ok false := by decide

/-- non-vacuity of `rejected_complete_no_only`: count 6 of 10, five No votes and nothing else: rejected, and indeed no
completion passes; with four No votes: neither. -/
example : Premise ⟨.open, .absoluteCount 6, 10, ⟨0, 5, 0, 0⟩, .atHeight 100⟩ ∧
    isRejected ⟨.open, .absoluteCount 6, 10, ⟨0, 5, 0, 0⟩, .atHeight 100⟩ ⟨50, 0⟩ = .ok true ∧
    isRejected ⟨.open, .absoluteCount 6, 10, ⟨0, 4, 0, 0⟩, .atHeight 100⟩ ⟨50, 0⟩ = .ok false ∧
    libPasses (.absoluteCount 6) 10 (plus ⟨0, 4, 0, 0⟩ ⟨6, 0, 0, 0⟩) = true :=
  ⟨⟨by decide, by decide, by decide⟩, by decide, by decide, by decide⟩

/-- non-vacuity of `rejected_complete_pct_no_only_tight`: 50 % of 10 is tight (`5 + 5 = 10`); six No votes: rejected -/
example : votesNeeded 10 500000000000000000 + votesNeeded 10 (DEC_ONE - 500000000000000000) = 10 ∧
    isRejected ⟨.open, .absolutePercentage 500000000000000000, 10, ⟨0, 6, 0, 0⟩, .atHeight 100⟩ ⟨50, 0⟩ = .ok true := by
  decide

end CwPlus.Props.C04
