import CwPlus.Lemmas.Cw3Fixed
import CwPlus.Lemmas.Cw3FixedAt
/-!
# C05 (cw3-fixed part) — passed proposals execute at most once; the lifecycle only moves forward

All theorems are about `Model/Cw3Fixed.lean` (shared core `Model/Cw3Core.lean`); "history" = any
finite list of operations (transactions by anybody with re-entrant self-calls and failing
dispatches, funding, sink changes, arbitrary blocks) after an accepted instantiation
(`Reachable fuel w`).  cw3-fixed has no executor setting: anyone may call Execute.

The cw3-flex part of C05 is `Props/C05Flex.lean`; the generic lemmas both use are in `Lemmas/Cw3Core.lean`
(`execute_spec`, `close_spec`, `edge`, `cs_edge`, `Later`, `*_later`) and `Lemmas/Cw3Status.lean`
(`CoreStep`, `PropStep`, `OpenOk`, `FrozenOk`, `observed_edge_core`).
-/
namespace CwPlus.Props.C05
open CwPlus CwPlus.Cw3 CwPlus.Cw3Core CwPlus.Cw3Fixed

/-! ## Execute -/

/-- C05 "dispatched only by an Execute call made while the proposal is Passed": the Execute handler
succeeds exactly when the proposal exists and its current status (at the call's block) is Passed —
whoever the sender is. -/
theorem execute_ok_iff (s : State) (blk : Block) (snd : Addr) (id : Nat) :
    (execute s blk snd (.execute id)).isOk = true ↔
      ∃ p, s.core.proposals.get? id = some p ∧ p.currentStatus blk = .ok .passed := by
  constructor
  · intro h
    cases hx : execute s blk snd (.execute id) with
    | error e => rw [hx] at h; cases h
    | ok r =>
      obtain ⟨s', out⟩ := r
      obtain ⟨_, _, hc⟩ := execute_cases hx
      rcases hc with ⟨_, _, _, _, _, _, hm, _⟩ | ⟨_, _, hm, _⟩ | ⟨id', hm, he⟩ | ⟨_, hm, _⟩ <;> cases hm
      obtain ⟨p, hp, hst, _⟩ := execute_spec he
      exact ⟨p, hp, hst⟩
  · rintro ⟨p, hp, hst⟩
    simp [Cw3Fixed.execute, execExecute, Cw3Core.execute, load, hp, hst, bind, Except.bind, check, pure, Except.pure, Res.isOk]

/-- C05 "exactly as proposed": a successful Execute returns exactly the proposal's messages, in
order, and nothing else … -/
theorem execute_out_eq_msgs {s s' : State} {blk : Block} {snd : Addr} {id : Nat} {out : List Msg}
    (h : execute s blk snd (.execute id) = .ok (s', out)) :
    ∃ p, s.core.proposals.get? id = some p ∧ out = p.msgs := by
  obtain ⟨_, _, hc⟩ := execute_cases h
  rcases hc with ⟨_, _, _, _, _, _, hm, _⟩ | ⟨_, _, hm, _⟩ | ⟨id', hm, he⟩ | ⟨_, hm, _⟩ <;> cases hm
  obtain ⟨p, hp, _, _, ho, _⟩ := execute_spec he
  exact ⟨p, hp, ho⟩

/-- … and stores the proposal as Executed (nothing else of it changes) before the messages go out. -/
theorem execute_sets_executed {s s' : State} {blk : Block} {snd : Addr} {id : Nat} {out : List Msg}
    (h : execute s blk snd (.execute id) = .ok (s', out)) :
    ∃ p, s.core.proposals.get? id = some p ∧ s'.core.proposals.get? id = some { p with status := .executed } ∧
      ∀ id', id' ≠ id → s'.core.proposals.get? id' = s.core.proposals.get? id' := by
  obtain ⟨_, _, hc⟩ := execute_cases h
  rcases hc with ⟨_, _, _, _, _, _, hm, _⟩ | ⟨_, _, hm, _⟩ | ⟨id', hm, he⟩ | ⟨_, hm, _⟩ <;> cases hm
  obtain ⟨p, hp, _, _, _, hc'⟩ := execute_spec he
  refine ⟨p, hp, by rw [hc']; simp, ?_⟩
  intro id' hne; rw [hc']; simp [AMap.get?_set_ne _ _ _ _ (Ne.symm hne)]

/-- No handler other than Execute ever returns a message: Propose, Vote and Close dispatch nothing. -/
theorem only_execute_emits {s s' : State} {blk : Block} {snd : Addr} {m : ExecMsg} {out : List Msg}
    (h : execute s blk snd m = .ok (s', out)) (hne : ∀ id, m ≠ .execute id) : out = [] := by
  obtain ⟨_, _, hc⟩ := execute_cases h
  rcases hc with ⟨_, _, _, _, _, _, _, _, ho, _⟩ | ⟨_, _, _, ho, _⟩ | ⟨id, hm, _⟩ | ⟨_, _, ho, _⟩
  · exact ho
  · exact ho
  · exact absurd hm (hne id)
  · exact ho

/-! ## stored status only moves forward -/

/-- `edge` spelled out. -/
theorem edge_iff (a b : Status) : edge a b = true ↔
    a = b ∨ (a = .open ∧ (b = .passed ∨ b = .rejected ∨ b = .executed)) ∨ (a = .passed ∧ b = .executed) := by
  cases a <;> cases b <;> simp [edge]

/-- C05 "the lifecycle only moves forward": over every history the stored status of every proposal
moves only along Open→Passed, Open→Rejected, Passed→Executed (and Open→Executed, which by
`execute_ok_iff` happens only in an Execute call that finds the current status Passed).
Executed and Rejected are final; Passed never goes back to Open or Rejected. -/
theorem stored_status_edges {fuel : Nat} {w : World} (hr : Reachable fuel w) (ops : List Op)
    {id : Nat} {p : Proposal} (hp : w.ms.core.proposals.get? id = some p) :
    ∃ p', (run fuel w ops).ms.core.proposals.get? id = some p' ∧
      (p.status = p'.status ∨ (p.status = .open ∧ (p'.status = .passed ∨ p'.status = .rejected ∨ p'.status = .executed)) ∨
       (p.status = .passed ∧ p'.status = .executed)) := by
  have := run_rel (fun s s' => Later s.core s'.core) (fun s => later_refl _) (fun _ _ _ h1 h2 => later_trans h1 h2)
    (fun blk s snd m s' out hi h => execute_later hi h) fuel ops w (reachable_inv hr)
  obtain ⟨p', hp', _, he⟩ := this.props id p hp
  exact ⟨p', hp', (edge_iff _ _).mp he⟩

/-- One handler call moves the stored status of every proposal along the same edges. -/
theorem handler_status_edge {s s' : State} {blk : Block} {snd : Addr} {m : ExecMsg} {out : List Msg}
    (hi : Inv s) (h : execute s blk snd m = .ok (s', out)) {id : Nat} {p : Proposal}
    (hp : s.core.proposals.get? id = some p) :
    ∃ p', s'.core.proposals.get? id = some p' ∧ edge p.status p'.status = true := by
  obtain ⟨p', hp', _, he⟩ := (execute_later hi h).props id p hp
  exact ⟨p', hp', he⟩

/-! ## at most one execution -/

/-- Is proposal `id` stored as Executed? -/
def isExec (c : Core) (id : Nat) : Bool :=
  match c.proposals.get? id with
  | some p => decide (p.status = .executed)
  | none => false

/-- Ghost: how many successful Execute handler calls for `id` (top-level or re-entrant) lie in
committed transactions of the history. -/
def executions (w : World) (id : Nat) : Nat := w.log.count (.executed id)

theorem eventOf_executed (s : State) (snd : Addr) (m : ExecMsg) (id : Nat) :
    eventOf s snd m = .executed id ↔ m = .execute id := by
  cases m <;> simp [eventOf]

/-- A handler call makes `id` Executed exactly when it is a successful Execute of `id`, and that
requires `id` not to be Executed before. -/
theorem handler_isExec {s s' : State} {blk : Block} {snd : Addr} {m : ExecMsg} {out : List Msg}
    (hi : Inv s) (h : execute s blk snd m = .ok (s', out)) (id : Nat) :
    isExec s'.core id = (isExec s.core id || decide (m = .execute id)) ∧
    (m = .execute id → isExec s.core id = false) := by
  obtain ⟨_, _, hc⟩ := execute_cases h
  rcases hc with ⟨t, d, msgs, latest, w, id0, hm, _, _, hp⟩ | ⟨id0, v, hm, _, hv⟩ | ⟨id0, hm, he⟩ | ⟨id0, hm, _, hcl⟩
  · obtain ⟨expires, st, _, hst, hid, _, hc'⟩ := propose_spec hp
    have hnone : s.core.proposals.get? id0 = none := hi.wf.fresh (by omega)
    have hst' : st ≠ .executed := fun e => by have := (cs_edge hst).2 e; simp [Proposal.tally] at this
    subst hm
    by_cases e : id0 = id
    · subst e; simp [isExec, hc', hnone, hst']
    · simp [isExec, hc', AMap.get?_set_ne _ _ _ _ e]
  · obtain ⟨p, w, votes, st, hp, hvot, _, _, _, _, _, hst, hc'⟩ := vote_spec hv
    have hne : p.status ≠ .executed := by intro e; simp [e, votable] at hvot
    have hst' : st ≠ .executed := fun e => by have := (cs_edge hst).2 e; simp [Proposal.tally] at this; exact hne this
    subst hm
    by_cases e : id0 = id
    · subst e; simp [isExec, hc', hp, hst', hne]
    · simp [isExec, hc', AMap.get?_set_ne _ _ _ _ e]
  · obtain ⟨p, hp, hst, _, _, hc'⟩ := execute_spec he
    have hne : p.status ≠ .executed := by
      intro e
      have : p.currentStatus blk = .ok p.status := cs_of_ne_open (t := p.tally) (by simp [Proposal.tally, e])
      rw [this, e] at hst; cases hst
    subst hm
    by_cases e : id0 = id
    · subst e; simp [isExec, hc', hp, hne]
    · have : ¬ id = id0 := fun e' => e e'.symm
      simp [isExec, hc', AMap.get?_set_ne _ _ _ _ e, this, e]
  · obtain ⟨p, _, hp, hne, _, _, _, _, _, hc'⟩ := close_spec hcl
    subst hm
    by_cases e : id0 = id
    · subst e; simp [isExec, hc', hp, hne]
    · simp [isExec, hc', AMap.get?_set_ne _ _ _ _ e]

/-- The ghost count of executions of `id` is 1 if `id` is stored Executed and 0 otherwise. -/
def GhostInv (w : World) : Prop := Inv w.ms ∧ ∀ id, executions w id = if isExec w.ms.core id then 1 else 0

theorem ghost_step (fuel : Nat) (w : World) (op : Op) (hq : GhostInv w) : GhostInv (step fuel w op) := by
  refine step_inv GhostInv ?_ ?_ (fun w b h => h) (fun w b h => h) fuel w op hq
  · intro blk w snd em s' out ⟨hi, hg⟩ he
    refine ⟨execute_inv hi he, ?_⟩
    intro id
    obtain ⟨h1, h2⟩ := handler_isExec hi he id
    have hcount : executions { w with ms := s', log := w.log ++ [eventOf w.ms snd em] } id =
        executions w id + (if em = .execute id then 1 else 0) := by
      simp only [executions, List.count_append, List.count_cons, List.count_nil]
      by_cases e : em = .execute id
      · simp [e, eventOf]
      · have : ¬ (eventOf w.ms snd em = .executed id) := fun h => e ((eventOf_executed _ _ _ _).mp h)
        simp [e, this]
    rw [hcount, hg id]
    simp only [h1]
    by_cases e : em = .execute id
    · simp [e, h2 e]
    · simp [e]
  · intro w m w' ⟨hi, hg⟩ hl
    obtain ⟨hms, _, _⟩ := leaf_ms hl
    refine ⟨hms ▸ hi, ?_⟩
    intro id
    rw [hms, ← hg id]
    cases m <;> simp [leaf] at hl
    · obtain ⟨b, _, rfl⟩ := hl; simp [executions, List.count_append]
    · obtain ⟨_, rfl⟩ := hl; simp [executions, List.count_append]

theorem reachable_ghost {fuel : Nat} {w : World} (hr : Reachable fuel w) : GhostInv w := by
  obtain ⟨m, s, self, bank, sink, ops, hi, rfl⟩ := hr
  refine run_inv GhostInv fuel (ghost_step fuel) ops _ ⟨instantiate_inv hi, ?_⟩
  intro id
  have : s.core = Core.empty := by
    simp [instantiate] at hi
    obtain ⟨_, _, _, _, _, _, rfl⟩ := hi; rfl
  simp [executions, World.init, isExec, this, Core.empty]

/-- C05 "at most once in its lifetime": on every history, the number of successful Execute calls
for a proposal — top-level or re-entrant, counted over committed transactions — is at most one;
it is one exactly when the proposal is stored Executed. -/
theorem executions_le_one {fuel : Nat} {w : World} (hr : Reachable fuel w) (id : Nat) :
    executions w id ≤ 1 ∧ (executions w id = 1 ↔ isExec w.ms.core id = true) := by
  have := (reachable_ghost hr).2 id
  rw [this]
  cases isExec w.ms.core id <;> simp

/-- C05 "repeated Execute calls fail": Execute on a proposal that is stored Executed is refused. -/
theorem execute_twice_fails {s : State} {blk : Block} {snd : Addr} {id : Nat} (h : isExec s.core id = true) :
    (execute s blk snd (.execute id)).isOk = false := by
  cases hx : (execute s blk snd (.execute id)).isOk with
  | false => rfl
  | true =>
    obtain ⟨p, hp, hst⟩ := (execute_ok_iff s blk snd id).mp hx
    simp [isExec, hp] at h
    have : p.currentStatus blk = .ok p.status := cs_of_ne_open (t := p.tally) (by simp [Proposal.tally, h])
    rw [this, h] at hst; cases hst

/-! ## atomicity, failing and re-entrant dispatch -/

/-- C05 "a failed dispatch leaves it Passed and retryable": a transaction that fails anywhere —
in the handler, or in the dispatch of any returned message at any depth — leaves the whole world
(multisig state, all balances, ghost log) exactly as it was. -/
theorem tx_atomic {fuel : Nat} {w : World} {blk : Block} {snd : Addr} {m : ExecMsg} {e : String}
    (h : tx fuel w blk snd m = .error e) : step fuel w ⟨blk, .exec snd m⟩ = w := by
  simp [step, h]

/-- Once Executed, always Executed — also in the middle of a dispatch. -/
theorem dispatch_keeps_executed {fuel : Nat} {w w' : World} {blk : Block} {msgs : List Msg} {id : Nat}
    (hq : Inv w.ms ∧ isExec w.ms.core id = true) (h : dispatch fuel w blk msgs = .ok w') :
    Inv w'.ms ∧ isExec w'.ms.core id = true := by
  refine dispatch_inv (fun w => Inv w.ms ∧ isExec w.ms.core id = true) blk ?_ ?_ fuel w msgs w' hq h
  · intro w snd em s' out ⟨hi, hx⟩ he
    exact ⟨execute_inv hi he, by rw [(handler_isExec hi he id).1, hx]; rfl⟩
  · intro w m w' ⟨hi, hx⟩ hl
    rw [(leaf_ms hl).1]; exact ⟨hi, hx⟩

/-- A dispatch that contains a call back to Execute of an already Executed proposal fails. -/
theorem dispatch_fails_of_selfExecute : ∀ (fuel : Nat) (w : World) (blk : Block) (msgs : List Msg) (id : Nat),
    Inv w.ms → isExec w.ms.core id = true → Msg.selfExecute id ∈ msgs → (dispatch fuel w blk msgs).isOk = false
  | 0, w, blk, [], id, _, _, hm => by simp at hm
  | 0, w, blk, _ :: _, id, _, _, _ => by simp [dispatch, Res.isOk]
  | fuel + 1, w, blk, [], id, _, _, hm => by simp at hm
  | fuel + 1, w, blk, m :: rest, id, hi, hx, hm => by
    cases hd : dispatch (fuel + 1) w blk (m :: rest) with
    | error e => rfl
    | ok w' =>
      exfalso
      simp only [dispatch, Res.bind_ok] at hd
      obtain ⟨w1, h1, h2⟩ := hd
      rcases List.mem_cons.mp hm with e | hmem
      · -- the head is the re-entrant Execute: refused
        subst e
        simp only [selfCall, Res.bind_ok] at h1
        obtain ⟨⟨s', out⟩, he, _⟩ := h1
        have := execute_twice_fails (blk := blk) (snd := w.self) hx
        rw [he] at this; cases this
      · -- the head succeeds and keeps `id` Executed; the rest fails by induction
        have hq1 : Inv w1.ms ∧ isExec w1.ms.core id = true := by
          cases hs : selfCall m with
          | none =>
            rw [hs] at h1
            rw [(leaf_ms h1).1]; exact ⟨hi, hx⟩
          | some em =>
            rw [hs] at h1
            simp only [Res.bind_ok] at h1
            obtain ⟨⟨s', out⟩, he, hdd⟩ := h1
            exact dispatch_keeps_executed
              (w := { w with ms := s', log := w.log ++ [eventOf w.ms w.self em] })
              ⟨execute_inv hi he, by rw [(handler_isExec hi he id).1, hx]; rfl⟩ hdd
        have := dispatch_fails_of_selfExecute fuel w1 blk rest id hq1.1 hq1.2 hmem
        rw [h2] at this; cases this

/-- C05 "re-entrant Execute calls fail": the status is saved as Executed *before* the messages are
dispatched, so a proposal whose own messages call Execute on itself can never be executed: the
inner call is refused, the whole transaction fails (for every fuel, sender and block) and by
`tx_atomic` the proposal stays exactly as it was (Passed). -/
theorem reentrant_execute_fails {fuel : Nat} {w : World} {blk : Block} {snd : Addr} {id : Nat} {p : Proposal}
    (hi : Inv w.ms) (hp : w.ms.core.proposals.get? id = some p) (hmem : Msg.selfExecute id ∈ p.msgs) :
    (tx fuel w blk snd (.execute id)).isOk = false ∧ step fuel w ⟨blk, .exec snd (.execute id)⟩ = w := by
  have key : (tx fuel w blk snd (.execute id)).isOk = false := by
    cases ht : tx fuel w blk snd (.execute id) with
    | error e => rfl
    | ok w' =>
      exfalso
      simp only [tx, Res.bind_ok] at ht
      obtain ⟨⟨s', out⟩, he, hd⟩ := ht
      obtain ⟨p', hp', ho⟩ := execute_out_eq_msgs he
      rw [hp] at hp'; cases hp'
      have hx : isExec s'.core id = true := by
        rw [(handler_isExec hi he id).1]; simp
      have := dispatch_fails_of_selfExecute fuel
        { w with ms := s', log := w.log ++ [eventOf w.ms snd (.execute id)] } blk out id
        (execute_inv hi he) hx (ho ▸ hmem)
      rw [hd] at this; cases this
  refine ⟨key, ?_⟩
  cases ht : tx fuel w blk snd (.execute id) with
  | error e => exact tx_atomic ht
  | ok w' => rw [ht] at key; cases key

/-! ## Close -/

/-- C05 "Close succeeds only on an expired proposal that did not pass": in a reachable state the
Close handler succeeds exactly when the proposal exists, is stored Open, is expired at the call's
block, and its current status is not Passed. -/
theorem close_ok_iff {s : State} (hi : Inv s) (blk : Block) (snd : Addr) (id : Nat) :
    (execute s blk snd (.close id)).isOk = true ↔
      ∃ p st, s.core.proposals.get? id = some p ∧ p.status = .open ∧ p.expires.isExpired blk = true ∧
        p.currentStatus blk = .ok st ∧ st ≠ .passed := by
  constructor
  · intro h
    cases hx : execute s blk snd (.close id) with
    | error e => rw [hx] at h; cases h
    | ok r =>
      obtain ⟨s', out⟩ := r
      obtain ⟨_, _, hc⟩ := execute_cases hx
      rcases hc with ⟨_, _, _, _, _, _, hm, _⟩ | ⟨_, _, hm, _⟩ | ⟨_, hm, _⟩ | ⟨id', hm, _, hcl⟩ <;> cases hm
      obtain ⟨p, st, hp, h1, h2, h3, hst, hne, hexp, _⟩ := close_spec hcl
      have h4 := hi.wf.notPending id p hp
      refine ⟨p, st, hp, ?_, hexp, hst, hne⟩
      cases hs : p.status <;> simp_all
  · rintro ⟨p, st, hp, ho, hexp, hst, hne⟩
    simp [Cw3Fixed.execute, execClose, Cw3Core.close, load, hp, hst, ho, hexp, hne, bind, Except.bind, check, pure, Except.pure, Res.isOk]

/-- C05 "Close … never dispatches anything": a successful Close returns no message, stores the
proposal as Rejected, and the transaction moves no funds. -/
theorem close_emits_nothing {fuel : Nat} {w w' : World} {blk : Block} {snd : Addr} {id : Nat}
    (h : tx fuel w blk snd (.close id) = .ok w') :
    w'.bank = w.bank ∧ ∃ p, w.ms.core.proposals.get? id = some p ∧
      w'.ms.core.proposals.get? id = some { p with status := .rejected } := by
  simp only [tx, Res.bind_ok] at h
  obtain ⟨⟨s', out⟩, he, hd⟩ := h
  have ho : out = [] := only_execute_emits he (by intro id; simp)
  subst ho
  cases fuel <;> simp [dispatch] at hd <;> subst hd <;> simp
  all_goals
    obtain ⟨_, _, hc⟩ := execute_cases he
    rcases hc with ⟨_, _, _, _, _, _, hm, _⟩ | ⟨_, _, hm, _⟩ | ⟨_, hm, _⟩ | ⟨id', hm, _, hcl⟩ <;> cases hm
    obtain ⟨p, _, hp, _, _, _, _, _, _, hc'⟩ := close_spec hcl
    exact ⟨p, hp, by rw [hc']; simp⟩

/-! ## ids, immutability, expiry -/

/-- C05 "ids are unique and increasing": in every reachable state the proposal ids are exactly
`1 … count` … -/
theorem ids_are_one_to_count {fuel : Nat} {w : World} (hr : Reachable fuel w) (id : Nat) :
    (w.ms.core.proposals.get? id).isSome = true ↔ (1 ≤ id ∧ id ≤ w.ms.core.count) :=
  (reachable_inv hr).wf.ids id

/-- … every successful Propose takes the next id `count + 1`, which no proposal had before, and
the counter never decreases over a history. -/
theorem ids_fresh_increasing {s s' : State} {blk : Block} {snd : Addr} {t d : String} {msgs : List Msg}
    {latest : Option Expiration} {out : List Msg} (hi : Inv s)
    (h : execute s blk snd (.propose t d msgs latest) = .ok (s', out)) :
    s'.core.count = s.core.count + 1 ∧ s.core.proposals.get? (s.core.count + 1) = none ∧
    (s'.core.proposals.get? (s.core.count + 1)).isSome = true ∧
    ∀ id, id ≠ s.core.count + 1 → s'.core.proposals.get? id = s.core.proposals.get? id := by
  obtain ⟨_, _, hc⟩ := execute_cases h
  rcases hc with ⟨_, _, _, _, w, id0, hm, _, _, hp⟩ | ⟨_, _, hm, _⟩ | ⟨_, hm, _⟩ | ⟨_, hm, _, _⟩ <;> cases hm
  obtain ⟨expires, st, _, _, hid, _, hc'⟩ := propose_spec hp
  subst hid
  refine ⟨by rw [hc'], hi.wf.fresh (by omega), by rw [hc']; simp, ?_⟩
  intro id hne; rw [hc']; simp [AMap.get?_set_ne _ _ _ _ (Ne.symm hne)]

theorem count_monotone {fuel : Nat} {w : World} (hr : Reachable fuel w) (ops : List Op) :
    w.ms.core.count ≤ (run fuel w ops).ms.core.count := by
  have := run_rel (fun s s' => Later s.core s'.core) (fun s => later_refl _) (fun _ _ _ h1 h2 => later_trans h1 h2)
    (fun blk s snd m s' out hi h => execute_later hi h) fuel ops w (reachable_inv hr)
  exact this.count

/-- C05 "a proposal's content, threshold and expiry are fixed at creation": over every history a
proposal keeps its title, description, start height, expiry, messages, threshold, total weight,
proposer and deposit (only status and tally can change). -/
theorem proposal_immutable {fuel : Nat} {w : World} (hr : Reachable fuel w) (ops : List Op)
    {id : Nat} {p : Proposal} (hp : w.ms.core.proposals.get? id = some p) :
    ∃ p', (run fuel w ops).ms.core.proposals.get? id = some p' ∧
      p'.title = p.title ∧ p'.description = p.description ∧ p'.startHeight = p.startHeight ∧
      p'.expires = p.expires ∧ p'.msgs = p.msgs ∧ p'.threshold = p.threshold ∧
      p'.totalWeight = p.totalWeight ∧ p'.proposer = p.proposer ∧ p'.deposit = p.deposit := by
  have := run_rel (fun s s' => Later s.core s'.core) (fun s => later_refl _) (fun _ _ _ h1 h2 => later_trans h1 h2)
    (fun blk s snd m s' out hi h => execute_later hi h) fuel ops w (reachable_inv hr)
  obtain ⟨p', hp', hf, _⟩ := this.props id p hp
  refine ⟨p', hp', ?_⟩
  simp only [Proposal.fixedPart, Proposal.mk.injEq] at hf
  obtain ⟨h1, h2, h3, h4, h5, _, h7, h8, _, h10, h11⟩ := hf
  exact ⟨h1, h2, h3, h4, h5, h7, h8, h10, h11⟩

/-- C05 "expiry never later than the maximum voting period": a successful Propose at block `blk`
creates a proposal that starts at `blk.height`, carries exactly the submitted title, description
and messages and the configured threshold/total, and whose expiry is comparable with and not later
than `max_voting_period.after(blk)` (by `proposal_immutable` it keeps that expiry forever).
Without `latest` the expiry is exactly the maximum. -/
theorem expiry_le_max {s s' : State} {blk : Block} {snd : Addr} {t d : String} {msgs : List Msg}
    {latest : Option Expiration} {out : List Msg}
    (h : execute s blk snd (.propose t d msgs latest) = .ok (s', out)) :
    ∃ p, s'.core.proposals.get? (s.core.count + 1) = some p ∧
      (p.expires.cmp? (s.cfg.maxVotingPeriod.after blk) = some .lt ∨
       p.expires.cmp? (s.cfg.maxVotingPeriod.after blk) = some .eq) ∧
      (latest = none → p.expires = s.cfg.maxVotingPeriod.after blk) ∧
      p.startHeight = blk.height ∧ p.title = t ∧ p.description = d ∧ p.msgs = msgs ∧ p.proposer = snd ∧
      p.threshold = s.cfg.threshold ∧ p.totalWeight = s.cfg.totalWeight := by
  obtain ⟨_, _, hc⟩ := execute_cases h
  rcases hc with ⟨_, _, _, _, w, id0, hm, _, _, hp⟩ | ⟨_, _, hm, _⟩ | ⟨_, hm, _⟩ | ⟨_, hm, _, _⟩ <;> cases hm
  obtain ⟨expires, st, hexp, _, hid, _, hc'⟩ := propose_spec hp
  subst hid
  refine ⟨_, by rw [hc']; simp; rfl, chooseExpiry_le hexp, ?_, rfl, rfl, rfl, rfl, rfl, rfl, rfl⟩
  intro hl; subst hl
  simp only [chooseExpiry, Option.getD_none] at hexp
  cases hm : s.cfg.maxVotingPeriod.after blk <;> simp [hm, Expiration.cmp?] at hexp <;> simp [hexp]

/-! ## world level: what a committed Execute dispatched, and general re-entrancy -/

/-- The ghost event a successfully dispatched non-self-call message leaves. -/
def leafEvent : Msg → Event
  | .bank to amt denom => .sent to amt denom
  | .other tag => .called tag
  | _ => .called "unreachable"

theorem leaf_log {w w' : World} {m : Msg} (h : leaf w m = .ok w') : w'.log = w.log ++ [leafEvent m] := by
  cases m <;> simp [leaf] at h
  · obtain ⟨b, _, rfl⟩ := h; simp [leafEvent]
  · obtain ⟨_, rfl⟩ := h; simp [leafEvent]

/-- Dispatching a list of messages none of which calls back into the multisig logs exactly one event per message, in
order, and leaves the multisig state alone. -/
theorem dispatch_leaves (blk : Block) : ∀ (fuel : Nat) (w w' : World) (msgs : List Msg),
    (∀ m ∈ msgs, selfCall m = none) → dispatch fuel w blk msgs = .ok w' →
    w'.log = w.log ++ msgs.map leafEvent ∧ w'.ms = w.ms
  | _, w, w', [], _, h => by simp [dispatch] at h; subst h; simp
  | 0, w, w', _ :: _, _, h => by simp [dispatch] at h
  | fuel + 1, w, w', m :: rest, hl, h => by
    simp only [dispatch, hl m (by simp), Res.bind_ok] at h
    obtain ⟨w1, h1, h2⟩ := h
    obtain ⟨e1, e2⟩ := dispatch_leaves blk fuel w1 w' rest (fun x hx => hl x (by simp [hx])) h2
    rw [e1, e2, leaf_log h1, (leaf_ms h1).1]
    simp

/-- **C05 "messages are dispatched only by Execute, exactly as proposed", world level** (clause a/c at the level of the
runtime).  A committed Execute transaction of a proposal none of whose messages calls back into the multisig appends to
the ghost log exactly `executed id` followed by one event per message of the proposal — `sent to amount denom` for a
bank send, `called tag` for an external call — in the proposal's order, nothing else; and the proposal is stored
Executed.  (By `expiry_le_max` / `proposal_immutable` those messages are the ones submitted with `Propose`.) -/
theorem execute_tx_dispatches_msgs {fuel : Nat} {w w' : World} {blk : Block} {snd : Addr} {id : Nat} {p : Proposal}
    (hp : w.ms.core.proposals.get? id = some p) (hleaf : ∀ m ∈ p.msgs, selfCall m = none)
    (h : tx fuel w blk snd (.execute id) = .ok w') :
    w'.log = w.log ++ .executed id :: p.msgs.map leafEvent ∧
    ∃ p', w'.ms.core.proposals.get? id = some p' ∧ p'.status = .executed := by
  simp only [tx, Res.bind_ok] at h
  obtain ⟨⟨s', out⟩, he, hd⟩ := h
  have hout := execute_out_eq_msgs he
  obtain ⟨p0, hp0, hout⟩ := hout
  rw [hp] at hp0; cases hp0
  subst hout
  obtain ⟨e1, e2⟩ := dispatch_leaves blk fuel _ w' p.msgs hleaf hd
  refine ⟨by rw [e1]; simp [eventOf], ?_⟩
  rw [e2]
  obtain ⟨p', _, hs', _⟩ := execute_sets_executed he
  exact ⟨_, hs', rfl⟩

/-- **End to end: what Execute returns is what was proposed.**  If proposal `id` exists in a reachable world `w0` with
messages `p0.msgs` (by `expiry_le_max` the `msgs` argument of the Propose that created it), then after ANY further
history every successful Execute of `id` returns exactly those messages, in order. -/
theorem executed_msgs_are_proposed {fuel : Nat} {w0 : World} (hr : Reachable fuel w0) (ops : List Op)
    {id : Nat} {p0 : Proposal} (hp0 : w0.ms.core.proposals.get? id = some p0)
    {blk : Block} {snd : Addr} {s' : State} {out : List Msg}
    (h : execute (run fuel w0 ops).ms blk snd (.execute id) = .ok (s', out)) : out = p0.msgs := by
  obtain ⟨p, hp, hout⟩ := execute_out_eq_msgs h
  obtain ⟨p', hp', _, _, _, _, hm, _⟩ := proposal_immutable hr ops hp0
  rw [hp] at hp'; cases hp'
  rw [hout, hm]

/-- **General re-entrancy** (covers indirect cycles 1 → 2 → 1): once a proposal is stored Executed, whatever is
dispatched afterwards — any message list, any nesting of self-calls — adds no further `executed id` event: a nested
Execute of it anywhere fails and with it the whole dispatch; a successful dispatch contains none. -/
theorem dispatch_no_second_execution {fuel : Nat} {w w' : World} {blk : Block} {msgs : List Msg} {id : Nat}
    (hi : Inv w.ms) (hx : isExec w.ms.core id = true) (h : dispatch fuel w blk msgs = .ok w') :
    w'.log.count (.executed id) = w.log.count (.executed id) ∧ isExec w'.ms.core id = true := by
  have := dispatch_inv
    (fun v => Inv v.ms ∧ isExec v.ms.core id = true ∧ v.log.count (.executed id) = w.log.count (.executed id)) blk
    (fun v snd em s' out ⟨hi, hx, hc⟩ he => by
      obtain ⟨h1, h2⟩ := handler_isExec hi he id
      refine ⟨execute_inv hi he, by rw [h1, hx]; rfl, ?_⟩
      have hne : eventOf v.ms snd em ≠ .executed id := by
        intro e
        have := h2 ((eventOf_executed _ _ _ _).mp e)
        rw [hx] at this; cases this
      simp only [List.count_append, List.count_cons, List.count_nil]
      simp [hne, hc])
    (fun v m v' ⟨hi, hx, hc⟩ hl => by
      obtain ⟨hms, _, _⟩ := leaf_ms hl
      refine ⟨hms ▸ hi, hms ▸ hx, ?_⟩
      rw [leaf_log hl, List.count_append, hc]
      cases m <;> simp [leafEvent])
    fuel w msgs w' ⟨hi, hx, rfl⟩ h
  exact ⟨this.2.2, this.2.1⟩

/-! ## the converse log invariant: everything ever dispatched traces back to an executed proposal

`execute_tx_dispatches_msgs` says what ONE committed Execute without self-calls appends to the ghost log.  The converse,
over every history and with arbitrary nesting: the multiset of `sent`/`called` events of the committed log is exactly the
multiset union, over the `executed id` events of the log (each proposal at most once: `executions_le_one`), of the
proposal's own non-self-call messages. -/

/-- `sent` / `called`: the events left by dispatched messages that are not calls back into the multisig. -/
def isLeafEvent : Event → Bool
  | .sent .. => true
  | .called _ => true
  | _ => false

/-- The events the non-self-call messages of a message list leave when dispatched, in order. -/
def leafEventsOf (msgs : List Msg) : List Event := (msgs.filter fun m => (selfCall m).isNone).map leafEvent

/-- The stored messages of proposal `id` (`[]` when there is no such proposal). -/
def msgsOf (c : Core) (id : Nat) : List Msg :=
  match c.proposals.get? id with
  | some p => p.msgs
  | none => []

/-- ⨄ over the `executed id` events of a log, in log order, of the leaf events of proposal `id`'s stored messages. -/
def expectedLeaves (c : Core) : List Event → List Event
  | [] => []
  | .executed id :: rest => leafEventsOf (msgsOf c id) ++ expectedLeaves c rest
  | .proposed _ :: rest => expectedLeaves c rest
  | .voted _ _ :: rest => expectedLeaves c rest
  | .closed _ :: rest => expectedLeaves c rest
  | .sent _ _ _ :: rest => expectedLeaves c rest
  | .called _ :: rest => expectedLeaves c rest

theorem expectedLeaves_append (c : Core) (l l' : List Event) :
    expectedLeaves c (l ++ l') = expectedLeaves c l ++ expectedLeaves c l' := by
  induction l with
  | nil => rfl
  | cons e r ih => cases e <;> simp [expectedLeaves, ih]

theorem expectedLeaves_congr {c c' : Core} : ∀ (l : List Event),
    (∀ id, Event.executed id ∈ l → msgsOf c' id = msgsOf c id) → expectedLeaves c' l = expectedLeaves c l
  | [], _ => rfl
  | e :: r, h => by
    have ih := expectedLeaves_congr r (fun id hm => h id (List.mem_cons_of_mem _ hm))
    cases e <;> simp only [expectedLeaves, ih]
    rename_i id
    rw [h id (List.mem_cons_self ..)]

theorem isLeafEvent_leafEvent (m : Msg) : isLeafEvent (leafEvent m) = true := by
  cases m <;> rfl

theorem leafEventsOf_cons (m : Msg) (rest : List Msg) :
    leafEventsOf (m :: rest) = (if (selfCall m).isNone then [leafEvent m] else []) ++ leafEventsOf rest := by
  unfold leafEventsOf
  by_cases h : (selfCall m).isNone = true <;> simp [List.filter_cons, h]

/-- In a world satisfying the ghost invariant, every `executed id` of the log is a stored proposal, and a handler call
leaves its messages alone. -/
theorem msgsOf_stable {w : World} {blk : Block} {snd : Addr} {em : ExecMsg} {s' : State} {out : List Msg}
    (hq : GhostInv w) (he : execute w.ms blk snd em = .ok (s', out)) {id : Nat} (hm : Event.executed id ∈ w.log) :
    msgsOf s'.core id = msgsOf w.ms.core id := by
  have hc : 0 < executions w id := List.count_pos_iff.mpr hm
  have hx : isExec w.ms.core id = true := by
    have := hq.2 id
    cases hx : isExec w.ms.core id with
    | true => rfl
    | false => rw [hx] at this; simp at this; omega
  unfold isExec at hx
  cases hp : w.ms.core.proposals.get? id with
  | none => simp [hp] at hx
  | some p =>
    obtain ⟨p', hp', hf, _⟩ := (execute_later hq.1 he).props id p hp
    have hmsgs : p'.msgs = p.msgs := by have := congrArg Proposal.msgs hf; exact this
    simp [msgsOf, hp, hp', hmsgs]

theorem ghost_call {w : World} {blk : Block} {snd : Addr} {em : ExecMsg} {s' : State} {out : List Msg}
    (hq : GhostInv w) (he : execute w.ms blk snd em = .ok (s', out)) :
    GhostInv { w with ms := s', log := w.log ++ [eventOf w.ms snd em] } := by
  obtain ⟨hi, hg⟩ := hq
  refine ⟨execute_inv hi he, ?_⟩
  intro id
  obtain ⟨h1, h2⟩ := handler_isExec hi he id
  have hcount : executions { w with ms := s', log := w.log ++ [eventOf w.ms snd em] } id =
      executions w id + (if em = .execute id then 1 else 0) := by
    simp only [executions, List.count_append, List.count_cons, List.count_nil]
    by_cases e : em = .execute id
    · simp [e, eventOf]
    · have : ¬ (eventOf w.ms snd em = .executed id) := fun h => e ((eventOf_executed _ _ _ _).mp h)
      simp [e, this]
  rw [hcount, hg id]
  simp only [h1]
  by_cases e : em = .execute id
  · simp [e, h2 e]
  · simp [e]

theorem ghost_leaf {w w' : World} {m : Msg} (hq : GhostInv w) (hl : leaf w m = .ok w') : GhostInv w' := by
  obtain ⟨hi, hg⟩ := hq
  obtain ⟨hms, _, _⟩ := leaf_ms hl
  refine ⟨hms ▸ hi, ?_⟩
  intro id
  rw [hms, ← hg id]
  cases m <;> simp [leaf] at hl
  · obtain ⟨b, _, rfl⟩ := hl; simp [executions, List.count_append]
  · obtain ⟨_, rfl⟩ := hl; simp [executions, List.count_append]

/-- **One handler call, in log terms**: the expected leaf events grow by exactly the leaf events of the messages the
call returned (the proposal's messages for an Execute, nothing otherwise). -/
theorem expected_call {w : World} {blk : Block} {snd : Addr} {em : ExecMsg} {s' : State} {out : List Msg}
    (hq : GhostInv w) (he : execute w.ms blk snd em = .ok (s', out)) :
    expectedLeaves s'.core (w.log ++ [eventOf w.ms snd em]) = expectedLeaves w.ms.core w.log ++ leafEventsOf out := by
  rw [expectedLeaves_append, expectedLeaves_congr w.log (fun id hm => msgsOf_stable hq he hm)]
  congr 1
  cases em with
  | execute id =>
    obtain ⟨p, hp, hout⟩ := execute_out_eq_msgs he
    obtain ⟨p', hp', hs', _⟩ := execute_sets_executed he
    rw [hp] at hp'; cases hp'
    simp [eventOf, expectedLeaves, msgsOf, hs', hout]
  | propose t d msgs latest =>
    have := only_execute_emits he (by intro id; simp)
    subst this; simp [eventOf, expectedLeaves, leafEventsOf]
  | vote id v =>
    have := only_execute_emits he (by intro id; simp)
    subst this; simp [eventOf, expectedLeaves, leafEventsOf]
  | close id =>
    have := only_execute_emits he (by intro id; simp)
    subst this; simp [eventOf, expectedLeaves, leafEventsOf]

/-- **The dedicated dispatch induction for the log.**  Over the dispatch of any message list, depth-first with all nested
handler calls: for every leaf event `e`, if before the dispatch "logged + still to be dispatched here (+ `K` pending in
the enclosing lists) = expected", then after it "logged (+ `K`) = expected". -/
theorem conv_dispatch (blk : Block) (e : Event) (hleaf : isLeafEvent e = true) :
    ∀ fuel w msgs w', GhostInv w → dispatch fuel w blk msgs = .ok w' →
      GhostInv w' ∧ ∀ K, w.log.count e + (leafEventsOf msgs).count e + K = (expectedLeaves w.ms.core w.log).count e →
        w'.log.count e + K = (expectedLeaves w'.ms.core w'.log).count e := by
  intro fuel
  induction fuel with
  | zero =>
    intro w msgs w' hq h
    cases msgs with
    | nil => simp [dispatch] at h; subst h; exact ⟨hq, fun K hk => by simpa [leafEventsOf] using hk⟩
    | cons m rest => simp [dispatch] at h
  | succ fuel ih =>
    intro w msgs w' hq h
    cases msgs with
    | nil => simp [dispatch] at h; subst h; exact ⟨hq, fun K hk => by simpa [leafEventsOf] using hk⟩
    | cons m rest =>
      simp only [dispatch, Res.bind_ok] at h
      obtain ⟨w1, h1, h2⟩ := h
      suffices hstep : GhostInv w1 ∧ ∀ K, w.log.count e + (leafEventsOf (m :: rest)).count e + K =
          (expectedLeaves w.ms.core w.log).count e →
          w1.log.count e + (leafEventsOf rest).count e + K = (expectedLeaves w1.ms.core w1.log).count e by
        obtain ⟨hq1, hk1⟩ := hstep
        obtain ⟨hq', hk'⟩ := ih w1 rest w' hq1 h2
        exact ⟨hq', fun K hk => hk' K (hk1 K hk)⟩
      cases hs : selfCall m with
      | none =>
        rw [hs] at h1
        refine ⟨ghost_leaf hq h1, fun K hk => ?_⟩
        rw [leaf_log h1, (leaf_ms h1).1, expectedLeaves_append]
        have hnil : expectedLeaves w.ms.core [leafEvent m] = [] := by cases m <;> rfl
        rw [hnil, List.append_nil, List.count_append]
        rw [leafEventsOf_cons, hs, List.count_append] at hk
        simp only [Option.isNone_none, if_true] at hk
        omega
      | some em =>
        rw [hs] at h1
        simp only [Res.bind_ok] at h1
        obtain ⟨⟨s', out⟩, he, hd⟩ := h1
        obtain ⟨hq1, hk1⟩ := ih _ out w1 (ghost_call hq he) hd
        refine ⟨hq1, fun K hk => ?_⟩
        rw [leafEventsOf_cons, hs] at hk
        simp only [Option.isNone_some, Bool.false_eq_true, if_false, List.nil_append] at hk
        have hne : [eventOf w.ms w.self em].count e = 0 := by
          have : eventOf w.ms w.self em ≠ e := by
            intro x; rw [← x] at hleaf; cases em <;> cases hleaf
          simp [this]
        have := hk1 ((leafEventsOf rest).count e + K) (by
          show (w.log ++ [eventOf w.ms w.self em]).count e + _ + _ = _
          rw [expected_call hq he, List.count_append, List.count_append, hne]
          omega)
        omega

/-- The invariant of the converse: for every leaf event, logged = expected. -/
def ConvInv (w : World) : Prop :=
  GhostInv w ∧ ∀ e, isLeafEvent e = true → w.log.count e = (expectedLeaves w.ms.core w.log).count e

theorem conv_step (fuel : Nat) (w : World) (op : Op) (hq : ConvInv w) : ConvInv (step fuel w op) := by
  unfold step
  split
  · rename_i snd m _
    split
    · rename_i w' htx
      simp only [tx, Res.bind_ok] at htx
      obtain ⟨⟨s', out⟩, he, hd⟩ := htx
      refine ⟨(conv_dispatch op.blk (.called "") rfl fuel _ out w' (ghost_call hq.1 he) hd).1, fun e hleaf => ?_⟩
      obtain ⟨_, hk⟩ := conv_dispatch op.blk e hleaf fuel _ out w' (ghost_call hq.1 he) hd
      have hne : [eventOf w.ms snd m].count e = 0 := by
        have : eventOf w.ms snd m ≠ e := by
          intro x; rw [← x] at hleaf; cases m <;> cases hleaf
        simp [this]
      have := hk 0 (by
        show (w.log ++ [eventOf w.ms snd m]).count e + _ + _ = _
        rw [expected_call hq.1 he, List.count_append, List.count_append, hne, hq.2 e hleaf]
        omega)
      simpa using this
    · exact hq
  · split
    · exact hq
    · exact hq
  · exact hq

theorem reachable_conv {fuel : Nat} {w : World} (hr : Reachable fuel w) : ConvInv w := by
  have hg := reachable_ghost hr
  obtain ⟨m, s, self, bank, sink, ops, hi, rfl⟩ := hr
  refine run_inv ConvInv fuel (conv_step fuel) ops _ ⟨?_, fun e _ => by simp [World.init, expectedLeaves]⟩
  refine ⟨instantiate_inv hi, fun id => ?_⟩
  have : s.core = Core.empty := by
    simp [instantiate] at hi
    obtain ⟨_, _, _, _, _, _, rfl⟩ := hi; rfl
  simp [executions, World.init, isExec, this, Core.empty]

/-- The proposals with an `executed` event in the log, in log order. -/
def executedIds (log : List Event) : List Nat := log.filterMap fun | .executed id => some id | _ => none

theorem expectedLeaves_eq_flatMap (c : Core) (l : List Event) :
    expectedLeaves c l = (executedIds l).flatMap fun id => leafEventsOf (msgsOf c id) := by
  induction l with
  | nil => rfl
  | cons e r ih => cases e <;> simp [expectedLeaves, executedIds, ih] <;> rfl

theorem count_executedIds (log : List Event) (id : Nat) : (executedIds log).count id = log.count (.executed id) := by
  induction log with
  | nil => rfl
  | cons e r ih =>
    cases e <;> simp [executedIds, List.filterMap_cons, List.count_cons] at ih ⊢ <;> first | exact ih | (rw [ih])

/-- **C05 converse, over every history: `dispatched_only_by_execute_run`.**  In every reachable world the `sent` /
`called` events of the committed log — every bank send and every external call ever made on behalf of the multisig, at
any nesting depth, in transactions by anybody — are, as a multiset (`List.Perm`), exactly the union over the `executed id`
events of the log of the non-self-call messages stored in proposal `id` (`leafEventsOf (msgsOf …)`, by
`proposal_immutable` / `expiry_le_max` the messages submitted with its Propose); every executed proposal contributes
exactly once (`executedIds_nodup`).  Nothing is dispatched that no executed proposal contains, and nothing an executed
proposal contains is skipped or repeated.  (The order inside one Execute without self-calls is `execute_tx_dispatches_msgs`;
with nesting the events of an inner Execute sit between those of the outer one, which is why this is a multiset
statement.) -/
theorem dispatched_only_by_execute_run {fuel : Nat} {w : World} (hr : Reachable fuel w) :
    (w.log.filter isLeafEvent).Perm ((executedIds w.log).flatMap fun id => leafEventsOf (msgsOf w.ms.core id)) := by
  rw [← expectedLeaves_eq_flatMap]
  rw [List.perm_iff_count]
  intro e
  cases hleaf : isLeafEvent e with
  | true => rw [List.count_filter hleaf]; exact (reachable_conv hr).2 e hleaf
  | false =>
    have h1 : (w.log.filter isLeafEvent).count e = 0 := by
      apply List.count_eq_zero.mpr
      intro hm; rw [(List.mem_filter.mp hm).2] at hleaf; cases hleaf
    have h2 : (expectedLeaves w.ms.core w.log).count e = 0 := by
      apply List.count_eq_zero.mpr
      rw [expectedLeaves_eq_flatMap]
      intro hm
      obtain ⟨id, _, hm⟩ := List.mem_flatMap.mp hm
      obtain ⟨m, _, rfl⟩ := List.mem_map.mp hm
      rw [isLeafEvent_leafEvent] at hleaf; cases hleaf
    rw [h1, h2]

/-- Each executed proposal occurs once in `executedIds` (at most one `executed id` event per proposal over every history). -/
theorem executedIds_nodup {fuel : Nat} {w : World} (hr : Reachable fuel w) : (executedIds w.log).Nodup := by
  rw [List.nodup_iff_count]
  intro id
  rw [count_executedIds]
  exact (executions_le_one hr id).1

/-- **Traces back.**  Every `sent` / `called` event of the committed log of a reachable world is the event of a
non-self-call message stored in a proposal that has an `executed` event in that log (and is stored Executed). -/
theorem dispatched_traces_back {fuel : Nat} {w : World} (hr : Reachable fuel w) {e : Event} (he : e ∈ w.log)
    (hleaf : isLeafEvent e = true) :
    ∃ id p m, Event.executed id ∈ w.log ∧ w.ms.core.proposals.get? id = some p ∧ p.status = .executed ∧ m ∈ p.msgs ∧
      selfCall m = none ∧ leafEvent m = e := by
  have hmem : e ∈ (executedIds w.log).flatMap fun id => leafEventsOf (msgsOf w.ms.core id) :=
    (dispatched_only_by_execute_run hr).mem_iff.mp (List.mem_filter.mpr ⟨he, hleaf⟩)
  obtain ⟨id, hid, hm⟩ := List.mem_flatMap.mp hmem
  have hex : Event.executed id ∈ w.log := by
    rw [← List.count_pos_iff, ← count_executedIds]; exact List.count_pos_iff.mpr hid
  unfold leafEventsOf at hm
  obtain ⟨m, hmf, rfl⟩ := List.mem_map.mp hm
  obtain ⟨hm1, hm2⟩ := List.mem_filter.mp hmf
  have hx := ((executions_le_one hr id).2.mp (by
    have := (executions_le_one hr id).1
    have : 0 < executions w id := List.count_pos_iff.mpr hex
    omega))
  unfold isExec at hx
  cases hp : w.ms.core.proposals.get? id with
  | none => simp [msgsOf, hp] at hm1
  | some p =>
    simp only [hp, decide_eq_true_eq] at hx
    simp only [msgsOf, hp] at hm1
    exact ⟨id, p, m, hex, hp, hx, hm1, by simpa using hm2, rfl⟩

/-! ## the observed status only moves forward as time passes -/

theorem isExpired_mono {e : Expiration} {b b' : Block} (hb : blockLe b b') (h : e.isExpired b = true) :
    e.isExpired b' = true := by
  obtain ⟨hh, ht⟩ := hb
  cases e <;> simp [Expiration.isExpired] at h ⊢ <;> omega

/-- The library decision depends on the block only through "has the proposal expired". -/
theorem cs_congr {t : Tally} {b b' : Block} (h : t.expires.isExpired b = t.expires.isExpired b') :
    Cw3.currentStatus t b = Cw3.currentStatus t b' := by
  have h1 : Cw3.isPassed t b = Cw3.isPassed t b' := by simp only [Cw3.isPassed, h]
  have h2 : Cw3.isRejected t b = Cw3.isRejected t b' := by simp only [Cw3.isRejected, h]
  simp only [Cw3.currentStatus, h, h1, h2]

/-- Invariant at block `b`: a proposal stored Open and not expired at `b` is reported Open at `b`
(a vote that decides a proposal early stores the decision at once). -/
def OpenInv (b : Block) (s : State) : Prop :=
  ∀ id p, s.core.proposals.get? id = some p → p.status = .open → p.expires.isExpired b = false →
    p.currentStatus b = .ok .open

theorem openInv_mono {b b2 : Block} {s : State} (hb : blockLe b b2) (h : OpenInv b s) : OpenInv b2 s := by
  intro id p hp ho hne
  have hne0 : p.expires.isExpired b = false := by
    cases he : p.expires.isExpired b with
    | false => rfl
    | true => rw [isExpired_mono hb he] at hne; cases hne
  have := h id p hp ho hne0
  rw [← this]
  exact (cs_congr (t := p.tally) (by simp [Proposal.tally, hne, hne0])).symm

theorem open_step {b : Block} {s s' : State} {snd : Addr} {m : ExecMsg} {out : List Msg}
    (hq : OpenInv b s) (h : execute s b snd m = .ok (s', out)) : OpenInv b s' := by
  obtain ⟨_, _, hc⟩ := execute_cases h
  rcases hc with ⟨t, d, msgs, latest, w, id0, _, _, _, hp⟩ | ⟨id0, v, _, _, hv⟩ | ⟨id0, _, he⟩ | ⟨id0, _, _, hcl⟩
  · obtain ⟨expires, st, _, hst, _, _, hc'⟩ := propose_spec hp
    intro id p hp' ho hne
    rw [hc'] at hp'; simp only [AMap.get?_set] at hp'
    by_cases e : id0 = id
    · simp only [e, if_true, Option.some.injEq] at hp'; subst hp'
      simp only at ho; subst ho; exact hst
    · simp only [e, if_false] at hp'; exact hq id p hp' ho hne
  · obtain ⟨p0, w, votes, st, hp0, _, _, _, _, _, _, hst, hc'⟩ := vote_spec hv
    intro id p hp' ho hne
    rw [hc'] at hp'; simp only [AMap.get?_set] at hp'
    by_cases e : id0 = id
    · simp only [e, if_true, Option.some.injEq] at hp'; subst hp'
      simp only at ho; subst ho
      have h0 : p0.status = .open := by
        by_cases h0 : p0.status = .open
        · exact h0
        · have : Cw3.currentStatus (Proposal.tally { p0 with votes := votes }) b = .ok p0.status :=
            cs_of_ne_open (t := Proposal.tally { p0 with votes := votes }) (by simpa [Proposal.tally] using h0)
          have := hst.symm.trans this; simp at this; exact this.symm
      simpa [Proposal.currentStatus, Proposal.tally, h0] using hst
    · simp only [e, if_false] at hp'; exact hq id p hp' ho hne
  · obtain ⟨p0, hp0, _, _, _, hc'⟩ := execute_spec he
    intro id p hp' ho hne
    rw [hc'] at hp'; simp only [AMap.get?_set] at hp'
    by_cases e : id0 = id
    · simp only [e, if_true, Option.some.injEq] at hp'; subst hp'; cases ho
    · simp only [e, if_false] at hp'; exact hq id p hp' ho hne
  · obtain ⟨p0, _, hp0, _, _, _, _, _, _, hc'⟩ := close_spec hcl
    intro id p hp' ho hne
    rw [hc'] at hp'; simp only [AMap.get?_set] at hp'
    by_cases e : id0 = id
    · simp only [e, if_true, Option.some.injEq] at hp'; subst hp'; cases ho
    · simp only [e, if_false] at hp'; exact hq id p hp' ho hne

theorem reachableAt_openInv {fuel : Nat} {w : World} {b : Block} (h : ReachableAt fuel w b) : OpenInv b w.ms := by
  induction h with
  | init self bank sink b hi =>
    intro id p hp
    simp [instantiate] at hi
    obtain ⟨_, _, _, _, _, _, rfl⟩ := hi
    simp [World.init, Core.empty] at hp
  | @step w b op _ hb ih =>
    have ih' := openInv_mono hb ih
    rcases step_ms_cases fuel w op with e | ⟨snd, m, w', _, htx, e⟩
    · rw [e]; exact ih'
    · rw [e]; exact tx_state_inv (OpenInv op.blk) op.blk (fun s snd m s' out hq h => open_step hq h) ih' htx

/-- C05 "observed over time each proposal's status only moves Open to Passed to Executed or Open to
Rejected" — the passage of time: on every history whose blocks never go back, with the state left
untouched, the status a query reports at a later block is reachable along the forward edges from
the status reported at an earlier block (both at or after the last operation).  In particular it
is constant except at expiry, where Open may turn into Passed or Rejected.  (Across operations the
*stored* status moves along the same edges: `stored_status_edges`.) -/
theorem observed_status_monotone_in_time {fuel : Nat} {w : World} {b b1 b2 : Block} (hr : ReachableAt fuel w b)
    (h1 : blockLe b b1) (h2 : blockLe b1 b2) {id : Nat} {p : Proposal} (hp : w.ms.core.proposals.get? id = some p)
    {st1 st2 : Status} (hq1 : p.currentStatus b1 = .ok st1) (hq2 : p.currentStatus b2 = .ok st2) :
    edge st1 st2 = true := by
  by_cases ho : p.status = .open
  · cases he1 : p.expires.isExpired b1 with
    | true =>
      have he2 := isExpired_mono h2 he1
      have := cs_congr (t := p.tally) (b := b1) (b' := b2) (by simp [Proposal.tally, he1, he2])
      have e : Except.ok st1 = (Except.ok st2 : Res Status) := by
        rw [← hq1, ← hq2]; exact this
      cases e; exact edge_refl _
    | false =>
      have hopen := openInv_mono h1 (reachableAt_openInv hr) id p hp ho he1
      rw [hopen] at hq1; cases hq1
      have := (cs_edge (t := p.tally) hq2).1
      simpa [Proposal.tally, ho] using this
  · have e1 : p.currentStatus b1 = .ok p.status := cs_of_ne_open (t := p.tally) ho
    have e2 : p.currentStatus b2 = .ok p.status := cs_of_ne_open (t := p.tally) ho
    rw [e1] at hq1; rw [e2] at hq2
    cases hq1; cases hq2; exact edge_refl _

/-! ## the observed status only moves forward — over operations AND time, in one statement -/

/-- In a reachable state every `Proposal` query of an existing proposal answers, at every block (inside
`Inv` the library decision cannot panic: C04 `no_panic`). -/
theorem query_always_answers {fuel : Nat} {w : World} (hr : Reachable fuel w) {id : Nat} {p : Proposal}
    (hp : w.ms.core.proposals.get? id = some p) (blk : Block) : ∃ v, Cw3Fixed.queryProposal w.ms blk id = .ok v := by
  have hprem := premise_of_inv (reachable_inv hr) hp
  have hprem' : CwPlus.Props.C04.Premise p.tally := ⟨hprem.tally_le, hprem.total_u64, hprem.valid⟩
  obtain ⟨st, hst⟩ := (CwPlus.Props.C04.no_panic hprem' blk).2.2
  have hst' : p.currentStatus blk = .ok st := hst
  simp [Cw3Fixed.queryProposal, Cw3Core.queryProposal, load, hp, viewOf, hst', bind, Except.bind, pure, Except.pure]

/-- C05 "observed over time each proposal's status only moves Open to Passed to Executed or Open to
Rejected" — ONE statement over operations and time.  Take ANY reachable world `w0` (any history after an
accepted instantiation) and query a proposal there at any block `b1`; let any further history follow
(`ReachableFrom`: any operations by anybody — votes, executes, closes, other proposals, re-entrant and
failing dispatches, funding — at blocks `≥ b1` that never go back, last operation at `b`), and query the
same proposal again at any block `b2 ≥ b`.  Then the later answer is reachable from the earlier one along
the forward edges only: equal, Open→Passed, Open→Rejected, Open→Executed (through Passed, by
`execute_ok_iff`), Passed→Executed.  Never backwards, never Passed→Rejected, never Rejected→anything,
never Executed→anything.
(The proposal still exists later and the later query answers: `stored_status_edges`,
`query_always_answers`; the later world is reachable: `Reachable.extend`.)  An Open-stored proposal is
*observed* Passed or Rejected only once it has expired (`reachable_openOk`: a vote that decides early
stores the decision at once — which is also why C04's stability of early decisions under further votes
is not needed here: `C03.passed_justified` / `C03.rejected_justified` use it for the sticky statuses);
after expiry no vote is accepted, so only Execute (iff observed Passed) and Close (iff observed
Rejected) can still change the proposal. -/
theorem observed_status_monotone {fuel : Nat} {w0 w : World} {b1 b b2 : Block} (hr : Reachable fuel w0)
    (hf : ReachableFrom fuel w0 b1 w b) (h2 : blockLe b b2) {id : Nat} {v1 v2 : ProposalView}
    (hq1 : Cw3Fixed.queryProposal w0.ms b1 id = .ok v1) (hq2 : Cw3Fixed.queryProposal w.ms b2 id = .ok v2) :
    v1.status = v2.status ∨
      (v1.status = .open ∧ (v2.status = .passed ∨ v2.status = .rejected ∨ v2.status = .executed)) ∨
      (v1.status = .passed ∧ v2.status = .executed) := by
  obtain ⟨p0, hp0, hs1⟩ := queryProposal_ok hq1
  obtain ⟨p, hp, hs2⟩ := queryProposal_ok hq2
  have hi0 := reachable_inv hr
  have hopen : OpenOk b1 p0 := reachable_openOk hr id p0 hp0 b1
  have hinv := reachableFrom_inv
    (fun b s => blockLe b1 b ∧ Inv s ∧ Later w0.ms.core s.core ∧
      (p0.status = .open → p0.expires.isExpired b1 = true → FrozenAt p0 v1.status id s.core))
    (fun b b2 s hb ⟨h1, h2, h3, h4⟩ => ⟨blockLe_trans h1 hb, h2, h3, h4⟩)
    (fun b s snd m s' out ⟨h1, h2, h3, h4⟩ he =>
      ⟨h1, execute_inv h2 he, later_trans h3 (execute_later h2 he),
        fun ho hexp => frozenAt_step ho hexp hs1 h1 (h4 ho hexp) (execute_coreStep he)⟩)
    (w0 := w0) (b1 := b1)
    ⟨blockLe_refl _, hi0, later_refl _, fun _ _ => ⟨hi0.wf, p0, hp0, rfl, Or.inl rfl⟩⟩ hf
  obtain ⟨_, hi, hlater, hfz⟩ := hinv
  refine (edge_iff_cases _ _).mp (observed_edge_core hi.wf hopen hlater hp0 hp ?_ (blockLe_trans hf.le h2) hs1 hs2)
  intro ho hexp
  obtain ⟨_, p', hp', hfo⟩ := hfz ho hexp
  rw [hp] at hp'; cases hp'
  exact hfo

/-! ## non-vacuity: a concrete history -/

def exInst : InstMsg :=
  { voters := [(⟨true, "a"⟩, 2), (⟨true, "b"⟩, 1)], threshold := .absoluteCount 3, maxVotingPeriod := .height 10 }
def exState : State := match instantiate exInst with | .ok s => s | .error _ => default
def exBlk : Block := ⟨100, 1000⟩
def exWorld : World := World.init exState "ms" [(("ms", "ucosm"), 3)] true
/-- proposal 1 sends 4 (more than the multisig holds) and passes; proposal 2 calls Execute on itself -/
def exOps : List Op :=
  [⟨exBlk, .exec "a" (.propose "t" "d" [.bank "r" 4 "ucosm"] none)⟩, ⟨exBlk, .exec "b" (.vote 1 .yes)⟩,
   ⟨exBlk, .exec "a" (.propose "t" "d" [.selfExecute 2] none)⟩, ⟨exBlk, .exec "b" (.vote 2 .yes)⟩]

example : instantiate exInst = .ok exState := rfl
/-- both proposals are Passed -/
example : (run 10 exWorld exOps).ms.core.proposals.map (fun e => (e.1, e.2.status)) = [(1, .passed), (2, .passed)] := by decide
/-- Execute of 1 fails in the dispatch (insufficient funds) and leaves it Passed; after funding it succeeds once -/
example : (tx 10 (run 10 exWorld exOps) exBlk "x" (.execute 1)).isOk = false := by decide
example : (run 10 exWorld (exOps ++ [⟨exBlk, .exec "x" (.execute 1)⟩])) = run 10 exWorld exOps := by decide
example : executions (run 10 exWorld (exOps ++ [⟨exBlk, .exec "x" (.execute 1)⟩, ⟨exBlk, .fund 1 "ucosm"⟩,
    ⟨exBlk, .exec "x" (.execute 1)⟩, ⟨exBlk, .exec "y" (.execute 1)⟩])) 1 = 1 := by decide
/-- the self-executing proposal 2 can never be executed -/
example : (tx 10 (run 10 exWorld exOps) exBlk "x" (.execute 2)).isOk = false := by decide

/-- non-vacuity of `observed_status_monotone`: `w0` = after proposal 1 passed (last block 100); further
history at later blocks: funding, then a successful Execute -/
def exW0 : World := run 10 exWorld (exOps.take 2)
def exMore : List Op := [⟨⟨101, 1001⟩, .fund 1 "ucosm"⟩, ⟨⟨102, 1002⟩, .exec "x" (.execute 1)⟩]

example : Reachable 10 exW0 := ⟨exInst, exState, "ms", _, true, exOps.take 2, rfl, rfl⟩
example : ReachableFrom 10 exW0 ⟨100, 1001⟩ (run 10 exW0 exMore) ⟨102, 1002⟩ :=
  ReachableFrom.step (w := step 10 exW0 ⟨⟨101, 1001⟩, .fund 1 "ucosm"⟩) ⟨⟨102, 1002⟩, .exec "x" (.execute 1)⟩
    (ReachableFrom.step ⟨⟨101, 1001⟩, .fund 1 "ucosm"⟩ ReachableFrom.refl ⟨by decide, by decide⟩) ⟨by decide, by decide⟩
/-- observed Passed at block 100 before, Executed at block 500 after -/
example : ((Cw3Fixed.queryProposal exW0.ms ⟨100, 1001⟩ 1).toOption.map (·.status)) = some .passed ∧
    ((Cw3Fixed.queryProposal (run 10 exW0 exMore).ms ⟨500, 5000⟩ 1).toOption.map (·.status)) = some .executed := by decide

/-- non-vacuity of `execute_tx_dispatches_msgs`: a passed proposal with one bank message and one external call; the
committed Execute logs `executed 1, sent …, called …` -/
example :
    let w := run 10 exWorld
      [⟨exBlk, .exec "a" (.propose "t" "d" [.bank "bob" 2 "ucosm", .other "x"] none)⟩, ⟨exBlk, .exec "b" (.vote 1 .yes)⟩]
    ((tx 10 w exBlk "z" (.execute 1)).toOption.map fun w' => w'.log.drop w.log.length)
      = some [.executed 1, .sent "bob" 2 "ucosm", .called "x"] := by
  decide

/-- non-vacuity of `dispatch_no_second_execution`: after `exMore` proposal 1 is stored Executed (ghost count 1), the
state satisfies `Inv`, and a further dispatch (an external call) succeeds — without adding an execution -/
example : isExec (run 10 exW0 exMore).ms.core 1 = true ∧ executions (run 10 exW0 exMore) 1 = 1 ∧
    ((dispatch 5 (run 10 exW0 exMore) ⟨103, 1003⟩ [.other "x"]).toOption.map fun w' => executions w' 1) = some 1 := by
  decide

/-- non-vacuity of `dispatched_only_by_execute_run` / `dispatched_traces_back`, with nesting: proposal 1 =
`[send 1 to bob, Execute 2, send 1 to carl]`, proposal 2 = `[call x]`, both Passed; one Execute of 1 commits and logs
`executed 1, sent bob, executed 2, called x, sent carl` — the leaf events are a permutation (not the concatenation) of
the executed proposals' messages `[sent bob, sent carl] ++ [called x]`. -/
def exNested : World :=
  run 10 exWorld
    [⟨exBlk, .exec "a" (.propose "t" "d" [.bank "bob" 1 "ucosm", .selfExecute 2, .bank "carl" 1 "ucosm"] none)⟩,
     ⟨exBlk, .exec "b" (.vote 1 .yes)⟩,
     ⟨exBlk, .exec "a" (.propose "t" "d" [.other "x"] none)⟩, ⟨exBlk, .exec "b" (.vote 2 .yes)⟩,
     ⟨exBlk, .exec "z" (.execute 1)⟩]

example : Reachable 10 exNested := ⟨exInst, exState, "ms", _, true, _, rfl, rfl⟩
example :
    exNested.log.filter isLeafEvent = [.sent "bob" 1 "ucosm", .called "x", .sent "carl" 1 "ucosm"] ∧
    executedIds exNested.log = [1, 2] ∧
    ((executedIds exNested.log).flatMap fun id => leafEventsOf (msgsOf exNested.ms.core id))
      = [.sent "bob" 1 "ucosm", .sent "carl" 1 "ucosm", .called "x"] := by
  decide

end CwPlus.Props.C05
