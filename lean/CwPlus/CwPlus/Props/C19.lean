import CwPlus.Props.C01
import CwPlus.Lemmas.Cw20Allow
/-!
# C19 — cw20: the three allowance views agree, also after migration

`ALLOWANCES` (keyed owner, spender) and `ALLOWANCES_SPENDER` (keyed spender, owner) are written by
separate statements on every path.  `Inv19` says they hold the same data; it is established by
`instantiate` and by the pre-0.14 `migrate`, preserved by all ten message kinds, and it makes the point
query, the owner listing and the spender listing report the same amount and expiry.
Histories are `C01.run`.
-/
namespace CwPlus.Props.C19
open CwPlus CwPlus.Cw20
open CwPlus.Props.C01 (run)
open CwPlus.Lemmas.Cw20Allow

/-- The invariant: every (owner, spender) pair has the same entry (or none) in both maps. -/
def Inv19 (s : State) : Prop := ∀ o sp, s.allow.get? (o, sp) = s.allowSp.get? (sp, o)

/-- Both maps have distinct keys (they model storage maps); needed for membership statements about
the listings and for `migrate`. -/
def Nodup19 (s : State) : Prop := AMap.NodupKeys s.allow ∧ AMap.NodupKeys s.allowSp

theorem inv19_iff_mirror (s : State) : Inv19 s ↔ Mirror s.allow s.allowSp := Iff.rfl

/-! ## Established by `instantiate` -/

/-- A fresh token has no allowances in either map. -/
theorem instantiate_inv19 {m : InstMsg} {s : State} (h : instantiate m = .ok s) : Inv19 s ∧ Nodup19 s := by
  simp [instantiate] at h
  obtain ⟨_, hnd, b, t, hc, _, w, _, mk, lg, _, rfl⟩ := h
  exact ⟨fun _ _ => rfl, by simp [Nodup19, AMap.NodupKeys, AMap.keys]⟩

/-! ## Preserved by every message kind -/

/-- `deduct_allowance` updates each map from its own old value; under `Inv19` the two old values are
equal, so the two new ones are (a draw to exactly zero keeps a zero entry in both maps). -/
theorem deduct_inv19 {s s1 : State} {blk : Block} {o sp : Addr} {amt : Nat}
    (hi : Inv19 s) (h : deduct s blk o sp amt = .ok s1) : Inv19 s1 := by
  simp [deduct] at h
  obtain ⟨a1, h1, a2, h2, rfl⟩ := h
  rw [hi o sp, h2] at h1
  cases h1
  exact mirror_set hi o sp _

theorem deduct_nodup19 {s s1 : State} {blk : Block} {o sp : Addr} {amt : Nat}
    (hi : Nodup19 s) (h : deduct s blk o sp amt = .ok s1) : Nodup19 s1 := by
  simp [deduct] at h
  obtain ⟨a1, h1, a2, h2, rfl⟩ := h
  exact ⟨AMap.nodup_set hi.1, AMap.nodup_set hi.2⟩

/-- What each message kind does to the two allowance maps, as far as C19 needs it: the pair of maps
is either untouched, or both are `set` at mirrored keys with the same value, or both are `erase`d at
mirrored keys. -/
theorem execute_allow_cases {s s' : State} {blk : Block} {snd : Addr} {msg : Msg} {out : List Out}
    (hi : Inv19 s) (h : execute s blk snd msg = .ok (s', out)) :
    (s'.allow = s.allow ∧ s'.allowSp = s.allowSp)
    ∨ (∃ o sp a, s'.allow = s.allow.set (o, sp) a ∧ s'.allowSp = s.allowSp.set (sp, o) a)
    ∨ (∃ o sp, s'.allow = s.allow.erase (o, sp) ∧ s'.allowSp = s.allowSp.erase (sp, o)) := by
  have hded : ∀ {s1 : State} {o sp : Addr} {amt : Nat}, deduct s blk o sp amt = .ok s1 →
      ∃ a, s1.allow = s.allow.set (o, sp) a ∧ s1.allowSp = s.allowSp.set (sp, o) a := by
    intro s1 o sp amt hd
    simp [deduct] at hd
    obtain ⟨a1, h1, a2, h2, rfl⟩ := hd
    rw [hi o sp, h2] at h1
    cases h1
    exact ⟨_, rfl, rfl⟩
  cases msg <;> simp only [execute] at h
  case transfer to amt =>
    simp [execTransfer] at h
    obtain ⟨_, b1, h1, b2, h2, rfl, _⟩ := h
    left; exact ⟨rfl, rfl⟩
  case burn amt =>
    simp [execBurn] at h
    obtain ⟨b1, h1, hle, rfl, _⟩ := h
    left; exact ⟨rfl, rfl⟩
  case send c amt p =>
    simp [execSend] at h
    obtain ⟨_, b1, h1, b2, h2, rfl, _⟩ := h
    left; exact ⟨rfl, rfl⟩
  case mint to amt =>
    unfold execMint at h
    split at h
    · simp at h
    · simp at h
      obtain ⟨_, hle, _, _, b, h1, rfl, _⟩ := h
      left; exact ⟨rfl, rfl⟩
  case updateMinter new =>
    unfold execUpdateMinter at h
    split at h
    · simp at h
    · split at h
      · simp at h; obtain ⟨_, rfl, _⟩ := h; left; exact ⟨rfl, rfl⟩
      · simp at h; obtain ⟨_, _, rfl, _⟩ := h; left; exact ⟨rfl, rfl⟩
  case increaseAllowance sp amt e =>
    simp [execIncreaseAllowance] at h
    obtain ⟨_, _, a1, h1, a2, h2, rfl, _⟩ := h
    rw [hi snd sp.text, h2] at h1
    cases h1
    right; left; exact ⟨snd, sp.text, _, rfl, rfl⟩
  case decreaseAllowance sp amt e =>
    unfold execDecreaseAllowance at h
    simp at h
    obtain ⟨_, _, h⟩ := h
    split at h
    · simp at h
    · split at h
      · simp at h; obtain ⟨e', _, rfl, _⟩ := h
        right; left; exact ⟨snd, sp.text, _, rfl, rfl⟩
      · simp at h; obtain ⟨rfl, _⟩ := h
        right; right; exact ⟨snd, sp.text, rfl, rfl⟩
  case transferFrom o to amt =>
    simp [execTransferFrom] at h
    obtain ⟨_, _, s1, hd, b1, h1, b2, h2, rfl, _⟩ := h
    obtain ⟨a, e1, e2⟩ := hded hd
    right; left; exact ⟨o.text, snd, a, e1, e2⟩
  case burnFrom o amt =>
    simp [execBurnFrom] at h
    obtain ⟨_, s1, hd, b1, h1, hle, rfl, _⟩ := h
    obtain ⟨a, e1, e2⟩ := hded hd
    right; left; exact ⟨o.text, snd, a, e1, e2⟩
  case sendFrom o c amt p =>
    simp [execSendFrom] at h
    obtain ⟨_, _, s1, hd, b1, h1, b2, h2, rfl, _⟩ := h
    obtain ⟨a, e1, e2⟩ := hded hd
    right; left; exact ⟨o.text, snd, a, e1, e2⟩
  case updateMarketing p d m =>
    obtain ⟨mk, rfl, _⟩ := execUpdateMarketing_frame h; left; exact ⟨rfl, rfl⟩
  case uploadLogo l =>
    obtain ⟨mk, rfl, _⟩ := execUploadLogo_frame h; left; exact ⟨rfl, rfl⟩

/-- **C19, step clause**: every successful call of every message kind preserves the agreement of the
two maps (grants, decreases incl. removal, draws incl. draws to exactly zero, burns through an
allowance, and all kinds that do not touch allowances). -/
theorem execute_inv19 {s s' : State} {blk : Block} {snd : Addr} {msg : Msg} {out : List Out}
    (hi : Inv19 s) (h : execute s blk snd msg = .ok (s', out)) : Inv19 s' := by
  unfold Inv19
  rcases execute_allow_cases hi h with ⟨e1, e2⟩ | ⟨o, sp, a, e1, e2⟩ | ⟨o, sp, e1, e2⟩
  · rw [e1, e2]; exact hi
  · rw [e1, e2]; exact mirror_set hi o sp a
  · rw [e1, e2]; exact mirror_erase hi o sp

/-- Distinct keys are preserved too. -/
theorem execute_nodup19 {s s' : State} {blk : Block} {snd : Addr} {msg : Msg} {out : List Out}
    (hi : Inv19 s) (hn : Nodup19 s) (h : execute s blk snd msg = .ok (s', out)) : Nodup19 s' := by
  unfold Nodup19
  rcases execute_allow_cases hi h with ⟨e1, e2⟩ | ⟨o, sp, a, e1, e2⟩ | ⟨o, sp, e1, e2⟩
  · rw [e1, e2]; exact hn
  · rw [e1, e2]; exact ⟨AMap.nodup_set hn.1, AMap.nodup_set hn.2⟩
  · rw [e1, e2]; exact ⟨AMap.nodup_erase hn.1, AMap.nodup_erase hn.2⟩

theorem step_inv19 {s : State} (blk : Block) (snd : Addr) (msg : Msg) (hi : Inv19 s ∧ Nodup19 s) :
    Inv19 (step s blk snd msg) ∧ Nodup19 (step s blk snd msg) := by
  unfold step
  split
  · rename_i s' out h; exact ⟨execute_inv19 hi.1 h, execute_nodup19 hi.1 hi.2 h⟩
  · exact hi

theorem run_inv19 {s : State} (hi : Inv19 s ∧ Nodup19 s) (ops : List (Block × Addr × Msg)) :
    Inv19 (run s ops) ∧ Nodup19 (run s ops) := by
  induction ops generalizing s with
  | nil => exact hi
  | cons op rest ih => exact ih (step_inv19 op.1 op.2.1 op.2.2 hi)

/-- **C19, main theorem (histories)**: after any accepted instantiation and any finite history of
execute messages (any owners, spenders, amounts, expiries; failed calls rolled back) the two maps
agree on every pair, and both have distinct keys. -/
theorem reach_inv19 {m : InstMsg} {s : State} (h : instantiate m = .ok s) (ops : List (Block × Addr × Msg)) :
    Inv19 (run s ops) ∧ Nodup19 (run s ops) :=
  run_inv19 (instantiate_inv19 h) ops

/-! ## Migration -/

/-- `migrate` written with the `rebuild` loop of the lemma file. -/
theorem migrate_ok {s s' : State} (h : migrate s = .ok s') :
    s'.allow = s.allow ∧
    ((verLt s.version.key (relKey (0, 14, 0)) = true ∧ s'.allowSp = rebuild s.allow s.allowSp)
     ∨ (verLt s.version.key (relKey (0, 14, 0)) = false ∧ s'.allowSp = s.allowSp)) := by
  unfold migrate at h
  simp at h
  obtain ⟨_, _, h⟩ := h
  split at h
  · rename_i hv
    simp at h; subst h
    exact ⟨rfl, Or.inl ⟨hv, rfl⟩⟩
  · rename_i hv
    simp at h; subst h
    exact ⟨rfl, Or.inr ⟨by simpa using hv, rfl⟩⟩

/-- **C19, migration clause**: migrating any pre-0.14 state that has no spender map (and, being a
storage map, distinct keys in the owner map) produces a spender map that agrees with the owner map on
every pair. -/
theorem migrate_pre014_establishes {s s' : State} (hsp : s.allowSp = []) (hnd : AMap.NodupKeys s.allow)
    (hv : verLt s.version.key (relKey (0, 14, 0)) = true)
    (h : migrate s = .ok s') : Inv19 s' ∧ Nodup19 s' := by
  obtain ⟨e1, ⟨_, e2⟩ | ⟨hv', _⟩⟩ := migrate_ok h
  · unfold Inv19 Nodup19
    rw [e1, e2, hsp]
    exact ⟨mirror_rebuild_nil s.allow hnd, hnd, nodup_rebuild _ _ (by simp [AMap.NodupKeys, AMap.keys])⟩
  · rw [hv] at hv'; cases hv'

/-- `migrate` from 0.14.0 or later does not touch the allowance maps. -/
theorem migrate_no_rebuild_frame {s s' : State}
    (hv : verLt s.version.key (relKey (0, 14, 0)) = false)
    (h : migrate s = .ok s') : s'.allow = s.allow ∧ s'.allowSp = s.allowSp := by
  obtain ⟨e1, ⟨hv', _⟩ | ⟨_, e2⟩⟩ := migrate_ok h
  · rw [hv] at hv'; cases hv'
  · exact ⟨e1, e2⟩

/-- `migrate` preserves the agreement whenever it holds before: trivially when it does not rebuild
(version ≥ 0.14.0), and also when it rebuilds over an already agreeing spender map. -/
theorem migrate_preserves {s s' : State} (hi : Inv19 s) (hn : Nodup19 s) (h : migrate s = .ok s') :
    Inv19 s' ∧ Nodup19 s' := by
  obtain ⟨e1, ⟨_, e2⟩ | ⟨_, e2⟩⟩ := migrate_ok h
  · unfold Inv19 Nodup19
    rw [e1, e2]
    exact ⟨mirror_rebuild_of_mirror _ _ hn.1 hi, hn.1, nodup_rebuild _ _ hn.2⟩
  · unfold Inv19 Nodup19
    rw [e1, e2]; exact ⟨hi, hn⟩

/-- After a pre-0.14 migration, every later history keeps the views in agreement. -/
theorem reach_inv19_migrated {s s' : State} (hsp : s.allowSp = []) (hnd : AMap.NodupKeys s.allow)
    (hv : verLt s.version.key (relKey (0, 14, 0)) = true)
    (h : migrate s = .ok s') (ops : List (Block × Addr × Msg)) : Inv19 (run s' ops) ∧ Nodup19 (run s' ops) :=
  run_inv19 (migrate_pre014_establishes hsp hnd hv h) ops

/-- Generalisation of `migrate_pre014_establishes`: the spender map need not be empty, it is enough
that it has no entry whose mirrored key is absent from the owner map (stale entries would survive the
rebuild); entries that are present but different are overwritten. -/
theorem migrate_pre014_establishes_of_no_stale {s s' : State}
    (hsp : ∀ o sp, s.allow.get? (o, sp) = none → s.allowSp.get? (sp, o) = none) (hnd : Nodup19 s)
    (hv : verLt s.version.key (relKey (0, 14, 0)) = true)
    (h : migrate s = .ok s') : Inv19 s' ∧ Nodup19 s' := by
  obtain ⟨e1, ⟨_, e2⟩ | ⟨hv', _⟩⟩ := migrate_ok h
  · unfold Inv19 Nodup19
    rw [e1, e2]
    refine ⟨?_, hnd.1, nodup_rebuild _ _ hnd.2⟩
    intro o sp
    rw [get?_rebuild s.allow hnd.1]
    cases hg : AMap.get? s.allow (o, sp) with
    | none => simp [hsp o sp hg]
    | some v => simp
  · rw [hv] at hv'; cases hv'

/-! ## Histories that contain migrations -/

/-- An operation of a mixed history: an execute call or a `migrate` call. -/
inductive Op where
  | exec (blk : Block) (snd : Addr) (msg : Msg)
  | migrate

/-- One transaction of a mixed history; failing calls (also a refused `migrate`) are rolled back. -/
def stepOp (s : State) : Op → State
  | .exec blk snd msg => step s blk snd msg
  | .migrate => match migrate s with
    | .ok s' => s'
    | .error _ => s

def runOps (s : State) (ops : List Op) : State := ops.foldl stepOp s

theorem stepOp_inv19 {s : State} (op : Op) (hi : Inv19 s ∧ Nodup19 s) :
    Inv19 (stepOp s op) ∧ Nodup19 (stepOp s op) := by
  cases op with
  | exec blk snd msg => exact step_inv19 blk snd msg hi
  | migrate =>
    cases hm : migrate s with
    | ok s' => simp only [stepOp, hm]; exact migrate_preserves hi.1 hi.2 hm
    | error e => simp only [stepOp, hm]; exact hi

theorem runOps_inv19 {s : State} (hi : Inv19 s ∧ Nodup19 s) (ops : List Op) :
    Inv19 (runOps s ops) ∧ Nodup19 (runOps s ops) := by
  induction ops generalizing s with
  | nil => exact hi
  | cons op rest ih => exact ih (stepOp_inv19 op hi)

/-- **C19, main theorem with migrations**: after any accepted instantiation and any finite history of
execute calls *and* `migrate` calls in any order, the two maps agree on every pair. -/
theorem reach_inv19_mixed {m : InstMsg} {s : State} (h : instantiate m = .ok s) (ops : List Op) :
    Inv19 (runOps s ops) ∧ Nodup19 (runOps s ops) :=
  runOps_inv19 (instantiate_inv19 h) ops

/-- … and the same after migrating a pre-0.14 state without spender map. -/
theorem reach_inv19_migrated_mixed {s s' : State} (hsp : s.allowSp = []) (hnd : AMap.NodupKeys s.allow)
    (hv : verLt s.version.key (relKey (0, 14, 0)) = true)
    (h : migrate s = .ok s') (ops : List Op) : Inv19 (runOps s' ops) ∧ Nodup19 (runOps s' ops) :=
  runOps_inv19 (migrate_pre014_establishes hsp hnd hv h) ops

/-! ## The three views -/

/-- The owner listing's entry for `sp` is the `ALLOWANCES` entry for `(o, sp)`. -/
theorem ownerPrefix_lookup (s : State) (o sp : Addr) : (ownerPrefix s o).get? sp = s.allow.get? (o, sp) :=
  get?_pfx s.allow o sp

/-- The spender listing's entry for `o` is the `ALLOWANCES_SPENDER` entry for `(sp, o)`. -/
theorem spenderPrefix_lookup (s : State) (o sp : Addr) : (spenderPrefix s sp).get? o = s.allowSp.get? (sp, o) :=
  get?_pfx s.allowSp sp o

/-- **C19, view clause**: under the invariant, for valid `o`, `sp` the point query answers with the
entry for `sp` in the owner view of `o` (default `{0, never}` if absent), and that entry is the same
— amount and expiry, or absent in both — as the entry for `o` in the spender view of `sp`. -/
theorem views_agree {s : State} (hi : Inv19 s) (o sp : AddrArg) (ho : o.valid = true) (hs : sp.valid = true) :
    queryAllowance s o sp = .ok (((ownerPrefix s o.text).get? sp.text).getD Allowance.default)
    ∧ (ownerPrefix s o.text).get? sp.text = (spenderPrefix s sp.text).get? o.text
    ∧ queryAllowance s o sp = .ok (((spenderPrefix s sp.text).get? o.text).getD Allowance.default) := by
  have e : (ownerPrefix s o.text).get? sp.text = (spenderPrefix s sp.text).get? o.text := by
    rw [ownerPrefix_lookup, spenderPrefix_lookup]; exact hi o.text sp.text
  refine ⟨?_, e, ?_⟩
  · simp [queryAllowance, ho, hs, ownerPrefix_lookup]
  · rw [← e]; simp [queryAllowance, ho, hs, ownerPrefix_lookup]

/-- The complete (unpaged, ascending) listings contain the same entries: `(sp, a)` is listed for
owner `o` iff `(o, a)` is listed for spender `sp`, iff `ALLOWANCES` holds `a` under `(o, sp)`.
(Paging through the listings is C20's theorem.) -/
theorem listings_agree {s : State} (hi : Inv19 s) (hn : Nodup19 s) (o sp : Addr) (a : Allowance) :
    ((sp, a) ∈ Paginate.sortedEntries Paginate.strLt (ownerPrefix s o) ↔ s.allow.get? (o, sp) = some a)
    ∧ ((o, a) ∈ Paginate.sortedEntries Paginate.strLt (spenderPrefix s sp) ↔ s.allow.get? (o, sp) = some a) := by
  unfold Paginate.sortedEntries
  rw [List.mem_mergeSort, List.mem_mergeSort]
  constructor
  · exact (mem_iff_get? (m := ownerPrefix s o) (nodup_pfx hn.1 o) sp a).trans (by rw [ownerPrefix_lookup])
  · exact (mem_iff_get? (m := spenderPrefix s sp) (nodup_pfx hn.2 sp) o a).trans
      (by rw [spenderPrefix_lookup, ← hi o sp])

/-- The listings never report a pair twice. -/
theorem listings_nodup {s : State} (hn : Nodup19 s) (o sp : Addr) :
    AMap.NodupKeys (ownerPrefix s o) ∧ AMap.NodupKeys (spenderPrefix s sp) :=
  ⟨nodup_pfx hn.1 o, nodup_pfx hn.2 sp⟩

/-! ## The three views as the *paged query functions* report them

`views_agree` / `listings_agree` above speak of the prefix maps and their unpaged sorted listings.  The
theorems below speak of what a client actually obtains: the `Allowance` point query and the results of paging
`AllAllowances { owner }` and `AllSpenderAllowances { spender }` to completion (client loop
`Paginate.fetchLoop`: request a page, continue from the last returned key, stop at the empty page), with any
two page sizes.  Completeness of the paging is C20 (`owner_allowances_complete`,
`spender_allowances_complete`); the invariants are discharged on reachable states, not assumed. -/

open CwPlus.Paginate in
/-- What a client obtains by paging `AllAllowances { owner }` to completion with page size `limit`. -/
def ownerListing (s : State) (o : AddrArg) (limit : Option Nat) (fuel : Nat) : List (Addr × Allowance) :=
  fetchLoop (fun c => CwPlus.Props.C20.okItems (queryOwnerAllowances s o c limit)) (·.1) none fuel

open CwPlus.Paginate in
/-- What a client obtains by paging `AllSpenderAllowances { spender }` to completion with page size `limit`. -/
def spenderListing (s : State) (sp : AddrArg) (limit : Option Nat) (fuel : Nat) : List (Addr × Allowance) :=
  fetchLoop (fun c => CwPlus.Props.C20.okItems (querySpenderAllowances s sp c limit)) (·.1) none fuel

/-- State level: under `Inv19` and distinct keys, the completely paged owner listing and the completely
paged spender listing are the sorted prefix listings (C20), so an entry `(sp, a)` is reported for owner `o`
iff `(o, a)` is reported for spender `sp` iff `ALLOWANCES[(o, sp)] = a`, and the point query answers with
that entry (default `{0, never}` when there is none).  Any two page sizes other than 0, any number of allowed
requests above the number of entries. -/
theorem paged_views_agree_of_inv {s : State} (hi : Inv19 s) (hn : Nodup19 s) (o sp : AddrArg)
    (ho : o.valid = true) (hs : sp.valid = true) (l1 l2 : Option Nat) (h1 : l1 ≠ some 0) (h2 : l2 ≠ some 0)
    {f1 f2 : Nat} (hf1 : (ownerPrefix s o.text).length + 1 ≤ f1) (hf2 : (spenderPrefix s sp.text).length + 1 ≤ f2)
    (a : Allowance) :
    ((sp.text, a) ∈ ownerListing s o l1 f1 ↔ (o.text, a) ∈ spenderListing s sp l2 f2)
    ∧ ((sp.text, a) ∈ ownerListing s o l1 f1 ↔ s.allow.get? (o.text, sp.text) = some a)
    ∧ ((o.text, a) ∈ spenderListing s sp l2 f2 ↔ s.allow.get? (o.text, sp.text) = some a)
    ∧ queryAllowance s o sp = .ok ((s.allow.get? (o.text, sp.text)).getD Allowance.default) := by
  have e1 : ownerListing s o l1 f1 = Paginate.sortedEntries Paginate.strLt (ownerPrefix s o.text) :=
    CwPlus.Props.C20.owner_allowances_complete hn.1 o ho l1 h1 hf1
  have e2 : spenderListing s sp l2 f2 = Paginate.sortedEntries Paginate.strLt (spenderPrefix s sp.text) :=
    CwPlus.Props.C20.spender_allowances_complete hn.2 sp hs l2 h2 hf2
  obtain ⟨a1, a2⟩ := listings_agree hi hn o.text sp.text a
  rw [e1, e2]
  refine ⟨a1.trans a2.symm, a1, a2, ?_⟩
  simp [queryAllowance, ho, hs]

/-- **C19, view clause on the query functions (main theorem)**: after any accepted instantiation and any
finite history of execute messages, for valid `o`, `sp`, any two page sizes other than 0: paging
`AllAllowances {o}` to completion reports `(sp, a)` iff paging `AllSpenderAllowances {sp}` to completion
reports `(o, a)` iff the stored allowance of the pair is `a` — and then `Allowance {o, sp}` answers `a`
(same amount, same expiry); when neither listing has an entry for the pair the point query answers
`{0, never}` (`unlisted_point_default`).  `Inv19` is discharged by `reach_inv19`, not assumed. -/
theorem paged_views_agree {m : InstMsg} {s0 : State} (h : instantiate m = .ok s0) (ops : List (Block × Addr × Msg))
    (o sp : AddrArg) (ho : o.valid = true) (hs : sp.valid = true) (l1 l2 : Option Nat)
    (h1 : l1 ≠ some 0) (h2 : l2 ≠ some 0) (a : Allowance) :
    let s := run s0 ops
    ((sp.text, a) ∈ ownerListing s o l1 ((ownerPrefix s o.text).length + 1)
        ↔ (o.text, a) ∈ spenderListing s sp l2 ((spenderPrefix s sp.text).length + 1))
    ∧ ((sp.text, a) ∈ ownerListing s o l1 ((ownerPrefix s o.text).length + 1)
        ↔ s.allow.get? (o.text, sp.text) = some a)
    ∧ ((o.text, a) ∈ spenderListing s sp l2 ((spenderPrefix s sp.text).length + 1)
        ↔ s.allow.get? (o.text, sp.text) = some a)
    ∧ queryAllowance s o sp = .ok ((s.allow.get? (o.text, sp.text)).getD Allowance.default) := by
  intro s
  obtain ⟨hi, hn⟩ := reach_inv19 h ops
  exact paged_views_agree_of_inv hi hn o sp ho hs l1 l2 h1 h2 (Nat.le_refl _) (Nat.le_refl _) a

/-- The same over histories that interleave execute and `migrate` calls in any order. -/
theorem paged_views_agree_mixed {m : InstMsg} {s0 : State} (h : instantiate m = .ok s0) (ops : List Op)
    (o sp : AddrArg) (ho : o.valid = true) (hs : sp.valid = true) (l1 l2 : Option Nat)
    (h1 : l1 ≠ some 0) (h2 : l2 ≠ some 0) (a : Allowance) :
    let s := runOps s0 ops
    ((sp.text, a) ∈ ownerListing s o l1 ((ownerPrefix s o.text).length + 1)
        ↔ (o.text, a) ∈ spenderListing s sp l2 ((spenderPrefix s sp.text).length + 1))
    ∧ ((sp.text, a) ∈ ownerListing s o l1 ((ownerPrefix s o.text).length + 1)
        ↔ s.allow.get? (o.text, sp.text) = some a)
    ∧ ((o.text, a) ∈ spenderListing s sp l2 ((spenderPrefix s sp.text).length + 1)
        ↔ s.allow.get? (o.text, sp.text) = some a)
    ∧ queryAllowance s o sp = .ok ((s.allow.get? (o.text, sp.text)).getD Allowance.default) := by
  intro s
  obtain ⟨hi, hn⟩ := reach_inv19_mixed h ops
  exact paged_views_agree_of_inv hi hn o sp ho hs l1 l2 h1 h2 (Nat.le_refl _) (Nat.le_refl _) a

/-- **C19, "also after migration", on the query functions**: migrate any pre-0.14 state without spender
map (any allowance table with distinct keys — not only those an old contract could have produced), then run
any history of execute and further `migrate` calls: the three paged/point views agree as in
`paged_views_agree`. -/
theorem paged_views_agree_migrated {s s' : State} (hsp : s.allowSp = []) (hnd : AMap.NodupKeys s.allow)
    (hv : verLt s.version.key (relKey (0, 14, 0)) = true)
    (h : migrate s = .ok s') (ops : List Op)
    (o sp : AddrArg) (ho : o.valid = true) (hs : sp.valid = true) (l1 l2 : Option Nat)
    (h1 : l1 ≠ some 0) (h2 : l2 ≠ some 0) (a : Allowance) :
    let t := runOps s' ops
    ((sp.text, a) ∈ ownerListing t o l1 ((ownerPrefix t o.text).length + 1)
        ↔ (o.text, a) ∈ spenderListing t sp l2 ((spenderPrefix t sp.text).length + 1))
    ∧ ((sp.text, a) ∈ ownerListing t o l1 ((ownerPrefix t o.text).length + 1)
        ↔ t.allow.get? (o.text, sp.text) = some a)
    ∧ ((o.text, a) ∈ spenderListing t sp l2 ((spenderPrefix t sp.text).length + 1)
        ↔ t.allow.get? (o.text, sp.text) = some a)
    ∧ queryAllowance t o sp = .ok ((t.allow.get? (o.text, sp.text)).getD Allowance.default) := by
  intro t
  obtain ⟨hi, hn⟩ := reach_inv19_migrated_mixed hsp hnd hv h ops
  exact paged_views_agree_of_inv hi hn o sp ho hs l1 l2 h1 h2 (Nat.le_refl _) (Nat.le_refl _) a

/-- **Listed pairs**: in a state with `Inv19` and distinct keys, if the completely paged owner listing shows
`(sp, a)` then the point query answers exactly `a` (amount and expiry) — also for an entry drawn down to 0,
which stays listed with its old expiry. -/
theorem listed_point_agrees {s : State} (hi : Inv19 s) (hn : Nodup19 s) (o sp : AddrArg)
    (ho : o.valid = true) (hs : sp.valid = true) (l : Option Nat) (hl : l ≠ some 0) {f : Nat}
    (hf : (ownerPrefix s o.text).length + 1 ≤ f) (a : Allowance)
    (hm : (sp.text, a) ∈ ownerListing s o l f) : queryAllowance s o sp = .ok a := by
  obtain ⟨_, h2, _, h4⟩ := paged_views_agree_of_inv hi hn o sp ho hs l l hl hl hf (Nat.le_refl _) a
  rw [h4, h2.mp hm]; rfl

/-- **Absent vs. zero**: if the completely paged owner listing has no entry for `sp` at all (never granted, or
removed by a decrease), the point query answers the default `{0, never}`, and the spender listing has no
entry for `o` either. -/
theorem unlisted_point_default {s : State} (hi : Inv19 s) (hn : Nodup19 s) (o sp : AddrArg)
    (ho : o.valid = true) (hs : sp.valid = true) (l1 l2 : Option Nat) (h1 : l1 ≠ some 0) (h2 : l2 ≠ some 0)
    {f1 f2 : Nat} (hf1 : (ownerPrefix s o.text).length + 1 ≤ f1) (hf2 : (spenderPrefix s sp.text).length + 1 ≤ f2)
    (hm : ∀ a, (sp.text, a) ∉ ownerListing s o l1 f1) :
    queryAllowance s o sp = .ok Allowance.default ∧ ∀ a, (o.text, a) ∉ spenderListing s sp l2 f2 := by
  have hnone : s.allow.get? (o.text, sp.text) = none := by
    cases hg : s.allow.get? (o.text, sp.text) with
    | none => rfl
    | some a =>
      exact absurd ((paged_views_agree_of_inv hi hn o sp ho hs l1 l2 h1 h2 hf1 hf2 a).2.1.mpr hg) (hm a)
  refine ⟨?_, fun a hmem => ?_⟩
  · rw [(paged_views_agree_of_inv hi hn o sp ho hs l1 l2 h1 h2 hf1 hf2 Allowance.default).2.2.2, hnone]; rfl
  · have := (paged_views_agree_of_inv hi hn o sp ho hs l1 l2 h1 h2 hf1 hf2 a).2.2.1.mp hmem
    rw [hnone] at this; cases this

/-- The paged listings report every pair at most once and in ascending key order (they are the sorted prefix
listings). -/
theorem paged_listings_once {s : State} (hn : Nodup19 s) (o sp : AddrArg)
    (ho : o.valid = true) (hs : sp.valid = true) (l1 l2 : Option Nat) (h1 : l1 ≠ some 0) (h2 : l2 ≠ some 0)
    {f1 f2 : Nat} (hf1 : (ownerPrefix s o.text).length + 1 ≤ f1) (hf2 : (spenderPrefix s sp.text).length + 1 ≤ f2) :
    ((ownerListing s o l1 f1).map (·.1)).Nodup ∧ ((spenderListing s sp l2 f2).map (·.1)).Nodup := by
  have e1 : ownerListing s o l1 f1 = Paginate.sortedEntries Paginate.strLt (ownerPrefix s o.text) :=
    CwPlus.Props.C20.owner_allowances_complete hn.1 o ho l1 h1 hf1
  have e2 : spenderListing s sp l2 f2 = Paginate.sortedEntries Paginate.strLt (spenderPrefix s sp.text) :=
    CwPlus.Props.C20.spender_allowances_complete hn.2 sp hs l2 h2 hf2
  rw [e1, e2]
  exact ⟨Paginate.Sorted.nodupKeys Paginate.strictTotal_strLt
      (Paginate.sortedEntries_sorted (CwPlus.Cw20.ownerPrefix_nodup hn.1 _) Paginate.strictTotal_strLt),
    Paginate.Sorted.nodupKeys Paginate.strictTotal_strLt
      (Paginate.sortedEntries_sorted (CwPlus.Cw20.spenderPrefix_nodup hn.2 _) Paginate.strictTotal_strLt)⟩

/-! ## `migrate`: when it succeeds, and what it leaves -/

/-- **C19, migration clause, applicability**: `migrate` succeeds exactly when the stored cw2 record names
this contract and its version is not newer than the code's version (2.0.0).  In particular every pre-0.14
token of this contract can be migrated. -/
theorem migrate_ok_iff (s : State) :
    (∃ s', migrate s = .ok s') ↔
      (s.version.name = CONTRACT_NAME ∧ verLt (relKey CONTRACT_VERSION) s.version.key = false) := by
  unfold migrate
  constructor
  · rintro ⟨s', h⟩
    simp at h
    exact ⟨h.1, h.2.1⟩
  · rintro ⟨h1, h2⟩
    by_cases hv : verLt s.version.key (relKey (0, 14, 0)) = true
    · exact ⟨_, by simp [h1, h2, hv]; rfl⟩
    · exact ⟨_, by simp [h1, h2, hv]; rfl⟩

/-- A version below 0.14.0 is below 2.0.0: a pre-0.14 token of this contract is never refused. -/
theorem migrate_pre014_succeeds {s : State} (hname : s.version.name = CONTRACT_NAME)
    (hv : verLt s.version.key (relKey (0, 14, 0)) = true) :
    ∃ s', migrate s = .ok s' := by
  rw [migrate_ok_iff]
  refine ⟨hname, ?_⟩
  unfold verLt relKey Version.key at hv
  simp only [Bool.or_eq_true, Bool.and_eq_true, decide_eq_true_eq, beq_iff_eq] at hv
  have hmaj : s.version.major = 0 := by omega
  simp [verLt, CONTRACT_VERSION, relKey, Version.key, hmaj]

/-- **C19, migration clause, content**: a successful migration of a pre-0.14 state with distinct keys
neither loses nor alters an allowance: `ALLOWANCES` is untouched, the rebuilt `ALLOWANCES_SPENDER` holds under
`(sp, o)` exactly the entry of `(o, sp)` (or, where `ALLOWANCES` has none, what was there before), and
balances, supply and minter are untouched. -/
theorem migrate_pre014_content {s s' : State} (hnd : AMap.NodupKeys s.allow)
    (hv : verLt s.version.key (relKey (0, 14, 0)) = true)
    (h : migrate s = .ok s') :
    s'.allow = s.allow ∧ s'.balances = s.balances ∧ s'.supply = s.supply ∧ s'.mint = s.mint
    ∧ ∀ o sp, s'.allowSp.get? (sp, o) = (match s.allow.get? (o, sp) with
        | some v => some v
        | none => s.allowSp.get? (sp, o)) := by
  obtain ⟨e1, ⟨_, e2⟩ | ⟨hv', _⟩⟩ := migrate_ok h
  · refine ⟨e1, ?_, ?_, ?_, ?_⟩
    · unfold migrate at h; simp at h; obtain ⟨_, _, h⟩ := h; rw [if_pos hv] at h; cases h; rfl
    · unfold migrate at h; simp at h; obtain ⟨_, _, h⟩ := h; rw [if_pos hv] at h; cases h; rfl
    · unfold migrate at h; simp at h; obtain ⟨_, _, h⟩ := h; rw [if_pos hv] at h; cases h; rfl
    · intro o sp
      rw [e2, get?_rebuild s.allow hnd]
      cases s.allow.get? (o, sp) <;> rfl
  · rw [hv] at hv'; cases hv'

/-! ## Semver precedence with pre-release tags -/

/-- semver precedence of a stored version below a *release* `r` (a version without pre-release tag): a smaller
`major.minor.patch`, or the same triple carrying a pre-release tag. -/
def precedesRelease (v : Version) (r : Nat × Nat × Nat) : Prop :=
  v.major < r.1 ∨ (v.major = r.1 ∧ (v.minor < r.2.1 ∨ (v.minor = r.2.1 ∧
    (v.patch < r.2.2 ∨ (v.patch = r.2.2 ∧ v.pre.isSome = true)))))

/-- … and of a release below a stored version: a strictly smaller triple (a pre-release of the same triple is *below*
the release, never above it). -/
def releasePrecedes (r : Nat × Nat × Nat) (v : Version) : Prop :=
  r.1 < v.major ∨ (r.1 = v.major ∧ (r.2.1 < v.minor ∨ (r.2.1 = v.minor ∧ r.2.2 < v.patch)))

theorem key_lt_relKey_iff (v : Version) (r : Nat × Nat × Nat) :
    verLt v.key (relKey r) = true ↔ precedesRelease v r := by
  unfold verLt relKey Version.key precedesRelease
  simp only [Bool.or_eq_true, Bool.and_eq_true, decide_eq_true_eq, beq_iff_eq]
  cases v.pre <;> simp <;> omega

theorem relKey_lt_key_iff (v : Version) (r : Nat × Nat × Nat) :
    verLt (relKey r) v.key = true ↔ releasePrecedes r v := by
  unfold verLt relKey Version.key releasePrecedes
  simp only [Bool.or_eq_true, Bool.and_eq_true, decide_eq_true_eq, beq_iff_eq]
  cases v.pre <;> simp <;> omega

/-- `migrate_ok_iff` in words: accepted exactly when the cw2 record names this contract and the code's release 2.0.0
does not precede the stored version — so `2.0.0-beta` is accepted (and bumped), `2.0.1-alpha` is refused. -/
theorem migrate_ok_iff_precedence (s : State) :
    (∃ s', migrate s = .ok s') ↔ (s.version.name = CONTRACT_NAME ∧ ¬ releasePrecedes CONTRACT_VERSION s.version) := by
  rw [migrate_ok_iff, ← relKey_lt_key_iff]
  simp

/-- The spender listing is rebuilt exactly for stored versions that precede the release 0.14.0 in semver order
(`0.13.99`, `0.14.0-rc.1`, `0.13.0-rc.1` … — not `0.14.0`). -/
theorem migrate_rebuilds_iff_precedes_014 {s s' : State} (h : migrate s = .ok s') :
    (precedesRelease s.version (0, 14, 0) → s'.allowSp = rebuild s.allow s.allowSp) ∧
    (¬ precedesRelease s.version (0, 14, 0) → s'.allowSp = s.allowSp) := by
  obtain ⟨_, ⟨hv, e⟩ | ⟨hv, e⟩⟩ := migrate_ok h
  · exact ⟨fun _ => e, fun hn => absurd ((key_lt_relKey_iff _ _).mp hv) hn⟩
  · refine ⟨fun hp => ?_, fun _ => e⟩
    rw [(key_lt_relKey_iff _ _).mpr hp] at hv; cases hv

example : precedesRelease ⟨CONTRACT_NAME, 0, 14, 0, some "rc.1"⟩ (0, 14, 0) ∧ ¬ precedesRelease ⟨CONTRACT_NAME, 0, 14, 0, none⟩ (0, 14, 0)
    ∧ ¬ releasePrecedes CONTRACT_VERSION ⟨CONTRACT_NAME, 2, 0, 0, some "beta"⟩ ∧ releasePrecedes CONTRACT_VERSION ⟨CONTRACT_NAME, 2, 0, 1, some "alpha"⟩ := by
  simp [precedesRelease, releasePrecedes, CONTRACT_VERSION]

/-! ## Non-vacuity -/

def exInst : InstMsg :=
  { name := "Token", symbol := "TKN", decimals := 6,
    initial := [(⟨true, "alice"⟩, 100), (⟨true, "bob"⟩, 50)], mint := none }

def exState : State :=
  { supply := 150, mint := none, balances := [("alice", 100), ("bob", 50)],
    allow := [], allowSp := [], version := ⟨CONTRACT_NAME, 2, 0, 0, none⟩ }

def exBlk : Block := ⟨100, 5000⟩

/-- Two owners, two spenders; a grant with expiry, a top-up, a draw to exactly zero (entry kept at 0),
a decrease to removal, a partial decrease with new expiry, a burn through an allowance, and a failing
draw beyond the allowance. -/
def exOps : List (Block × Addr × Msg) :=
  [ (exBlk, "alice", .increaseAllowance ⟨true, "carol"⟩ 30 (some (.atHeight 200))),
    (exBlk, "alice", .increaseAllowance ⟨true, "dave"⟩ 20 none),
    (exBlk, "bob", .increaseAllowance ⟨true, "carol"⟩ 40 none),
    (exBlk, "alice", .increaseAllowance ⟨true, "carol"⟩ 5 none),
    (exBlk, "dave", .transferFrom ⟨true, "alice"⟩ ⟨true, "dave"⟩ 20),
    (exBlk, "bob", .increaseAllowance ⟨true, "dave"⟩ 7 none),
    (exBlk, "bob", .decreaseAllowance ⟨true, "dave"⟩ 7 none),
    (exBlk, "bob", .decreaseAllowance ⟨true, "carol"⟩ 10 (some (.atTime 9000))),
    (exBlk, "carol", .burnFrom ⟨true, "alice"⟩ 15),
    (exBlk, "carol", .sendFrom ⟨true, "alice"⟩ ⟨true, "bob"⟩ 21 "x") ]

example : instantiate exInst = .ok exState := by rfl

/-- The history leaves non-trivial, mirrored tables (note the zero entry for alice/dave and the
removed bob/dave). -/
example : (run exState exOps).allow =
      [(("alice", "carol"), ⟨20, .atHeight 200⟩), (("alice", "dave"), ⟨0, .never⟩), (("bob", "carol"), ⟨30, .atTime 9000⟩)]
    ∧ (run exState exOps).allowSp =
      [(("carol", "alice"), ⟨20, .atHeight 200⟩), (("dave", "alice"), ⟨0, .never⟩), (("carol", "bob"), ⟨30, .atTime 9000⟩)] := by
  decide

/-- All three views of one pair on that state. -/
example : queryAllowance (run exState exOps) ⟨true, "alice"⟩ ⟨true, "carol"⟩ = .ok ⟨20, .atHeight 200⟩
    ∧ (ownerPrefix (run exState exOps) "alice").get? "carol" = some ⟨20, .atHeight 200⟩
    ∧ (spenderPrefix (run exState exOps) "carol").get? "alice" = some ⟨20, .atHeight 200⟩
    ∧ spenderPrefix (run exState exOps) "carol" = [("alice", ⟨20, .atHeight 200⟩), ("bob", ⟨30, .atTime 9000⟩)]
    ∧ ownerPrefix (run exState exOps) "alice" = [("carol", ⟨20, .atHeight 200⟩), ("dave", ⟨0, .never⟩)] :=
  ⟨rfl, by decide, by decide, by decide, by decide⟩

example : Inv19 (run exState exOps) ∧ Nodup19 (run exState exOps) := reach_inv19 (m := exInst) rfl exOps

/-- A pre-0.14 state as the legacy contract left it: three allowances, no spender map. -/
def exLegacy : State :=
  { supply := 150, mint := none, balances := [("alice", 100), ("bob", 50)],
    allow := [(("alice", "carol"), ⟨20, .atHeight 200⟩), (("bob", "carol"), ⟨30, .never⟩), (("alice", "bob"), ⟨0, .atTime 1⟩)],
    allowSp := [], version := ⟨CONTRACT_NAME, 0, 13, 4, none⟩ }

def exMigrated : State :=
  { exLegacy with
    allowSp := [(("carol", "alice"), ⟨20, .atHeight 200⟩), (("carol", "bob"), ⟨30, .never⟩), (("bob", "alice"), ⟨0, .atTime 1⟩)],
    version := ⟨CONTRACT_NAME, 2, 0, 0, none⟩ }

/-- The hypotheses of `migrate_pre014_establishes` hold for `exLegacy`, and the views disagree before
the migration (so the theorem is not about an invariant that holds anyway). -/
theorem exLegacy_nodup : AMap.NodupKeys exLegacy.allow := by
  show (AMap.keys exLegacy.allow).Nodup
  decide

example : exLegacy.allowSp = [] ∧ AMap.NodupKeys exLegacy.allow
    ∧ verLt exLegacy.version.key (relKey (0, 14, 0)) = true :=
  ⟨rfl, exLegacy_nodup, by decide⟩
example : migrate exLegacy = .ok exMigrated := by rfl
example : ¬ Inv19 exLegacy := fun h => absurd (h "alice" "carol") (by decide)
example : Inv19 exMigrated ∧ Nodup19 exMigrated :=
  migrate_pre014_establishes (s := exLegacy) rfl exLegacy_nodup (by decide) rfl

/-- Migration is refused from a newer version and for another contract; from 1.1.0 it succeeds
without rebuilding. -/
example : (migrate { exLegacy with version := ⟨CONTRACT_NAME, 2, 0, 1, none⟩ }).isOk = false
    ∧ (migrate { exLegacy with version := ⟨"crates.io:other", 0, 13, 4, none⟩ }).isOk = false
    ∧ (migrate { exMigrated with version := ⟨CONTRACT_NAME, 1, 1, 0, none⟩ }).isOk = true := by decide

/-- Pre-release tags: `0.13.0-rc.1` and `0.14.0-beta` are below 0.14.0 (the spender map is rebuilt), `2.0.0-beta` is
below the code's 2.0.0 (accepted, no rebuild, version bumped), and no pre-release of a later version is accepted. -/
example : verLt (⟨CONTRACT_NAME, 0, 13, 0, some "rc.1"⟩ : Version).key (relKey (0, 14, 0)) = true
    ∧ verLt (⟨CONTRACT_NAME, 0, 14, 0, some "beta"⟩ : Version).key (relKey (0, 14, 0)) = true
    ∧ verLt (⟨CONTRACT_NAME, 0, 14, 0, none⟩ : Version).key (relKey (0, 14, 0)) = false
    ∧ (match migrate { exMigrated with version := ⟨CONTRACT_NAME, 2, 0, 0, some "beta"⟩ } with
        | .ok s => decide (s.version = ⟨CONTRACT_NAME, 2, 0, 0, none⟩ ∧ s.allowSp = exMigrated.allowSp)
        | .error _ => false) = true
    ∧ (migrate { exMigrated with version := ⟨CONTRACT_NAME, 2, 0, 1, some "alpha"⟩ }).isOk = false := by decide

/-- The distinct-keys hypothesis of `migrate_pre014_establishes` cannot be dropped in the model: an
association list with a repeated key (impossible in a storage map) is looked up first-match but
rebuilt last-write-wins. -/
example : let s : State := { exLegacy with allow := [(("a", "b"), ⟨1, .never⟩), (("a", "b"), ⟨2, .never⟩)] }
    ∃ s', migrate s = .ok s' ∧ s'.allow.get? ("a", "b") ≠ s'.allowSp.get? ("b", "a") :=
  ⟨_, rfl, by decide⟩

/-- A mixed history on the migrated legacy state: a draw, a second (no-op) `migrate`, a top-up. -/
def exMixed : List Op :=
  [ .exec exBlk "carol" (.transferFrom ⟨true, "alice"⟩ ⟨true, "carol"⟩ 20),
    .migrate,
    .exec exBlk "bob" (.increaseAllowance ⟨true, "carol"⟩ 1 (some (.atHeight 101))) ]

example : (runOps exMigrated exMixed).allow.get? ("alice", "carol") = some ⟨0, .atHeight 200⟩
    ∧ (runOps exMigrated exMixed).allowSp.get? ("carol", "alice") = some ⟨0, .atHeight 200⟩
    ∧ (runOps exMigrated exMixed).allowSp.get? ("carol", "bob") = some ⟨31, .atHeight 101⟩ := by decide

example : Inv19 (runOps exMigrated exMixed) ∧ Nodup19 (runOps exMigrated exMixed) :=
  reach_inv19_migrated_mixed (s := exLegacy) rfl exLegacy_nodup (by decide) rfl exMixed

/-! ### Non-vacuity of the paged-view theorems -/

/-- `paged_views_agree` on the example history: owner listing paged one entry at a time, spender listing
with the default page size; the pair alice/carol is reported by both with `{20, height 200}`, which is
also the point query's answer. -/
example : ("carol", ⟨20, .atHeight 200⟩) ∈ ownerListing (run exState exOps) ⟨true, "alice"⟩ (some 1)
        ((ownerPrefix (run exState exOps) "alice").length + 1)
    ∧ ("alice", ⟨20, .atHeight 200⟩) ∈ spenderListing (run exState exOps) ⟨true, "carol"⟩ none
        ((spenderPrefix (run exState exOps) "carol").length + 1)
    ∧ queryAllowance (run exState exOps) ⟨true, "alice"⟩ ⟨true, "carol"⟩ = .ok ⟨20, .atHeight 200⟩ := by
  have h := paged_views_agree (m := exInst) rfl exOps ⟨true, "alice"⟩ ⟨true, "carol"⟩ rfl rfl (some 1) none
    (by decide) (by decide) ⟨20, .atHeight 200⟩
  exact ⟨h.2.1.mpr (by decide), h.2.2.1.mpr (by decide), rfl⟩

/-- The paged owner listing of alice, computed: two requests of one entry each and the empty page.  The entry
drawn to zero (dave) stays listed. -/
example : ownerListing (run exState exOps) ⟨true, "alice"⟩ (some 1) 3
    = [("carol", ⟨20, .atHeight 200⟩), ("dave", ⟨0, .never⟩)] := by
  have hp : ownerPrefix (run exState exOps) "alice" = [("carol", ⟨20, .atHeight 200⟩), ("dave", ⟨0, .never⟩)] := by
    decide
  have hn := (reach_inv19 (m := exInst) (s := exState) rfl exOps).2
  rw [ownerListing, CwPlus.Props.C20.owner_allowances_complete hn.1 ⟨true, "alice"⟩ rfl (some 1) (by decide)
    (by rw [hp]; decide)]
  show Paginate.sortedEntries Paginate.strLt (ownerPrefix (run exState exOps) "alice") = _
  rw [hp]
  exact Paginate.sortedEntries_of_sorted Paginate.strictTotal_strLt (by unfold Paginate.Sorted; decide)

/-- `unlisted_point_default` on the example history: bob/dave was removed by a full decrease — no entry in
either paged listing, point query `{0, never}`. -/
example : queryAllowance (run exState exOps) ⟨true, "bob"⟩ ⟨true, "dave"⟩ = .ok Allowance.default
    ∧ ∀ a, ("bob", a) ∉ spenderListing (run exState exOps) ⟨true, "dave"⟩ (some 2)
        ((spenderPrefix (run exState exOps) "dave").length + 1) := by
  obtain ⟨hi, hn⟩ := reach_inv19 (m := exInst) (s := exState) rfl exOps
  refine unlisted_point_default hi hn ⟨true, "bob"⟩ ⟨true, "dave"⟩ rfl rfl (some 3) (some 2) (by decide) (by decide)
    (Nat.le_refl _) (Nat.le_refl _) ?_
  intro a hm
  have := (paged_views_agree_of_inv hi hn ⟨true, "bob"⟩ ⟨true, "dave"⟩ rfl rfl (some 3) (some 2) (by decide)
    (by decide) (Nat.le_refl _) (Nat.le_refl _) a).2.1.mp hm
  have hnone : (run exState exOps).allow.get? ("bob", "dave") = none := by decide
  rw [show (run exState exOps).allow.get? ((⟨true, "bob"⟩ : AddrArg).text, (⟨true, "dave"⟩ : AddrArg).text)
    = none from hnone] at this
  cases this

/-- `paged_views_agree_migrated` on the legacy state followed by the mixed history. -/
example : ("bob", ⟨31, .atHeight 101⟩) ∈ spenderListing (runOps exMigrated exMixed) ⟨true, "carol"⟩ (some 1)
      ((spenderPrefix (runOps exMigrated exMixed) "carol").length + 1) := by
  have h := paged_views_agree_migrated (s := exLegacy) rfl exLegacy_nodup (by decide) rfl exMixed
    ⟨true, "bob"⟩ ⟨true, "carol"⟩ rfl rfl none (some 1) (by decide) (by decide) ⟨31, .atHeight 101⟩
  exact h.2.2.1.mpr (by decide)

/-- `migrate_ok_iff` / `migrate_pre014_succeeds` / `migrate_pre014_content` on the legacy state. -/
example : exLegacy.version.name = CONTRACT_NAME
    ∧ verLt (relKey CONTRACT_VERSION) exLegacy.version.key = false := by decide
example : ∃ s', migrate exLegacy = .ok s' := migrate_pre014_succeeds rfl (by decide)
example : exMigrated.allowSp.get? ("carol", "bob") = some ⟨30, .never⟩ ∧ exMigrated.allow = exLegacy.allow := by
  obtain ⟨h1, _, _, _, h5⟩ := migrate_pre014_content (s := exLegacy) (s' := exMigrated) exLegacy_nodup (by decide) rfl
  exact ⟨(h5 "bob" "carol").trans (by decide), h1⟩

end CwPlus.Props.C19
