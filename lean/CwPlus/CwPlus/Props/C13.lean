import CwPlus.Props.C01
import CwPlus.Props.Cw20Mixed
/-!
# C13 — cw20: only the current minter mints, and never beyond the cap

Tokens are created only by a `mint` from the address currently stored as minter; the supply never
exceeds the cap fixed at instantiation (ghost `cap0`), which survives every hand-over; only the current
minter can hand over or renounce the role; once renounced nobody mints or becomes minter again.
Histories are `C01.run` (any senders, any messages, failed calls rolled back).
-/
namespace CwPlus.Props.C13
open CwPlus CwPlus.Cw20
open CwPlus.Props.C01 (run)

/-- Case analysis used by every clause: what one successful call can do to `supply` and `mint`.
Either (1) `mint` is untouched and the supply does not rise, or (2) it is a `mint` by the stored
minter within the stored cap, or (3) it is an `updateMinter` by the stored minter, which keeps the
supply and either removes the role or hands it over together with the old cap. -/
theorem execute_cases {s s' : State} {blk : Block} {snd : Addr} {msg : Msg} {out : List Out}
    (h : execute s blk snd msg = .ok (s', out)) :
    (s'.mint = s.mint ∧ s'.supply ≤ s.supply ∧ (∀ new, msg ≠ .updateMinter new))
    ∨ (∃ to amt m, msg = .mint to amt ∧ s.mint = some m ∧ m.minter = snd ∧ s'.mint = s.mint
        ∧ s'.supply = s.supply + amt ∧ ∀ c, m.cap = some c → s.supply + amt ≤ c)
    ∨ (∃ new m, msg = .updateMinter new ∧ s.mint = some m ∧ m.minter = snd ∧ s'.supply = s.supply
        ∧ s'.mint = new.map (fun a => ⟨a.text, m.cap⟩) ∧ ∀ a, new = some a → a.valid = true) := by
  cases msg <;> simp only [execute] at h
  case transfer to amt =>
    simp [execTransfer] at h
    obtain ⟨_, b1, h1, b2, h2, rfl, _⟩ := h
    simp
  case burn amt =>
    simp [execBurn] at h
    obtain ⟨b1, h1, hle, rfl, _⟩ := h
    simp
  case send c amt p =>
    simp [execSend] at h
    obtain ⟨_, b1, h1, b2, h2, rfl, _⟩ := h
    simp
  case mint to amt =>
    right; left
    unfold execMint at h
    split at h
    · simp at h
    · rename_i m hm
      simp at h
      obtain ⟨hs, hle, hcap, _, b, h1, rfl, _⟩ := h
      refine ⟨to, amt, m, rfl, hm, hs, rfl, rfl, ?_⟩
      intro c hc
      simpa [hc] using hcap
  case updateMinter new =>
    right; right
    unfold execUpdateMinter at h
    split at h
    · simp at h
    · rename_i m hm
      split at h
      · simp at h; obtain ⟨hs, rfl, _⟩ := h
        exact ⟨none, m, rfl, hm, hs, rfl, rfl, by simp⟩
      · rename_i a
        simp at h; obtain ⟨hs, hv, rfl, _⟩ := h
        exact ⟨some a, m, rfl, hm, hs, rfl, rfl, by simpa using hv⟩
  case increaseAllowance sp amt e =>
    simp [execIncreaseAllowance] at h
    obtain ⟨_, _, a1, _, a2, _, rfl, _⟩ := h
    simp
  case decreaseAllowance sp amt e =>
    unfold execDecreaseAllowance at h
    simp at h
    obtain ⟨_, _, h⟩ := h
    split at h
    · simp at h
    · split at h
      · simp at h; obtain ⟨e', _, rfl, _⟩ := h; simp
      · simp at h; obtain ⟨rfl, _⟩ := h; simp
  case transferFrom o to amt =>
    simp [execTransferFrom] at h
    obtain ⟨_, _, s1, hd, b1, h1, b2, h2, rfl, _⟩ := h
    obtain ⟨_, e2, e3⟩ := C01.deduct_frame hd
    simp [e2, e3]
  case burnFrom o amt =>
    simp [execBurnFrom] at h
    obtain ⟨_, s1, hd, b1, h1, hle, rfl, _⟩ := h
    obtain ⟨_, e2, e3⟩ := C01.deduct_frame hd
    simp [e2, e3]
  case sendFrom o c amt p =>
    simp [execSendFrom] at h
    obtain ⟨_, _, s1, hd, b1, h1, b2, h2, rfl, _⟩ := h
    obtain ⟨_, e2, e3⟩ := C01.deduct_frame hd
    simp [e2, e3]
  case updateMarketing p d m =>
    obtain ⟨mk, rfl, _⟩ := execUpdateMarketing_frame h; simp
  case uploadLogo l =>
    obtain ⟨mk, rfl, _⟩ := execUploadLogo_frame h; simp

/-! ## Only the current minter mints -/

/-- **C13, clause 1**: if a successful call raised the supply, it was a `mint` sent by the address
stored as minter at that moment. -/
theorem mint_only_minter {s s' : State} {blk : Block} {snd : Addr} {msg : Msg} {out : List Out}
    (h : execute s blk snd msg = .ok (s', out)) (hlt : s.supply < s'.supply) :
    ∃ to amt m, msg = .mint to amt ∧ s.mint = some m ∧ m.minter = snd := by
  rcases execute_cases h with ⟨_, hle, _⟩ | ⟨to, amt, m, rfl, hm, hs, _⟩ | ⟨new, m, _, _, _, he, _⟩
  · omega
  · exact ⟨to, amt, m, rfl, hm, hs⟩
  · omega

/-- A `mint` (of any amount, also 0) succeeds only for the stored minter and only within the stored
cap; it adds exactly `amt`. -/
theorem mint_requires_minter {s s' : State} {blk : Block} {snd : Addr} {to : AddrArg} {amt : Nat} {out : List Out}
    (h : execute s blk snd (.mint to amt) = .ok (s', out)) :
    ∃ m, s.mint = some m ∧ m.minter = snd ∧ s'.supply = s.supply + amt ∧ ∀ c, m.cap = some c → s'.supply ≤ c := by
  rcases execute_cases h with ⟨_, _, _⟩ | ⟨to', amt', m, he, hm, hs, _, hsup, hcap⟩ | ⟨new, m, he, _⟩
  · simp [execute, execMint] at h
    split at h <;> simp at h
    rename_i m hm
    obtain ⟨hs, _, hcap, _, b, _, rfl, _⟩ := h
    refine ⟨m, hm, hs, rfl, ?_⟩
    intro c hc; simpa [hc] using hcap
  · cases he
    exact ⟨m, hm, hs, hsup, fun c hc => by have := hcap c hc; omega⟩
  · cases he

/-- A `mint` by anybody but the stored minter fails, whatever the amount (also when no minter is stored). -/
theorem mint_by_other_fails {s : State} {blk : Block} {snd : Addr} {to : AddrArg} {amt : Nat}
    (hne : ∀ m, s.mint = some m → m.minter ≠ snd) : ∃ e, execute s blk snd (.mint to amt) = .error e := by
  cases hx : execute s blk snd (.mint to amt) with
  | error e => exact ⟨e, rfl⟩
  | ok r =>
    obtain ⟨m, hm, hs, _⟩ := mint_requires_minter (s' := r.1) (out := r.2) hx
    exact absurd hs (hne m hm)

/-! ## Never beyond the cap fixed at instantiation -/

/-- The cap given in the instantiate message (`InstantiateMsg::get_cap`); `none` when no minter or
no cap is given. -/
def instCap (m : InstMsg) : Option Nat :=
  match m.mint with
  | some (_, c) => c
  | none => none

/-- The invariant with the ghost `cap0`: whoever holds the minter role holds it with the original
cap, and the supply respects that cap. -/
def Inv13 (cap0 : Option Nat) (s : State) : Prop :=
  (∀ m, s.mint = some m → m.cap = cap0) ∧ (∀ c, cap0 = some c → s.supply ≤ c)

/-- Every accepted instantiation establishes `Inv13` for the cap of its message.  Without a minter
`instCap m = none` and the invariant holds trivially; that case is covered by
`instantiate_no_minter` (the supply can then never rise at all). -/
theorem instantiate_inv13 {m : InstMsg} {s : State} (h : instantiate m = .ok s) : Inv13 (instCap m) s := by
  simp [instantiate] at h
  obtain ⟨_, hnd, b, t, hc, hcap, w, hw, mk, lg, _, rfl⟩ := h
  unfold Inv13 instCap
  rcases hm : m.mint with _ | ⟨a, cap⟩
  · simp [hm] at hw ⊢
    subst hw; simp
  · simp [hm] at hw hcap ⊢
    obtain ⟨_, rfl⟩ := hw
    refine ⟨by intro m' hm'; cases hm'; rfl, ?_⟩
    intro c hc; subst hc
    simpa using hcap

/-- The stored minter of a fresh token is the one of the message, with the message's cap. -/
theorem instantiate_mint {m : InstMsg} {s : State} (h : instantiate m = .ok s) :
    s.mint = m.mint.map (fun p => ⟨p.1.text, p.2⟩) := by
  simp [instantiate] at h
  obtain ⟨_, hnd, b, t, hc, hcap, w, hw, mk, lg, _, rfl⟩ := h
  rcases hm : m.mint with _ | ⟨a, cap⟩
  · simp [hm] at hw ⊢; exact hw.symm
  · simp [hm] at hw ⊢; exact hw.2.symm

/-- Every successful call of every message kind preserves `Inv13` (mint is checked against the stored
cap, which is `cap0`; `updateMinter` copies the cap; burns only lower the supply). -/
theorem execute_inv13 {cap0 : Option Nat} {s s' : State} {blk : Block} {snd : Addr} {msg : Msg} {out : List Out}
    (hi : Inv13 cap0 s) (h : execute s blk snd msg = .ok (s', out)) : Inv13 cap0 s' := by
  obtain ⟨h1, h2⟩ := hi
  rcases execute_cases h with ⟨em, hle, _⟩ | ⟨to, amt, m, _, hm, _, em, hsup, hcap⟩ | ⟨new, m, _, hm, _, hsup, em, _⟩
  · refine ⟨by rw [em]; exact h1, ?_⟩
    intro c hc; have := h2 c hc; omega
  · refine ⟨by rw [em]; exact h1, ?_⟩
    intro c hc
    have := hcap c (by rw [h1 m hm]; exact hc)
    omega
  · refine ⟨?_, by rw [hsup]; exact h2⟩
    intro m' hm'
    rw [em] at hm'
    cases new with
    | none => simp at hm'
    | some a => simp at hm'; subst hm'; exact h1 m hm

theorem step_inv13 {cap0 : Option Nat} {s : State} (blk : Block) (snd : Addr) (msg : Msg) (hi : Inv13 cap0 s) :
    Inv13 cap0 (step s blk snd msg) := by
  unfold step
  split
  · rename_i s' out h; exact execute_inv13 hi h
  · exact hi

theorem run_inv13 {cap0 : Option Nat} {s : State} (hi : Inv13 cap0 s) (ops : List (Block × Addr × Msg)) :
    Inv13 cap0 (run s ops) := by
  induction ops generalizing s with
  | nil => exact hi
  | cons op rest ih => exact ih (step_inv13 op.1 op.2.1 op.2.2 hi)

/-- **C13, clause 2 (main theorem)**: after any accepted instantiation and any history (mints, burns
that make room, chains of hand-overs, former minters retrying, strangers), every holder of the minter
role carries the cap of the instantiate message and the supply does not exceed it. -/
theorem reach_cap {m : InstMsg} {s : State} (h : instantiate m = .ok s) (ops : List (Block × Addr × Msg)) :
    Inv13 (instCap m) (run s ops) :=
  run_inv13 (instantiate_inv13 h) ops

/-- Readable corollary: instantiated with minter `a` and cap `c`, the supply never exceeds `c`. -/
theorem supply_le_cap {m : InstMsg} {s : State} {a : AddrArg} {c : Nat} (h : instantiate m = .ok s)
    (hm : m.mint = some (a, some c)) (ops : List (Block × Addr × Msg)) : (run s ops).supply ≤ c :=
  (reach_cap h ops).2 c (by simp [instCap, hm])

/-! ## The tokens in circulation (Σ balances), not only the recorded supply

The monitors `C13/tokens-created-without-mint` and `C13/circulation-above-cap` evaluate these two statements on
the implementation's listed balances. -/

/-- **C13, clause 1 for the tokens that exist**: on a state satisfying the C01 invariant, if a successful call
raised the sum of all balances, it was a `mint` sent by the address stored as minter at that moment. -/
theorem circulation_rises_only_by_mint {s s' : State} {blk : Block} {snd : Addr} {msg : Msg} {out : List Out}
    (hi : C01.Inv s) (h : execute s blk snd msg = .ok (s', out)) (hlt : AMap.sum s.balances < AMap.sum s'.balances) :
    ∃ to amt m, msg = .mint to amt ∧ s.mint = some m ∧ m.minter = snd := by
  have hi' := C01.execute_inv hi h
  exact mint_only_minter h (by rw [hi.1, hi'.1]; exact hlt)

/-- **C13, clause 2 for the tokens that exist**: instantiated with a cap `c`, the sum of all balances never
exceeds `c`, after any history. -/
theorem circulation_le_cap {m : InstMsg} {s : State} {a : AddrArg} {c : Nat} (h : instantiate m = .ok s)
    (hm : m.mint = some (a, some c)) (ops : List (Block × Addr × Msg)) : AMap.sum (run s ops).balances ≤ c := by
  have := (C01.reach_inv h ops).1
  have := supply_le_cap h hm ops
  omega

/-! ## The role moves only by its holder; renouncing is final -/

/-- **C13, clause 3**: the stored minter record changes only by an `updateMinter` sent by the current
minter; the new record is the requested (validated) address with the *old* cap, or nothing. -/
theorem update_minter_auth {s s' : State} {blk : Block} {snd : Addr} {msg : Msg} {out : List Out}
    (h : execute s blk snd msg = .ok (s', out)) (hne : s'.mint ≠ s.mint) :
    ∃ new m, msg = .updateMinter new ∧ s.mint = some m ∧ m.minter = snd
      ∧ s'.mint = new.map (fun a => ⟨a.text, m.cap⟩) := by
  rcases execute_cases h with ⟨em, _, _⟩ | ⟨_, _, _, _, _, _, em, _⟩ | ⟨new, m, he, hm, hs, _, em, _⟩
  · exact absurd em hne
  · exact absurd em hne
  · exact ⟨new, m, he, hm, hs, em⟩

/-- An `updateMinter` (also one that re-appoints the same address) succeeds only for the stored minter. -/
theorem update_minter_requires_minter {s s' : State} {blk : Block} {snd : Addr} {new : Option AddrArg} {out : List Out}
    (h : execute s blk snd (.updateMinter new) = .ok (s', out)) : ∃ m, s.mint = some m ∧ m.minter = snd := by
  rcases execute_cases h with ⟨_, _, hn⟩ | ⟨_, _, _, he, _⟩ | ⟨_, m, _, hm, hs, _⟩
  · exact absurd rfl (hn new)
  · cases he
  · exact ⟨m, hm, hs⟩

theorem step_no_minter {s : State} (blk : Block) (snd : Addr) (msg : Msg) (hm : s.mint = none) :
    (step s blk snd msg).mint = none ∧ (step s blk snd msg).supply ≤ s.supply := by
  unfold step
  split
  · rename_i s' out h
    rcases execute_cases h with ⟨em, hle, _⟩ | ⟨_, _, m, _, hm', _⟩ | ⟨_, m, _, hm', _⟩
    · exact ⟨by rw [em]; exact hm, hle⟩
    · rw [hm] at hm'; cases hm'
    · rw [hm] at hm'; cases hm'
  · exact ⟨hm, Nat.le_refl _⟩

/-- **C13, clause 4**: once no minter is stored (renounced, or never given), no history whatsoever
brings one back, and the supply never rises again. -/
theorem renounce_permanent {s : State} (hm : s.mint = none) (ops : List (Block × Addr × Msg)) :
    (run s ops).mint = none ∧ (run s ops).supply ≤ s.supply := by
  induction ops generalizing s with
  | nil => exact ⟨hm, Nat.le_refl _⟩
  | cons op rest ih =>
    obtain ⟨h1, h2⟩ := step_no_minter op.1 op.2.1 op.2.2 hm
    obtain ⟨h3, h4⟩ := ih h1
    exact ⟨h3, Nat.le_trans h4 h2⟩

/-- Instantiated without a minter: nobody can ever mint, the supply never exceeds the initial one. -/
theorem instantiate_no_minter {m : InstMsg} {s : State} (h : instantiate m = .ok s) (hm : m.mint = none)
    (ops : List (Block × Addr × Msg)) : (run s ops).mint = none ∧ (run s ops).supply ≤ s.supply :=
  renounce_permanent (by rw [instantiate_mint h, hm]; rfl) ops

/-- `migrate` writes only the cw2 version and the spender allowance map: minter record, supply and
hence `Inv13` are untouched, so the clauses above also hold for histories interleaved with migrations. -/
theorem migrate_inv13 {cap0 : Option Nat} {s s' : State} (h : migrate s = .ok s') :
    s'.mint = s.mint ∧ s'.supply = s.supply ∧ (Inv13 cap0 s → Inv13 cap0 s') := by
  unfold migrate at h
  simp at h
  obtain ⟨_, _, h⟩ := h
  split at h <;> (simp at h; subst h; exact ⟨rfl, rfl, fun hi => hi⟩)

/-! ## Exactly when a mint succeeds; nobody but the minter; renouncing as one statement -/

/-- **C13, clauses 1 + 2 as an equivalence** (under the C01 invariant `supply = Σ balances ≤ u128`): a `mint`
succeeds **iff** the sender is the stored minter, the new supply fits `Uint128`, it respects the stored cap
(if any) and the recipient validates.  Nothing else can make it fail: the recipient's balance cannot overflow
(it is part of the supply), so the room under the cap — also room made by burns — is always usable by the
minter, and by nobody else. -/
theorem mint_ok_iff {s : State} {blk : Block} {snd : Addr} {to : AddrArg} {amt : Nat} (hi : C01.Inv s) :
    (∃ r, execute s blk snd (.mint to amt) = .ok r) ↔
      ∃ m, s.mint = some m ∧ m.minter = snd ∧ s.supply + amt ≤ U128_MAX
        ∧ (∀ c, m.cap = some c → s.supply + amt ≤ c) ∧ to.valid = true := by
  constructor
  · rintro ⟨r, h⟩
    simp only [execute] at h
    unfold execMint at h
    split at h
    · simp at h
    · rename_i m hm
      simp at h
      obtain ⟨hs, hle, hcap, hv, _⟩ := h
      refine ⟨m, hm, hs, hle, ?_, hv⟩
      intro c hc; simpa [hc] using hcap
  · rintro ⟨m, hm, hs, hle, hcap, hv⟩
    have hb := AMap.get?_le_sum s.balances to.text
    have hcr : (s.balances.get? to.text).getD 0 + amt ≤ U128_MAX := by rw [← hi.1] at hb; omega
    refine ⟨({ s with supply := s.supply + amt,
                      balances := s.balances.set to.text ((s.balances.get? to.text).getD 0 + amt) }, []), ?_⟩
    simp only [execute]
    unfold execMint
    rw [hm]
    simp [hs, hle, hv, credit, hcr]
    cases hcap' : m.cap with
    | none => rfl
    | some c => simpa using hcap c hcap'

/-- An `updateMinter` by anybody but the stored minter fails (also when no minter is stored). -/
theorem update_minter_by_other_fails {s : State} {blk : Block} {snd : Addr} {new : Option AddrArg}
    (hne : ∀ m, s.mint = some m → m.minter ≠ snd) : ∃ e, execute s blk snd (.updateMinter new) = .error e := by
  cases hx : execute s blk snd (.updateMinter new) with
  | error e => exact ⟨e, rfl⟩
  | ok r =>
    obtain ⟨m, hm, hs⟩ := update_minter_requires_minter (s' := r.1) (out := r.2) hx
    exact absurd hs (hne m hm)

/-- **C13, clause 3, converse**: the stored minter can always hand the role to any validating address, or
renounce it — `updateMinter` succeeds iff the sender is the stored minter and the new address (if any)
validates. -/
theorem update_minter_ok_iff {s : State} {blk : Block} {snd : Addr} {new : Option AddrArg} :
    (∃ r, execute s blk snd (.updateMinter new) = .ok r) ↔
      (∃ m, s.mint = some m ∧ m.minter = snd) ∧ (∀ a, new = some a → a.valid = true) := by
  constructor
  · rintro ⟨r, h⟩
    rcases execute_cases (s' := r.1) (out := r.2) h with ⟨_, _, hn⟩ | ⟨_, _, _, he, _⟩ | ⟨new', m, he, hm, hs, _, _, hv⟩
    · exact absurd rfl (hn new)
    · cases he
    · cases he; exact ⟨⟨m, hm, hs⟩, hv⟩
  · rintro ⟨⟨m, hm, hs⟩, hv⟩
    simp only [execute]
    unfold execUpdateMinter
    rw [hm]
    cases new with
    | none => exact ⟨_, by simp [hs]; rfl⟩
    | some a => exact ⟨_, by simp [hs, hv a rfl]; rfl⟩

/-- **C13, clause 4 as one statement**: once no minter is stored (renounced, or never given), after **every**
later history, **every** `mint` and **every** `updateMinter` — any sender, recipient, amount (also 0), new
address, block — fails. -/
theorem renounced_all_fail {s : State} (hm : s.mint = none) (ops : List (Block × Addr × Msg))
    (blk : Block) (snd : Addr) (to : AddrArg) (amt : Nat) (new : Option AddrArg) :
    (∃ e, execute (run s ops) blk snd (.mint to amt) = .error e)
    ∧ (∃ e, execute (run s ops) blk snd (.updateMinter new) = .error e) := by
  have h0 := (renounce_permanent hm ops).1
  exact ⟨mint_by_other_fails (fun m hm' => by rw [h0] at hm'; cases hm'),
    update_minter_by_other_fails (fun m hm' => by rw [h0] at hm'; cases hm')⟩

/-- A successful `updateMinter none` (only the minter can send it) leaves no minter, hence starts the regime of
`renounced_all_fail`: nobody mints or appoints a minter ever again, the supply never rises again. -/
theorem renounce_then_all_fail {s s' : State} {blk0 : Block} {snd0 : Addr} {out : List Out}
    (h : execute s blk0 snd0 (.updateMinter none) = .ok (s', out)) (ops : List (Block × Addr × Msg))
    (blk : Block) (snd : Addr) (to : AddrArg) (amt : Nat) (new : Option AddrArg) :
    (∃ e, execute (run s' ops) blk snd (.mint to amt) = .error e)
    ∧ (∃ e, execute (run s' ops) blk snd (.updateMinter new) = .error e)
    ∧ (run s' ops).supply ≤ s.supply := by
  have hm : s'.mint = none := by
    rcases execute_cases h with ⟨_, _, hn⟩ | ⟨_, _, _, he, _⟩ | ⟨new', m, he, _, _, _, em, _⟩
    · exact absurd rfl (hn none)
    · cases he
    · cases he; rw [em]; rfl
  have hs : s'.supply = s.supply := C01.supply_delta h
  obtain ⟨a, b⟩ := renounced_all_fail hm ops blk snd to amt new
  exact ⟨a, b, by have := (renounce_permanent hm ops).2; omega⟩

/-- **Former minter loses the role**: after a successful hand-over to another address, the former minter can
neither mint (any recipient, any amount, also 0) nor move the role, at any later block. -/
theorem former_minter_fails {s s' : State} {blk : Block} {snd : Addr} {a : AddrArg} {out : List Out}
    (h : execute s blk snd (.updateMinter (some a)) = .ok (s', out)) (hne : a.text ≠ snd)
    (blk' : Block) (to : AddrArg) (amt : Nat) (new : Option AddrArg) :
    (∃ e, execute s' blk' snd (.mint to amt) = .error e)
    ∧ (∃ e, execute s' blk' snd (.updateMinter new) = .error e) := by
  have hm : ∃ c, s'.mint = some ⟨a.text, c⟩ := by
    rcases execute_cases h with ⟨_, _, hn⟩ | ⟨_, _, _, he, _⟩ | ⟨new', m, he, _, _, _, em, _⟩
    · exact absurd rfl (hn (some a))
    · cases he
    · cases he; exact ⟨m.cap, by rw [em]; rfl⟩
  obtain ⟨c, hm⟩ := hm
  have hno : ∀ m, s'.mint = some m → m.minter ≠ snd := by
    intro m hm'; rw [hm] at hm'; cases hm'; exact hne
  exact ⟨mint_by_other_fails hno, update_minter_by_other_fails hno⟩

/-- … and keeps failing over every later history in which the role does not come back to it: if after the
history the stored minter (if any) is somebody else, the former minter's `mint` and `updateMinter` fail.
(The role can come back only by an `updateMinter` of the then-current minter: `update_minter_auth`.) -/
theorem non_minter_fails_after (s : State) (ops : List (Block × Addr × Msg)) (snd : Addr)
    (hne : ∀ m, (run s ops).mint = some m → m.minter ≠ snd) (blk : Block) (to : AddrArg) (amt : Nat)
    (new : Option AddrArg) :
    (∃ e, execute (run s ops) blk snd (.mint to amt) = .error e)
    ∧ (∃ e, execute (run s ops) blk snd (.updateMinter new) = .error e) :=
  ⟨mint_by_other_fails hne, update_minter_by_other_fails hne⟩

/-- **Minted ledger vs. cap**: instantiated with cap `c`, over any history the initial supply plus everything
ever minted stays within the cap plus everything ever burned (`C01.supply_ledger` + `supply_le_cap`): burns,
and only burns, make room for further mints. -/
theorem minted_within_cap {m : InstMsg} {s : State} {a : AddrArg} {c : Nat} (h : instantiate m = .ok s)
    (hm : m.mint = some (a, some c)) (ops : List (Block × Addr × Msg)) :
    s.supply + C01.minted s ops ≤ c + C01.burned s ops := by
  have h1 := C01.supply_ledger s ops
  have h2 := supply_le_cap h hm ops
  omega

/-! ## Histories that contain migrations -/

open CwPlus.Props.C19 (Op stepOp runOps) in
theorem stepOp_inv13 {cap0 : Option Nat} {s : State} (op : Op) (hi : Inv13 cap0 s) : Inv13 cap0 (stepOp s op) := by
  cases op with
  | exec blk snd msg => exact step_inv13 blk snd msg hi
  | migrate =>
    obtain ⟨_, h2, h3, _⟩ := Cw20Mixed.stepOp_migrate_frame s
    unfold Inv13 at *; rw [h2, h3]; exact hi

open CwPlus.Props.C19 (Op stepOp runOps) in
theorem runOps_inv13 {cap0 : Option Nat} {s : State} (hi : Inv13 cap0 s) (ops : List Op) :
    Inv13 cap0 (runOps s ops) := by
  induction ops generalizing s with
  | nil => exact hi
  | cons op rest ih => exact ih (stepOp_inv13 op hi)

open CwPlus.Props.C19 (Op stepOp runOps) in
/-- **C13, clause 2 over histories with migrations**: after any accepted instantiation and any history of
execute calls and `migrate` calls in any order, every holder of the minter role carries the cap of the
instantiate message and the supply does not exceed it. -/
theorem reach_cap_mixed {m : InstMsg} {s : State} (h : instantiate m = .ok s) (ops : List Op) :
    Inv13 (instCap m) (runOps s ops) :=
  runOps_inv13 (instantiate_inv13 h) ops

open CwPlus.Props.C19 (Op stepOp runOps) in
/-- Readable corollary, also for the tokens that exist: with cap `c`, supply and Σ balances stay ≤ `c` over
every mixed history. -/
theorem supply_le_cap_mixed {m : InstMsg} {s : State} {a : AddrArg} {c : Nat} (h : instantiate m = .ok s)
    (hm : m.mint = some (a, some c)) (ops : List Op) :
    (runOps s ops).supply ≤ c ∧ AMap.sum (runOps s ops).balances ≤ c := by
  have h1 := (reach_cap_mixed h ops).2 c (by simp [instCap, hm])
  have h2 := (Cw20Mixed.reach_inv_mixed h ops).1
  exact ⟨h1, by omega⟩

open CwPlus.Props.C19 (Op stepOp runOps) in
/-- **C13, clause 4 over histories with migrations**: once no minter is stored, no history of execute and
`migrate` calls brings one back, the supply never rises, and every `mint` / `updateMinter` afterwards fails. -/
theorem renounce_permanent_mixed {s : State} (hm : s.mint = none) (ops : List Op) :
    (runOps s ops).mint = none ∧ (runOps s ops).supply ≤ s.supply
    ∧ ∀ blk snd to amt new,
      (∃ e, execute (runOps s ops) blk snd (.mint to amt) = .error e)
      ∧ (∃ e, execute (runOps s ops) blk snd (.updateMinter new) = .error e) := by
  have key : (runOps s ops).mint = none ∧ (runOps s ops).supply ≤ s.supply := by
    induction ops generalizing s with
    | nil => exact ⟨hm, Nat.le_refl _⟩
    | cons op rest ih =>
      have hstep : (stepOp s op).mint = none ∧ (stepOp s op).supply ≤ s.supply := by
        cases op with
        | exec blk snd msg => exact step_no_minter blk snd msg hm
        | migrate =>
          obtain ⟨_, h2, h3, _⟩ := Cw20Mixed.stepOp_migrate_frame s
          exact ⟨by rw [h3]; exact hm, by omega⟩
      obtain ⟨h3, h4⟩ := ih hstep.1
      exact ⟨h3, Nat.le_trans h4 hstep.2⟩
  refine ⟨key.1, key.2, fun blk snd to amt new => ?_⟩
  exact ⟨mint_by_other_fails (fun m hm' => by rw [key.1] at hm'; cases hm'),
    update_minter_by_other_fails (fun m hm' => by rw [key.1] at hm'; cases hm')⟩

open CwPlus.Props.C19 (Op stepOp runOps) in
/-- Clause 1 over mixed histories: a `migrate` never raises the supply (so tokens are created only by the
`mint` calls of `mint_only_minter`), and never changes who the minter is. -/
theorem migrate_never_mints (s : State) :
    (stepOp s .migrate).supply = s.supply ∧ (stepOp s .migrate).mint = s.mint
    ∧ AMap.sum (stepOp s .migrate).balances = AMap.sum s.balances := by
  obtain ⟨h1, h2, h3, _⟩ := Cw20Mixed.stepOp_migrate_frame s
  exact ⟨h2, h3, by rw [h1]⟩

/-! ## Non-vacuity: concrete histories exercising every clause -/

/-- 125 tokens initially, minter `minter` with cap 200. -/
def exInst : InstMsg :=
  { name := "Token", symbol := "TKN", decimals := 6,
    initial := [(⟨true, "alice"⟩, 100), (⟨true, "bob"⟩, 25)],
    mint := some (⟨true, "minter"⟩, some 200) }

def exState : State :=
  { supply := 125, mint := some ⟨"minter", some 200⟩, balances := [("alice", 100), ("bob", 25)],
    allow := [], allowSp := [], version := ⟨CONTRACT_NAME, 2, 0, 0, none⟩ }

def exBlk : Block := ⟨100, 5000⟩

/-- mint to exactly the cap; burn makes room; hand-over to `m2`; re-mint into the room by `m2`;
second hand-over to `m3`. -/
def exOps : List (Block × Addr × Msg) :=
  [ (exBlk, "minter", .mint ⟨true, "carol"⟩ 75),
    (exBlk, "alice", .burn 50),
    (exBlk, "minter", .updateMinter (some ⟨true, "m2"⟩)),
    (exBlk, "m2", .mint ⟨true, "bob"⟩ 50),
    (exBlk, "m2", .updateMinter (some ⟨true, "m3"⟩)) ]

example : instantiate exInst = .ok exState := by rfl
example : instCap exInst = some 200 := by rfl

/-- The supply reaches the cap twice (200 → 150 → 200) and the cap survives two hand-overs. -/
example : (run exState (exOps.take 1)).supply = 200 ∧ (run exState (exOps.take 2)).supply = 150
    ∧ (run exState exOps).supply = 200 ∧ (run exState exOps).mint = some ⟨"m3", some 200⟩ := by decide

/-- At the cap: one more token is refused, also for the rightful minter; a former minter, a stranger
and a former minter trying `updateMinter` are refused; the current minter may mint 0. -/
example : let s := run exState exOps
    (execute s exBlk "m3" (.mint ⟨true, "bob"⟩ 1)).isOk = false
    ∧ (execute s exBlk "m3" (.mint ⟨true, "bob"⟩ 0)).isOk = true
    ∧ (execute s exBlk "minter" (.mint ⟨true, "bob"⟩ 0)).isOk = false
    ∧ (execute s exBlk "m2" (.mint ⟨true, "bob"⟩ 0)).isOk = false
    ∧ (execute s exBlk "alice" (.mint ⟨true, "alice"⟩ 0)).isOk = false
    ∧ (execute s exBlk "m2" (.updateMinter (some ⟨true, "m2"⟩))).isOk = false
    ∧ (execute s exBlk "alice" (.updateMinter none)).isOk = false := by decide

/-- `mint_only_minter`'s hypotheses are satisfiable: a successful call that raises the supply. -/
example : ∃ s' out, execute exState exBlk "minter" (.mint ⟨true, "carol"⟩ 75) = .ok (s', out)
    ∧ exState.supply < s'.supply := ⟨_, _, rfl, by decide⟩

/-- `update_minter_auth`'s hypotheses are satisfiable: a successful call that changes the record. -/
example : ∃ s' out, execute exState exBlk "minter" (.updateMinter (some ⟨true, "m2"⟩)) = .ok (s', out)
    ∧ s'.mint ≠ exState.mint := ⟨_, _, rfl, by decide⟩

/-- Renouncing: afterwards `mint = none` (the hypothesis of `renounce_permanent`), and the last
minter, the first minter and strangers can neither mint nor appoint a minter. -/
example : let s := run exState (exOps ++ [(exBlk, "m3", .updateMinter none)])
    s.mint = none
    ∧ (execute s exBlk "m3" (.mint ⟨true, "bob"⟩ 0)).isOk = false
    ∧ (execute s exBlk "m3" (.updateMinter (some ⟨true, "m3"⟩))).isOk = false
    ∧ (execute s exBlk "minter" (.updateMinter (some ⟨true, "minter"⟩))).isOk = false
    ∧ (execute s exBlk "alice" (.burn 10)).isOk = true := by decide

/-- A token without minter is accepted (hypotheses of `instantiate_no_minter`), and one with a cap
below the initial supply is rejected, one with cap = initial supply accepted. -/
example : (instantiate { exInst with mint := none }).isOk = true
    ∧ (instantiate { exInst with mint := some (⟨true, "minter"⟩, some 124) }).isOk = false
    ∧ (instantiate { exInst with mint := some (⟨true, "minter"⟩, some 125) }).isOk = true
    ∧ (instantiate { exInst with mint := some (⟨true, "minter"⟩, none) }).isOk = true := by decide

example : Inv13 (some 200) (run exState exOps) := reach_cap (m := exInst) rfl exOps


/-! ### Non-vacuity of the added theorems -/

/-- `mint_ok_iff` on the example: at supply 125 / cap 200 the minter can mint exactly up to 75 and not 76; a
stranger cannot mint 0. -/
example : (∃ r, execute exState exBlk "minter" (.mint ⟨true, "carol"⟩ 75) = .ok r)
    ∧ ¬ (∃ r, execute exState exBlk "minter" (.mint ⟨true, "carol"⟩ 76) = .ok r)
    ∧ ¬ (∃ r, execute exState exBlk "alice" (.mint ⟨true, "carol"⟩ 0) = .ok r) := by
  have hi : C01.Inv exState := C01.reach_inv (m := exInst) rfl []
  refine ⟨(mint_ok_iff hi).mpr ⟨_, rfl, rfl, by decide, by intro c hc; cases hc; decide, rfl⟩, ?_, ?_⟩
  · intro h
    obtain ⟨m, hm, _, _, hcap, _⟩ := (mint_ok_iff hi).mp h
    cases hm
    exact absurd (hcap 200 rfl) (by decide)
  · intro h
    obtain ⟨m, hm, hs, _⟩ := (mint_ok_iff hi).mp h
    cases hm
    exact absurd hs (by decide)

/-- `former_minter_fails`: the first hand-over of the example history (minter → m2). -/
example : ∃ s' out, execute (run exState (exOps.take 2)) exBlk "minter" (.updateMinter (some ⟨true, "m2"⟩)) = .ok (s', out)
    ∧ (⟨true, "m2"⟩ : AddrArg).text ≠ "minter" := ⟨_, _, rfl, by decide⟩

/-- `renounced_all_fail` / `renounce_then_all_fail`: the renouncing call of the example succeeds, so the
theorem applies to every history after it. -/
example : ∃ s' out, execute (run exState exOps) exBlk "m3" (.updateMinter none) = .ok (s', out) ∧ s'.mint = none :=
  ⟨_, _, rfl, rfl⟩

/-- `minted_within_cap` on the example history: 125 + (75 + 50) ≤ 200 + 50. -/
example : C01.minted exState exOps = 125 ∧ C01.burned exState exOps = 50 := ⟨by rfl, by rfl⟩
example : exState.supply + C01.minted exState exOps ≤ 200 + C01.burned exState exOps :=
  minted_within_cap (m := exInst) (a := ⟨true, "minter"⟩) rfl rfl exOps

/-- A mixed history: mint, migrate, hand-over, migrate, mint by the new minter up to the cap, renounce, and a
final migrate; cap and clauses hold throughout (`reach_cap_mixed`, `renounce_permanent_mixed`). -/
def exMixed : List C19.Op :=
  [ .exec exBlk "minter" (.mint ⟨true, "carol"⟩ 25), .migrate,
    .exec exBlk "minter" (.updateMinter (some ⟨true, "m2"⟩)), .migrate,
    .exec exBlk "m2" (.mint ⟨true, "bob"⟩ 50), .exec exBlk "m2" (.updateMinter none), .migrate ]

example : (C19.runOps exState exMixed).supply = 200 ∧ (C19.runOps exState exMixed).mint = none := by decide
example : Inv13 (some 200) (C19.runOps exState exMixed) := reach_cap_mixed (m := exInst) rfl exMixed
example : (C19.runOps exState (exMixed.take 5)).mint = some ⟨"m2", some 200⟩ := by decide

end CwPlus.Props.C13
