import CwPlus.Model.Pkg
import CwPlus.Lemmas.Json
/-!
# Theorems about the library / helper code of `/repo/packages` (`Model/Pkg.lean`)

All statements are over all inputs.  Sections: `Amount` (cw20-ics20 `amount.rs`), `Cw20Coin`, `Balance`
(with `NativeBalance::normalize` including its overflow panic), `Denom` / `UncheckedDenom::into_checked`,
the message builders, the query wrappers.  `example`s show the hypotheses are satisfiable and pin the surprising
cases on concrete values.
-/
namespace CwPlus.Props.Pkg
open CwPlus.Pkg
open CwPlus CwPlus.Json NativeBalance

/-! ## `Amount` -/

/-- `u64_amount` succeeds exactly when the amount is below `2^64`, and then returns the amount unchanged. -/
theorem u64Amount_ok_iff (x : Amount) (n : Nat) : x.u64Amount = .ok n ↔ (x.amount < 2 ^ 64 ∧ n = x.amount) := by
  unfold Amount.u64Amount
  have := U64_MAX_eq
  split <;> simp <;> omega

/-- `u64_amount` fails exactly from `2^64` on. -/
theorem u64Amount_error_iff (x : Amount) : (∃ e, x.u64Amount = .error e) ↔ 2 ^ 64 ≤ x.amount := by
  unfold Amount.u64Amount
  have := U64_MAX_eq
  split <;> simp <;> omega

/-- the `cw20:` prefix test, as an equation between strings -/
theorem stripCw20_eq_some_iff (s r : String) : stripCw20 s = some r ↔ s = "cw20:" ++ r := by
  unfold stripCw20
  constructor
  · intro h
    split at h
    · rename_i rest heq
      simp at h; subst h
      apply String.toList_inj.mp
      simp [String.toList_append, heq]
    · simp at h
  · intro h
    subst h
    have : ("cw20:" ++ r).toList = 'c' :: 'w' :: '2' :: '0' :: ':' :: r.toList := by
      rw [String.toList_append]; rfl
    simp [this, String.ofList_toList]

/-- `denom()` undoes `from_parts` on the denom, for every string (also `"cw20:"` itself, also the empty string). -/
theorem denom_fromParts (d : String) (a : Nat) : (Amount.fromParts d a).denom = d := by
  unfold Amount.fromParts
  split
  · rename_i addr h
    exact ((stripCw20_eq_some_iff d addr).mp h).symm
  · rfl

/-- `amount()` undoes `from_parts` on the amount. -/
theorem amount_fromParts (d : String) (a : Nat) : (Amount.fromParts d a).amount = a := by
  unfold Amount.fromParts; split <;> rfl

/-- `from_parts` is injective: the pair (denom, amount) can be recovered from the `Amount`. -/
theorem fromParts_injective (d d' : String) (a a' : Nat) (h : Amount.fromParts d a = Amount.fromParts d' a') :
    d = d' ∧ a = a' := by
  have h1 := congrArg Amount.denom h
  have h2 := congrArg Amount.amount h
  simp only [denom_fromParts, amount_fromParts] at h1 h2
  exact ⟨h1, h2⟩

/-- A cw20 amount always survives `from_parts(denom(), amount())` … -/
theorem fromParts_roundtrip_cw20 (addr : String) (a : Nat) :
    Amount.fromParts (Amount.cw20 addr a).denom (Amount.cw20 addr a).amount = .cw20 addr a := by
  have : stripCw20 ("cw20:" ++ addr) = some addr := (stripCw20_eq_some_iff _ _).mpr rfl
  simp [Amount.fromParts, Amount.denom, Amount.amount, this]

/-- … a native amount survives it exactly when its denom does not start with `cw20:`.  `Amount::native(5, "cw20:abc")`
comes back as the cw20 coin `abc` (its `denom()` is indistinguishable from that of `Amount::cw20(5, "abc")`). -/
theorem fromParts_roundtrip_native_iff (d : String) (a : Nat) :
    Amount.fromParts (Amount.native d a).denom (Amount.native d a).amount = .native d a ↔ stripCw20 d = none := by
  simp only [Amount.denom, Amount.amount, Amount.fromParts]
  split <;> simp_all

/-- the collision behind it: the two constructors can produce the same `denom()` -/
theorem denom_collision (addr : String) (a : Nat) :
    (Amount.native ("cw20:" ++ addr) a).denom = (Amount.cw20 addr a).denom := rfl

/-- `is_empty` is "amount = 0" for both variants. -/
theorem amount_isEmpty_iff (x : Amount) : x.isEmpty = true ↔ x.amount = 0 := by
  simp [Amount.isEmpty]

theorem isEmpty_fromParts (d : String) (a : Nat) : (Amount.fromParts d a).isEmpty = true ↔ a = 0 := by
  rw [amount_isEmpty_iff, amount_fromParts]

/-- an empty amount always fits `u64` -/
theorem u64Amount_of_isEmpty (x : Amount) (h : x.isEmpty = true) : x.u64Amount = .ok 0 := by
  rw [amount_isEmpty_iff] at h
  exact (u64Amount_ok_iff x 0).mpr ⟨by omega, h.symm⟩

example : (Amount.fromParts "cw20:wasm1abc" 7) = .cw20 "wasm1abc" 7 := by decide
example : (Amount.fromParts "uatom" 7) = .native "uatom" 7 := by decide
example : (Amount.fromParts "cw20:" 0) = .cw20 "" 0 := by decide
example : (Amount.fromParts "CW20:x" 1) = .native "CW20:x" 1 := by decide
example : Amount.fromParts (Amount.native "cw20:abc" 5).denom 5 = .cw20 "abc" 5 := by decide
example : (Amount.native "x" 18446744073709551615).u64Amount = .ok 18446744073709551615 := by decide
example : (Amount.native "x" 18446744073709551616).u64Amount = .error "u64.overflow" := by decide

/-! ## `Cw20Coin` / `Cw20CoinVerified` -/

theorem coin_isEmpty_iff (c : Cw20Coin) : c.isEmpty = true ↔ c.amount = 0 := by
  simp [Cw20Coin.isEmpty]

example : (Cw20Coin.mk "sender" 0).display = "address: sender, amount: 0" := by decide
example : (Cw20Coin.mk "" 340282366920938463463374607431768211455).isEmpty = false := by decide

/-! ## `Balance` -/

/-- A native balance is empty when every coin has amount zero — in particular the empty vector, but also
`[0uatom, 0ucosm]`. -/
theorem native_isEmpty_iff (b : NativeBalance) : (Balance.native b).isEmpty = true ↔ ∀ c ∈ b, c.2 = 0 := by
  simp [Balance.isEmpty, NativeBalance.isEmpty]

/-- … equivalently: no denom has a positive total. -/
theorem native_isEmpty_iff_total (b : NativeBalance) : (Balance.native b).isEmpty = true ↔ ∀ d, total b d = 0 := by
  rw [native_isEmpty_iff]
  induction b with
  | nil => simp
  | cons c rest ih =>
    obtain ⟨d', a⟩ := c
    simp only [List.mem_cons, forall_eq_or_imp, total]
    constructor
    · rintro ⟨h0, hr⟩ d
      have := ih.mp hr d
      have h0' : a = 0 := h0
      subst h0'; simp [this]
    · intro h
      have h0 := h d'
      have h0' : a = 0 := by simp at h0; exact h0.1
      refine ⟨h0', ih.mpr fun d => ?_⟩
      have := h d
      omega

theorem cw20_isEmpty_iff (c : Cw20Coin) : (Balance.cw20 c).isEmpty = true ↔ c.amount = 0 := by
  simp [Balance.isEmpty, Cw20Coin.isEmpty]

theorem default_isEmpty : Balance.default.isEmpty = true := rfl

/-- `Balance::from(coins)` keeps the vector as given: nothing is sorted, merged or dropped. -/
theorem ofCoins_eq (cs : List Coin) : Balance.ofCoins cs = .native cs := rfl

/-- `normalize` leaves a cw20 balance alone and never fails on it. -/
theorem normalize_cw20 (c : Cw20Coin) : (Balance.cw20 c).normalize = .ok (.cw20 c) := rfl

/-! ### `normalize` -/

theorem mergeRight_total {l r : NativeBalance} (h : mergeRight l = .ok r) (d : String) : total r d = total l d := by
  induction l generalizing r with
  | nil => simp [mergeRight] at h; subst h; rfl
  | cons c rest ih =>
    obtain ⟨d1, a1⟩ := c
    unfold mergeRight at h
    split at h
    · simp at h
    · rename_i h0
      simp at h; subst h
      have := ih h0
      simp [total] at this ⊢; omega
    · rename_i d2 a2 r2 h0
      have e := ih h0
      split at h
      · rename_i heq
        split at h
        · simp at h; subst h
          simp only [] at heq; subst heq
          simp [total] at e ⊢; split <;> simp_all <;> omega
        · simp at h
      · simp at h; subst h
        simp [total] at e ⊢; omega

theorem total_filter_nonzero (b : NativeBalance) (d : String) : total (b.filter (fun c => c.2 ≠ 0)) d = total b d := by
  induction b with
  | nil => rfl
  | cons c rest ih =>
    obtain ⟨d', a⟩ := c
    rw [List.filter_cons]
    split
    · simp only [total]; rw [ih]
    · rename_i h
      have : a = 0 := by simpa using h
      simp only [total]; rw [ih]; simp [this]

theorem total_perm {l l' : NativeBalance} (h : l.Perm l') (d : String) : total l d = total l' d := by
  induction h with
  | nil => rfl
  | cons x _ ih => obtain ⟨d', a⟩ := x; simp [total, ih]
  | swap x y l => obtain ⟨d1, a1⟩ := x; obtain ⟨d2, a2⟩ := y; simp [total]; omega
  | trans _ _ ih1 ih2 => rw [ih1, ih2]

/-- `normalize` preserves what is held of every denom: the total per denom is unchanged (zeros dropped,
duplicates summed, nothing lost). -/
theorem normalize_total {b b' : NativeBalance} (h : normalizeNative b = .ok b') (d : String) : total b' d = total b d := by
  unfold normalizeNative at h
  rw [mergeRight_total h d, total_perm (List.mergeSort_perm _ _) d, total_filter_nonzero]

/-- Emptiness is invariant under `normalize`. -/
theorem normalize_isEmpty {b b' : NativeBalance} (h : normalizeNative b = .ok b') :
    (Balance.native b').isEmpty = (Balance.native b).isEmpty := by
  rw [Bool.eq_iff_iff, native_isEmpty_iff_total, native_isEmpty_iff_total]
  simp only [normalize_total h]

/-- The overflow panic of `normalize`, sufficient condition: when no denom's total exceeds `u128::MAX` the merge
loop does not panic. -/
theorem mergeRight_ok_of_totals (l : NativeBalance) (h : ∀ d, total l d ≤ U128_MAX) : ∃ r, mergeRight l = .ok r := by
  induction l with
  | nil => exact ⟨[], rfl⟩
  | cons c rest ih =>
    obtain ⟨d1, a1⟩ := c
    have hrest : ∀ d, total rest d ≤ U128_MAX := fun d => by have := h d; simp [total] at this; omega
    obtain ⟨r, hr⟩ := ih hrest
    unfold mergeRight
    rw [hr]
    match r, hr with
    | [], _ => exact ⟨_, rfl⟩
    | (d2, a2) :: r2, hr =>
      simp only []
      split
      · rename_i heq
        subst heq
        have e := mergeRight_total hr d1
        have := h d1
        simp [total] at e this
        have : a1 + a2 ≤ U128_MAX := by omega
        simp [this]
      · exact ⟨_, rfl⟩

/-- `normalize` succeeds whenever every denom's total fits `u128` … -/
theorem normalize_ok_of_totals (b : NativeBalance) (h : ∀ d, total b d ≤ U128_MAX) : ∃ b', normalizeNative b = .ok b' := by
  unfold normalizeNative
  apply mergeRight_ok_of_totals
  intro d
  rw [total_perm (List.mergeSort_perm _ _) d, total_filter_nonzero]
  exact h d

/-- … an empty balance (all amounts zero) normalises to the empty vector. -/
theorem normalize_of_isEmpty (b : NativeBalance) (h : (Balance.native b).isEmpty = true) :
    (Balance.native b).normalize = .ok (.native []) := by
  rw [native_isEmpty_iff] at h
  have : b.filter (fun c => c.2 ≠ 0) = [] := by
    rw [List.filter_eq_nil_iff]; intro c hc; simp [h c hc]
  simp only [Balance.normalize, normalizeNative]
  rw [this]
  simp [mergeRight, Except.map]

/-- the merge loop yields no zero coin from non-zero coins -/
theorem mergeRight_nonzero {l r : NativeBalance} (hl : ∀ c ∈ l, c.2 ≠ 0) (h : mergeRight l = .ok r) : ∀ c ∈ r, c.2 ≠ 0 := by
  induction l generalizing r with
  | nil => simp [mergeRight] at h; subst h; simp
  | cons c rest ih =>
    obtain ⟨d1, a1⟩ := c
    have h1 : a1 ≠ 0 := hl (d1, a1) (by simp)
    have hrest : ∀ c ∈ rest, c.2 ≠ 0 := fun c hc => hl c (by simp [hc])
    unfold mergeRight at h
    split at h
    · simp at h
    · simp at h; subst h; simpa using h1
    · rename_i d2 a2 r2 h0
      have e := ih hrest h0
      split at h
      · split at h
        · simp at h; subst h
          intro c hc
          simp at hc
          rcases hc with rfl | hc
          · simp; omega
          · exact e c (by simp [hc])
        · simp at h
      · simp at h; subst h
        intro c hc
        simp at hc
        rcases hc with rfl | rfl | hc
        · exact h1
        · exact e _ (by simp)
        · exact e c (by simp [hc])

/-- After a successful `normalize` no coin has amount zero, hence `is_empty` ⇔ "the vector is empty". -/
theorem normalize_nonzero {b b' : NativeBalance} (h : normalizeNative b = .ok b') : ∀ c ∈ b', c.2 ≠ 0 := by
  unfold normalizeNative at h
  refine mergeRight_nonzero ?_ h
  intro c hc
  have := (List.mergeSort_perm _ _).mem_iff.mp hc
  simpa using (List.mem_filter.mp this).2

theorem normalize_isEmpty_iff_nil {b b' : NativeBalance} (h : normalizeNative b = .ok b') :
    (Balance.native b').isEmpty = true ↔ b' = [] := by
  rw [native_isEmpty_iff]
  constructor
  · intro h0
    match b', h, h0 with
    | [], _, _ => rfl
    | c :: _, h, h0 => exact absurd (h0 c (by simp)) (normalize_nonzero h c (by simp))
  · rintro rfl; simp

/-- the merge loop on a denom-sorted vector yields strictly increasing denoms (so: no duplicate denom), and its first
denom is the input's first denom -/
theorem mergeRight_sorted {l r : NativeBalance} (hs : l.Pairwise (fun x y => x.1 ≤ y.1)) (h : mergeRight l = .ok r) :
    r.Pairwise (fun x y => x.1 < y.1) ∧ (∀ x ∈ r, ∃ y ∈ l, y.1 = x.1) := by
  induction l generalizing r with
  | nil => simp [mergeRight] at h; subst h; simp
  | cons c rest ih =>
    obtain ⟨d1, a1⟩ := c
    rw [List.pairwise_cons] at hs
    obtain ⟨hhead, hs'⟩ := hs
    unfold mergeRight at h
    split at h
    · simp at h
    · simp at h; subst h; simp
    · rename_i d2 a2 r2 h0
      obtain ⟨ps, sub⟩ := ih hs' h0
      rw [List.pairwise_cons] at ps
      split at h
      · rename_i heq
        simp only [] at heq
        split at h
        · simp at h; subst h
          subst heq
          refine ⟨List.pairwise_cons.mpr ⟨fun x hx => ps.1 x hx, ps.2⟩, ?_⟩
          intro x hx
          simp at hx
          rcases hx with rfl | hx
          · exact ⟨(d1, a1), by simp, rfl⟩
          · obtain ⟨y, hy, e⟩ := sub x (by simp [hx])
            exact ⟨y, by simp [hy], e⟩
        · simp at h
      · rename_i hne
        simp only [] at hne
        simp at h; subst h
        have hd : d1 < d2 := by
          obtain ⟨y, hy, e⟩ := sub (d2, a2) (by simp)
          have := hhead y hy
          rw [e] at this
          exact Std.lt_of_le_of_ne this hne
        refine ⟨List.pairwise_cons.mpr ⟨?_, List.pairwise_cons.mpr ps⟩, ?_⟩
        · intro x hx
          simp at hx
          rcases hx with rfl | hx
          · exact hd
          · exact Std.lt_trans hd (ps.1 x hx)
        · intro x hx
          simp at hx
          rcases hx with rfl | rfl | hx
          · exact ⟨(d1, a1), by simp, rfl⟩
          · obtain ⟨y, hy, e⟩ := sub (d2, a2) (by simp)
            exact ⟨y, by simp [hy], e⟩
          · obtain ⟨y, hy, e⟩ := sub x (by simp [hx])
            exact ⟨y, by simp [hy], e⟩

/-- After a successful `normalize` the denoms are strictly increasing: sorted, and no denom occurs twice. -/
theorem normalize_sorted {b b' : NativeBalance} (h : normalizeNative b = .ok b') :
    b'.Pairwise (fun x y => x.1 < y.1) := by
  unfold normalizeNative at h
  refine (mergeRight_sorted ?_ h).1
  have := List.pairwise_mergeSort (le := fun (x y : Coin) => decide (x.1 ≤ y.1))
    (fun a b c hab hbc => by simp at hab hbc ⊢; exact String.le_trans hab hbc)
    (fun a b => by simp; exact String.le_total a.1 b.1)
    (b.filter (fun c => c.2 ≠ 0))
  exact this.imp (by simp)

/-- the merge loop keeps amounts within `u128` (merged sums are checked, the others are inputs) -/
theorem mergeRight_le {l r : NativeBalance} (hl : ∀ c ∈ l, c.2 ≤ U128_MAX) (h : mergeRight l = .ok r) :
    ∀ c ∈ r, c.2 ≤ U128_MAX := by
  induction l generalizing r with
  | nil => simp [mergeRight] at h; subst h; simp
  | cons c rest ih =>
    obtain ⟨d1, a1⟩ := c
    have h1 : a1 ≤ U128_MAX := hl (d1, a1) (by simp)
    have hrest : ∀ c ∈ rest, c.2 ≤ U128_MAX := fun c hc => hl c (by simp [hc])
    unfold mergeRight at h
    split at h
    · simp at h
    · simp at h; subst h; simpa using h1
    · rename_i d2 a2 r2 h0
      have e := ih hrest h0
      split at h
      · split at h
        · rename_i hle
          simp at h; subst h
          intro c hc
          simp at hc
          rcases hc with rfl | hc
          · exact hle
          · exact e c (by simp [hc])
        · simp at h
      · simp at h; subst h
        intro c hc
        simp at hc
        rcases hc with rfl | rfl | hc
        · exact h1
        · exact e _ (by simp)
        · exact e c (by simp [hc])

theorem find?_mem {b : NativeBalance} {d : String} {a : Nat} (h : find? b d = some a) : (d, a) ∈ b := by
  fun_induction find? b d <;> grind

/-- **When does `normalize` panic?**  For a vector of `Uint128` amounts: exactly when the total of some denom
exceeds `u128::MAX` (the order of the coins, zero coins and the other denoms do not matter). -/
theorem normalize_ok_iff (b : NativeBalance) (hb : ∀ c ∈ b, c.2 ≤ U128_MAX) :
    (∃ b', normalizeNative b = .ok b') ↔ ∀ d, total b d ≤ U128_MAX := by
  constructor
  · rintro ⟨b', h⟩ d
    rw [← normalize_total h d]
    have hu : UniqueDenoms b' := by
      unfold UniqueDenoms denoms
      rw [List.nodup_iff_pairwise_ne, List.pairwise_map]
      exact (normalize_sorted h).imp (fun hlt heq => by rw [heq] at hlt; exact String.lt_irrefl _ hlt)
    rw [total_eq_find?_of_unique hu d]
    cases hf : find? b' d with
    | none => simp
    | some a =>
      have hle : ∀ c ∈ b', c.2 ≤ U128_MAX := by
        have h' := h
        unfold normalizeNative at h'
        refine mergeRight_le ?_ h'
        intro c hc
        have := (List.mergeSort_perm _ _).mem_iff.mp hc
        exact hb c (List.mem_filter.mp this).1
      simpa using hle (d, a) (find?_mem hf)
  · exact normalize_ok_of_totals b

/-- `Balance::normalize`, summary: on success the result is a native balance with the same total of every denom,
no zero coin and strictly increasing denoms. -/
theorem balance_normalize_spec {b : NativeBalance} {x : Balance} (h : (Balance.native b).normalize = .ok x) :
    ∃ b', x = .native b' ∧ (∀ d, total b' d = total b d) ∧ (∀ c ∈ b', c.2 ≠ 0) ∧ b'.Pairwise (fun x y => x.1 < y.1) := by
  simp only [Balance.normalize] at h
  cases hn : normalizeNative b with
  | error e => simp [hn, Except.map] at h
  | ok b' =>
    simp [hn, Except.map] at h
    exact ⟨b', h.symm, normalize_total hn, normalize_nonzero hn, normalize_sorted hn⟩

/-- the panic is real: two coins of one denom whose sum is `2^128` -/
example : (Balance.ofCoins [("a", 340282366920938463463374607431768211455), ("a", 1)]).normalize = .error "overflow.u128" := by
  simp [Balance.ofCoins, Balance.normalize, normalizeNative, List.mergeSort, mergeRight, Except.map, U128_MAX]
example : (Balance.ofCoins [("a", 340282366920938463463374607431768211454), ("b", 5), ("a", 1)]).normalize
    = .ok (.native [("a", 340282366920938463463374607431768211455), ("b", 5)]) := by
  simp [Balance.ofCoins, Balance.normalize, normalizeNative, List.mergeSort, mergeRight, Except.map, U128_MAX]
example : (Balance.ofCoins [("b", 1), ("a", 0), ("a", 2), ("b", 3)]).normalize = .ok (.native [("a", 2), ("b", 4)]) := by
  simp [Balance.ofCoins, Balance.normalize, normalizeNative, List.mergeSort, mergeRight, Except.map, U128_MAX]
/-- `[0uatom]` is empty but is not the default balance (derived `PartialEq` tells them apart) -/
example : (Balance.ofCoins [("uatom", 0)]).isEmpty = true ∧ Balance.ofCoins [("uatom", 0)] ≠ Balance.default := by decide
/-- `Display for NativeBalance` has no separator: different balances print the same text -/
example : (Balance.native [("a1", 2)]).display = (Balance.native [("a", 12)]).display := by decide
example : (Balance.native [("uatom", 1), ("ucosm", 2)]).display = "uatom1ucosm2" := by decide
example : Balance.default.display = "" := by decide

/-! ## `Denom`, `UncheckedDenom::into_checked` -/

theorem denom_isEmpty_iff (d : Denom) : d.isEmpty = true ↔ (d = .native "" ∨ d = .cw20 "") := by
  cases d <;> simp [Denom.isEmpty]

theorem denom_default_isEmpty : Denom.default.isEmpty = true := by decide

/-- A native denom is never checked: `into_checked` returns it for every string (the empty one included), whatever
the address validity flag and whatever the chain answers. -/
theorem intoChecked_native (s : String) (valid : Bool) (r : Reply) :
    (UncheckedDenom.native s).intoChecked valid r = .ok (.native s) := rfl

/-- A cw20 denom is accepted exactly when the address validates and the contract answers `TokenInfo {}` with a
`TokenInfoResponse`; the result carries the address text unchanged. -/
theorem intoChecked_cw20_ok_iff (a : String) (valid : Bool) (r : Reply) (d : Denom) :
    (UncheckedDenom.cw20 a).intoChecked valid r = .ok d ↔
      (valid = true ∧ (∃ n s dec t, r = .tokenInfo n s dec t) ∧ d = .cw20 a) := by
  simp only [UncheckedDenom.intoChecked]
  cases valid <;> cases r <;> simp [check, cw20Meta, bind, Except.bind, pure, Except.pure, eq_comm]

/-- … so a checked `Denom` can still be empty (`is_empty`): only through the unchecked native branch. -/
example : ∃ d, (UncheckedDenom.native "").intoChecked false .fail = .ok d ∧ d.isEmpty = true := ⟨_, rfl, by decide⟩

/-! ## message builders -/

/-- Every helper emits a `WasmMsg::Execute` to the wrapped address, without funds, whose payload is the JSON of the
message. -/
theorem wrap_spec (c : Addr) (p : Bytes) : (wrap c p).contract = c ∧ (wrap c p).funds = [] ∧ (wrap c p).msg = p :=
  ⟨rfl, rfl, rfl⟩

theorem cw20Call_spec (c : Addr) (m : Cw20Msg) :
    (cw20Call c m).contract = c ∧ (cw20Call c m).funds = [] ∧ (cw20Call c m).msg = m.json := ⟨rfl, rfl, rfl⟩

theorem cw3Encode_spec (c : Addr) (m : Cw3Msg) :
    (cw3Encode c m).contract = c ∧ (cw3Encode c m).funds = [] ∧ (cw3Encode c m).msg = m.json := ⟨rfl, rfl, rfl⟩

/-- `proposal` / `vote` / `execute` / `close` are `encode_msg` of the corresponding variant. -/
theorem cw3_helpers_eq (c : Addr) (t d : String) (ms : List CosmosMsg) (e l : Option Expiration) (id : Nat) (v : Vote) :
    cw3Proposal c t d ms e l = cw3Encode c (.propose t d ms e l) ∧ cw3Vote c id v = cw3Encode c (.vote id v) ∧
    cw3Execute c id = cw3Encode c (.execute id) ∧ cw3Close c id = cw3Encode c (.close id) := ⟨rfl, rfl, rfl, rfl⟩

theorem cw4_builders_spec (c : Addr) (a : String) (o : Option String) :
    (cw4AddHook c a).contract = c ∧ (cw4AddHook c a).funds = [] ∧ (cw4AddHook c a).msg = (Cw4Msg.addHook a).json ∧
    (cw4RemoveHook c a).contract = c ∧ (cw4RemoveHook c a).funds = [] ∧ (cw4RemoveHook c a).msg = (Cw4Msg.removeHook a).json ∧
    (cw4UpdateAdmin c o).contract = c ∧ (cw4UpdateAdmin c o).funds = [] ∧ (cw4UpdateAdmin c o).msg = (Cw4Msg.updateAdmin o).json :=
  ⟨rfl, rfl, rfl, rfl, rfl, rfl, rfl, rfl, rfl⟩

theorem cw4gUpdateMembers_spec (c : Addr) (rm : List String) (add : List (String × Nat)) :
    (cw4gUpdateMembers c rm add).contract = c ∧ (cw4gUpdateMembers c rm add).funds = [] ∧
    (cw4gUpdateMembers c rm add).msg = updateMembersJson rm add := ⟨rfl, rfl, rfl⟩

theorem cw1Execute_spec (c : Addr) (ms : List CosmosMsg) :
    (cw1Execute c ms).contract = c ∧ (cw1Execute c ms).funds = [] := ⟨rfl, rfl⟩

/-- The target address is the only thing a builder takes from the wrapper: two wrappers emit the same message for
the same input exactly when they wrap the same address. -/
theorem cw20Call_inj_contract (c c' : Addr) (m : Cw20Msg) : cw20Call c m = cw20Call c' m ↔ c = c' := by
  constructor
  · intro h; exact congrArg WasmExec.contract h
  · rintro rfl; rfl

/-- base64 output length: four characters per started group of three bytes (padded) -/
theorem b64_length (d : Bytes) : (b64 d).length = 4 * ((d.length + 2) / 3) := by
  fun_induction b64 d <;> simp_all <;> omega

/-- a JSON string token determines the string (`serialize_str` is injective): through the decoder of `Base/Json` -/
theorem jStr_injective (s s' : String) (h : jStr s = jStr s') : s = s' := by
  have h1 := parseStrTok_encStr s []
  have h2 := parseStrTok_encStr s' []
  simp only [jStr, encStr, List.cons.injEq, true_and] at h
  rw [h] at h1
  rw [h1] at h2
  simpa using h2

/-- The payload of `add_hook` / `remove_hook` determines the address put in (nothing is lost or normalised on the
way into the JSON). -/
theorem addHook_json_injective (a a' : String) (h : (Cw4Msg.addHook a).json = (Cw4Msg.addHook a').json) : a = a' := by
  simp only [Cw4Msg.json, jTag, jObj, jJoin, List.map, field, List.cons.injEq, true_and, List.append_cancel_left_eq,
    List.append_cancel_right_eq] at h
  exact jStr_injective a a' (by simpa [List.append_cancel_right_eq] using h)

example : (cw20Call "token" (.transfer "bob" 5)).msg = lit "{\"transfer\":{\"recipient\":\"bob\",\"amount\":\"5\"}}" := by decide
example : (cw20Call "token" (.send "c" 1 [0x7b, 0x7d])).msg = lit "{\"send\":{\"contract\":\"c\",\"amount\":\"1\",\"msg\":\"e30=\"}}" := by
  decide
example : (cw20Call "token" (.increaseAllowance "s" 1 none)).msg
    = lit "{\"increase_allowance\":{\"spender\":\"s\",\"amount\":\"1\",\"expires\":null}}" := by decide
example : (cw3Vote "ms" 17 .no).msg = lit "{\"vote\":{\"proposal_id\":17,\"vote\":\"no\"}}" := by decide
set_option maxRecDepth 8192 in
example : (cw3Proposal "ms" "t" "d" [.bankSend "x" [("uatom", 1)]] none (some (.atTime 5))).msg
    = lit ("{\"propose\":{\"title\":\"t\",\"description\":\"d\",\"msgs\":[{\"bank\":{\"send\":{\"to_address\":\"x\"," ++
      "\"amount\":[{\"denom\":\"uatom\",\"amount\":\"1\"}]}}}],\"earliest\":null,\"latest\":{\"at_time\":\"5\"}}}") := by decide
example : (cw4UpdateAdmin "g" none).msg = lit "{\"update_admin\":{\"admin\":null}}" := by decide
example : (cw4gUpdateMembers "g" ["a"] [("b", 2)]).msg
    = lit "{\"update_members\":{\"remove\":[\"a\"],\"add\":[{\"addr\":\"b\",\"weight\":2}]}}" := by decide
example : (cw1Execute "p" []).msg = lit "{\"execute\":{\"msgs\":[]}}" := by decide

/-! ## query wrappers -/

/-- The request goes to the wrapped address and carries the JSON of the query message. -/
theorem request_spec (c : Addr) (q : Cw20Query) (q4 : Cw4Query) :
    (cw20Request c q).contract = c ∧ (cw20Request c q).msg = q.json ∧
    (cw4Request c q4).contract = c ∧ (cw4Request c q4).msg = q4.json := ⟨rfl, rfl, rfl, rfl⟩

/-- `balance` returns exactly the `balance` field of a `BalanceResponse`, and fails on every other answer. -/
theorem cw20Balance_ok_iff (r : Reply) (n : Nat) : cw20Balance r = .ok n ↔ r = .balance n := by
  cases r <;> simp [cw20Balance, eq_comm]

/-- `has_allowance` is true exactly when the contract answers the allowance query with an `AllowanceResponse`. -/
theorem hasAllowance_iff (r : Reply) : cw20HasAllowance r = true ↔ ∃ n e, r = .allowance n e := by
  cases r <;> simp [cw20HasAllowance, cw20Allowance, Res.isOk]

/-- `is_mintable` is true exactly when the contract answers the minter query with `null` **or** a `MinterResponse`:
a cw20-base token without a minter (answer `null`) counts as mintable. -/
theorem isMintable_iff (r : Reply) : cw20IsMintable r = true ↔ (r = .null ∨ ∃ m c, r = .minter m c) := by
  cases r <;> simp [cw20IsMintable, cw20Minter, Res.isOk]

/-- `minter` distinguishes the two cases `is_mintable` merges. -/
theorem cw20Minter_null : cw20Minter .null = .ok none := rfl

theorem cw4Hooks_ok_iff (r : Reply) (hs : List String) : cw4Hooks r = .ok hs ↔ r = .hooks hs := by
  cases r <;> simp [cw4Hooks, eq_comm]

theorem cw4Admin_ok_iff (r : Reply) (a : Option String) : cw4Admin r = .ok a ↔ r = .admin a := by
  cases r <;> simp [cw4Admin, eq_comm]

/-- no wrapper succeeds when the query itself fails (no such contract / the contract's query errors) -/
theorem wrappers_fail_on_fail :
    cw20Balance .fail = .error "parse" ∧ cw20Meta .fail = .error "parse" ∧ cw20Allowance .fail = .error "parse" ∧
    cw20Minter .fail = .error "parse" ∧ cw20HasAllowance .fail = false ∧ cw20IsMintable .fail = false ∧
    cw4Hooks .fail = .error "parse" ∧ cw4Admin .fail = .error "parse" := by decide

example : (cw20Request "token" (.balance "bob")).msg = lit "{\"balance\":{\"address\":\"bob\"}}" := by decide
example : (cw20Request "token" .tokenInfo).msg = lit "{\"token_info\":{}}" := by decide
example : (cw4Request "group" .hooks).msg = lit "{\"hooks\":{}}" := by decide
example : cw20IsMintable .null = true ∧ cw20Minter .null = .ok none := by decide

end CwPlus.Props.Pkg
