import CwPlus.Props.MsgWire
import CwPlus.Lemmas.Ics20
/-!
# cw20-ics20: the payout / refund sub-message, byte for byte (part of C11 / C12)

`send_amount(amount, recipient)` (`contracts/cw20-ics20/src/ibc.rs`) builds the only message the IBC entry points
emit: for a cw20 denomination a `WasmMsg::Execute` on the token whose `msg` is
`to_json_binary(&Cw20ExecuteMsg::Transfer { recipient, amount })`, for a native one a `BankMsg::Send` (no JSON).
`MsgWire.wireOfIcs20` maps the model's `SubMsg` to these bytes; this file lifts the byte-level facts of
`Props/MsgWire.lean` to the model's entry points:

* `recv_payout_encoded`: a successful `ibc_packet_receive` (success acknowledgement) emits exactly one sub-message;
  for a cw20 voucher its bytes are `encodeTransfer receiver amount` with the receiver and the amount *of the packet*,
  for a native voucher it carries no JSON; an error acknowledgement emits nothing;
* `refund_encoded`: the refund after an error acknowledgement / a timeout is `encodeTransfer sender amount` with the
  sender and amount of the original packet;
* `payout_decodable`: the token contract reads these bytes back as exactly that `Transfer` (amounts are `Uint128`).

The tie: the harness prints the real `WasmMsg::Execute.msg` bytes of every emitted sub-message (`subraw=`), the driver
renders the same key with `MsgWire.subRawOfIcs20`.
-/
namespace CwPlus.Props.MsgWireIcs20
open CwPlus CwPlus.Json CwPlus.MsgWire CwPlus.Ics20

/-- the bytes `send_amount` produces for a denomination, a recipient and an amount -/
def expectedWire (d : Denom) (to : String) (amt : Nat) : Option Bytes :=
  match d with
  | .native _ => none
  | .cw20 _ => some (encodeTransfer to amt)

theorem wireOfIcs20_eq (sub : SubMsg) : wireOfIcs20 sub = expectedWire sub.denom sub.to sub.amount := by
  unfold wireOfIcs20 expectedWire; cases sub.denom <;> rfl

/-- **recv_payout_encoded** (C11 / C12 on the wire): `ibc_packet_receive` is total; when it acknowledges success it
emits exactly one sub-message, addressed to the packet's receiver with the packet's amount and the denomination `d`
of the voucher; if `d` is a cw20 token the bytes of its `msg` are `encodeTransfer receiver amount`
(`{"transfer":{"recipient":…,"amount":"…"}}`), if it is native there is no payload.  When it acknowledges an error it
emits no message at all. -/
theorem recv_payout_encoded {s s' : State} {p : PacketIn} {tv : Bool} {ack : Ics20.Ack} {sub : Option SubMsg}
    (h : ibcPacketReceive s p tv = (s', ack, sub)) :
    (ack = .success → ∃ sm amt d, sub = some sm ∧ p.amount = some amt ∧ p.voucher = some (p.srcPort, p.srcChan, d) ∧
        sm.to = p.receiver ∧ sm.amount = amt ∧ sm.denom = d ∧
        wireOfIcs20 sm = expectedWire d p.receiver amt ∧
        sub.toList.filterMap wireOfIcs20 = (expectedWire d p.receiver amt).toList) ∧
    (ack = .error → sub = none ∧ subRawOfIcs20 sub = "-") := by
  unfold ibcPacketReceive at h
  split at h
  · rename_i s1 sm hd
    obtain ⟨amt, d, ch, ha, hv, _, _, hto, hamt, hden, _, _⟩ := doReceive_spec hd
    simp only [Prod.mk.injEq] at h
    obtain ⟨_, rfl, rfl⟩ := h
    refine ⟨fun _ => ⟨sm, amt, d, rfl, ha, hv, hto, hamt, hden, ?_, ?_⟩, fun h => (by cases h)⟩
    · rw [wireOfIcs20_eq, hto, hamt, hden]
    · simp only [Option.toList, List.filterMap_cons, List.filterMap_nil]
      rw [wireOfIcs20_eq, hto, hamt, hden]
      cases expectedWire d p.receiver amt <;> rfl
  · simp only [Prod.mk.injEq] at h
    obtain ⟨_, rfl, rfl⟩ := h
    exact ⟨fun h => (by cases h), fun _ => ⟨rfl, rfl⟩⟩

/-- **refund_encoded**: the refund that `on_packet_failure` (error acknowledgement or timeout of a packet this
contract sent) emits goes to the packet's sender with the packet's amount; for a cw20 denomination the bytes are
`encodeTransfer sender amount`, for a native one there is no payload. -/
theorem refund_encoded {s s' : State} {chan : String} {data : Option Ics20.Packet} {tv : Bool} {sub : SubMsg}
    (h : onPacketFailure s chan data tv = .ok (s', sub)) :
    ∃ pk, data = some pk ∧ wireOfIcs20 sub = expectedWire pk.denom pk.sender pk.amount := by
  obtain ⟨pk, _, hd, _, _, hto, hamt, hden, _⟩ := onPacketFailure_spec h
  exact ⟨pk, hd, by rw [wireOfIcs20_eq, hto, hamt, hden]⟩

/-- the same for the two entry points that call `on_packet_failure` -/
theorem ack_timeout_refund_encoded {s s' : State} {chan : String} {data : Option Ics20.Packet} {tv : Bool}
    {sub : Option SubMsg} :
    (∀ ackOk, ibcPacketAck s chan data ackOk tv = .ok (s', sub) →
      (ackOk = some true ∧ sub = none) ∨
      (ackOk = some false ∧ ∃ sm pk, sub = some sm ∧ data = some pk ∧
        wireOfIcs20 sm = expectedWire pk.denom pk.sender pk.amount)) ∧
    (ibcPacketTimeout s chan data tv = .ok (s', sub) →
      ∃ sm pk, sub = some sm ∧ data = some pk ∧ wireOfIcs20 sm = expectedWire pk.denom pk.sender pk.amount) := by
  constructor
  · intro ackOk h
    unfold ibcPacketAck at h
    split at h
    · simp at h
    · split at h
      · simp at h
      · simp at h; exact Or.inl ⟨rfl, h.2.symm⟩
    · right
      cases hf : onPacketFailure s chan data tv with
      | error e => simp [hf] at h
      | ok r =>
        obtain ⟨s1, sm⟩ := r
        simp [hf] at h
        obtain ⟨_, rfl⟩ := h
        obtain ⟨pk, hd, hw⟩ := refund_encoded hf
        exact ⟨rfl, sm, pk, rfl, hd, hw⟩
  · intro h
    unfold ibcPacketTimeout at h
    cases hf : onPacketFailure s chan data tv with
    | error e => simp [hf] at h
    | ok r =>
      obtain ⟨s1, sm⟩ := r
      simp [hf] at h
      obtain ⟨_, rfl⟩ := h
      obtain ⟨pk, hd, hw⟩ := refund_encoded hf
      exact ⟨sm, pk, rfl, hd, hw⟩

/-- **payout_decodable**: the bytes of a cw20 payout / refund are read back by the token contract
(`from_json::<Cw20ExecuteMsg>`) as `Transfer` to exactly that recipient with exactly that amount — a packet amount is
a `Uint128`. -/
theorem payout_decodable (t : String) (to : String) (amt : Nat) (h : amt < 2 ^ 128) :
    ∃ bs, expectedWire (.cw20 t) to amt = some bs ∧ decodeTransfer bs = .ok ⟨to, amt⟩ :=
  ⟨_, rfl, CwPlus.Props.MsgWire.decode_encode_transfer to amt h⟩

/-- the outcome key: with a cw20 payout `subraw=` is the hex of `encodeTransfer`, with a native one `-` -/
theorem subRaw_of_sub (sm : SubMsg) :
    subRawOfIcs20 (some sm) =
      match sm.denom with
      | .native _ => "-"
      | .cw20 _ => toHex (encodeTransfer sm.to sm.amount) := by
  unfold subRawOfIcs20
  simp only [Option.bind, wireOfIcs20]
  cases sm.denom <;> rfl

set_option maxRecDepth 1000000 in
/-- the literal bytes of a sample payout: 5 tokens of the cw20 `tok` to `bob` -/
example : (wireOfIcs20 ⟨"bob", 5, .cw20 "tok", some 300000, RECEIVE_ID⟩).map bytesToString =
    some "{\"transfer\":{\"recipient\":\"bob\",\"amount\":\"5\"}}" := by decide
example : wireOfIcs20 ⟨"bob", 5, .native "ucosm", none, RECEIVE_ID⟩ = none := rfl

end CwPlus.Props.MsgWireIcs20
