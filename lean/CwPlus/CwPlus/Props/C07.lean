import CwPlus.Model.Cw1Whitelist
import CwPlus.Model.Cw1Subkeys
/-!
# C07 — cw1: the proxy relays exactly the submitted messages, only when authorised

`Wl.*` are about cw1-whitelist, `Sk.*` about cw1-subkeys.  All statements hold for
every state (hence after every history, see `Sk.execute_ok_iff_run`), every block,
every sender and every message list.
-/
namespace CwPlus.Props.C07
open CwPlus
open CwPlus.Cw1Whitelist (AddrArg CosmosMsg StakingKind DistrKind AdminList)
open CwPlus.Cw1Subkeys (Allowance Permissions)

/-! ## cw1-whitelist -/

/-- C07 (whitelist), "relayed exactly": a successful `Execute` returns the submitted messages,
in order, nothing added, altered or dropped, and leaves the state alone. -/
theorem Wl.relay_exact {s s' : Cw1Whitelist.State} {blk : Block} {snd : Addr} {msgs out : List CosmosMsg}
    (h : Cw1Whitelist.execute s blk snd (.execute msgs) = .ok (s', out)) : out = msgs ∧ s' = s := by
  simp [Cw1Whitelist.execute, Cw1Whitelist.execExecute] at h
  obtain ⟨_, rfl, rfl⟩ := h
  exact ⟨rfl, rfl⟩

/-- C07 (whitelist), "only when authorised": `Execute` succeeds exactly when the caller is a current admin,
whatever the messages. -/
theorem Wl.execute_ok_iff (s : Cw1Whitelist.State) (blk : Block) (snd : Addr) (msgs : List CosmosMsg) :
    (Cw1Whitelist.execute s blk snd (.execute msgs)).isOk = true ↔ snd ∈ s.admins := by
  simp only [Cw1Whitelist.execute, Cw1Whitelist.execExecute, AdminList.isAdmin]
  by_cases h : snd ∈ s.admins <;> simp [h, check, Res.isOk, bind, Except.bind, pure, Except.pure]

/-- C07 (whitelist): only `Execute` ever relays anything. -/
theorem Wl.only_execute_relays {s s' : Cw1Whitelist.State} {blk : Block} {snd : Addr} {m : Cw1Whitelist.Msg}
    {out : List CosmosMsg} (h : Cw1Whitelist.execute s blk snd m = .ok (s', out)) (hne : out ≠ []) :
    ∃ msgs, m = .execute msgs := by
  cases m with
  | execute msgs => exact ⟨msgs, rfl⟩
  | freeze => simp [Cw1Whitelist.execute, Cw1Whitelist.execFreeze] at h; exact absurd h.2.2 hne
  | updateAdmins l =>
    simp [Cw1Whitelist.execute, Cw1Whitelist.execUpdateAdmins] at h
    obtain ⟨_, _, _, _, rfl⟩ := h; exact absurd rfl hne

/-- C07 (whitelist), "the whole call fails with nothing relayed": a failing call leaves the state
unchanged and relays nothing. -/
theorem Wl.fail_no_relay {s : Cw1Whitelist.State} {blk : Block} {snd : Addr} {m : Cw1Whitelist.Msg} {e : String}
    (h : Cw1Whitelist.execute s blk snd m = .error e) :
    Cw1Whitelist.step s blk snd m = s ∧ Cw1Whitelist.relayed s blk snd m = [] := by
  simp [Cw1Whitelist.step, Cw1Whitelist.relayed, h]

/-! ## cw1-subkeys -/

/-- Does the permission record allow this staking variant? -/
def stakingFlag (k : StakingKind) (p : Permissions) : Bool :=
  match k with
  | .delegate => p.delegate
  | .undelegate => p.undelegate
  | .redelegate => p.redelegate

/-- Does the permission record allow this distribution variant?  (`other` = any variant but
`SetWithdrawAddress` / `WithdrawDelegatorReward`: never.) -/
def distrFlag (k : DistrKind) (p : Permissions) : Bool :=
  match k with
  | .setWithdrawAddress => p.withdraw
  | .withdrawDelegatorReward => p.withdraw
  | .other => false

/-- "The caller's grants cover this message": for a bank send the allowance exists, is unexpired at
`blk` and holds every coin (coin by coin, cumulatively); for staking / distribution the permission
record exists and has the matching flag; nothing else is ever covered.  Returns the allowance that
remains afterwards. -/
def covers (perm : Option Permissions) (blk : Block) (al : Option Allowance) : CosmosMsg → Option (Option Allowance)
  | .bankSend _ coins =>
    match al with
    | some a =>
      if a.expires.isExpired blk then none
      else match a.balance.subCoins coins with
        | .ok b => some (some { a with balance := b })
        | .error _ => none
    | none => none
  | .staking k _ =>
    match perm with
    | some p => if stakingFlag k p then some al else none
    | none => none
  | .distribution k _ =>
    match perm with
    | some p => if distrFlag k p then some al else none
    | none => none
  | _ => none

/-- Every message of the list is covered, the allowance being threaded through the list. -/
def coveredFrom (perm : Option Permissions) (blk : Block) : Option Allowance → List CosmosMsg → Bool
  | _, [] => true
  | al, m :: ms =>
    match covers perm blk al m with
    | some al' => coveredFrom perm blk al' ms
    | none => false

/-- `coveredSeq s blk snd msgs`: the grants `snd` holds in state `s` cover the whole list at block `blk`. -/
def coveredSeq (s : Cw1Subkeys.State) (blk : Block) (snd : Addr) (msgs : List CosmosMsg) : Bool :=
  coveredFrom (s.permissions.get? snd) blk (s.allowances.get? snd) msgs

/-- What one iteration of the permission loop does, in terms of `covers`. -/
theorem checkMsg_spec (s : Cw1Subkeys.State) (blk : Block) (snd : Addr) (m : CosmosMsg) :
    match covers (s.permissions.get? snd) blk (s.allowances.get? snd) m with
    | some al' => ∃ s', Cw1Subkeys.checkMsg s blk snd m = .ok s' ∧ s'.permissions = s.permissions ∧ s'.cfg = s.cfg
        ∧ s'.allowances.get? snd = al' ∧ ∀ x, x ≠ snd → s'.allowances.get? x = s.allowances.get? x
    | none => ∃ e, Cw1Subkeys.checkMsg s blk snd m = .error e := by
  cases m with
  | bankSend to coins =>
    simp only [covers, Cw1Subkeys.checkMsg]
    cases ha : s.allowances.get? snd with
    | none => simp
    | some a =>
      by_cases hx : a.expires.isExpired blk
      · simp [hx, check, bind, Except.bind]
      · cases hs : a.balance.subCoins coins with
        | error e => simp [hx, hs, check, bind, Except.bind]
        | ok b =>
          simp only [hx, hs, check, bind, Except.bind, pure, Except.pure, Bool.not_false, Bool.false_eq_true, if_false, if_true]
          refine ⟨_, rfl, rfl, rfl, by simp, ?_⟩
          intro x hx'; exact AMap.get?_set_ne _ _ _ _ (Ne.symm hx')
  | staking k p =>
    simp only [covers, Cw1Subkeys.checkMsg]
    cases hp : s.permissions.get? snd with
    | none => simp
    | some q =>
      obtain ⟨d, r, u, w⟩ := q
      cases k <;> cases d <;> cases r <;> cases u <;> cases w <;>
        simp [stakingFlag, Cw1Subkeys.checkStaking, check, bind, Except.bind, pure, Except.pure]
  | distribution k p =>
    simp only [covers, Cw1Subkeys.checkMsg]
    cases hp : s.permissions.get? snd with
    | none => simp
    | some q =>
      obtain ⟨d, r, u, w⟩ := q
      cases k <;> cases w <;>
        simp [distrFlag, Cw1Subkeys.checkDistribution, check, bind, Except.bind, pure, Except.pure]
  | bankBurn _ => simp [covers, Cw1Subkeys.checkMsg]
  | wasm _ => simp [covers, Cw1Subkeys.checkMsg]
  | ibc _ => simp [covers, Cw1Subkeys.checkMsg]
  | gov _ => simp [covers, Cw1Subkeys.checkMsg]
  | other _ => simp [covers, Cw1Subkeys.checkMsg]

/-- The loop succeeds exactly on covered lists. -/
theorem checkMsgs_isOk (s : Cw1Subkeys.State) (blk : Block) (snd : Addr) (msgs : List CosmosMsg) :
    (Cw1Subkeys.checkMsgs s blk snd msgs).isOk = coveredSeq s blk snd msgs := by
  unfold coveredSeq
  induction msgs generalizing s with
  | nil => simp [Cw1Subkeys.checkMsgs, coveredFrom, Res.isOk]
  | cons m ms ih =>
    have hspec := checkMsg_spec s blk snd m
    simp only [Cw1Subkeys.checkMsgs, coveredFrom]
    cases hc : covers (s.permissions.get? snd) blk (s.allowances.get? snd) m with
    | none =>
      rw [hc] at hspec
      obtain ⟨e, he⟩ := hspec
      simp [he, bind, Except.bind, Res.isOk]
    | some al' =>
      rw [hc] at hspec
      obtain ⟨s', hs', hp, _, hal, _⟩ := hspec
      simp only [hs', bind, Except.bind]
      rw [ih s', hp, hal]

/-- The loop never touches the admin configuration or the permissions, and only the sender's allowance. -/
theorem checkMsgs_frame {s s' : Cw1Subkeys.State} {blk : Block} {snd : Addr} {msgs : List CosmosMsg}
    (h : Cw1Subkeys.checkMsgs s blk snd msgs = .ok s') :
    s'.cfg = s.cfg ∧ s'.permissions = s.permissions ∧ ∀ x, x ≠ snd → s'.allowances.get? x = s.allowances.get? x := by
  induction msgs generalizing s with
  | nil => simp [Cw1Subkeys.checkMsgs] at h; subst h; simp
  | cons m ms ih =>
    simp [Cw1Subkeys.checkMsgs] at h
    obtain ⟨s1, h1, h2⟩ := h
    have hspec := checkMsg_spec s blk snd m
    split at hspec
    · obtain ⟨s1', h1', hp, hc, _, hf⟩ := hspec
      rw [h1] at h1'; cases h1'
      obtain ⟨a, b, c⟩ := ih h2
      exact ⟨a.trans hc, b.trans hp, fun x hx => (c x hx).trans (hf x hx)⟩
    · obtain ⟨e, he⟩ := hspec; rw [h1] at he; cases he

/-- C07 (subkeys), "relayed exactly": a successful `Execute` returns the submitted messages, in order,
nothing added, altered or dropped — for admins and subkeys alike. -/
theorem Sk.relay_exact {s s' : Cw1Subkeys.State} {blk : Block} {snd : Addr} {msgs out : List CosmosMsg}
    (h : Cw1Subkeys.execute s blk snd (.execute msgs) = .ok (s', out)) : out = msgs := by
  simp only [Cw1Subkeys.execute, Cw1Subkeys.execExecute] at h
  split at h
  · simp at h; exact h.2.symm
  · simp at h; obtain ⟨_, _, _, rfl⟩ := h; rfl

/-- C07 (subkeys), "only when authorised": `Execute` succeeds exactly when the caller is a current admin
or every message of the list is covered by the caller's grants (allowance threaded through the list). -/
theorem Sk.execute_ok_iff (s : Cw1Subkeys.State) (blk : Block) (snd : Addr) (msgs : List CosmosMsg) :
    (Cw1Subkeys.execute s blk snd (.execute msgs)).isOk = true ↔
      (s.cfg.isAdmin snd = true ∨ coveredSeq s blk snd msgs = true) := by
  simp only [Cw1Subkeys.execute, Cw1Subkeys.execExecute]
  by_cases ha : s.cfg.isAdmin snd = true
  · simp [ha, Res.isOk]
  · have := checkMsgs_isOk s blk snd msgs
    simp only [ha, Bool.false_eq_true, if_false, false_or]
    rw [← this]
    cases Cw1Subkeys.checkMsgs s blk snd msgs <;> simp [Res.isOk, bind, Except.bind, pure, Except.pure]

/-- An admin's `Execute` changes nothing in the state. -/
theorem Sk.admin_execute_state {s s' : Cw1Subkeys.State} {blk : Block} {snd : Addr} {msgs out : List CosmosMsg}
    (ha : s.cfg.isAdmin snd = true) (h : Cw1Subkeys.execute s blk snd (.execute msgs) = .ok (s', out)) : s' = s := by
  simp [Cw1Subkeys.execute, Cw1Subkeys.execExecute, ha] at h
  exact h.1.symm

/-- Message kinds that a grant can cover at all. -/
def grantable : CosmosMsg → Bool
  | .bankSend _ _ => true
  | .staking _ _ => true
  | .distribution .setWithdrawAddress _ => true
  | .distribution .withdrawDelegatorReward _ => true
  | _ => false

theorem coveredFrom_grantable {perm : Option Permissions} {blk : Block} {al : Option Allowance} {msgs : List CosmosMsg}
    (h : coveredFrom perm blk al msgs = true) : ∀ m ∈ msgs, grantable m = true := by
  induction msgs generalizing al with
  | nil => simp
  | cons m ms ih =>
    simp only [coveredFrom] at h
    split at h
    · rename_i al' hc
      intro x hx
      rcases List.mem_cons.mp hx with rfl | hx
      · cases x with
        | distribution k p =>
          cases k <;> simp_all [grantable, covers, distrFlag]
          cases perm <;> simp_all
        | _ => simp_all [grantable, covers]
      · exact ih h x hx
    · simp at h

/-- C07 (subkeys), "any other message kind makes the whole call fail": for a non-admin a list containing a
bank burn, wasm, ibc, gov, custom/stargate/any message or a distribution variant other than the two
withdraw ones is rejected as a whole. -/
theorem Sk.other_kinds_rejected {s : Cw1Subkeys.State} {blk : Block} {snd : Addr} {msgs : List CosmosMsg}
    {m : CosmosMsg} (hna : s.cfg.isAdmin snd = false) (hm : m ∈ msgs) (hk : grantable m = false) :
    ∃ e, Cw1Subkeys.execute s blk snd (.execute msgs) = .error e := by
  have h := (Sk.execute_ok_iff s blk snd msgs)
  cases hr : Cw1Subkeys.execute s blk snd (.execute msgs) with
  | error e => exact ⟨e, rfl⟩
  | ok r =>
    rw [hr] at h
    have := h.mp (by simp [Res.isOk])
    rcases this with ha | hc
    · rw [hna] at ha; cases ha
    · have := coveredFrom_grantable hc m hm
      rw [hk] at this; cases this

/-- C07 (subkeys), permission flags: a single staking / distribution message from a non-admin is accepted
exactly when the caller has a permission record whose matching flag is set (delegate → `delegate`,
undelegate → `undelegate`, redelegate → `redelegate`, both withdraw variants → `withdraw`). -/
theorem Sk.flag_mapping (s : Cw1Subkeys.State) (blk : Block) (snd : Addr) (hna : s.cfg.isAdmin snd = false) :
    (∀ k p, (Cw1Subkeys.execute s blk snd (.execute [.staking k p])).isOk = true ↔
        ∃ q, s.permissions.get? snd = some q ∧ stakingFlag k q = true) ∧
    (∀ k p, (Cw1Subkeys.execute s blk snd (.execute [.distribution k p])).isOk = true ↔
        ∃ q, s.permissions.get? snd = some q ∧ distrFlag k q = true) := by
  constructor <;> intro k p <;> rw [Sk.execute_ok_iff] <;>
    simp only [hna, Bool.false_eq_true, false_or, coveredSeq, coveredFrom, covers] <;>
    cases s.permissions.get? snd <;> simp <;> split <;> simp_all

/-- C07 (subkeys): only `Execute` ever relays anything. -/
theorem Sk.only_execute_relays {s s' : Cw1Subkeys.State} {blk : Block} {snd : Addr} {m : Cw1Subkeys.Msg}
    {out : List CosmosMsg} (h : Cw1Subkeys.execute s blk snd m = .ok (s', out)) (hne : out ≠ []) :
    ∃ msgs, m = .execute msgs := by
  cases m with
  | execute msgs => exact ⟨msgs, rfl⟩
  | freeze =>
    simp [Cw1Subkeys.execute, Cw1Subkeys.execFreeze, Cw1Whitelist.execFreeze] at h
    exact absurd h.2.2 hne
  | updateAdmins l =>
    simp [Cw1Subkeys.execute, Cw1Subkeys.execUpdateAdmins, Cw1Whitelist.execUpdateAdmins] at h
    obtain ⟨_, _, _, _, rfl⟩ := h; exact absurd rfl hne
  | increaseAllowance sp c e =>
    simp [Cw1Subkeys.execute, Cw1Subkeys.execIncreaseAllowance] at h
    obtain ⟨_, _, _, _, _, _, rfl⟩ := h; exact absurd rfl hne
  | decreaseAllowance sp c e =>
    simp only [Cw1Subkeys.execute, Cw1Subkeys.execDecreaseAllowance] at h
    simp at h
    obtain ⟨_, _, _, a, _, h⟩ := h
    split at h <;> simp at h <;> exact absurd h.2 hne
  | setPermissions sp p =>
    simp [Cw1Subkeys.execute, Cw1Subkeys.execSetPermissions] at h
    exact absurd h.2.2.2.2 hne

/-- C07 (subkeys), "the whole call fails with nothing relayed": a failing call leaves the state unchanged
(also when earlier messages of the list had already been charged to the allowance) and relays nothing. -/
theorem Sk.fail_no_relay {s : Cw1Subkeys.State} {blk : Block} {snd : Addr} {m : Cw1Subkeys.Msg} {e : String}
    (h : Cw1Subkeys.execute s blk snd m = .error e) :
    Cw1Subkeys.step s blk snd m = s ∧ Cw1Subkeys.relayed s blk snd m = [] := by
  simp [Cw1Subkeys.step, Cw1Subkeys.relayed, h]

/-- Histories: any list of (block, sender, message); failed calls roll back. -/
def Sk.run (s : Cw1Subkeys.State) (ops : List (Block × Addr × Cw1Subkeys.Msg)) : Cw1Subkeys.State :=
  ops.foldl (fun s op => Cw1Subkeys.step s op.1 op.2.1 op.2.2) s

/-- C07 (subkeys) after any history of admin, allowance and permission changes: the authorisation rule is
the one of the state the history leads to. -/
theorem Sk.execute_ok_iff_run (s : Cw1Subkeys.State) (ops : List (Block × Addr × Cw1Subkeys.Msg))
    (blk : Block) (snd : Addr) (msgs : List CosmosMsg) :
    (Cw1Subkeys.execute (Sk.run s ops) blk snd (.execute msgs)).isOk = true ↔
      ((Sk.run s ops).cfg.isAdmin snd = true ∨ coveredSeq (Sk.run s ops) blk snd msgs = true) :=
  Sk.execute_ok_iff _ _ _ _

/-! ## Functional specification of the observable, strangers, permission-only lists -/

/-- C07, "relayed exactly / only when authorised" as one equation (whitelist): what a transaction relays is
the submitted list if the message is `Execute` and the caller is a current admin, and nothing otherwise. -/
theorem Wl.relayed_eq (s : Cw1Whitelist.State) (blk : Block) (snd : Addr) (m : Cw1Whitelist.Msg) :
    Cw1Whitelist.relayed s blk snd m = match m with
      | .execute msgs => if snd ∈ s.admins then msgs else []
      | _ => [] := by
  cases m with
  | execute msgs =>
    have hiff := Wl.execute_ok_iff s blk snd msgs
    simp only [Cw1Whitelist.relayed]
    cases hr : Cw1Whitelist.execute s blk snd (.execute msgs) with
    | error e =>
      rw [hr] at hiff
      have : ¬ snd ∈ s.admins := fun h => by simpa [Res.isOk] using hiff.mpr h
      simp [this]
    | ok r =>
      obtain ⟨s', out⟩ := r
      rw [hr] at hiff
      have hin : snd ∈ s.admins := hiff.mp rfl
      simp [hin, (Wl.relay_exact hr).1]
  | freeze =>
    simp only [Cw1Whitelist.relayed]
    cases hr : Cw1Whitelist.execute s blk snd .freeze with
    | error e => rfl
    | ok r =>
      obtain ⟨s', out⟩ := r
      by_cases hne : out = []
      · simpa using hne
      · obtain ⟨msgs, hm⟩ := Wl.only_execute_relays hr hne; cases hm
  | updateAdmins l =>
    simp only [Cw1Whitelist.relayed]
    cases hr : Cw1Whitelist.execute s blk snd (.updateAdmins l) with
    | error e => rfl
    | ok r =>
      obtain ⟨s', out⟩ := r
      by_cases hne : out = []
      · simpa using hne
      · obtain ⟨msgs, hm⟩ := Wl.only_execute_relays hr hne; cases hm

/-- C07, "relayed exactly / only when authorised" as one equation (subkeys): what a transaction relays is the
submitted list if the message is `Execute` and the caller is a current admin or its grants cover the whole
list, and nothing in every other case (other handlers, failed calls). -/
theorem Sk.relayed_eq (s : Cw1Subkeys.State) (blk : Block) (snd : Addr) (m : Cw1Subkeys.Msg) :
    Cw1Subkeys.relayed s blk snd m = match m with
      | .execute msgs => if (s.cfg.isAdmin snd || coveredSeq s blk snd msgs) = true then msgs else []
      | _ => [] := by
  have hother : ∀ m', (∀ msgs, m' ≠ Cw1Subkeys.Msg.execute msgs) → Cw1Subkeys.relayed s blk snd m' = [] := by
    intro m' hm'
    simp only [Cw1Subkeys.relayed]
    cases hr : Cw1Subkeys.execute s blk snd m' with
    | error e => rfl
    | ok r =>
      obtain ⟨s', out⟩ := r
      by_cases hne : out = []
      · simpa using hne
      · obtain ⟨msgs, hm⟩ := Sk.only_execute_relays hr hne; exact absurd hm (hm' msgs)
  cases m with
  | execute msgs =>
    have hiff := Sk.execute_ok_iff s blk snd msgs
    simp only [Cw1Subkeys.relayed]
    cases hr : Cw1Subkeys.execute s blk snd (.execute msgs) with
    | error e =>
      rw [hr] at hiff
      have : ¬ (s.cfg.isAdmin snd = true ∨ coveredSeq s blk snd msgs = true) :=
        fun h => by simpa [Res.isOk] using hiff.mpr h
      simp only [Bool.or_eq_true, this, if_false]
    | ok r =>
      obtain ⟨s', out⟩ := r
      rw [hr] at hiff
      have hin := hiff.mp rfl
      simp only [Bool.or_eq_true, hin, if_true, Sk.relay_exact hr]
  | freeze => exact hother _ (fun _ h => by cases h)
  | updateAdmins l => exact hother _ (fun _ h => by cases h)
  | increaseAllowance sp c e => exact hother _ (fun _ h => by cases h)
  | decreaseAllowance sp c e => exact hother _ (fun _ h => by cases h)
  | setPermissions sp p => exact hother _ (fun _ h => by cases h)

/-- Everything a history relays, in order. -/
def Sk.trace (s : Cw1Subkeys.State) : List (Block × Addr × Cw1Subkeys.Msg) → List CosmosMsg
  | [] => []
  | op :: rest => Cw1Subkeys.relayed s op.1 op.2.1 op.2.2 ++ Sk.trace (Cw1Subkeys.step s op.1 op.2.1 op.2.2) rest

theorem Sk.run_cons (s : Cw1Subkeys.State) (op : Block × Addr × Cw1Subkeys.Msg) (rest : List (Block × Addr × Cw1Subkeys.Msg)) :
    Sk.run s (op :: rest) = Sk.run (Cw1Subkeys.step s op.1 op.2.1 op.2.2) rest := rfl

theorem Sk.run_append (s : Cw1Subkeys.State) (a b : List (Block × Addr × Cw1Subkeys.Msg)) :
    Sk.run s (a ++ b) = Sk.run (Sk.run s a) b := by
  simp [Sk.run, List.foldl_append]

/-- C07 over whole histories: every message the proxy ever relays was submitted, in an `Execute` call of the
history, by a caller that at that point of the history was a current admin or held grants covering the whole
submitted list. -/
theorem Sk.trace_mem {s : Cw1Subkeys.State} {ops : List (Block × Addr × Cw1Subkeys.Msg)} {m : CosmosMsg}
    (h : m ∈ Sk.trace s ops) :
    ∃ pre blk snd msgs post, ops = pre ++ (blk, snd, .execute msgs) :: post ∧ m ∈ msgs ∧
      ((Sk.run s pre).cfg.isAdmin snd = true ∨ coveredSeq (Sk.run s pre) blk snd msgs = true) := by
  induction ops generalizing s with
  | nil => simp [Sk.trace] at h
  | cons op rest ih =>
    simp only [Sk.trace, List.mem_append] at h
    rcases h with h | h
    · obtain ⟨blk, snd, mm⟩ := op
      rw [Sk.relayed_eq] at h
      cases mm with
      | execute msgs =>
        simp only at h
        split at h
        · rename_i hc
          exact ⟨[], blk, snd, msgs, rest, rfl, h, by simpa [Sk.run] using hc⟩
        · cases h
      | _ => cases h
    · obtain ⟨pre, blk, snd, msgs, post, he, hm, hc⟩ := ih h
      exact ⟨op :: pre, blk, snd, msgs, post, by rw [he]; rfl, hm, by rw [Sk.run_cons]; exact hc⟩

/-- Without any grant nothing is covered. -/
theorem covers_without_grants (blk : Block) (m : CosmosMsg) : covers none blk none m = none := by
  cases m <;> rfl

/-- C07 (subkeys), "any other caller fails": somebody who is neither a current admin nor holds an allowance or a
permission record cannot relay any non-empty list (the empty list relays nothing and succeeds for anybody, as in
the Rust code). -/
theorem Sk.stranger_rejected {s : Cw1Subkeys.State} {blk : Block} {snd : Addr} {msgs : List CosmosMsg}
    (hna : s.cfg.isAdmin snd = false) (hal : s.allowances.get? snd = none) (hp : s.permissions.get? snd = none)
    (hne : msgs ≠ []) : ∃ e, Cw1Subkeys.execute s blk snd (.execute msgs) = .error e := by
  cases hr : Cw1Subkeys.execute s blk snd (.execute msgs) with
  | error e => exact ⟨e, rfl⟩
  | ok r =>
    exfalso
    have h := (Sk.execute_ok_iff s blk snd msgs).mp (by rw [hr]; rfl)
    rcases h with ha | hc
    · rw [hna] at ha; cases ha
    · cases msgs with
      | nil => exact hne rfl
      | cons m ms => simp [coveredSeq, coveredFrom, hal, hp, covers_without_grants] at hc

/-- A stranger relays nothing and changes nothing, whatever it submits. -/
theorem Sk.stranger_no_effect {s : Cw1Subkeys.State} {blk : Block} {snd : Addr} {msgs : List CosmosMsg}
    (hna : s.cfg.isAdmin snd = false) (hal : s.allowances.get? snd = none) (hp : s.permissions.get? snd = none) :
    Cw1Subkeys.relayed s blk snd (.execute msgs) = [] ∧ Cw1Subkeys.step s blk snd (.execute msgs) = s := by
  cases msgs with
  | nil => simp [Cw1Subkeys.relayed, Cw1Subkeys.step, Cw1Subkeys.execute, Cw1Subkeys.execExecute, hna,
      Cw1Subkeys.checkMsgs, bind, Except.bind, pure, Except.pure]
  | cons m ms =>
    obtain ⟨e, he⟩ := Sk.stranger_rejected (blk := blk) hna hal hp (List.cons_ne_nil m ms)
    exact ⟨(Sk.fail_no_relay he).2, (Sk.fail_no_relay he).1⟩

/-- Is the message a bank send? -/
def isBankSend : CosmosMsg → Bool
  | .bankSend _ _ => true
  | _ => false

/-- The part of coverage that depends only on the message kind and the caller's permission record: a bank send
passes (its amounts are the allowance's business), a staking / distribution message needs a record with the
matching flag, every other kind fails. -/
def permOk (perm : Option Permissions) : CosmosMsg → Bool
  | .bankSend _ _ => true
  | .staking k _ => match perm with | some p => stakingFlag k p | none => false
  | .distribution k _ => match perm with | some p => distrFlag k p | none => false
  | _ => false

/-- A message that is not a bank send is covered exactly when `permOk` holds, and leaves the allowance alone. -/
theorem covers_of_not_bank (perm : Option Permissions) (blk : Block) (al : Option Allowance) {m : CosmosMsg}
    (h : isBankSend m = false) : covers perm blk al m = if permOk perm m = true then some al else none := by
  cases m with
  | bankSend to cs => simp [isBankSend] at h
  | staking k p => cases perm <;> simp only [covers, permOk] <;> first | rfl | (split <;> simp_all)
  | distribution k p => cases perm <;> simp only [covers, permOk] <;> first | rfl | (split <;> simp_all)
  | _ => simp [covers, permOk]

/-- Covered messages satisfy `permOk`. -/
theorem covers_permOk {perm : Option Permissions} {blk : Block} {al al' : Option Allowance} {m : CosmosMsg}
    (h : covers perm blk al m = some al') : permOk perm m = true := by
  cases hb : isBankSend m
  · rw [covers_of_not_bank perm blk al hb] at h
    split at h
    · assumption
    · cases h
  · cases m <;> simp_all [isBankSend, permOk]

/-- For a list without bank sends coverage is just the permission flags, message by message: it depends neither on
the block nor on the allowance. -/
theorem coveredFrom_no_bank (perm : Option Permissions) (blk : Block) (al : Option Allowance) {msgs : List CosmosMsg}
    (h : ∀ m ∈ msgs, isBankSend m = false) : coveredFrom perm blk al msgs = msgs.all (permOk perm) := by
  induction msgs with
  | nil => rfl
  | cons m ms ih =>
    have hm := h m (by simp)
    have hms : ∀ x ∈ ms, isBankSend x = false := fun x hx => h x (by simp [hx])
    simp only [coveredFrom, covers_of_not_bank perm blk al hm, List.all_cons]
    cases hp : permOk perm m
    · simp
    · simp [ih hms]

/-- C07 (subkeys), permission flags for lists of any length: a non-admin's list of staking / distribution (or any
other non-bank) messages is accepted exactly when the caller has a permission record and every message of the list
is a staking / distribution message whose matching flag is set — whatever the block and whatever the allowances. -/
theorem Sk.flag_mapping_list (s : Cw1Subkeys.State) (blk : Block) (snd : Addr) (msgs : List CosmosMsg)
    (hna : s.cfg.isAdmin snd = false) (hnb : ∀ m ∈ msgs, isBankSend m = false) :
    (Cw1Subkeys.execute s blk snd (.execute msgs)).isOk = true ↔
      ∀ m ∈ msgs, permOk (s.permissions.get? snd) m = true := by
  rw [Sk.execute_ok_iff, coveredSeq, coveredFrom_no_bank _ _ _ hnb]
  simp [hna]

/-- Coverage implies `permOk` for every message of the list (bank sends included). -/
theorem coveredFrom_permOk {perm : Option Permissions} {blk : Block} {al : Option Allowance} {msgs : List CosmosMsg}
    (h : coveredFrom perm blk al msgs = true) : ∀ m ∈ msgs, permOk perm m = true := by
  induction msgs generalizing al with
  | nil => simp
  | cons m ms ih =>
    simp only [coveredFrom] at h
    split at h
    · rename_i al' hc
      intro x hx
      rcases List.mem_cons.mp hx with rfl | hx
      · exact covers_permOk hc
      · exact ih h x hx
    · cases h

/-! ## non-vacuity -/

def exState : Cw1Subkeys.State :=
  { cfg := ⟨["admin"], true⟩,
    allowances := [("sub", ⟨[("ua", 10), ("ub", 5)], .atHeight 100⟩)],
    permissions := [("sub", ⟨true, false, false, true⟩)] }

def blk50 : Block := ⟨50, 0⟩
def blk100 : Block := ⟨100, 0⟩

/-- a subkey's mixed list within its grants is accepted and relayed unchanged; the allowance is charged
cumulatively (4 + 6 = 10 ua: the coin disappears) -/
example : (Cw1Subkeys.execute exState blk50 "sub"
      (.execute [.bankSend "x" [("ua", 4)], .staking .delegate "v/1ua", .bankSend "y" [("ua", 6), ("ub", 1)]])).toOption =
    some ({ exState with allowances := [("sub", ⟨[("ub", 4)], .atHeight 100⟩)] },
         [.bankSend "x" [("ua", 4)], .staking .delegate "v/1ua", .bankSend "y" [("ua", 6), ("ub", 1)]]) := by decide

example : coveredSeq exState blk50 "sub" [.bankSend "x" [("ua", 4)], .bankSend "y" [("ua", 6)]] = true := by decide
/-- cumulatively too much -/
example : coveredSeq exState blk50 "sub" [.bankSend "x" [("ua", 4)], .bankSend "y" [("ua", 7)]] = false := by decide
/-- expired at height 100 -/
example : coveredSeq exState blk100 "sub" [.bankSend "x" [("ua", 1)]] = false := by decide
/-- a later forbidden message fails the whole list -/
example : (Cw1Subkeys.execute exState blk50 "sub" (.execute [.bankSend "x" [("ua", 4)], .wasm "w"])).isOk = false := by decide
example : (Cw1Subkeys.execute exState blk50 "sub" (.execute [.staking .undelegate "v"])).isOk = false := by decide
/-- the admin relays anything, a stranger only the empty list -/
example : (Cw1Subkeys.execute exState blk50 "admin" (.execute [.wasm "w", .bankBurn [("ua", 1)]])).isOk = true := by decide
example : (Cw1Subkeys.execute exState blk50 "stranger" (.execute [])).isOk = true := by decide
example : (Cw1Subkeys.execute exState blk50 "stranger" (.execute [.bankSend "x" []])).isOk = false := by decide
example : (Cw1Whitelist.execute ⟨["a", "b"], false⟩ blk50 "b" (.execute [.gov "g"])).isOk = true := by decide
example : (Cw1Whitelist.execute ⟨["a", "b"], false⟩ blk50 "c" (.execute [])).isOk = false := by decide

/-- `relayed_eq` on the running example, a covered and an uncovered list -/
example : Cw1Subkeys.relayed exState blk50 "sub" (.execute [.bankSend "x" [("ua", 4)], .staking .delegate "v"])
    = [.bankSend "x" [("ua", 4)], .staking .delegate "v"] := by decide
example : Cw1Subkeys.relayed exState blk50 "sub" (.execute [.bankSend "x" [("ua", 4)], .staking .undelegate "v"]) = [] := by decide
/-- `stranger_rejected`: its hypotheses hold of "stranger" in the running example -/
example : ∃ e, Cw1Subkeys.execute exState blk50 "stranger" (.execute [.staking .delegate "v"]) = .error e :=
  Sk.stranger_rejected (by decide) (by decide) (by decide) (by simp)
/-- `flag_mapping_list`: two flagged messages pass, a third unflagged one fails the list -/
example : (Cw1Subkeys.execute exState blk50 "sub" (.execute [.staking .delegate "v", .distribution .setWithdrawAddress "w"])).isOk = true :=
  (Sk.flag_mapping_list exState blk50 "sub" _ (by decide) (by decide)).mpr (by decide)
example : (Cw1Subkeys.execute exState blk100 "sub" (.execute [.staking .delegate "v", .staking .redelegate "w"])).isOk = false := by decide
/-- `trace_mem`: a history that relays something -/
example : Sk.trace exState [(blk50, "sub", .execute [.bankSend "x" [("ua", 4)]]), (blk50, "stranger", .execute [.wasm "w"]),
    (blk50, "admin", .execute [.wasm "w2"])] = [.bankSend "x" [("ua", 4)], .wasm "w2"] := by decide

end CwPlus.Props.C07
