import CwPlus.Lemmas.Cw4Raw
import CwPlus.Lemmas.Cw4StakeNodup
import CwPlus.Props.C09
import CwPlus.Props.C09Stake
/-!
# C09, last clause — the raw storage keys published by the cw4 spec return what the smart queries return

"The raw storage keys that the cw4 spec publishes for cross-contract reads return the same values as the smart
queries."  The cw4 spec publishes two keys for `WasmQuery::Raw`: `TOTAL_KEY = "total"` and
`member_key(addr) = "\x00\x07members" ++ addr`.  A raw query reads the contract's *byte-level* storage, so the
clause is about where cw-storage-plus puts `TOTAL` and `MEMBERS` and what bytes it stores there.

`Base/RawStore.lean` models that level (key layout of `Item` / `Map` / `SnapshotMap` / `SnapshotItem`, the JSON
text of the stored numbers), `Model/Cw4Raw.lean` gives the raw image `encode s` of a cw4-group / cw4-stake
model state.  This file proves:

1. **Key layout.**  Length-prefixed components are a prefix-free code (`lp_prefix_free`), map keys are injective
   in their parts (`mapKey_injective`), keys of different map namespaces never coincide (`mapKey_ns_disjoint`),
   a map key equals an item key *iff-style*: never when the item namespace does not start with the
   length-prefixed map namespace (`mapKey_ne_itemKey`), and such a collision does exist otherwise
   (`mapKey_itemKey_collision`); the twelve namespaces of the two contracts satisfy the conditions
   (`cw4_namespaces_disjoint`).  The two-byte length is injective only up to `0xFFFF` (`len2_collision`; the
   Rust code panics above).  `memberKey_eq_primary`: the formula the cw4 package publishes is the key
   cw-storage-plus really uses.
2. **Reads.**  For *every* state and *every* address string (also ones that contain the bytes of other
   namespaces, `__changelog`, length prefixes, …) reading `member_key(addr)` from `encode s` gives exactly the
   decimal digits of `MEMBERS.may_load(addr)` (`raw_member_eq_smart_group/_stake`), reading `"total"` gives
   the digits of the stored total (`raw_total_eq_smart_group/_stake`), and decoding them gives the answers of
   `Member { addr, at_height: None }` / `TotalWeight {}`.  Under the reachable-state invariant (one entry per
   member) the store holds at most one entry under each published key (`raw_member_unique_*`).
3. **Histories.**  After any accepted `instantiate` and any history of calls (`raw_reads_along_history_group`,
   `raw_reads_along_history_stake`): the raw total is present, equals `TotalWeight {}` and the sum of the
   members' weights; every raw member read equals the smart query.
4. **Decimal rendering**: `natDigits_roundtrip`.

What ties `encode` to the Rust code is the lock-step comparison of the observation field `rawkeys` (the real
storage dump against `encode` of the model state after every op; `Driver/Cw4Group.lean`, `Driver/Cw4Stake.lean`,
`harness/src/scen_cw4group.rs::render_raw_keys`).
-/
namespace CwPlus.Props.C09Raw
open CwPlus CwPlus.RawStore CwPlus.Cw4Raw CwPlus.Snapshot

/-! ## 1. Key layout -/

/-- Distinct strings have distinct UTF-8 byte strings. -/
theorem strBytes_injective {a b : String} (h : strBytes a = strBytes b) : a = b := strBytes_inj h

/-- `encode_length` is injective on lengths up to `0xFFFF` (the lengths for which the Rust code does not panic). -/
theorem len2_injective {a b : Nat} (ha : a ≤ 0xFFFF) (hb : b ≤ 0xFFFF) (h : len2 a = len2 b) : a = b :=
  len2_inj ha hb h

/-- The bound is needed: the two bytes wrap at `0x10000`. -/
theorem len2_collision : len2 0 = len2 0x10000 ∧ (0 : Nat) ≠ 0x10000 := by decide

/-- **Length-prefixed components are a prefix-free code**: if two texts that start with a length-prefixed
component are equal, the components are equal and so are the rests. -/
theorem lp_prefix_free {a b x y : Bytes} (ha : a.length ≤ 0xFFFF) (hb : b.length ≤ 0xFFFF)
    (h : lp a ++ x = lp b ++ y) : a = b ∧ x = y := lp_append_inj ha hb h

/-- **Map keys are injective** (`mapKey_injective`): two keys of maps with the same number of key parts, all
components at most `0xFFFF` bytes long, are equal only if namespace, every part and the last part are equal. -/
theorem mapKey_injective {ns ns' : Bytes} {ps qs : List Bytes} {k k' : Bytes} (hl : ps.length = qs.length)
    (hns : ns.length ≤ 0xFFFF) (hns' : ns'.length ≤ 0xFFFF) (hp : ∀ p ∈ ps, p.length ≤ 0xFFFF)
    (hq : ∀ q ∈ qs, q.length ≤ 0xFFFF) (h : mapKey ns ps k = mapKey ns' qs k') : ns = ns' ∧ ps = qs ∧ k = k' := by
  obtain ⟨h1, h2⟩ := mapKey_ns_inj hns hns' h
  obtain ⟨h3, h4⟩ := flatMap_lp_append_inj hl hp hq h2
  exact ⟨h1, h3, h4⟩

/-- The condition "same number of parts" is needed inside one namespace: a two-part key can equal a one-part
key whose last part happens to start with a length prefix.  (Every cw-storage-plus map has a fixed key type,
hence a fixed number of parts.) -/
theorem mapKey_arity_collision :
    mapKey NS.members [strBytes "a"] (strBytes "b") = mapKey NS.members [] ([0, 1] ++ strBytes "a" ++ strBytes "b") := by
  decide

/-- **Keys of different map namespaces never coincide**, whatever the key parts are (e.g. `members` /
`members__checkpoints` / `members__changelog`: the length prefixes 7 / 20 / 18 already differ). -/
theorem mapKey_ns_disjoint {ns ns' : Bytes} (hns : ns.length ≤ 0xFFFF) (hns' : ns'.length ≤ 0xFFFF) (hne : ns ≠ ns')
    (ps qs : List Bytes) (k k' : Bytes) : mapKey ns ps k ≠ mapKey ns' qs k' :=
  fun h => hne (mapKey_ns_inj hns hns' h).1

/-- **A map key is never an item key** when the item's namespace does not start with the length-prefixed map
namespace (an `Item` lives under the raw bytes of its namespace, a `Map` key starts with two length bytes). -/
theorem mapKey_ne_itemKey {ns ins : Bytes} (h : ¬ lp ns <+: ins) (ps : List Bytes) (k : Bytes) :
    mapKey ns ps k ≠ itemKey ins :=
  fun he => not_inNs_itemKey h ⟨ps, k, he.symm⟩

/-- The condition of `mapKey_ne_itemKey` is exact: an item whose namespace *does* start with the length-prefixed
namespace of a map shares its key with an entry of that map. -/
theorem mapKey_itemKey_collision {ns ins : Bytes} (h : lp ns <+: ins) : ∃ k, mapKey ns [] k = itemKey ins := by
  obtain ⟨r, hr⟩ := h
  exact ⟨r, by simp [mapKey, nsKey, itemKey, hr]⟩

/-- Such an exotic item exists (nobody declares it in cw4): `Item::new("\x00\x07membersbob")` would overwrite
the membership of `bob`. -/
theorem exotic_item_collides : itemKey ([0, 7] ++ strBytes "membersbob") = memberKey "bob" := by decide

/-- **The namespaces of cw4-group and cw4-stake are collision-free**: the item namespaces are pairwise distinct,
the map namespaces (primary maps, changelogs, checkpoints) are pairwise distinct and short enough for the
2-byte length, and no item namespace starts with a length-prefixed map namespace.  With `mapKey_ns_disjoint`
and `mapKey_ne_itemKey`: no key of one storage item is ever a key of another. -/
theorem cw4_namespaces_disjoint :
    NS.items.Nodup ∧ NS.maps.Nodup ∧ (∀ ns ∈ NS.maps, ns.length ≤ 0xFFFF)
      ∧ ∀ ins ∈ NS.items, ∀ ns ∈ NS.maps, ¬ lp ns <+: ins :=
  ⟨ns_items_nodup, ns_maps_nodup, ns_len_ok, ns_items_vs_maps⟩

/-- `u64::to_cw_bytes` is injective on `u64`. -/
theorem be8_injective {a b : Nat} (ha : a < 2 ^ 64) (hb : b < 2 ^ 64) (h : be8 a = be8 b) : a = b := be8_inj ha hb h

/-- **`cw4::member_key(addr)` is `MEMBERS.key(&addr)`**: the formula published for raw queries is the key
cw-storage-plus uses for the primary entry of the snapshot map. -/
theorem memberKey_eq_primary (addr : String) : memberKey addr = mapKey NS.members [] (strBytes addr) :=
  RawStore.memberKey_eq_primary addr

/-- Different addresses have different member keys. -/
theorem memberKey_injective {a b : String} (h : memberKey a = memberKey b) : a = b := by
  rw [RawStore.memberKey_eq_primary, RawStore.memberKey_eq_primary] at h
  exact membersPrimaryKey_inj h

/-- Changelog keys of `MEMBERS` determine address and height (addresses up to `0xFFFF` bytes — longer ones make
the Rust code panic —, heights in `u64`). -/
theorem membersChangelogKey_injective {a b : String} {h h' : Nat} (ha : (strBytes a).length ≤ 0xFFFF)
    (hb : (strBytes b).length ≤ 0xFFFF) (hh : h < 2 ^ 64) (hh' : h' < 2 ^ 64)
    (he : membersChangelogKey a h = membersChangelogKey b h') : a = b ∧ h = h' := by
  obtain ⟨_, hp, hk⟩ := mapKey_injective (ps := [strBytes a]) (qs := [strBytes b]) rfl (by decide) (by decide)
    (by simpa using ha) (by simpa using hb) he
  exact ⟨strBytes_inj (by simpa using hp), be8_inj hh hh' hk⟩

/-- A member key is never the total key, a changelog key, a checkpoint key, a stake or a claims key. -/
theorem memberKey_ne_others (addr : String) :
    memberKey addr ≠ totalKey ∧ (∀ a h, memberKey addr ≠ membersChangelogKey a h)
      ∧ (∀ h, memberKey addr ≠ totalChangelogKey h) ∧ (∀ h, memberKey addr ≠ checkpointKey NS.membersCheckpoints h)
      ∧ (∀ h, memberKey addr ≠ checkpointKey NS.totalCheckpoints h) ∧ (∀ a, memberKey addr ≠ stakeKey a)
      ∧ (∀ a, memberKey addr ≠ claimsKey a) := by
  rw [RawStore.memberKey_eq_primary]
  refine ⟨mapKey_ne_itemKey (by decide) _ _, fun a h => ?_, fun h => ?_, fun h => ?_, fun h => ?_, fun a => ?_, fun a => ?_⟩
    <;> exact mapKey_ns_disjoint (by decide) (by decide) (by decide) _ _ _ _

/-! ## 4. Decimal rendering (used by the reads) -/

/-- **Round trip of the decimal rendering**: parsing the digits of `n` gives `n`. -/
theorem natDigits_roundtrip (n : Nat) : parseNat (natDigits n) = some n := parseNat_natDigits n

/-- Different numbers have different digit strings. -/
theorem natDigits_injective {a b : Nat} (h : natDigits a = natDigits b) : a = b := natDigits_inj h

/-- The rendering consists of ASCII digits only. -/
theorem natDigits_ascii (n : Nat) : ∀ b ∈ natDigits n, 48 ≤ b ∧ b ≤ 57 := natDigits_lt n

example : natDigits 18446744073709551615 = strBytes "18446744073709551615" ∧ natDigits 0 = strBytes "0"
    ∧ parseNat (strBytes "007") = some 7 ∧ parseNat (strBytes "") = none ∧ parseNat (strBytes "1a") = none := by decide

/-! ## 2. Reads — cw4-group -/

section group
open CwPlus.Cw4Group

/-- Reading a member key sees only the primary section of `MEMBERS`. -/
theorem get?_memberKey_group (s : State) (addr : String) :
    get? (encode s) (memberKey addr) = (s.members.get? addr).map fun w => Val.bytes (natDigits w) := by
  have hk : ∀ ns ∈ NS.maps, ns ≠ NS.members → ¬ InNs ns (memberKey addr) := fun ns hns hne => by
    rw [RawStore.memberKey_eq_primary]
    exact not_inNs_mapKey (ns_len_ok ns hns) (by decide) hne _ _
  have hi : ∀ ins ∈ NS.items, itemKey ins ≠ memberKey addr := fun ins hins he => by
    rw [RawStore.memberKey_eq_primary] at he
    exact mapKey_ne_itemKey (ns_items_vs_maps ins hins NS.members (by decide)) _ _ he.symm
  have h1 : get? (encodeHooks s.hooks) (memberKey addr) = none :=
    get?_eq_none fun e he heq => hi NS.hooks (by decide) ((encodeHooks_keys _ e he) ▸ heq)
  have h2 : get? (encodeTotal s) (memberKey addr) = none := by
    unfold encodeTotal
    split
    · exact get?_eq_none fun e he heq => by
        simp at he; subst he; exact hi NS.total (by decide) heq
    · rfl
  have h3 : get? (encodeTotalLog s.total.log) (memberKey addr) = none :=
    get?_none_of_inNs (encodeTotalLog_inNs _) (hk _ (by decide) (by decide))
  have h4 : get? (encodeMembersLog s.members) (memberKey addr) = none :=
    get?_none_of_inNs (encodeMembersLog_inNs _) (hk _ (by decide) (by decide))
  have h0 : get? [(itemKey NS.contractInfo, Val.opaque), (itemKey NS.admin, Val.opaque)] (memberKey addr) = none :=
    get?_eq_none fun e he heq => by
      simp at he
      rcases he with rfl | rfl
      · exact hi NS.contractInfo (by decide) heq
      · exact hi NS.admin (by decide) heq
  have h5 := get?_encodeMembers s.members addr
  rw [← RawStore.memberKey_eq_primary] at h5
  simp only [encode, get?_append, h0, h1, h2, h3, h4, h5, Option.or_none, Option.none_or]

/-- Reading the total key sees only the primary entry of `TOTAL`. -/
theorem get?_totalKey_group (s : State) :
    get? (encode s) totalKey = s.total.cur.map fun t => Val.bytes (natDigits t) := by
  have hm : ∀ ns ∈ NS.maps, ¬ InNs ns totalKey := fun ns hns =>
    not_inNs_itemKey (ns_items_vs_maps NS.total (by decide) ns hns)
  have h0 : get? [(itemKey NS.contractInfo, Val.opaque), (itemKey NS.admin, Val.opaque)] totalKey = none := by decide
  have h1 : get? (encodeHooks s.hooks) totalKey = none :=
    get?_eq_none fun e he heq => by
      rw [encodeHooks_keys _ e he] at heq
      exact absurd heq (by decide)
  have h3 : get? (encodeTotalLog s.total.log) totalKey = none :=
    get?_none_of_inNs (encodeTotalLog_inNs _) (hm _ (by decide))
  have h4 : get? (encodeMembersLog s.members) totalKey = none :=
    get?_none_of_inNs (encodeMembersLog_inNs _) (hm _ (by decide))
  have h5 : get? (encodeMembers s.members) totalKey = none :=
    get?_none_of_inNs (encodeMembers_inNs _) (hm _ (by decide))
  have h2 : get? (encodeTotal s) totalKey = s.total.cur.map fun t => Val.bytes (natDigits t) := by
    unfold encodeTotal
    cases s.total.cur <;> simp [get?]
  simp only [encode, get?_append, h0, h1, h2, h3, h4, h5, Option.or_none, Option.none_or]

/-- **C09, raw member key (cw4-group).**  For every state and *every* address string — also ones containing the
bytes of other namespaces, `__checkpoints`, length prefixes, anything —, the bytes stored under
`cw4::member_key(addr)` are exactly the decimal digits of the weight that `Member { addr, at_height: None }`
reports (absent key ⇔ not a member); decoding the raw read gives the smart query's answer. -/
theorem raw_member_eq_smart_group (s : State) (addr : String) :
    get? (encode s) (memberKey addr) = (s.members.cur.get? addr).map (fun w => Val.bytes (natDigits w))
      ∧ readNat (encode s) (memberKey addr) = s.members.cur.get? addr
      ∧ queryMember s ⟨true, addr⟩ none = .ok (readNat (encode s) (memberKey addr))
      ∧ (get? (encode s) (memberKey addr) = none ↔ weight s addr = none) := by
  have h := get?_memberKey_group s addr
  have hr : readNat (encode s) (memberKey addr) = s.members.cur.get? addr := by
    unfold readNat
    rw [h]
    show _ = s.members.get? addr
    cases s.members.get? addr <;> simp [parseNat_natDigits]
  refine ⟨h, hr, ?_, ?_⟩
  · rw [hr]; rfl
  · rw [h]; unfold weight; cases s.members.get? addr <;> simp

/-- **C09, raw total key (cw4-group).**  For every state the bytes stored under `cw4::TOTAL_KEY` are exactly the
decimal digits of the stored total; the key is absent iff `TOTAL` holds nothing (then `TotalWeight {}` answers
0: `unwrap_or_default`); decoding the raw read (with the same default) gives `TotalWeight {}`. -/
theorem raw_total_eq_smart_group (s : State) :
    get? (encode s) totalKey = s.total.cur.map (fun t => Val.bytes (natDigits t))
      ∧ readNat (encode s) totalKey = s.total.cur
      ∧ (readNat (encode s) totalKey).getD 0 = queryTotalWeight s none
      ∧ (get? (encode s) totalKey = none ↔ s.total.cur = none) := by
  have h := get?_totalKey_group s
  have hr : readNat (encode s) totalKey = s.total.cur := by
    unfold readNat
    rw [h]
    cases s.total.cur <;> simp [parseNat_natDigits]
  refine ⟨h, hr, ?_, ?_⟩
  · rw [hr]; rfl
  · rw [h]; cases s.total.cur <;> simp

/-- **The published keys are unambiguous (cw4-group).**  On a state with one entry per member (every reachable
state: `Cw4Group.run_nodup`) the raw image holds at most one entry under `member_key(addr)` and at most one under
`"total"`: the first-match read of `get?` is *the* content of the key, as in a real key-value store. -/
theorem raw_member_unique_group (s : State) (hn : AMap.NodupKeys s.members.cur) (addr : String) :
    count (encode s) (memberKey addr) ≤ 1 ∧ count (encode s) totalKey ≤ 1 := by
  have hk : ∀ ns ∈ NS.maps, ns ≠ NS.members → ¬ InNs ns (memberKey addr) := fun ns hns hne => by
    rw [RawStore.memberKey_eq_primary]
    exact not_inNs_mapKey (ns_len_ok ns hns) (by decide) hne _ _
  have hi : ∀ ins ∈ NS.items, itemKey ins ≠ memberKey addr := fun ins hins he => by
    rw [RawStore.memberKey_eq_primary] at he
    exact mapKey_ne_itemKey (ns_items_vs_maps ins hins NS.members (by decide)) _ _ he.symm
  have hm : ∀ ns ∈ NS.maps, ¬ InNs ns totalKey := fun ns hns =>
    not_inNs_itemKey (ns_items_vs_maps NS.total (by decide) ns hns)
  constructor
  · have h0 : count [(itemKey NS.contractInfo, Val.opaque), (itemKey NS.admin, Val.opaque)] (memberKey addr) = 0 :=
      count_eq_zero fun e he heq => by
        simp at he
        rcases he with rfl | rfl
        · exact hi NS.contractInfo (by decide) heq
        · exact hi NS.admin (by decide) heq
    have h1 : count (encodeHooks s.hooks) (memberKey addr) = 0 :=
      count_eq_zero fun e he heq => hi NS.hooks (by decide) ((encodeHooks_keys _ e he) ▸ heq)
    have h2 : count (encodeTotal s) (memberKey addr) = 0 := by
      unfold encodeTotal
      split
      · exact count_eq_zero fun e he heq => by
          simp at he; subst he; exact hi NS.total (by decide) heq
      · rfl
    have h3 : count (encodeTotalLog s.total.log) (memberKey addr) = 0 :=
      count_zero_of_inNs (encodeTotalLog_inNs _) (hk _ (by decide) (by decide))
    have h4 : count (encodeMembersLog s.members) (memberKey addr) = 0 :=
      count_zero_of_inNs (encodeMembersLog_inNs _) (hk _ (by decide) (by decide))
    have h5 := count_encodeMembers s.members hn addr
    rw [← RawStore.memberKey_eq_primary] at h5
    simp only [encode, count_append, h0, h1, h2, h3, h4]
    omega
  · have h0 : count [(itemKey NS.contractInfo, Val.opaque), (itemKey NS.admin, Val.opaque)] totalKey = 0 := by decide
    have h1 : count (encodeHooks s.hooks) totalKey = 0 :=
      count_eq_zero fun e he heq => by
        rw [encodeHooks_keys _ e he] at heq
        exact absurd heq (by decide)
    have h2 : count (encodeTotal s) totalKey ≤ 1 := by
      unfold encodeTotal
      cases s.total.cur <;> simp [count]
    have h3 : count (encodeTotalLog s.total.log) totalKey = 0 :=
      count_zero_of_inNs (encodeTotalLog_inNs _) (hm _ (by decide))
    have h4 : count (encodeMembersLog s.members) totalKey = 0 :=
      count_zero_of_inNs (encodeMembersLog_inNs _) (hm _ (by decide))
    have h5 : count (encodeMembers s.members) totalKey = 0 :=
      count_zero_of_inNs (encodeMembers_inNs _) (hm _ (by decide))
    simp only [encode, count_append, h0, h1, h3, h4, h5]
    omega

/-- **C09, raw reads along every history (cw4-group).**  After any accepted `instantiate` and any history of
calls (any senders, heights, failed calls rolled back): the raw read of `"total"` is present and equals
`TotalWeight {}` — which is the sum of the current members' weights (`C09.total_eq_sum_members`) —, the raw read
of `member_key(addr)` equals `Member { addr }` for every address string, and both keys occur at most once. -/
theorem raw_reads_along_history_group {msg : InstMsg} {h0 : Nat} {s0 : State} (hi : instantiate msg h0 = .ok s0)
    (ops : List Op) (addr : String) :
    readNat (encode (run s0 ops)) totalKey = some (queryTotalWeight (run s0 ops) none)
      ∧ readNat (encode (run s0 ops)) totalKey = some (AMap.sum (run s0 ops).members.cur)
      ∧ readNat (encode (run s0 ops)) (memberKey addr) = weight (run s0 ops) addr
      ∧ count (encode (run s0 ops)) (memberKey addr) ≤ 1 ∧ count (encode (run s0 ops)) totalKey ≤ 1 := by
  obtain ⟨ht, hn, _⟩ := C09.run_inv ops (C09.instantiate_inv hi)
  have h1 := (raw_total_eq_smart_group (run s0 ops)).2.1
  have h2 := (raw_member_eq_smart_group (run s0 ops) addr).2.1
  have h3 := raw_member_unique_group (run s0 ops) hn addr
  refine ⟨?_, ?_, h2, h3.1, h3.2⟩
  · rw [h1, ht]; simp [queryTotalWeight, ht]
  · rw [h1, ht]

end group

/-! ## 2'. Reads — cw4-stake -/

section stake
open CwPlus.Cw4Stake

/-- Reading a member key sees only the primary section of `MEMBERS` (cw4-stake). -/
theorem get?_memberKey_stake (s : State) (addr : String) :
    get? (encode s) (memberKey addr) = (s.members.get? addr).map fun w => Val.bytes (natDigits w) := by
  have hk : ∀ ns ∈ NS.maps, ns ≠ NS.members → ¬ InNs ns (memberKey addr) := fun ns hns hne => by
    rw [RawStore.memberKey_eq_primary]
    exact not_inNs_mapKey (ns_len_ok ns hns) (by decide) hne _ _
  have hi : ∀ ins ∈ NS.items, itemKey ins ≠ memberKey addr := fun ins hins he => by
    rw [RawStore.memberKey_eq_primary] at he
    exact mapKey_ne_itemKey (ns_items_vs_maps ins hins NS.members (by decide)) _ _ he.symm
  have h0 : get? [(itemKey NS.contractInfo, Val.opaque), (itemKey NS.admin, Val.opaque), (itemKey NS.config, Val.opaque)]
      (memberKey addr) = none :=
    get?_eq_none fun e he heq => by
      simp at he
      rcases he with rfl | rfl | rfl
      · exact hi NS.contractInfo (by decide) heq
      · exact hi NS.admin (by decide) heq
      · exact hi NS.config (by decide) heq
  have h1 : get? (encodeHooks s.hooks) (memberKey addr) = none :=
    get?_eq_none fun e he heq => hi NS.hooks (by decide) ((encodeHooks_keys _ e he) ▸ heq)
  have h2 : get? [(totalKey, Val.bytes (natDigits s.total))] (memberKey addr) = none :=
    get?_eq_none fun e he heq => by
      simp at he; subst he; exact hi NS.total (by decide) heq
  have h4 : get? (encodeMembersLog s.members) (memberKey addr) = none :=
    get?_none_of_inNs (encodeMembersLog_inNs _) (hk _ (by decide) (by decide))
  have h6 : get? (encodeStake s.stake) (memberKey addr) = none :=
    get?_none_of_inNs (encodeStake_inNs _) (hk _ (by decide) (by decide))
  have h7 : get? (encodeClaims s.claims) (memberKey addr) = none :=
    get?_none_of_inNs (encodeClaims_inNs _) (hk _ (by decide) (by decide))
  have h5 := get?_encodeMembers s.members addr
  rw [← RawStore.memberKey_eq_primary] at h5
  simp only [encode, get?_append, h0, h1, h2, h4, h5, h6, h7, Option.or_none, Option.none_or]

/-- Reading the total key sees only the `TOTAL` item (cw4-stake). -/
theorem get?_totalKey_stake (s : State) : get? (encode s) totalKey = some (Val.bytes (natDigits s.total)) := by
  have h0 : get? [(itemKey NS.contractInfo, Val.opaque), (itemKey NS.admin, Val.opaque), (itemKey NS.config, Val.opaque)]
      totalKey = none := by decide
  have h1 : get? (encodeHooks s.hooks) totalKey = none :=
    get?_eq_none fun e he heq => by
      rw [encodeHooks_keys _ e he] at heq
      exact absurd heq (by decide)
  have h2 : get? [(totalKey, Val.bytes (natDigits s.total))] totalKey = some (Val.bytes (natDigits s.total)) := by
    simp [get?]
  simp only [encode, get?_append, h0, h1, h2, Option.none_or, Option.some_or]

/-- **C09, raw member key (cw4-stake).**  As for cw4-group: for every state and every address string the bytes
under `cw4::member_key(addr)` are the decimal digits of the weight `Member { addr, at_height: None }` reports. -/
theorem raw_member_eq_smart_stake (s : State) (addr : String) :
    get? (encode s) (memberKey addr) = (s.members.cur.get? addr).map (fun w => Val.bytes (natDigits w))
      ∧ readNat (encode s) (memberKey addr) = s.members.cur.get? addr
      ∧ queryMember s ⟨true, addr⟩ none = .ok (readNat (encode s) (memberKey addr))
      ∧ (get? (encode s) (memberKey addr) = none ↔ weightOf s addr = none) := by
  have h := get?_memberKey_stake s addr
  have hr : readNat (encode s) (memberKey addr) = s.members.cur.get? addr := by
    unfold readNat
    rw [h]
    show _ = s.members.get? addr
    cases s.members.get? addr <;> simp [parseNat_natDigits]
  refine ⟨h, hr, ?_, ?_⟩
  · rw [hr]; rfl
  · rw [h]; unfold weightOf; cases s.members.get? addr <;> simp

/-- **C09, raw total key (cw4-stake).**  `TOTAL` is a plain `Item<u64>` written by `instantiate`: the key `"total"`
is always present, holds the decimal digits of the total, and decoding it gives `TotalWeight {}`. -/
theorem raw_total_eq_smart_stake (s : State) :
    get? (encode s) totalKey = some (Val.bytes (natDigits s.total))
      ∧ readNat (encode s) totalKey = some (queryTotalWeight s) := by
  have h := get?_totalKey_stake s
  refine ⟨h, ?_⟩
  unfold readNat
  rw [h]
  simp [parseNat_natDigits, queryTotalWeight]

/-- **The published keys are unambiguous (cw4-stake)**, on every state with one entry per member (every
reachable state: `Cw4Stake.run_nodup`). -/
theorem raw_member_unique_stake (s : State) (hn : AMap.NodupKeys s.members.cur) (addr : String) :
    count (encode s) (memberKey addr) ≤ 1 ∧ count (encode s) totalKey ≤ 1 := by
  have hk : ∀ ns ∈ NS.maps, ns ≠ NS.members → ¬ InNs ns (memberKey addr) := fun ns hns hne => by
    rw [RawStore.memberKey_eq_primary]
    exact not_inNs_mapKey (ns_len_ok ns hns) (by decide) hne _ _
  have hi : ∀ ins ∈ NS.items, itemKey ins ≠ memberKey addr := fun ins hins he => by
    rw [RawStore.memberKey_eq_primary] at he
    exact mapKey_ne_itemKey (ns_items_vs_maps ins hins NS.members (by decide)) _ _ he.symm
  have hm : ∀ ns ∈ NS.maps, ¬ InNs ns totalKey := fun ns hns =>
    not_inNs_itemKey (ns_items_vs_maps NS.total (by decide) ns hns)
  constructor
  · have h0 : count [(itemKey NS.contractInfo, Val.opaque), (itemKey NS.admin, Val.opaque), (itemKey NS.config, Val.opaque)]
        (memberKey addr) = 0 :=
      count_eq_zero fun e he heq => by
        simp at he
        rcases he with rfl | rfl | rfl
        · exact hi NS.contractInfo (by decide) heq
        · exact hi NS.admin (by decide) heq
        · exact hi NS.config (by decide) heq
    have h1 : count (encodeHooks s.hooks) (memberKey addr) = 0 :=
      count_eq_zero fun e he heq => hi NS.hooks (by decide) ((encodeHooks_keys _ e he) ▸ heq)
    have h2 : count [(totalKey, Val.bytes (natDigits s.total))] (memberKey addr) = 0 :=
      count_eq_zero fun e he heq => by
        simp at he; subst he; exact hi NS.total (by decide) heq
    have h4 : count (encodeMembersLog s.members) (memberKey addr) = 0 :=
      count_zero_of_inNs (encodeMembersLog_inNs _) (hk _ (by decide) (by decide))
    have h6 : count (encodeStake s.stake) (memberKey addr) = 0 :=
      count_zero_of_inNs (encodeStake_inNs _) (hk _ (by decide) (by decide))
    have h7 : count (encodeClaims s.claims) (memberKey addr) = 0 :=
      count_zero_of_inNs (encodeClaims_inNs _) (hk _ (by decide) (by decide))
    have h5 := count_encodeMembers s.members hn addr
    rw [← RawStore.memberKey_eq_primary] at h5
    simp only [encode, count_append, h0, h1, h2, h4, h6, h7]
    omega
  · have h0 : count [(itemKey NS.contractInfo, Val.opaque), (itemKey NS.admin, Val.opaque), (itemKey NS.config, Val.opaque)]
        totalKey = 0 := by decide
    have h1 : count (encodeHooks s.hooks) totalKey = 0 :=
      count_eq_zero fun e he heq => by
        rw [encodeHooks_keys _ e he] at heq
        exact absurd heq (by decide)
    have h2 : count [(totalKey, Val.bytes (natDigits s.total))] totalKey = 1 := by simp [count]
    have h4 : count (encodeMembersLog s.members) totalKey = 0 :=
      count_zero_of_inNs (encodeMembersLog_inNs _) (hm _ (by decide))
    have h5 : count (encodeMembers s.members) totalKey = 0 :=
      count_zero_of_inNs (encodeMembers_inNs _) (hm _ (by decide))
    have h6 : count (encodeStake s.stake) totalKey = 0 :=
      count_zero_of_inNs (encodeStake_inNs _) (hm _ (by decide))
    have h7 : count (encodeClaims s.claims) totalKey = 0 :=
      count_zero_of_inNs (encodeClaims_inNs _) (hm _ (by decide))
    simp only [encode, count_append, h0, h1, h2, h4, h5, h6, h7]
    omega

/-- **C09, raw reads along every history (cw4-stake).**  After any accepted `instantiate` and any history of
transactions of the world (bond, cw20 send, unbond, claim, admin calls, donations; failed ones rolled back): the
raw read of `"total"` equals `TotalWeight {}`, which is the sum of the listed members' weights
(`C09Stake.total_eq_sum_members`); the raw read of `member_key(addr)` equals `Member { addr }` for every address
string; both keys occur at most once. -/
theorem raw_reads_along_history_stake {m : InstMsg} {st : State} (h : instantiate m = .ok st) (bal : AMap Addr Nat)
    (acc : List Addr) (ops : List (Block × Op)) (addr : String) :
    let s := (run (World.init st bal acc) ops).st
    readNat (encode s) totalKey = some (queryTotalWeight s)
      ∧ readNat (encode s) totalKey = some (AMap.sum (Paginate.sortedEntries Paginate.strLt s.members.cur))
      ∧ readNat (encode s) (memberKey addr) = weightOf s addr
      ∧ count (encode s) (memberKey addr) ≤ 1 ∧ count (encode s) totalKey ≤ 1 := by
  intro s
  have hn : AMap.NodupKeys s.members.cur := run_nodup (w := World.init st bal acc) (instantiate_nodup h) ops
  have h1 := (raw_total_eq_smart_stake s).2
  have h2 := (raw_member_eq_smart_stake s addr).2.1
  have h3 := raw_member_unique_stake s hn addr
  have h4 := (C09Stake.total_eq_sum_members h bal acc ops).1
  exact ⟨h1, by rw [h1]; exact congrArg some h4, h2, h3.1, h3.2⟩

end stake

/-! ## Both contracts at once -/

/-- **C09 `raw_total_eq_smart`** (both contracts, every state): decoding the bytes stored under `cw4::TOTAL_KEY`
gives the answer of `TotalWeight {}`. -/
theorem raw_total_eq_smart :
    (∀ s : Cw4Group.State, (readNat (Cw4Group.encode s) totalKey).getD 0 = Cw4Group.queryTotalWeight s none)
      ∧ (∀ s : Cw4Stake.State, readNat (Cw4Stake.encode s) totalKey = some (Cw4Stake.queryTotalWeight s)) :=
  ⟨fun s => (raw_total_eq_smart_group s).2.2.1, fun s => (raw_total_eq_smart_stake s).2⟩

/-- **C09 `raw_member_eq_smart`** (both contracts, every state, every address string): decoding the bytes stored
under `cw4::member_key(addr)` gives the answer of `Member { addr, at_height: None }`. -/
theorem raw_member_eq_smart (addr : String) :
    (∀ s : Cw4Group.State, Cw4Group.queryMember s ⟨true, addr⟩ none = .ok (readNat (Cw4Group.encode s) (memberKey addr)))
      ∧ (∀ s : Cw4Stake.State, Cw4Stake.queryMember s ⟨true, addr⟩ none = .ok (readNat (Cw4Stake.encode s) (memberKey addr))) :=
  ⟨fun s => (raw_member_eq_smart_group s addr).2.2.1, fun s => (raw_member_eq_smart_stake s addr).2.2.1⟩

/-! ## Non-vacuity: concrete states, exotic addresses -/

section examples
open CwPlus.Cw4Group

/-- The keys as bytes (what the harness prints in `rawkeys`). -/
example : totalKey = [116, 111, 116, 97, 108]
    ∧ memberKey "bob" = [0, 7, 109, 101, 109, 98, 101, 114, 115, 98, 111, 98]
    ∧ membersChangelogKey "bob" 12345
        = [0, 18] ++ strBytes "members__changelog" ++ [0, 3] ++ strBytes "bob" ++ [0, 0, 0, 0, 0, 0, 48, 57]
    ∧ totalChangelogKey 12345 = [0, 16] ++ strBytes "total__changelog" ++ [0, 0, 0, 0, 0, 0, 48, 57]
    ∧ stakeKey "bob" = [0, 5] ++ strBytes "stake" ++ strBytes "bob"
    ∧ changeSetJson (some 12) = strBytes "{\"old\":12}" ∧ changeSetJson none = strBytes "{\"old\":null}"
    ∧ quotedDigits 53 = strBytes "\"53\"" := by decide

/-- The layout lemmas on the cw4 namespaces: a member whose address ends in `__changelog` is not a changelog
entry of the address without the suffix; changelog keys separate addresses and heights; no member key is the key
of the (hypothetical) items named like the map namespaces. -/
example : membersPrimaryKey "x__changelog" ≠ membersChangelogKey "x" 1 :=
  mapKey_ns_disjoint (by decide) (by decide) (by decide) _ _ _ _

example : membersChangelogKey "ab" 1 ≠ membersChangelogKey "a" 1 ∧ membersChangelogKey "a" 1 ≠ membersChangelogKey "a" 2 :=
  ⟨fun h => absurd (membersChangelogKey_injective (by decide) (by decide) (by decide) (by decide) h).1 (by decide),
   fun h => absurd (membersChangelogKey_injective (by decide) (by decide) (by decide) (by decide) h).2 (by decide)⟩

example (addr : String) : memberKey addr ≠ itemKey (strBytes "members") := by
  rw [memberKey_eq_primary]; exact mapKey_ne_itemKey (by decide) _ _

example : lp NS.members ++ strBytes "bob" = lp NS.members ++ strBytes "bob" ∧ NS.members.length ≤ 0xFFFF := by decide

/-- The history of `C09.exState` / `C09.exOps` (alice 2, bob 4, carol 1 at the end). -/
example :
    let s := run C09.exState C09.exOps
    readNat (encode s) totalKey = some 7 ∧ readNat (encode s) (memberKey "alice") = some 2
      ∧ readNat (encode s) (memberKey "bob") = some 4 ∧ readNat (encode s) (memberKey "carol") = some 1
      ∧ readNat (encode s) (memberKey "dave") = none ∧ get? (encode s) (memberKey "alice") = some (.bytes [50])
      ∧ (encode s).length = 17 := by decide

/-- The history theorem applies to it. -/
example (addr : String) :
    readNat (encode (run C09.exState C09.exOps)) (memberKey addr) = weight (run C09.exState C09.exOps) addr :=
  (raw_reads_along_history_group (msg := C09.exInst) (h0 := 10) rfl C09.exOps addr).2.2.1

/-- Exotic member addresses: strings that contain other namespaces, the changelog suffix with a plausible
composite key behind it, a length prefix, the total key, the empty string.  Each is stored and read back under
its own key; none of them disturbs `"total"`, and `"__changelog…"` — whose member key *starts like* a changelog
key would if the length prefix were ignored — is just another member. -/
def exoticInst : InstMsg :=
  { admin := none,
    members := [(⟨true, "__changelog\x00\x03bob\x00\x00\x00\x00\x00\x00\x30\x39"⟩, 1), (⟨true, "total"⟩, 2), (⟨true, ""⟩, 3),
                (⟨true, "__checkpoints"⟩, 4), (⟨true, "\x00\x07membersbob"⟩, 5), (⟨true, "bob"⟩, 6)] }

def exoticState : State := (match instantiate exoticInst 10 with | .ok s => s | .error _ => State.empty)

example : instantiate exoticInst 10 = .ok exoticState := by rfl

example :
    let s := exoticState
    readNat (encode s) totalKey = some 21
      ∧ readNat (encode s) (memberKey "__changelog\x00\x03bob\x00\x00\x00\x00\x00\x00\x30\x39") = some 1
      ∧ readNat (encode s) (memberKey "total") = some 2 ∧ readNat (encode s) (memberKey "") = some 3
      ∧ readNat (encode s) (memberKey "__checkpoints") = some 4
      ∧ readNat (encode s) (memberKey "\x00\x07membersbob") = some 5 ∧ readNat (encode s) (memberKey "bob") = some 6
      ∧ readNat (encode s) (memberKey "__changelog") = none
      ∧ get? (encode s) (membersChangelogKey "bob" 12345) = none
      ∧ get? (encode s) (membersChangelogKey "bob" 10) = some (.bytes (changeSetJson none)) := by decide

example (addr : String) : readNat (encode exoticState) (memberKey addr) = weight exoticState addr :=
  (raw_reads_along_history_group (msg := exoticInst) (h0 := 10) rfl [] addr).2.2.1

/-- cw4-stake: the demo world of `C09Stake` (alice weight 2, bob weight 4). -/
example :
    let s := C09Stake.demoWorld.st
    readNat (Cw4Stake.encode s) totalKey = some 6 ∧ readNat (Cw4Stake.encode s) (memberKey "alice") = some 2
      ∧ readNat (Cw4Stake.encode s) (memberKey "bob") = some 4 ∧ readNat (Cw4Stake.encode s) (memberKey "carol") = none
      ∧ get? (Cw4Stake.encode s) (stakeKey "alice") = some (.bytes (quotedDigits 25))
      ∧ get? (Cw4Stake.encode s) (claimsKey "alice") = some .opaque := by decide

example (addr : String) :
    readNat (Cw4Stake.encode C09Stake.demoWorld.st) (memberKey addr) = Cw4Stake.weightOf C09Stake.demoWorld.st addr :=
  (raw_reads_along_history_stake C09Stake.inst_cfgMsg [("alice", 100), ("bob", 100)] [] C09Stake.demoOps addr).2.2.1

end examples

end CwPlus.Props.C09Raw
