import CwPlus.Props.C19
/-!
# cw20-base: the history theorems of C01 and C20 over histories that contain `migrate` calls

`migrate` is not an execute message, so the history theorems of `Props/C01.lean` and `Props/C20.lean`
(`reach_inv`, `listed_sum`, `supply_ledger`, `cw20_listings_complete`, …) quantify over execute calls only.
`Props/C19.lean` has the mixed history type (`C19.Op` = an execute call or a `migrate` call, `C19.runOps`;
a refused `migrate` is rolled back like any failing transaction).  This file lifts the C01 and C20 history
theorems to `C19.runOps`; it sits above C19 in the import order (C19 imports C01, C01 imports C20), which is
why these theorems are not in `C01.lean` / `C20.lean` themselves.  The mixed-history versions of C13 and C02
are in their own files (which import this one).

`migrate` writes only the cw2 version and `ALLOWANCES_SPENDER` (`migrate_frame`).
-/
namespace CwPlus.Props.Cw20Mixed
open CwPlus CwPlus.Cw20 CwPlus.Paginate
open CwPlus.Props.C19 (Op stepOp runOps)
open CwPlus.Props.C20 (okItems)

/-- **Frame of `migrate`**: a successful migration leaves balances, supply, minter record, the owner-keyed
allowance map, marketing info and logo exactly as they were (it writes the cw2 version and, below 0.14.0,
the spender-keyed allowance map). -/
theorem migrate_frame {s s' : State} (h : migrate s = .ok s') :
    s'.balances = s.balances ∧ s'.supply = s.supply ∧ s'.mint = s.mint ∧ s'.allow = s.allow
    ∧ s'.marketing = s.marketing ∧ s'.logo = s.logo := by
  unfold migrate at h
  simp at h
  obtain ⟨_, _, h⟩ := h
  split at h <;> (simp at h; subst h; exact ⟨rfl, rfl, rfl, rfl, rfl, rfl⟩)

/-- One transaction of a mixed history that is a `migrate` (accepted or refused) leaves the C01-relevant
part of the state alone. -/
theorem stepOp_migrate_frame (s : State) :
    (stepOp s .migrate).balances = s.balances ∧ (stepOp s .migrate).supply = s.supply
    ∧ (stepOp s .migrate).mint = s.mint ∧ (stepOp s .migrate).allow = s.allow := by
  cases hm : migrate s with
  | ok s' =>
    obtain ⟨h1, h2, h3, h4, _⟩ := migrate_frame hm
    simp only [stepOp, hm]; exact ⟨h1, h2, h3, h4⟩
  | error e => simp [stepOp, hm]

/-! ## C01 over mixed histories -/

/-- `migrate` preserves the C01 invariant. -/
theorem migrate_inv {s s' : State} (hi : C01.Inv s) (h : migrate s = .ok s') : C01.Inv s' := by
  obtain ⟨h1, h2, _⟩ := migrate_frame h
  unfold C01.Inv at *; rw [h1, h2]; exact hi

theorem stepOp_inv {s : State} (op : Op) (hi : C01.Inv s) : C01.Inv (stepOp s op) := by
  cases op with
  | exec blk snd msg => exact C01.step_inv blk snd msg hi
  | migrate =>
    obtain ⟨h1, h2, _⟩ := stepOp_migrate_frame s
    unfold C01.Inv at *; rw [h1, h2]; exact hi

/-- Any mixed history preserves the C01 invariant, from any state that has it (in particular from a migrated
legacy state whose balances add up to its supply). -/
theorem runOps_inv {s : State} (hi : C01.Inv s) (ops : List Op) : C01.Inv (runOps s ops) := by
  induction ops generalizing s with
  | nil => exact hi
  | cons op rest ih => exact ih (stepOp_inv op hi)

/-- **C01, main theorem over mixed histories**: after any accepted instantiation and any finite history of
execute calls *and* `migrate` calls in any order (failed ones rolled back), supply = Σ balances and fits
`Uint128`. -/
theorem reach_inv_mixed {m : InstMsg} {s : State} (h : instantiate m = .ok s) (ops : List Op) :
    C01.Inv (runOps s ops) :=
  runOps_inv (C01.instantiate_inv h) ops

theorem stepOp_nodup {s : State} (op : Op) (hi : NodupInv s) : NodupInv (stepOp s op) := by
  cases op with
  | exec blk snd msg => exact step_nodup blk snd msg hi
  | migrate =>
    cases hm : migrate s with
    | ok s' => simp only [stepOp, hm]; exact migrate_nodup hi hm
    | error e => simp only [stepOp, hm]; exact hi

/-- No map holds a key twice after any mixed history (uses `Lemmas/Cw20Nodup.migrate_nodup`). -/
theorem runOps_nodup {s : State} (hi : NodupInv s) (ops : List Op) : NodupInv (runOps s ops) := by
  induction ops generalizing s with
  | nil => exact hi
  | cons op rest ih => exact ih (stepOp_nodup op hi)

theorem reach_nodup_mixed {m : InstMsg} {s0 : State} (h : instantiate m = .ok s0) (ops : List Op) :
    NodupInv (runOps s0 ops) :=
  runOps_nodup (instantiate_nodup h) ops

/-- **C01 on the listed accounts, mixed histories**: after any accepted instantiation and any history of
execute and `migrate` calls, the `Balance` answers over the accounts obtained by paging `AllAccounts` to
completion (any limit other than 0) add up to the reported total supply. -/
theorem listed_sum_mixed {m : InstMsg} {s0 : State} (h : instantiate m = .ok s0) (ops : List Op)
    (limit : Option Nat) (hl : limit ≠ some 0) {fuel : Nat} (hf : (runOps s0 ops).balances.length + 1 ≤ fuel) :
    ((fetchLoop (fun c => queryAllAccounts (runOps s0 ops) c limit) id none fuel).map
        (C01.balanceOf (runOps s0 ops))).sum = C01.queryTotalSupply (runOps s0 ops) := by
  have hn := (reach_nodup_mixed h ops).balances
  rw [C20.all_accounts_complete hn limit hl hf, C01.sum_listed_eq hn]
  exact (reach_inv_mixed h ops).1.symm

/-- Ghost: amount minted by the successful `mint` calls of a mixed history (`migrate` mints nothing). -/
def mintedOps (s : State) : List Op → Nat
  | [] => 0
  | .exec blk snd msg :: rest => C01.mintedAt s (blk, snd, msg) + mintedOps (step s blk snd msg) rest
  | .migrate :: rest => mintedOps (stepOp s .migrate) rest

/-- Ghost: amount burned by the successful `burn` / `burnFrom` calls of a mixed history. -/
def burnedOps (s : State) : List Op → Nat
  | [] => 0
  | .exec blk snd msg :: rest => C01.burnedAt s (blk, snd, msg) + burnedOps (step s blk snd msg) rest
  | .migrate :: rest => burnedOps (stepOp s .migrate) rest

/-- **C01, history ledger over mixed histories**: `supply + burned = initial supply + minted`; migrations
contribute nothing. -/
theorem supply_ledger_mixed (s : State) (ops : List Op) :
    (runOps s ops).supply + burnedOps s ops = s.supply + mintedOps s ops := by
  induction ops generalizing s with
  | nil => rfl
  | cons op rest ih =>
    cases op with
    | exec blk snd msg =>
      have h1 := C01.step_ledger s (blk, snd, msg)
      have h2 := ih (step s blk snd msg)
      show (runOps (step s blk snd msg) rest).supply
          + (C01.burnedAt s (blk, snd, msg) + burnedOps (step s blk snd msg) rest)
        = s.supply + (C01.mintedAt s (blk, snd, msg) + mintedOps (step s blk snd msg) rest)
      simp only [] at h1
      omega
    | migrate =>
      have h1 := (stepOp_migrate_frame s).2.1
      have h2 := ih (stepOp s .migrate)
      show (runOps (stepOp s .migrate) rest).supply + burnedOps (stepOp s .migrate) rest
        = s.supply + mintedOps (stepOp s .migrate) rest
      omega

/-! ## C20 (the three cw20 listings) over mixed histories -/

/-- **All three cw20 listings are complete after any mixed history**: any accepted instantiation, any history
of execute and `migrate` calls, any owner/spender, any limit other than 0; from the start and from any cursor. -/
theorem cw20_listings_complete_mixed {m : InstMsg} {s0 : State} (h : instantiate m = .ok s0)
    (ops : List Op) (a : AddrArg) (hv : a.valid = true) (limit : Option Nat) (hl : limit ≠ some 0) :
    let s := runOps s0 ops
    (fetchLoop (fun c => queryAllAccounts s c limit) id none (s.balances.length + 1)
        = (sortedEntries strLt s.balances).map (·.1) ∧
    fetchLoop (fun c => okItems (queryOwnerAllowances s a c limit)) (·.1) none ((ownerPrefix s a.text).length + 1)
        = sortedEntries strLt (ownerPrefix s a.text) ∧
    fetchLoop (fun c => okItems (querySpenderAllowances s a c limit)) (·.1) none ((spenderPrefix s a.text).length + 1)
        = sortedEntries strLt (spenderPrefix s a.text)) ∧
    ∀ c : String,
    (fetchLoop (fun c => queryAllAccounts s c limit) id (some c) (s.balances.length + 1)
        = ((sortedEntries strLt s.balances).filter (fun x => strLt c x.1)).map (·.1) ∧
    fetchLoop (fun c => okItems (queryOwnerAllowances s a c limit)) (·.1) (some c) ((ownerPrefix s a.text).length + 1)
        = (sortedEntries strLt (ownerPrefix s a.text)).filter (fun x => strLt c x.1) ∧
    fetchLoop (fun c => okItems (querySpenderAllowances s a c limit)) (·.1) (some c) ((spenderPrefix s a.text).length + 1)
        = (sortedEntries strLt (spenderPrefix s a.text)).filter (fun x => strLt c x.1)) := by
  intro s
  have hi := reach_nodup_mixed h ops
  exact ⟨⟨C20.all_accounts_complete hi.balances limit hl (Nat.le_refl _),
      C20.owner_allowances_complete hi.allow a hv limit hl (Nat.le_refl _),
      C20.spender_allowances_complete hi.allowSp a hv limit hl (Nat.le_refl _)⟩,
    fun c => ⟨C20.all_accounts_complete_after hi.balances limit hl c (Nat.le_refl _),
      C20.owner_allowances_complete_after hi.allow a hv limit hl c (Nat.le_refl _),
      C20.spender_allowances_complete_after hi.allowSp a hv limit hl c (Nat.le_refl _)⟩⟩

/-- The same for a migrated legacy token: any state without duplicate keys (a storage state), migrated, then
any mixed history. -/
theorem cw20_listings_nodup_migrated {s s' : State} (hn : NodupInv s) (h : migrate s = .ok s') (ops : List Op) :
    NodupInv (runOps s' ops) :=
  runOps_nodup (migrate_nodup hn h) ops

/-! ## Non-vacuity -/

/-- A mixed history from the C01 example token: a transfer, a `migrate` (accepted: same version, nothing to do),
a mint, a burn, another `migrate`. -/
def exMixed : List Op :=
  [ .exec C01.exBlk "alice" (.transfer ⟨true, "bob"⟩ 40),
    .migrate,
    .exec C01.exBlk "minter" (.mint ⟨true, "dave"⟩ 50),
    .exec C01.exBlk "bob" (.burn 5),
    .migrate ]

example : (runOps C01.exState exMixed).supply = 170
    ∧ (runOps C01.exState exMixed).balances = [("alice", 60), ("bob", 60), ("carol", 0), ("dave", 50)] := by decide
example : mintedOps C01.exState exMixed = 50 ∧ burnedOps C01.exState exMixed = 5 := ⟨by rfl, by rfl⟩
example : C01.Inv (runOps C01.exState exMixed) := reach_inv_mixed (m := C01.exInst) rfl exMixed
example : (runOps C01.exState exMixed).supply + burnedOps C01.exState exMixed
    = C01.exState.supply + mintedOps C01.exState exMixed := supply_ledger_mixed _ _
example : ((fetchLoop (fun c => queryAllAccounts (runOps C01.exState exMixed) c (some 3)) id none 5).map
      (C01.balanceOf (runOps C01.exState exMixed))).sum = C01.queryTotalSupply (runOps C01.exState exMixed) :=
  listed_sum_mixed (m := C01.exInst) rfl exMixed (some 3) (by decide) (by decide)
/-- `migrate_frame` on the legacy state of C19 (a migration that does rebuild the spender map). -/
example : C19.exMigrated.balances = C19.exLegacy.balances ∧ C19.exMigrated.supply = C19.exLegacy.supply :=
  let h := migrate_frame (s := C19.exLegacy) (s' := C19.exMigrated) rfl
  ⟨h.1, h.2.1⟩

end CwPlus.Props.Cw20Mixed
