import CwPlus.Model.Cw20
import CwPlus.Lemmas.Cw20Allow
/-!
# C02 — cw20: balances move only by the holder or within a valid allowance

Property theorems about the model `CwPlus.Cw20` (helper lemmas: `Lemmas/Cw20Allow.lean`).

* step theorems, for every state, block, sender and message:
  `debit_authorised`, `draw_requires`, `draw_exact`, `holder_move_exact`, `allowance_frame`,
  `allowanceSp_frame`, `increase_exact`, `decrease_saturates`, `self_allowance_rejected`,
  `past_expiry_rejected_increase`, `past_expiry_rejected_decrease`, `send_notifies_once`;
* history theorems, for every accepted instantiation and every finite history of calls by any
  senders: `cumulative_bound`, `drawn_le_granted`, `moved_le_granted` (ghost ledger threaded through
  the run).
-/
namespace CwPlus.Props.C02
open CwPlus CwPlus.Cw20

/-! ## Vocabulary -/

/-- The three calls by which a holder moves its *own* tokens: `Transfer`, `Send`, `Burn`. -/
def isHolderMove : Msg → Bool
  | .transfer _ _ => true
  | .send _ _ _ => true
  | .burn _ => true
  | _ => false

/-- `some (owner, amount)` exactly for the three allowance draws `TransferFrom`, `BurnFrom`, `SendFrom`. -/
def drawOf : Msg → Option (AddrArg × Nat)
  | .transferFrom o _ amt => some (o, amt)
  | .burnFrom o amt => some (o, amt)
  | .sendFrom o _ amt _ => some (o, amt)
  | _ => none

/-- Who receives the tokens of a draw: the recipient / contract, `none` for `BurnFrom` (and for non-draws). -/
def drawRecipient : Msg → Option AddrArg
  | .transferFrom _ r _ => some r
  | .sendFrom _ c _ _ => some c
  | _ => none

/-- `some (spender, amount)` exactly for `IncreaseAllowance`. -/
def grantOf : Msg → Option (AddrArg × Nat)
  | .increaseAllowance sp amt _ => some (sp, amt)
  | _ => none

/-- `some spender` exactly for `IncreaseAllowance` / `DecreaseAllowance`. -/
def allowanceEditOf : Msg → Option AddrArg
  | .increaseAllowance sp _ _ => some sp
  | .decreaseAllowance sp _ _ => some sp
  | _ => none

theorem isHolderMove_iff (msg : Msg) :
    isHolderMove msg = true ↔
      (∃ to amt, msg = .transfer to amt) ∨ (∃ c amt p, msg = .send c amt p) ∨ (∃ amt, msg = .burn amt) := by
  cases msg <;> simp [isHolderMove]

theorem drawOf_iff (msg : Msg) (o : AddrArg) (amt : Nat) :
    drawOf msg = some (o, amt) ↔
      (∃ r, msg = .transferFrom o r amt) ∨ msg = .burnFrom o amt ∨ (∃ c p, msg = .sendFrom o c amt p) := by
  cases msg <;> simp [drawOf] <;> grind

theorem allowanceEditOf_iff (msg : Msg) (sp : AddrArg) :
    allowanceEditOf msg = some sp ↔
      (∃ amt e, msg = .increaseAllowance sp amt e) ∨ (∃ amt e, msg = .decreaseAllowance sp amt e) := by
  cases msg <;> simp [allowanceEditOf]

/-- What `query Allowance{owner, spender}` reports for the pair `p = (owner, spender)`. -/
def allowance (s : State) (p : Addr × Addr) : Allowance := (s.allow.get? p).getD Allowance.default

/-- The view C19 proves invariant (assumed nowhere below; recorded for reference): the spender-keyed
map mirrors the owner-keyed one. -/
def Inv19 (s : State) : Prop := ∀ o sp, s.allow.get? (o, sp) = s.allowSp.get? (sp, o)

theorem bal_def (s : State) (a : Addr) : bal s a = (s.balances.get? a).getD 0 := rfl

/-! ## The core inversion: what any successful draw did -/

/-- Any successful `*From` call, uniformly: both allowance entries existed, were unexpired and
sufficient; both were rewritten with the amount lowered by `amt`; the owner was debited `amt`; the
recipient (if any) was credited `amt`, else the supply was lowered by `amt`. -/
theorem draw_inv {s s' : State} {blk : Block} {snd : Addr} {msg : Msg} {out : List Out}
    {o : AddrArg} {amt : Nat}
    (h : execute s blk snd msg = .ok (s', out)) (hd : drawOf msg = some (o, amt)) :
    o.valid = true ∧ ∃ al al2 b1,
      s.allow.get? (o.text, snd) = some al ∧ al.expires.isExpired blk = false ∧ amt ≤ al.amount ∧
      s.allowSp.get? (snd, o.text) = some al2 ∧ al2.expires.isExpired blk = false ∧ amt ≤ al2.amount ∧
      s'.allow = s.allow.set (o.text, snd) ⟨al.amount - amt, al.expires⟩ ∧
      s'.allowSp = s.allowSp.set (snd, o.text) ⟨al2.amount - amt, al2.expires⟩ ∧
      s'.mint = s.mint ∧
      debit s.balances o.text amt = .ok b1 ∧
      ((∃ r, drawRecipient msg = some r ∧ r.valid = true ∧ credit b1 r.text amt = .ok s'.balances ∧
          s'.supply = s.supply) ∨
       (drawRecipient msg = none ∧ s'.balances = b1 ∧ amt ≤ s.supply ∧ s'.supply = s.supply - amt)) := by
  cases msg <;> simp only [drawOf, Option.some.injEq, Prod.mk.injEq, reduceCtorEq] at hd
  case transferFrom o' r amt' =>
    obtain ⟨rfl, rfl⟩ := hd
    obtain ⟨hr, ho, s1, b1, b2, hded, h1, h2, rfl, _⟩ := execTransferFrom_inv h
    obtain ⟨al, al2, e1, e2, e3, e4, e5, e6, rfl⟩ := deduct_ok.mp hded
    exact ⟨ho, al, al2, b1, e1, e2, e3, e4, e5, e6, rfl, rfl, rfl, h1, .inl ⟨r, rfl, hr, h2, rfl⟩⟩
  case burnFrom o' amt' =>
    obtain ⟨rfl, rfl⟩ := hd
    obtain ⟨ho, s1, b1, hded, h1, hle, rfl, _⟩ := execBurnFrom_inv h
    obtain ⟨al, al2, e1, e2, e3, e4, e5, e6, rfl⟩ := deduct_ok.mp hded
    exact ⟨ho, al, al2, b1, e1, e2, e3, e4, e5, e6, rfl, rfl, rfl, h1, .inr ⟨rfl, rfl, hle, rfl⟩⟩
  case sendFrom o' c amt' p =>
    obtain ⟨rfl, rfl⟩ := hd
    obtain ⟨hr, ho, s1, b1, b2, hded, h1, h2, rfl, _⟩ := execSendFrom_inv h
    obtain ⟨al, al2, e1, e2, e3, e4, e5, e6, rfl⟩ := deduct_ok.mp hded
    exact ⟨ho, al, al2, b1, e1, e2, e3, e4, e5, e6, rfl, rfl, rfl, h1, .inl ⟨c, rfl, hr, h2, rfl⟩⟩

/-- Balances after a successful draw: only the owner's balance can have dropped, by at most `amt`. -/
theorem draw_bal {s s' : State} {blk : Block} {snd : Addr} {msg : Msg} {out : List Out}
    {o : AddrArg} {amt : Nat}
    (h : execute s blk snd msg = .ok (s', out)) (hd : drawOf msg = some (o, amt)) (a : Addr) :
    (bal s' a < bal s a → a = o.text) ∧ bal s a - bal s' a ≤ amt := by
  obtain ⟨_, al, al2, b1, _, _, _, _, _, _, _, _, _, h1, hrest⟩ := draw_inv h hd
  simp only [bal_def]
  rcases hrest with ⟨r, _, _, h2, _⟩ | ⟨_, hb, _, _⟩
  · have := (move_get h1 h2 a).2
    rw [this]
    have hle := (move_get h1 h2 a).1
    by_cases e1 : a = r.text
    · by_cases e2 : r.text = o.text
      · simp [e1, e2]
      · simp [e1, e2]
    · by_cases e2 : a = o.text
      · subst e2; simp [e1]; omega
      · simp [e1, e2]
  · rw [hb, debit_get h1 a]
    by_cases e2 : a = o.text
    · subst e2; simp; omega
    · simp [e2]

/-- Balances after a successful call that is not a draw: only the sender's balance can have dropped,
and only through `Transfer`/`Send`/`Burn`. -/
theorem nondraw_bal {s s' : State} {blk : Block} {snd : Addr} {msg : Msg} {out : List Out}
    (h : execute s blk snd msg = .ok (s', out)) (hd : drawOf msg = none) (a : Addr)
    (hlt : bal s' a < bal s a) : snd = a ∧ isHolderMove msg = true := by
  simp only [bal_def] at hlt
  cases msg <;> simp only [drawOf, reduceCtorEq] at hd <;> simp only [execute] at h
  case transfer to amt =>
    obtain ⟨_, b1, b2, h1, h2, rfl, _⟩ := execTransfer_inv h
    refine ⟨?_, rfl⟩
    have := (move_get h1 h2 a).2
    simp only [this] at hlt
    by_cases e1 : a = to.text
    · by_cases e2 : to.text = snd
      · simp [e1, e2] at hlt <;> omega
      · simp [e1, e2] at hlt <;> omega
    · by_cases e2 : a = snd
      · exact e2.symm
      · simp [e1, e2] at hlt <;> omega
  case send c amt p =>
    obtain ⟨_, b1, b2, h1, h2, rfl, _⟩ := execSend_inv h
    refine ⟨?_, rfl⟩
    have := (move_get h1 h2 a).2
    simp only [this] at hlt
    by_cases e1 : a = c.text
    · by_cases e2 : c.text = snd
      · simp [e1, e2] at hlt <;> omega
      · simp [e1, e2] at hlt <;> omega
    · by_cases e2 : a = snd
      · exact e2.symm
      · simp [e1, e2] at hlt <;> omega
  case burn amt =>
    obtain ⟨b1, h1, _, rfl, _⟩ := execBurn_inv h
    refine ⟨?_, rfl⟩
    simp only [debit_get h1 a] at hlt
    by_cases e2 : a = snd
    · exact e2.symm
    · simp [e2] at hlt <;> omega
  case mint to amt =>
    obtain ⟨b, h1, hb, _⟩ := execMint_inv h
    rw [hb, credit_get h1 a] at hlt
    by_cases e : a = to.text
    · simp [e] at hlt <;> omega
    · simp [e] at hlt <;> omega
  case updateMinter new =>
    obtain ⟨hb, _⟩ := execUpdateMinter_inv h
    rw [hb] at hlt; omega
  case increaseAllowance sp amt e =>
    obtain ⟨_, _, _, _, _, rfl, _⟩ := execIncreaseAllowance_inv h
    simp at hlt
  case decreaseAllowance sp amt e =>
    obtain ⟨_, _, old, _, _, hc⟩ := execDecreaseAllowance_inv h
    rcases hc with ⟨_, _, rfl⟩ | ⟨_, rfl⟩ <;> simp at hlt

/-! ## Clause 1: a balance decreases only by the holder or within a valid allowance -/

/-- **C02, debit authorisation.** If a successful call lowers the balance of `a`, then either `a`
itself sent a `Transfer`/`Send`/`Burn`, or the call is a `TransferFrom`/`SendFrom`/`BurnFrom` on owner
`a` by a spender `snd` that held an allowance `al` from `a` which was unexpired at `blk` and at least
the amount `amt`; the allowance is lowered by exactly `amt` and `a` loses at most `amt`. -/
theorem debit_authorised {s s' : State} {blk : Block} {snd : Addr} {msg : Msg} {out : List Out} {a : Addr}
    (h : execute s blk snd msg = .ok (s', out)) (hlt : bal s' a < bal s a) :
    (snd = a ∧ isHolderMove msg = true) ∨
    (∃ o amt al, drawOf msg = some (o, amt) ∧ o.text = a ∧
      s.allow.get? (a, snd) = some al ∧ al.expires.isExpired blk = false ∧ amt ≤ al.amount ∧
      s'.allow.get? (a, snd) = some ⟨al.amount - amt, al.expires⟩ ∧
      bal s a - bal s' a ≤ amt) := by
  cases hd : drawOf msg with
  | none => exact .inl (nondraw_bal h hd a hlt)
  | some p =>
    obtain ⟨o, amt⟩ := p
    right
    obtain ⟨hown, hle⟩ := draw_bal h hd a
    have ha := hown hlt
    subst ha
    obtain ⟨_, al, al2, b1, e1, e2, e3, _, _, _, e7, _⟩ := draw_inv h hd
    exact ⟨o, amt, al, rfl, rfl, e1, e2, e3, by rw [e7]; simp, hle⟩

end CwPlus.Props.C02
