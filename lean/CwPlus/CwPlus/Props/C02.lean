import CwPlus.Model.Cw20
import CwPlus.Lemmas.Cw20Draw
import CwPlus.Lemmas.Cw20Marketing
import CwPlus.Props.Cw20Mixed
/-!
# C02 — cw20: balances move only by the holder or within a valid allowance

Property theorems about the model `CwPlus.Cw20` (helper lemmas: `Lemmas/Cw20Allow.lean`).

* step theorems, for every state, block, sender and message:
  `debit_authorised`, `draw_requires`, `draw_exact`, `holder_move_exact`, `allowance_frame`,
  `allowanceSp_frame`, `increase_exact`, `decrease_saturates`, `self_allowance_rejected`,
  `past_expiry_rejected_increase`, `past_expiry_rejected_decrease`, `send_notifies_once`;
* history theorems, for every accepted instantiation and every finite history of calls by any
  senders: `cumulative_bound`, `drawn_le_granted`, `moved_le_granted` (ghost ledger threaded through
  the run).
-/
namespace CwPlus.Props.C02
open CwPlus CwPlus.Cw20

/-! ## Vocabulary -/

/-- The three calls by which a holder moves its *own* tokens: `Transfer`, `Send`, `Burn`. -/
def isHolderMove : Msg → Bool
  | .transfer _ _ => true
  | .send _ _ _ => true
  | .burn _ => true
  | _ => false

/-- `some (owner, amount)` exactly for the three allowance draws `TransferFrom`, `BurnFrom`, `SendFrom`. -/
def drawOf : Msg → Option (AddrArg × Nat)
  | .transferFrom o _ amt => some (o, amt)
  | .burnFrom o amt => some (o, amt)
  | .sendFrom o _ amt _ => some (o, amt)
  | _ => none

/-- Who receives the tokens of a draw: the recipient / contract, `none` for `BurnFrom` (and for non-draws). -/
def drawRecipient : Msg → Option AddrArg
  | .transferFrom _ r _ => some r
  | .sendFrom _ c _ _ => some c
  | _ => none

/-- `some (spender, amount)` exactly for `IncreaseAllowance`. -/
def grantOf : Msg → Option (AddrArg × Nat)
  | .increaseAllowance sp amt _ => some (sp, amt)
  | _ => none

/-- `some spender` exactly for `IncreaseAllowance` / `DecreaseAllowance`. -/
def allowanceEditOf : Msg → Option AddrArg
  | .increaseAllowance sp _ _ => some sp
  | .decreaseAllowance sp _ _ => some sp
  | _ => none

theorem isHolderMove_iff (msg : Msg) :
    isHolderMove msg = true ↔
      (∃ to amt, msg = .transfer to amt) ∨ (∃ c amt p, msg = .send c amt p) ∨ (∃ amt, msg = .burn amt) := by
  cases msg <;> simp [isHolderMove]

theorem drawOf_iff (msg : Msg) (o : AddrArg) (amt : Nat) :
    drawOf msg = some (o, amt) ↔
      (∃ r, msg = .transferFrom o r amt) ∨ msg = .burnFrom o amt ∨ (∃ c p, msg = .sendFrom o c amt p) := by
  cases msg <;> simp [drawOf] <;> grind

theorem allowanceEditOf_iff (msg : Msg) (sp : AddrArg) :
    allowanceEditOf msg = some sp ↔
      (∃ amt e, msg = .increaseAllowance sp amt e) ∨ (∃ amt e, msg = .decreaseAllowance sp amt e) := by
  cases msg <;> simp [allowanceEditOf]

/-- What `query Allowance{owner, spender}` reports for the pair `p = (owner, spender)`. -/
def allowance (s : State) (p : Addr × Addr) : Allowance := (s.allow.get? p).getD Allowance.default

/-- The view C19 proves invariant (assumed nowhere below; recorded for reference): the spender-keyed
map mirrors the owner-keyed one. -/
def Inv19 (s : State) : Prop := ∀ o sp, s.allow.get? (o, sp) = s.allowSp.get? (sp, o)

theorem bal_def (s : State) (a : Addr) : bal s a = (s.balances.get? a).getD 0 := rfl

/-! ## The core inversion: what any successful draw did -/

/-- Any successful `*From` call, uniformly: both allowance entries existed, were unexpired and
sufficient; both were rewritten with the amount lowered by `amt`; the owner was debited `amt`; the
recipient (if any) was credited `amt`, else the supply was lowered by `amt`. -/
theorem draw_inv {s s' : State} {blk : Block} {snd : Addr} {msg : Msg} {out : List Out}
    {o : AddrArg} {amt : Nat}
    (h : execute s blk snd msg = .ok (s', out)) (hd : drawOf msg = some (o, amt)) :
    o.valid = true ∧ ∃ al al2 b1,
      s.allow.get? (o.text, snd) = some al ∧ al.expires.isExpired blk = false ∧ amt ≤ al.amount ∧
      s.allowSp.get? (snd, o.text) = some al2 ∧ al2.expires.isExpired blk = false ∧ amt ≤ al2.amount ∧
      s'.allow = s.allow.set (o.text, snd) ⟨al.amount - amt, al.expires⟩ ∧
      s'.allowSp = s.allowSp.set (snd, o.text) ⟨al2.amount - amt, al2.expires⟩ ∧
      s'.mint = s.mint ∧
      debit s.balances o.text amt = .ok b1 ∧
      ((∃ r, drawRecipient msg = some r ∧ r.valid = true ∧ credit b1 r.text amt = .ok s'.balances ∧
          s'.supply = s.supply) ∨
       (drawRecipient msg = none ∧ s'.balances = b1 ∧ amt ≤ s.supply ∧ s'.supply = s.supply - amt)) := by
  cases msg <;> simp only [drawOf, Option.some.injEq, Prod.mk.injEq, reduceCtorEq] at hd
  case transferFrom o' r amt' =>
    obtain ⟨rfl, rfl⟩ := hd
    obtain ⟨hr, ho, s1, b1, b2, hded, h1, h2, rfl, _⟩ := execTransferFrom_inv h
    obtain ⟨al, al2, e1, e2, e3, e4, e5, e6, rfl⟩ := deduct_ok.mp hded
    exact ⟨ho, al, al2, b1, e1, e2, e3, e4, e5, e6, rfl, rfl, rfl, h1, .inl ⟨r, rfl, hr, h2, rfl⟩⟩
  case burnFrom o' amt' =>
    obtain ⟨rfl, rfl⟩ := hd
    obtain ⟨ho, s1, b1, hded, h1, hle, rfl, _⟩ := execBurnFrom_inv h
    obtain ⟨al, al2, e1, e2, e3, e4, e5, e6, rfl⟩ := deduct_ok.mp hded
    exact ⟨ho, al, al2, b1, e1, e2, e3, e4, e5, e6, rfl, rfl, rfl, h1, .inr ⟨rfl, rfl, hle, rfl⟩⟩
  case sendFrom o' c amt' p =>
    obtain ⟨rfl, rfl⟩ := hd
    obtain ⟨hr, ho, s1, b1, b2, hded, h1, h2, rfl, _⟩ := execSendFrom_inv h
    obtain ⟨al, al2, e1, e2, e3, e4, e5, e6, rfl⟩ := deduct_ok.mp hded
    exact ⟨ho, al, al2, b1, e1, e2, e3, e4, e5, e6, rfl, rfl, rfl, h1, .inl ⟨c, rfl, hr, h2, rfl⟩⟩

/-- Balances after a successful draw: only the owner's balance can have dropped, by at most `amt`. -/
theorem draw_bal {s s' : State} {blk : Block} {snd : Addr} {msg : Msg} {out : List Out}
    {o : AddrArg} {amt : Nat}
    (h : execute s blk snd msg = .ok (s', out)) (hd : drawOf msg = some (o, amt)) (a : Addr) :
    (bal s' a < bal s a → a = o.text) ∧ bal s a - bal s' a ≤ amt := by
  obtain ⟨_, al, al2, b1, _, _, _, _, _, _, _, _, _, h1, hrest⟩ := draw_inv h hd
  simp only [bal_def]
  rcases hrest with ⟨r, _, _, h2, _⟩ | ⟨_, hb, _, _⟩
  · have := (move_get h1 h2 a).2
    rw [this]
    have hle := (move_get h1 h2 a).1
    by_cases e1 : a = r.text
    · by_cases e2 : r.text = o.text
      · simp [e1, e2]
      · simp [e1, e2]
    · by_cases e2 : a = o.text
      · subst e2; simp [e1]; omega
      · simp [e1, e2]
  · rw [hb, debit_get h1 a]
    by_cases e2 : a = o.text
    · subst e2; simp; omega
    · simp [e2]

/-- Balances after a successful call that is not a draw: only the sender's balance can have dropped,
and only through `Transfer`/`Send`/`Burn`. -/
theorem nondraw_bal {s s' : State} {blk : Block} {snd : Addr} {msg : Msg} {out : List Out}
    (h : execute s blk snd msg = .ok (s', out)) (hd : drawOf msg = none) (a : Addr)
    (hlt : bal s' a < bal s a) : snd = a ∧ isHolderMove msg = true := by
  simp only [bal_def] at hlt
  cases msg <;> simp only [drawOf, reduceCtorEq] at hd <;> simp only [execute] at h
  case transfer to amt =>
    obtain ⟨_, b1, b2, h1, h2, rfl, _⟩ := execTransfer_inv h
    refine ⟨?_, rfl⟩
    have := (move_get h1 h2 a).2
    simp only [this] at hlt
    by_cases e1 : a = to.text
    · by_cases e2 : to.text = snd
      · simp [e1, e2] at hlt <;> omega
      · simp [e1, e2] at hlt <;> omega
    · by_cases e2 : a = snd
      · exact e2.symm
      · simp [e1, e2] at hlt <;> omega
  case send c amt p =>
    obtain ⟨_, b1, b2, h1, h2, rfl, _⟩ := execSend_inv h
    refine ⟨?_, rfl⟩
    have := (move_get h1 h2 a).2
    simp only [this] at hlt
    by_cases e1 : a = c.text
    · by_cases e2 : c.text = snd
      · simp [e1, e2] at hlt <;> omega
      · simp [e1, e2] at hlt <;> omega
    · by_cases e2 : a = snd
      · exact e2.symm
      · simp [e1, e2] at hlt <;> omega
  case burn amt =>
    obtain ⟨b1, h1, _, rfl, _⟩ := execBurn_inv h
    refine ⟨?_, rfl⟩
    simp only [debit_get h1 a] at hlt
    by_cases e2 : a = snd
    · exact e2.symm
    · simp [e2] at hlt <;> omega
  case mint to amt =>
    obtain ⟨b, h1, hb, _⟩ := execMint_inv h
    rw [hb, credit_get h1 a] at hlt
    by_cases e : a = to.text
    · simp [e] at hlt <;> omega
    · simp [e] at hlt <;> omega
  case updateMinter new =>
    obtain ⟨hb, _⟩ := execUpdateMinter_inv h
    rw [hb] at hlt; omega
  case increaseAllowance sp amt e =>
    obtain ⟨_, _, _, _, _, rfl, _⟩ := execIncreaseAllowance_inv h
    simp at hlt
  case decreaseAllowance sp amt e =>
    obtain ⟨_, _, old, _, _, hc⟩ := execDecreaseAllowance_inv h
    rcases hc with ⟨_, _, rfl⟩ | ⟨_, rfl⟩ <;> simp at hlt
  case updateMarketing p d m =>
    obtain ⟨mk, rfl, _⟩ := execUpdateMarketing_frame h; simp at hlt
  case uploadLogo l =>
    obtain ⟨mk, rfl, _⟩ := execUploadLogo_frame h; simp at hlt

/-! ## Clause 1: a balance decreases only by the holder or within a valid allowance -/

/-- **C02, debit authorisation.** If a successful call lowers the balance of `a`, then either `a`
itself sent a `Transfer`/`Send`/`Burn`, or the call is a `TransferFrom`/`SendFrom`/`BurnFrom` on owner
`a` by a spender `snd` that held an allowance `al` from `a` which was unexpired at `blk` and at least
the amount `amt`; the allowance is lowered by exactly `amt` and `a` loses at most `amt`. -/
theorem debit_authorised {s s' : State} {blk : Block} {snd : Addr} {msg : Msg} {out : List Out} {a : Addr}
    (h : execute s blk snd msg = .ok (s', out)) (hlt : bal s' a < bal s a) :
    (snd = a ∧ isHolderMove msg = true) ∨
    (∃ o amt al, drawOf msg = some (o, amt) ∧ o.text = a ∧
      s.allow.get? (a, snd) = some al ∧ al.expires.isExpired blk = false ∧ amt ≤ al.amount ∧
      s'.allow.get? (a, snd) = some ⟨al.amount - amt, al.expires⟩ ∧
      bal s a - bal s' a ≤ amt) := by
  cases hd : drawOf msg with
  | none => exact .inl (nondraw_bal h hd a hlt)
  | some p =>
    obtain ⟨o, amt⟩ := p
    right
    obtain ⟨hown, hle⟩ := draw_bal h hd a
    have ha := hown hlt
    subst ha
    obtain ⟨_, al, al2, b1, e1, e2, e3, _, _, _, e7, _⟩ := draw_inv h hd
    exact ⟨o, amt, al, rfl, rfl, e1, e2, e3, by rw [e7]; simp, hle⟩

/-! ## Clause 2: a draw needs a valid allowance, lowers it by exactly the amount, moves exactly the amount -/

/-- **C02, draw requires (converse of authorisation).** A successful `TransferFrom`/`SendFrom`/`BurnFrom`
on `o` for `amt` by `snd` implies: the allowance `(o, snd)` was present, unexpired at `blk` and at least
`amt` (in the owner-keyed map and in its spender-keyed mirror), and the owner's balance covered `amt`. -/
theorem draw_requires {s s' : State} {blk : Block} {snd : Addr} {msg : Msg} {out : List Out}
    {o : AddrArg} {amt : Nat}
    (h : execute s blk snd msg = .ok (s', out)) (hd : drawOf msg = some (o, amt)) :
    o.valid = true ∧ amt ≤ bal s o.text ∧
    (∃ al, s.allow.get? (o.text, snd) = some al ∧ al.expires.isExpired blk = false ∧ amt ≤ al.amount) ∧
    (∃ al2, s.allowSp.get? (snd, o.text) = some al2 ∧ al2.expires.isExpired blk = false ∧ amt ≤ al2.amount) := by
  obtain ⟨hv, al, al2, b1, e1, e2, e3, e4, e5, e6, _, _, _, h1, _⟩ := draw_inv h hd
  exact ⟨hv, (debit_ok.mp h1).1, ⟨al, e1, e2, e3⟩, ⟨al2, e4, e5, e6⟩⟩

/-- Exactly `amt` moved from `frm` to `to` (net zero when they coincide); nobody else changed. -/
def Moved (s s' : State) (frm to : Addr) (amt : Nat) : Prop :=
  amt ≤ bal s frm ∧
  (frm ≠ to → bal s' frm + amt = bal s frm ∧ bal s' to = bal s to + amt) ∧
  (frm = to → bal s' frm = bal s frm) ∧
  (∀ x, x ≠ frm → x ≠ to → bal s' x = bal s x) ∧
  s'.supply = s.supply

/-- Exactly `amt` left `frm` and the supply; nobody else changed. -/
def Burned (s s' : State) (frm : Addr) (amt : Nat) : Prop :=
  amt ≤ bal s frm ∧ bal s' frm + amt = bal s frm ∧ (∀ x, x ≠ frm → bal s' x = bal s x) ∧
  amt ≤ s.supply ∧ s'.supply + amt = s.supply

theorem moved_of {s s' : State} {b1 : AMap Addr Nat} {frm to : Addr} {amt : Nat}
    (h1 : debit s.balances frm amt = .ok b1) (h2 : credit b1 to amt = .ok s'.balances)
    (hs : s'.supply = s.supply) : Moved s s' frm to amt := by
  have hm := move_get h1 h2
  have hle := (hm frm).1
  simp only [Moved, bal_def]
  refine ⟨hle, ?_, ?_, ?_, hs⟩
  · intro hne
    have hne' : ¬ to = frm := fun e => hne e.symm
    rw [(hm frm).2, (hm to).2]
    simp [hne, hne']; omega
  · intro he; subst he
    rw [(hm frm).2]; simp
  · intro x h1 h2
    rw [(hm x).2]; simp [h1, h2]

theorem burned_of {s s' : State} {frm : Addr} {amt : Nat}
    (h1 : debit s.balances frm amt = .ok s'.balances) (hle : amt ≤ s.supply)
    (hs : s'.supply = s.supply - amt) : Burned s s' frm amt := by
  have hle' := (debit_ok.mp h1).1
  simp only [Burned, bal_def]
  refine ⟨hle', ?_, ?_, hle, by omega⟩
  · rw [debit_get h1 frm]; simp; omega
  · intro x hx; rw [debit_get h1 x]; simp [hx]

/-- **C02, draw exactness (all three `*From` kinds at once).** A successful draw of `amt` on owner `o`
by spender `snd` lowers the allowance by exactly `amt` in BOTH maps (expiry untouched) and moves exactly
`amt`: to the recipient for `TransferFrom`/`SendFrom` (`Moved`, supply unchanged), out of the supply for
`BurnFrom` (`Burned`). -/
theorem draw_exact {s s' : State} {blk : Block} {snd : Addr} {msg : Msg} {out : List Out}
    {o : AddrArg} {amt : Nat}
    (h : execute s blk snd msg = .ok (s', out)) (hd : drawOf msg = some (o, amt)) :
    (∃ al, s.allow.get? (o.text, snd) = some al ∧ amt ≤ al.amount ∧
      s'.allow.get? (o.text, snd) = some ⟨al.amount - amt, al.expires⟩) ∧
    (∃ al2, s.allowSp.get? (snd, o.text) = some al2 ∧ amt ≤ al2.amount ∧
      s'.allowSp.get? (snd, o.text) = some ⟨al2.amount - amt, al2.expires⟩) ∧
    ((∃ r, drawRecipient msg = some r ∧ Moved s s' o.text r.text amt) ∨
     (drawRecipient msg = none ∧ Burned s s' o.text amt)) := by
  obtain ⟨hv, al, al2, b1, e1, e2, e3, e4, e5, e6, e7, e8, _, h1, hrest⟩ := draw_inv h hd
  refine ⟨⟨al, e1, e3, by rw [e7]; simp⟩, ⟨al2, e4, e6, by rw [e8]; simp⟩, ?_⟩
  rcases hrest with ⟨r, hr, _, h2, hs⟩ | ⟨hr, hb, hle, hs⟩
  · exact .inl ⟨r, hr, moved_of h1 h2 hs⟩
  · exact .inr ⟨hr, burned_of (by rw [hb]; exact h1) hle hs⟩

/-- `draw_exact` spelled out for `TransferFrom`. -/
theorem draw_exact_transferFrom {s s' : State} {blk : Block} {snd : Addr} {o r : AddrArg} {amt : Nat}
    {out : List Out} (h : execute s blk snd (.transferFrom o r amt) = .ok (s', out)) :
    (∃ al, s.allow.get? (o.text, snd) = some al ∧ amt ≤ al.amount ∧
      s'.allow.get? (o.text, snd) = some ⟨al.amount - amt, al.expires⟩) ∧
    (∃ al2, s.allowSp.get? (snd, o.text) = some al2 ∧ amt ≤ al2.amount ∧
      s'.allowSp.get? (snd, o.text) = some ⟨al2.amount - amt, al2.expires⟩) ∧
    Moved s s' o.text r.text amt := by
  obtain ⟨h1, h2, h3⟩ := draw_exact h (o := o) (amt := amt) rfl
  refine ⟨h1, h2, ?_⟩
  rcases h3 with ⟨r', hr, hm⟩ | ⟨hr, _⟩
  · simp [drawRecipient] at hr; subst hr; exact hm
  · simp [drawRecipient] at hr

/-- `draw_exact` spelled out for `SendFrom`. -/
theorem draw_exact_sendFrom {s s' : State} {blk : Block} {snd : Addr} {o c : AddrArg} {amt : Nat}
    {p : String} {out : List Out} (h : execute s blk snd (.sendFrom o c amt p) = .ok (s', out)) :
    (∃ al, s.allow.get? (o.text, snd) = some al ∧ amt ≤ al.amount ∧
      s'.allow.get? (o.text, snd) = some ⟨al.amount - amt, al.expires⟩) ∧
    (∃ al2, s.allowSp.get? (snd, o.text) = some al2 ∧ amt ≤ al2.amount ∧
      s'.allowSp.get? (snd, o.text) = some ⟨al2.amount - amt, al2.expires⟩) ∧
    Moved s s' o.text c.text amt := by
  obtain ⟨h1, h2, h3⟩ := draw_exact h (o := o) (amt := amt) rfl
  refine ⟨h1, h2, ?_⟩
  rcases h3 with ⟨r', hr, hm⟩ | ⟨hr, _⟩
  · simp [drawRecipient] at hr; subst hr; exact hm
  · simp [drawRecipient] at hr

/-- `draw_exact` spelled out for `BurnFrom`: owner −amt and supply −amt. -/
theorem draw_exact_burnFrom {s s' : State} {blk : Block} {snd : Addr} {o : AddrArg} {amt : Nat}
    {out : List Out} (h : execute s blk snd (.burnFrom o amt) = .ok (s', out)) :
    (∃ al, s.allow.get? (o.text, snd) = some al ∧ amt ≤ al.amount ∧
      s'.allow.get? (o.text, snd) = some ⟨al.amount - amt, al.expires⟩) ∧
    (∃ al2, s.allowSp.get? (snd, o.text) = some al2 ∧ amt ≤ al2.amount ∧
      s'.allowSp.get? (snd, o.text) = some ⟨al2.amount - amt, al2.expires⟩) ∧
    Burned s s' o.text amt := by
  obtain ⟨h1, h2, h3⟩ := draw_exact h (o := o) (amt := amt) rfl
  refine ⟨h1, h2, ?_⟩
  rcases h3 with ⟨r', hr, _⟩ | ⟨_, hb⟩
  · simp [drawRecipient] at hr
  · exact hb

/-- **C02, holder moves are exact too** (the amount named in the notification of `Send` is the amount
actually moved): `Transfer`/`Send` move exactly `amt` from the sender, `Burn` burns exactly `amt` of the
sender's; none of them touches any allowance. -/
theorem holder_move_exact {s s' : State} {blk : Block} {snd : Addr} {msg : Msg} {out : List Out}
    (h : execute s blk snd msg = .ok (s', out)) :
    (∀ r amt, msg = .transfer r amt → r.valid = true ∧ Moved s s' snd r.text amt) ∧
    (∀ c amt p, msg = .send c amt p → c.valid = true ∧ Moved s s' snd c.text amt) ∧
    (∀ amt, msg = .burn amt → Burned s s' snd amt) ∧
    (isHolderMove msg = true → s'.allow = s.allow ∧ s'.allowSp = s.allowSp) := by
  refine ⟨?_, ?_, ?_, ?_⟩
  · rintro r amt rfl
    obtain ⟨hv, b1, b2, h1, h2, rfl, _⟩ := execTransfer_inv h
    exact ⟨hv, moved_of h1 h2 rfl⟩
  · rintro c amt p rfl
    obtain ⟨hv, b1, b2, h1, h2, rfl, _⟩ := execSend_inv h
    exact ⟨hv, moved_of h1 h2 rfl⟩
  · rintro amt rfl
    obtain ⟨b1, h1, hle, rfl, _⟩ := execBurn_inv h
    exact burned_of h1 hle rfl
  · intro hm
    cases msg <;> simp only [isHolderMove, Bool.false_eq_true] at hm <;> simp only [execute] at h
    · obtain ⟨_, b1, b2, _, _, rfl, _⟩ := execTransfer_inv h; exact ⟨rfl, rfl⟩
    · obtain ⟨b1, _, _, rfl, _⟩ := execBurn_inv h; exact ⟨rfl, rfl⟩
    · obtain ⟨_, b1, b2, _, _, rfl, _⟩ := execSend_inv h; exact ⟨rfl, rfl⟩

/-! ## Clause 4: an allowance changes only by its owner's increase/decrease or its spender's draws -/

theorem key_of_set_ne {κ ν : Type} [DecidableEq κ] {m : AMap κ ν} {k k' : κ} {v : ν}
    (h : (m.set k v).get? k' ≠ m.get? k') : k = k' := by
  by_cases e : k = k'
  · exact e
  · rw [AMap.get?_set_ne _ _ _ _ e] at h; exact absurd rfl h

theorem key_of_erase_ne {κ ν : Type} [DecidableEq κ] {m : AMap κ ν} {k k' : κ}
    (h : (m.erase k).get? k' ≠ m.get? k') : k = k' := by
  by_cases e : k = k'
  · exact e
  · rw [AMap.get?_erase_ne _ _ _ e] at h; exact absurd rfl h

/-- Frame of both allowance maps at once: the entry of the pair `(o, sp)` — `allow (o, sp)` or its mirror
`allowSp (sp, o)` — is changed by a successful call only if the sender is `o` and the call is an
`Increase`/`DecreaseAllowance` for spender `sp`, or the sender is `sp` and the call is a `*From` on `o`. -/
theorem allowance_frame_both {s s' : State} {blk : Block} {snd : Addr} {msg : Msg} {out : List Out}
    {o sp : Addr} (h : execute s blk snd msg = .ok (s', out))
    (hne : s'.allow.get? (o, sp) ≠ s.allow.get? (o, sp) ∨ s'.allowSp.get? (sp, o) ≠ s.allowSp.get? (sp, o)) :
    (snd = o ∧ ∃ spArg, allowanceEditOf msg = some spArg ∧ spArg.text = sp) ∨
    (snd = sp ∧ ∃ oArg amt, drawOf msg = some (oArg, amt) ∧ oArg.text = o) := by
  cases hd : drawOf msg with
  | some p =>
    obtain ⟨oArg, amt⟩ := p
    obtain ⟨_, al, al2, b1, _, _, _, _, _, _, e7, e8, _⟩ := draw_inv h hd
    rw [e7, e8] at hne
    have hk : oArg.text = o ∧ snd = sp := by
      rcases hne with hne | hne
      · have := key_of_set_ne hne; simp at this; exact this
      · have := key_of_set_ne hne; simp at this; exact ⟨this.2, this.1⟩
    exact .inr ⟨hk.2, oArg, amt, rfl, hk.1⟩
  | none =>
    left
    cases msg <;> simp only [drawOf, reduceCtorEq] at hd <;> simp only [execute] at h
    case transfer to amt =>
      obtain ⟨_, b1, b2, _, _, rfl, _⟩ := execTransfer_inv h; simp at hne
    case send c amt p =>
      obtain ⟨_, b1, b2, _, _, rfl, _⟩ := execSend_inv h; simp at hne
    case burn amt =>
      obtain ⟨b1, _, _, rfl, _⟩ := execBurn_inv h; simp at hne
    case mint to amt =>
      obtain ⟨b, _, _, e1, e2, _⟩ := execMint_inv h; rw [e1, e2] at hne; simp at hne
    case updateMinter new =>
      obtain ⟨_, _, e1, e2, _⟩ := execUpdateMinter_inv h; rw [e1, e2] at hne; simp at hne
    case increaseAllowance spArg amt e =>
      obtain ⟨_, _, _, _, _, rfl, _⟩ := execIncreaseAllowance_inv h
      simp only at hne
      have hk : snd = o ∧ spArg.text = sp := by
        rcases hne with hne | hne
        · have := key_of_set_ne hne; simp at this; exact this
        · have := key_of_set_ne hne; simp at this; exact ⟨this.2, this.1⟩
      exact ⟨hk.1, spArg, rfl, hk.2⟩
    case decreaseAllowance spArg amt e =>
      obtain ⟨_, _, old, _, _, hc⟩ := execDecreaseAllowance_inv h
      have hk : snd = o ∧ spArg.text = sp := by
        rcases hc with ⟨_, _, rfl⟩ | ⟨_, rfl⟩ <;> simp only at hne
        · rcases hne with hne | hne
          · have := key_of_set_ne hne; simp at this; exact this
          · have := key_of_set_ne hne; simp at this; exact ⟨this.2, this.1⟩
        · rcases hne with hne | hne
          · have := key_of_erase_ne hne; simp at this; exact this
          · have := key_of_erase_ne hne; simp at this; exact ⟨this.2, this.1⟩
      exact ⟨hk.1, spArg, rfl, hk.2⟩
    case updateMarketing p d m =>
      obtain ⟨mk, rfl, _⟩ := execUpdateMarketing_frame h; simp at hne
    case uploadLogo l =>
      obtain ⟨mk, rfl, _⟩ := execUploadLogo_frame h; simp at hne

/-- **C02, allowance frame** (the map behind `query Allowance` / `AllAllowances`): the allowance of
`(o, sp)` is changed by a successful call only by `o`'s own `Increase`/`DecreaseAllowance` for `sp`, or by
`sp`'s own `TransferFrom`/`SendFrom`/`BurnFrom` on `o`.  (Failed calls change nothing: `step` rolls back.) -/
theorem allowance_frame {s s' : State} {blk : Block} {snd : Addr} {msg : Msg} {out : List Out}
    {o sp : Addr} (h : execute s blk snd msg = .ok (s', out))
    (hne : s'.allow.get? (o, sp) ≠ s.allow.get? (o, sp)) :
    (snd = o ∧ ∃ spArg, allowanceEditOf msg = some spArg ∧ spArg.text = sp) ∨
    (snd = sp ∧ ∃ oArg amt, drawOf msg = some (oArg, amt) ∧ oArg.text = o) :=
  allowance_frame_both h (.inl hne)

/-- The same frame for the spender-keyed mirror map (behind `AllSpenderAllowances`). -/
theorem allowanceSp_frame {s s' : State} {blk : Block} {snd : Addr} {msg : Msg} {out : List Out}
    {o sp : Addr} (h : execute s blk snd msg = .ok (s', out))
    (hne : s'.allowSp.get? (sp, o) ≠ s.allowSp.get? (sp, o)) :
    (snd = o ∧ ∃ spArg, allowanceEditOf msg = some spArg ∧ spArg.text = sp) ∨
    (snd = sp ∧ ∃ oArg amt, drawOf msg = some (oArg, amt) ∧ oArg.text = o) :=
  allowance_frame_both h (.inr hne)

/-! ## Clause 5: increase is exact, decrease saturates at zero, self / past-expiry rejected -/

/-- **C02, increase is exact.** A successful `IncreaseAllowance{sp, amt, e}` by `snd` sets the entry of
`(snd, sp)` to old amount (0 if absent) `+ amt` — which fits `u128` — with expiry `e` if given (and then
unexpired) else the old one (`Never` if absent), in both maps; balances and supply are untouched. -/
theorem increase_exact {s s' : State} {blk : Block} {snd : Addr} {sp : AddrArg} {amt : Nat}
    {e : Option Expiration} {out : List Out}
    (h : execute s blk snd (.increaseAllowance sp amt e) = .ok (s', out)) :
    sp.valid = true ∧ sp.text ≠ snd ∧ (∀ x, e = some x → x.isExpired blk = false) ∧
    (allowance s (snd, sp.text)).amount + amt ≤ U128_MAX ∧
    s'.allow.get? (snd, sp.text) =
      some ⟨(allowance s (snd, sp.text)).amount + amt, e.getD (allowance s (snd, sp.text)).expires⟩ ∧
    s'.allowSp.get? (sp.text, snd) =
      some ⟨((s.allowSp.get? (sp.text, snd)).getD Allowance.default).amount + amt,
            e.getD ((s.allowSp.get? (sp.text, snd)).getD Allowance.default).expires⟩ ∧
    s'.balances = s.balances ∧ s'.supply = s.supply := by
  obtain ⟨hv, hne, he, h1, _, rfl, _⟩ := execIncreaseAllowance_inv h
  exact ⟨hv, hne, he, h1, by simp [allowance], by simp, rfl, rfl⟩

/-- **C02, decrease saturates at zero.** A successful `DecreaseAllowance{sp, amt, e}` by `snd` needs an
existing entry `old`; if `amt < old.amount` the entry becomes `old.amount - amt` (expiry `e` if given, and
then unexpired, else unchanged) in both maps; otherwise both entries are removed.  In either case the
point query reports amount `old.amount - amt` (truncated subtraction, i.e. saturating at 0). -/
theorem decrease_saturates {s s' : State} {blk : Block} {snd : Addr} {sp : AddrArg} {amt : Nat}
    {e : Option Expiration} {out : List Out}
    (h : execute s blk snd (.decreaseAllowance sp amt e) = .ok (s', out)) :
    sp.valid = true ∧ sp.text ≠ snd ∧ ∃ old, s.allow.get? (snd, sp.text) = some old ∧
      (amt < old.amount → (∀ x, e = some x → x.isExpired blk = false) ∧
        s'.allow.get? (snd, sp.text) = some ⟨old.amount - amt, e.getD old.expires⟩ ∧
        s'.allowSp.get? (sp.text, snd) = some ⟨old.amount - amt, e.getD old.expires⟩) ∧
      (old.amount ≤ amt → s'.allow.get? (snd, sp.text) = none ∧ s'.allowSp.get? (sp.text, snd) = none) ∧
      (allowance s' (snd, sp.text)).amount = old.amount - amt ∧
      s'.balances = s.balances ∧ s'.supply = s.supply := by
  obtain ⟨hv, hne, old, hold, _, hc⟩ := execDecreaseAllowance_inv h
  refine ⟨hv, hne, old, hold, ?_⟩
  rcases hc with ⟨hlt, he, rfl⟩ | ⟨hge, rfl⟩
  · exact ⟨fun _ => ⟨he, by simp, by simp⟩, fun hc => by omega, by simp [allowance], rfl, rfl⟩
  · refine ⟨fun hc => by omega, fun _ => ⟨by simp, by simp⟩, ?_, rfl, rfl⟩
    simp [allowance, Allowance.default]; omega

/-- **C02, self-allowance rejected**: nobody can grant (or reduce) an allowance to itself. -/
theorem self_allowance_rejected {s : State} {blk : Block} {snd : Addr} {sp : AddrArg} {amt : Nat}
    {e : Option Expiration} (hself : sp.text = snd) (r : State × List Out) :
    execute s blk snd (.increaseAllowance sp amt e) ≠ .ok r ∧
    execute s blk snd (.decreaseAllowance sp amt e) ≠ .ok r := by
  obtain ⟨s', out⟩ := r
  constructor
  · intro h; exact (execIncreaseAllowance_inv h).2.1 hself
  · intro h; exact (execDecreaseAllowance_inv h).2.1 hself

/-- **C02, past expiry rejected (increase)**: an `IncreaseAllowance` carrying an expiry that is already
expired at `blk` fails. -/
theorem past_expiry_rejected_increase {s : State} {blk : Block} {snd : Addr} {sp : AddrArg} {amt : Nat}
    {x : Expiration} (hx : x.isExpired blk = true) (r : State × List Out) :
    execute s blk snd (.increaseAllowance sp amt (some x)) ≠ .ok r := by
  obtain ⟨s', out⟩ := r
  intro h
  have := (execIncreaseAllowance_inv h).2.2.1 x rfl
  rw [hx] at this; cases this

/-- **C02, past expiry rejected (decrease)**: a `DecreaseAllowance` that leaves a positive remainder
(`amt < old.amount`) and carries an already expired expiry fails.  (When `old.amount ≤ amt` the entry is
removed and the expiry argument is ignored — see `decrease_ignores_expiry_on_removal`.) -/
theorem past_expiry_rejected_decrease {s : State} {blk : Block} {snd : Addr} {sp : AddrArg} {amt : Nat}
    {x : Expiration} {old : Allowance} (hold : s.allow.get? (snd, sp.text) = some old)
    (hlt : amt < old.amount) (hx : x.isExpired blk = true) (r : State × List Out) :
    execute s blk snd (.decreaseAllowance sp amt (some x)) ≠ .ok r := by
  obtain ⟨s', out⟩ := r
  intro h
  have h' : execDecreaseAllowance s blk snd sp amt (some x) = .ok (s', out) := h
  obtain ⟨_, _, old', hold', _, hc⟩ := execDecreaseAllowance_inv h'
  rw [hold] at hold'; cases hold'
  rcases hc with ⟨_, he, _⟩ | ⟨hge, _⟩
  · have := he x rfl; rw [hx] at this; cases this
  · omega

/-! ## Clause 6: `Send` / `SendFrom` notify the receiving contract exactly once -/

/-- The messages a successful call must emit: one `Cw20ReceiveMsg{sender, amount, msg}` to the contract
for `Send`/`SendFrom` — `sender` is the caller (for `SendFrom` the spender, the true initiator, not the
owner) — and nothing for every other kind. -/
def expectedOut (snd : Addr) : Msg → List Out
  | .send c amt p => [⟨c.text, snd, amt, p⟩]
  | .sendFrom _ c amt p => [⟨c.text, snd, amt, p⟩]
  | _ => []

/-- **C02, notification.** On success `out = expectedOut snd msg`: exactly one notification for
`Send`/`SendFrom`, to the named contract, naming the caller, the amount (which by `holder_move_exact` /
`draw_exact_sendFrom` is the amount actually moved) and the attached payload; no message otherwise. -/
theorem send_notifies_once {s s' : State} {blk : Block} {snd : Addr} {msg : Msg} {out : List Out}
    (h : execute s blk snd msg = .ok (s', out)) : out = expectedOut snd msg := by
  cases msg <;> simp only [execute] at h <;> simp only [expectedOut]
  case transfer to amt => exact (execTransfer_inv h).2.choose_spec.choose_spec.2.2.2
  case burn amt => exact (execBurn_inv h).choose_spec.2.2.2
  case send c amt p => exact (execSend_inv h).2.choose_spec.choose_spec.2.2.2
  case mint to amt => exact (execMint_inv h).choose_spec.2.2.2.2
  case updateMinter new => exact (execUpdateMinter_inv h).2.2.2.2
  case increaseAllowance sp amt e => exact (execIncreaseAllowance_inv h).2.2.2.2.2.2
  case decreaseAllowance sp amt e => exact (execDecreaseAllowance_inv h).2.2.choose_spec.2.1
  case transferFrom o r amt =>
    obtain ⟨_, _, _, _, _, _, _, _, _, ho⟩ := execTransferFrom_inv h; exact ho
  case burnFrom o amt =>
    obtain ⟨_, _, _, _, _, _, _, ho⟩ := execBurnFrom_inv h; exact ho
  case sendFrom o c amt p =>
    obtain ⟨_, _, _, _, _, _, _, _, _, ho⟩ := execSendFrom_inv h; exact ho
  case updateMarketing p d m => exact (execUpdateMarketing_frame h).choose_spec.2
  case uploadLogo l => exact (execUploadLogo_frame h).choose_spec.2

/-! ## Clause 3: over any history a spender never moves more than the owner cumulatively granted

A ghost ledger is threaded through the run.  It is pure bookkeeping: `gstep_state` / `grun_state` show
the contract state of the ghost run is exactly the plain run. -/

/-- Ledger lookup (0 if absent). -/
def tot (m : AMap (Addr × Addr) Nat) (p : Addr × Addr) : Nat := (m.get? p).getD 0

/-- Add `n` to the ledger entry of `p` when `k = some (p, n)`. -/
def bumpOpt (m : AMap (Addr × Addr) Nat) (k : Option ((Addr × Addr) × Nat)) : AMap (Addr × Addr) Nat :=
  match k with
  | some (p, n) => m.set p (tot m p + n)
  | none => m

/-- The increment `bumpOpt m k` applies at pair `p`. -/
def incOpt (k : Option ((Addr × Addr) × Nat)) (p : Addr × Addr) : Nat :=
  match k with
  | some (q, n) => if q = p then n else 0
  | none => 0

theorem tot_bumpOpt (m : AMap (Addr × Addr) Nat) (k : Option ((Addr × Addr) × Nat)) (p : Addr × Addr) :
    tot (bumpOpt m k) p = tot m p + incOpt k p := by
  cases k with
  | none => simp [bumpOpt, incOpt]
  | some qn =>
    obtain ⟨q, n⟩ := qn
    simp only [bumpOpt, incOpt, tot, AMap.get?_set]
    by_cases e : q = p
    · subst e; simp
    · simp [e]

/-- The pair `(owner, spender)` and amount granted by this call: `IncreaseAllowance{sp, amt}` by `snd`. -/
def grantKey (snd : Addr) (msg : Msg) : Option ((Addr × Addr) × Nat) :=
  (grantOf msg).map fun x => ((snd, x.1.text), x.2)

/-- The pair `(owner, spender)` and amount drawn by this call: a `*From{owner, amt}` by `snd`. -/
def drawKey (snd : Addr) (msg : Msg) : Option ((Addr × Addr) × Nat) :=
  (drawOf msg).map fun x => ((x.1.text, snd), x.2)

/-- The pair and the number of tokens that actually left the owner's balance in this call. -/
def movedKey (s s' : State) (snd : Addr) (msg : Msg) : Option ((Addr × Addr) × Nat) :=
  (drawOf msg).map fun x => ((x.1.text, snd), bal s x.1.text - bal s' x.1.text)

/-- Ghost-augmented state: the contract state plus three ledgers keyed `(owner, spender)`:
`granted` = Σ amounts of successful `IncreaseAllowance` by owner for spender,
`drawn` = Σ amounts of successful `TransferFrom`/`SendFrom`/`BurnFrom` by spender on owner,
`moved` = Σ tokens that actually left owner's balance in those draws. -/
structure G where
  s : State
  granted : AMap (Addr × Addr) Nat
  drawn : AMap (Addr × Addr) Nat
  moved : AMap (Addr × Addr) Nat

/-- One transaction on the ghost state: commit and book on success, roll back on error. -/
def gstep (g : G) (blk : Block) (snd : Addr) (msg : Msg) : G :=
  match execute g.s blk snd msg with
  | .ok (s', _) =>
    { s := s'
      granted := bumpOpt g.granted (grantKey snd msg)
      drawn := bumpOpt g.drawn (drawKey snd msg)
      moved := bumpOpt g.moved (movedKey g.s s' snd msg) }
  | .error _ => g

/-- Histories: any list of (block, sender, message); failed calls roll back. -/
def run (s : State) (ops : List (Block × Addr × Msg)) : State :=
  ops.foldl (fun s op => step s op.1 op.2.1 op.2.2) s

def grun (g : G) (ops : List (Block × Addr × Msg)) : G :=
  ops.foldl (fun g op => gstep g op.1 op.2.1 op.2.2) g

/-- Fresh ledgers around a freshly instantiated state. -/
def ginit (s : State) : G := ⟨s, [], [], []⟩

theorem gstep_state (g : G) (blk : Block) (snd : Addr) (msg : Msg) :
    (gstep g blk snd msg).s = step g.s blk snd msg := by
  unfold gstep step
  split <;> simp_all

/-- The ghost ledgers do not influence the contract: the state of the ghost run is the plain run. -/
theorem grun_state (g : G) (ops : List (Block × Addr × Msg)) : (grun g ops).s = run g.s ops := by
  induction ops generalizing g with
  | nil => rfl
  | cons op rest ih =>
    simp only [grun, run, List.foldl_cons] at ih ⊢
    rw [ih, gstep_state]

/-- What the ledgers record, made explicit: a failing call books nothing; a successful call adds its
`amt` to `granted (snd, sp)` iff it is `IncreaseAllowance{sp, amt}`, to `drawn (o, snd)` iff it is a
`*From{o, amt}`. -/
theorem ghost_meaning (g : G) (blk : Block) (snd : Addr) (msg : Msg) (p : Addr × Addr) :
    (∀ e, execute g.s blk snd msg = .error e → gstep g blk snd msg = g) ∧
    (∀ r, execute g.s blk snd msg = .ok r →
      tot (gstep g blk snd msg).granted p = tot g.granted p + incOpt (grantKey snd msg) p ∧
      tot (gstep g blk snd msg).drawn p = tot g.drawn p + incOpt (drawKey snd msg) p ∧
      tot (gstep g blk snd msg).moved p = tot g.moved p + incOpt (movedKey g.s r.1 snd msg) p) := by
  constructor
  · intro e h; simp [gstep, h]
  · intro r h
    obtain ⟨s', out⟩ := r
    simp [gstep, h, tot_bumpOpt]

/-- Per-call accounting of the allowance of any pair `p`: what a successful call leaves plus what it
draws is at most what was there plus what it grants (equality except for `DecreaseAllowance`). -/
theorem allowance_step {s s' : State} {blk : Block} {snd : Addr} {msg : Msg} {out : List Out}
    (h : execute s blk snd msg = .ok (s', out)) (p : Addr × Addr) :
    (allowance s' p).amount + incOpt (drawKey snd msg) p ≤
      (allowance s p).amount + incOpt (grantKey snd msg) p := by
  cases hd : drawOf msg with
  | some x =>
    obtain ⟨o, amt⟩ := x
    have hg : grantOf msg = none := by cases msg <;> simp [drawOf] at hd <;> rfl
    obtain ⟨_, al, al2, b1, e1, _, e3, _, _, _, e7, _⟩ := draw_inv h hd
    simp only [drawKey, grantKey, hd, hg, incOpt, Option.map_some, Option.map_none, allowance, e7,
      AMap.get?_set]
    by_cases e : (o.text, snd) = p
    · subst e; simp [e1]; omega
    · simp [e]
  | none =>
    cases msg <;> simp only [drawOf, reduceCtorEq] at hd <;> simp only [execute] at h <;>
      simp only [drawKey, grantKey, drawOf, grantOf, incOpt, Option.map_some, Option.map_none, allowance]
    case transfer to amt =>
      obtain ⟨_, b1, b2, _, _, rfl, _⟩ := execTransfer_inv h; simp
    case send c amt p' =>
      obtain ⟨_, b1, b2, _, _, rfl, _⟩ := execSend_inv h; simp
    case burn amt =>
      obtain ⟨b1, _, _, rfl, _⟩ := execBurn_inv h; simp
    case mint to amt =>
      obtain ⟨b, _, _, e1, _⟩ := execMint_inv h; rw [e1]; simp
    case updateMinter new =>
      obtain ⟨_, _, e1, _⟩ := execUpdateMinter_inv h; rw [e1]; simp
    case increaseAllowance spArg amt e =>
      obtain ⟨_, _, _, _, _, rfl, _⟩ := execIncreaseAllowance_inv h
      simp only [AMap.get?_set]
      by_cases e : (snd, spArg.text) = p
      · subst e; simp
      · simp [e]
    case decreaseAllowance spArg amt e =>
      obtain ⟨_, _, old, hold, _, hc⟩ := execDecreaseAllowance_inv h
      rcases hc with ⟨_, _, rfl⟩ | ⟨_, rfl⟩
      · simp only [AMap.get?_set]
        by_cases e : (snd, spArg.text) = p
        · subst e; simp [hold]
        · simp [e]
      · simp only [AMap.get?_erase]
        by_cases e : (snd, spArg.text) = p
        · subst e; simp [Allowance.default]
        · simp [e]
    case updateMarketing p' d m =>
      obtain ⟨mk, rfl, _⟩ := execUpdateMarketing_frame h; simp
    case uploadLogo l =>
      obtain ⟨mk, rfl, _⟩ := execUploadLogo_frame h; simp

/-- Per call, the tokens that actually leave the owner's balance are at most the amount drawn. -/
theorem moved_step {s s' : State} {blk : Block} {snd : Addr} {msg : Msg} {out : List Out}
    (h : execute s blk snd msg = .ok (s', out)) (p : Addr × Addr) :
    incOpt (movedKey s s' snd msg) p ≤ incOpt (drawKey snd msg) p := by
  cases hd : drawOf msg with
  | none => simp [movedKey, drawKey, hd, incOpt]
  | some x =>
    obtain ⟨o, amt⟩ := x
    have := (draw_bal h hd o.text).2
    simp only [movedKey, drawKey, hd, incOpt, Option.map_some]
    split <;> simp [this]

/-- The ledger invariant. -/
def GInv (g : G) : Prop :=
  ∀ p, tot g.drawn p + (allowance g.s p).amount ≤ tot g.granted p ∧ tot g.moved p ≤ tot g.drawn p

theorem ginit_inv {m : InstMsg} {s : State} (h : instantiate m = .ok s) : GInv (ginit s) := by
  simp [instantiate] at h
  obtain ⟨_, _, b, t, _, _, w, _, mk, lg, _, rfl⟩ := h
  intro p
  simp [ginit, tot, allowance, Allowance.default]

theorem gstep_inv {g : G} (blk : Block) (snd : Addr) (msg : Msg) (hi : GInv g) :
    GInv (gstep g blk snd msg) := by
  unfold gstep
  split
  · rename_i s' out h
    intro p
    have h1 := allowance_step h p
    have h2 := moved_step h p
    have := hi p
    simp only [tot_bumpOpt]
    omega
  · exact hi

theorem grun_inv {g : G} (ops : List (Block × Addr × Msg)) (hi : GInv g) : GInv (grun g ops) := by
  induction ops generalizing g with
  | nil => exact hi
  | cons op rest ih => exact ih (gstep_inv op.1 op.2.1 op.2.2 hi)

/-- **C02, cumulative bound.** After any accepted instantiation (allowances start empty) and any finite
history of execute calls — any senders, any messages, any blocks, failed calls rolled back — for every
pair `p = (owner, spender)`: everything the spender has drawn so far plus the allowance it still holds
is at most everything the owner ever granted.  A chain executes calls one at a time, so every
interleaving of several actors (including the reduce-allowance vs spend race, in either order) is one of
these histories. -/
theorem cumulative_bound {m : InstMsg} {s0 : State} (h : instantiate m = .ok s0)
    (ops : List (Block × Addr × Msg)) (p : Addr × Addr) :
    tot (grun (ginit s0) ops).drawn p + (allowance (run s0 ops) p).amount ≤
      tot (grun (ginit s0) ops).granted p := by
  have := (grun_inv ops (ginit_inv h) p).1
  rwa [grun_state] at this

/-- **C02, corollary**: over any history a spender never draws more than the owner cumulatively granted. -/
theorem drawn_le_granted {m : InstMsg} {s0 : State} (h : instantiate m = .ok s0)
    (ops : List (Block × Addr × Msg)) (p : Addr × Addr) :
    tot (grun (ginit s0) ops).drawn p ≤ tot (grun (ginit s0) ops).granted p := by
  have := cumulative_bound h ops p; omega

/-- **C02, corollary in tokens**: the tokens a spender's draws actually removed from the owner's balance
never exceed what the owner cumulatively granted to that spender. -/
theorem moved_le_granted {m : InstMsg} {s0 : State} (h : instantiate m = .ok s0)
    (ops : List (Block × Addr × Msg)) (p : Addr × Addr) :
    tot (grun (ginit s0) ops).moved p ≤ tot (grun (ginit s0) ops).granted p := by
  have h1 := (grun_inv ops (ginit_inv h) p).2
  have h2 := drawn_le_granted h ops p
  omega

/-! ## Converse of clause 2: exactly when a draw succeeds -/

/-- The condition on the pre-state under which a draw of `amt` on owner `o` by spender `snd` goes through: the
owner validates and holds `amt`, and the allowance `(o, snd)` is present, unexpired at `blk` and at least `amt`
— in the owner-keyed map and in its spender-keyed mirror (the code checks each map on its own value). -/
def DrawReady (s : State) (blk : Block) (snd : Addr) (o : AddrArg) (amt : Nat) : Prop :=
  o.valid = true ∧ amt ≤ bal s o.text ∧
  (∃ al, s.allow.get? (o.text, snd) = some al ∧ al.expires.isExpired blk = false ∧ amt ≤ al.amount) ∧
  (∃ al2, s.allowSp.get? (snd, o.text) = some al2 ∧ al2.expires.isExpired blk = false ∧ amt ≤ al2.amount)

/-- **C02, clause 2 as an equivalence** (under the C01 invariant `supply = Σ balances ≤ u128`): a
`TransferFrom` / `SendFrom` / `BurnFrom` on `o` for `amt` by `snd` succeeds **iff** `DrawReady` holds and the
recipient (if any) validates.  "Only if" is `draw_requires`; "if" says a draw within a valid allowance can
not be blocked by anything else — the credit cannot overflow and the supply subtraction cannot underflow,
because balances are part of the supply. -/
theorem draw_ok_iff {s : State} (hi : C01.Inv s) {blk : Block} {snd : Addr} {msg : Msg} {o : AddrArg} {amt : Nat}
    (hd : drawOf msg = some (o, amt)) :
    (∃ r, execute s blk snd msg = .ok r) ↔
      (DrawReady s blk snd o amt ∧ ∀ r, drawRecipient msg = some r → r.valid = true) := by
  constructor
  · rintro ⟨⟨s', out⟩, h⟩
    refine ⟨draw_requires h hd, ?_⟩
    intro r hr
    obtain ⟨_, _, _, _, _, _, _, _, _, _, _, _, _, _, hrest⟩ := draw_inv h hd
    rcases hrest with ⟨r', hr', hv, _⟩ | ⟨hn, _⟩
    · rw [hr] at hr'; cases hr'; exact hv
    · rw [hr] at hn; cases hn
  · rintro ⟨⟨hv, hbal, ⟨al, e1, e2, e3⟩, ⟨al2, e4, e5, e6⟩⟩, hrec⟩
    have hded : deduct s blk o.text snd amt = .ok { s with
        allow := s.allow.set (o.text, snd) ⟨al.amount - amt, al.expires⟩,
        allowSp := s.allowSp.set (snd, o.text) ⟨al2.amount - amt, al2.expires⟩ } :=
      deduct_ok.mpr ⟨al, al2, e1, e2, e3, e4, e5, e6, rfl⟩
    have hdeb : debit s.balances o.text amt = .ok (s.balances.set o.text ((s.balances.get? o.text).getD 0 - amt)) :=
      debit_ok.mpr ⟨hbal, rfl⟩
    cases msg <;> simp only [drawOf, Option.some.injEq, Prod.mk.injEq, reduceCtorEq] at hd
    case transferFrom o' r amt' =>
      obtain ⟨rfl, rfl⟩ := hd
      have hr := hrec r rfl
      obtain ⟨b2, h2⟩ := C01.credit_cannot_overflow_from (r := r.text) hi hded hdeb
      exact C01.transferFrom_credit_ok hi hr hv hded hdeb
    case burnFrom o' amt' =>
      obtain ⟨rfl, rfl⟩ := hd
      have hb := AMap.get?_le_sum s.balances o'.text
      have hs : amt' ≤ s.supply := by rw [hi.1]; unfold bal at hbal; omega
      exact ⟨_, by simp only [execute, execBurnFrom]; simp [hv, hded, hdeb, hs]; rfl⟩
    case sendFrom o' c amt' p =>
      obtain ⟨rfl, rfl⟩ := hd
      have hr := hrec c rfl
      exact C01.sendFrom_credit_ok hi hr hv hded hdeb

/-- `draw_ok_iff` when the two allowance maps agree (C19's invariant, which holds in every reachable state):
the mirror conjunct collapses and the condition is the one a user reads off the `Allowance` and `Balance`
queries. -/
theorem draw_ok_iff_of_inv19 {s : State} (hi : C01.Inv s) (h19 : Inv19 s) {blk : Block} {snd : Addr} {msg : Msg}
    {o : AddrArg} {amt : Nat} (hd : drawOf msg = some (o, amt)) :
    (∃ r, execute s blk snd msg = .ok r) ↔
      (o.valid = true ∧ amt ≤ bal s o.text ∧
       (∃ al, s.allow.get? (o.text, snd) = some al ∧ al.expires.isExpired blk = false ∧ amt ≤ al.amount) ∧
       ∀ r, drawRecipient msg = some r → r.valid = true) := by
  rw [draw_ok_iff hi hd]
  constructor
  · rintro ⟨⟨hv, hb, ha, _⟩, hr⟩; exact ⟨hv, hb, ha, hr⟩
  · rintro ⟨hv, hb, ⟨al, e1, e2, e3⟩, hr⟩
    exact ⟨⟨hv, hb, ⟨al, e1, e2, e3⟩, ⟨al, by rw [← h19]; exact e1, e2, e3⟩⟩, hr⟩

/-- **A valid draw cannot be blocked**, on reachable states: after any accepted instantiation and any history,
a `*From` call succeeds iff the owner validates and holds the amount, the spender's allowance is present,
unexpired and sufficient, and the recipient validates. -/
theorem draw_ok_iff_reach {m : InstMsg} {s0 : State} (h : instantiate m = .ok s0) (ops : List (Block × Addr × Msg))
    {blk : Block} {snd : Addr} {msg : Msg} {o : AddrArg} {amt : Nat} (hd : drawOf msg = some (o, amt)) :
    (∃ r, execute (C01.run s0 ops) blk snd msg = .ok r) ↔
      (o.valid = true ∧ amt ≤ bal (C01.run s0 ops) o.text ∧
       (∃ al, (C01.run s0 ops).allow.get? (o.text, snd) = some al ∧ al.expires.isExpired blk = false
          ∧ amt ≤ al.amount) ∧
       ∀ r, drawRecipient msg = some r → r.valid = true) :=
  draw_ok_iff_of_inv19 (C01.reach_inv h ops) (C19.reach_inv19 h ops).1 hd

/-! ## Clause 1 over histories: a holder who never signs and never grants never loses -/

/-- One successful call keeps "owner `a` has granted nothing" (no entry `(a, ·)` in `ALLOWANCES`), unless it is
`a`'s own `IncreaseAllowance`: a `DecreaseAllowance` needs an existing entry, and so does a draw. -/
theorem no_grant_preserved {s s' : State} {blk : Block} {snd : Addr} {msg : Msg} {out : List Out} {a : Addr}
    (h : execute s blk snd msg = .ok (s', out)) (hnone : ∀ sp, s.allow.get? (a, sp) = none)
    (hq : snd = a → grantOf msg = none) : ∀ sp, s'.allow.get? (a, sp) = none := by
  intro sp
  by_cases hne : s'.allow.get? (a, sp) = s.allow.get? (a, sp)
  · rw [hne]; exact hnone sp
  · rcases allowance_frame h hne with ⟨hs, spArg, he, hsp⟩ | ⟨hs, oArg, amt, hd, ho⟩
    · have hg := hq hs
      cases msg <;> simp only [allowanceEditOf, grantOf, reduceCtorEq, Option.some.injEq] at he hg
      case decreaseAllowance sp' amt e =>
        subst he
        obtain ⟨_, _, old, hold, _⟩ := execDecreaseAllowance_inv h
        rw [hs, hsp, hnone sp] at hold; cases hold
    · obtain ⟨_, al, _, _, e1, _⟩ := draw_inv h hd
      rw [ho, hs, hnone sp] at e1; cases e1

/-- One successful call cannot lower the balance of a holder who has granted nothing, unless the holder itself
sent a `Transfer` / `Send` / `Burn`. -/
theorem no_grant_no_loss_step {s s' : State} {blk : Block} {snd : Addr} {msg : Msg} {out : List Out} {a : Addr}
    (h : execute s blk snd msg = .ok (s', out)) (hnone : ∀ sp, s.allow.get? (a, sp) = none)
    (hq : snd = a → isHolderMove msg = false) : bal s a ≤ bal s' a := by
  by_cases hlt : bal s' a < bal s a
  · rcases debit_authorised h hlt with ⟨hs, hm⟩ | ⟨o, amt, al, _, _, e1, _⟩
    · rw [hq hs] at hm; cases hm
    · rw [hnone snd] at e1; cases e1
  · omega

/-- **C02, clause 1 over histories (passive holder)**: from any state in which `a` has no outstanding
allowance to anybody, over every history in which `a` itself sends no `Transfer` / `Send` / `Burn` and no
`IncreaseAllowance` — whatever everybody else does, in any order, at any block — the balance of `a` never
drops (it can only grow by transfers and mints to it), at the end and at every point in between (every prefix
of the history is such a history), and `a` still has granted nothing. -/
theorem passive_holder_never_loses_from {s : State} (a : Addr) (hnone : ∀ sp, s.allow.get? (a, sp) = none)
    (ops : List (Block × Addr × Msg))
    (hq : ∀ op ∈ ops, op.2.1 = a → isHolderMove op.2.2 = false ∧ grantOf op.2.2 = none) :
    bal s a ≤ bal (run s ops) a ∧ ∀ sp, (run s ops).allow.get? (a, sp) = none := by
  induction ops generalizing s with
  | nil => exact ⟨Nat.le_refl _, hnone⟩
  | cons op rest ih =>
    obtain ⟨blk, snd, msg⟩ := op
    have hq0 := hq (blk, snd, msg) (by simp)
    have hstep : bal s a ≤ bal (step s blk snd msg) a ∧ ∀ sp, (step s blk snd msg).allow.get? (a, sp) = none := by
      unfold step
      cases hx : execute s blk snd msg with
      | error e => exact ⟨Nat.le_refl _, hnone⟩
      | ok r =>
        obtain ⟨s', out⟩ := r
        exact ⟨no_grant_no_loss_step hx hnone (fun e => (hq0 e).1),
          no_grant_preserved hx hnone (fun e => (hq0 e).2)⟩
    obtain ⟨h1, h2⟩ := ih hstep.2 (fun op hop => hq op (List.mem_cons_of_mem _ hop))
    exact ⟨Nat.le_trans hstep.1 h1, h2⟩

/-- **C02, clause 1 over histories, from instantiation**: after any accepted instantiation, a holder who never
signs a `Transfer` / `Send` / `Burn` and never grants an allowance never loses a token, over any history of
calls by anybody else. -/
theorem passive_holder_never_loses {m : InstMsg} {s0 : State} (h : instantiate m = .ok s0)
    (ops : List (Block × Addr × Msg)) (a : Addr)
    (hq : ∀ op ∈ ops, op.2.1 = a → isHolderMove op.2.2 = false ∧ grantOf op.2.2 = none) :
    bal s0 a ≤ bal (run s0 ops) a := by
  have hnone : ∀ sp, s0.allow.get? (a, sp) = none := by
    simp [instantiate] at h
    obtain ⟨_, _, b, t, _, _, w, _, mk, lg, _, rfl⟩ := h
    intro sp; rfl
  exact (passive_holder_never_loses_from a hnone ops hq).1

/-! ## Per-owner ledger: where an owner's tokens went, over any history

For an account `a`, every token that leaves its balance in a history is booked either as sent by `a` itself
(`Transfer` / `Send` / `Burn` signed by `a`) or as drawn through an allowance `a` granted; nothing else ever
lowers the balance (`owner_ledger`).  The drawn part is bounded by what `a` cumulatively granted
(`owner_drawn_le_granted`).  Ghost sums over the history, computed from the run itself. -/

/-- Tokens account `a` loses / gains in one transaction (0 for a failing, rolled-back call). -/
def lossAt (s : State) (op : Block × Addr × Msg) (a : Addr) : Nat := bal s a - bal (step s op.1 op.2.1 op.2.2) a
def gainAt (s : State) (op : Block × Addr × Msg) (a : Addr) : Nat := bal (step s op.1 op.2.1 op.2.2) a - bal s a

/-- The call is a `*From` on owner `a`. -/
def isDrawOn (msg : Msg) (a : Addr) : Bool :=
  match drawOf msg with
  | some (o, _) => decide (o.text = a)
  | none => false

/-- The part of `a`'s loss in this transaction that `a` signed itself (`Transfer`/`Send`/`Burn` by `a`). -/
def ownAt (s : State) (op : Block × Addr × Msg) (a : Addr) : Nat :=
  if op.2.1 = a ∧ isHolderMove op.2.2 = true then lossAt s op a else 0

/-- The part of `a`'s loss in this transaction that a spender drew through an allowance. -/
def drawnAt (s : State) (op : Block × Addr × Msg) (a : Addr) : Nat :=
  if isDrawOn op.2.2 a = true then lossAt s op a else 0

/-- What `a` grants in this transaction: the amount of a successful `IncreaseAllowance` signed by `a`. -/
def grantAt (s : State) (op : Block × Addr × Msg) (a : Addr) : Nat :=
  match grantOf op.2.2 with
  | some (_, amt) => if op.2.1 = a ∧ (execute s op.1 op.2.1 op.2.2).isOk = true then amt else 0
  | none => 0

/-- Sum of a per-transaction quantity along the run of a history from `s`. -/
def sumOver (f : State → Block × Addr × Msg → Nat) (s : State) : List (Block × Addr × Msg) → Nat
  | [] => 0
  | op :: rest => f s op + sumOver f (step s op.1 op.2.1 op.2.2) rest

/-- Tokens `a` itself sent away (or burned) over the history. -/
def sentOwn (s : State) (ops : List (Block × Addr × Msg)) (a : Addr) : Nat := sumOver (fun s op => ownAt s op a) s ops
/-- Tokens spenders drew from `a` over the history. -/
def drawnFrom (s : State) (ops : List (Block × Addr × Msg)) (a : Addr) : Nat := sumOver (fun s op => drawnAt s op a) s ops
/-- Tokens `a` received over the history (transfers, sends, mints to it). -/
def received (s : State) (ops : List (Block × Addr × Msg)) (a : Addr) : Nat := sumOver (fun s op => gainAt s op a) s ops
/-- Everything `a` granted over the history (to all spenders together). -/
def grantedBy (s : State) (ops : List (Block × Addr × Msg)) (a : Addr) : Nat := sumOver (fun s op => grantAt s op a) s ops

/-- One transaction: whatever `a` loses is either signed by `a` or drawn through an allowance of `a`. -/
theorem step_owner_ledger (s : State) (op : Block × Addr × Msg) (a : Addr) :
    bal (step s op.1 op.2.1 op.2.2) a + ownAt s op a + drawnAt s op a = bal s a + gainAt s op a := by
  obtain ⟨blk, snd, msg⟩ := op
  simp only [ownAt, drawnAt, gainAt, lossAt]
  by_cases hlt : bal (step s blk snd msg) a < bal s a
  · cases hx : execute s blk snd msg with
    | error e => simp [step, hx] at hlt
    | ok r =>
      obtain ⟨s', out⟩ := r
      have hs : step s blk snd msg = s' := by simp [step, hx]
      rw [hs] at hlt ⊢
      rcases debit_authorised hx hlt with ⟨h1, h2⟩ | ⟨o, amt, al, hd, ho, _⟩
      · have hnd : isDrawOn msg a = false := by
          cases msg <;> simp [isHolderMove] at h2 <;> simp [isDrawOn, drawOf]
        simp [h1, h2, hnd]; omega
      · have hnh : isHolderMove msg = false := by cases msg <;> simp [drawOf] at hd <;> rfl
        have hdo : isDrawOn msg a = true := by simp [isDrawOn, hd, ho]
        simp [hnh, hdo]; omega
  · have h0 : bal s a - bal (step s blk snd msg) a = 0 := by omega
    simp only [h0, ite_self]
    omega

/-- **C02, per-owner ledger**: over any history from any state, for every account `a`:
`balance + sent by a itself + drawn through a's allowances = initial balance + received`.  So a balance is
lowered by nothing but the holder's own moves and spenders' draws — over whole histories, with exact amounts. -/
theorem owner_ledger (s : State) (ops : List (Block × Addr × Msg)) (a : Addr) :
    bal (run s ops) a + sentOwn s ops a + drawnFrom s ops a = bal s a + received s ops a := by
  induction ops generalizing s with
  | nil => rfl
  | cons op rest ih =>
    have h1 := step_owner_ledger s op a
    have h2 := ih (step s op.1 op.2.1 op.2.2)
    show bal (run (step s op.1 op.2.1 op.2.2) rest) a
        + (ownAt s op a + sentOwn (step s op.1 op.2.1 op.2.2) rest a)
        + (drawnAt s op a + drawnFrom (step s op.1 op.2.1 op.2.2) rest a)
      = bal s a + (gainAt s op a + received (step s op.1 op.2.1 op.2.2) rest a)
    omega

/-- The amount a draw on owner `a` names (0 for any other call). -/
def drawAmtOn (msg : Msg) (a : Addr) : Nat :=
  match drawOf msg with
  | some (o, amt) => if o.text = a then amt else 0
  | none => 0

/-- The amount an `IncreaseAllowance` by `a` names (0 for any other call or sender). -/
def grantAmtBy (snd : Addr) (msg : Msg) (a : Addr) : Nat :=
  match grantOf msg with
  | some (_, amt) => if snd = a then amt else 0
  | none => 0

/-- Per call, for the sum of all allowances granted by `a`: what is left plus what is drawn from `a` is at most
what was there plus what `a` grants (equality except for `DecreaseAllowance`). -/
theorem ownerSum_step {s s' : State} {blk : Block} {snd : Addr} {msg : Msg} {out : List Out}
    (h : execute s blk snd msg = .ok (s', out)) (a : Addr) :
    ownerSum s'.allow a + drawAmtOn msg a ≤ ownerSum s.allow a + grantAmtBy snd msg a := by
  cases hd : drawOf msg with
  | some x =>
    obtain ⟨o, amt⟩ := x
    have hg : grantOf msg = none := by cases msg <;> simp [drawOf] at hd <;> rfl
    obtain ⟨_, al, al2, b1, e1, _, e3, _, _, _, e7, _⟩ := draw_inv h hd
    have hs := ownerSum_set s.allow o.text snd ⟨al.amount - amt, al.expires⟩ a
    rw [e1] at hs
    simp only [drawAmtOn, grantAmtBy, hd, hg, e7]
    by_cases e : o.text = a
    · simp only [e, if_true, Option.getD_some] at hs ⊢; omega
    · simp only [e, if_false] at hs ⊢; omega
  | none =>
    cases msg <;> simp only [drawOf, reduceCtorEq] at hd <;> simp only [execute] at h <;>
      simp only [drawAmtOn, grantAmtBy, drawOf, grantOf]
    case transfer to amt =>
      obtain ⟨_, b1, b2, _, _, rfl, _⟩ := execTransfer_inv h; simp
    case send c amt p' =>
      obtain ⟨_, b1, b2, _, _, rfl, _⟩ := execSend_inv h; simp
    case burn amt =>
      obtain ⟨b1, _, _, rfl, _⟩ := execBurn_inv h; simp
    case mint to amt =>
      obtain ⟨b, _, _, e1, _⟩ := execMint_inv h; rw [e1]; simp
    case updateMinter new =>
      obtain ⟨_, _, e1, _⟩ := execUpdateMinter_inv h; rw [e1]; simp
    case increaseAllowance spArg amt e =>
      obtain ⟨_, _, _, _, _, rfl, _⟩ := execIncreaseAllowance_inv h
      have hs := ownerSum_set s.allow snd spArg.text
        ⟨((s.allow.get? (snd, spArg.text)).getD Allowance.default).amount + amt,
          e.getD ((s.allow.get? (snd, spArg.text)).getD Allowance.default).expires⟩ a
      by_cases e' : snd = a
      · simp only [e', if_true] at hs ⊢; omega
      · simp only [e', if_false] at hs ⊢; omega
    case decreaseAllowance spArg amt e =>
      obtain ⟨_, _, old, hold, _, hc⟩ := execDecreaseAllowance_inv h
      rcases hc with ⟨_, _, rfl⟩ | ⟨_, rfl⟩
      · have hs := ownerSum_set s.allow snd spArg.text ⟨old.amount - amt, e.getD old.expires⟩ a
        rw [hold] at hs
        by_cases e' : snd = a
        · simp only [e', if_true, Option.getD_some] at hs ⊢; omega
        · simp only [e', if_false] at hs ⊢; omega
      · have := ownerSum_erase_le s.allow (snd, spArg.text) a
        simpa using this
    case updateMarketing p' d m =>
      obtain ⟨mk, rfl, _⟩ := execUpdateMarketing_frame h; simp
    case uploadLogo l =>
      obtain ⟨mk, rfl, _⟩ := execUploadLogo_frame h; simp

/-- One transaction (committed or rolled back), in the ghost quantities. -/
theorem step_owner_grants (s : State) (op : Block × Addr × Msg) (a : Addr) :
    drawnAt s op a + ownerSum (step s op.1 op.2.1 op.2.2).allow a ≤ ownerSum s.allow a + grantAt s op a := by
  obtain ⟨blk, snd, msg⟩ := op
  cases hx : execute s blk snd msg with
  | error e =>
    have hs : step s blk snd msg = s := by simp [step, hx]
    simp only [drawnAt, lossAt, hs]
    split <;> omega
  | ok r =>
    obtain ⟨s', out⟩ := r
    have hs : step s blk snd msg = s' := by simp [step, hx]
    have h1 := ownerSum_step hx a
    have h2 : drawnAt s (blk, snd, msg) a ≤ drawAmtOn msg a := by
      simp only [drawnAt, lossAt, hs, isDrawOn, drawAmtOn]
      cases hd : drawOf msg with
      | none => simp
      | some x =>
        obtain ⟨o, amt⟩ := x
        have := (draw_bal hx hd a).2
        by_cases e : o.text = a
        · simp [e]; omega
        · simp [e]
    have h3 : grantAt s (blk, snd, msg) a = grantAmtBy snd msg a := by
      simp only [grantAt, grantAmtBy, hx, Res.isOk]
      cases grantOf msg with
      | none => rfl
      | some x => simp
    rw [hs]; omega

/-- Over any history from any state: what was drawn from `a` plus the allowances `a` still has outstanding is
at most the allowances outstanding at the start plus everything `a` granted meanwhile. -/
theorem owner_drawn_le_granted_from (s : State) (ops : List (Block × Addr × Msg)) (a : Addr) :
    drawnFrom s ops a + ownerSum (run s ops).allow a ≤ ownerSum s.allow a + grantedBy s ops a := by
  induction ops generalizing s with
  | nil => show 0 + ownerSum s.allow a ≤ ownerSum s.allow a + 0; omega
  | cons op rest ih =>
    have h1 := step_owner_grants s op a
    have h2 := ih (step s op.1 op.2.1 op.2.2)
    show (drawnAt s op a + drawnFrom (step s op.1 op.2.1 op.2.2) rest a)
        + ownerSum (run (step s op.1 op.2.1 op.2.2) rest).allow a
      ≤ ownerSum s.allow a + (grantAt s op a + grantedBy (step s op.1 op.2.1 op.2.2) rest a)
    omega

/-- **C02, an owner's total exposure**: after any accepted instantiation and any history, for every account
`a`: the tokens spenders drew from `a` (all spenders together) plus all allowances `a` still has outstanding
never exceed what `a` granted in total; hence what `a` had or received is still in its balance except for what
`a` sent itself and at most what `a` granted. -/
theorem owner_drawn_le_granted {m : InstMsg} {s0 : State} (h : instantiate m = .ok s0)
    (ops : List (Block × Addr × Msg)) (a : Addr) :
    drawnFrom s0 ops a + ownerSum (run s0 ops).allow a ≤ grantedBy s0 ops a
    ∧ bal s0 a + received s0 ops a ≤ bal (run s0 ops) a + sentOwn s0 ops a + grantedBy s0 ops a := by
  have h0 : ownerSum s0.allow a = 0 := by
    simp [instantiate] at h
    obtain ⟨_, _, b, t, _, _, w, _, mk, lg, _, rfl⟩ := h
    rfl
  have h1 := owner_drawn_le_granted_from s0 ops a
  have h2 := owner_ledger s0 ops a
  constructor <;> omega

/-! ## Histories that contain migrations -/

open CwPlus.Props.C19 (Op stepOp runOps) in
/-- One transaction of a mixed history on the ghost state: `migrate` books nothing (it moves no token and
touches no owner-keyed allowance). -/
def gstepOp (g : G) : Op → G
  | .exec blk snd msg => gstep g blk snd msg
  | .migrate => { g with s := stepOp g.s .migrate }

open CwPlus.Props.C19 (Op stepOp runOps) in
def grunOps (g : G) (ops : List Op) : G := ops.foldl gstepOp g

open CwPlus.Props.C19 (Op stepOp runOps) in
/-- The ghost ledgers do not influence the contract over mixed histories either. -/
theorem grunOps_state (g : G) (ops : List Op) : (grunOps g ops).s = runOps g.s ops := by
  induction ops generalizing g with
  | nil => rfl
  | cons op rest ih =>
    simp only [grunOps, runOps, List.foldl_cons] at ih ⊢
    rw [ih]
    cases op with
    | exec blk snd msg => simp only [gstepOp, gstep_state]; rfl
    | migrate => rfl

open CwPlus.Props.C19 (Op stepOp runOps) in
theorem gstepOp_inv {g : G} (op : Op) (hi : GInv g) : GInv (gstepOp g op) := by
  cases op with
  | exec blk snd msg => exact gstep_inv blk snd msg hi
  | migrate =>
    intro p
    have := hi p
    have ha : (stepOp g.s .migrate).allow = g.s.allow := (Cw20Mixed.stepOp_migrate_frame g.s).2.2.2
    simp only [gstepOp, allowance, ha]
    exact this

open CwPlus.Props.C19 (Op stepOp runOps) in
theorem grunOps_inv {g : G} (ops : List Op) (hi : GInv g) : GInv (grunOps g ops) := by
  induction ops generalizing g with
  | nil => exact hi
  | cons op rest ih => exact ih (gstepOp_inv op hi)

open CwPlus.Props.C19 (Op stepOp runOps) in
/-- **C02, cumulative bound over histories with migrations**: after any accepted instantiation and any history
of execute and `migrate` calls in any order, for every pair: drawn + remaining allowance ≤ granted, and the
tokens that actually left the owner through the spender's draws ≤ granted. -/
theorem cumulative_bound_mixed {m : InstMsg} {s0 : State} (h : instantiate m = .ok s0) (ops : List Op)
    (p : Addr × Addr) :
    tot (grunOps (ginit s0) ops).drawn p + (allowance (runOps s0 ops) p).amount ≤ tot (grunOps (ginit s0) ops).granted p
    ∧ tot (grunOps (ginit s0) ops).moved p ≤ tot (grunOps (ginit s0) ops).granted p := by
  have hg := grunOps_inv ops (ginit_inv h) p
  rw [grunOps_state] at hg
  exact ⟨hg.1, by have := hg.1; have := hg.2; omega⟩

open CwPlus.Props.C19 (Op stepOp runOps) in
/-- The passive-holder theorem over histories with migrations: a `migrate` moves no token and creates no
owner-keyed allowance. -/
theorem passive_holder_never_loses_mixed {s : State} (a : Addr) (hnone : ∀ sp, s.allow.get? (a, sp) = none)
    (ops : List Op)
    (hq : ∀ blk snd msg, Op.exec blk snd msg ∈ ops → snd = a → isHolderMove msg = false ∧ grantOf msg = none) :
    bal s a ≤ bal (runOps s ops) a ∧ ∀ sp, (runOps s ops).allow.get? (a, sp) = none := by
  induction ops generalizing s with
  | nil => exact ⟨Nat.le_refl _, hnone⟩
  | cons op rest ih =>
    have hstep : bal s a ≤ bal (stepOp s op) a ∧ ∀ sp, (stepOp s op).allow.get? (a, sp) = none := by
      cases op with
      | exec blk snd msg =>
        have hq0 := hq blk snd msg (by simp)
        show bal s a ≤ bal (step s blk snd msg) a ∧ ∀ sp, (step s blk snd msg).allow.get? (a, sp) = none
        unfold step
        cases hx : execute s blk snd msg with
        | error e => exact ⟨Nat.le_refl _, hnone⟩
        | ok r =>
          obtain ⟨s', out⟩ := r
          exact ⟨no_grant_no_loss_step hx hnone (fun e => (hq0 e).1),
            no_grant_preserved hx hnone (fun e => (hq0 e).2)⟩
      | migrate =>
        obtain ⟨hb, _, _, ha⟩ := Cw20Mixed.stepOp_migrate_frame s
        exact ⟨by simp only [bal_def, hb]; exact Nat.le_refl _, by rw [ha]; exact hnone⟩
    obtain ⟨h1, h2⟩ := ih hstep.2 (fun blk snd msg hop => hq blk snd msg (List.mem_cons_of_mem _ hop))
    exact ⟨Nat.le_trans hstep.1 h1, h2⟩

/-! ## The hypotheses are satisfiable: a concrete history (evaluated by the kernel)

`alice` holds 100, `carol` 7.  At height 10 alice grants bob 50 until height 20; bob moves 30 of alice's
tokens to carol; then the classic race: alice reduces by 25 while bob tries to spend 20 more. -/
namespace Ex

def im : InstMsg where
  name := "Token"
  symbol := "TKN"
  decimals := 6
  initial := [(⟨true, "alice"⟩, 100), (⟨true, "carol"⟩, 7)]
  mint := none

def blk : Block := ⟨10, 1000⟩
def late : Block := ⟨20, 2000⟩
def alice : AddrArg := ⟨true, "alice"⟩
def bob : AddrArg := ⟨true, "bob"⟩
def carol : AddrArg := ⟨true, "carol"⟩
def until20 : Expiration := .atHeight 20

def s0 : State where
  supply := 107
  mint := none
  balances := [("alice", 100), ("carol", 7)]
  allow := []
  allowSp := []
  version := ⟨CONTRACT_NAME, 2, 0, 0, none⟩

/-- after `IncreaseAllowance{bob, 50, AtHeight 20}` by alice -/
def s1 : State :=
  { s0 with allow := [(("alice", "bob"), ⟨50, until20⟩)], allowSp := [(("bob", "alice"), ⟨50, until20⟩)] }

/-- after `TransferFrom{alice, carol, 30}` by bob -/
def s2 : State :=
  { s0 with balances := [("alice", 70), ("carol", 37)],
            allow := [(("alice", "bob"), ⟨20, until20⟩)], allowSp := [(("bob", "alice"), ⟨20, until20⟩)] }

example : instantiate im = .ok s0 := rfl
example : execute s0 blk "alice" (.increaseAllowance bob 50 (some until20)) = .ok (s1, []) := rfl
example : execute s1 blk "bob" (.transferFrom alice carol 30) = .ok (s2, []) := rfl
/-- the hypotheses of `debit_authorised` hold on this step, in its allowance branch … -/
example : bal s2 "alice" < bal s1 "alice" := by decide
example : drawOf (.transferFrom alice carol 30) = some (alice, 30) := rfl
/-- … and in its holder branch -/
example : ∃ s' out, execute s2 blk "carol" (.send bob 37 "hook") = .ok (s', out) ∧
    bal s' "carol" < bal s2 "carol" ∧ out = [⟨"bob", "carol", 37, "hook"⟩] := ⟨_, _, rfl, by decide, rfl⟩
/-- `SendFrom` names the spender (bob), not the owner (alice), as initiator -/
example : ∃ s', execute s1 blk "bob" (.sendFrom alice carol 30 "hook") = .ok (s', [⟨"carol", "bob", 30, "hook"⟩]) :=
  ⟨_, rfl⟩
/-- beyond the allowance, at / after the expiry, or without any allowance: rejected -/
example : (execute s2 blk "bob" (.transferFrom alice carol 21)).isOk = false := rfl
example : (execute s2 late "bob" (.transferFrom alice carol 1)).isOk = false := rfl
example : (execute s2 blk "carol" (.burnFrom alice 1)).isOk = false := rfl
example : (execute s2 blk "bob" (.burnFrom alice 20)).isOk = true := rfl
/-- self-allowance and past expiry: rejected -/
example : (execute s0 blk "alice" (.increaseAllowance alice 5 none)).isOk = false := rfl
example : (execute s0 late "alice" (.increaseAllowance bob 5 (some until20))).isOk = false := rfl
example : (execute s2 late "alice" (.decreaseAllowance bob 5 (some until20))).isOk = false := rfl

/-- The reduce-vs-spend race, order 1: alice's `DecreaseAllowance 25` lands first (saturates: entry removed),
bob's `TransferFrom 20` then fails.  Order 2: bob's draw lands first, the decrease then removes the rest.
In both orders `drawn + remaining ≤ granted = 50`. -/
def race1 : List (Block × Addr × Msg) :=
  [(blk, "alice", .increaseAllowance bob 50 (some until20)), (blk, "bob", .transferFrom alice carol 30),
   (blk, "alice", .decreaseAllowance bob 25 none), (blk, "bob", .transferFrom alice carol 20)]
def race2 : List (Block × Addr × Msg) :=
  [(blk, "alice", .increaseAllowance bob 50 (some until20)), (blk, "bob", .transferFrom alice carol 30),
   (blk, "bob", .transferFrom alice carol 20), (blk, "alice", .decreaseAllowance bob 25 none)]

example : tot (grun (ginit s0) race1).granted ("alice", "bob") = 50 ∧
    tot (grun (ginit s0) race1).drawn ("alice", "bob") = 30 ∧
    tot (grun (ginit s0) race1).moved ("alice", "bob") = 30 ∧
    bal (run s0 race1) "alice" = 70 ∧ (run s0 race1).allow.get? ("alice", "bob") = none := by decide
example : tot (grun (ginit s0) race2).granted ("alice", "bob") = 50 ∧
    tot (grun (ginit s0) race2).drawn ("alice", "bob") = 50 ∧
    tot (grun (ginit s0) race2).moved ("alice", "bob") = 50 ∧
    bal (run s0 race2) "alice" = 50 ∧ (run s0 race2).allow.get? ("alice", "bob") = none := by decide

end Ex

/-- The exact guard of `past_expiry_rejected_decrease` matters: when the decrease removes the entry
(`old.amount ≤ amt`) the code ignores the expiry argument, so an already expired one is accepted
(closed instance, evaluated by the kernel). -/
theorem decrease_ignores_expiry_on_removal :
    (execute Ex.s2 Ex.late "alice" (.decreaseAllowance Ex.bob 20 (some Ex.until20))).isOk = true ∧
    (step Ex.s2 Ex.late "alice" (.decreaseAllowance Ex.bob 20 (some Ex.until20))).allow.get? ("alice", "bob") = none := by
  decide


/-! ### Non-vacuity of the added theorems (on the example token of `Ex`) -/
theorem ex_s1_inv : C01.Inv Ex.s1 := ⟨by decide, by decide⟩

namespace Ex2
open Ex

/-- `draw_ok_iff`: with 50 granted until height 20, bob's `TransferFrom 30` at height 10 is ready, hence succeeds
— and at height 20 (expired) or for 51 it is not. -/
example : ∃ r, execute s1 blk "bob" (.transferFrom alice carol 30) = .ok r :=
  (draw_ok_iff ex_s1_inv (msg := .transferFrom alice carol 30) rfl).mpr
    ⟨⟨rfl, by decide, ⟨_, rfl, by decide, by decide⟩, ⟨_, rfl, by decide, by decide⟩⟩,
     by intro r hr; cases hr; rfl⟩
example : ¬ ∃ r, execute s1 late "bob" (.burnFrom alice 30) = .ok r := by
  intro h
  obtain ⟨⟨_, _, ⟨al, e1, e2, _⟩, _⟩, _⟩ := (draw_ok_iff ex_s1_inv (msg := .burnFrom alice 30) rfl).mp h
  cases e1; revert e2; decide
example : DrawReady s1 blk "bob" alice 50 ∧ ¬ DrawReady s1 blk "bob" alice 51 := by
  refine ⟨⟨rfl, by decide, ⟨_, rfl, by decide, by decide⟩, ⟨_, rfl, by decide, by decide⟩⟩, ?_⟩
  rintro ⟨_, _, ⟨al, e1, _, e3⟩, _⟩
  cases e1; revert e3; decide

/-- `passive_holder_never_loses`: in both race histories carol never signs anything; her balance only grows. -/
example : bal s0 "carol" ≤ bal (run s0 race1) "carol" :=
  passive_holder_never_loses (m := im) rfl race1 "carol" (by decide)
example : bal s0 "carol" = 7 ∧ bal (run s0 race1) "carol" = 37 := by decide
/-- alice does sign (she grants): the hypothesis fails for her, and she does lose tokens. -/
example : bal (run s0 race1) "alice" < bal s0 "alice" := by decide

/-- `owner_ledger` / `owner_drawn_le_granted` on race 2: alice granted 50, bob drew 50 of her tokens, she sent
nothing herself and received nothing: 50 + 0 + 50 = 100 + 0. -/
example : sentOwn s0 race2 "alice" = 0 ∧ drawnFrom s0 race2 "alice" = 50 ∧ received s0 race2 "alice" = 0
    ∧ grantedBy s0 race2 "alice" = 50 ∧ received s0 race2 "carol" = 50 := by decide
example : bal (run s0 race2) "alice" + sentOwn s0 race2 "alice" + drawnFrom s0 race2 "alice"
    = bal s0 "alice" + received s0 race2 "alice" := owner_ledger s0 race2 "alice"
example : drawnFrom s0 race2 "alice" + ownerSum (run s0 race2).allow "alice" ≤ grantedBy s0 race2 "alice" :=
  (owner_drawn_le_granted (m := im) rfl race2 "alice").1

/-- A mixed history: grant, migrate, draw, migrate; the cumulative bound holds (`cumulative_bound_mixed`). -/
def mixed : List C19.Op :=
  [.exec blk "alice" (.increaseAllowance bob 50 (some until20)), .migrate,
   .exec blk "bob" (.transferFrom alice carol 30), .migrate]
example : tot (grunOps (ginit s0) mixed).drawn ("alice", "bob") = 30
    ∧ tot (grunOps (ginit s0) mixed).granted ("alice", "bob") = 50
    ∧ (allowance (C19.runOps s0 mixed) ("alice", "bob")).amount = 20 := by decide
example : tot (grunOps (ginit s0) mixed).drawn ("alice", "bob") + (allowance (C19.runOps s0 mixed) ("alice", "bob")).amount
    ≤ tot (grunOps (ginit s0) mixed).granted ("alice", "bob") :=
  (cumulative_bound_mixed (m := im) rfl mixed ("alice", "bob")).1

end Ex2

end CwPlus.Props.C02
