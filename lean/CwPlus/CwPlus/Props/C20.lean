import CwPlus.Model.Cw20
import CwPlus.Lemmas.Paginate
import CwPlus.Lemmas.Cw20Nodup
/-!
# C20 — all list queries paginate completely: every item once, in order, within limits

The theorems are generic (any key type with a strict total order, any map without duplicate
keys, any limit, any cursor taken from a previous page, any number of items); the proofs are in
`Lemmas/Paginate.lean`.  This file re-exports them under the property's names and instantiates
them for the three listings of cw20-base.

## How to instantiate the generic theorem for a new listing (one line per listing)

A model's list query is *defined* as `Paginate.page lt (Paginate.sortedEntries lt m) after limit`
(possibly followed by a `.map f` that keeps the key recoverable, possibly wrapped in `Res`).
Let `q : Option κ → List α` be the query as a function of the cursor only (all other arguments
fixed; unwrap `Res` with `okItems`).  Then

```
open CwPlus CwPlus.Paginate CwPlus.Props.C20

-- query returns the entries `(key, value)` themselves:
theorem proposals_complete {s : State} (hs : AMap.NodupKeys s.proposals) (limit : Option Nat) (hl : limit ≠ some 0) :
    fetchLoop (fun c => queryListProposals s c limit) (·.1) none (s.proposals.length + 1)
      = sortedEntries natLt s.proposals :=
  listing_complete_id strictTotal_natLt hs hl (fun c => by simp [queryListProposals]) (Nat.le_refl _)

-- query returns a projection of the entries (here: keys only), wrapped in `Res`:
theorem voterNames_complete {s : State} (hs : AMap.NodupKeys s.voters) (limit : Option Nat) (hl : limit ≠ some 0) :
    fetchLoop (fun c => okItems (queryVoterNames s c limit)) id none (s.voters.length + 1)
      = (sortedEntries strLt s.voters).map (·.1) :=
  listing_complete strictTotal_strLt hs hl (f := (·.1)) (key := id)
    (fun c => by simp [queryVoterNames, okItems, pure, Except.pure]) (fun _ => rfl) (Nat.le_refl _)

-- descending (`pageDesc natLt (sortedEntriesDesc natLt s.proposals) before limit`):
  listing_complete_desc_id strictTotal_natLt hs hl (fun c => by simp [queryReverseProposals]) (Nat.le_refl _)
      -- : fetchLoop (fun c => queryReverseProposals s c limit) (·.1) none _ = (sortedEntries natLt s.proposals).reverse
-- filtered (`pageFiltered strLt p (sortedEntries strLt s.allowances) after limit`):
  listing_complete_filtered_id strictTotal_strLt hs p hl (fun c => by simp [queryAllAllowances]) (Nat.le_refl _)
      -- : fetchLoop (fun c => queryAllAllowances s c limit) (·.1) none _ = (sortedEntries strLt s.allowances).filter p
```

* `lt`-instances: `strictTotal_strLt` (addresses, denoms), `strictTotal_natLt` (proposal ids);
  for pair keys prove a `StrictTotal` instance once (three fields).
* `hq` (the `fun c => by simp [query…]` argument) must close
  `q c = (page lt (sortedEntries lt m) c limit).map f` (`…_id` variants: without `.map f`); if the
  query has guards, first prove `query… = if guard then .ok (page …) else .error _`
  (see `queryOwnerAllowances_eq`) and `simp` with it and the guard hypothesis.
* `hk : ∀ x, key (f x) = x.1` says how the client reads the cursor off the last item.
* `NodupKeys` of the map is an invariant of the model (`AMap.nodup_set`, `AMap.nodup_erase`;
  see `Lemmas/Cw20Nodup.lean` for the pattern: established by `instantiate`, preserved by `execute`).
* Descending listings (`ReverseProposals`): define the query as
  `pageDesc lt (sortedEntriesDesc lt m) before limit` and use `listing_complete_desc`
  (`sortedEntriesDesc_eq_reverse` relates it to the reversed ascending listing).
* Filtered listings (subkeys `AllAllowances`): define the query as
  `pageFiltered lt p (sortedEntries lt m) after limit` and use `listing_complete_filtered`.
* Size bounds need no instantiation: `page_len`, `max_is_30`, `default_is_10` hold for every `page`.
-/
namespace CwPlus.Props.C20
open CwPlus CwPlus.Paginate CwPlus.Cw20

variable {κ ν : Type}

/-! ## Size bounds (generic) -/

/-- "No page exceeds the requested limit or the maximum of 30": a page has at most
`effLimit limit = min (limit or 10) 30` items. -/
theorem page_len (lt : κ → κ → Bool) (xs : List (κ × ν)) (after : Option κ) (limit : Option Nat) :
    (page lt xs after limit).length ≤ effLimit limit :=
  page_length_le lt xs after limit

/-- `effLimit (some n) = min n 30`: the requested limit, capped at 30. -/
theorem requested_limit (n : Nat) : effLimit (some n) = min n 30 := effLimit_some n

/-- No page exceeds the requested limit. -/
theorem page_len_requested (lt : κ → κ → Bool) (xs : List (κ × ν)) (after : Option κ) (n : Nat) :
    (page lt xs after (some n)).length ≤ n :=
  page_length_le_requested lt xs after n

/-- "The default page size is 10." -/
theorem default_is_10 : effLimit none = 10 := effLimit_none

/-- Without a limit a page has at most 10 items. -/
theorem page_len_default (lt : κ → κ → Bool) (xs : List (κ × ν)) (after : Option κ) :
    (page lt xs after none).length ≤ 10 :=
  page_length_le_default lt xs after

/-- "… or the maximum of 30": whatever the requested limit. -/
theorem max_is_30 (lt : κ → κ → Bool) (xs : List (κ × ν)) (after : Option κ) (limit : Option Nat) :
    effLimit limit ≤ 30 ∧ (page lt xs after limit).length ≤ 30 :=
  ⟨effLimit_le_max limit, page_length_le_max lt xs after limit⟩

/-- The bound is tight: a page is full whenever enough items remain after the cursor
(so the default really is 10 and the maximum really is 30, not less). -/
theorem page_len_exact (lt : κ → κ → Bool) (xs : List (κ × ν)) (after : Option κ) (limit : Option Nat) :
    (page lt xs after limit).length = min (effLimit limit) (afterCursor lt xs after).length :=
  page_length_eq lt xs after limit

/-- `limit = 0` yields the empty page. -/
theorem limit_zero_empty (lt : κ → κ → Bool) (xs : List (κ × ν)) (after : Option κ) :
    page lt xs after (some 0) = [] :=
  page_zero lt xs after

/-! ## Shape of one page (generic) -/

/-- A page is a contiguous block of the sorted listing (nothing skipped inside a page). -/
theorem page_contiguous {lt : κ → κ → Bool} (ht : StrictTotal lt) {xs : List (κ × ν)} (h : Sorted lt xs)
    (after : Option κ) (limit : Option Nat) : page lt xs after limit <:+: xs :=
  page_infix ht h after limit

/-- A page is in ascending key order. -/
theorem page_ascending {lt : κ → κ → Bool} {xs : List (κ × ν)} (h : Sorted lt xs) (after : Option κ)
    (limit : Option Nat) : Sorted lt (page lt xs after limit) :=
  page_sorted h after limit

/-- The cursor is exclusive: every returned key is strictly greater than `start_after`. -/
theorem page_after_cursor (lt : κ → κ → Bool) (xs : List (κ × ν)) (c : κ) (limit : Option Nat) :
    ∀ x ∈ page lt xs (some c) limit, lt c x.1 = true :=
  page_gt_cursor lt xs c limit

/-- A page is exactly the next `effLimit limit` items after what the client already holds:
with the key of the last item of a prefix `pre` as cursor, the page is `suf.take (effLimit limit)`. -/
theorem page_next {lt : κ → κ → Bool} (ht : StrictTotal lt) {pre suf : List (κ × ν)} (h : Sorted lt (pre ++ suf))
    (limit : Option Nat) : page lt (pre ++ suf) (cursorOf pre) limit = suf.take (effLimit limit) := by
  unfold page; rw [afterCursor_cursorOf ht h]

/-! ## Completeness (generic) -/

/-- **"Repeatedly requesting pages with the last returned key as cursor returns every current
item exactly once in key order, whatever the page size."**  For a strictly sorted listing `xs`,
any limit other than 0 (absent, 1, …, above 30), the client loop returns `xs` itself and
terminates: `xs.length + 1` requests always suffice and more change nothing. -/
theorem paginate_complete {lt : κ → κ → Bool} (ht : StrictTotal lt) {xs : List (κ × ν)} (h : Sorted lt xs)
    {limit : Option Nat} (hl : limit ≠ some 0) {fuel : Nat} (hf : xs.length + 1 ≤ fuel) :
    fetchAll lt xs limit none fuel = xs :=
  fetchAll_complete ht h (effLimit_pos hl) hf

/-- Completeness from **every cursor taken from a previous page**: a client that has received the
prefix `pre` and continues from its last key receives exactly the remaining items `suf`. -/
theorem paginate_complete_from {lt : κ → κ → Bool} (ht : StrictTotal lt) {pre suf : List (κ × ν)}
    (h : Sorted lt (pre ++ suf)) {limit : Option Nat} (hl : limit ≠ some 0) {fuel : Nat}
    (hf : suf.length + 1 ≤ fuel) :
    fetchAll lt (pre ++ suf) limit (cursorOf pre) fuel = suf :=
  fetchAll_from ht (effLimit_pos hl) fuel pre suf h hf

/-- "Exactly once": the keys of the result of the client loop are pairwise distinct. -/
theorem paginate_once {lt : κ → κ → Bool} (ht : StrictTotal lt) {xs : List (κ × ν)} (h : Sorted lt xs)
    {limit : Option Nat} (hl : limit ≠ some 0) :
    ((fetchAll lt xs limit none (xs.length + 1)).map (·.1)).Nodup := by
  rw [paginate_complete ht h hl (Nat.le_refl _)]
  exact Sorted.nodupKeys ht h

/-- With `limit = 0` the loop returns nothing (hence the hypothesis `limit ≠ some 0`). -/
theorem paginate_zero (lt : κ → κ → Bool) (xs : List (κ × ν)) (c : Option κ) (fuel : Nat) :
    fetchAll lt xs (some 0) c fuel = [] :=
  fetchAll_zero lt xs c fuel

/-- Descending variant (`ReverseProposals`, exclusive `start_before`): for a strictly descending
listing the loop returns the whole listing, every item once, in descending order. -/
theorem paginate_complete_desc {lt : κ → κ → Bool} (ht : StrictTotal lt) {xs : List (κ × ν)}
    (h : Sorted (fun a b => lt b a) xs) {limit : Option Nat} (hl : limit ≠ some 0) {fuel : Nat}
    (hf : xs.length + 1 ≤ fuel) : fetchAllDesc lt xs limit none fuel = xs :=
  fetchAllDesc_complete ht h (effLimit_pos hl) hf

/-- Descending pages respect the same bound and the cursor is exclusive from above. -/
theorem page_desc_len_and_cursor (lt : κ → κ → Bool) (xs : List (κ × ν)) (c : κ) (limit : Option Nat) :
    (pageDesc lt xs (some c) limit).length ≤ effLimit limit ∧ ∀ x ∈ pageDesc lt xs (some c) limit, lt x.1 c = true :=
  ⟨pageDesc_length_le lt xs (some c) limit, pageDesc_lt_cursor lt xs c limit⟩

/-- Filtered variant (subkeys `AllAllowances`: `range(after).filter(p).take(limit)`): a filtered
page is a page of the filtered listing, which is again sorted, so the loop returns exactly the
items satisfying `p`, each once, in key order. -/
theorem paginate_complete_filtered {lt : κ → κ → Bool} (ht : StrictTotal lt) {xs : List (κ × ν)}
    (h : Sorted lt xs) (p : κ × ν → Bool) {limit : Option Nat} (hl : limit ≠ some 0) {fuel : Nat}
    (hf : (xs.filter p).length + 1 ≤ fuel) :
    (∀ c, pageFiltered lt p xs c limit = page lt (xs.filter p) c limit) ∧
    fetchAll lt (xs.filter p) limit none fuel = xs.filter p :=
  ⟨fun c => pageFiltered_eq lt p xs c limit, fetchAll_filter_complete ht h p (effLimit_pos hl) hf⟩

/-! ## The listing of a map (generic; this is what each model instantiates) -/

/-- The storage iteration order of a map without duplicate keys is strictly ascending and
contains exactly the entries of the map ("every *current* item"). -/
theorem listing_sorted [DecidableEq κ] {lt : κ → κ → Bool} (ht : StrictTotal lt) {m : AMap κ ν}
    (hm : AMap.NodupKeys m) :
    Sorted lt (sortedEntries lt m) ∧ (sortedEntries lt m).Perm m ∧
      ∀ k v, (k, v) ∈ sortedEntries lt m ↔ AMap.get? m k = some v :=
  ⟨sortedEntries_sorted hm ht, sortedEntries_perm lt m, mem_sortedEntries_iff_get? lt hm⟩

/-- **Generic instantiation lemma**: if a query, as a function `q` of the cursor, *is*
`page lt (sortedEntries lt m) · limit` (up to a projection `f` of the items from which the key can
still be read by `key`), then the client loop against `q` returns the complete sorted listing. -/
theorem listing_complete [DecidableEq κ] {α : Type} {lt : κ → κ → Bool} (ht : StrictTotal lt)
    {m : AMap κ ν} (hm : AMap.NodupKeys m) {limit : Option Nat} (hl : limit ≠ some 0)
    {q : Option κ → List α} {key : α → κ} {f : κ × ν → α}
    (hq : ∀ c, q c = (page lt (sortedEntries lt m) c limit).map f) (hk : ∀ x, key (f x) = x.1)
    {fuel : Nat} (hf : m.length + 1 ≤ fuel) :
    fetchLoop q key none fuel = (sortedEntries lt m).map f :=
  fetchLoop_sortedEntries ht hm hl hq hk hf

/-- Generic instantiation lemma, descending listings. -/
theorem listing_complete_desc [DecidableEq κ] {α : Type} {lt : κ → κ → Bool} (ht : StrictTotal lt)
    {m : AMap κ ν} (hm : AMap.NodupKeys m) {limit : Option Nat} (hl : limit ≠ some 0)
    {q : Option κ → List α} {key : α → κ} {f : κ × ν → α}
    (hq : ∀ c, q c = (pageDesc lt (sortedEntriesDesc lt m) c limit).map f) (hk : ∀ x, key (f x) = x.1)
    {fuel : Nat} (hf : m.length + 1 ≤ fuel) :
    fetchLoop q key none fuel = (sortedEntriesDesc lt m).map f ∧
      sortedEntriesDesc lt m = (sortedEntries lt m).reverse :=
  ⟨fetchLoop_sortedEntriesDesc ht hm hl hq hk hf, sortedEntriesDesc_eq_reverse hm ht⟩

/-- Generic instantiation lemma, filtered listings. -/
theorem listing_complete_filtered [DecidableEq κ] {α : Type} {lt : κ → κ → Bool} (ht : StrictTotal lt)
    {m : AMap κ ν} (hm : AMap.NodupKeys m) (p : κ × ν → Bool) {limit : Option Nat} (hl : limit ≠ some 0)
    {q : Option κ → List α} {key : α → κ} {f : κ × ν → α}
    (hq : ∀ c, q c = (pageFiltered lt p (sortedEntries lt m) c limit).map f) (hk : ∀ x, key (f x) = x.1)
    {fuel : Nat} (hf : m.length + 1 ≤ fuel) :
    fetchLoop q key none fuel = ((sortedEntries lt m).filter p).map f :=
  fetchLoop_sortedEntries_filtered ht hm p hl hq hk hf

/-- `listing_complete` for a query that returns the entries themselves (`f = id`, cursor = `·.1`). -/
theorem listing_complete_id [DecidableEq κ] {lt : κ → κ → Bool} (ht : StrictTotal lt)
    {m : AMap κ ν} (hm : AMap.NodupKeys m) {limit : Option Nat} (hl : limit ≠ some 0)
    {q : Option κ → List (κ × ν)} (hq : ∀ c, q c = page lt (sortedEntries lt m) c limit)
    {fuel : Nat} (hf : m.length + 1 ≤ fuel) :
    fetchLoop q (·.1) none fuel = sortedEntries lt m :=
  (listing_complete ht hm hl (f := id) (fun c => by rw [hq c, List.map_id]) (fun _ => rfl) hf).trans
    (List.map_id _)

/-- `listing_complete_desc` for a query that returns the entries themselves: the loop returns the
ascending listing reversed. -/
theorem listing_complete_desc_id [DecidableEq κ] {lt : κ → κ → Bool} (ht : StrictTotal lt)
    {m : AMap κ ν} (hm : AMap.NodupKeys m) {limit : Option Nat} (hl : limit ≠ some 0)
    {q : Option κ → List (κ × ν)} (hq : ∀ c, q c = pageDesc lt (sortedEntriesDesc lt m) c limit)
    {fuel : Nat} (hf : m.length + 1 ≤ fuel) :
    fetchLoop q (·.1) none fuel = (sortedEntries lt m).reverse := by
  have := listing_complete_desc ht hm hl (f := id) (q := q) (key := (·.1))
    (fun c => by rw [hq c, List.map_id]) (fun _ => rfl) hf
  rw [this.1, this.2, List.map_id]

/-- `listing_complete_filtered` for a query that returns the entries themselves. -/
theorem listing_complete_filtered_id [DecidableEq κ] {lt : κ → κ → Bool} (ht : StrictTotal lt)
    {m : AMap κ ν} (hm : AMap.NodupKeys m) (p : κ × ν → Bool) {limit : Option Nat} (hl : limit ≠ some 0)
    {q : Option κ → List (κ × ν)} (hq : ∀ c, q c = pageFiltered lt p (sortedEntries lt m) c limit)
    {fuel : Nat} (hf : m.length + 1 ≤ fuel) :
    fetchLoop q (·.1) none fuel = (sortedEntries lt m).filter p :=
  (listing_complete_filtered ht hm p hl (f := id) (fun c => by rw [hq c, List.map_id]) (fun _ => rfl) hf).trans
    (List.map_id _)

/-- The key orders used by the suite are strict total orders (addresses/denoms: lexicographic
string order; proposal ids: `<` on numbers). -/
theorem orders_strict_total : StrictTotal strLt ∧ StrictTotal natLt :=
  ⟨strictTotal_strLt, strictTotal_natLt⟩

/-! ## cw20-base: `AllAccounts`, `AllAllowances`, `AllSpenderAllowances` -/

/-- The items of a successful list query, nothing for a failed one. -/
def okItems {α : Type} : Res (List α) → List α
  | .ok l => l
  | .error _ => []

/-- Histories: any list of (block, sender, message); failed calls roll back. -/
def run (s : State) (ops : List (Block × Addr × Msg)) : State :=
  ops.foldl (fun s op => step s op.1 op.2.1 op.2.2) s

/-- The hypothesis of the cw20 instantiations holds in every reachable state: after any accepted
instantiation and any history no map holds a key twice. -/
theorem reach_nodup {m : InstMsg} {s0 : State} (h : instantiate m = .ok s0) (ops : List (Block × Addr × Msg)) :
    NodupInv (run s0 ops) :=
  run_nodup ops (instantiate_nodup h)

/-- With a valid owner the query is a page of the owner's sorted allowances; otherwise it fails. -/
theorem queryOwnerAllowances_eq (s : State) (owner : AddrArg) (after : Option String) (limit : Option Nat) :
    queryOwnerAllowances s owner after limit =
      if owner.valid then .ok (page strLt (sortedEntries strLt (ownerPrefix s owner.text)) after limit)
      else .error "addr" := by
  cases hv : owner.valid <;> simp [queryOwnerAllowances, hv, check, Functor.map, Except.map]

/-- With a valid spender the query is a page of the spender's sorted allowances; otherwise it fails. -/
theorem querySpenderAllowances_eq (s : State) (spender : AddrArg) (after : Option String) (limit : Option Nat) :
    querySpenderAllowances s spender after limit =
      if spender.valid then .ok (page strLt (sortedEntries strLt (spenderPrefix s spender.text)) after limit)
      else .error "addr" := by
  cases hv : spender.valid <;> simp [querySpenderAllowances, hv, check, Functor.map, Except.map]

/-- Page bounds of the three cw20 listings, for every state, cursor and limit. -/
theorem cw20_page_len (s : State) (a : AddrArg) (after : Option String) (limit : Option Nat) :
    (queryAllAccounts s after limit).length ≤ effLimit limit ∧
    (okItems (queryOwnerAllowances s a after limit)).length ≤ effLimit limit ∧
    (okItems (querySpenderAllowances s a after limit)).length ≤ effLimit limit := by
  refine ⟨?_, ?_, ?_⟩
  · simp only [queryAllAccounts, List.length_map]; exact page_length_le _ _ _ _
  · rw [queryOwnerAllowances_eq]
    cases a.valid
    · simp [okItems]
    · exact page_length_le _ _ _ _
  · rw [querySpenderAllowances_eq]
    cases a.valid
    · simp [okItems]
    · exact page_length_le _ _ _ _

/-- `AllAccounts`: iterating `queryAllAccounts` with the last returned address as `start_after`
yields exactly the addresses of `BALANCES` in ascending order, each once. -/
theorem all_accounts_complete {s : State} (hs : AMap.NodupKeys s.balances) (limit : Option Nat)
    (hl : limit ≠ some 0) {fuel : Nat} (hf : s.balances.length + 1 ≤ fuel) :
    fetchLoop (fun c => queryAllAccounts s c limit) id none fuel
      = (sortedEntries strLt s.balances).map (·.1) :=
  listing_complete strictTotal_strLt hs hl (f := (·.1)) (key := id) (fun _ => rfl) (fun _ => rfl) hf

/-- The complete `AllAccounts` listing is strictly ascending, has no duplicates, and an address is
listed iff it has a balance entry (what the point query `Balance` reads). -/
theorem all_accounts_exact {s : State} (hs : AMap.NodupKeys s.balances) :
    ((sortedEntries strLt s.balances).map (·.1)).Pairwise (fun a b => strLt a b = true) ∧
    ((sortedEntries strLt s.balances).map (·.1)).Nodup ∧
    ∀ a, a ∈ (sortedEntries strLt s.balances).map (·.1) ↔ s.balances.get? a ≠ none := by
  have hsort := sortedEntries_sorted hs strictTotal_strLt
  refine ⟨List.pairwise_map.mpr hsort, Sorted.nodupKeys strictTotal_strLt hsort, ?_⟩
  intro a
  rw [ne_eq, not_congr AMap.get?_eq_none_iff, Classical.not_not]
  exact ((sortedEntries_perm strLt s.balances).map (·.1)).mem_iff

/-- `AllAllowances { owner }`: iterating with the last returned spender as `start_after` yields
exactly the allowances granted by `owner`, ascending by spender, each once. -/
theorem owner_allowances_complete {s : State} (hs : AMap.NodupKeys s.allow) (owner : AddrArg)
    (hv : owner.valid = true) (limit : Option Nat) (hl : limit ≠ some 0) {fuel : Nat}
    (hf : (ownerPrefix s owner.text).length + 1 ≤ fuel) :
    fetchLoop (fun c => okItems (queryOwnerAllowances s owner c limit)) (·.1) none fuel
      = sortedEntries strLt (ownerPrefix s owner.text) :=
  listing_complete_id strictTotal_strLt (ownerPrefix_nodup hs owner.text) hl
    (fun c => by simp [queryOwnerAllowances_eq, hv, okItems]) hf

/-- `AllSpenderAllowances { spender }`: same, ascending by owner. -/
theorem spender_allowances_complete {s : State} (hs : AMap.NodupKeys s.allowSp) (spender : AddrArg)
    (hv : spender.valid = true) (limit : Option Nat) (hl : limit ≠ some 0) {fuel : Nat}
    (hf : (spenderPrefix s spender.text).length + 1 ≤ fuel) :
    fetchLoop (fun c => okItems (querySpenderAllowances s spender c limit)) (·.1) none fuel
      = sortedEntries strLt (spenderPrefix s spender.text) :=
  listing_complete_id strictTotal_strLt (spenderPrefix_nodup hs spender.text) hl
    (fun c => by simp [querySpenderAllowances_eq, hv, okItems]) hf

/-- The owner listing shows exactly the `ALLOWANCES` entries of that owner: `(spender, a)` is listed
iff the point lookup `ALLOWANCES[(owner, spender)]` is `a`. -/
theorem owner_allowances_exact {s : State} (hs : AMap.NodupKeys s.allow) (owner spender : Addr) (a : Allowance) :
    (spender, a) ∈ sortedEntries strLt (ownerPrefix s owner) ↔ s.allow.get? (owner, spender) = some a := by
  rw [mem_sortedEntries, AMap.get?_eq_some_iff hs]
  simp only [ownerPrefix, List.mem_map, List.mem_filter, decide_eq_true_eq]
  constructor
  · rintro ⟨⟨⟨o, sp⟩, v⟩, ⟨hm, ho⟩, he⟩
    simp only [Prod.mk.injEq] at he ho
    obtain ⟨rfl, rfl⟩ := he
    subst ho
    exact hm
  · intro hm
    exact ⟨((owner, spender), a), ⟨hm, rfl⟩, rfl⟩

/-- All three cw20 listings are complete in every reachable state, for every limit ≠ 0:
any accepted instantiation, any history of execute messages, any owner/spender. -/
theorem cw20_listings_complete {m : InstMsg} {s0 : State} (h : instantiate m = .ok s0)
    (ops : List (Block × Addr × Msg)) (a : AddrArg) (hv : a.valid = true) (limit : Option Nat)
    (hl : limit ≠ some 0) :
    let s := run s0 ops
    fetchLoop (fun c => queryAllAccounts s c limit) id none (s.balances.length + 1)
        = (sortedEntries strLt s.balances).map (·.1) ∧
    fetchLoop (fun c => okItems (queryOwnerAllowances s a c limit)) (·.1) none ((ownerPrefix s a.text).length + 1)
        = sortedEntries strLt (ownerPrefix s a.text) ∧
    fetchLoop (fun c => okItems (querySpenderAllowances s a c limit)) (·.1) none ((spenderPrefix s a.text).length + 1)
        = sortedEntries strLt (spenderPrefix s a.text) := by
  intro s
  have hi := reach_nodup h ops
  exact ⟨all_accounts_complete hi.balances limit hl (Nat.le_refl _),
    owner_allowances_complete hi.allow a hv limit hl (Nat.le_refl _),
    spender_allowances_complete hi.allowSp a hv limit hl (Nat.le_refl _)⟩

/-! ## Completeness from every cursor (generic, and the three cw20 listings)

The `*_complete` theorems above start the client loop without cursor.  The property also quantifies over
"every cursor taken from a previous page".  The theorems below start the loop at an **arbitrary** cursor `c`
(a key taken from an earlier page, a key that has meanwhile been removed, or any other string/number): the loop
returns exactly the current items whose key is strictly beyond `c`, each once, in key order.  Together with
`listing_split_at_cursor` (the items up to `c` followed by the items beyond `c` are the whole listing) this
is the statement for every cursor a client can hold. -/

/-- **Completeness from any cursor (generic, `fetchAll`)**: on a strictly sorted listing, for every limit
other than 0 and every cursor `c`, the client loop started at `c` returns exactly the items with key above
`c`.  Subsumes `paginate_complete_from` (there `c` is the last key of a received prefix). -/
theorem paginate_complete_after {lt : κ → κ → Bool} (ht : StrictTotal lt) {xs : List (κ × ν)} (h : Sorted lt xs)
    {limit : Option Nat} (hl : limit ≠ some 0) (c : κ) {fuel : Nat} (hf : xs.length + 1 ≤ fuel) :
    fetchAll lt xs limit (some c) fuel = xs.filter (fun x => lt c x.1) := by
  apply fetchAll_after ht h (effLimit_pos hl) c
  have := List.length_filter_le (fun x : κ × ν => lt c x.1) xs
  omega

/-- What the client already has (keys up to the cursor) followed by what the loop from the cursor returns
(keys beyond it) is the complete listing: nothing is skipped and nothing repeated at the seam. -/
theorem listing_split_at_cursor {lt : κ → κ → Bool} (ht : StrictTotal lt) {xs : List (κ × ν)} (h : Sorted lt xs)
    (c : κ) : xs.filter (fun x => !lt c x.1) ++ xs.filter (fun x => lt c x.1) = xs :=
  filter_le_append_filter_gt ht c h

/-- **Generic instantiation lemma, any cursor**: if a query, as a function `q` of the cursor, is
`page lt (sortedEntries lt m) · limit` up to a projection `f`, the client loop started at any cursor `c`
returns exactly the entries of the map with key above `c`, ascending, each once. -/
theorem listing_complete_after [DecidableEq κ] {α : Type} {lt : κ → κ → Bool} (ht : StrictTotal lt)
    {m : AMap κ ν} (hm : AMap.NodupKeys m) {limit : Option Nat} (hl : limit ≠ some 0)
    {q : Option κ → List α} {key : α → κ} {f : κ × ν → α}
    (hq : ∀ c, q c = (page lt (sortedEntries lt m) c limit).map f) (hk : ∀ x, key (f x) = x.1) (c : κ)
    {fuel : Nat} (hf : m.length + 1 ≤ fuel) :
    fetchLoop q key (some c) fuel = ((sortedEntries lt m).filter (fun x => lt c x.1)).map f :=
  fetchLoop_sortedEntries_after ht hm hl hq hk c hf

/-- Any cursor, descending listings (`start_before = c`): exactly the entries with key below `c`, descending. -/
theorem listing_complete_desc_after [DecidableEq κ] {α : Type} {lt : κ → κ → Bool} (ht : StrictTotal lt)
    {m : AMap κ ν} (hm : AMap.NodupKeys m) {limit : Option Nat} (hl : limit ≠ some 0)
    {q : Option κ → List α} {key : α → κ} {f : κ × ν → α}
    (hq : ∀ c, q c = (pageDesc lt (sortedEntriesDesc lt m) c limit).map f) (hk : ∀ x, key (f x) = x.1) (c : κ)
    {fuel : Nat} (hf : m.length + 1 ≤ fuel) :
    fetchLoop q key (some c) fuel = (((sortedEntries lt m).reverse).filter (fun x => lt x.1 c)).map f := by
  rw [fetchLoop_sortedEntriesDesc_after ht hm hl hq hk c hf, sortedEntriesDesc_eq_reverse hm ht]

/-- Any cursor, filtered listings: exactly the entries satisfying `p` with key above `c`. -/
theorem listing_complete_filtered_after [DecidableEq κ] {α : Type} {lt : κ → κ → Bool} (ht : StrictTotal lt)
    {m : AMap κ ν} (hm : AMap.NodupKeys m) (p : κ × ν → Bool) {limit : Option Nat} (hl : limit ≠ some 0)
    {q : Option κ → List α} {key : α → κ} {f : κ × ν → α}
    (hq : ∀ c, q c = (pageFiltered lt p (sortedEntries lt m) c limit).map f) (hk : ∀ x, key (f x) = x.1) (c : κ)
    {fuel : Nat} (hf : m.length + 1 ≤ fuel) :
    fetchLoop q key (some c) fuel = (((sortedEntries lt m).filter p).filter (fun x => lt c x.1)).map f :=
  fetchLoop_sortedEntries_filtered_after ht hm p hl hq hk c hf

/-- `listing_complete_after` for a query that returns the entries themselves. -/
theorem listing_complete_after_id [DecidableEq κ] {lt : κ → κ → Bool} (ht : StrictTotal lt)
    {m : AMap κ ν} (hm : AMap.NodupKeys m) {limit : Option Nat} (hl : limit ≠ some 0)
    {q : Option κ → List (κ × ν)} (hq : ∀ c, q c = page lt (sortedEntries lt m) c limit) (c : κ)
    {fuel : Nat} (hf : m.length + 1 ≤ fuel) :
    fetchLoop q (·.1) (some c) fuel = (sortedEntries lt m).filter (fun x => lt c x.1) :=
  (listing_complete_after ht hm hl (f := id) (fun c => by rw [hq c, List.map_id]) (fun _ => rfl) c hf).trans
    (List.map_id _)

/-- `listing_complete_filtered_after` for a query that returns the entries themselves. -/
theorem listing_complete_filtered_after_id [DecidableEq κ] {lt : κ → κ → Bool} (ht : StrictTotal lt)
    {m : AMap κ ν} (hm : AMap.NodupKeys m) (p : κ × ν → Bool) {limit : Option Nat} (hl : limit ≠ some 0)
    {q : Option κ → List (κ × ν)} (hq : ∀ c, q c = pageFiltered lt p (sortedEntries lt m) c limit) (c : κ)
    {fuel : Nat} (hf : m.length + 1 ≤ fuel) :
    fetchLoop q (·.1) (some c) fuel = ((sortedEntries lt m).filter p).filter (fun x => lt c x.1) :=
  (listing_complete_filtered_after ht hm p hl (f := id) (fun c => by rw [hq c, List.map_id]) (fun _ => rfl) c hf).trans
    (List.map_id _)

/-- `AllAccounts` from any `start_after = c`: exactly the addresses above `c`, ascending, each once. -/
theorem all_accounts_complete_after {s : State} (hs : AMap.NodupKeys s.balances) (limit : Option Nat)
    (hl : limit ≠ some 0) (c : String) {fuel : Nat} (hf : s.balances.length + 1 ≤ fuel) :
    fetchLoop (fun c => queryAllAccounts s c limit) id (some c) fuel
      = ((sortedEntries strLt s.balances).filter (fun x => strLt c x.1)).map (·.1) :=
  listing_complete_after strictTotal_strLt hs hl (f := (·.1)) (key := id) (fun _ => rfl) (fun _ => rfl) c hf

/-- `AllAllowances { owner }` from any `start_after = c`: exactly the owner's allowances to spenders above `c`. -/
theorem owner_allowances_complete_after {s : State} (hs : AMap.NodupKeys s.allow) (owner : AddrArg)
    (hv : owner.valid = true) (limit : Option Nat) (hl : limit ≠ some 0) (c : String) {fuel : Nat}
    (hf : (ownerPrefix s owner.text).length + 1 ≤ fuel) :
    fetchLoop (fun c => okItems (queryOwnerAllowances s owner c limit)) (·.1) (some c) fuel
      = (sortedEntries strLt (ownerPrefix s owner.text)).filter (fun x => strLt c x.1) :=
  listing_complete_after_id strictTotal_strLt (ownerPrefix_nodup hs owner.text) hl
    (fun c => by simp [queryOwnerAllowances_eq, hv, okItems]) c hf

/-- `AllSpenderAllowances { spender }` from any `start_after = c`. -/
theorem spender_allowances_complete_after {s : State} (hs : AMap.NodupKeys s.allowSp) (spender : AddrArg)
    (hv : spender.valid = true) (limit : Option Nat) (hl : limit ≠ some 0) (c : String) {fuel : Nat}
    (hf : (spenderPrefix s spender.text).length + 1 ≤ fuel) :
    fetchLoop (fun c => okItems (querySpenderAllowances s spender c limit)) (·.1) (some c) fuel
      = (sortedEntries strLt (spenderPrefix s spender.text)).filter (fun x => strLt c x.1) :=
  listing_complete_after_id strictTotal_strLt (spenderPrefix_nodup hs spender.text) hl
    (fun c => by simp [querySpenderAllowances_eq, hv, okItems]) c hf

/-- The spender listing shows exactly the `ALLOWANCES_SPENDER` entries of that spender (mirror of
`owner_allowances_exact`). -/
theorem spender_allowances_exact {s : State} (hs : AMap.NodupKeys s.allowSp) (owner spender : Addr) (a : Allowance) :
    (owner, a) ∈ sortedEntries strLt (spenderPrefix s spender) ↔ s.allowSp.get? (spender, owner) = some a := by
  rw [mem_sortedEntries, AMap.get?_eq_some_iff hs]
  simp only [spenderPrefix, List.mem_map, List.mem_filter, decide_eq_true_eq]
  constructor
  · rintro ⟨⟨⟨sp, o⟩, v⟩, ⟨hm, ho⟩, he⟩
    simp only [Prod.mk.injEq] at he ho
    obtain ⟨rfl, rfl⟩ := he
    subst ho
    exact hm
  · intro hm
    exact ⟨((spender, owner), a), ⟨hm, rfl⟩, rfl⟩

/-- **All three cw20 listings, every cursor, every reachable state**: any accepted instantiation, any history
of execute messages, any owner/spender, any limit other than 0 and any `start_after` string `c` (taken from
an earlier page or not): the loop returns exactly the current items beyond `c`. -/
theorem cw20_listings_complete_after {m : InstMsg} {s0 : State} (h : instantiate m = .ok s0)
    (ops : List (Block × Addr × Msg)) (a : AddrArg) (hv : a.valid = true) (limit : Option Nat)
    (hl : limit ≠ some 0) (c : String) :
    let s := run s0 ops
    fetchLoop (fun c => queryAllAccounts s c limit) id (some c) (s.balances.length + 1)
        = ((sortedEntries strLt s.balances).filter (fun x => strLt c x.1)).map (·.1) ∧
    fetchLoop (fun c => okItems (queryOwnerAllowances s a c limit)) (·.1) (some c) ((ownerPrefix s a.text).length + 1)
        = (sortedEntries strLt (ownerPrefix s a.text)).filter (fun x => strLt c x.1) ∧
    fetchLoop (fun c => okItems (querySpenderAllowances s a c limit)) (·.1) (some c) ((spenderPrefix s a.text).length + 1)
        = (sortedEntries strLt (spenderPrefix s a.text)).filter (fun x => strLt c x.1) := by
  intro s
  have hi := reach_nodup h ops
  exact ⟨all_accounts_complete_after hi.balances limit hl c (Nat.le_refl _),
    owner_allowances_complete_after hi.allow a hv limit hl c (Nat.le_refl _),
    spender_allowances_complete_after hi.allowSp a hv limit hl c (Nat.le_refl _)⟩

/-- A page shorter than the effective limit is the last one: the request that continues from its last key
returns the empty page (the termination test real clients use).  For a sorted listing. -/
theorem short_page_is_last {lt : κ → κ → Bool} (ht : StrictTotal lt) {xs : List (κ × ν)} (h : Sorted lt xs)
    (c : Option κ) (limit : Option Nat) {last : κ × ν}
    (hlast : (page lt xs c limit).getLast? = some last)
    (hshort : (page lt xs c limit).length < effLimit limit) :
    page lt xs (some last.1) limit = [] := by
  obtain ⟨pre, hpre⟩ := afterCursor_suffix ht h c
  have hlen := page_length_eq lt xs c limit
  have hall : page lt xs c limit = afterCursor lt xs c := by
    unfold page; apply List.take_of_length_le; omega
  have hx : xs = (pre ++ afterCursor lt xs c) ++ [] := by rw [List.append_nil, hpre]
  have hc : cursorOf (pre ++ afterCursor lt xs c) = some last.1 :=
    cursorOf_append_of_getLast? (by rw [← hall]; exact hlast)
  have := page_next ht (pre := pre ++ afterCursor lt xs c) (suf := []) (by rw [← hx]; exact h) limit
  rw [← hx, hc] at this
  simpa using this

/-- **How many requests**: for a listing of `n` items and effective page size `e = min (limit or 10) 30`, the
client loop is complete after `⌊n / e⌋ + 2` requests (the full pages, possibly one short page, and the empty page
that ends it) — e.g. 3 requests for 35 items at the maximum page size.  (`length + 1` of the other theorems is the
bound for page size 1.) -/
theorem paginate_complete_pages {lt : κ → κ → Bool} (ht : StrictTotal lt) {xs : List (κ × ν)} (h : Sorted lt xs)
    {limit : Option Nat} (hl : limit ≠ some 0) :
    fetchAll lt xs limit none (xs.length / effLimit limit + 2) = xs :=
  fetchAll_complete_pages ht h (effLimit_pos hl)

/-- The same for a model query (`page` of `sortedEntries` up to a projection). -/
theorem listing_complete_pages [DecidableEq κ] {α : Type} {lt : κ → κ → Bool} (ht : StrictTotal lt)
    {m : AMap κ ν} (hm : AMap.NodupKeys m) {limit : Option Nat} (hl : limit ≠ some 0)
    {q : Option κ → List α} {key : α → κ} {f : κ × ν → α}
    (hq : ∀ c, q c = (page lt (sortedEntries lt m) c limit).map f) (hk : ∀ x, key (f x) = x.1) :
    fetchLoop q key none (m.length / effLimit limit + 2) = (sortedEntries lt m).map f := by
  rw [fetchLoop_eq_fetchAll hq hk]
  have := fetchAll_complete_pages ht (sortedEntries_sorted hm ht) (effLimit_pos hl) (limit := limit)
  rw [sortedEntries_length] at this
  rw [this]

/-- `AllAccounts` with the tight request bound. -/
theorem all_accounts_complete_pages {s : State} (hs : AMap.NodupKeys s.balances) (limit : Option Nat)
    (hl : limit ≠ some 0) :
    fetchLoop (fun c => queryAllAccounts s c limit) id none (s.balances.length / effLimit limit + 2)
      = (sortedEntries strLt s.balances).map (·.1) :=
  listing_complete_pages strictTotal_strLt hs hl (f := (·.1)) (key := id) (fun _ => rfl) (fun _ => rfl)

/-! ## Non-vacuity: concrete listings with more than 30 items -/

/-- 35 items with keys 0, 2, …, 68. -/
def xs35 : List (Nat × Nat) := (List.range 35).map (fun i => (2 * i, i))

example : Sorted natLt xs35 := by unfold Sorted; decide
example : fetchAll natLt xs35 none none 36 = xs35 := by decide          -- 10+10+10+5, then an empty page
example : fetchAll natLt xs35 (some 1) none 36 = xs35 := by decide      -- 35 pages of one item
example : fetchAll natLt xs35 (some 31) none 36 = xs35 := by decide     -- capped: 30+5
example : fetchAll natLt xs35 (some 31) none 3 = xs35 := by decide      -- three requests suffice
example : fetchAll natLt xs35 (some 0) none 36 = [] := by decide        -- limit 0: nothing (excluded case)
example : (page natLt xs35 none none).length = 10 := by decide
example : (page natLt xs35 none (some 31)).length = 30 := by decide
example : (page natLt xs35 none (some 7)).length = 7 := by decide
example : page natLt xs35 (some 58) none = [(60, 30), (62, 31), (64, 32), (66, 33), (68, 34)] := by decide
example : page natLt xs35 (some 59) (some 2) = [(60, 30), (62, 31)] := by decide   -- cursor need not be a key
example : fetchAllDesc natLt xs35.reverse (some 4) none 36 = xs35.reverse := by decide
example : pageDesc natLt xs35.reverse (some 6) (some 5) = [(4, 2), (2, 1), (0, 0)] := by decide
example : fetchAll natLt (xs35.filter (fun x => x.2 % 3 == 0)) (some 5) none 36
    = xs35.filter (fun x => x.2 % 3 == 0) := by decide

/-- A cw20 state with 12 accounts and 3 allowances (two owners). -/
def sEx : State :=
  { supply := 78, mint := none,
    balances := [("m", 1), ("c", 2), ("a", 3), ("k", 4), ("b", 5), ("z", 6), ("d", 7), ("y", 8), ("e", 9),
                 ("x", 10), ("f", 11), ("g", 12)],
    allow := [(("a", "s2"), ⟨5, .never⟩), (("b", "s1"), ⟨6, .never⟩), (("a", "s1"), ⟨7, .never⟩)],
    allowSp := [(("s2", "a"), ⟨5, .never⟩), (("s1", "b"), ⟨6, .never⟩), (("s1", "a"), ⟨7, .never⟩)],
    version := ⟨CONTRACT_NAME, 2, 0, 0, none⟩ }

theorem sEx_nodup : NodupInv sEx :=
  ⟨by unfold AMap.NodupKeys AMap.keys; decide, by unfold AMap.NodupKeys AMap.keys; decide,
   by unfold AMap.NodupKeys AMap.keys; decide⟩
example : queryAllAccounts sEx none none = ["a", "b", "c", "d", "e", "f", "g", "k", "m", "x"] := by
  have h : sortedEntries strLt sEx.balances = [("a", 3), ("b", 5), ("c", 2), ("d", 7), ("e", 9), ("f", 11),
      ("g", 12), ("k", 4), ("m", 1), ("x", 10), ("y", 8), ("z", 6)] :=
    (Sorted.eq_of_perm strictTotal_strLt (sortedEntries_sorted sEx_nodup.balances strictTotal_strLt)
      (by unfold Sorted; decide) ((sortedEntries_perm _ _).trans (by decide)))
  simp only [queryAllAccounts, h]; decide


/-! ### Non-vacuity of the any-cursor theorems -/

example : fetchAll natLt xs35 (some 7) (some 41) 36 = xs35.filter (fun x => natLt 41 x.1) := by decide  -- cursor not a key
example : fetchAll natLt xs35 (some 7) (some 40) 36 = xs35.drop 21 := by decide                         -- cursor is a key
example : fetchAll natLt xs35 none (some 100) 36 = [] := by decide                                      -- beyond the end
example : xs35.filter (fun x => !natLt 41 x.1) ++ xs35.filter (fun x => natLt 41 x.1) = xs35 := by decide
example : fetchAll natLt xs35 (some 7) (some 41) 36 = xs35.filter (fun x => natLt 41 x.1) :=
  paginate_complete_after strictTotal_natLt (by unfold Sorted; decide) (by decide) 41 (by decide)
/-- `short_page_is_last`: the page after key 58 with limit 10 has 5 < 10 items; continuing from its last key 68
returns nothing. -/
example : (page natLt xs35 (some 58) none).length = 5 ∧ page natLt xs35 (some 68) none = [] := by decide
/-- `all_accounts_complete_after` on the 12-account state: from the non-existing cursor "ea" with pages of 4 the
loop returns the seven addresses above it. -/
example : fetchLoop (fun c => queryAllAccounts sEx c (some 4)) id (some "ea") 13 = ["f", "g", "k", "m", "x", "y", "z"] := by
  have h : sortedEntries strLt sEx.balances = [("a", 3), ("b", 5), ("c", 2), ("d", 7), ("e", 9), ("f", 11),
      ("g", 12), ("k", 4), ("m", 1), ("x", 10), ("y", 8), ("z", 6)] :=
    (Sorted.eq_of_perm strictTotal_strLt (sortedEntries_sorted sEx_nodup.balances strictTotal_strLt)
      (by unfold Sorted; decide) ((sortedEntries_perm _ _).trans (by decide)))
  rw [all_accounts_complete_after sEx_nodup.balances (some 4) (by decide) "ea" (by decide), h]
  decide
/-- `owner_allowances_complete_after` / `spender_allowances_exact` on the same state. -/
example : fetchLoop (fun c => okItems (queryOwnerAllowances sEx ⟨true, "a"⟩ c (some 1))) (·.1) (some "s1") 3
    = [("s2", ⟨5, .never⟩)] := by
  have h : sortedEntries strLt (ownerPrefix sEx "a") = [("s1", ⟨7, .never⟩), ("s2", ⟨5, .never⟩)] :=
    (Sorted.eq_of_perm strictTotal_strLt
      (sortedEntries_sorted (ownerPrefix_nodup sEx_nodup.allow "a") strictTotal_strLt)
      (by unfold Sorted; decide) ((sortedEntries_perm _ _).trans (by decide)))
  rw [owner_allowances_complete_after sEx_nodup.allow ⟨true, "a"⟩ rfl (some 1) (by decide) "s1" (by decide), h]
  decide
example : ("b", ⟨6, .never⟩) ∈ sortedEntries strLt (spenderPrefix sEx "s1") :=
  (spender_allowances_exact sEx_nodup.allowSp "b" "s1" ⟨6, .never⟩).mpr (by decide)


/-- `paginate_complete_pages`: 35 items, page size 30: 35 / 30 + 2 = 3 requests; page size 10: 5 requests. -/
example : fetchAll natLt xs35 (some 31) none (xs35.length / effLimit (some 31) + 2) = xs35 :=
  paginate_complete_pages strictTotal_natLt (by unfold Sorted; decide) (by decide)
example : xs35.length / effLimit (some 31) + 2 = 3 ∧ xs35.length / effLimit none + 2 = 5 := by decide
example : fetchAll natLt xs35 (some 31) none 1 ≠ xs35 := by decide   -- one request is not enough (two already return all 35 items; the third sees the empty page)

end CwPlus.Props.C20
