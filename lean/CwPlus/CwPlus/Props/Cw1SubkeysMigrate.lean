import CwPlus.Model.Cw1Subkeys
/-!
# cw1-subkeys `migrate` and the cw2 version item (extra obligations, not one of C01–C20)

`migrate` of cw1-subkeys only does version bookkeeping.  Proved here, about the model `CwPlus.Cw1Subkeys`:

* `migrate_frame`: `migrate` never touches the admin list, the allowances or the permissions — so the
  statements of C07, C08, C16, C17 (which only mention those) are unaffected by interleaved migrations;
  conversely `execute_cw2_frame`: no execute message touches the cw2 item;
* `migrate_ok_iff`: it succeeds exactly when the cw2 item exists and its version is a semantic version;
* `migrate_exact`: on success the item is `(crates.io:cw1-subkeys, 2.0.0)` when the stored version was
  strictly older, and is left as it was otherwise (`migrate_never_downgrades`, `migrate_idempotent`);
  the stored contract *name* is never examined (`migrate_ignores_name`);
* `reach_version`: a contract instantiated by this code keeps `(crates.io:cw1-subkeys, 2.0.0)` over every
  mixed history of execute messages and migrations.
-/
namespace CwPlus.Props.Cw1SubkeysMigrate
open CwPlus CwPlus.Cw1Subkeys

def current : Cw2 := ⟨CONTRACT_NAME, some CONTRACT_VERSION⟩

/-- **Frame**: `migrate` leaves admins, mutability, allowances and permissions exactly as they were. -/
theorem migrate_frame {s s' : State} (h : migrate s = .ok s') :
    s'.cfg = s.cfg ∧ s'.allowances = s.allowances ∧ s'.permissions = s.permissions := by
  unfold migrate at h
  split at h
  · simp at h
  · split at h
    · simp at h
    · split at h <;> simp [pure, Except.pure] at h <;> subst h <;> exact ⟨rfl, rfl, rfl⟩

/-- **Exactly when `migrate` succeeds**: the cw2 item exists and its version parses. -/
theorem migrate_ok_iff (s : State) : (∃ s', migrate s = .ok s') ↔ ∃ c v, s.cw2 = some c ∧ c.version = some v := by
  unfold migrate
  rcases hc : s.cw2 with _ | c
  · simp
  · rcases hv : c.version with _ | v
    · simp [hv]
    · simp only [hv]
      split <;> simp [pure, Except.pure, hv]

/-- **What a successful `migrate` stores**: current name and version if the stored version was strictly
older (semver precedence), nothing new otherwise. -/
theorem migrate_exact {s s' : State} (h : migrate s = .ok s') :
    ∃ c v, s.cw2 = some c ∧ c.version = some v ∧
      s' = (if SemVer.lt v CONTRACT_VERSION then { s with cw2 := some current } else s) := by
  unfold migrate at h
  split at h
  · simp at h
  · rename_i c hc
    split at h
    · simp at h
    · rename_i v hv
      refine ⟨c, v, hc, hv, ?_⟩
      split at h <;> simp [pure, Except.pure] at h <;> subst h <;> simp [*, current]

theorem lt_irrefl_current : SemVer.lt CONTRACT_VERSION CONTRACT_VERSION = false := by decide

/-- The stored version never goes down: after a successful `migrate` it is the old one or the current
one, and the current one only replaces a strictly older one. -/
theorem migrate_never_downgrades {s s' : State} (h : migrate s = .ok s') :
    s'.cw2 = s.cw2 ∨ (s'.cw2 = some current ∧ ∃ c v, s.cw2 = some c ∧ c.version = some v ∧ SemVer.lt v CONTRACT_VERSION = true) := by
  obtain ⟨c, v, hc, hv, rfl⟩ := migrate_exact h
  by_cases hl : SemVer.lt v CONTRACT_VERSION = true
  · right; simp [hl]; exact ⟨c, hc, v, hv, hl⟩
  · left; simp [hl]

/-- Migrating twice is migrating once. -/
theorem migrate_idempotent {s s' : State} (h : migrate s = .ok s') : migrate s' = .ok s' := by
  obtain ⟨c, v, hc, hv, rfl⟩ := migrate_exact h
  by_cases hl : SemVer.lt v CONTRACT_VERSION = true
  · simp only [hl, if_true]
    simp [migrate, current, lt_irrefl_current, pure, Except.pure]
  · simp only [hl]
    simp [migrate, hc, hv, hl, pure, Except.pure]

/-- `migrate` never looks at the stored contract name: two states that differ only in it are treated alike
(so the state of another contract, e.g. `crates.io:cw1-whitelist`, is accepted and relabelled). -/
theorem migrate_ignores_name (s : State) (n1 n2 : String) (v : Option SemVer) :
    (migrate { s with cw2 := some ⟨n1, v⟩ }).isOk = (migrate { s with cw2 := some ⟨n2, v⟩ }).isOk := by
  unfold migrate
  rcases v with _ | v
  · rfl
  · simp only; split <;> rfl

/-- A stored version newer than the code's is accepted silently and left in place. -/
theorem migrate_newer_accepted (s : State) (c : Cw2) (v : SemVer) (hc : s.cw2 = some c) (hv : c.version = some v)
    (hn : SemVer.lt v CONTRACT_VERSION = false) : migrate s = .ok s := by
  simp [migrate, hc, hv, hn, pure, Except.pure]

/-! ## execute never touches the cw2 item -/

theorem checkMsg_cw2 {s s' : State} {blk : Block} {snd : Addr} {m : Cw1Whitelist.CosmosMsg}
    (h : checkMsg s blk snd m = .ok s') : s'.cw2 = s.cw2 := by
  unfold checkMsg at h
  split at h
  · split at h
    · simp at h
    · simp at h; rw [← h.2]
  · split at h
    · simp at h
    · simp at h; rw [← h.2]
  · split at h
    · simp at h
    · simp at h; obtain ⟨_, b, _, rfl⟩ := h; rfl
  · simp at h

theorem checkMsgs_cw2 {s s' : State} {blk : Block} {snd : Addr} {ms : List Cw1Whitelist.CosmosMsg}
    (h : checkMsgs s blk snd ms = .ok s') : s'.cw2 = s.cw2 := by
  induction ms generalizing s with
  | nil => simp [checkMsgs] at h; rw [h]
  | cons m rest ih =>
    simp only [checkMsgs, Res.bind_ok] at h
    obtain ⟨s1, h1, h2⟩ := h
    rw [ih h2, checkMsg_cw2 h1]

/-- **Converse frame**: no execute message (relay, freeze, admin update, allowance and permission
changes) touches the cw2 item. -/
theorem execute_cw2_frame {s s' : State} {blk : Block} {snd : Addr} {m : Msg} {out : List Cw1Whitelist.CosmosMsg}
    (h : execute s blk snd m = .ok (s', out)) : s'.cw2 = s.cw2 := by
  cases m <;> simp only [execute] at h
  case execute msgs =>
    unfold execExecute at h
    split at h
    · simp at h; rw [← h.1]
    · simp at h; obtain ⟨s1, h1, rfl, _⟩ := h; exact checkMsgs_cw2 h1
  case freeze =>
    simp [execFreeze] at h; obtain ⟨c, o, _, rfl, _⟩ := h; rfl
  case updateAdmins admins =>
    simp [execUpdateAdmins] at h; obtain ⟨c, o, _, rfl, _⟩ := h; rfl
  case increaseAllowance sp c e =>
    simp [execIncreaseAllowance] at h; obtain ⟨_, _, _, a, _, rfl, _⟩ := h; rfl
  case decreaseAllowance sp c e =>
    simp only [execDecreaseAllowance, Res.bind_ok] at h
    obtain ⟨_, _, _, _, _, _, a, _, h⟩ := h
    split at h <;> simp [pure, Except.pure] at h <;> rw [← h.1]
  case setPermissions sp p =>
    simp [execSetPermissions] at h; obtain ⟨_, _, _, rfl, _⟩ := h; rfl

/-! ## Mixed histories -/

inductive Op where
  | exec (blk : Block) (snd : Addr) (m : Msg)
  | migrate

/-- One transaction of a mixed history (failed ones rolled back). -/
def opStep (s : State) : Op → State
  | .exec blk snd m => step s blk snd m
  | .migrate => match migrate s with | .ok s' => s' | .error _ => s

def run (s : State) (ops : List Op) : State := ops.foldl opStep s

theorem instantiate_version {m : InstMsg} {s : State} (h : instantiate m = .ok s) : s.cw2 = some current := by
  simp [instantiate] at h
  obtain ⟨c, _, rfl⟩ := h
  rfl

theorem opStep_version {s : State} (op : Op) (h : s.cw2 = some current) : (opStep s op).cw2 = some current := by
  cases op with
  | exec blk snd m =>
    simp only [opStep, step]
    split
    · rename_i s' out he; rw [execute_cw2_frame he]; exact h
    · exact h
  | migrate =>
    simp only [opStep]
    split
    · rename_i s' hm
      rcases migrate_never_downgrades hm with e | ⟨e, _⟩
      · rw [e]; exact h
      · exact e
    · exact h

/-- **A contract instantiated by this code keeps its cw2 item** `(crates.io:cw1-subkeys, 2.0.0)` over every
mixed history of execute messages and migrations (every one of which succeeds and changes nothing). -/
theorem reach_version {m : InstMsg} {s : State} (h : instantiate m = .ok s) (ops : List Op) :
    (run s ops).cw2 = some current := by
  have hi := instantiate_version h
  clear h
  induction ops generalizing s with
  | nil => exact hi
  | cons op rest ih => exact ih (opStep_version op hi)

/-! `execute` commutes with replacing the cw2 item (it neither reads nor writes it). -/

theorem checkMsg_with_cw2 (b : State) (c : Option Cw2) (blk : Block) (snd : Addr) (m : Cw1Whitelist.CosmosMsg) :
    checkMsg { b with cw2 := c } blk snd m = (checkMsg b blk snd m).map (fun r => { r with cw2 := c }) := by
  cases m <;> simp only [checkMsg]
  case staking k x =>
    cases b.permissions.get? snd with
    | none => rfl
    | some p => simp only [bind, Except.bind]; cases checkStaking k p <;> rfl
  case distribution k x =>
    cases b.permissions.get? snd with
    | none => rfl
    | some p => simp only [bind, Except.bind]; cases checkDistribution k p <;> rfl
  case bankSend to coins =>
    cases b.allowances.get? snd with
    | none => rfl
    | some a =>
      simp only [bind, Except.bind]
      cases check (!a.expires.isExpired blk) "no_allowance.expired" with
      | error e => rfl
      | ok u => cases a.balance.subCoins coins <;> rfl
  all_goals rfl

theorem checkMsgs_with_cw2 (b : State) (c : Option Cw2) (blk : Block) (snd : Addr) (ms : List Cw1Whitelist.CosmosMsg) :
    checkMsgs { b with cw2 := c } blk snd ms = (checkMsgs b blk snd ms).map (fun r => { r with cw2 := c }) := by
  induction ms generalizing b with
  | nil => rfl
  | cons m rest ih =>
    simp only [checkMsgs, checkMsg_with_cw2]
    cases checkMsg b blk snd m with
    | error e => rfl
    | ok s1 => simp only [Except.map, bind, Except.bind]; exact ih s1

theorem execute_with_cw2 (b : State) (c : Option Cw2) (blk : Block) (snd : Addr) (m : Msg) :
    execute { b with cw2 := c } blk snd m =
      (execute b blk snd m).map (fun r => ({ r.1 with cw2 := c }, r.2)) := by
  cases m <;> simp only [execute]
  case execute msgs =>
    simp only [execExecute]
    split
    · rfl
    · rw [checkMsgs_with_cw2]
      cases checkMsgs b blk snd msgs <;> rfl
  case freeze =>
    simp only [execFreeze]
    cases Cw1Whitelist.execFreeze b.cfg snd <;> rfl
  case updateAdmins admins =>
    simp only [execUpdateAdmins]
    cases Cw1Whitelist.execUpdateAdmins b.cfg snd admins <;> rfl
  case increaseAllowance sp cn e =>
    simp only [execIncreaseAllowance]
    cases check (b.cfg.isAdmin snd) "unauthorized" <;> try rfl
    cases check sp.valid "addr" <;> try rfl
    cases check (decide (sp.text ≠ snd)) "own_account" <;> try rfl
    cases incFn blk cn e (b.allowances.get? sp.text) <;> rfl
  case decreaseAllowance sp cn e =>
    simp only [execDecreaseAllowance]
    cases check (b.cfg.isAdmin snd) "unauthorized" <;> try rfl
    cases check sp.valid "addr" <;> try rfl
    cases check (decide (sp.text ≠ snd)) "own_account" <;> try rfl
    cases decFn blk cn e (b.allowances.get? sp.text) with
    | error e => rfl
    | ok a => simp only [bind, Except.bind]; split <;> rfl
  case setPermissions sp p =>
    simp only [execSetPermissions]
    cases check (b.cfg.isAdmin snd) "unauthorized" <;> try rfl
    cases check sp.valid "addr" <;> try rfl
    cases check (decide (sp.text ≠ snd)) "own_account" <;> rfl

/-- Over a mixed history, what C07/C08/C16/C17 talk about (admins, allowances, permissions) is what the
same history without its migrations produces. -/
theorem run_erase_migrations (s : State) (ops : List Op) :
    let ex := ops.filter (fun o => match o with | .exec .. => true | .migrate => false)
    (run s ops).cfg = (run s ex).cfg ∧ (run s ops).allowances = (run s ex).allowances ∧
    (run s ops).permissions = (run s ex).permissions := by
  -- generalised: two start states that agree on the three fields stay in agreement
  suffices H : ∀ (ops : List Op) (a b : State), a.cfg = b.cfg → a.allowances = b.allowances → a.permissions = b.permissions →
      (run a ops).cfg = (run b (ops.filter (fun o => match o with | .exec .. => true | .migrate => false))).cfg ∧
      (run a ops).allowances = (run b (ops.filter (fun o => match o with | .exec .. => true | .migrate => false))).allowances ∧
      (run a ops).permissions = (run b (ops.filter (fun o => match o with | .exec .. => true | .migrate => false))).permissions from
    H ops s s rfl rfl rfl
  intro ops
  induction ops with
  | nil => intro a b h1 h2 h3; exact ⟨h1, h2, h3⟩
  | cons op rest ih =>
    intro a b h1 h2 h3
    cases op with
    | migrate =>
      simp only [run, List.foldl_cons, List.filter_cons, opStep]
      have hf : (match migrate a with | .ok s' => s' | .error _ => a).cfg = a.cfg ∧
          (match migrate a with | .ok s' => s' | .error _ => a).allowances = a.allowances ∧
          (match migrate a with | .ok s' => s' | .error _ => a).permissions = a.permissions := by
        split
        · rename_i s' hm; exact migrate_frame hm
        · exact ⟨rfl, rfl, rfl⟩
      exact ih _ b (hf.1.trans h1) (hf.2.1.trans h2) (hf.2.2.trans h3)
    | exec blk snd m =>
      simp only [run, List.foldl_cons, List.filter_cons, opStep, if_true]
      have hs := step_agree a b blk snd m h1 h2 h3
      exact ih _ _ hs.1 hs.2.1 hs.2.2
where
  /-- `execute` reads and writes only the three fields: states that agree on them step to states that do. -/
  step_agree (a b : State) (blk : Block) (snd : Addr) (m : Msg)
      (h1 : a.cfg = b.cfg) (h2 : a.allowances = b.allowances) (h3 : a.permissions = b.permissions) :
      (step a blk snd m).cfg = (step b blk snd m).cfg ∧ (step a blk snd m).allowances = (step b blk snd m).allowances ∧
      (step a blk snd m).permissions = (step b blk snd m).permissions := by
    have ha : a = { b with cw2 := a.cw2 } := by
      cases a; cases b; simp_all
    rw [ha]
    have key := execute_with_cw2 b a.cw2 blk snd m
    unfold step
    rw [key]
    cases execute b blk snd m with
    | error e => exact ⟨rfl, rfl, rfl⟩
    | ok r => exact ⟨rfl, rfl, rfl⟩

/-! ## Non-vacuity -/

def exState : State := { cfg := ⟨["admin"], true⟩, allowances := [("k", ⟨[("ua", 5)], .never⟩)], permissions := [] }

/-- older version, foreign name: relabelled to the current name and version; allowances untouched -/
example : migrate { exState with cw2 := some ⟨"crates.io:cw1-whitelist", some ⟨0, 13, 4, none⟩⟩ } = .ok exState := by rfl

/-- a pre-release of the current version is older than the release -/
example : migrate { exState with cw2 := some ⟨CONTRACT_NAME, some ⟨2, 0, 0, some "beta"⟩⟩ } = .ok exState := by rfl

/-- newer version: accepted, kept -/
example : migrate { exState with cw2 := some ⟨CONTRACT_NAME, some ⟨3, 0, 0, some "rc1"⟩⟩ } =
    .ok { exState with cw2 := some ⟨CONTRACT_NAME, some ⟨3, 0, 0, some "rc1"⟩⟩ } := by rfl

/-- absent item / unparseable version: refused -/
example : (migrate { exState with cw2 := none }).isOk = false ∧
    (migrate { exState with cw2 := some ⟨CONTRACT_NAME, none⟩ }).isOk = false := by decide

example : (run exState [.migrate, .exec ⟨1, 1⟩ "k" (.execute [.bankSend "x" [("ua", 2)]]), .migrate]).allowances
    = [("k", ⟨[("ua", 3)], .never⟩)] := by decide

end CwPlus.Props.Cw1SubkeysMigrate
