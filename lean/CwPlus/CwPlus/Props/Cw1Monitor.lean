import CwPlus.Driver.Cw1
import CwPlus.Props.C07
import CwPlus.Props.C08
/-!
# cw1 monitors compute the theorems' predicates

`Driver/Cw1.lean` re-implements, for its monitors, the coverage predicate of C07 (`coverMsg` / `coverAll`) and the
coin bookkeeping of C08 (`sentCoins`, `balOf`).  The lemmas below show that these executable copies are the
predicates the theorems of `Props/C07.lean` / `Props/C08.lean` are about, so that "the monitor recomputes coverage
from the implementation's observation" means "it evaluates `C07.coveredFrom`".
-/
namespace CwPlus.Props.Cw1Monitor
open CwPlus
open CwPlus.Cw1Whitelist (AddrArg CosmosMsg StakingKind DistrKind)
open CwPlus.Cw1Subkeys (Allowance Permissions)
open CwPlus.Driver.Cw1 (coverMsg coverAll)

/-- One message: the monitor's `coverMsg` is `C07.covers`, with the allowance left as it was when uncovered. -/
theorem coverMsg_eq_covers (blk : Block) (perm : Option Permissions) (al : Option Allowance) (m : CosmosMsg) :
    coverMsg blk perm al m = match C07.covers perm blk al m with
      | some al' => (al', true)
      | none => (al, false) := by
  cases m with
  | bankSend to cs =>
    simp only [coverMsg, C07.covers]
    cases al with
    | none => rfl
    | some a =>
      simp only
      cases hx : a.expires.isExpired blk
      · cases hs : a.balance.subCoins cs <;> simp
      · simp
  | staking k p =>
    simp only [coverMsg, C07.covers]
    cases perm with
    | none => rfl
    | some q => obtain ⟨d, r, u, w⟩ := q; cases k <;> cases d <;> cases r <;> cases u <;> cases w <;> rfl
  | distribution k p =>
    simp only [coverMsg, C07.covers]
    cases perm with
    | none => rfl
    | some q => obtain ⟨d, r, u, w⟩ := q; cases k <;> cases w <;> rfl
  | bankBurn _ => rfl
  | wasm _ => rfl
  | ibc _ => rfl
  | gov _ => rfl
  | other _ => rfl

/-- C07, monitor link: the verdict of the monitor's `coverAll` on a message list is exactly `C07.coveredFrom`, the
predicate of `C07.Sk.execute_ok_iff`. -/
theorem coverAll_eq_coveredFrom (blk : Block) (perm : Option Permissions) (al : Option Allowance) (ms : List CosmosMsg) :
    (coverAll blk perm al ms).2 = C07.coveredFrom perm blk al ms := by
  induction ms generalizing al with
  | nil => rfl
  | cons m rest ih =>
    simp only [coverAll, C07.coveredFrom, coverMsg_eq_covers]
    cases C07.covers perm blk al m with
    | none => rfl
    | some al' => simp only [if_true]; exact ih al'

/-- On a covered list the allowance `coverAll` returns is the one the model's loop leaves behind: for every
denomination it is the old one minus everything the bank sends of the list sent (`C08.covers_total` threaded). -/
theorem coverAll_remaining {blk : Block} {perm : Option Permissions} {al : Option Allowance} {ms : List CosmosMsg}
    (h : (coverAll blk perm al ms).2 = true) (d : String) :
    NativeBalance.total (C08.balOf (coverAll blk perm al ms).1) d + C08.sent ms d = NativeBalance.total (C08.balOf al) d := by
  induction ms generalizing al with
  | nil => simp [coverAll, C08.sent, C08.sentCoins]
  | cons m rest ih =>
    simp only [coverAll, coverMsg_eq_covers] at h ⊢
    cases hc : C07.covers perm blk al m with
    | none => rw [hc] at h; simp at h
    | some al' =>
      rw [hc] at h
      simp only [if_true] at h ⊢
      have e1 := (C08.covers_total hc).1 d
      have e2 := ih h
      rw [C08.sent_cons]
      omega

/-- The monitor's `sentCoins` is the one of C08. -/
theorem sentCoins_eq (ms : List CosmosMsg) : Driver.Cw1.sentCoins ms = C08.sentCoins ms := by
  induction ms with
  | nil => rfl
  | cons m rest ih =>
    simp only [Driver.Cw1.sentCoins, List.flatMap_cons, C08.sentCoins] at ih ⊢
    rw [ih]
    cases m <;> rfl

/-- The monitor's `balOf` is the one of C08. -/
theorem balOf_eq (m : AMap String Allowance) (k : String) : Driver.Cw1.balOf m k = C08.balOf (AMap.get? m k) := by
  simp only [Driver.Cw1.balOf, C08.balOf]
  cases AMap.get? m k <;> rfl

example : (coverAll C07.blk50 (C07.exState.permissions.get? "sub") (C07.exState.allowances.get? "sub")
    [.bankSend "x" [("ua", 4)], .staking .delegate "v", .bankSend "y" [("ua", 6), ("ub", 1)]]).2 = true := by decide
example : (coverAll C07.blk50 (C07.exState.permissions.get? "sub") (C07.exState.allowances.get? "sub")
    [.bankSend "x" [("ua", 4)], .bankSend "y" [("ua", 7)]]).2 = false := by decide

end CwPlus.Props.Cw1Monitor
