import CwPlus.Props.C07
import CwPlus.Props.C17
import CwPlus.Lemmas.NativeBalanceSub
import CwPlus.Lemmas.Paginate
/-!
# C08 — cw1-subkeys: a subkey never spends beyond its unexpired native allowance

Amounts are measured per denomination: `held s x d` is the total of denom `d` in the stored
allowance of `x` (0 without allowance), `sent msgs d` the total of `d` over all coins of all
bank sends of a message list.
-/
namespace CwPlus.Props.C08
open CwPlus
open CwPlus.Cw1Whitelist (AddrArg CosmosMsg AdminList mapValidate)
open CwPlus.Cw1Subkeys (Allowance Permissions incFn decFn)
open CwPlus.NativeBalance (total)
open CwPlus.Props.C07 (covers coveredFrom coveredSeq)

/-- Balance of an optional allowance (empty without one). -/
def balOf (al : Option Allowance) : NativeBalance :=
  match al with
  | some a => a.balance
  | none => []

/-- Stored balance of subkey `x` (expired or not). -/
def bal (s : Cw1Subkeys.State) (x : Addr) : NativeBalance := balOf (s.allowances.get? x)

/-- What the stored allowance of `x` holds in denom `d`. -/
def held (s : Cw1Subkeys.State) (x : Addr) (d : String) : Nat := total (bal s x) d

/-- The coins a message sends from the proxy's bank balance on behalf of a subkey. -/
def msgCoins : CosmosMsg → List Coin
  | .bankSend _ cs => cs
  | _ => []

/-- All coins of all bank sends of a list, in order. -/
def sentCoins : List CosmosMsg → List Coin
  | [] => []
  | m :: ms => msgCoins m ++ sentCoins ms

/-- Σ over all bank sends of the call of the amounts of denom `d`. -/
def sent (msgs : List CosmosMsg) (d : String) : Nat := total (sentCoins msgs) d

theorem total_append (a b : NativeBalance) (d : String) : total (a ++ b) d = total a d + total b d := by
  induction a with
  | nil => simp
  | cons c rest ih => rw [List.cons_append, NativeBalance.total_cons, NativeBalance.total_cons, ih]; omega

theorem isEmpty_total {b : NativeBalance} (h : b.isEmpty = true) (d : String) : total b d = 0 := by
  induction b with
  | nil => rfl
  | cons c rest ih =>
    obtain ⟨d', a⟩ := c
    simp [NativeBalance.isEmpty] at h ih
    simp [total, h.1, ih h.2]

/-- One covered message: the remaining allowance is the old one minus exactly the coins of the message,
denom by denom; the expiry is untouched; a bank send needs an existing, unexpired allowance. -/
theorem covers_total {perm : Option Permissions} {blk : Block} {al al' : Option Allowance} {m : CosmosMsg}
    (h : covers perm blk al m = some al') :
    (∀ d, total (balOf al') d + total (msgCoins m) d = total (balOf al) d) ∧
    al'.map (·.expires) = al.map (·.expires) ∧
    (∀ to cs, m = .bankSend to cs → ∃ a, al = some a ∧ a.expires.isExpired blk = false) := by
  cases m with
  | bankSend to coins =>
    simp only [covers] at h
    cases al with
    | none => simp at h
    | some a =>
      simp only at h
      cases hx : a.expires.isExpired blk
      · cases hs : a.balance.subCoins coins with
        | error e => simp [hx, hs] at h
        | ok b =>
          simp [hx, hs] at h
          subst h
          refine ⟨fun d => ?_, rfl, fun _ _ _ => ⟨a, rfl, hx⟩⟩
          simpa [balOf, msgCoins] using NativeBalance.total_subCoins hs d
      · simp [hx] at h
  | staking k p =>
    simp only [covers] at h
    split at h
    · split at h
      · simp at h; subst h; exact ⟨fun d => by simp [msgCoins], rfl, fun _ _ hm => by cases hm⟩
      · cases h
    · cases h
  | distribution k p =>
    simp only [covers] at h
    split at h
    · split at h
      · simp at h; subst h; exact ⟨fun d => by simp [msgCoins], rfl, fun _ _ hm => by cases hm⟩
      · cases h
    · cases h
  | bankBurn _ => simp [covers] at h
  | wasm _ => simp [covers] at h
  | ibc _ => simp [covers] at h
  | gov _ => simp [covers] at h
  | other _ => simp [covers] at h

/-- The permission loop as a whole: exact deduction per denom, expiry untouched, and any bank send in the
list needs the sender's allowance to exist and be unexpired. -/
theorem checkMsgs_total {s s' : Cw1Subkeys.State} {blk : Block} {snd : Addr} {msgs : List CosmosMsg}
    (h : Cw1Subkeys.checkMsgs s blk snd msgs = .ok s') :
    (∀ d, held s' snd d + sent msgs d = held s snd d) ∧
    (s'.allowances.get? snd).map (·.expires) = (s.allowances.get? snd).map (·.expires) ∧
    (∀ to cs, CosmosMsg.bankSend to cs ∈ msgs → ∃ a, s.allowances.get? snd = some a ∧ a.expires.isExpired blk = false) := by
  induction msgs generalizing s with
  | nil =>
    simp [Cw1Subkeys.checkMsgs] at h; subst h
    exact ⟨fun d => by simp [sent, sentCoins], rfl, fun _ _ hm => by cases hm⟩
  | cons m ms ih =>
    simp [Cw1Subkeys.checkMsgs] at h
    obtain ⟨s1, h1, h2⟩ := h
    have hspec := C07.checkMsg_spec s blk snd m
    split at hspec
    · rename_i al' hc
      obtain ⟨s1', h1', _, _, hal, _⟩ := hspec
      rw [h1] at h1'; cases h1'
      obtain ⟨ct, ce, cb⟩ := covers_total hc
      obtain ⟨it, ie, ib⟩ := ih h2
      refine ⟨fun d => ?_, ?_, ?_⟩
      · have e1 := ct d; have e2 := it d
        simp only [held, bal, sent, sentCoins, total_append] at e2 ⊢
        rw [hal] at e2
        omega
      · rw [ie, hal, ce]
      · intro to cs hm
        rcases List.mem_cons.mp hm with rfl | hm
        · exact cb to cs rfl
        · obtain ⟨a1, ha1, hx1⟩ := ib to cs hm
          rw [hal] at ha1
          rw [ha1] at ce
          cases hs : s.allowances.get? snd with
          | none => rw [hs] at ce; simp at ce
          | some a0 =>
            rw [hs] at ce; simp at ce
            exact ⟨a0, rfl, by rw [← ce]; exact hx1⟩
    · obtain ⟨e, he⟩ := hspec; rw [h1] at he; cases he

/-- C08, exact deduction: when a non-admin's `Execute` succeeds, for every denomination the allowance left
afterwards plus everything sent by all bank sends of the call equals the allowance before — coin by coin
and cumulatively across the messages of the call. -/
theorem spend_exact {s s' : Cw1Subkeys.State} {blk : Block} {snd : Addr} {msgs out : List CosmosMsg}
    (hna : s.cfg.isAdmin snd = false) (h : Cw1Subkeys.execute s blk snd (.execute msgs) = .ok (s', out)) (d : String) :
    held s' snd d + sent msgs d = held s snd d := by
  simp [Cw1Subkeys.execute, Cw1Subkeys.execExecute, hna] at h
  obtain ⟨s1, h1, rfl, _⟩ := h
  exact (checkMsgs_total h1).1 d

/-- C08: hence no successful call sends more of any denomination than the allowance held. -/
theorem spend_within_allowance {s s' : Cw1Subkeys.State} {blk : Block} {snd : Addr} {msgs out : List CosmosMsg}
    (hna : s.cfg.isAdmin snd = false) (h : Cw1Subkeys.execute s blk snd (.execute msgs) = .ok (s', out)) (d : String) :
    sent msgs d ≤ held s snd d := by
  have := spend_exact hna h d; omega

/-- C08, expiry: a non-admin's successful `Execute` containing any bank send (even of no coins) needs a stored
allowance that is unexpired at the block of the call; spending leaves the expiry as it was. -/
theorem spend_needs_unexpired {s s' : Cw1Subkeys.State} {blk : Block} {snd : Addr} {msgs out : List CosmosMsg}
    {to : String} {cs : List Coin}
    (hna : s.cfg.isAdmin snd = false) (h : Cw1Subkeys.execute s blk snd (.execute msgs) = .ok (s', out))
    (hm : CosmosMsg.bankSend to cs ∈ msgs) :
    ∃ a, s.allowances.get? snd = some a ∧ a.expires.isExpired blk = false ∧
      (s'.allowances.get? snd).map (·.expires) = some a.expires := by
  simp [Cw1Subkeys.execute, Cw1Subkeys.execExecute, hna] at h
  obtain ⟨s1, h1, rfl, _⟩ := h
  obtain ⟨_, he, hb⟩ := checkMsgs_total h1
  obtain ⟨a, ha, hx⟩ := hb to cs hm
  exact ⟨a, ha, hx, by rw [he, ha]; rfl⟩

/-- C08, "fails as a whole": a call whose bank sends together exceed what remains in some denomination, or
that contains a bank send while the allowance is missing or expired, fails, changes nothing and relays nothing
(earlier messages of the list included). -/
theorem spend_fails_whole {s : Cw1Subkeys.State} {blk : Block} {snd : Addr} {msgs : List CosmosMsg}
    (hna : s.cfg.isAdmin snd = false)
    (hbad : (∃ d, held s snd d < sent msgs d) ∨
      ((∃ to cs, CosmosMsg.bankSend to cs ∈ msgs) ∧
        ∀ a, s.allowances.get? snd = some a → a.expires.isExpired blk = true)) :
    (∃ e, Cw1Subkeys.execute s blk snd (.execute msgs) = .error e) ∧
      Cw1Subkeys.step s blk snd (.execute msgs) = s ∧ Cw1Subkeys.relayed s blk snd (.execute msgs) = [] := by
  cases hr : Cw1Subkeys.execute s blk snd (.execute msgs) with
  | error e => exact ⟨⟨e, rfl⟩, C07.Sk.fail_no_relay hr⟩
  | ok r =>
    obtain ⟨s', out⟩ := r
    exfalso
    rcases hbad with ⟨d, hd⟩ | ⟨⟨to, cs, hm⟩, hx⟩
    · have := spend_within_allowance hna hr d; omega
    · obtain ⟨a, ha, hne, _⟩ := spend_needs_unexpired hna hr hm
      rw [hx a ha] at hne; cases hne

/-- C08: an admin's `Execute` (any messages, bank sends included) charges nobody's allowance. -/
theorem admin_execute_charges_nothing {s s' : Cw1Subkeys.State} {blk : Block} {snd : Addr} {msgs out : List CosmosMsg}
    (ha : s.cfg.isAdmin snd = true) (h : Cw1Subkeys.execute s blk snd (.execute msgs) = .ok (s', out)) : s' = s :=
  C07.Sk.admin_execute_state ha h

/-! ## Increase / Decrease -/

/-- The part of a stored allowance an increase builds on: the balance if unexpired, nothing otherwise. -/
def liveBal (blk : Block) (old : Option Allowance) : NativeBalance :=
  match old with
  | some o => if o.expires.isExpired blk then [] else o.balance
  | none => []

/-- `IncreaseAllowance`: the new balance is the base balance plus the coin, where the base is the old balance
if it is unexpired and empty otherwise (an expired allowance restarts from zero). -/
theorem incFn_total {blk : Block} {c : Coin} {e : Option Expiration} {old : Option Allowance} {a : Allowance}
    (h : incFn blk c e old = .ok a) (d : String) :
    total a.balance d = total (liveBal blk old) d + (if c.1 = d then c.2 else 0) := by
  unfold incFn at h
  simp only [Res.bind_ok, Res.pure_ok] at h
  obtain ⟨ex, _, b, hb, rfl⟩ := h
  have := NativeBalance.total_add hb d
  rw [this]
  cases old with
  | none => simp [Allowance.default, liveBal]
  | some o => by_cases hx : o.expires.isExpired blk = true <;> simp [hx, Allowance.default, liveBal]

/-- An increase never yields more than what was stored plus the granted coin. -/
theorem incFn_le {blk : Block} {c : Coin} {e : Option Expiration} {old : Option Allowance} {a : Allowance}
    (h : incFn blk c e old = .ok a) (d : String) :
    total a.balance d ≤ total (balOf old) d + (if c.1 = d then c.2 else 0) := by
  rw [incFn_total h d]
  cases old with
  | none => simp [balOf, liveBal]
  | some o => by_cases hx : o.expires.isExpired blk = true <;> simp [hx, balOf, liveBal]

/-- The expiry of the result is never already expired: "setting an already-expired expiry is rejected". -/
theorem incFn_unexpired {blk : Block} {c : Coin} {e : Option Expiration} {old : Option Allowance} {a : Allowance}
    (h : incFn blk c e old = .ok a) : a.expires.isExpired blk = false := by
  unfold incFn at h
  simp only [Res.bind_ok, Res.pure_ok] at h
  obtain ⟨ex, hex, b, hb, rfl⟩ := h
  cases e with
  | some e' => simp at hex; obtain ⟨h1, rfl⟩ := hex; simpa using h1
  | none =>
    simp at hex
    obtain ⟨h1, rfl⟩ := hex
    cases old with
    | none => simp [Allowance.default, Expiration.isExpired]
    | some o => simp at h1 ⊢; simp [h1]

/-- `DecreaseAllowance`: needs an unexpired allowance; no denomination grows; the named denomination drops by
at most the amount; the others stay. -/
theorem decFn_total {blk : Block} {c : Coin} {e : Option Expiration} {old : Option Allowance} {a : Allowance}
    (h : decFn blk c e old = .ok a) :
    (∃ o, old = some o ∧ o.expires.isExpired blk = false ∧ a.expires.isExpired blk = false ∧
      ∀ d, total a.balance d ≤ total o.balance d ∧ total o.balance d ≤ total a.balance d + (if c.1 = d then c.2 else 0)) := by
  unfold decFn at h
  cases old with
  | none => simp at h
  | some o =>
    simp only [Res.bind_ok, Res.pure_ok] at h
    obtain ⟨_, hx, ex, hex, b, hb, rfl⟩ := h
    simp at hx
    refine ⟨o, rfl, by simpa using hx, ?_, fun d => NativeBalance.total_subSaturating hb d⟩
    cases e with
    | some e' => simp at hex; obtain ⟨h1, rfl⟩ := hex; simpa using h1
    | none => simp at hex; subst hex; simpa using hx

/-- C08, "decrease saturating at zero": a successful `DecreaseAllowance{spender, (d, amt)}` never raises any
denomination of the spender's allowance, lowers `d` by at most `amt` and leaves every other denomination alone
(an entry whose balance became empty is deleted: it then holds 0 of everything). -/
theorem decrease_saturates {s s' : Cw1Subkeys.State} {blk : Block} {snd : Addr} {sp : AddrArg} {c : Coin}
    {e : Option Expiration} {out : List CosmosMsg}
    (h : Cw1Subkeys.execute s blk snd (.decreaseAllowance sp c e) = .ok (s', out)) (d : String) :
    held s' sp.text d ≤ held s sp.text d ∧ held s sp.text d ≤ held s' sp.text d + (if c.1 = d then c.2 else 0) := by
  have hc := C17.Sk.execute_cases h
  simp at hc
  obtain ⟨_, _, _, a, hd, rfl⟩ := hc
  obtain ⟨o, ho, _, _, ht⟩ := decFn_total hd
  have hnew : held { s with allowances := if a.balance.isEmpty = true then s.allowances.erase sp.text else s.allowances.set sp.text a } sp.text d
      = total a.balance d := by
    simp only [held, bal]
    split
    · rename_i hemp; simp [balOf, isEmpty_total hemp]
    · simp [balOf]
  rw [hnew]
  simp only [held, bal, ho, balOf]
  exact ht d

/-- With unique denominations (which every reachable allowance has, see `wf_run`) the saturation is exact:
the named denomination becomes `old - amt` (truncated at zero). -/
theorem subSaturating_exact {b b' : NativeBalance} {c : Coin} (hu : NativeBalance.UniqueDenoms b)
    (h : NativeBalance.subSaturating b c = .ok b') : total b' c.1 = total b c.1 - c.2 := by
  have ht := NativeBalance.total_eq_find?_of_unique hu c.1
  unfold NativeBalance.subSaturating at h
  split at h
  · simp at h
  · rename_i hld hf
    rw [hf] at ht; simp at ht
    split at h
    · simp at h; subst h
      have := NativeBalance.total_removeFirst hf c.1
      simp at this; omega
    · simp at h; subst h
      have := NativeBalance.total_setFirst (v := hld - c.2) hf c.1
      simp at this; omega

/-! ## Frames -/

/-- C08, allowance frame: the stored allowance of `x` changes only by an admin's `IncreaseAllowance` /
`DecreaseAllowance` naming `x`, or by `x`'s own (non-admin) `Execute`. -/
theorem allowance_frame {s : Cw1Subkeys.State} {blk : Block} {snd : Addr} {m : Cw1Subkeys.Msg} {x : Addr}
    (h : (Cw1Subkeys.step s blk snd m).allowances.get? x ≠ s.allowances.get? x) :
    (s.cfg.isAdmin snd = true ∧ x ≠ snd ∧ ∃ sp c e, sp.valid = true ∧ sp.text = x ∧
        (m = .increaseAllowance sp c e ∨ m = .decreaseAllowance sp c e)) ∨
    (s.cfg.isAdmin snd = false ∧ x = snd ∧ ∃ msgs, m = .execute msgs) :=
  C17.Sk.allowance_change_cases h

/-- C08, others unaffected: whatever a caller does with `Execute` (succeeding or not), nobody else's allowance and
nobody's permissions change. -/
theorem others_unaffected (s : Cw1Subkeys.State) (blk : Block) (snd : Addr) (msgs : List CosmosMsg) :
    (∀ y, y ≠ snd → (Cw1Subkeys.step s blk snd (.execute msgs)).allowances.get? y = s.allowances.get? y) ∧
    (Cw1Subkeys.step s blk snd (.execute msgs)).permissions = s.permissions ∧
    (Cw1Subkeys.step s blk snd (.execute msgs)).cfg = s.cfg := by
  unfold Cw1Subkeys.step
  split
  · rename_i s' out he
    have hc := C17.Sk.execute_cases he
    simp at hc
    exact ⟨hc.2.2.1, hc.2.1, hc.1⟩
  · exact ⟨fun _ _ => rfl, rfl, rfl⟩

/-- C08, permissions frame: the permissions of `x` change only by an admin's `SetPermissions` naming `x`. -/
theorem permissions_frame {s : Cw1Subkeys.State} {blk : Block} {snd : Addr} {m : Cw1Subkeys.Msg} {x : Addr}
    (h : (Cw1Subkeys.step s blk snd m).permissions.get? x ≠ s.permissions.get? x) :
    s.cfg.isAdmin snd = true ∧ x ≠ snd ∧ ∃ sp p, sp.valid = true ∧ sp.text = x ∧ m = .setPermissions sp p :=
  C17.Sk.permissions_change_cases h

/-- C08, queries hide expired allowances: the point query answers the stored allowance if it is unexpired and
the empty default otherwise. -/
theorem queries_hide_expired (s : Cw1Subkeys.State) (blk : Block) (x : Addr) :
    Cw1Subkeys.queryAllowance s blk ⟨true, x⟩ = .ok (match s.allowances.get? x with
      | some a => if a.expires.isExpired blk then Allowance.default else a
      | none => Allowance.default) := by
  cases h : s.allowances.get? x <;>
    simp [Cw1Subkeys.queryAllowance, check, bind, Except.bind, pure, Except.pure, h]

/-! ## Ghost ledger: granted / spent per (subkey, denom) over whole histories -/

/-- State plus two ghost ledgers. -/
structure Ghost where
  st : Cw1Subkeys.State
  /-- Σ of the amounts of all successful `IncreaseAllowance` calls for (subkey, denom) -/
  granted : Addr → String → Nat
  /-- Σ of the amounts of denom relayed by the subkey's own successful non-admin `Execute` calls -/
  spent : Addr → String → Nat

/-- One transaction with ledger bookkeeping (a failed call changes neither state nor ledgers). -/
def gstep (g : Ghost) (op : Block × Addr × Cw1Subkeys.Msg) : Ghost :=
  match Cw1Subkeys.execute g.st op.1 op.2.1 op.2.2 with
  | .error _ => g
  | .ok (s', _) =>
    match op.2.2 with
    | .increaseAllowance sp c _ =>
      { st := s', spent := g.spent,
        granted := fun x d => g.granted x d + (if x = sp.text ∧ c.1 = d then c.2 else 0) }
    | .execute msgs =>
      if g.st.cfg.isAdmin op.2.1 then { g with st := s' }
      else { st := s', granted := g.granted,
             spent := fun x d => g.spent x d + (if x = op.2.1 then sent msgs d else 0) }
    | _ => { g with st := s' }

def grun (g : Ghost) (ops : List (Block × Addr × Cw1Subkeys.Msg)) : Ghost := ops.foldl gstep g

/-- The ledgers are pure bookkeeping: the state component is the ordinary transaction semantics. -/
theorem gstep_st (g : Ghost) (op : Block × Addr × Cw1Subkeys.Msg) :
    (gstep g op).st = Cw1Subkeys.step g.st op.1 op.2.1 op.2.2 := by
  obtain ⟨blk, snd, m⟩ := op
  simp only [gstep, Cw1Subkeys.step]
  cases he : Cw1Subkeys.execute g.st blk snd m with
  | error e => rfl
  | ok r =>
    obtain ⟨s', out⟩ := r
    cases m <;> simp only [] <;> try rfl
    split <;> rfl

theorem grun_st (g : Ghost) (ops : List (Block × Addr × Cw1Subkeys.Msg)) :
    (grun g ops).st = C17.Sk.run g.st ops := by
  induction ops generalizing g with
  | nil => rfl
  | cons op rest ih =>
    simp only [grun, C17.Sk.run, List.foldl_cons]
    have := ih (gstep g op)
    simp only [grun, C17.Sk.run] at this
    rw [this, gstep_st]

/-- Ledger invariant: for every subkey and denomination, what it has relayed plus what its stored allowance
still holds never exceeds what admins granted it. -/
def GInv (g : Ghost) : Prop := ∀ x d, g.spent x d + held g.st x d ≤ g.granted x d

theorem held_set_eq (s : Cw1Subkeys.State) (k : Addr) (a : Allowance) (d : String) :
    held { s with allowances := s.allowances.set k a } k d = total a.balance d := by
  simp [held, bal, balOf]

theorem held_set_ne (s : Cw1Subkeys.State) (k x : Addr) (a : Allowance) (d : String) (h : k ≠ x) :
    held { s with allowances := s.allowances.set k a } x d = held s x d := by
  simp [held, bal, AMap.get?_set_ne _ _ _ _ h]

theorem gstep_inv {g : Ghost} (hi : GInv g) (op : Block × Addr × Cw1Subkeys.Msg) : GInv (gstep g op) := by
  obtain ⟨blk, snd, m⟩ := op
  unfold gstep
  simp only
  split
  · exact hi
  · rename_i s' out he
    have hc := C17.Sk.execute_cases he
    intro x d
    have hxd := hi x d
    cases m with
    | execute msgs =>
      simp only at hc ⊢
      cases ha : g.st.cfg.isAdmin snd
      · simp only [Bool.false_eq_true, if_false]
        by_cases hx : x = snd
        · subst hx
          have := spend_exact ha he d
          simp only [if_true]; omega
        · have : held s' x d = held g.st x d := by simp only [held, bal]; rw [hc.2.2.1 x hx]
          simp only [hx, if_false]; omega
      · simp only [if_true]
        rw [hc.2.2.2 ha]; exact hxd
    | freeze => simp at hc; obtain ⟨_, _, rfl⟩ := hc; exact hxd
    | updateAdmins l => simp at hc; obtain ⟨_, _, a, _, rfl⟩ := hc; exact hxd
    | increaseAllowance sp c e =>
      simp at hc
      obtain ⟨_, _, _, a, hinc, rfl⟩ := hc
      simp only
      by_cases hx : sp.text = x
      · subst hx
        rw [held_set_eq]
        have := incFn_le hinc d
        simp only [held, bal] at hxd
        by_cases hd : c.1 = d <;> simp [hd] at this ⊢ <;> omega
      · rw [held_set_ne _ _ _ _ _ hx]
        have : ¬ (x = sp.text ∧ c.1 = d) := fun h => hx h.1.symm
        simp only [this, if_false]; omega
    | decreaseAllowance sp c e =>
      have hds := decrease_saturates he d
      simp at hc
      obtain ⟨_, _, _, a, _, hs'⟩ := hc
      simp only
      by_cases hx : sp.text = x
      · subst hx; omega
      · have : held s' x d = held g.st x d := by
          rw [hs']
          simp only [held, bal]
          split <;> simp [AMap.get?_set_ne _ _ _ _ hx, AMap.get?_erase_ne _ _ _ hx]
        omega
    | setPermissions sp p => simp at hc; obtain ⟨_, _, _, rfl⟩ := hc; exact hxd

/-- A freshly instantiated contract with empty ledgers. -/
def ghost0 (s0 : Cw1Subkeys.State) : Ghost := ⟨s0, fun _ _ => 0, fun _ _ => 0⟩

/-- C08, the cumulative bound: on every history from instantiation — any interleaving of Increase/Decrease (any
denom, amount, expiry), Execute calls with any number of bank sends, admin changes, and block advances across
expiries — for every subkey and denomination `spent + remaining ≤ granted`. -/
theorem ledger_invariant {m0 : Cw1Subkeys.InstMsg} {s0 : Cw1Subkeys.State} (h0 : Cw1Subkeys.instantiate m0 = .ok s0)
    (ops : List (Block × Addr × Cw1Subkeys.Msg)) : GInv (grun (ghost0 s0) ops) := by
  have hinit : GInv (ghost0 s0) := by
    simp [Cw1Subkeys.instantiate] at h0
    obtain ⟨c, _, rfl⟩ := h0
    intro x d
    simp [ghost0, held, bal, balOf]
  generalize ghost0 s0 = g at hinit
  induction ops generalizing g with
  | nil => exact hinit
  | cons op rest ih => exact ih (gstep g op) (gstep_inv hinit op)

/-- C08, headline: over any history the amount a subkey has relayed per denomination never exceeds what admins
granted it.  (An increase on an expired allowance discards the old remainder; that only helps the bound.) -/
theorem spent_le_granted {m0 : Cw1Subkeys.InstMsg} {s0 : Cw1Subkeys.State} (h0 : Cw1Subkeys.instantiate m0 = .ok s0)
    (ops : List (Block × Addr × Cw1Subkeys.Msg)) (x : Addr) (d : String) :
    (grun (ghost0 s0) ops).spent x d ≤ (grun (ghost0 s0) ops).granted x d := by
  have := ledger_invariant h0 ops x d; omega

/-- C08: an increase on an expired allowance restarts from zero (the stored remainder is dropped and the new expiry
must be given and lie in the future). -/
theorem expired_restarts_from_zero {s s' : Cw1Subkeys.State} {blk : Block} {snd : Addr} {sp : AddrArg} {c : Coin}
    {e : Option Expiration} {out : List CosmosMsg} {o : Allowance}
    (ho : s.allowances.get? sp.text = some o) (hx : o.expires.isExpired blk = true)
    (h : Cw1Subkeys.execute s blk snd (.increaseAllowance sp c e) = .ok (s', out)) :
    (∃ e', e = some e' ∧ e'.isExpired blk = false ∧ (s'.allowances.get? sp.text).map (·.expires) = some e') ∧
      ∀ d, held s' sp.text d = if c.1 = d then c.2 else 0 := by
  have hc := C17.Sk.execute_cases h
  simp at hc
  obtain ⟨_, _, _, a, hinc, rfl⟩ := hc
  constructor
  · unfold incFn at hinc
    rw [ho] at hinc
    simp only [Res.bind_ok, Res.pure_ok] at hinc
    obtain ⟨ex, hex, b, _, rfl⟩ := hinc
    cases e with
    | none => simp [hx] at hex
    | some e' =>
      simp at hex
      obtain ⟨h1, rfl⟩ := hex
      exact ⟨e', rfl, by simpa using h1, by simp⟩
  · intro d
    rw [held_set_eq, incFn_total hinc d, ho]
    simp [liveBal, hx]

/-! ## Shape invariant: stored balances have unique denominations -/

def WF (s : Cw1Subkeys.State) : Prop := ∀ x a, s.allowances.get? x = some a → NativeBalance.UniqueDenoms a.balance

theorem covers_wf {perm : Option Permissions} {blk : Block} {al al' : Option Allowance} {m : CosmosMsg}
    (h : covers perm blk al m = some al') (hw : ∀ a, al = some a → NativeBalance.UniqueDenoms a.balance) :
    ∀ a, al' = some a → NativeBalance.UniqueDenoms a.balance := by
  cases m with
  | bankSend to coins =>
    simp only [covers] at h
    cases al with
    | none => simp at h
    | some a0 =>
      simp only at h
      cases hx : a0.expires.isExpired blk
      · cases hs : a0.balance.subCoins coins with
        | error e => simp [hx, hs] at h
        | ok b =>
          simp [hx, hs] at h; subst h
          intro a ha; cases ha
          exact NativeBalance.unique_subCoins (hw a0 rfl) hs
      · simp [hx] at h
  | staking k p =>
    simp only [covers] at h
    split at h
    · split at h
      · simp at h; subst h; exact hw
      · cases h
    · cases h
  | distribution k p =>
    simp only [covers] at h
    split at h
    · split at h
      · simp at h; subst h; exact hw
      · cases h
    · cases h
  | bankBurn _ => simp [covers] at h
  | wasm _ => simp [covers] at h
  | ibc _ => simp [covers] at h
  | gov _ => simp [covers] at h
  | other _ => simp [covers] at h

theorem checkMsgs_wf {s s' : Cw1Subkeys.State} {blk : Block} {snd : Addr} {msgs : List CosmosMsg}
    (hw : WF s) (h : Cw1Subkeys.checkMsgs s blk snd msgs = .ok s') : WF s' := by
  induction msgs generalizing s with
  | nil => simp [Cw1Subkeys.checkMsgs] at h; subst h; exact hw
  | cons m ms ih =>
    simp [Cw1Subkeys.checkMsgs] at h
    obtain ⟨s1, h1, h2⟩ := h
    have hspec := C07.checkMsg_spec s blk snd m
    split at hspec
    · rename_i al' hc
      obtain ⟨s1', h1', _, _, hal, hfr⟩ := hspec
      rw [h1] at h1'; cases h1'
      apply ih _ h2
      intro x a hxa
      by_cases hx : x = snd
      · subst hx
        rw [hal] at hxa
        exact covers_wf hc (fun a0 ha0 => hw x a0 ha0) a hxa
      · rw [hfr x hx] at hxa; exact hw x a hxa
    · obtain ⟨e, he⟩ := hspec; rw [h1] at he; cases he

theorem step_wf {s : Cw1Subkeys.State} (hw : WF s) (blk : Block) (snd : Addr) (m : Cw1Subkeys.Msg) :
    WF (Cw1Subkeys.step s blk snd m) := by
  unfold Cw1Subkeys.step
  split
  · rename_i s' out he
    cases m with
    | execute msgs =>
      simp only [Cw1Subkeys.execute, Cw1Subkeys.execExecute] at he
      split at he
      · simp at he; rw [← he.1]; exact hw
      · simp at he; obtain ⟨s1, h1, rfl, _⟩ := he; exact checkMsgs_wf hw h1
    | freeze => have hc := C17.Sk.execute_cases he; simp at hc; obtain ⟨_, _, rfl⟩ := hc; exact hw
    | updateAdmins l => have hc := C17.Sk.execute_cases he; simp at hc; obtain ⟨_, _, a, _, rfl⟩ := hc; exact hw
    | setPermissions sp p => have hc := C17.Sk.execute_cases he; simp at hc; obtain ⟨_, _, _, rfl⟩ := hc; exact hw
    | increaseAllowance sp c e =>
      have hc := C17.Sk.execute_cases he
      simp at hc
      obtain ⟨_, _, _, a, hinc, rfl⟩ := hc
      intro x a' hxa
      by_cases hx : sp.text = x
      · subst hx
        simp at hxa; subst hxa
        unfold incFn at hinc
        simp only [Res.bind_ok, Res.pure_ok] at hinc
        obtain ⟨ex, _, b, hb, rfl⟩ := hinc
        refine NativeBalance.unique_add ?_ hb
        cases ho : s.allowances.get? sp.text with
        | none => simp [Allowance.default, NativeBalance.UniqueDenoms, NativeBalance.denoms]
        | some o =>
          by_cases hx : o.expires.isExpired blk = true
          · simp [hx, Allowance.default, NativeBalance.UniqueDenoms, NativeBalance.denoms]
          · simpa [hx] using hw _ o ho
      · simp [AMap.get?_set_ne _ _ _ _ hx] at hxa; exact hw x a' hxa
    | decreaseAllowance sp c e =>
      have hc := C17.Sk.execute_cases he
      simp at hc
      obtain ⟨_, _, _, a, hdec, rfl⟩ := hc
      intro x a' hxa
      by_cases hx : sp.text = x
      · subst hx
        simp only at hxa
        split at hxa
        · simp at hxa
        · simp at hxa; subst hxa
          unfold decFn at hdec
          cases ho : s.allowances.get? sp.text with
          | none => rw [ho] at hdec; simp at hdec
          | some o =>
            rw [ho] at hdec
            simp only [Res.bind_ok, Res.pure_ok] at hdec
            obtain ⟨_, _, ex, _, b, hb, rfl⟩ := hdec
            exact NativeBalance.unique_subSaturating (hw _ o ho) hb
      · simp only at hxa
        split at hxa
        · rw [AMap.get?_erase_ne _ _ _ hx] at hxa; exact hw x a' hxa
        · rw [AMap.get?_set_ne _ _ _ _ hx] at hxa; exact hw x a' hxa
  · exact hw

/-- Every allowance a history from instantiation can produce has unique denominations, so `held` is the amount
displayed for the denomination. -/
theorem wf_run {m0 : Cw1Subkeys.InstMsg} {s0 : Cw1Subkeys.State} (h0 : Cw1Subkeys.instantiate m0 = .ok s0)
    (ops : List (Block × Addr × Cw1Subkeys.Msg)) : WF (C17.Sk.run s0 ops) := by
  have hinit : WF s0 := by
    simp [Cw1Subkeys.instantiate] at h0
    obtain ⟨c, _, rfl⟩ := h0
    intro x a hxa; simp at hxa
  clear h0
  induction ops generalizing s0 with
  | nil => exact hinit
  | cons op rest ih => exact ih (step_wf hinit op.1 op.2.1 op.2.2)

/-- C08, exact saturation on reachable states: a successful `DecreaseAllowance{spender, (d, amt)}` on a
well-formed state leaves exactly `old - amt` (truncated at zero) of `d`. -/
theorem decrease_saturates_exact {s s' : Cw1Subkeys.State} {blk : Block} {snd : Addr} {sp : AddrArg} {c : Coin}
    {e : Option Expiration} {out : List CosmosMsg} (hw : WF s)
    (h : Cw1Subkeys.execute s blk snd (.decreaseAllowance sp c e) = .ok (s', out)) :
    held s' sp.text c.1 = held s sp.text c.1 - c.2 := by
  have hc := C17.Sk.execute_cases h
  simp at hc
  obtain ⟨_, _, _, a, hd, rfl⟩ := hc
  have hnew : held { s with allowances := if a.balance.isEmpty = true then s.allowances.erase sp.text else s.allowances.set sp.text a } sp.text c.1
      = total a.balance c.1 := by
    simp only [held, bal]
    split
    · rename_i hemp; simp [balOf, isEmpty_total hemp]
    · simp [balOf]
  rw [hnew]
  unfold decFn at hd
  cases ho : s.allowances.get? sp.text with
  | none => rw [ho] at hd; simp at hd
  | some o =>
    rw [ho] at hd
    simp only [Res.bind_ok, Res.pure_ok] at hd
    obtain ⟨_, _, ex, _, b, hb, rfl⟩ := hd
    simp only [held, bal, ho, balOf]
    exact subSaturating_exact (hw _ o ho) hb

/-! ## Liveness: a covered spend succeeds

Everything above is of the form "if the call succeeds then …"; a model in which a subkey's `Execute` always fails
would satisfy it.  The theorems of this section give the exact success condition in terms of amounts
(`execute_ok_iff_sem`) and the positive statement `covered_spend_succeeds`. -/

/-- A non-admin's successful `Execute` is the permission loop. -/
theorem execute_nonadmin_checkMsgs {s s' : Cw1Subkeys.State} {blk : Block} {snd : Addr} {msgs out : List CosmosMsg}
    (hna : s.cfg.isAdmin snd = false) (h : Cw1Subkeys.execute s blk snd (.execute msgs) = .ok (s', out)) :
    Cw1Subkeys.checkMsgs s blk snd msgs = .ok s' := by
  simp [Cw1Subkeys.execute, Cw1Subkeys.execExecute, hna] at h
  obtain ⟨s1, h1, rfl, _⟩ := h
  exact h1

/-- Some message of the list is a bank send. -/
def hasBankSend (msgs : List CosmosMsg) : Prop := ∃ to cs, CosmosMsg.bankSend to cs ∈ msgs

theorem sentCoins_cons (m : CosmosMsg) (ms : List CosmosMsg) : sentCoins (m :: ms) = msgCoins m ++ sentCoins ms := rfl

theorem sent_cons (m : CosmosMsg) (ms : List CosmosMsg) (d : String) :
    sent (m :: ms) d = total (msgCoins m) d + sent ms d := by
  simp only [sent, sentCoins, total_append]

theorem msgCoins_of_not_bank {m : CosmosMsg} (h : C07.isBankSend m = false) : msgCoins m = [] := by
  cases m <;> simp_all [C07.isBankSend, msgCoins]

theorem hasBankSend_cons_of_not_bank {m : CosmosMsg} {ms : List CosmosMsg} (h : C07.isBankSend m = false) :
    hasBankSend (m :: ms) ↔ hasBankSend ms := by
  constructor
  · rintro ⟨to, cs, hm⟩
    rcases List.mem_cons.mp hm with rfl | hm
    · simp [C07.isBankSend] at h
    · exact ⟨to, cs, hm⟩
  · rintro ⟨to, cs, hm⟩; exact ⟨to, cs, List.mem_cons_of_mem _ hm⟩

/-- Coverage in terms of amounts.  If the allowance's balance has unique denoms (true of every reachable state,
`wf_run`) and every coin sent is positive, the threaded coverage check of `Execute` accepts a list exactly when
(1) every message is of a kind the caller's permission record allows, (2) if the list contains a bank send, the
allowance exists and is unexpired, and (3) for every denomination the bank sends of the list together do not exceed
what the allowance holds. -/
theorem coveredFrom_iff_sem {perm : Option Permissions} {blk : Block} {al : Option Allowance} {msgs : List CosmosMsg}
    (hu : ∀ a, al = some a → NativeBalance.UniqueDenoms a.balance)
    (hpos : ∀ c ∈ sentCoins msgs, 0 < c.2) :
    coveredFrom perm blk al msgs = true ↔
      (∀ m ∈ msgs, C07.permOk perm m = true) ∧
      (hasBankSend msgs → ∃ a, al = some a ∧ a.expires.isExpired blk = false) ∧
      ∀ d, sent msgs d ≤ total (balOf al) d := by
  induction msgs generalizing al with
  | nil =>
    simp only [coveredFrom, true_iff]
    refine ⟨fun m hm => (by cases hm), ?_, fun d => (by simp [sent, sentCoins])⟩
    rintro ⟨_, _, h⟩; cases h
  | cons m ms ih =>
    have hposms : ∀ c ∈ sentCoins ms, 0 < c.2 := fun c hc => hpos c (by simp [sentCoins_cons, hc])
    cases hb : C07.isBankSend m with
    | false =>
      simp only [coveredFrom, C07.covers_of_not_bank perm blk al hb, hasBankSend_cons_of_not_bank hb,
        List.mem_cons, forall_eq_or_imp]
      have hs : ∀ d, sent (m :: ms) d = sent ms d := fun d => by
        rw [sent_cons, msgCoins_of_not_bank hb]; simp
      simp only [hs]
      cases hp : C07.permOk perm m
      · simp
      · simp only [if_true, true_and]
        exact ih hu hposms
    | true =>
      cases m with
      | bankSend to cs =>
        have hposcs : ∀ c ∈ cs, 0 < c.2 := fun c hc => hpos c (by simp [sentCoins_cons, msgCoins, hc])
        have hhas : hasBankSend (CosmosMsg.bankSend to cs :: ms) := ⟨to, cs, by simp⟩
        cases al with
        | none =>
          simp only [coveredFrom, covers, Bool.false_eq_true, false_iff]
          rintro ⟨_, h2, _⟩
          obtain ⟨a, ha, _⟩ := h2 hhas
          cases ha
        | some a =>
          cases hx : a.expires.isExpired blk with
          | true =>
            simp only [coveredFrom, covers, hx, if_true, Bool.false_eq_true, false_iff]
            rintro ⟨_, h2, _⟩
            obtain ⟨a', ha', hx'⟩ := h2 hhas
            cases ha'; rw [hx] at hx'; cases hx'
          | false =>
            have hlive := NativeBalance.subCoins_isOk_iff (hu a rfl) hposcs
            cases hsub : a.balance.subCoins cs with
            | error e =>
              simp only [coveredFrom, covers, hx, hsub, Bool.false_eq_true, if_false, false_iff]
              rintro ⟨_, _, h3⟩
              rw [hsub] at hlive
              apply (by simpa [Res.isOk] using hlive : ¬ ∀ d, NativeBalance.coinsTotal cs d ≤ total a.balance d)
              intro d
              have := h3 d
              rw [sent_cons] at this
              simp only [msgCoins, balOf] at this
              simp only [NativeBalance.coinsTotal]; omega
            | ok b =>
              have htot := fun d => NativeBalance.total_subCoins hsub d
              have hub : ∀ a', some ({ a with balance := b } : Allowance) = some a' → NativeBalance.UniqueDenoms a'.balance := by
                intro a' ha'; cases ha'; exact NativeBalance.unique_subCoins (hu a rfl) hsub
              have hih := ih (al := some { a with balance := b }) hub hposms
              simp only [coveredFrom, covers, hx, hsub, Bool.false_eq_true, if_false]
              rw [hih]
              simp only [List.mem_cons, forall_eq_or_imp, C07.permOk, true_and, balOf]
              constructor
              · rintro ⟨h1, _, h3⟩
                refine ⟨h1, fun _ => ⟨a, rfl, hx⟩, fun d => ?_⟩
                have := h3 d; have := htot d
                rw [sent_cons]; simp only [msgCoins, NativeBalance.coinsTotal] at *; omega
              · rintro ⟨h1, _, h3⟩
                refine ⟨h1, fun _ => ⟨_, rfl, hx⟩, fun d => ?_⟩
                have := h3 d; have := htot d
                rw [sent_cons] at *; simp only [msgCoins, NativeBalance.coinsTotal] at *; omega
      | _ => simp [C07.isBankSend] at hb

/-- C08 / C07, exact success condition of a subkey's `Execute` in terms of amounts: on a well-formed state
(`wf_run`: every reachable one) a non-admin's list of messages whose coins are all positive is accepted **exactly
when** every message kind is allowed by the caller's permission record, the allowance exists and is unexpired if the
list contains a bank send, and for every denomination the bank sends of the list together stay within what the
allowance holds.  Right to left this is the liveness half that `spend_exact` / `spend_fails_whole` lack. -/
theorem execute_ok_iff_sem {s : Cw1Subkeys.State} {blk : Block} {snd : Addr} {msgs : List CosmosMsg}
    (hw : WF s) (hna : s.cfg.isAdmin snd = false) (hpos : ∀ c ∈ sentCoins msgs, 0 < c.2) :
    (Cw1Subkeys.execute s blk snd (.execute msgs)).isOk = true ↔
      (∀ m ∈ msgs, C07.permOk (s.permissions.get? snd) m = true) ∧
      (hasBankSend msgs → ∃ a, s.allowances.get? snd = some a ∧ a.expires.isExpired blk = false) ∧
      ∀ d, sent msgs d ≤ held s snd d := by
  rw [C07.Sk.execute_ok_iff, coveredSeq, coveredFrom_iff_sem (fun a ha => hw snd a ha) hpos]
  simp [hna, held, bal]

/-- C08, liveness: a subkey with an unexpired allowance can spend — any list of bank sends of positive coins that,
denomination by denomination, stays within the allowance is accepted, relayed unchanged, and charged exactly. -/
theorem covered_spend_succeeds {s : Cw1Subkeys.State} {blk : Block} {snd : Addr} {msgs : List CosmosMsg} {a : Allowance}
    (hw : WF s) (hna : s.cfg.isAdmin snd = false)
    (ha : s.allowances.get? snd = some a) (hx : a.expires.isExpired blk = false)
    (hbank : ∀ m ∈ msgs, C07.isBankSend m = true)
    (hpos : ∀ c ∈ sentCoins msgs, 0 < c.2) (hle : ∀ d, sent msgs d ≤ held s snd d) :
    ∃ s', Cw1Subkeys.execute s blk snd (.execute msgs) = .ok (s', msgs) ∧
      (∀ d, held s' snd d + sent msgs d = held s snd d) ∧
      (s'.allowances.get? snd).map (·.expires) = some a.expires := by
  have hok : (Cw1Subkeys.execute s blk snd (.execute msgs)).isOk = true := by
    rw [execute_ok_iff_sem hw hna hpos]
    refine ⟨fun m hm => ?_, fun _ => ⟨a, ha, hx⟩, hle⟩
    have := hbank m hm
    cases m <;> simp_all [C07.isBankSend, C07.permOk]
  cases hr : Cw1Subkeys.execute s blk snd (.execute msgs) with
  | error e => rw [hr] at hok; cases hok
  | ok r =>
    obtain ⟨s', out⟩ := r
    have h1 := execute_nonadmin_checkMsgs hna hr
    have hout := C07.Sk.relay_exact hr
    subst hout
    refine ⟨s', rfl, fun d => spend_exact hna hr d, ?_⟩
    rw [(checkMsgs_total h1).2.1, ha]; rfl

/-- The mixed form: bank sends within the allowance interleaved with staking / distribution messages the permission
record allows are accepted as well. -/
theorem covered_mixed_succeeds {s : Cw1Subkeys.State} {blk : Block} {snd : Addr} {msgs : List CosmosMsg} {a : Allowance}
    (hw : WF s) (hna : s.cfg.isAdmin snd = false)
    (ha : s.allowances.get? snd = some a) (hx : a.expires.isExpired blk = false)
    (hperm : ∀ m ∈ msgs, C07.permOk (s.permissions.get? snd) m = true)
    (hpos : ∀ c ∈ sentCoins msgs, 0 < c.2) (hle : ∀ d, sent msgs d ≤ held s snd d) :
    ∃ s', Cw1Subkeys.execute s blk snd (.execute msgs) = .ok (s', msgs) ∧
      ∀ d, held s' snd d + sent msgs d = held s snd d := by
  have hok : (Cw1Subkeys.execute s blk snd (.execute msgs)).isOk = true :=
    (execute_ok_iff_sem hw hna hpos).mpr ⟨hperm, fun _ => ⟨a, ha, hx⟩, hle⟩
  cases hr : Cw1Subkeys.execute s blk snd (.execute msgs) with
  | error e => rw [hr] at hok; cases hok
  | ok r =>
    obtain ⟨s', out⟩ := r
    have hout := C07.Sk.relay_exact hr
    subst hout
    exact ⟨s', rfl, fun d => spend_exact hna hr d⟩

/-! ## Own spending only lowers -/

/-- C08 / C17, "own spending": whatever list a caller submits with `Execute` (admin or not, succeeding or not), its
own stored allowance does not grow in any denomination, keeps its expiry, and is neither created nor deleted. -/
theorem own_spend_only_lowers (s : Cw1Subkeys.State) (blk : Block) (snd : Addr) (msgs : List CosmosMsg) :
    (∀ d, held (Cw1Subkeys.step s blk snd (.execute msgs)) snd d ≤ held s snd d) ∧
    ((Cw1Subkeys.step s blk snd (.execute msgs)).allowances.get? snd).map (·.expires)
      = (s.allowances.get? snd).map (·.expires) ∧
    ((Cw1Subkeys.step s blk snd (.execute msgs)).allowances.get? snd).isSome = (s.allowances.get? snd).isSome := by
  have key : (∀ d, held (Cw1Subkeys.step s blk snd (.execute msgs)) snd d ≤ held s snd d) ∧
      ((Cw1Subkeys.step s blk snd (.execute msgs)).allowances.get? snd).map (·.expires)
        = (s.allowances.get? snd).map (·.expires) := by
    unfold Cw1Subkeys.step
    split
    · rename_i s' out he
      cases ha : s.cfg.isAdmin snd with
      | true => rw [C07.Sk.admin_execute_state ha he]; exact ⟨fun _ => Nat.le_refl _, rfl⟩
      | false =>
        obtain ⟨ht, hexp, _⟩ := checkMsgs_total (execute_nonadmin_checkMsgs ha he)
        exact ⟨fun d => by have := ht d; omega, hexp⟩
    · exact ⟨fun _ => Nat.le_refl _, rfl⟩
  refine ⟨key.1, key.2, ?_⟩
  have := congrArg Option.isSome key.2
  simpa using this

/-! ## Exact effect and exact success condition of `IncreaseAllowance` / `DecreaseAllowance` -/

/-- The expiry an increase builds on: the stored one, `Never` without a stored allowance. -/
def prevExpires (old : Option Allowance) : Expiration :=
  match old with
  | some o => o.expires
  | none => .never

/-- The expiry after an increase: the submitted one, else the stored one (which then is unexpired). -/
theorem incFn_expires {blk : Block} {c : Coin} {e : Option Expiration} {old : Option Allowance} {a : Allowance}
    (h : incFn blk c e old = .ok a) : a.expires = e.getD (prevExpires old) := by
  unfold incFn at h
  simp only [Res.bind_ok, Res.pure_ok] at h
  obtain ⟨ex, hex, b, hb, rfl⟩ := h
  cases e with
  | some e' => simp at hex; obtain ⟨_, rfl⟩ := hex; rfl
  | none =>
    simp at hex
    obtain ⟨h1, rfl⟩ := hex
    cases old with
    | none => rfl
    | some o => simp at h1; simp [h1, prevExpires]

/-- `add` fails only on `u128` overflow of the coin it adds to. -/
theorem add_isOk_iff (b : NativeBalance) (c : Coin) :
    (NativeBalance.add b c).isOk = true ↔ ∀ held, NativeBalance.find? b c.1 = some held → held + c.2 ≤ U128_MAX := by
  unfold NativeBalance.add
  cases hf : NativeBalance.find? b c.1 with
  | none => simp [Res.isOk, pure, Except.pure]
  | some held =>
    by_cases hle : held + c.2 ≤ U128_MAX
    · simp [addU128, hle, Res.isOk, bind, Except.bind, pure, Except.pure]
    · simp [addU128, hle, Res.isOk, bind, Except.bind]

/-- The balance an increase adds to is the live part of the stored one. -/
theorem incFn_base (blk : Block) (old : Option Allowance) :
    (match old with
      | some a => if a.expires.isExpired blk = true then Allowance.default else a
      | none => Allowance.default).balance = liveBal blk old := by
  cases old with
  | none => rfl
  | some o => by_cases hx : o.expires.isExpired blk = true <;> simp [hx, liveBal, Allowance.default]

/-- Exactly when the closure of `IncreaseAllowance` succeeds: the submitted expiry — or, without one, the stored
expiry — is not yet reached, and the addition does not overflow `u128`. -/
theorem incFn_isOk_iff (blk : Block) (c : Coin) (e : Option Expiration) (old : Option Allowance) :
    (incFn blk c e old).isOk = true ↔
      (e.getD (prevExpires old)).isExpired blk = false ∧
      ∀ held, NativeBalance.find? (liveBal blk old) c.1 = some held → held + c.2 ≤ U128_MAX := by
  rw [← add_isOk_iff, NativeBalance.isOk_iff_exists, NativeBalance.isOk_iff_exists, ← incFn_base]
  unfold incFn
  simp only [Res.bind_ok, Res.pure_ok]
  constructor
  · rintro ⟨a, ex, hex, b, hb, rfl⟩
    refine ⟨?_, b, hb⟩
    cases e with
    | some e' => simp at hex; simpa using hex.1
    | none =>
      simp at hex
      obtain ⟨h1, _⟩ := hex
      cases old <;> simpa [prevExpires] using h1
  · rintro ⟨hx, b, hb⟩
    cases e with
    | some e' =>
      simp at hx
      exact ⟨_, e', by simp [hx], b, hb, rfl⟩
    | none =>
      simp at hx
      cases old with
      | none => exact ⟨_, .never, by simp [Expiration.isExpired, Allowance.default], b, hb, rfl⟩
      | some o =>
        simp [prevExpires] at hx
        simp only [hx] at hb ⊢
        exact ⟨_, o.expires, by simp, b, hb, rfl⟩

/-- C08 / C17, `IncreaseAllowance` succeeds exactly when the caller is a current admin, the spender is a validated
address different from the caller, the expiry that will be stored is not yet reached, and the amount does not
overflow. -/
theorem increase_ok_iff (s : Cw1Subkeys.State) (blk : Block) (snd : Addr) (sp : AddrArg) (c : Coin) (e : Option Expiration) :
    (Cw1Subkeys.execute s blk snd (.increaseAllowance sp c e)).isOk = true ↔
      s.cfg.isAdmin snd = true ∧ sp.valid = true ∧ sp.text ≠ snd ∧
      (e.getD (prevExpires (s.allowances.get? sp.text))).isExpired blk = false ∧
      ∀ held, NativeBalance.find? (liveBal blk (s.allowances.get? sp.text)) c.1 = some held → held + c.2 ≤ U128_MAX := by
  rw [← incFn_isOk_iff]
  constructor
  · intro h
    cases hr : Cw1Subkeys.execute s blk snd (.increaseAllowance sp c e) with
    | error e => rw [hr] at h; cases h
    | ok r =>
      obtain ⟨s', out⟩ := r
      have hc := C17.Sk.execute_cases hr
      simp only at hc
      obtain ⟨h1, h2, h3, a, ha, _⟩ := hc
      exact ⟨h1, h2, h3, by rw [ha]; rfl⟩
  · rintro ⟨h1, h2, h3, h4⟩
    obtain ⟨a, ha⟩ := (NativeBalance.isOk_iff_exists _).mp h4
    simp [Cw1Subkeys.execute, Cw1Subkeys.execIncreaseAllowance, h1, h2, h3, ha, check, bind, Except.bind,
      pure, Except.pure, Res.isOk]

/-- C08, exact effect of `IncreaseAllowance`: for every denomination the spender's allowance afterwards is the live
part of the old one (the stored balance if unexpired, nothing otherwise) plus the granted coin; its expiry is the
submitted one, else the stored one; nobody else's allowance, no permission and not the admin configuration change;
nothing is relayed. -/
theorem increase_exact {s s' : Cw1Subkeys.State} {blk : Block} {snd : Addr} {sp : AddrArg} {c : Coin}
    {e : Option Expiration} {out : List CosmosMsg}
    (h : Cw1Subkeys.execute s blk snd (.increaseAllowance sp c e) = .ok (s', out)) :
    (∀ d, held s' sp.text d = total (liveBal blk (s.allowances.get? sp.text)) d + (if c.1 = d then c.2 else 0)) ∧
    (s'.allowances.get? sp.text).map (·.expires) = some (e.getD (prevExpires (s.allowances.get? sp.text))) ∧
    (∀ y, y ≠ sp.text → s'.allowances.get? y = s.allowances.get? y) ∧
    s'.permissions = s.permissions ∧ s'.cfg = s.cfg ∧ out = [] := by
  have hc := C17.Sk.execute_cases h
  simp only at hc
  obtain ⟨_, _, _, a, hinc, rfl⟩ := hc
  refine ⟨fun d => ?_, ?_, fun y hy => AMap.get?_set_ne _ _ _ _ (Ne.symm hy), rfl, rfl, ?_⟩
  · rw [held_set_eq, incFn_total hinc d]
  · simp [incFn_expires hinc]
  · by_cases hne : out = []
    · exact hne
    · obtain ⟨msgs, hm⟩ := C07.Sk.only_execute_relays h hne; cases hm

/-- The expiry after a decrease: the submitted one, else the stored one. -/
theorem decFn_expires {blk : Block} {c : Coin} {e : Option Expiration} {o a : Allowance}
    (h : decFn blk c e (some o) = .ok a) : a.expires = e.getD o.expires := by
  unfold decFn at h
  simp only [Res.bind_ok, Res.pure_ok] at h
  obtain ⟨_, _, ex, hex, b, hb, rfl⟩ := h
  cases e with
  | some e' => simp at hex; obtain ⟨_, rfl⟩ := hex; rfl
  | none => simp at hex; subst hex; rfl

theorem subSaturating_isOk_iff (b : NativeBalance) (c : Coin) :
    (NativeBalance.subSaturating b c).isOk = true ↔ ∃ held, NativeBalance.find? b c.1 = some held := by
  unfold NativeBalance.subSaturating
  cases hf : NativeBalance.find? b c.1 with
  | none => simp [Res.isOk]
  | some held => by_cases hle : held ≤ c.2 <;> simp [hle, Res.isOk]

/-- Exactly when the closure of `DecreaseAllowance` succeeds: the allowance exists and is unexpired, a submitted
expiry is not yet reached, and the allowance has a coin of the named denomination (whatever the amount). -/
theorem decFn_isOk_iff (blk : Block) (c : Coin) (e : Option Expiration) (old : Option Allowance) :
    (decFn blk c e old).isOk = true ↔
      ∃ o, old = some o ∧ o.expires.isExpired blk = false ∧ (∀ e', e = some e' → e'.isExpired blk = false) ∧
        ∃ held, NativeBalance.find? o.balance c.1 = some held := by
  unfold decFn
  cases old with
  | none => simp [Res.isOk]
  | some o =>
    simp only [Option.some.injEq, exists_eq_left']
    rw [← subSaturating_isOk_iff]
    cases hx : o.expires.isExpired blk
    · cases e with
      | none =>
        simp only [check, Bool.not_false, if_true, bind, Except.bind, pure, Except.pure, true_and]
        cases NativeBalance.subSaturating o.balance c <;> simp [Res.isOk]
      | some e' =>
        cases hx' : e'.isExpired blk
        · simp only [check, Bool.not_false, if_true, bind, Except.bind, pure, Except.pure, true_and]
          cases NativeBalance.subSaturating o.balance c <;> simp [Res.isOk, hx']
        · simp [check, hx', bind, Except.bind, Res.isOk]
    · simp [check, bind, Except.bind, Res.isOk]

/-- C08 / C17, `DecreaseAllowance` succeeds exactly when the caller is a current admin, the spender is a validated
address different from the caller, the spender has an unexpired allowance containing a coin of the named
denomination, and a submitted expiry is not yet reached.  Hence a decrease on a missing or expired allowance, or of a
denomination the allowance lacks, fails. -/
theorem decrease_ok_iff (s : Cw1Subkeys.State) (blk : Block) (snd : Addr) (sp : AddrArg) (c : Coin) (e : Option Expiration) :
    (Cw1Subkeys.execute s blk snd (.decreaseAllowance sp c e)).isOk = true ↔
      s.cfg.isAdmin snd = true ∧ sp.valid = true ∧ sp.text ≠ snd ∧
      ∃ o, s.allowances.get? sp.text = some o ∧ o.expires.isExpired blk = false ∧
        (∀ e', e = some e' → e'.isExpired blk = false) ∧ ∃ held, NativeBalance.find? o.balance c.1 = some held := by
  rw [← decFn_isOk_iff]
  constructor
  · intro h
    cases hr : Cw1Subkeys.execute s blk snd (.decreaseAllowance sp c e) with
    | error e => rw [hr] at h; cases h
    | ok r =>
      obtain ⟨s', out⟩ := r
      have hc := C17.Sk.execute_cases hr
      simp only at hc
      obtain ⟨h1, h2, h3, a, ha, _⟩ := hc
      exact ⟨h1, h2, h3, by rw [ha]; rfl⟩
  · rintro ⟨h1, h2, h3, h4⟩
    obtain ⟨a, ha⟩ := (NativeBalance.isOk_iff_exists _).mp h4
    simp only [Cw1Subkeys.execute, Cw1Subkeys.execDecreaseAllowance, h1, h2, h3, ha, check, bind, Except.bind,
      pure, Except.pure, ne_eq, not_false_eq_true, decide_true, if_true]
    split <;> rfl

/-- C08, the failure cases of `DecreaseAllowance`: no allowance, an expired one, or one without the denomination. -/
theorem decrease_fails {s : Cw1Subkeys.State} {blk : Block} {snd : Addr} {sp : AddrArg} {c : Coin} {e : Option Expiration}
    (hbad : ∀ o, s.allowances.get? sp.text = some o →
      o.expires.isExpired blk = true ∨ NativeBalance.find? o.balance c.1 = none) :
    ∃ err, Cw1Subkeys.execute s blk snd (.decreaseAllowance sp c e) = .error err := by
  rw [← NativeBalance.isOk_false_iff_exists]
  cases hr : (Cw1Subkeys.execute s blk snd (.decreaseAllowance sp c e)).isOk with
  | false => rfl
  | true =>
    obtain ⟨_, _, _, o, ho, hx, _, held, hf⟩ := (decrease_ok_iff s blk snd sp c e).mp hr
    rcases hbad o ho with h | h
    · rw [hx] at h; cases h
    · rw [hf] at h; cases h

/-- C08, exact effect of `DecreaseAllowance` besides the amounts (`decrease_saturates`, `decrease_saturates_exact`):
the allowance was there and unexpired; afterwards the entry is either gone (it then held nothing) or carries the
submitted expiry, else the stored one; nobody else's allowance, no permission and not the admin configuration change;
nothing is relayed. -/
theorem decrease_exact {s s' : Cw1Subkeys.State} {blk : Block} {snd : Addr} {sp : AddrArg} {c : Coin}
    {e : Option Expiration} {out : List CosmosMsg}
    (h : Cw1Subkeys.execute s blk snd (.decreaseAllowance sp c e) = .ok (s', out)) :
    (∃ o, s.allowances.get? sp.text = some o ∧ o.expires.isExpired blk = false ∧
      ((s'.allowances.get? sp.text = none ∧ ∀ d, held s' sp.text d = 0) ∨
       (∃ a', s'.allowances.get? sp.text = some a' ∧ a'.expires = e.getD o.expires ∧ a'.expires.isExpired blk = false))) ∧
    (∀ y, y ≠ sp.text → s'.allowances.get? y = s.allowances.get? y) ∧
    s'.permissions = s.permissions ∧ s'.cfg = s.cfg ∧ out = [] := by
  have hc := C17.Sk.execute_cases h
  simp only at hc
  obtain ⟨_, _, _, a, hdec, rfl⟩ := hc
  obtain ⟨o, ho, hx, hax, _⟩ := decFn_total hdec
  refine ⟨⟨o, ho, hx, ?_⟩, fun y hy => ?_, rfl, rfl, ?_⟩
  · by_cases hemp : a.balance.isEmpty = true
    · left; simp [hemp, held, bal, balOf]
    · right
      rw [ho] at hdec
      exact ⟨a, by simp [hemp], decFn_expires hdec, hax⟩
  · simp only
    split
    · exact AMap.get?_erase_ne _ _ _ (Ne.symm hy)
    · exact AMap.get?_set_ne _ _ _ _ (Ne.symm hy)
  · by_cases hne : out = []
    · exact hne
    · obtain ⟨msgs, hm⟩ := C07.Sk.only_execute_relays h hne; cases hm

/-! ## Ledgers from arbitrary start states, and the exact ledger -/

/-- Well-formedness is kept by every history from *any* well-formed state (`wf_run` is the instance "from
instantiation"): this covers migrated / legacy stores that are not outputs of `instantiate`. -/
theorem wf_run_from {s : Cw1Subkeys.State} (hw : WF s) (ops : List (Block × Addr × Cw1Subkeys.Msg)) :
    WF (C17.Sk.run s ops) := by
  induction ops generalizing s with
  | nil => exact hw
  | cons op rest ih => exact ih (step_wf hw op.1 op.2.1 op.2.2)

/-- The ledger invariant is kept by every history from any ghost state that satisfies it. -/
theorem grun_inv {g : Ghost} (hi : GInv g) (ops : List (Block × Addr × Cw1Subkeys.Msg)) : GInv (grun g ops) := by
  induction ops generalizing g with
  | nil => exact hi
  | cons op rest ih => exact ih (gstep_inv hi op)

/-- Ledgers opened on an arbitrary state: what a subkey holds at that moment counts as granted, nothing as spent. -/
def ghostOf (s : Cw1Subkeys.State) : Ghost := ⟨s, fun x d => held s x d, fun _ _ => 0⟩

/-- C08, the cumulative bound relative to **any** start state (not only `instantiate` outputs — e.g. a migrated
store): over every history, what a subkey has relayed since plus what it still holds never exceeds what it held at
the start plus what admins granted it since. -/
theorem ledger_relative (s : Cw1Subkeys.State) (ops : List (Block × Addr × Cw1Subkeys.Msg)) :
    GInv (grun (ghostOf s) ops) :=
  grun_inv (fun x d => by simp [ghostOf]) ops

/-- C08: the headline bound from any start state. -/
theorem spent_le_granted_relative (s : Cw1Subkeys.State) (ops : List (Block × Addr × Cw1Subkeys.Msg)) (x : Addr) (d : String) :
    (grun (ghostOf s) ops).spent x d ≤ (grun (ghostOf s) ops).granted x d := by
  have := ledger_relative s ops x d; omega

/-- Is the stored allowance expired at `blk` (`false` without one)? -/
def expiredAt (blk : Block) (al : Option Allowance) : Bool :=
  match al with
  | some a => a.expires.isExpired blk
  | none => false

theorem total_liveBal (blk : Block) (al : Option Allowance) (d : String) :
    total (liveBal blk al) d = if expiredAt blk al = true then 0 else total (balOf al) d := by
  cases al with
  | none => simp [liveBal, expiredAt, balOf]
  | some a => by_cases hx : a.expires.isExpired blk = true <;> simp [liveBal, expiredAt, balOf, hx]

/-- State plus four ghost ledgers: the two of `Ghost` and the two that account for allowance that disappears
without being spent. -/
structure Ledger where
  st : Cw1Subkeys.State
  /-- Σ of the amounts of all successful `IncreaseAllowance` calls for (subkey, denom) -/
  granted : Addr → String → Nat
  /-- Σ of the amounts of denom relayed by the subkey's own successful non-admin `Execute` calls -/
  spent : Addr → String → Nat
  /-- Σ over successful `DecreaseAllowance` calls of what they took away (held before − held after) -/
  revoked : Addr → String → Nat
  /-- Σ over successful `IncreaseAllowance` calls on an *expired* allowance of the remainder they discarded -/
  forfeited : Addr → String → Nat

/-- One transaction with the four-column bookkeeping (a failed call changes nothing). -/
def lstep (l : Ledger) (op : Block × Addr × Cw1Subkeys.Msg) : Ledger :=
  match Cw1Subkeys.execute l.st op.1 op.2.1 op.2.2 with
  | .error _ => l
  | .ok (s', _) =>
    match op.2.2 with
    | .increaseAllowance sp c _ =>
      { l with st := s',
               granted := fun x d => l.granted x d + (if x = sp.text ∧ c.1 = d then c.2 else 0),
               forfeited := fun x d => l.forfeited x d +
                 (if x = sp.text ∧ expiredAt op.1 (l.st.allowances.get? x) = true then held l.st x d else 0) }
    | .decreaseAllowance sp _ _ =>
      { l with st := s',
               revoked := fun x d => l.revoked x d + (if x = sp.text then held l.st x d - held s' x d else 0) }
    | .execute msgs =>
      if l.st.cfg.isAdmin op.2.1 then { l with st := s' }
      else { l with st := s', spent := fun x d => l.spent x d + (if x = op.2.1 then sent msgs d else 0) }
    | _ => { l with st := s' }

def lrun (l : Ledger) (ops : List (Block × Addr × Cw1Subkeys.Msg)) : Ledger := ops.foldl lstep l

/-- Forgetting the two extra columns. -/
def Ledger.ghost (l : Ledger) : Ghost := ⟨l.st, l.granted, l.spent⟩

/-- The four-column ledger extends the two-column one: state, `granted` and `spent` are those of `gstep`. -/
theorem lstep_ghost (l : Ledger) (op : Block × Addr × Cw1Subkeys.Msg) : (lstep l op).ghost = gstep l.ghost op := by
  obtain ⟨blk, snd, m⟩ := op
  simp only [lstep, gstep, Ledger.ghost]
  cases he : Cw1Subkeys.execute l.st blk snd m with
  | error e => rfl
  | ok r =>
    obtain ⟨s', out⟩ := r
    cases m <;> simp only [] <;> try rfl
    by_cases ha : l.st.cfg.isAdmin snd = true <;> simp [ha]

theorem lrun_ghost (l : Ledger) (ops : List (Block × Addr × Cw1Subkeys.Msg)) : (lrun l ops).ghost = grun l.ghost ops := by
  induction ops generalizing l with
  | nil => rfl
  | cons op rest ih =>
    simp only [lrun, grun, List.foldl_cons]
    have := ih (lstep l op)
    simp only [lrun, grun] at this
    rw [this, lstep_ghost]

theorem lrun_st (l : Ledger) (ops : List (Block × Addr × Cw1Subkeys.Msg)) : (lrun l ops).st = C17.Sk.run l.st ops := by
  have h1 : (lrun l ops).st = (lrun l ops).ghost.st := rfl
  rw [h1, lrun_ghost, grun_st]; rfl

/-- Exact ledger invariant: for every subkey and denomination, what was granted is accounted for completely — it
was relayed, or is still held, or was taken back by a `DecreaseAllowance`, or was discarded when an expired allowance
was restarted by an `IncreaseAllowance`. -/
def LInv (l : Ledger) : Prop :=
  ∀ x d, l.spent x d + held l.st x d + l.revoked x d + l.forfeited x d = l.granted x d

theorem lstep_inv {l : Ledger} (hi : LInv l) (op : Block × Addr × Cw1Subkeys.Msg) : LInv (lstep l op) := by
  obtain ⟨blk, snd, m⟩ := op
  unfold lstep
  simp only
  split
  · exact hi
  · rename_i s' out he
    have hc := C17.Sk.execute_cases he
    intro x d
    have hxd := hi x d
    cases m with
    | execute msgs =>
      simp only at hc ⊢
      cases ha : l.st.cfg.isAdmin snd
      · simp only [Bool.false_eq_true, if_false]
        by_cases hx : x = snd
        · subst hx
          have := spend_exact ha he d
          simp only [if_true]; omega
        · have : held s' x d = held l.st x d := by simp only [held, bal]; rw [hc.2.2.1 x hx]
          simp only [hx, if_false]; omega
      · simp only [if_true]
        rw [hc.2.2.2 ha]; exact hxd
    | freeze => simp at hc; obtain ⟨_, _, rfl⟩ := hc; exact hxd
    | updateAdmins a => simp at hc; obtain ⟨_, _, a, _, rfl⟩ := hc; exact hxd
    | increaseAllowance sp c e =>
      simp at hc
      obtain ⟨_, _, _, a, hinc, rfl⟩ := hc
      simp only
      by_cases hx : sp.text = x
      · subst hx
        rw [held_set_eq, incFn_total hinc d, total_liveBal]
        simp only [held, bal] at hxd ⊢
        by_cases hexp : expiredAt blk (l.st.allowances.get? sp.text) = true <;>
          by_cases hd : c.1 = d <;> simp [hexp, hd] <;> omega
      · rw [held_set_ne _ _ _ _ _ hx]
        have h1 : ¬ (x = sp.text ∧ c.1 = d) := fun h => hx h.1.symm
        have h2 : ¬ (x = sp.text ∧ expiredAt blk (l.st.allowances.get? x) = true) := fun h => hx h.1.symm
        simp only [h1, h2, if_false]; omega
    | decreaseAllowance sp c e =>
      have hds := decrease_saturates he d
      simp at hc
      obtain ⟨_, _, _, a, _, hs'⟩ := hc
      simp only
      by_cases hx : sp.text = x
      · subst hx; simp only [if_true]; omega
      · have : held s' x d = held l.st x d := by
          rw [hs']
          simp only [held, bal]
          split <;> simp [AMap.get?_set_ne _ _ _ _ hx, AMap.get?_erase_ne _ _ _ hx]
        have h1 : ¬ x = sp.text := fun h => hx h.symm
        simp only [h1, if_false]; omega
    | setPermissions sp p => simp at hc; obtain ⟨_, _, _, rfl⟩ := hc; exact hxd

theorem lrun_inv {l : Ledger} (hi : LInv l) (ops : List (Block × Addr × Cw1Subkeys.Msg)) : LInv (lrun l ops) := by
  induction ops generalizing l with
  | nil => exact hi
  | cons op rest ih => exact ih (lstep_inv hi op)

/-- Four-column ledgers opened on an arbitrary state: current holdings count as granted. -/
def ledgerOf (s : Cw1Subkeys.State) : Ledger := ⟨s, fun x d => held s x d, fun _ _ => 0, fun _ _ => 0, fun _ _ => 0⟩

/-- C08, "exactly … across calls": on every history from **any** state — any interleaving of Increase / Decrease
(any denom, amount, expiry), Execute calls with any number of bank sends, admin changes and block advances across
expiries — for every subkey and denomination

  `spent + still held + revoked by Decrease + forfeited at a restart after expiry = held at the start + granted since`.

So the amount relayed is *exactly* what was granted minus what is left, minus what admins took back, minus what
expired unused and was then overwritten. -/
theorem ledger_exact_relative (s : Cw1Subkeys.State) (ops : List (Block × Addr × Cw1Subkeys.Msg)) :
    LInv (lrun (ledgerOf s) ops) :=
  lrun_inv (fun x d => by simp [ledgerOf]) ops

/-- C08, the exact ledger from instantiation (all columns start at zero). -/
theorem ledger_exact {m0 : Cw1Subkeys.InstMsg} {s0 : Cw1Subkeys.State} (h0 : Cw1Subkeys.instantiate m0 = .ok s0)
    (ops : List (Block × Addr × Cw1Subkeys.Msg)) :
    LInv (lrun ⟨s0, fun _ _ => 0, fun _ _ => 0, fun _ _ => 0, fun _ _ => 0⟩ ops) := by
  apply lrun_inv
  simp [Cw1Subkeys.instantiate] at h0
  obtain ⟨c, _, rfl⟩ := h0
  intro x d
  simp [held, bal, balOf]

/-- The exact ledger and the bound of `ledger_invariant` talk about the same `granted` / `spent` columns and the
same states. -/
theorem ledger_exact_columns {s0 : Cw1Subkeys.State} (ops : List (Block × Addr × Cw1Subkeys.Msg)) :
    (lrun ⟨s0, fun _ _ => 0, fun _ _ => 0, fun _ _ => 0, fun _ _ => 0⟩ ops).ghost = grun (ghost0 s0) ops :=
  lrun_ghost _ ops

/-- C08: what a successful `DecreaseAllowance{spender, (d, amt)}` takes away on a well-formed state is
`min amt held` of `d` and nothing of any other denomination — so `revoked` is the Σ of those minima. -/
theorem decrease_revokes_exact {s s' : Cw1Subkeys.State} {blk : Block} {snd : Addr} {sp : AddrArg} {c : Coin}
    {e : Option Expiration} {out : List CosmosMsg} (hw : WF s)
    (h : Cw1Subkeys.execute s blk snd (.decreaseAllowance sp c e) = .ok (s', out)) (d : String) :
    held s sp.text d - held s' sp.text d = if c.1 = d then min c.2 (held s sp.text d) else 0 := by
  have h1 := decrease_saturates h d
  by_cases hd : c.1 = d
  · subst hd
    have h2 := decrease_saturates_exact hw h
    simp only [if_true]; omega
  · simp only [hd, if_false] at h1 ⊢; omega

/-! ## The listing hides expired allowances -/

/-- C08, "queries hide expired allowances", listing side: every entry the paged `AllAllowances` query returns —
for any cursor and limit — is a stored allowance that is unexpired at the block of the query.  (That no unexpired
entry is *missing* from the pages is `C20Listings.subkeys_allAllowances_complete`.) -/
theorem listing_hides_expired (s : Cw1Subkeys.State) (blk : Block) (after : Option String) (limit : Option Nat) :
    ∀ p ∈ Cw1Subkeys.queryAllAllowances s blk after limit, p ∈ s.allowances ∧ p.2.expires.isExpired blk = false := by
  intro p hp
  have := (Paginate.page_sublist _ _ after limit).subset hp
  simpa [List.mem_filter, Paginate.mem_sortedEntries] using this

/-- The point query on an expired allowance answers the empty default (the non-definitional reading of
`queries_hide_expired`): it shows no coin and `Never`. -/
theorem query_expired_is_default {s : Cw1Subkeys.State} {blk : Block} {x : Addr} {a : Allowance}
    (ha : s.allowances.get? x = some a) (hx : a.expires.isExpired blk = true) :
    Cw1Subkeys.queryAllowance s blk ⟨true, x⟩ = .ok ⟨[], .never⟩ := by
  rw [queries_hide_expired, ha]; simp [hx, Allowance.default]

/-! ## non-vacuity -/

open CwPlus.Props.C07 (exState blk50 blk100)

def twoSends : List CosmosMsg := [.bankSend "x" [("ua", 4)], .staking .delegate "v", .bankSend "y" [("ua", 6), ("ub", 1)]]

example : sent twoSends "ua" = 10 ∧ sent twoSends "ub" = 1 := by decide
example : held exState "sub" "ua" = 10 ∧ held exState "sub" "ub" = 5 := by decide
example : held (Cw1Subkeys.step exState blk50 "sub" (.execute twoSends)) "sub" "ua" = 0
    ∧ held (Cw1Subkeys.step exState blk50 "sub" (.execute twoSends)) "sub" "ub" = 4 := by decide
/-- one ua too much in the second send: the whole call fails, the first send is not charged -/
example : Cw1Subkeys.step exState blk50 "sub" (.execute [.bankSend "x" [("ua", 4)], .bankSend "y" [("ua", 7)]]) = exState := by decide
/-- expired at height 100 -/
example : Cw1Subkeys.step exState blk100 "sub" (.execute [.bankSend "x" [("ua", 1)]]) = exState := by decide
/-- increase on the expired allowance with a fresh expiry restarts from zero; without expiry it is refused -/
example : (Cw1Subkeys.step exState blk100 "admin" (.increaseAllowance ⟨true, "sub"⟩ ("ua", 3) (some .never))).allowances
    = [("sub", ⟨[("ua", 3)], .never⟩)] := by decide
example : Cw1Subkeys.step exState blk100 "admin" (.increaseAllowance ⟨true, "sub"⟩ ("ua", 3) none) = exState := by decide
/-- decrease saturates and deletes the emptied entry -/
example : (Cw1Subkeys.step (Cw1Subkeys.step exState blk50 "admin" (.decreaseAllowance ⟨true, "sub"⟩ ("ua", 99) none))
    blk50 "admin" (.decreaseAllowance ⟨true, "sub"⟩ ("ub", 5) none)).allowances = [] := by decide
/-- a ledger run: grant 10+3, spend 4, decrease, spend again -/
def exOps : List (Block × Addr × Cw1Subkeys.Msg) :=
  [(blk50, "admin", .increaseAllowance ⟨true, "k"⟩ ("ua", 10) none),
   (blk50, "k", .execute [.bankSend "x" [("ua", 4)]]),
   (blk50, "admin", .increaseAllowance ⟨true, "k"⟩ ("ua", 3) (some (.atHeight 60))),
   (blk50, "admin", .decreaseAllowance ⟨true, "k"⟩ ("ua", 2) none),
   (blk50, "k", .execute [.bankSend "x" [("ua", 7)]]),
   (blk50, "k", .execute [.bankSend "x" [("ua", 1)]])]
example : (grun (ghost0 { cfg := ⟨["admin"], true⟩, allowances := [], permissions := [] }) exOps).spent "k" "ua" = 11
    ∧ (grun (ghost0 { cfg := ⟨["admin"], true⟩, allowances := [], permissions := [] }) exOps).granted "k" "ua" = 13
    ∧ held (grun (ghost0 { cfg := ⟨["admin"], true⟩, allowances := [], permissions := [] }) exOps).st "k" "ua" = 0 := by decide

theorem exState_wf : WF exState := by
  intro x a h
  simp only [exState, AMap.get?] at h
  split at h
  · cases h; show List.Nodup _; decide
  · cases h

/-- liveness, non-vacuity: the hypotheses of `covered_spend_succeeds` hold of the running example (two bank sends,
cumulatively the whole `ua` allowance), and the theorem then *produces* the successful outcome -/
example : ∃ s', Cw1Subkeys.execute exState blk50 "sub"
      (.execute [.bankSend "x" [("ua", 4)], .bankSend "y" [("ua", 6), ("ub", 1)]]) =
        .ok (s', [.bankSend "x" [("ua", 4)], .bankSend "y" [("ua", 6), ("ub", 1)]]) ∧
      (∀ d, held s' "sub" d + sent [.bankSend "x" [("ua", 4)], .bankSend "y" [("ua", 6), ("ub", 1)]] d = held exState "sub" d) ∧
      (s'.allowances.get? "sub").map (·.expires) = some (.atHeight 100) :=
  covered_spend_succeeds (a := ⟨[("ua", 10), ("ub", 5)], .atHeight 100⟩) exState_wf (by decide) (by decide) (by decide)
    (by decide) (by decide)
    (fun d => by
      simp only [sent, sentCoins, msgCoins, held, bal, balOf, exState, AMap.get?, if_true]
      by_cases h1 : "ua" = d
      · subst h1; decide
      · by_cases h2 : "ub" = d
        · subst h2; decide
        · simp [total, h1, h2])
/-- `execute_ok_iff_sem` left to right on a failing call: one `ua` too much -/
example : ¬ ∀ d, sent [.bankSend "x" [("ua", 4)], .bankSend "y" [("ua", 7)]] d ≤ held exState "sub" d := by
  intro h
  have := (execute_ok_iff_sem (s := exState) (blk := blk50) (snd := "sub")
    (msgs := [.bankSend "x" [("ua", 4)], .bankSend "y" [("ua", 7)]]) exState_wf (by decide) (by decide)).mpr
    ⟨by decide, fun _ => ⟨_, rfl, by decide⟩, h⟩
  revert this; decide
/-- a zero coin of an absent denomination is refused although no denomination is overdrawn: positivity cannot be
dropped from `execute_ok_iff_sem` -/
example : (Cw1Subkeys.execute exState blk50 "sub" (.execute [.bankSend "x" [("uc", 0)]])).isOk = false := by decide
/-- `increase_ok_iff` / `decrease_ok_iff` right to left: the guarded calls do succeed -/
example : (Cw1Subkeys.execute exState blk50 "admin" (.increaseAllowance ⟨true, "sub"⟩ ("ua", 3) none)).isOk = true :=
  (increase_ok_iff exState blk50 "admin" _ _ _).mpr (by decide)
example : (Cw1Subkeys.execute exState blk50 "admin" (.decreaseAllowance ⟨true, "sub"⟩ ("ub", 9) (some .never))).isOk = true :=
  (decrease_ok_iff exState blk50 "admin" _ _ _).mpr ⟨by decide, by decide, by decide, _, rfl, by decide, by decide, 5, by decide⟩
/-- a decrease of a denomination the allowance lacks, and one on an expired allowance, fail -/
example : ∃ e, Cw1Subkeys.execute exState blk50 "admin" (.decreaseAllowance ⟨true, "sub"⟩ ("uc", 1) none) = .error e :=
  decrease_fails (fun o ho => by cases ho; exact Or.inr (by decide))
example : ∃ e, Cw1Subkeys.execute exState blk100 "admin" (.decreaseAllowance ⟨true, "sub"⟩ ("ua", 1) none) = .error e :=
  decrease_fails (fun o ho => by cases ho; exact Or.inl (by decide))
/-- the exact ledger on a run with an expiry: grant 10 (expires at 60), spend 4, restart after expiry with 3
(6 forfeited), decrease by 2, spend 1: 5 + 0 + 2 + 6 = 13 -/
def exOps2 : List (Block × Addr × Cw1Subkeys.Msg) :=
  [(blk50, "admin", .increaseAllowance ⟨true, "k"⟩ ("ua", 10) (some (.atHeight 60))),
   (blk50, "k", .execute [.bankSend "x" [("ua", 4)]]),
   (blk100, "admin", .increaseAllowance ⟨true, "k"⟩ ("ua", 3) (some .never)),
   (blk100, "admin", .decreaseAllowance ⟨true, "k"⟩ ("ua", 2) none),
   (blk100, "k", .execute [.bankSend "x" [("ua", 1)]])]
def exLedger : Ledger := lrun ⟨{ cfg := ⟨["admin"], true⟩, allowances := [], permissions := [] },
  fun _ _ => 0, fun _ _ => 0, fun _ _ => 0, fun _ _ => 0⟩ exOps2
example : exLedger.granted "k" "ua" = 13 ∧ exLedger.spent "k" "ua" = 5 ∧ held exLedger.st "k" "ua" = 0
    ∧ exLedger.revoked "k" "ua" = 2 ∧ exLedger.forfeited "k" "ua" = 6 := by decide
/-- `listing_hides_expired` at work: at height 100 the listing of the running example is empty -/
example : ∀ p, p ∉ Cw1Subkeys.queryAllAllowances exState blk100 none none := by
  intro p hp
  obtain ⟨hm, hx⟩ := listing_hides_expired _ _ _ _ p hp
  simp [exState] at hm
  subst hm
  revert hx; decide

end CwPlus.Props.C08
