import CwPlus.Props.MsgWire
import CwPlus.Model.Cw3Flex
/-!
# cw3-flex-multisig: the deposit messages, byte for byte (part of C15)

`packages/cw3/src/deposit.rs`: `DepositInfo::get_take_deposit_messages(depositor, contract)` — for a cw20 deposit
with a non-zero amount one `WasmMsg::Execute` on the token whose `msg` is
`to_json_binary(&Cw20ExecuteMsg::TransferFrom { owner: depositor, recipient: contract, amount })`, else nothing;
`get_return_deposit_message(depositor)` — cw20: `Cw20ExecuteMsg::Transfer { recipient: depositor, amount }`, native: a
`BankMsg::Send` (no JSON).  `MsgWire.wireOfFlex` maps the model's `Out` to these bytes (`none` for everything that
is not a cw20 deposit message: proposal messages, bank refunds, group hooks).

* `propose_deposit_encoded`: a successful `Propose` emits, as its only JSON deposit message,
  `encodeTransferFrom proposer multisig amount` when a non-zero cw20 deposit is configured, nothing otherwise;
* `execute_refund_encoded`: a successful `Execute` refunds unconditionally: `encodeTransfer proposer amount` for a
  proposal that carries a cw20 deposit (the deposit *stored with the proposal*), before any proposal message;
* `close_refund_encoded`: a successful `Close` refunds exactly when the stored deposit has `refund_failed_proposals`;
* `vote_hook_no_deposit_bytes`: `Vote` and `MemberChangedHook` emit no deposit message;
* `deposit_bytes_decodable`: the token contract reads the bytes back as exactly that call.

The tie: the harness prints the real `msg` bytes of every `WasmMsg::Execute` addressed to the deposit token among the
messages the top-level handler returned (`depraw=`), the driver renders the same key with `MsgWire.depRawOfFlex`.
-/
namespace CwPlus.Props.MsgWireFlex
open CwPlus CwPlus.Json CwPlus.MsgWire CwPlus.Cw3 CwPlus.Cw3Core CwPlus.Cw3Flex

/-- the JSON deposit messages `get_take_deposit_messages` produces -/
def expectedTake (d : Deposit) (depositor self : Addr) : List Bytes :=
  if d.cw20 && d.amount ≠ 0 then [encodeTransferFrom depositor self d.amount] else []

/-- the JSON payload of `get_return_deposit_message` (none for a native deposit) -/
def expectedRefund (d : Deposit) (depositor : Addr) : List Bytes :=
  if d.cw20 then [encodeTransfer depositor d.amount] else []

theorem takeDeposit_wire (d : Deposit) (depositor self : Addr) :
    (takeDeposit d depositor self).filterMap wireOfFlex = expectedTake d depositor self := by
  unfold takeDeposit expectedTake
  split <;> simp [wireOfFlex]

theorem refundMsg_wire (d : Deposit) (depositor : Addr) :
    [refundMsg d depositor].filterMap wireOfFlex = expectedRefund d depositor := by
  unfold refundMsg expectedRefund
  split <;> simp [wireOfFlex]

theorem msgs_no_wire (msgs : List Msg) : (msgs.map Out.msg).filterMap wireOfFlex = [] := by
  induction msgs with
  | nil => rfl
  | cons m r ih => simpa [wireOfFlex] using ih

/-- **propose_deposit_encoded** (C15 on the wire): a successful `Propose` by `snd` returns, as its only cw20 deposit
message, the bytes `encodeTransferFrom snd multisig amount` — owner the proposer, recipient the multisig itself, the
configured amount — when a cw20 deposit of non-zero amount is configured; with a native deposit (taken from
`info.funds`), a zero amount or no deposit: no such message. -/
theorem propose_deposit_encoded {s s' : State} {g : Cw4Group.State} {self : Addr} {blk : Block} {snd : Addr}
    {funds : List Coin} {t d : String} {msgs : List Msg} {latest : Option Expiration} {out : List Out}
    (h : execPropose s g self blk snd funds t d msgs latest = .ok (s', out)) :
    out.filterMap wireOfFlex =
      match s.cfg.deposit with
      | some dep => expectedTake dep snd self
      | none => [] := by
  unfold execPropose at h
  simp only [bind, Except.bind] at h
  split at h
  · simp at h
  split at h
  · simp at h
  split at h
  · simp at h
  split at h
  · simp at h
  simp only [pure, Except.pure, Except.ok.injEq, Prod.mk.injEq] at h
  obtain ⟨_, rfl⟩ := h
  cases s.cfg.deposit with
  | none => rfl
  | some dep => exact takeDeposit_wire dep snd self

/-- **execute_refund_encoded**: a successful `Execute` of proposal `id` refunds unconditionally: the deposit messages
among the returned messages are exactly `encodeTransfer proposer amount` when the proposal carries a cw20 deposit
(nothing for a native one — that refund is a `BankMsg` — or none); proposal messages never count as deposit
messages. -/
theorem execute_refund_encoded {s s' : State} {g : Cw4Group.State} {blk : Block} {snd : Addr} {id : Nat}
    {out : List Out} (h : execExecute s g blk snd id = .ok (s', out)) :
    ∃ p, load s.core id = .ok p ∧
      out.filterMap wireOfFlex =
        match p.deposit with
        | some dep => expectedRefund dep p.proposer
        | none => [] := by
  unfold execExecute at h
  simp only [bind, Except.bind] at h
  split at h
  · simp at h
  · rename_i p hp
    split at h
    · simp at h
    · rename_i r hr
      obtain ⟨c, ms⟩ := r
      simp only [pure, Except.pure, Except.ok.injEq, Prod.mk.injEq] at h
      obtain ⟨_, rfl⟩ := h
      refine ⟨p, hp, ?_⟩
      rw [List.filterMap_append, msgs_no_wire, List.append_nil]
      cases p.deposit with
      | none => rfl
      | some dep => exact refundMsg_wire dep p.proposer

/-- **close_refund_encoded**: a successful `Close` of proposal `id` returns the cw20 refund
`encodeTransfer proposer amount` exactly when the stored deposit is a cw20 deposit with `refund_failed_proposals`;
otherwise no deposit message. -/
theorem close_refund_encoded {s s' : State} {blk : Block} {id : Nat} {out : List Out}
    (h : execClose s blk id = .ok (s', out)) :
    ∃ p, load s.core id = .ok p ∧
      out.filterMap wireOfFlex =
        match p.deposit with
        | some dep => if dep.refundFailed then expectedRefund dep p.proposer else []
        | none => [] := by
  unfold execClose at h
  simp only [bind, Except.bind] at h
  split at h
  · simp at h
  · rename_i p hp
    split at h
    · simp at h
    · simp only [pure, Except.pure, Except.ok.injEq, Prod.mk.injEq] at h
      obtain ⟨_, rfl⟩ := h
      refine ⟨p, hp, ?_⟩
      cases p.deposit with
      | none => rfl
      | some dep =>
        simp only
        split
        · exact refundMsg_wire dep p.proposer
        · rfl

/-- `Vote` and `MemberChangedHook` return no deposit message -/
theorem vote_hook_no_deposit_bytes {s s' : State} {g : Cw4Group.State} {self : Addr} {blk : Block} {snd : Addr}
    {funds : List Coin} {msg : ExecMsg} {out : List Out}
    (h : Cw3Flex.execute s g self blk snd funds msg = .ok (s', out))
    (hm : (∃ id v, msg = .vote id v) ∨ msg = .memberChangedHook) : out.filterMap wireOfFlex = [] := by
  rcases hm with ⟨id, v, rfl⟩ | rfl
  · simp only [Cw3Flex.execute, execVote, bind, Except.bind] at h
    split at h
    · simp at h
    · simp only [pure, Except.pure, Except.ok.injEq, Prod.mk.injEq] at h
      obtain ⟨_, rfl⟩ := h; rfl
  · simp only [Cw3Flex.execute, execHook, bind, Except.bind] at h
    split at h
    · simp at h
    · simp only [pure, Except.pure, Except.ok.injEq, Prod.mk.injEq] at h
      obtain ⟨_, rfl⟩ := h; rfl

/-- **deposit_bytes_decodable**: the token contract (`from_json::<Cw20ExecuteMsg>`) reads the deposit messages back
as exactly these calls; a deposit amount is a `Uint128`. -/
theorem deposit_bytes_decodable (owner self : Addr) (amt : Nat) (h : amt < 2 ^ 128) :
    decodeTransferFrom (encodeTransferFrom owner self amt) = .ok ⟨owner, self, amt⟩ ∧
    decodeTransfer (encodeTransfer owner amt) = .ok ⟨owner, amt⟩ :=
  ⟨CwPlus.Props.MsgWire.decode_encode_transferFrom owner self amt h,
   CwPlus.Props.MsgWire.decode_encode_transfer owner amt h⟩

/-- the outcome key is the `+`-joined hex of these messages -/
theorem depRaw_eq (out : List Out) : depRawOfFlex out = "+".intercalate ((out.filterMap wireOfFlex).map toHex) := rfl

set_option maxRecDepth 1000000 in
/-- the literal bytes of the messages for a deposit of 10 tokens of `tok`, proposer `alice`, multisig `flex` -/
example : (expectedTake ⟨10, "tok", true, false⟩ "alice" "flex").map bytesToString =
      ["{\"transfer_from\":{\"owner\":\"alice\",\"recipient\":\"flex\",\"amount\":\"10\"}}"] ∧
    (expectedRefund ⟨10, "tok", true, false⟩ "alice").map bytesToString =
      ["{\"transfer\":{\"recipient\":\"alice\",\"amount\":\"10\"}}"] ∧
    expectedTake ⟨10, "ucosm", false, false⟩ "alice" "flex" = [] ∧
    expectedRefund ⟨10, "ucosm", false, true⟩ "alice" = [] := by decide

end CwPlus.Props.MsgWireFlex
