import CwPlus.Props.C08
/-!
# C07 — the coverage rule in terms of amounts, on reachable states

`C07.Sk.execute_ok_iff` characterises a subkey's successful `Execute` by `coveredSeq`, which tests the model's own
coin subtraction.  Here the bank-send part is restated semantically (per-denomination totals against the allowance),
which is what "bank sends within the unexpired allowance" says, and the statement is closed over histories from
instantiation (no well-formedness hypothesis left).  The definitions `held`, `sent`, `WF` live in `Props/C08.lean`,
which imports `Props/C07.lean`; hence this separate file.
-/
namespace CwPlus.Props.C07Sem
open CwPlus
open CwPlus.Cw1Whitelist (AddrArg CosmosMsg)
open CwPlus.Cw1Subkeys (Allowance Permissions)

/-- C07 (subkeys), "only if … every message is covered", semantic form: on a well-formed state a non-admin's list
whose coins are all positive is relayed **exactly when** every message kind is allowed by the caller's permission
record (bank sends always, staking / distribution by flag, nothing else), the allowance exists and is unexpired if
the list contains a bank send, and per denomination the bank sends together stay within the allowance. -/
theorem Sk.execute_ok_iff_sem {s : Cw1Subkeys.State} {blk : Block} {snd : Addr} {msgs : List CosmosMsg}
    (hw : C08.WF s) (hna : s.cfg.isAdmin snd = false) (hpos : ∀ c ∈ C08.sentCoins msgs, 0 < c.2) :
    (Cw1Subkeys.execute s blk snd (.execute msgs)).isOk = true ↔
      (∀ m ∈ msgs, C07.permOk (s.permissions.get? snd) m = true) ∧
      (C08.hasBankSend msgs → ∃ a, s.allowances.get? snd = some a ∧ a.expires.isExpired blk = false) ∧
      ∀ d, C08.sent msgs d ≤ C08.held s snd d :=
  C08.execute_ok_iff_sem hw hna hpos

/-- C07 (subkeys) after **every** history from instantiation: the same exact success condition, with no hypothesis
on the state left (`C08.wf_run`). -/
theorem Sk.execute_ok_iff_sem_run {m0 : Cw1Subkeys.InstMsg} {s0 : Cw1Subkeys.State}
    (h0 : Cw1Subkeys.instantiate m0 = .ok s0) (ops : List (Block × Addr × Cw1Subkeys.Msg))
    {blk : Block} {snd : Addr} {msgs : List CosmosMsg}
    (hna : (C17.Sk.run s0 ops).cfg.isAdmin snd = false) (hpos : ∀ c ∈ C08.sentCoins msgs, 0 < c.2) :
    (Cw1Subkeys.execute (C17.Sk.run s0 ops) blk snd (.execute msgs)).isOk = true ↔
      (∀ m ∈ msgs, C07.permOk ((C17.Sk.run s0 ops).permissions.get? snd) m = true) ∧
      (C08.hasBankSend msgs → ∃ a, (C17.Sk.run s0 ops).allowances.get? snd = some a ∧ a.expires.isExpired blk = false) ∧
      ∀ d, C08.sent msgs d ≤ C08.held (C17.Sk.run s0 ops) snd d :=
  C08.execute_ok_iff_sem (C08.wf_run h0 ops) hna hpos

/-- C07 (subkeys), what is relayed, semantically: after every history from instantiation a non-admin's list of
positive coins is relayed unchanged if the three conditions hold, and nothing is relayed otherwise. -/
theorem Sk.relayed_sem_run {m0 : Cw1Subkeys.InstMsg} {s0 : Cw1Subkeys.State}
    (h0 : Cw1Subkeys.instantiate m0 = .ok s0) (ops : List (Block × Addr × Cw1Subkeys.Msg))
    {blk : Block} {snd : Addr} {msgs : List CosmosMsg}
    (hna : (C17.Sk.run s0 ops).cfg.isAdmin snd = false) (hpos : ∀ c ∈ C08.sentCoins msgs, 0 < c.2) :
    (((∀ m ∈ msgs, C07.permOk ((C17.Sk.run s0 ops).permissions.get? snd) m = true) ∧
      (C08.hasBankSend msgs → ∃ a, (C17.Sk.run s0 ops).allowances.get? snd = some a ∧ a.expires.isExpired blk = false) ∧
      ∀ d, C08.sent msgs d ≤ C08.held (C17.Sk.run s0 ops) snd d) →
        Cw1Subkeys.relayed (C17.Sk.run s0 ops) blk snd (.execute msgs) = msgs) ∧
    (¬ ((∀ m ∈ msgs, C07.permOk ((C17.Sk.run s0 ops).permissions.get? snd) m = true) ∧
      (C08.hasBankSend msgs → ∃ a, (C17.Sk.run s0 ops).allowances.get? snd = some a ∧ a.expires.isExpired blk = false) ∧
      ∀ d, C08.sent msgs d ≤ C08.held (C17.Sk.run s0 ops) snd d) →
        Cw1Subkeys.relayed (C17.Sk.run s0 ops) blk snd (.execute msgs) = []) := by
  have hiff := Sk.execute_ok_iff_sem_run h0 ops (blk := blk) hna hpos
  constructor
  · intro hc
    have hok := hiff.mpr hc
    simp only [Cw1Subkeys.relayed]
    cases hr : Cw1Subkeys.execute (C17.Sk.run s0 ops) blk snd (.execute msgs) with
    | error e => rw [hr] at hok; cases hok
    | ok r => obtain ⟨s', out⟩ := r; exact C07.Sk.relay_exact hr
  · intro hc
    simp only [Cw1Subkeys.relayed]
    cases hr : Cw1Subkeys.execute (C17.Sk.run s0 ops) blk snd (.execute msgs) with
    | error e => rfl
    | ok r => exact absurd (hiff.mp (by rw [hr]; rfl)) hc

/-- non-vacuity: a history from instantiation after which the subkey's spend satisfies the three conditions -/
example :
    let s0 : Cw1Subkeys.State := { cfg := ⟨["admin"], true⟩, allowances := [], permissions := [] }
    let ops : List (Block × Addr × Cw1Subkeys.Msg) :=
      [(C07.blk50, "admin", .increaseAllowance ⟨true, "k"⟩ ("ua", 10) none),
       (C07.blk50, "admin", .setPermissions ⟨true, "k"⟩ ⟨true, false, false, false⟩)]
    Cw1Subkeys.instantiate ⟨[⟨true, "admin"⟩], true⟩ = .ok s0 ∧
    Cw1Subkeys.relayed (C17.Sk.run s0 ops) C07.blk50 "k" (.execute [.bankSend "x" [("ua", 10)], .staking .delegate "v"])
      = [.bankSend "x" [("ua", 10)], .staking .delegate "v"] ∧
    Cw1Subkeys.relayed (C17.Sk.run s0 ops) C07.blk50 "k" (.execute [.bankSend "x" [("ua", 11)]]) = [] := by
  refine ⟨rfl, by decide, by decide⟩

end CwPlus.Props.C07Sem
