import CwPlus.Lemmas.Cw3StatusTotal
import CwPlus.Lemmas.Cw3Flex
import CwPlus.Lemmas.Cw3FlexAt
import CwPlus.Props.C15
/-!
# C05 (cw3-flex part) — passed proposals execute at most once; the lifecycle only moves forward

The cw3-flex instances of the cw3-fixed theorems of `Props/C05.lean`, through the shared `Cw3Core`
(`Lemmas/Cw3Core.lean`: `execute_spec`, `close_spec`, `edge`, `Later`).  "History" = any finite list of
transactions on the multisig, its cw4-group and the cw20 deposit token, with re-entrant self-calls, group updates
dispatched by proposals, hooks and failing dispatches, at arbitrary blocks, after an accepted instantiation
(`Cw3Flex.Reachable`).  Differences from cw3-fixed: `Execute` also needs `Config::authorize` (executor none / member /
only), and it returns the deposit refund in front of the proposal's messages; `Close` may return the refund.

The converse over histories (`dispatched_only_by_execute_run`): the instrumented runtime `dispatchT` / `txT` / `runT`
(= `dispatch` / `tx` / `run` plus the list of leaf messages performed for the multisig; `dispatchT_ok_iff`, `runT_world`)
and the multiset equation trace = ⨄ of what the handler calls recorded in the ghost log returned.
-/
namespace CwPlus.Props.C05Flex
open CwPlus CwPlus.Cw3 CwPlus.Cw3Core CwPlus.Cw3Flex CwPlus.Props

/-! ## Execute -/

/-- The Execute handler succeeds exactly when the proposal exists, its current status at the call's block is
Passed, and the sender is authorised by the configured executor rule. -/
theorem execute_ok_iff (s : State) (g : Cw4Group.State) (self : Addr) (blk : Block) (snd : Addr) (funds : List Coin) (id : Nat) :
    (Cw3Flex.execute s g self blk snd funds (.execute id)).isOk = true ↔
      ∃ p, s.core.proposals.get? id = some p ∧ p.currentStatus blk = .ok .passed ∧ authorize s.cfg g snd = true := by
  constructor
  · intro h
    cases hx : Cw3Flex.execute s g self blk snd funds (.execute id) with
    | error e => rw [hx] at h; cases h
    | ok r =>
      obtain ⟨s', out⟩ := r
      obtain ⟨_, hc⟩ := execute_cases hx
      rcases hc with ⟨_, _, _, _, _, _, _, hm, _⟩ | ⟨_, _, hm, _⟩ | ⟨id', p1, msgs, hm, _, he, _⟩ | ⟨_, _, hm, _⟩ | ⟨hm, _⟩ <;> cases hm
      obtain ⟨p, hp, hst, ha, _⟩ := execute_spec he
      exact ⟨p, hp, hst, ha⟩
  · rintro ⟨p, hp, hst, ha⟩
    have hl : load s.core id = .ok p := by simp [hp]
    simp [Cw3Flex.execute, execExecute, Cw3Core.execute, hl, hst, ha, bind, Except.bind, check, pure, Except.pure, Res.isOk]

/-- Who is authorised: anybody without an executor rule; any current group member (weight 0 included) under
`Member`; exactly the named address under `Only`. -/
theorem authorize_iff (cfg : Config) (g : Cw4Group.State) (snd : Addr) :
    authorize cfg g snd = true ↔
      cfg.executor = none ∨ (cfg.executor = some .member ∧ (memberNow g snd).isSome = true) ∨ cfg.executor = some (.only snd) := by
  unfold authorize
  cases h : cfg.executor with
  | none => simp
  | some e =>
    cases e with
    | member => simp
    | only a => simp only [decide_eq_true_eq]; constructor
                · intro e; subst e; exact Or.inr (Or.inr rfl)
                · rintro (h | ⟨h, _⟩ | h) <;> cases h; rfl

/-- "Exactly as proposed": a successful Execute returns the deposit refund (iff the proposal carries a deposit)
followed by exactly the proposal's messages, in order, and nothing else … -/
theorem execute_out {s s' : State} {g : Cw4Group.State} {self : Addr} {blk : Block} {snd : Addr} {funds : List Coin}
    {id : Nat} {out : List Out} (h : Cw3Flex.execute s g self blk snd funds (.execute id) = .ok (s', out)) :
    ∃ p, s.core.proposals.get? id = some p ∧
      out = (match p.deposit with | some d => [refundMsg d p.proposer] | none => []) ++ p.msgs.map Out.msg := by
  obtain ⟨_, hc⟩ := execute_cases h
  rcases hc with ⟨_, _, _, _, _, _, _, hm, _⟩ | ⟨_, _, hm, _⟩ | ⟨id', p1, msgs, hm, hp1, he, hout⟩ | ⟨_, _, hm, _⟩ | ⟨hm, _⟩ <;> cases hm
  obtain ⟨p, hp, _, _, ho, _⟩ := execute_spec he
  rw [hp1] at hp; cases hp
  subst ho
  exact ⟨p1, hp1, hout⟩

/-- … and stores the proposal as Executed (nothing else of it changes) before the messages go out. -/
theorem execute_sets_executed {s s' : State} {g : Cw4Group.State} {self : Addr} {blk : Block} {snd : Addr} {funds : List Coin}
    {id : Nat} {out : List Out} (h : Cw3Flex.execute s g self blk snd funds (.execute id) = .ok (s', out)) :
    ∃ p, s.core.proposals.get? id = some p ∧ s'.core.proposals.get? id = some { p with status := .executed } ∧
      ∀ id', id' ≠ id → s'.core.proposals.get? id' = s.core.proposals.get? id' := by
  obtain ⟨_, hc⟩ := execute_cases h
  rcases hc with ⟨_, _, _, _, _, _, _, hm, _⟩ | ⟨_, _, hm, _⟩ | ⟨id', p1, msgs, hm, _, he, _⟩ | ⟨_, _, hm, _⟩ | ⟨hm, _⟩ <;> cases hm
  obtain ⟨p, hp, _, _, _, hc'⟩ := execute_spec he
  refine ⟨p, hp, by rw [hc']; simp, ?_⟩
  intro id' hne; rw [hc']; simp [AMap.get?_set_ne _ _ _ _ (Ne.symm hne)]

/-- No handler other than Execute ever returns a message of a proposal: Propose returns at most the cw20
deposit `TransferFrom`, Vote and the hook nothing, Close at most the refund. -/
theorem only_execute_emits_proposal_messages {s s' : State} {g : Cw4Group.State} {self : Addr} {blk : Block} {snd : Addr}
    {funds : List Coin} {m : ExecMsg} {out : List Out}
    (h : Cw3Flex.execute s g self blk snd funds m = .ok (s', out)) (hne : ∀ id, m ≠ .execute id) :
    ∀ x, Out.msg x ∉ out := by
  intro x hx
  obtain ⟨_, hc⟩ := execute_cases h
  rcases hc with ⟨_, _, _, _, _, _, _, _, _, _, _, ho, _⟩ | ⟨_, _, _, ho, _⟩ | ⟨id, _, _, hm, _⟩ | ⟨_, p, _, _, _, ho⟩ | ⟨_, _, _, ho⟩
  · subst ho
    cases hd : s.cfg.deposit with
    | none => simp [hd] at hx
    | some d => simp only [hd, takeDeposit] at hx; split at hx <;> simp at hx
  · subst ho; simp at hx
  · exact absurd hm (hne id)
  · subst ho
    cases hd : p.deposit with
    | none => simp [hd] at hx
    | some d =>
      simp only [hd] at hx
      split at hx
      · simp [refundMsg] at hx; split at hx <;> simp at hx
      · simp at hx
  · subst ho; simp at hx

/-! ## stored status only moves forward -/

theorem edge_iff (a b : Status) : edge a b = true ↔
    a = b ∨ (a = .open ∧ (b = .passed ∨ b = .rejected ∨ b = .executed)) ∨ (a = .passed ∧ b = .executed) := by
  cases a <;> cases b <;> simp [edge]

/-- The multisig's core only ever moves to a `Later` core over a history. -/
theorem run_later {ext : Ext} {fuel : Nat} {w : World} (hr : Reachable ext fuel w) (ops : List Op) :
    Later w.flex.core (run ext fuel w ops).flex.core :=
  run_rel ext (fun s s' => Later s.core s'.core) (fun s => later_refl _) (fun _ _ _ h1 h2 => later_trans h1 h2)
    (fun g self blk s snd funds m s' out hi h => execute_later hi h) fuel ops w (reachable_inv hr)

/-- "The lifecycle only moves forward": over every history the stored status of every proposal moves only along
Open→Passed, Open→Rejected, Passed→Executed (and Open→Executed, in an Execute call that finds the current status
Passed).  Executed and Rejected are final; Passed never goes back to Open or Rejected. -/
theorem stored_status_edges {ext : Ext} {fuel : Nat} {w : World} (hr : Reachable ext fuel w) (ops : List Op)
    {id : Nat} {p : Proposal} (hp : w.flex.core.proposals.get? id = some p) :
    ∃ p', (run ext fuel w ops).flex.core.proposals.get? id = some p' ∧
      (p.status = p'.status ∨ (p.status = .open ∧ (p'.status = .passed ∨ p'.status = .rejected ∨ p'.status = .executed)) ∨
       (p.status = .passed ∧ p'.status = .executed)) := by
  obtain ⟨p', hp', _, he⟩ := (run_later hr ops).props id p hp
  exact ⟨p', hp', (edge_iff _ _).mp he⟩

/-- Title, description, messages, threshold, total weight, expiry, start height, proposer and deposit of a
proposal never change after creation, and no proposal ever disappears. -/
theorem proposal_immutable {ext : Ext} {fuel : Nat} {w : World} (hr : Reachable ext fuel w) (ops : List Op)
    {id : Nat} {p : Proposal} (hp : w.flex.core.proposals.get? id = some p) :
    ∃ p', (run ext fuel w ops).flex.core.proposals.get? id = some p' ∧
      p'.title = p.title ∧ p'.description = p.description ∧ p'.msgs = p.msgs ∧ p'.threshold = p.threshold ∧
      p'.totalWeight = p.totalWeight ∧ p'.expires = p.expires ∧ p'.startHeight = p.startHeight ∧
      p'.proposer = p.proposer ∧ p'.deposit = p.deposit := by
  obtain ⟨p', hp', hf, _⟩ := (run_later hr ops).props id p hp
  refine ⟨p', hp', ?_⟩
  simp only [Proposal.fixedPart] at hf
  cases p; cases p'; simp_all

/-- Ballots never change or disappear. -/
theorem ballot_never_changes {ext : Ext} {fuel : Nat} {w : World} (hr : Reachable ext fuel w) (ops : List Op)
    {id : Nat} {a : Addr} {b : Ballot} (hb : (ballotsOf w.flex.core id).get? a = some b) :
    (ballotsOf (run ext fuel w ops).flex.core id).get? a = some b :=
  (run_later hr ops).ballots id a b hb

/-! ## at most one execution -/

/-- Ghost: how many successful Execute handler calls for `id` (top-level or re-entrant) lie in committed
transactions of the history. -/
def executions (w : World) (id : Nat) : Nat := w.log.count (.executed id)

/-- **At most once.**  Over every history, with re-entrant self-calls and dispatches that fail and roll back,
every proposal has at most one committed successful Execute. -/
theorem executions_le_one {ext : Ext} {fuel : Nat} {w : World} (hr : Reachable ext fuel w) (id : Nat) :
    executions w id ≤ 1 := by
  have := CwPlus.Props.C15.refund_at_most_once hr id
  unfold CwPlus.Props.C15.handled at this
  unfold executions; omega

/-- A proposal stored Executed cannot be executed again, by anybody, at any block. -/
theorem execute_twice_fails {s : State} {g : Cw4Group.State} {self : Addr} {blk : Block} {snd : Addr} {funds : List Coin}
    {id : Nat} {p : Proposal} (hp : s.core.proposals.get? id = some p) (he : p.status = .executed) :
    (Cw3Flex.execute s g self blk snd funds (.execute id)).isOk = false := by
  cases hx : (Cw3Flex.execute s g self blk snd funds (.execute id)).isOk with
  | false => rfl
  | true =>
    obtain ⟨p', hp', hst, _⟩ := (execute_ok_iff s g self blk snd funds id).mp hx
    rw [hp] at hp'; cases hp'
    have : Cw3.currentStatus p.tally blk = .ok p.status := cs_of_ne_open (t := p.tally) (by simp [Proposal.tally, he])
    simp only [Proposal.currentStatus] at hst
    rw [this, he] at hst; cases hst

/-- Atomicity: a transaction that fails anywhere (funds, handler, any dispatched message at any depth) leaves the
whole world — multisig, group, token, bank, ghost log — unchanged; in particular a proposal whose dispatch failed
is still Passed and can be retried. -/
theorem tx_atomic {ext : Ext} {fuel : Nat} {w : World} {op : Op} {e : String}
    (h : tx ext fuel w op.blk op.act = .error e) : step ext fuel w op = w := by
  simp [step, h]

/-! ## Close -/

/-- Close succeeds exactly when the proposal is stored Open, has expired, and is not Passed at the call's block. -/
theorem close_ok_iff {s : State} (hi : Inv s) (g : Cw4Group.State) (self : Addr) (blk : Block) (snd : Addr) (funds : List Coin) (id : Nat) :
    (Cw3Flex.execute s g self blk snd funds (.close id)).isOk = true ↔
      ∃ p st, s.core.proposals.get? id = some p ∧ p.status = .open ∧ p.currentStatus blk = .ok st ∧ st ≠ .passed ∧
        p.expires.isExpired blk = true := by
  constructor
  · intro h
    cases hx : Cw3Flex.execute s g self blk snd funds (.close id) with
    | error e => rw [hx] at h; cases h
    | ok r =>
      obtain ⟨s', out⟩ := r
      obtain ⟨_, hc⟩ := execute_cases hx
      rcases hc with ⟨_, _, _, _, _, _, _, hm, _⟩ | ⟨_, _, hm, _⟩ | ⟨_, _, _, hm, _⟩ | ⟨id', p1, hm, _, hcl, _⟩ | ⟨hm, _⟩ <;> cases hm
      obtain ⟨p, st, hp, h1, h2, h3, hst, hne, hexp, _⟩ := close_spec hcl
      have h4 := hi.wf.notPending id p hp
      refine ⟨p, st, hp, ?_, hst, hne, hexp⟩
      cases hs : p.status <;> simp_all
  · rintro ⟨p, st, hp, ho, hst, hne, hexp⟩
    have hl : load s.core id = .ok p := by simp [hp]
    simp [Cw3Flex.execute, execClose, Cw3Core.close, hl, ho, hst, hne, hexp, bind, Except.bind, check, pure, Except.pure, Res.isOk]

/-- Close stores Rejected and dispatches none of the proposal's messages (only, possibly, the deposit refund of C15). -/
theorem close_out {s s' : State} {g : Cw4Group.State} {self : Addr} {blk : Block} {snd : Addr} {funds : List Coin}
    {id : Nat} {out : List Out} (h : Cw3Flex.execute s g self blk snd funds (.close id) = .ok (s', out)) :
    (∃ p, s.core.proposals.get? id = some p ∧ s'.core.proposals.get? id = some { p with status := .rejected }) ∧
    ∀ x, Out.msg x ∉ out := by
  refine ⟨?_, only_execute_emits_proposal_messages h (by intro id' hc; cases hc)⟩
  obtain ⟨_, hc⟩ := execute_cases h
  rcases hc with ⟨_, _, _, _, _, _, _, hm, _⟩ | ⟨_, _, hm, _⟩ | ⟨_, _, _, hm, _⟩ | ⟨id', p1, hm, _, hcl, _⟩ | ⟨hm, _⟩ <;> cases hm
  obtain ⟨p, _, hp, _, _, _, _, _, _, hc'⟩ := close_spec hcl
  exact ⟨p, hp, by rw [hc']; simp⟩

/-! ## ids, expiry -/

/-- Proposal ids are fresh and increase by one: a successful Propose creates id `count + 1`. -/
theorem ids_fresh_increasing {s s' : State} {g : Cw4Group.State} {self : Addr} {blk : Block} {snd : Addr} {funds : List Coin}
    {t d : String} {msgs : List Msg} {latest : Option Expiration} {out : List Out} (hi : Inv s)
    (h : Cw3Flex.execute s g self blk snd funds (.propose t d msgs latest) = .ok (s', out)) :
    s'.core.count = s.core.count + 1 ∧ s.core.proposals.get? (s.core.count + 1) = none ∧
    (s'.core.proposals.get? (s.core.count + 1)).isSome = true := by
  obtain ⟨_, hc⟩ := execute_cases h
  rcases hc with ⟨_, _, _, _, w, total, id, hm, _, _, _, _, hp⟩ | ⟨_, _, hm, _⟩ | ⟨_, _, _, hm, _⟩ | ⟨_, _, hm, _⟩ | ⟨hm, _⟩ <;> cases hm
  obtain ⟨expires, st, _, _, hid, _, hc'⟩ := propose_spec hp
  subst hid
  exact ⟨by rw [hc'], hi.wf.fresh (by omega), by rw [hc']; simp⟩

/-- The expiry of a new proposal is never later than `max_voting_period` after its creation block. -/
theorem expiry_le_max {s s' : State} {g : Cw4Group.State} {self : Addr} {blk : Block} {snd : Addr} {funds : List Coin}
    {t d : String} {msgs : List Msg} {latest : Option Expiration} {out : List Out}
    (h : Cw3Flex.execute s g self blk snd funds (.propose t d msgs latest) = .ok (s', out)) :
    ∃ p, s'.core.proposals.get? (s.core.count + 1) = some p ∧ p.startHeight = blk.height ∧
      (p.expires.cmp? (s.cfg.maxVotingPeriod.after blk) = some .lt ∨ p.expires.cmp? (s.cfg.maxVotingPeriod.after blk) = some .eq) := by
  obtain ⟨_, hc⟩ := execute_cases h
  rcases hc with ⟨_, _, _, _, w, total, id, hm, _, _, _, _, hp⟩ | ⟨_, _, hm, _⟩ | ⟨_, _, _, hm, _⟩ | ⟨_, _, hm, _⟩ | ⟨hm, _⟩ <;> cases hm
  obtain ⟨expires, st, hexp, _, hid, _, hc'⟩ := propose_spec hp
  subst hid
  exact ⟨_, by rw [hc']; exact AMap.get?_set_eq _ _ _, rfl, chooseExpiry_le hexp⟩

/-! ## re-entrancy -/

/-- Is proposal `id` stored as Executed? -/
def isExec (c : Core) (id : Nat) : Bool :=
  match c.proposals.get? id with
  | some p => decide (p.status = .executed)
  | none => false

theorem isExec_later {c c' : Core} (hl : Later c c') {id : Nat} (h : isExec c id = true) : isExec c' id = true := by
  unfold isExec at h ⊢
  cases hp : c.proposals.get? id with
  | none => simp [hp] at h
  | some p =>
    simp only [hp, decide_eq_true_eq] at h
    obtain ⟨p', hp', _, he⟩ := hl.props id p hp
    simp only [hp', decide_eq_true_eq]
    cases hs' : p'.status <;> simp_all [edge]

/-- Whatever is dispatched, an Executed proposal stays Executed. -/
theorem dispatch_keeps_executed {ext : Ext} {fuel : Nat} {w w' : World} {blk : Block} {outs : List Out} {id : Nat}
    (hi : Inv w.flex) (hx : isExec w.flex.core id = true) (h : dispatch ext fuel w blk outs = .ok w') :
    Inv w'.flex ∧ isExec w'.flex.core id = true :=
  dispatch_inv ext (fun w => Inv w.flex ∧ isExec w.flex.core id = true) blk
    (fun w snd funds em s' out hq he => ⟨execute_inv hq.1 he, isExec_later (execute_later hq.1 he) hq.2⟩)
    (fun _ _ _ _ _ hq _ => hq) (fun _ _ hq => hq) (fun _ _ hq => hq) fuel w outs w' ⟨hi, hx⟩ h

theorem dispatch_nil (ext : Ext) (fuel : Nat) (w : World) (blk : Block) : dispatch ext fuel w blk [] = .ok w := by
  cases fuel <;> rfl

/-- The head of a dispatch list is dispatched first, the rest afterwards in the resulting world. -/
theorem dispatch_cons (ext : Ext) (fuel : Nat) (w : World) (blk : Block) (o : Out) (rest : List Out) :
    dispatch ext (fuel + 1) w blk (o :: rest) =
      (dispatch ext (fuel + 1) w blk [o] >>= fun w1 => dispatch ext fuel w1 blk rest) := by
  simp only [dispatch, dispatch_nil, bind_assoc]
  congr 1

/-- A dispatch list that contains a call back into `Execute` of a proposal already stored Executed fails as a
whole (`ReplyOn::Never`: the failure of the nested call fails everything). -/
theorem dispatch_fails_of_selfExecute (ext : Ext) (blk : Block) (id : Nat) : ∀ (fuel : Nat) (w : World) (outs : List Out),
    Inv w.flex → isExec w.flex.core id = true → Out.msg (.selfExecute id) ∈ outs →
    (dispatch ext fuel w blk outs).isOk = false
  | 0, w, [], _, _, hm => by simp at hm
  | 0, w, _ :: _, _, _, _ => by simp [dispatch, Res.isOk]
  | fuel + 1, w, [], _, _, hm => by simp at hm
  | fuel + 1, w, o :: rest, hi, hx, hm => by
    rw [dispatch_cons]
    by_cases ho : o = Out.msg (.selfExecute id)
    · subst ho
      have hfail : (Cw3Flex.execute w.flex w.group w.self blk w.self [] (.execute id)).isOk = false := by
        unfold isExec at hx
        cases hp : w.flex.core.proposals.get? id with
        | none => simp [hp] at hx
        | some p => simp only [hp, decide_eq_true_eq] at hx; exact execute_twice_fails hp hx
      cases he : Cw3Flex.execute w.flex w.group w.self blk w.self [] (.execute id) with
      | ok r => rw [he] at hfail; cases hfail
      | error e => simp [dispatch, selfCall, he, bind, Except.bind, Res.isOk]
    · have hm' : Out.msg (.selfExecute id) ∈ rest := by
        rcases List.mem_cons.mp hm with h | h
        · exact absurd h.symm ho
        · exact h
      cases hd : dispatch ext (fuel + 1) w blk [o] with
      | error e => simp [bind, Except.bind, Res.isOk]
      | ok w1 =>
        obtain ⟨hi1, hx1⟩ := dispatch_keeps_executed hi hx hd
        simpa [bind, Except.bind] using dispatch_fails_of_selfExecute ext blk id fuel w1 rest hi1 hx1 hm'

/-- **Re-entrancy.**  A proposal among whose messages is a call back into `Execute` of the very same proposal can
never be executed: the handler marks it Executed *before* its messages are dispatched, the nested call is
refused, the whole transaction fails and is rolled back — the world is unchanged (the proposal stays Passed). -/
theorem reentrant_execute_fails {ext : Ext} {fuel : Nat} {w : World} {blk : Block} {snd : Addr} {funds : List Coin} {id : Nat}
    {p : Proposal} (hi : Inv w.flex) (hp : w.flex.core.proposals.get? id = some p) (hm : Msg.selfExecute id ∈ p.msgs) :
    step ext fuel w ⟨blk, .flex snd funds (.execute id)⟩ = w := by
  cases htx : tx ext fuel w blk (.flex snd funds (.execute id)) with
  | error e => exact tx_atomic (op := ⟨blk, .flex snd funds (.execute id)⟩) htx
  | ok w' =>
    exfalso
    simp only [tx, Res.bind_ok] at htx
    obtain ⟨b, _, ⟨s', out⟩, he, hd⟩ := htx
    obtain ⟨p1, hp1, hout⟩ := execute_out he
    rw [hp] at hp1; cases hp1
    obtain ⟨p2, hp2, hs', _⟩ := execute_sets_executed he
    have hx : isExec s'.core id = true := by simp [isExec, hs']
    have hmem : Out.msg (.selfExecute id) ∈ out := by
      rw [hout]; exact List.mem_append_right _ (List.mem_map_of_mem hm)
    have := dispatch_fails_of_selfExecute ext blk id fuel
      { w with bank := b, flex := s', log := w.log ++ [eventOf w.flex snd (.execute id)] } out (execute_inv hi he) hx hmem
    rw [hd] at this; cases this

/-! ## parity with cw3-fixed: executions = 1 iff Executed, ids `1..count`, counter monotone, created as proposed -/

theorem eventOf_executed (s : State) (snd : Addr) (m : ExecMsg) (id : Nat) :
    eventOf s snd m = .executed id ↔ m = .execute id := by
  cases m <;> simp [eventOf]

/-- A handler call makes `id` Executed exactly when it is a successful Execute of `id`, and that requires `id` not to
be Executed before. -/
theorem handler_isExec {s s' : State} {g : Cw4Group.State} {self : Addr} {blk : Block} {snd : Addr} {funds : List Coin}
    {m : ExecMsg} {out : List Out} (hi : Inv s) (h : Cw3Flex.execute s g self blk snd funds m = .ok (s', out)) (id : Nat) :
    isExec s'.core id = (isExec s.core id || decide (m = .execute id)) ∧
    (m = .execute id → isExec s.core id = false) := by
  obtain ⟨_, hc⟩ := execute_cases h
  rcases hc with ⟨t, d, msgs, latest, w, total, id0, hm, _, _, _, _, hp⟩ | ⟨id0, v, hm, _, hv⟩ |
    ⟨id0, p1, msgs, hm, _, he, _⟩ | ⟨id0, p1, hm, _, hcl, _⟩ | ⟨hm, _, rfl, _⟩
  · obtain ⟨expires, st, _, hst, hid, _, hc'⟩ := propose_spec hp
    have hnone : s.core.proposals.get? id0 = none := hi.wf.fresh (by omega)
    have hst' : st ≠ .executed := fun e => by have := (cs_edge hst).2 e; simp [Proposal.tally] at this
    subst hm
    by_cases e : id0 = id
    · subst e; simp [isExec, hc', hnone, hst']
    · simp [isExec, hc', AMap.get?_set_ne _ _ _ _ e]
  · obtain ⟨p, w, votes, st, hp, hvot, _, _, _, _, _, hst, hc'⟩ := vote_spec hv
    have hne : p.status ≠ .executed := by intro e; simp [e, votable] at hvot
    have hst' : st ≠ .executed := fun e => by have := (cs_edge hst).2 e; simp [Proposal.tally] at this; exact hne this
    subst hm
    by_cases e : id0 = id
    · subst e; simp [isExec, hc', hp, hst', hne]
    · simp [isExec, hc', AMap.get?_set_ne _ _ _ _ e]
  · obtain ⟨p, hp, hst, _, _, hc'⟩ := execute_spec he
    have hne : p.status ≠ .executed := by
      intro e
      have : p.currentStatus blk = .ok p.status := cs_of_ne_open (t := p.tally) (by simp [Proposal.tally, e])
      rw [this, e] at hst; cases hst
    subst hm
    by_cases e : id0 = id
    · subst e; simp [isExec, hc', hp, hne]
    · have : ¬ id = id0 := fun e' => e e'.symm
      simp [isExec, hc', AMap.get?_set_ne _ _ _ _ e, this, e]
  · obtain ⟨p, _, hp, hne, _, _, _, _, _, hc'⟩ := close_spec hcl
    subst hm
    by_cases e : id0 = id
    · subst e; simp [isExec, hc', hp, hne]
    · simp [isExec, hc', AMap.get?_set_ne _ _ _ _ e]
  · subst hm; simp

/-- The ghost count of executions of `id` is 1 if `id` is stored Executed and 0 otherwise. -/
def ExecGhost (w : World) : Prop := Inv w.flex ∧ ∀ id, executions w id = if isExec w.flex.core id then 1 else 0

theorem execGhost_step (ext : Ext) (fuel : Nat) (w : World) (op : Op) (hq : ExecGhost w) : ExecGhost (step ext fuel w op) := by
  refine step_inv ext ExecGhost ?_ ?_ (fun w b h => h) (fun w t h => h) fuel w op hq
  · intro blk w snd funds em s' out ⟨hi, hg⟩ he
    refine ⟨execute_inv hi he, ?_⟩
    intro id
    obtain ⟨h1, h2⟩ := handler_isExec hi he id
    have hcount : executions { w with flex := s', log := w.log ++ [eventOf w.flex snd em] } id =
        executions w id + (if em = .execute id then 1 else 0) := by
      simp only [executions, List.count_append, List.count_cons, List.count_nil]
      by_cases e : em = .execute id
      · simp [e, eventOf]
      · have : ¬ (eventOf w.flex snd em = .executed id) := fun h => e ((eventOf_executed _ _ _ _).mp h)
        simp [e, this]
    rw [hcount, hg id]
    simp only [h1]
    by_cases e : em = .execute id
    · simp [e, h2 e]
    · simp [e]
  · intro blk w snd m g' outs ⟨hi, hg⟩ _
    refine ⟨hi, fun id => ?_⟩
    rw [← hg id]
    simp [executions, List.count_append]

theorem reachable_execGhost {ext : Ext} {fuel : Nat} {w : World} (hr : Reachable ext fuel w) : ExecGhost w := by
  obtain ⟨m, s, g, t, bank, self, ga, ta, h0, ops, hi, rfl⟩ := hr
  refine run_inv ext ExecGhost fuel (execGhost_step ext fuel) ops _ ⟨instantiate_inv hi, fun id => ?_⟩
  simp [executions, World.init, isExec, instantiate_core hi, Core.empty]

/-- **At most once, and exactly once iff stored Executed** (parity with `C05.executions_le_one`): over every history
— nested self-calls, group updates and hooks dispatched by proposals, rolled-back transactions — the number of
committed successful Execute handler calls of a proposal is 1 exactly when it is stored Executed, and 0 otherwise. -/
theorem executions_one_iff_executed {ext : Ext} {fuel : Nat} {w : World} (hr : Reachable ext fuel w) (id : Nat) :
    executions w id ≤ 1 ∧ (executions w id = 1 ↔ isExec w.flex.core id = true) := by
  have := (reachable_execGhost hr).2 id
  rw [this]
  cases isExec w.flex.core id <;> simp

/-- **Ids are exactly `1 … count`** in every reachable world (parity with `C05.ids_are_one_to_count`). -/
theorem ids_are_one_to_count {ext : Ext} {fuel : Nat} {w : World} (hr : Reachable ext fuel w) (id : Nat) :
    (w.flex.core.proposals.get? id).isSome = true ↔ (1 ≤ id ∧ id ≤ w.flex.core.count) :=
  (reachable_inv hr).wf.ids id

/-- **The proposal counter never decreases** over a history (parity with `C05.count_monotone`). -/
theorem count_monotone {ext : Ext} {fuel : Nat} {w : World} (hr : Reachable ext fuel w) (ops : List Op) :
    w.flex.core.count ≤ (run ext fuel w ops).flex.core.count :=
  (run_later hr ops).count

/-- A successful Propose touches no other proposal slot (the frame conjunct of `C05.ids_fresh_increasing`). -/
theorem propose_frame {s s' : State} {g : Cw4Group.State} {self : Addr} {blk : Block} {snd : Addr} {funds : List Coin}
    {t d : String} {msgs : List Msg} {latest : Option Expiration} {out : List Out}
    (h : Cw3Flex.execute s g self blk snd funds (.propose t d msgs latest) = .ok (s', out)) :
    ∀ id, id ≠ s.core.count + 1 → s'.core.proposals.get? id = s.core.proposals.get? id := by
  obtain ⟨_, hc⟩ := execute_cases h
  rcases hc with ⟨_, _, _, _, w, total, id, hm, _, _, _, _, hp⟩ | ⟨_, _, hm, _⟩ | ⟨_, _, _, hm, _⟩ | ⟨_, _, hm, _⟩ | ⟨hm, _⟩ <;> cases hm
  obtain ⟨expires, st, _, _, hid, _, hc'⟩ := propose_spec hp
  subst hid
  intro id hne; rw [hc']; simp [AMap.get?_set_ne _ _ _ _ (Ne.symm hne)]

/-- **"Exactly as proposed", creation link** (parity with the full `C05.expiry_le_max`).  A successful Propose at block
`blk` creates proposal `count + 1` that starts at `blk.height`, carries exactly the submitted title, description and
messages, the sender as proposer, the CONFIGURED threshold and deposit, the group's CURRENT total as `total_weight`,
the proposer's current group weight as its first (Yes) ballot, and an expiry comparable with and not later than
`max_voting_period.after(blk)` — exactly that maximum when `latest` is absent.  By `proposal_immutable` all of these
stay fixed for ever; by `execute_out` the messages Execute returns are these `msgs`. -/
theorem proposal_created_as_proposed {s s' : State} {g : Cw4Group.State} {self : Addr} {blk : Block} {snd : Addr}
    {funds : List Coin} {t d : String} {msgs : List Msg} {latest : Option Expiration} {out : List Out}
    (h : Cw3Flex.execute s g self blk snd funds (.propose t d msgs latest) = .ok (s', out)) :
    ∃ p, s'.core.proposals.get? (s.core.count + 1) = some p ∧
      (p.expires.cmp? (s.cfg.maxVotingPeriod.after blk) = some .lt ∨
       p.expires.cmp? (s.cfg.maxVotingPeriod.after blk) = some .eq) ∧
      (latest = none → p.expires = s.cfg.maxVotingPeriod.after blk) ∧
      p.startHeight = blk.height ∧ p.title = t ∧ p.description = d ∧ p.msgs = msgs ∧ p.proposer = snd ∧
      p.threshold = s.cfg.threshold ∧ p.deposit = s.cfg.deposit ∧ g.total.cur = some p.totalWeight ∧
      ∃ w, memberNow g snd = some w ∧ p.votes = Votes.ofYes w ∧
        (ballotsOf s'.core (s.core.count + 1)).get? snd = some ⟨w, .yes⟩ := by
  obtain ⟨_, hc⟩ := execute_cases h
  rcases hc with ⟨_, _, _, _, w, total, id, hm, hw, htot, _, _, hp⟩ | ⟨_, _, hm, _⟩ | ⟨_, _, _, hm, _⟩ | ⟨_, _, hm, _⟩ | ⟨hm, _⟩ <;> cases hm
  obtain ⟨expires, st, hexp, _, hid, _, hc'⟩ := propose_spec hp
  subst hid
  refine ⟨_, by rw [hc']; exact AMap.get?_set_eq _ _ _, chooseExpiry_le hexp, ?_, rfl, rfl, rfl, rfl, rfl, rfl, rfl, htot,
    w, hw, rfl, by rw [hc', ballotsOf_set]; simp⟩
  intro hl; subst hl
  simp only [chooseExpiry, Option.getD_none] at hexp
  cases hm : s.cfg.maxVotingPeriod.after blk <;> simp [hm, Expiration.cmp?] at hexp <;> simp [hexp]

/-- **End to end: what Execute returns is what was proposed.**  If proposal `count + 1` was created by
`Propose { msgs }` in state `s0` of a reachable world and the world later reaches `w`, every successful Execute of it
in `w` returns (after the deposit refund) exactly those `msgs`, in order. -/
theorem executed_msgs_are_proposed {ext : Ext} {fuel : Nat} {w0 : World} (hr : Reachable ext fuel w0) (ops : List Op)
    {id : Nat} {p0 : Proposal} (hp0 : w0.flex.core.proposals.get? id = some p0)
    {g : Cw4Group.State} {self : Addr} {blk : Block} {snd : Addr} {funds : List Coin} {s' : State} {out : List Out}
    (h : Cw3Flex.execute (run ext fuel w0 ops).flex g self blk snd funds (.execute id) = .ok (s', out)) :
    ∃ p, (run ext fuel w0 ops).flex.core.proposals.get? id = some p ∧
      out = (match p.deposit with | some d => [refundMsg d p.proposer] | none => []) ++ p0.msgs.map Out.msg := by
  obtain ⟨p, hp, hout⟩ := execute_out h
  obtain ⟨p', hp', _, _, hm, _⟩ := proposal_immutable hr ops hp0
  rw [hp] at hp'; cases hp'
  exact ⟨p, hp, by rw [hout, hm]⟩

/-- **General re-entrancy** (covers indirect cycles 1 → 2 → 1, group updates and hooks in between): once a proposal is
stored Executed, whatever is dispatched afterwards adds no further `executed id` event to the ghost log — a nested
Execute of it anywhere fails and with it the whole dispatch; a successful dispatch contains none. -/
theorem dispatch_no_second_execution {ext : Ext} {fuel : Nat} {w w' : World} {blk : Block} {outs : List Out} {id : Nat}
    (hi : Inv w.flex) (hx : isExec w.flex.core id = true) (h : dispatch ext fuel w blk outs = .ok w') :
    w'.log.count (.executed id) = w.log.count (.executed id) ∧ isExec w'.flex.core id = true := by
  have := dispatch_inv ext
    (fun v => Inv v.flex ∧ isExec v.flex.core id = true ∧ v.log.count (.executed id) = w.log.count (.executed id)) blk
    (fun v snd funds em s' out ⟨hi, hx, hc⟩ he => by
      obtain ⟨h1, h2⟩ := handler_isExec hi he id
      refine ⟨execute_inv hi he, by rw [h1, hx]; rfl, ?_⟩
      have hne : eventOf v.flex snd em ≠ .executed id := by
        intro e
        have := h2 ((eventOf_executed _ _ _ _).mp e)
        rw [hx] at this; cases this
      simp only [List.count_append, List.count_cons, List.count_nil]
      simp [hne, hc])
    (fun v snd m g' outs ⟨hi, hx, hc⟩ _ => ⟨hi, hx, by simp [List.count_append, hc]⟩)
    (fun v b hq => hq) (fun v t hq => hq) fuel w outs w' ⟨hi, hx, rfl⟩ h
  exact ⟨this.2.2, this.2.1⟩

/-! ## the observed status only moves forward — over time, and over operations and time -/

/-- On histories whose blocks never go back, a proposal stored Open and not yet expired at the block of
the last transaction is reported Open there: a vote that decides a proposal early stores the decision
at once (`Cw3Core.OpenOk`). -/
theorem reachableAt_openOk {ext : Ext} {fuel : Nat} {w : World} {b : Block} (h : ReachableAt ext fuel w b) :
    Inv w.flex ∧ AllP (fun _ p => OpenOk b p) w.flex.core := by
  refine reachableAt_inv (fun b s => Inv s ∧ AllP (fun _ p => OpenOk b p) s.core) ?_ ?_ ?_ h
  · intro b b2 s hb ⟨hi, ha⟩
    exact ⟨hi, fun id p hp => openOk_mono hb (ha id p hp)⟩
  · intro b s g self snd funds m s' out ⟨hi, ha⟩ he
    exact ⟨execute_inv hi he, allP_step hi.wf (fun _ _ _ hold hs => openOk_step hold hs) ha (execute_coreStep he)⟩
  · intro m g s b hi
    exact ⟨instantiate_inv hi, by rw [instantiate_core hi]; exact allP_empty _⟩

/-- "Observed over time each proposal's status only moves Open to Passed to Executed or Open to Rejected" —
the passage of time (cw3-flex instance of `C05.observed_status_monotone_in_time`): on every history whose
blocks never go back, with the state left untouched, the status reported at a later block is reachable
along the forward edges from the status reported at an earlier block (both at or after the last
transaction); it is constant except at expiry, where Open may turn into Passed or Rejected. -/
theorem observed_status_monotone_in_time {ext : Ext} {fuel : Nat} {w : World} {b b1 b2 : Block}
    (hr : ReachableAt ext fuel w b) (h1 : C04.later b b1) (h2 : C04.later b1 b2) {id : Nat} {p : Proposal}
    (hp : w.flex.core.proposals.get? id = some p) {st1 st2 : Status}
    (hq1 : p.currentStatus b1 = .ok st1) (hq2 : p.currentStatus b2 = .ok st2) : edge st1 st2 = true := by
  obtain ⟨hi, ha⟩ := reachableAt_openOk hr
  exact observed_edge_core hi.wf (openOk_mono h1 (ha id p hp)) (later_refl _) hp hp
    (fun _ _ => ⟨rfl, Or.inl rfl⟩) h2 hq1 hq2

/-- **The observed status only moves forward — ONE statement over operations and time** (cw3-flex
instance of `C05.observed_status_monotone`).  Take ANY reachable world `w0` and query a proposal there at
any block `b1`; let any further history follow (`ReachableFrom`: transactions on the multisig, the group and
the token by anybody, with group updates, hooks, deposits, re-entrant and failing dispatches, at blocks
`≥ b1` that never go back, last transaction at `b`), and query the same proposal again at any block
`b2 ≥ b`.  Whenever both queries answer, the later answer is reachable from the earlier one along the
forward edges only: equal, Open→Passed, Open→Rejected, Open→Executed (through Passed), Passed→Executed.
Never backwards, never Passed→Rejected, never out of Rejected or Executed.  No hypothesis about the group
is needed (it holds also inside the known same-block finding of C06). -/
theorem observed_status_monotone {ext : Ext} {fuel : Nat} {w0 w : World} {b1 b b2 : Block}
    (hr : Reachable ext fuel w0) (hf : ReachableFrom ext fuel w0 b1 w b)
    (h2 : C04.later b b2) {id : Nat} {v1 v2 : ProposalView}
    (hq1 : Cw3Flex.queryProposal w0.flex b1 id = .ok v1) (hq2 : Cw3Flex.queryProposal w.flex b2 id = .ok v2) :
    v1.status = v2.status ∨
      (v1.status = .open ∧ (v2.status = .passed ∨ v2.status = .rejected ∨ v2.status = .executed)) ∨
      (v1.status = .passed ∧ v2.status = .executed) := by
  obtain ⟨p0, hp0, hs1⟩ := queryProposal_ok hq1
  obtain ⟨p, hp, hs2⟩ := queryProposal_ok hq2
  have hi0 := reachable_inv hr
  have hopen : OpenOk b1 p0 := reachable_openOk hr id p0 hp0 b1
  have hinv := reachableFrom_inv
    (fun b s => C04.later b1 b ∧ Inv s ∧ Later w0.flex.core s.core ∧
      (p0.status = .open → p0.expires.isExpired b1 = true → FrozenAt p0 v1.status id s.core))
    (fun b b2 s hb ⟨h1, h2, h3, h4⟩ => ⟨later_trans_blk h1 hb, h2, h3, h4⟩)
    (fun b s g self snd funds m s' out ⟨h1, h2, h3, h4⟩ he =>
      ⟨h1, execute_inv h2 he, later_trans h3 (execute_later h2 he),
        fun ho hexp => frozenAt_step ho hexp hs1 h1 (h4 ho hexp) (execute_coreStep he)⟩)
    (w0 := w0) (b1 := b1)
    ⟨later_refl_blk _, hi0, later_refl _, fun _ _ => ⟨hi0.wf, p0, hp0, rfl, Or.inl rfl⟩⟩ hf
  obtain ⟨_, hi, hlater, hfz⟩ := hinv
  refine (edge_iff_cases _ _).mp (observed_edge_core hi.wf hopen hlater hp0 hp ?_ (later_trans_blk hf.le h2) hs1 hs2)
  intro ho hexp
  obtain ⟨_, p', hp', hfo⟩ := hfz ho hexp
  rw [hp] at hp'; cases hp'
  exact hfo

/-- **Every `Proposal` query of an existing proposal answers, at every block** — in every reachable world, for every
proposal whose four tally counters together fit `u64` (`Proposal.Fits`; always the case outside the same-block finding
D3, `C06Flex.flex_tally_le_total`).  Parity with `C05.query_always_answers`; the proviso cannot be dropped for
cw3-flex because the recorded total need not bound the tally (D3). -/
theorem query_always_answers {ext : Ext} {fuel : Nat} {w : World} (hr : Reachable ext fuel w) {id : Nat} {p : Proposal}
    (hp : w.flex.core.proposals.get? id = some p) (hfit : p.Fits) (blk : Block) :
    ∃ v, Cw3Flex.queryProposal w.flex blk id = .ok v := by
  obtain ⟨st, hst⟩ := reachable_statusInv hr id p hp hfit blk
  simp [Cw3Flex.queryProposal, Cw3Core.queryProposal, load, hp, viewOf, hst, bind, Except.bind, pure, Except.pure]

/-! ## the converse: everything the runtime ever dispatches for the multisig traces back to a handler call

The ghost log of the flex world records handler calls, not individual bank sends or token calls.  To state the converse of
"Execute returns the proposal's messages" over whole histories, `dispatchT` is `Cw3Flex.dispatch` instrumented with the
list of *leaf* messages it performed for the multisig (bank sends, cw20 `Transfer`/`TransferFrom`, group updates — not the
nested calls back into the multisig, whose own leaves are collected in place, and not the group's hook messages);
`dispatchT_ok_iff` proves it computes exactly the world `dispatch` computes, `runT_world` the same for histories. -/

/-- A returned message that is performed as such (not a call back into the multisig, not a hook sent by the group). -/
def isLeafOut : Out → Bool
  | .msg m => (selfCall m).isNone
  | .bank .. => true
  | .cw20Transfer .. => true
  | .cw20TransferFrom .. => true
  | .groupHook _ => false

/-- `Cw3Flex.dispatch`, also returning the leaf messages performed, in the order performed. -/
def dispatchT (ext : Ext) : Nat → World → Block → List Out → Res (World × List Out)
  | _, w, _, [] => .ok (w, [])
  | 0, _, _, _ :: _ => .error "fuel"
  | fuel + 1, w, blk, o :: rest => do
    let (w1, t1) ← (match o with
      | .msg m =>
        match selfCall m with
        | some em => do
          let (s', out) ← execute w.flex w.group w.self blk w.self [] em
          dispatchT ext fuel { w with flex := s', log := w.log ++ [eventOf w.flex w.self em] } blk out
        | none =>
          match m with
          | .bank to amt denom => do
            let b ← Cw3Fixed.bankSend w.bank w.self to amt denom
            pure ({ w with bank := b }, [o])
          | .other tag =>
            match ext tag with
            | some (add, remove) => do
              let (g', outs) ← Cw4Group.execute w.group blk.height w.self
                (.updateMembers (remove.map fun a => ⟨true, a⟩) (add.map fun p => (⟨true, p.1⟩, p.2)))
              let (w2, t2) ← dispatchT ext fuel { w with group := g', log := w.log ++ [.groupWrite blk.height] } blk
                (outs.map fun o => Out.groupHook o.hook)
              pure (w2, o :: t2)
            | none => .error "no_contract"
          | _ => .error "no_contract"
      | .bank to amt denom => do
        let b ← Cw3Fixed.bankSend w.bank w.self to amt denom
        pure ({ w with bank := b }, [o])
      | .cw20Transfer token to amt => do
        let w' ← tokenCall w blk token (.transfer ⟨true, to⟩ amt)
        pure (w', [o])
      | .cw20TransferFrom token owner to amt => do
        let w' ← tokenCall w blk token (.transferFrom ⟨true, owner⟩ ⟨true, to⟩ amt)
        pure (w', [o])
      | .groupHook hook =>
        if hook = w.self then do
          let (s', out) ← execute w.flex w.group w.self blk w.groupAddr [] .memberChangedHook
          dispatchT ext fuel { w with flex := s', log := w.log ++ [.hook] } blk out
        else .error "no_contract" : Res (World × List Out))
    let (w2, t2) ← dispatchT ext fuel w1 blk rest
    pure (w2, t1 ++ t2)

/-- **`dispatchT` is `dispatch`**: it succeeds exactly when `dispatch` does, with the same resulting world. -/
theorem dispatchT_ok_iff (ext : Ext) (blk : Block) :
    ∀ fuel w outs w', (∃ t, dispatchT ext fuel w blk outs = .ok (w', t)) ↔ dispatch ext fuel w blk outs = .ok w' := by
  intro fuel
  induction fuel with
  | zero =>
    intro w outs w'
    cases outs with
    | nil => simp [dispatchT, dispatch]
    | cons o rest => simp [dispatchT, dispatch]
  | succ fuel ih =>
    intro w outs w'
    cases outs with
    | nil => simp [dispatchT, dispatch]
    | cons o rest =>
      simp only [dispatchT, dispatch, Res.bind_ok, Prod.exists]
      -- the first message
      have first : ∀ w1, (∃ t1,
          (match o with
            | .msg m =>
              match selfCall m with
              | some em => do
                let (s', out) ← execute w.flex w.group w.self blk w.self [] em
                dispatchT ext fuel { w with flex := s', log := w.log ++ [eventOf w.flex w.self em] } blk out
              | none =>
                match m with
                | .bank to amt denom => do
                  let b ← Cw3Fixed.bankSend w.bank w.self to amt denom
                  pure ({ w with bank := b }, [o])
                | .other tag =>
                  match ext tag with
                  | some (add, remove) => do
                    let (g', outs) ← Cw4Group.execute w.group blk.height w.self
                      (.updateMembers (remove.map fun a => ⟨true, a⟩) (add.map fun p => (⟨true, p.1⟩, p.2)))
                    let (w2, t2) ← dispatchT ext fuel { w with group := g', log := w.log ++ [.groupWrite blk.height] } blk
                      (outs.map fun o => Out.groupHook o.hook)
                    pure (w2, o :: t2)
                  | none => .error "no_contract"
                | _ => .error "no_contract"
            | .bank to amt denom => do
              let b ← Cw3Fixed.bankSend w.bank w.self to amt denom
              pure ({ w with bank := b }, [o])
            | .cw20Transfer token to amt => do
              let w' ← tokenCall w blk token (.transfer ⟨true, to⟩ amt)
              pure (w', [o])
            | .cw20TransferFrom token owner to amt => do
              let w' ← tokenCall w blk token (.transferFrom ⟨true, owner⟩ ⟨true, to⟩ amt)
              pure (w', [o])
            | .groupHook hook =>
              if hook = w.self then do
                let (s', out) ← execute w.flex w.group w.self blk w.groupAddr [] .memberChangedHook
                dispatchT ext fuel { w with flex := s', log := w.log ++ [.hook] } blk out
              else .error "no_contract" : Res (World × List Out)) = .ok (w1, t1)) ↔
          (match o with
            | .msg m =>
              match selfCall m with
              | some em => do
                let (s', out) ← execute w.flex w.group w.self blk w.self [] em
                dispatch ext fuel { w with flex := s', log := w.log ++ [eventOf w.flex w.self em] } blk out
              | none =>
                match m with
                | .bank to amt denom => do
                  let b ← Cw3Fixed.bankSend w.bank w.self to amt denom
                  pure { w with bank := b }
                | .other tag =>
                  match ext tag with
                  | some (add, remove) => do
                    let (g', outs) ← Cw4Group.execute w.group blk.height w.self
                      (.updateMembers (remove.map fun a => ⟨true, a⟩) (add.map fun p => (⟨true, p.1⟩, p.2)))
                    dispatch ext fuel { w with group := g', log := w.log ++ [.groupWrite blk.height] } blk
                      (outs.map fun o => Out.groupHook o.hook)
                  | none => .error "no_contract"
                | _ => .error "no_contract"
            | .bank to amt denom => do
              let b ← Cw3Fixed.bankSend w.bank w.self to amt denom
              pure { w with bank := b }
            | .cw20Transfer token to amt => tokenCall w blk token (.transfer ⟨true, to⟩ amt)
            | .cw20TransferFrom token owner to amt => tokenCall w blk token (.transferFrom ⟨true, owner⟩ ⟨true, to⟩ amt)
            | .groupHook hook =>
              if hook = w.self then do
                let (s', out) ← execute w.flex w.group w.self blk w.groupAddr [] .memberChangedHook
                dispatch ext fuel { w with flex := s', log := w.log ++ [.hook] } blk out
              else .error "no_contract" : Res World) = .ok w1 := by
        intro w1
        cases o with
        | msg m =>
          simp only
          cases hs : selfCall m with
          | some em =>
            simp only [Res.bind_ok, Prod.exists]
            constructor
            · rintro ⟨t1, s', out, he, hd⟩
              exact ⟨s', out, he, (ih _ out w1).mp ⟨t1, hd⟩⟩
            · rintro ⟨s', out, he, hd⟩
              obtain ⟨t1, hd'⟩ := (ih _ out w1).mpr hd
              exact ⟨t1, s', out, he, hd'⟩
          | none =>
            cases m with
            | bank to amt denom =>
              simp
              exact ⟨fun ⟨_, a, h1, h2, _⟩ => ⟨a, h1, h2⟩, fun ⟨a, h1, h2⟩ => ⟨_, a, h1, h2, rfl⟩⟩
            | other tag =>
              simp only
              cases hx : ext tag with
              | none => simp
              | some ar =>
                obtain ⟨add, remove⟩ := ar
                simp only [Res.bind_ok, Prod.exists, Res.pure_ok, Prod.mk.injEq]
                constructor
                · rintro ⟨t1, g', outs, hg, w2, t2, hd, rfl, _⟩
                  exact ⟨g', outs, hg, (ih _ _ w2).mp ⟨t2, hd⟩⟩
                · rintro ⟨g', outs, hg, hd⟩
                  obtain ⟨t2, hd'⟩ := (ih _ _ w1).mpr hd
                  exact ⟨_, g', outs, hg, w1, t2, hd', rfl, rfl⟩
            | selfExecute id => simp [selfCall] at hs
            | selfClose id => simp [selfCall] at hs
            | selfVote id v => simp [selfCall] at hs
            | selfPropose l => simp [selfCall] at hs
            | noContract tag => simp
        | bank to amt denom =>
          simp
          exact ⟨fun ⟨_, a, h1, h2, _⟩ => ⟨a, h1, h2⟩, fun ⟨a, h1, h2⟩ => ⟨_, a, h1, h2, rfl⟩⟩
        | cw20Transfer token to amt =>
          simp
          exact ⟨fun ⟨_, a, h1, h2, _⟩ => h2 ▸ h1, fun h => ⟨_, w1, h, rfl, rfl⟩⟩
        | cw20TransferFrom token owner to amt =>
          simp
          exact ⟨fun ⟨_, a, h1, h2, _⟩ => h2 ▸ h1, fun h => ⟨_, w1, h, rfl, rfl⟩⟩
        | groupHook hook =>
          simp only
          split
          · simp only [Res.bind_ok, Prod.exists]
            constructor
            · rintro ⟨t1, s', out, he, hd⟩
              exact ⟨s', out, he, (ih _ out w1).mp ⟨t1, hd⟩⟩
            · rintro ⟨s', out, he, hd⟩
              obtain ⟨t1, hd'⟩ := (ih _ out w1).mpr hd
              exact ⟨t1, s', out, he, hd'⟩
          · simp
      constructor
      · rintro ⟨t, w1, t1, h1, w2, t2, h2, hp⟩
        simp at hp
        obtain ⟨rfl, _⟩ := hp
        exact ⟨w1, (first w1).mp ⟨t1, h1⟩, (ih w1 rest w2).mp ⟨t2, h2⟩⟩
      · rintro ⟨w1, h1, h2⟩
        obtain ⟨t1, h1'⟩ := (first w1).mpr h1
        obtain ⟨t2, h2'⟩ := (ih w1 rest w').mpr h2
        exact ⟨t1 ++ t2, w1, t1, h1', w', t2, h2', by simp⟩

/-- `Cw3Flex.tx`, also returning the leaf messages performed for the multisig. -/
def txT (ext : Ext) (fuel : Nat) (w : World) (blk : Block) : Action → Res (World × List Out)
  | .flex snd funds m => do
    let b ← moveFunds w.bank snd w.self funds
    let (s', out) ← execute w.flex w.group w.self blk snd funds m
    dispatchT ext fuel { w with bank := b, flex := s', log := w.log ++ [eventOf w.flex snd m] } blk out
  | .group snd m => do
    let (g', outs) ← Cw4Group.execute w.group blk.height snd m
    dispatchT ext fuel { w with group := g', log := w.log ++ [.groupWrite blk.height] } blk
      (outs.map fun o => Out.groupHook o.hook)
  | .token snd m => do
    let (t, out) ← Cw20.execute w.token blk snd m
    check out.isEmpty "unsupported"
    pure ({ w with token := t }, [])

theorem txT_ok_iff (ext : Ext) (fuel : Nat) (w w' : World) (blk : Block) (act : Action) :
    (∃ t, txT ext fuel w blk act = .ok (w', t)) ↔ tx ext fuel w blk act = .ok w' := by
  cases act with
  | flex snd funds m =>
    simp only [txT, tx, Res.bind_ok, Prod.exists]
    constructor
    · rintro ⟨t, b, hb, s', out, he, hd⟩
      exact ⟨b, hb, s', out, he, (dispatchT_ok_iff ext blk fuel _ out w').mp ⟨t, hd⟩⟩
    · rintro ⟨b, hb, s', out, he, hd⟩
      obtain ⟨t, hd'⟩ := (dispatchT_ok_iff ext blk fuel _ out w').mpr hd
      exact ⟨t, b, hb, s', out, he, hd'⟩
  | group snd m =>
    simp only [txT, tx, Res.bind_ok, Prod.exists]
    constructor
    · rintro ⟨t, g', outs, hg, hd⟩
      exact ⟨g', outs, hg, (dispatchT_ok_iff ext blk fuel _ _ w').mp ⟨t, hd⟩⟩
    · rintro ⟨g', outs, hg, hd⟩
      obtain ⟨t, hd'⟩ := (dispatchT_ok_iff ext blk fuel _ _ w').mpr hd
      exact ⟨t, g', outs, hg, hd'⟩
  | token snd m =>
    simp [txT, tx]
    exact ⟨fun ⟨_, a, b, h1, h2, h3, _⟩ => ⟨a, b, h1, h2, h3⟩, fun ⟨a, b, h1, h2, h3⟩ => ⟨_, a, b, h1, h2, h3, rfl⟩⟩

/-- One step of a history, accumulating the leaf messages of the committed transactions. -/
def stepT (ext : Ext) (fuel : Nat) (wt : World × List Out) (op : Op) : World × List Out :=
  match txT ext fuel wt.1 op.blk op.act with
  | .ok (w', t) => (w', wt.2 ++ t)
  | .error _ => wt

/-- A history, with the leaf messages ever performed for the multisig in committed transactions, in order. -/
def runT (ext : Ext) (fuel : Nat) (wt : World × List Out) (ops : List Op) : World × List Out := ops.foldl (stepT ext fuel) wt

theorem stepT_world (ext : Ext) (fuel : Nat) (wt : World × List Out) (op : Op) :
    (stepT ext fuel wt op).1 = step ext fuel wt.1 op := by
  unfold stepT step
  cases h : txT ext fuel wt.1 op.blk op.act with
  | ok r =>
    obtain ⟨w', t⟩ := r
    rw [(txT_ok_iff ext fuel wt.1 w' op.blk op.act).mp ⟨t, h⟩]
  | error e =>
    cases h' : tx ext fuel wt.1 op.blk op.act with
    | error e' => rfl
    | ok w' =>
      obtain ⟨t, ht⟩ := (txT_ok_iff ext fuel wt.1 w' op.blk op.act).mpr h'
      rw [h] at ht; cases ht

/-- **`runT` is `run`**: the instrumented history computes exactly the world of the model's `run`. -/
theorem runT_world (ext : Ext) (fuel : Nat) : ∀ (ops : List Op) (wt : World × List Out),
    (runT ext fuel wt ops).1 = run ext fuel wt.1 ops
  | [], _ => rfl
  | op :: rest, wt => by
    show (runT ext fuel (stepT ext fuel wt op) rest).1 = run ext fuel (step ext fuel wt.1 op) rest
    rw [runT_world ext fuel rest, stepT_world]

/-- The stored proposal with status and tally blanked: what never changes (`Later`). -/
def fixedOf (c : Core) (id : Nat) : Option Proposal := (c.proposals.get? id).map Proposal.fixedPart

/-- The leaf messages the handler call recorded by a ghost event returned: an `executed` proposal's deposit refund followed
by its own non-self-call messages; a `closed` proposal's refund when `refund_failed_proposals` is set; the cw20
`TransferFrom` taking the deposit of a `proposed` one.  Votes, hooks and group writes return nothing. -/
def outsOfEvent (c : Core) (self : Addr) : Event → List Out
  | .executed id =>
    match fixedOf c id with
    | some p => (match p.deposit with | some d => [refundMsg d p.proposer] | none => []) ++ (p.msgs.map Out.msg).filter isLeafOut
    | none => []
  | .closed id =>
    match fixedOf c id with
    | some p => (match p.deposit with | some d => if d.refundFailed then [refundMsg d p.proposer] else [] | none => [])
    | none => []
  | .proposed id snd =>
    match fixedOf c id with
    | some p => (match p.deposit with | some d => takeDeposit d snd self | none => [])
    | none => []
  | _ => []

/-- ⨄ over the events of a log, in log order, of what the recorded handler call returned for dispatch (leaf level). -/
def expectedOuts (c : Core) (self : Addr) (log : List Event) : List Out := log.flatMap (outsOfEvent c self)

/-- The proposal id a ghost event refers to. -/
def evId : Event → Option Nat
  | .executed id => some id
  | .closed id => some id
  | .proposed id _ => some id
  | _ => none

/-- `Inv`, and every proposal an `executed` / `closed` / `proposed` event of the log refers to is stored. -/
def LogOk (w : World) : Prop :=
  Inv w.flex ∧ ∀ e ∈ w.log, ∀ id, evId e = some id → (w.flex.core.proposals.get? id).isSome = true

theorem outsOfEvent_congr {c c' : Core} {self : Addr} {e : Event}
    (h : ∀ id, evId e = some id → fixedOf c' id = fixedOf c id) : outsOfEvent c' self e = outsOfEvent c self e := by
  cases e <;> simp only [outsOfEvent] <;> rw [h _ rfl]

theorem expectedOuts_congr {c c' : Core} {self : Addr} : ∀ (l : List Event),
    (∀ e ∈ l, ∀ id, evId e = some id → fixedOf c' id = fixedOf c id) → expectedOuts c' self l = expectedOuts c self l
  | [], _ => rfl
  | e :: r, h => by
    have ih := expectedOuts_congr (self := self) r (fun e he => h e (List.mem_cons_of_mem _ he))
    simp only [expectedOuts, List.flatMap_cons] at ih ⊢
    rw [ih, outsOfEvent_congr (h e (List.mem_cons_self ..))]

theorem fixedOf_later {c c' : Core} (hl : Later c c') {id : Nat} (h : (c.proposals.get? id).isSome = true) :
    fixedOf c' id = fixedOf c id := by
  cases hp : c.proposals.get? id with
  | none => rw [hp] at h; cases h
  | some p =>
    obtain ⟨p', hp', hf, _⟩ := hl.props id p hp
    simp [fixedOf, hp, hp', hf]

theorem refund_isLeaf (d : Deposit) (a : Addr) : isLeafOut (refundMsg d a) = true := by
  unfold refundMsg; split <;> rfl

theorem filter_takeDeposit (d : Deposit) (a self : Addr) : (takeDeposit d a self).filter isLeafOut = takeDeposit d a self := by
  unfold takeDeposit; split <;> simp [isLeafOut]

/-- **One handler call**: it keeps `LogOk`, and the expected leaf messages grow by exactly the leaf messages among what
the call returned. -/
theorem expected_call {w : World} {blk : Block} {snd : Addr} {funds : List Coin} {em : ExecMsg} {s' : State}
    {out : List Out} (hq : LogOk w) (he : execute w.flex w.group w.self blk snd funds em = .ok (s', out)) :
    LogOk { w with flex := s', log := w.log ++ [eventOf w.flex snd em] } ∧
    expectedOuts s'.core w.self (w.log ++ [eventOf w.flex snd em]) =
      expectedOuts w.flex.core w.self w.log ++ out.filter isLeafOut := by
  obtain ⟨hi, hids⟩ := hq
  have hl := execute_later hi he
  have hstored : ∀ id, (w.flex.core.proposals.get? id).isSome = true → (s'.core.proposals.get? id).isSome = true := by
    intro id h
    cases hp : w.flex.core.proposals.get? id with
    | none => rw [hp] at h; cases h
    | some p => obtain ⟨p', hp', _⟩ := hl.props id p hp; simp [hp']
  obtain ⟨hcfg, hc⟩ := execute_cases he
  have hold : expectedOuts s'.core w.self w.log = expectedOuts w.flex.core w.self w.log :=
    expectedOuts_congr w.log (fun e hm id hid => fixedOf_later hl (hids e hm id hid))
  have happ : expectedOuts s'.core w.self (w.log ++ [eventOf w.flex snd em]) =
      expectedOuts w.flex.core w.self w.log ++ outsOfEvent s'.core w.self (eventOf w.flex snd em) := by
    simp only [expectedOuts, List.flatMap_append, List.flatMap_cons, List.flatMap_nil, List.append_nil] at hold ⊢
    rw [hold]
  rw [happ]
  rcases hc with ⟨t, d, msgs, latest, w0, total, id0, hm, _, _, _, hout, hp⟩ | ⟨id0, v, hm, hout, hv⟩ |
    ⟨id0, p, msgs, hm, hpp, hex, hout⟩ | ⟨id0, p, hm, hpp, hcl, hout⟩ | ⟨hm, _, hs, hout⟩
  · subst hm
    obtain ⟨_, _, _, _, hid, _, hc'⟩ := propose_spec hp
    obtain ⟨pn, hnew, hdepn, hpropn⟩ : ∃ pn, s'.core.proposals.get? (w.flex.core.count + 1) = some pn ∧
        pn.deposit = w.flex.cfg.deposit ∧ pn.proposer = snd :=
      ⟨_, by rw [hc', ← hid]; exact AMap.get?_set_eq _ _ _, rfl, rfl⟩
    refine ⟨⟨execute_inv hi he, fun e hm id hid' => ?_⟩, ?_⟩
    · rcases List.mem_append.mp hm with hm | hm
      · exact hstored id (hids e hm id hid')
      · simp at hm; subst hm
        simp [eventOf, evId] at hid'; subst hid'
        rw [hnew]; rfl
    · congr 1
      simp only [eventOf, outsOfEvent, fixedOf, hnew, Option.map_some, Proposal.fixedPart, hdepn]
      subst hout
      cases hd : w.flex.cfg.deposit with
      | none => simp
      | some dep => simp [filter_takeDeposit]
  · subst hm; subst hout
    refine ⟨⟨execute_inv hi he, fun e hm id hid' => ?_⟩, by simp [eventOf, outsOfEvent]⟩
    rcases List.mem_append.mp hm with hm | hm
    · exact hstored id (hids e hm id hid')
    · simp at hm; subst hm; simp [eventOf, evId] at hid'
  · subst hm
    obtain ⟨p0, hp0, _, _, hmsgs, hc'⟩ := execute_spec hex
    rw [hpp] at hp0; cases hp0
    have hnew : s'.core.proposals.get? id0 = some { p with status := .executed } := by rw [hc']; exact AMap.get?_set_eq _ _ _
    refine ⟨⟨execute_inv hi he, fun e hm id hid' => ?_⟩, ?_⟩
    · rcases List.mem_append.mp hm with hm | hm
      · exact hstored id (hids e hm id hid')
      · simp at hm; subst hm
        simp [eventOf, evId] at hid'; subst hid'
        rw [hnew]; rfl
    · congr 1
      simp only [eventOf, outsOfEvent, fixedOf, hnew, Option.map_some, Proposal.fixedPart]
      subst hout hmsgs
      cases hd : p.deposit with
      | none => simp
      | some dep => simp [List.filter_cons, refund_isLeaf]
  · subst hm
    obtain ⟨p0, _, hp0, _, _, _, _, _, _, hc'⟩ := close_spec hcl
    rw [hpp] at hp0; cases hp0
    have hnew : s'.core.proposals.get? id0 = some { p with status := .rejected } := by rw [hc']; exact AMap.get?_set_eq _ _ _
    refine ⟨⟨execute_inv hi he, fun e hm id hid' => ?_⟩, ?_⟩
    · rcases List.mem_append.mp hm with hm | hm
      · exact hstored id (hids e hm id hid')
      · simp at hm; subst hm
        simp [eventOf, evId] at hid'; subst hid'
        rw [hnew]; rfl
    · congr 1
      simp only [eventOf, outsOfEvent, fixedOf, hnew, Option.map_some, Proposal.fixedPart]
      subst hout
      cases hd : p.deposit with
      | none => simp
      | some dep =>
        simp only
        split <;> simp [refund_isLeaf]
  · subst hm; subst hout; subst hs
    refine ⟨⟨hi, fun e hm id hid' => ?_⟩, by simp [eventOf, outsOfEvent]⟩
    rcases List.mem_append.mp hm with hm | hm
    · exact hids e hm id hid'
    · simp at hm; subst hm; simp [eventOf, evId] at hid'

/-- `expectedOuts` of a world. -/
def expectedOf (w : World) : List Out := expectedOuts w.flex.core w.self w.log

/-- **The dispatch induction for the trace.**  Over the instrumented dispatch of any list of returned messages, with all
nested handler calls and group updates: `LogOk` and the multisig's address are kept, and for every message value `x`
"performed here + expected before = leaf messages of the list + expected after". -/
theorem conv_dispatchT (ext : Ext) (blk : Block) :
    ∀ fuel w outs w' t, LogOk w → dispatchT ext fuel w blk outs = .ok (w', t) →
      LogOk w' ∧ w'.self = w.self ∧
      ∀ x, t.count x + (expectedOf w).count x = (outs.filter isLeafOut).count x + (expectedOf w').count x := by
  intro fuel
  induction fuel with
  | zero =>
    intro w outs w' t hq h
    cases outs with
    | nil => simp [dispatchT] at h; obtain ⟨rfl, rfl⟩ := h; exact ⟨hq, rfl, fun x => by simp⟩
    | cons o rest => simp [dispatchT] at h
  | succ fuel ih =>
    intro w outs w' t hq h
    cases outs with
    | nil => simp [dispatchT] at h; obtain ⟨rfl, rfl⟩ := h; exact ⟨hq, rfl, fun x => by simp⟩
    | cons o rest =>
      simp only [dispatchT, Res.bind_ok, Prod.exists, Res.pure_ok, Prod.mk.injEq] at h
      obtain ⟨w1, t1, h1, w2, t2, h2, rfl, rfl⟩ := h
      suffices hstep : LogOk w1 ∧ w1.self = w.self ∧
          ∀ x, t1.count x + (expectedOf w).count x = ([o].filter isLeafOut).count x + (expectedOf w1).count x by
        obtain ⟨hq1, hs1, hc1⟩ := hstep
        obtain ⟨hq2, hs2, hc2⟩ := ih w1 rest w2 t2 hq1 h2
        refine ⟨hq2, hs2.trans hs1, fun x => ?_⟩
        have a := hc1 x
        have b := hc2 x
        rw [List.count_append]
        have : ((o :: rest).filter isLeafOut).count x = ([o].filter isLeafOut).count x + (rest.filter isLeafOut).count x := by
          rw [← List.count_append, ← List.filter_append]; rfl
        omega
      -- a leaf: the world keeps flex, log and self; the trace is the message itself
      have leafStep : ∀ (wl : World), wl.flex = w.flex → wl.log = w.log → wl.self = w.self → isLeafOut o = true → t1 = [o] →
          w1 = wl → LogOk w1 ∧ w1.self = w.self ∧
          ∀ x, t1.count x + (expectedOf w).count x = ([o].filter isLeafOut).count x + (expectedOf w1).count x := by
        intro wl hf hl hs hleaf ht hw
        subst hw ht
        refine ⟨by unfold LogOk; rw [hf, hl]; exact hq, hs, fun x => ?_⟩
        simp [expectedOf, hf, hl, hs, List.filter_cons, hleaf]
      -- a nested handler call followed by the dispatch of what it returned
      have nested : ∀ (snd : Addr) (em : ExecMsg) (s' : State) (out : List Out), isLeafOut o = false →
          execute w.flex w.group w.self blk snd [] em = .ok (s', out) →
          dispatchT ext fuel { w with flex := s', log := w.log ++ [eventOf w.flex snd em] } blk out = .ok (w1, t1) →
          LogOk w1 ∧ w1.self = w.self ∧
          ∀ x, t1.count x + (expectedOf w).count x = ([o].filter isLeafOut).count x + (expectedOf w1).count x := by
        intro snd em s' out hleaf he hd
        obtain ⟨hq2, hexp⟩ := expected_call hq he
        obtain ⟨hq1, hs1, hc1⟩ := ih _ out w1 t1 hq2 hd
        refine ⟨hq1, hs1, fun x => ?_⟩
        have a := hc1 x
        simp only [expectedOf] at a ⊢
        rw [hexp, List.count_append] at a
        simp [List.filter_cons, hleaf]
        omega
      cases o with
      | msg m =>
        simp only at h1
        cases hsc : selfCall m with
        | some em =>
          rw [hsc] at h1
          simp only [Res.bind_ok, Prod.exists] at h1
          obtain ⟨s', out, he, hd⟩ := h1
          exact nested w.self em s' out (by simp [isLeafOut, hsc]) he hd
        | none =>
          rw [hsc] at h1
          cases m with
          | bank to amt denom =>
            simp at h1
            obtain ⟨b, _, rfl, rfl⟩ := h1
            exact leafStep { w with bank := b } rfl rfl rfl (by simp [isLeafOut, hsc]) rfl rfl
          | other tag =>
            simp only at h1
            cases hx : ext tag with
            | none => simp [hx] at h1
            | some ar =>
              obtain ⟨add, remove⟩ := ar
              simp only [hx, Res.bind_ok, Prod.exists, Res.pure_ok, Prod.mk.injEq] at h1
              obtain ⟨g', outs, _, w3, t3, hd, rfl, rfl⟩ := h1
              have hq2 : LogOk { w with group := g', log := w.log ++ [.groupWrite blk.height] } := by
                refine ⟨hq.1, fun e hm id hid => ?_⟩
                rcases List.mem_append.mp hm with hm | hm
                · exact hq.2 e hm id hid
                · simp at hm; subst hm; simp [evId] at hid
              obtain ⟨hq1, hs1, hc1⟩ := ih _ _ w3 t3 hq2 hd
              refine ⟨hq1, hs1, fun x => ?_⟩
              have a := hc1 x
              have hnil : ((outs.map fun o => Out.groupHook o.hook).filter isLeafOut) = [] := by
                apply List.filter_eq_nil_iff.mpr
                intro o ho; simp at ho; obtain ⟨_, _, rfl⟩ := ho; simp [isLeafOut]
              rw [hnil] at a
              simp only [expectedOf, expectedOuts, List.flatMap_append, List.flatMap_cons, List.flatMap_nil, outsOfEvent,
                List.append_nil] at a ⊢
              simp [List.filter_cons, isLeafOut, hsc, List.count_cons] at a ⊢
              omega
          | selfExecute id => simp [selfCall] at hsc
          | selfClose id => simp [selfCall] at hsc
          | selfVote id v => simp [selfCall] at hsc
          | selfPropose l => simp [selfCall] at hsc
          | noContract tag => simp at h1
      | bank to amt denom =>
        simp at h1
        obtain ⟨b, _, rfl, rfl⟩ := h1
        exact leafStep { w with bank := b } rfl rfl rfl rfl rfl rfl
      | cw20Transfer token to amt =>
        simp only [Res.bind_ok, Res.pure_ok, Prod.mk.injEq] at h1
        obtain ⟨wl, hcall, rfl, rfl⟩ := h1
        obtain ⟨tt, rfl⟩ := tokenCall_frame hcall
        exact leafStep { w with token := tt } rfl rfl rfl rfl rfl rfl
      | cw20TransferFrom token owner to amt =>
        simp only [Res.bind_ok, Res.pure_ok, Prod.mk.injEq] at h1
        obtain ⟨wl, hcall, rfl, rfl⟩ := h1
        obtain ⟨tt, rfl⟩ := tokenCall_frame hcall
        exact leafStep { w with token := tt } rfl rfl rfl rfl rfl rfl
      | groupHook hook =>
        simp only at h1
        split at h1
        · simp only [Res.bind_ok, Prod.exists] at h1
          obtain ⟨s', out, he, hd⟩ := h1
          exact nested w.groupAddr .memberChangedHook s' out rfl he hd
        · simp at h1

/-- The invariant of the converse on the instrumented history: `LogOk`, and the trace so far is — as a multiset — what the
handler calls recorded in the log returned. -/
def ConvInv (wt : World × List Out) : Prop :=
  LogOk wt.1 ∧ ∀ x, wt.2.count x = (expectedOf wt.1).count x

theorem conv_stepT (ext : Ext) (fuel : Nat) (wt : World × List Out) (op : Op) (hq : ConvInv wt) :
    ConvInv (stepT ext fuel wt op) := by
  obtain ⟨w, tr⟩ := wt
  obtain ⟨hlog, hcnt⟩ := hq
  unfold stepT
  cases htx : txT ext fuel w op.blk op.act with
  | error e => exact ⟨hlog, hcnt⟩
  | ok r =>
    obtain ⟨w', t⟩ := r
    simp only at hlog hcnt ⊢
    cases hact : op.act with
    | flex snd funds m =>
      rw [hact] at htx
      simp only [txT, Res.bind_ok, Prod.exists] at htx
      obtain ⟨b, _, s', out, he, hd⟩ := htx
      have hlb : LogOk { w with bank := b } := hlog
      obtain ⟨hq2, hexp⟩ := expected_call (w := { w with bank := b }) hlb he
      obtain ⟨hq', _, hc'⟩ := conv_dispatchT ext op.blk fuel _ out w' t hq2 hd
      refine ⟨hq', fun x => ?_⟩
      have a := hc' x
      simp only [expectedOf] at a hcnt ⊢
      have hb := hcnt x
      simp only at hexp
      rw [hexp, List.count_append] at a
      rw [List.count_append]
      omega
    | group snd m =>
      rw [hact] at htx
      simp only [txT, Res.bind_ok, Prod.exists] at htx
      obtain ⟨g', outs, _, hd⟩ := htx
      have hq2 : LogOk { w with group := g', log := w.log ++ [.groupWrite op.blk.height] } := by
        refine ⟨hlog.1, fun e hm id hid => ?_⟩
        rcases List.mem_append.mp hm with hm | hm
        · exact hlog.2 e hm id hid
        · simp at hm; subst hm; simp [evId] at hid
      obtain ⟨hq', _, hc'⟩ := conv_dispatchT ext op.blk fuel _ _ w' t hq2 hd
      refine ⟨hq', fun x => ?_⟩
      have a := hc' x
      have hnil : ((outs.map fun o => Out.groupHook o.hook).filter isLeafOut) = [] := by
        apply List.filter_eq_nil_iff.mpr
        intro o ho; simp at ho; obtain ⟨_, _, rfl⟩ := ho; simp [isLeafOut]
      rw [hnil] at a
      have hb := hcnt x
      simp only [expectedOf, expectedOuts, List.flatMap_append, List.flatMap_cons, List.flatMap_nil, outsOfEvent,
        List.append_nil] at a hb ⊢
      rw [List.count_append]
      simp at a
      omega
    | token snd m =>
      rw [hact] at htx
      simp [txT] at htx
      obtain ⟨tk, out, _, _, rfl, rfl⟩ := htx
      exact ⟨hlog, fun x => by simpa [expectedOf] using hcnt x⟩

theorem conv_runT (ext : Ext) (fuel : Nat) : ∀ (ops : List Op) (wt : World × List Out), ConvInv wt →
    ConvInv (runT ext fuel wt ops)
  | [], _, h => h
  | op :: rest, wt, h => conv_runT ext fuel rest _ (conv_stepT ext fuel wt op h)

/-- **C05 converse for cw3-flex, over every history: `dispatched_only_by_execute_run`.**  Start from any accepted
instantiation, on any group, token, bank; run ANY history (transactions by anybody on the multisig, the group, the token;
nested self-calls, group updates and hooks; failing transactions rolled back).  `runT` computes the same world as the
model's `run` (second conjunct) together with the list of leaf messages the runtime ever performed on behalf of the
multisig in committed transactions — bank sends, cw20 `Transfer` / `TransferFrom`, group updates.  That list is, as a
multiset (`List.Perm`), exactly the union over the ghost log of what the recorded handler calls returned: for each
`executed id` the deposit refund (if the proposal carries a deposit) and the proposal's own non-self-call messages, for
each `closed id` the refund when `refund_failed_proposals` is set, for each `proposed id snd` the `TransferFrom` that takes
a cw20 deposit; nothing for votes, hooks and group writes.  With `executions_le_one` (each proposal has at most one
`executed` event) and `C15.refund_at_most_once`: nothing is ever dispatched for the multisig that is not a stored message
of an executed proposal or a deposit movement, and each executed proposal contributes exactly once. -/
theorem dispatched_only_by_execute_run {ext : Ext} {fuel : Nat} {m : InstMsg} {s : State} {g : Cw4Group.State}
    {t : Cw20.State} {bank : AMap (Addr × String) Nat} {self ga ta : Addr} {h0 : Nat} (ops : List Op)
    (hi : instantiate m (some g) = .ok s) :
    let wt := runT ext fuel (World.init s g t bank self ga ta h0, []) ops
    wt.2.Perm (expectedOuts wt.1.flex.core wt.1.self wt.1.log) ∧
    wt.1 = run ext fuel (World.init s g t bank self ga ta h0) ops := by
  intro wt
  refine ⟨?_, runT_world ext fuel ops _⟩
  have hinit : ConvInv (World.init s g t bank self ga ta h0, []) := by
    refine ⟨⟨instantiate_inv hi, fun e hm id hid => ?_⟩, fun x => ?_⟩
    · simp [World.init] at hm; subst hm; simp [evId] at hid
    · simp [expectedOf, expectedOuts, World.init, outsOfEvent]
  have := (conv_runT ext fuel ops _ hinit).2
  rw [List.perm_iff_count]
  exact this

/-- **Traces back (flex).**  Every leaf message in the trace of a history is one of: a stored non-self-call message of a
proposal with an `executed` event in the log, the refund of the deposit recorded in an executed or closed proposal
(addressed to its proposer), or the `TransferFrom` taking the deposit recorded in a proposed one. -/
theorem dispatched_traces_back {ext : Ext} {fuel : Nat} {m : InstMsg} {s : State} {g : Cw4Group.State}
    {t : Cw20.State} {bank : AMap (Addr × String) Nat} {self ga ta : Addr} {h0 : Nat} (ops : List Op)
    (hi : instantiate m (some g) = .ok s) {x : Out}
    (hx : x ∈ (runT ext fuel (World.init s g t bank self ga ta h0, []) ops).2) :
    let w := run ext fuel (World.init s g t bank self ga ta h0) ops
    ∃ id p, w.flex.core.proposals.get? id = some p ∧
      ((Event.executed id ∈ w.log ∧ ∃ mm ∈ p.msgs, selfCall mm = none ∧ x = .msg mm) ∨
       ((Event.executed id ∈ w.log ∨ Event.closed id ∈ w.log) ∧ ∃ d, p.deposit = some d ∧ x = refundMsg d p.proposer) ∨
       (∃ snd d, Event.proposed id snd ∈ w.log ∧ p.deposit = some d ∧ x ∈ takeDeposit d snd w.self)) := by
  intro w
  obtain ⟨hperm, hw⟩ := dispatched_only_by_execute_run (ext := ext) (fuel := fuel) (t := t) (bank := bank) (self := self)
    (ga := ga) (ta := ta) (h0 := h0) ops hi
  have hmem := hperm.mem_iff.mp hx
  simp only [hw] at hmem
  change x ∈ expectedOuts w.flex.core w.self w.log at hmem
  obtain ⟨e, he, hxe⟩ := List.mem_flatMap.mp hmem
  cases e with
  | executed id =>
    simp only [outsOfEvent, fixedOf] at hxe
    cases hp : w.flex.core.proposals.get? id with
    | none => simp [hp] at hxe
    | some p =>
      simp only [hp, Option.map_some, Proposal.fixedPart] at hxe
      refine ⟨id, p, hp, ?_⟩
      rcases List.mem_append.mp hxe with h | h
      · right; left
        cases hd : p.deposit with
        | none => simp [hd] at h
        | some d => simp [hd] at h; exact ⟨Or.inl he, d, rfl, h⟩
      · left
        obtain ⟨h1, h2⟩ := List.mem_filter.mp h
        obtain ⟨mm, hmm, rfl⟩ := List.mem_map.mp h1
        exact ⟨he, mm, hmm, by simpa [isLeafOut] using h2, rfl⟩
  | closed id =>
    simp only [outsOfEvent, fixedOf] at hxe
    cases hp : w.flex.core.proposals.get? id with
    | none => simp [hp] at hxe
    | some p =>
      simp only [hp, Option.map_some, Proposal.fixedPart] at hxe
      refine ⟨id, p, hp, Or.inr (Or.inl ?_)⟩
      cases hd : p.deposit with
      | none => simp [hd] at hxe
      | some d =>
        simp only [hd] at hxe
        split at hxe
        · simp at hxe; exact ⟨Or.inr he, d, rfl, hxe⟩
        · simp at hxe
  | proposed id snd =>
    simp only [outsOfEvent, fixedOf] at hxe
    cases hp : w.flex.core.proposals.get? id with
    | none => simp [hp] at hxe
    | some p =>
      simp only [hp, Option.map_some, Proposal.fixedPart] at hxe
      refine ⟨id, p, hp, Or.inr (Or.inr ?_)⟩
      cases hd : p.deposit with
      | none => simp [hd] at hxe
      | some d => simp only [hd] at hxe; exact ⟨snd, d, he, rfl, hxe⟩
  | voted id a => simp [outsOfEvent] at hxe
  | hook => simp [outsOfEvent] at hxe
  | groupWrite h => simp [outsOfEvent] at hxe

/-! ## non-vacuity -/

open CwPlus.Props.C15 in
/-- The D6 history is a reachable world with a proposal; executing is refused there, and the ghost count is 0. -/
example : Reachable Cex.noExt 10 Cex.final ∧ executions Cex.final 1 = 0 ∧
    (Cex.final.flex.core.proposals.get? 1).isSome = true :=
  ⟨⟨Cex.inst, Cex.flex0, Cex.group0, Cex.token0, _, "ms", "grp", "tok", 5, Cex.ops, rfl, rfl⟩, by decide, by decide⟩

/-- Non-vacuity of `reentrant_execute_fails`: a passed proposal that calls back into its own Execute; executing
it fails and leaves the world unchanged. -/
example :
    let w := run CwPlus.Props.C15.Cex.noExt 10 CwPlus.Props.C15.Cex.world0
      [⟨⟨10, 0⟩, .flex "a" [⟨5, "ucosm"⟩] (.propose "t" "d" [.selfExecute 1] none)⟩,
       ⟨⟨10, 0⟩, .flex "b" [] (.vote 1 .yes)⟩]
    ((w.flex.core.proposals.get? 1).map (·.status)) = some .passed ∧
    (tx CwPlus.Props.C15.Cex.noExt 10 w ⟨10, 0⟩ (.flex "c" [] (.execute 1))).isOk = false := by
  decide

/-- non-vacuity of `observed_status_monotone(_in_time)`: `w0` = after `a` proposed (block 10, count 3, a's
weight 1: Open); further history at later blocks: `b` votes yes (Passed), an outsider executes -/
def exW0 : World :=
  run CwPlus.Props.C15.Cex.noExt 10 CwPlus.Props.C15.Cex.world0 [⟨⟨10, 0⟩, .flex "a" [⟨5, "ucosm"⟩] (.propose "t" "d" [] none)⟩]
def exMore : List Op := [⟨⟨12, 0⟩, .flex "b" [] (.vote 1 .yes)⟩, ⟨⟨13, 0⟩, .flex "x" [] (.execute 1)⟩]

open CwPlus.Props.C15 in
example : ReachableAt Cex.noExt 10 exW0 ⟨10, 0⟩ :=
  ReachableAt.step ⟨⟨10, 0⟩, .flex "a" [⟨5, "ucosm"⟩] (.propose "t" "d" [] none)⟩
    (ReachableAt.init (m := Cex.inst) Cex.group0 Cex.token0 [(("a", "ucosm"), 20)] "ms" "grp" "tok" 5 ⟨10, 0⟩ rfl)
    ⟨Nat.le_refl _, Nat.le_refl _⟩
open CwPlus.Props.C15 in
example : Reachable Cex.noExt 10 exW0 :=
  ⟨Cex.inst, Cex.flex0, Cex.group0, Cex.token0, _, "ms", "grp", "tok", 5,
    [⟨⟨10, 0⟩, .flex "a" [⟨5, "ucosm"⟩] (.propose "t" "d" [] none)⟩], rfl, rfl⟩
open CwPlus.Props.C15 in
example : ReachableFrom Cex.noExt 10 exW0 ⟨11, 0⟩ (run Cex.noExt 10 exW0 exMore) ⟨13, 0⟩ :=
  ReachableFrom.step (w := step Cex.noExt 10 exW0 ⟨⟨12, 0⟩, .flex "b" [] (.vote 1 .yes)⟩) ⟨⟨13, 0⟩, .flex "x" [] (.execute 1)⟩
    (ReachableFrom.step ⟨⟨12, 0⟩, .flex "b" [] (.vote 1 .yes)⟩ ReachableFrom.refl ⟨by decide, by decide⟩) ⟨by decide, by decide⟩
open CwPlus.Props.C15 in
/-- observed Open at block 11 before, Rejected at block 15 had nothing more happened (expiry), Executed after
the further history -/
example : ((Cw3Flex.queryProposal exW0.flex ⟨11, 0⟩ 1).toOption.map (·.status)) = some .open ∧
    ((Cw3Flex.queryProposal exW0.flex ⟨15, 0⟩ 1).toOption.map (·.status)) = some .rejected ∧
    ((Cw3Flex.queryProposal (run Cex.noExt 10 exW0 exMore).flex ⟨20, 0⟩ 1).toOption.map (·.status)) = some .executed := by
  decide

open CwPlus.Props.C15 in
/-- non-vacuity of the parity theorems: after the further history proposal 1 is stored Executed with ghost count 1, ids
are `1..1`, and the Propose of `exW0` created it as proposed (threshold 3 = configured, total 5 = the group's) -/
example : executions (run Cex.noExt 10 exW0 exMore) 1 = 1 ∧ isExec (run Cex.noExt 10 exW0 exMore).flex.core 1 = true ∧
    (run Cex.noExt 10 exW0 exMore).flex.core.count = 1 ∧
    ((exW0.flex.core.proposals.get? 1).map fun p => (p.threshold, p.totalWeight, p.msgs, p.proposer, p.startHeight))
      = some (.absoluteCount 3, 5, [], "a", 10) := by
  decide

/-- non-vacuity of `query_always_answers`: the proposal of the reachable world `exW0` fits `u64` (tally 1/0/0/0) -/
example : ((exW0.flex.core.proposals.get? 1).map fun p =>
    decide (p.votes.yes + p.votes.no + p.votes.abstain + p.votes.veto ≤ U64_MAX)) = some true := by decide

open CwPlus.Props.C15 in
/-- non-vacuity of `dispatch_no_second_execution`: in the world after `exMore` proposal 1 is stored Executed; a further
dispatch (the group's hook message to the multisig) succeeds and the ghost count stays 1 -/
example : isExec (run Cex.noExt 10 exW0 exMore).flex.core 1 = true ∧
    ((dispatch Cex.noExt 5 (run Cex.noExt 10 exW0 exMore) ⟨14, 0⟩ [.groupHook "ms"]).toOption.map fun w' => executions w' 1)
      = some 1 := by
  decide

open CwPlus.Props.C15 in
/-- non-vacuity of `dispatched_only_by_execute_run` (native deposit, two concurrent proposals, one executed): the trace
of the history is the refund of proposal 1 followed by its bank message; the expected list is the same. -/
example :
    let wt := runT Cex.noExt 10 (CexPool.world0, []) CexPool.opsSpend
    wt.2 = [Out.bank "a" 5 "ucosm", Out.msg (.bank "x" 5 "ucosm")] ∧
    expectedOuts wt.1.flex.core wt.1.self wt.1.log = [Out.bank "a" 5 "ucosm", Out.msg (.bank "x" 5 "ucosm")] ∧
    wt.1.log = CexPool.wSpend.log := by
  decide

open CwPlus.Props.C15 in
/-- non-vacuity with a cw20 deposit: the trace is the `TransferFrom` that took the deposit at Propose and the `Transfer`
that returned it at Execute. -/
example :
    (runT Cex.noExt 10 (Cex20.world0, []) Cex20.ops).2
      = [Out.cw20TransferFrom "tok" "a" "ms" 5, Out.cw20Transfer "tok" "a" 5] := by
  decide

end CwPlus.Props.C05Flex
