import CwPlus.Lemmas.Ics20
import CwPlus.Lemmas.Ics20Migrate
import CwPlus.Lemmas.Ics20Env
import CwPlus.Lemmas.Ics20TotalSent
import CwPlus.Lemmas.Ics20Ledger
import CwPlus.Lemmas.Ics20Honest
import CwPlus.Props.C18
import CwPlus.Props.C11
/-!
# C12 — cw20-ics20: channel balance tracks vouchers exactly; error acks change nothing

Histories (`runG`) are arbitrary lists of ops — user transfers (native, cw20 `Send`, direct hook
calls), incoming packets with arbitrary fields, acknowledgements / timeouts (at most one per packet in
flight, with the original data: `admissible`), governance ops and migrations — with every payout /
refund sub-call failing or succeeding arbitrarily (`fail` flag, receiver validity, faulty tokens).

## Environment assumptions (`structure EnvAssumptions`, Lemmas/Ics20Env.lean)

* **E1 `hook_only_from_send`** — a real cw20 token contract calls `ExecuteMsg::Receive` only from its own
  `Send`, after crediting the contract; a direct `Receive` never has a real token as sender.
* **E2 `never_calls_itself`** — the ics20 contract is never the sender of a transfer.
* **E3 `native_not_cw20`** — no native denomination has the form `cw20:…`.

The model's `World.exec` refuses transactions violating E1 / E2 (they are no-ops of `runG`);
`outstanding_identity_explicit_env` restates the accounting identity over the unguarded semantics
`runGRaw` with `EnvAssumptions` as an explicit hypothesis.  E3 is what makes the model's structural keys
`(channel, native d | cw20 addr)` faithful to the contract's string keys `(channel, denom string)`:
`storage_keys_faithful` (explicit hypothesis; `render_collision` shows the collision without it).
`success_ack_effects` needs "the receiver is not the contract itself" and has it as the explicit
hypothesis `hrs`.  IBC core's guarantee (one acknowledgement or timeout per sent packet, original
data) is the explicit predicate `admissible` inside `runG`; the `…_all_histories` theorems drop it
(`runU`, Lemmas/Ics20Ledger.lean).  The **honest counterparty** of the property's quantifier is the
explicit model of Lemmas/Ics20Honest.lean (`HEv`, `CpState`, `honestEv`, `HonestFrom`); it is used by
`refund_never_refused`, `refund_refused_iff_gas` and `refund_always_processed_fresh` only.
-/
namespace CwPlus.Props.C12
open CwPlus CwPlus.Ics20

/-- **C12, outstanding_identity**: on every history, for every channel and denomination,
`outstanding = sent − failedOrTimedOut − redeemed` (stated additively).  `sent` starts as whatever is
outstanding in the start state and is re-baselined by a migration (which books in-flight tokens of
the old rules as sent).  The re-baselining makes the identity trivially preserved *at* the migration
step; what the migration really does is `migrate_books_inflight` (outstanding := real holdings,
total_sent grows by the same difference), and `sent_tracks_total_sent` shows that the re-baselined
`sent` is, up to the start offset, the contract's own `total_sent` counter on every history
(`outstanding_identity_total_sent`: the identity with `sent` read off `total_sent`).  For start states
with packets already in flight see `outstanding_identity_inflight`. -/
theorem outstanding_identity (w : World) (ops : List (Block × Op)) (c : String) (d : Denom) :
    let wg := runG (w, Ghost.init w) ops
    outstanding wg.1.st c d + wg.2.failed (c, d) + wg.2.redeemed (c, d) = wg.2.sent (c, d) := by
  intro wg
  exact (runG_ledger ops (ledgerInv_init w)).1 (c, d)

/-- One step of the identity, from any state satisfying it (inductive form). -/
theorem outstanding_identity_step {wg : World × Ghost} (blk : Block) (op : Op) (h : LedgerInv wg) :
    LedgerInv (stepG wg blk op) := stepG_ledger blk op h

/-- **C12, success_ack_iff_paid**: an incoming packet is answered with a success acknowledgement iff
`do_ibc_packet_receive` accepted it and the payout sub-call went through (the final world is the one
after the payout). -/
theorem success_ack_iff_paid {w w' : World} {blk : Block} {p : PacketIn} {rv tv f : Bool} {o : Outcome}
    (h : w.exec blk (.recv p rv tv f) = .ok (w', o)) :
    o.ack = some .success ↔
      ∃ s1 sub, doReceive w.st p tv = .ok (s1, sub) ∧ ({ w with st := s1 } : World).payout sub rv f = some w' := by
  rcases exec_recv_cases h with ⟨⟨e, he⟩, _, ha, _⟩ | ⟨s1, sub, hd, _, hc⟩
  · constructor
    · intro h'; rw [ha] at h'; cases h'
    · rintro ⟨s1, sub, hd, _⟩; rw [he] at hd; cases hd
  · rcases hc with ⟨hp, ha⟩ | ⟨hp, ha, _⟩
    · exact ⟨fun _ => ⟨s1, sub, hd, hp⟩, fun _ => ha⟩
    · constructor
      · intro h'; rw [ha] at h'; cases h'
      · rintro ⟨s1', sub', hd', hp'⟩
        rw [hd] at hd'; cases hd'
        rw [hp] at hp'; cases hp'

/-- **C12, success ⇒ paid in full and balance reduced by it**: with a success acknowledgement the
channel balance of the redeemed denomination dropped by exactly the packet's amount, and exactly that
amount moved from the contract to the receiver (native: bank balance; cw20: token balance). -/
theorem success_ack_effects {w w' : World} {blk : Block} {p : PacketIn} {rv tv f : Bool} {o : Outcome}
    (h : w.exec blk (.recv p rv tv f) = .ok (w', o)) (ha : o.ack = some .success) (hrs : p.receiver ≠ w.self) :
    ∃ amt d, p.amount = some amt ∧ p.voucher = some (p.srcPort, p.srcChan, d) ∧
      amt ≤ outstanding w.st p.destChan d ∧
      outstanding w'.st p.destChan d = outstanding w.st p.destChan d - amt ∧
      (match d with
       | .native dn => w'.bankBal p.receiver dn = w.bankBal p.receiver dn + amt ∧
                       w'.bankBal w.self dn = w.bankBal w.self dn - amt ∧ amt ≤ w.bankBal w.self dn
       | .cw20 t => w'.tokBal t p.receiver = w.tokBal t p.receiver + amt ∧
                    w'.tokBal t w.self = w.tokBal t w.self - amt ∧ amt ≤ w.tokBal t w.self) := by
  obtain ⟨s1, sub, hd, hp⟩ := (success_ack_iff_paid h).mp ha
  obtain ⟨amt, d, ch, hamt, hv, hred, rfl, hto, hsa, hsd, _, _⟩ := doReceive_spec hd
  obtain ⟨cs, hg, hle, _, ho, _⟩ := reduceBalance_spec hred
  refine ⟨amt, d, hamt, hv, by simp [outstanding, hg, hle], ?_, ?_⟩
  · rw [outstanding_eq, outstanding_eq, (payout_frame hp).1]
    simpa using ho (p.destChan, d)
  · unfold World.payout at hp
    rw [hsd] at hp
    cases d with
    | native dn =>
      simp only at hp ⊢
      split at hp
      · simp at hp
      · obtain ⟨hle2, hb⟩ := bankSend_spec hp
        rw [hto, hsa] at hb
        simp only [World.bankBal] at hle2 hb ⊢
        rw [hsa] at hle2
        refine ⟨?_, ?_, hle2⟩
        · have := hb p.receiver dn; simp [Ne.symm hrs] at this; exact this
        · have := hb w.self dn; simp [hrs] at this; exact this
    | cw20 t =>
      simp only at hp ⊢
      split at hp
      · simp at hp
      · obtain ⟨hle2, hb⟩ := tokSend_spec hp
        rw [hto, hsa] at hb
        simp only [World.tokBal] at hle2 hb ⊢
        rw [hsa] at hle2
        refine ⟨?_, ?_, hle2⟩
        · have := hb t p.receiver; simp [Ne.symm hrs] at this; exact this
        · have := hb t w.self; simp [hrs] at this; exact this

/-- **C12, error_ack_state_unchanged**: whenever the final acknowledgement of an incoming packet is
an error, the world after the transaction is the world before it — channel balances, allow list,
config, admin, every bank and cw20 balance — except for the scratch item `REPLY_ARGS`. -/
theorem error_ack_state_unchanged {w w' : World} {blk : Block} {p : PacketIn} {rv tv f : Bool} {o : Outcome}
    (h : w.exec blk (.recv p rv tv f) = .ok (w', o)) (ha : o.ack = some .error) :
    w' = { w with st := { w.st with replyArgs := w'.st.replyArgs } } := by
  rcases exec_recv_cases h with ⟨_, rfl, _, _⟩ | ⟨s1, sub, hd, _, hc⟩
  · rfl
  · rcases hc with ⟨_, ha'⟩ | ⟨_, _, ra, ch2, hra, hundo, rfl⟩
    · rw [ha] at ha'; cases ha'
    · obtain ⟨amt, d, ch, _, _, hred, rfl, _⟩ := doReceive_spec hd
      simp at hra; subst hra
      have := undoReduce_reduce_eq hred hundo
      subst this
      rfl

/-- **C12, receive_total** (entry point): `ibc_packet_receive` has no error result — in the model it
is a total function returning an acknowledgement; it answers `success` exactly when
`do_ibc_packet_receive` succeeds and `error` otherwise, never touching the state in the latter case. -/
theorem receive_total (s : State) (p : PacketIn) (tv : Bool) :
    (∃ s' sub, doReceive s p tv = .ok (s', sub) ∧ ibcPacketReceive s p tv = (s', .success, some sub)) ∨
    (∃ e, doReceive s p tv = .error e ∧ ibcPacketReceive s p tv = (s, .error, none)) := by
  unfold ibcPacketReceive
  cases hd : doReceive s p tv with
  | ok r => obtain ⟨s', sub⟩ := r; exact Or.inl ⟨s', sub, rfl, rfl⟩
  | error e => exact Or.inr ⟨e, rfl, rfl⟩

/-- **C12, receive_total** (transaction): handling a packet never aborts, whatever the packet and
whether or not the payout sub-call fails (stored balances are `Uint128`). -/
theorem receive_tx_total (w : World) (blk : Block) (p : PacketIn) (rv tv f : Bool)
    (hb : ∀ k, outAt w.st.chan k ≤ U128_MAX) : ∃ w' o, w.exec blk (.recv p rv tv f) = .ok (w', o) := by
  simp only [World.exec, ibcPacketReceive]
  cases hd : doReceive w.st p tv with
  | error e => simp [World.dispatch]
  | ok r =>
    obtain ⟨s1, sub⟩ := r
    simp only [World.dispatch]
    cases hp : ({ w with st := s1 } : World).payout sub rv f with
    | some w2 => simp
    | none =>
      obtain ⟨amt, d, ch, _, _, hred, rfl, _, _, _, hid, _⟩ := doReceive_spec hd
      have hu := undoReduce_reduce hred (hb (p.destChan, d))
      simp [reply, hid, hu]

/-- **C12, transfer_emits_one_packet**: every accepted transfer (native funds, cw20 `Send`, direct
hook) emits exactly one ICS-20 packet on the requested channel carrying the escrowed amount (non-zero,
at most 2^64−1), the denomination, the true sender, the requested receiver and memo, with timeout
`block.time + (requested ∨ default) seconds`, and increases the channel balance by that amount. -/
theorem transfer_emits_one_packet {w w' : World} {blk : Block} {o : Outcome} :
    (∀ snd funds msg, w.exec blk (.transferNative snd funds msg) = .ok (w', o) →
      ∃ d amt, funds = [(d, amt)] ∧ amt ≠ 0 ∧ amt ≤ U64_MAX ∧
        o.sent = [⟨msg.channel, ⟨amt, .native d, msg.remote, snd, msg.memo⟩,
                   blk.time + (msg.timeout.getD w.st.config.defaultTimeout) * 1000000000⟩] ∧
        outstanding w'.st msg.channel (.native d) = outstanding w.st msg.channel (.native d) + amt) ∧
    (∀ snd token amt msg, w.exec blk (.sendCw20 snd token amt msg) = .ok (w', o) →
      ∃ m, msg = some m ∧ amt ≠ 0 ∧ amt ≤ U64_MAX ∧
        o.sent = [⟨m.channel, ⟨amt, .cw20 token, m.remote, snd, m.memo⟩,
                   blk.time + (m.timeout.getD w.st.config.defaultTimeout) * 1000000000⟩] ∧
        outstanding w'.st m.channel (.cw20 token) = outstanding w.st m.channel (.cw20 token) + amt) ∧
    (∀ snd funds sender amt msg, w.exec blk (.hook snd funds sender amt msg) = .ok (w', o) →
      ∃ m, msg = some m ∧ amt ≠ 0 ∧ amt ≤ U64_MAX ∧
        o.sent = [⟨m.channel, ⟨amt, .cw20 snd, m.remote, sender.text, m.memo⟩,
                   blk.time + (m.timeout.getD w.st.config.defaultTimeout) * 1000000000⟩]) := by
  refine ⟨?_, ?_, ?_⟩
  · intro snd funds msg h
    obtain ⟨d, amt, w1, s, out, rfl, _, _, hs, rfl, rfl⟩ := exec_transferNative_spec h
    obtain ⟨ch, hinc, rfl, hne, hle, _, _, rfl, _⟩ := execTransfer_spec hs
    refine ⟨d, amt, rfl, hne, hle, rfl, ?_⟩
    rw [outstanding_eq, outstanding_eq]
    simpa using (increaseBalance_spec hinc).1 (msg.channel, .native d)
  · intro snd token amt msg h
    obtain ⟨w1, m, s, out, _, _, _, rfl, hs, rfl, rfl⟩ := exec_sendCw20_spec h
    obtain ⟨ch, hinc, rfl, hne, hle, _, _, rfl, _⟩ := execTransfer_spec hs
    refine ⟨m, rfl, hne, hle, rfl, ?_⟩
    rw [outstanding_eq, outstanding_eq]
    simpa using (increaseBalance_spec hinc).1 (m.channel, .cw20 token)
  · intro snd funds sender amt msg h
    obtain ⟨m, s, out, _, rfl, hs, rfl, rfl⟩ := exec_hook_spec h
    obtain ⟨ch, hinc, rfl, hne, hle, _, _, rfl, _⟩ := execTransfer_spec hs
    exact ⟨m, rfl, hne, hle, rfl⟩

/-- The packet's timeout timestamp fits `u64` (else the transfer is refused). -/
theorem transfer_timeout_fits {s s' : State} {blk : Block} {msg : TransferMsg} {d : Denom} {amt : Nat} {snd : Addr}
    {out : SendOut} (h : execTransfer s blk msg d amt snd = .ok (s', out)) : out.timeout ≤ U64_MAX := by
  obtain ⟨_, _, _, _, _, _, _, rfl, hto⟩ := execTransfer_spec h
  exact hto



/-- Representation invariant: every stored outstanding balance is a `Uint128`. -/
def Bounded (w : World) : Prop := ∀ k, outAt w.st.chan k ≤ U128_MAX

theorem outAt_set_le {m : ChanMap} {k : Key} {v : ChanState} (hb : ∀ k, outAt m k ≤ U128_MAX)
    (hv : v.outstanding ≤ U128_MAX) : ∀ k', outAt (m.set k v) k' ≤ U128_MAX := by
  intro k'
  by_cases h : k = k'
  · subst h; simp [outAt, hv]
  · have := hb k'; simp [outAt, AMap.get?_set_ne _ _ _ _ h] at this ⊢; exact this

theorem updateDenoms_bounded (ch : String) (hold : Denom → Option Nat) (es : List ((String × Denom) × ChanState))
    (m m' : ChanMap) (h : updateDenoms ch hold es m = .ok m') (hb : ∀ k, outAt m k ≤ U128_MAX) :
    ∀ k, outAt m' k ≤ U128_MAX := by
  induction es generalizing m with
  | nil => simp [updateDenoms] at h; subst h; exact hb
  | cons e rest ih =>
    obtain ⟨⟨c, d⟩, cs⟩ := e
    unfold updateDenoms at h
    split at h
    · split at h
      · simp at h
      · simp at h
        obtain ⟨_, h⟩ := h
        split at h
        · exact ih m h hb
        · simp at h
          obtain ⟨ho, _, h⟩ := h
          exact ih _ h (outAt_set_le hb (by simpa using ho))
    · exact ih m h hb

theorem migrate_bounded {s s' : State} {gas : Option Nat} {hold : Denom → Option Nat}
    (h : migrate s gas hold = .ok s') (hb : ∀ k, outAt s.chan k ≤ U128_MAX) : ∀ k, outAt s'.chan k ≤ U128_MAX := by
  simp [migrate] at h
  obtain ⟨_, _, _, s1, h1, s2, h2, s3, h3, rfl⟩ := h
  have e1 : s1.chan = s.chan := by
    split at h1
    · split at h1
      · simp at h1
      · simp at h1; subst h1; rfl
    · simp at h1; subst h1; rfl
  have e2 : ∀ k, outAt s2.chan k ≤ U128_MAX := by
    split at h2
    · unfold updateBalances at h2
      split at h2
      · simp at h2; subst h2; rw [e1]; exact hb
      · simp at h2
        obtain ⟨m, hm, rfl⟩ := h2
        exact updateDenoms_bounded _ _ _ _ _ hm (by rw [e1]; exact hb)
      · simp at h2
    · simp at h2; subst h2; rw [e1]; exact hb
  have e3 : s3.chan = s2.chan := by
    split at h3
    · simp at h3; obtain ⟨cfg, _, rfl⟩ := h3; rfl
    · simp at h3; subst h3; rfl
  split <;> (first | (rw [e3]; exact e2) | (show ∀ k, outAt s3.chan k ≤ U128_MAX; rw [e3]; exact e2))

theorem exec_bounded {w w' : World} {blk : Block} {op : Op} {o : Outcome}
    (hb : Bounded w) (h : w.exec blk op = .ok (w', o)) : Bounded w' := by
  have inc : ∀ {ch : ChanMap} {c d amt}, increaseBalance w.st.chan c d amt = .ok ch → ∀ k, outAt ch k ≤ U128_MAX := by
    intro ch c d amt hinc k
    obtain ⟨ho, _, hle⟩ := increaseBalance_spec hinc
    rw [ho k]; split
    · rename_i hk; subst hk; exact hle
    · exact hb k
  have red : ∀ {ch : ChanMap} {c d amt}, reduceBalance w.st.chan c d amt = .ok ch → ∀ k, outAt ch k ≤ U128_MAX := by
    intro ch c d amt hred k
    obtain ⟨cs, _, _, _, ho, _⟩ := reduceBalance_spec hred
    rw [ho k]; have := hb k; split <;> omega
  cases op with
  | connect id v cv ord peer =>
    have f := exec_plain_frame h (Or.inl ⟨id, v, cv, ord, peer, rfl⟩); unfold Bounded; rw [f.1]; exact hb
  | chanOpen v cv ord => obtain ⟨rfl, _⟩ := exec_chanOpen h; exact hb
  | chanClose id => exact (exec_chanClose h).elim
  | allow snd c gg =>
    have f := exec_plain_frame h (Or.inr (Or.inl ⟨snd, c, gg, rfl⟩)); unfold Bounded; rw [f.1]; exact hb
  | updateAdmin snd a =>
    have f := exec_plain_frame h (Or.inr (Or.inr ⟨snd, a, rfl⟩)); unfold Bounded; rw [f.1]; exact hb
  | migrate gg => exact migrate_bounded (exec_migrate_frame h).1 hb
  | transferNative snd funds msg =>
    obtain ⟨d, amt, w1, s, out, _, _, _, hs, rfl, rfl⟩ := exec_transferNative_spec h
    obtain ⟨ch, hinc, rfl, _⟩ := execTransfer_spec hs
    exact inc hinc
  | sendCw20 snd token amt msg =>
    obtain ⟨w1, m, s, out, _, _, _, _, hs, rfl, rfl⟩ := exec_sendCw20_spec h
    obtain ⟨ch, hinc, rfl, _⟩ := execTransfer_spec hs
    exact inc hinc
  | hook snd funds sender amt msg =>
    obtain ⟨m, s, out, _, _, hs, rfl, rfl⟩ := exec_hook_spec h
    obtain ⟨ch, hinc, rfl, _⟩ := execTransfer_spec hs
    exact inc hinc
  | recv p rv tv f =>
    rcases exec_recv_cases h with ⟨_, rfl, _, _⟩ | ⟨s1, sub, hd, _, hc⟩
    · exact hb
    · obtain ⟨amt, d, ch, _, _, hred, rfl, _⟩ := doReceive_spec hd
      rcases hc with ⟨hp, _⟩ | ⟨_, _, ra, ch2, hra, hundo, rfl⟩
      · unfold Bounded; rw [(payout_frame hp).1]; exact red hred
      · simp at hra; subst hra
        have := undoReduce_reduce_eq hred hundo
        subst this; exact hb
  | ack chan data ackOk sv tv f =>
    rcases exec_ack_cases h with ⟨_, rfl, _, _⟩ | ⟨_, s1, sub, hf, _, hc⟩
    · exact hb
    · obtain ⟨p, ch, rfl, hred, rfl, _⟩ := onPacketFailure_spec hf
      rcases hc with ⟨hp, _⟩ | ⟨_, rfl, _⟩
      · unfold Bounded; rw [(payout_frame hp).1]; exact red hred
      · exact red hred
  | timeout chan data sv tv f =>
    obtain ⟨s1, sub, hf, _, hc⟩ := exec_timeout_cases h
    obtain ⟨p, ch, rfl, hred, rfl, _⟩ := onPacketFailure_spec hf
    rcases hc with ⟨hp, _⟩ | ⟨_, rfl, _⟩
    · unfold Bounded; rw [(payout_frame hp).1]; exact red hred
    · exact red hred

/-- Histories without ghosts. -/
def run (w : World) (ops : List (Block × Op)) : World := ops.foldl (fun w o => w.step o.1 o.2) w

theorem run_bounded (w : World) (ops : List (Block × Op)) (hb : Bounded w) : Bounded (run w ops) := by
  induction ops generalizing w with
  | nil => exact hb
  | cons op rest ih =>
    apply ih
    show Bounded (w.step op.1 op.2)
    unfold World.step
    split
    · rename_i w' o h; exact exec_bounded hb h
    · exact hb

/-- **C12, handling a packet never aborts**, on every history: from any state whose balances are
`Uint128` (e.g. a fresh instantiation), after any history, every incoming packet — whatever its
fields, and whether or not the payout sub-call fails — is processed by a successful transaction that
returns an acknowledgement. -/
theorem receive_never_aborts (w : World) (ops : List (Block × Op)) (hb : Bounded w)
    (blk : Block) (p : PacketIn) (rv tv f : Bool) :
    ∃ w' o, (run w ops).exec blk (.recv p rv tv f) = .ok (w', o) ∧ o.ack.isSome := by
  obtain ⟨w', o, h⟩ := receive_tx_total (run w ops) blk p rv tv f (run_bounded w ops hb)
  refine ⟨w', o, h, ?_⟩
  rcases exec_recv_cases h with ⟨_, _, ha, _⟩ | ⟨_, _, _, _, hc⟩
  · simp [ha]
  · rcases hc with ⟨_, ha⟩ | ⟨_, ha, _⟩ <;> simp [ha]



/-- `v2::update_denom` loop: every entry of the migrated channel ends up with `outstanding` equal to
the contract's real balance of that denomination; nothing else changes. -/
theorem updateDenoms_reconciles (ch : String) (hold : Denom → Option Nat) (es : List ((String × Denom) × ChanState))
    (m m' : ChanMap) (h : updateDenoms ch hold es m = .ok m')
    (hnd : (es.map (·.1)).Nodup) (hagree : ∀ e ∈ es, m.get? e.1 = some e.2) :
    (∀ e ∈ es, e.1.1 = ch → ∃ bal, hold e.1.2 = some bal ∧ outAt m' e.1 = bal ∧ e.2.outstanding ≤ bal) ∧
    (∀ k, (k ∉ es.map (·.1) ∨ k.1 ≠ ch) → outAt m' k = outAt m k) := by
  induction es generalizing m with
  | nil => simp [updateDenoms] at h; subst h; simp
  | cons e rest ih =>
    obtain ⟨⟨c, d⟩, cs⟩ := e
    simp only [List.map_cons, List.nodup_cons] at hnd
    obtain ⟨hnotin, hnd'⟩ := hnd
    have hhead : m.get? (c, d) = some cs := hagree ((c, d), cs) (by simp)
    unfold updateDenoms at h
    split at h
    · rename_i hc
      split at h
      · simp at h
      · rename_i bal hbal
        simp at h
        obtain ⟨hle, h⟩ := h
        -- the map after this entry
        have key : ∃ m1, updateDenoms ch hold rest m1 = .ok m' ∧ outAt m1 (c, d) = bal ∧
            (∀ k, k ≠ (c, d) → m1.get? k = m.get? k) := by
          split at h
          · rename_i hz
            refine ⟨m, h, ?_, fun _ _ => rfl⟩
            simp [outAt, hhead]; omega
          · simp at h
            obtain ⟨_, _, h⟩ := h
            refine ⟨_, h, ?_, ?_⟩
            · simp [outAt]; omega
            · intro k hk; exact AMap.get?_set_ne _ _ _ _ (Ne.symm hk)
        obtain ⟨m1, h1, hout, hframe⟩ := key
        have hagree' : ∀ e ∈ rest, m1.get? e.1 = some e.2 := by
          intro e he
          have hne : e.1 ≠ (c, d) := by
            intro eq; apply hnotin; rw [← eq]; exact List.mem_map_of_mem he
          rw [hframe _ hne]; exact hagree e (by simp [he])
        obtain ⟨ih1, ih2⟩ := ih m1 h1 hnd' hagree'
        constructor
        · intro e he hch
          simp at he
          rcases he with rfl | he
          · refine ⟨bal, hbal, ?_, hle⟩
            rw [ih2 (c, d) (Or.inl hnotin)]; exact hout
          · exact ih1 e he hch
        · intro k hk
          have hk' : k ≠ (c, d) := by
            rcases hk with hk | hk
            · intro eq; apply hk; simp [eq]
            · intro eq; apply hk; rw [eq]; exact hc
          have : k ∉ rest.map (·.1) ∨ k.1 ≠ ch := by
            rcases hk with hk | hk
            · left; intro hin; apply hk; simp at hin ⊢; right; exact hin
            · right; exact hk
          rw [ih2 k this]
          simp [outAt, hframe k hk']
    · rename_i hc
      have hagree' : ∀ e ∈ rest, m.get? e.1 = some e.2 := fun e he => hagree e (by simp [he])
      obtain ⟨ih1, ih2⟩ := ih m h hnd' hagree'
      constructor
      · intro e he hch
        simp at he
        rcases he with rfl | he
        · exact absurd hch hc
        · exact ih1 e he hch
      · intro k hk
        by_cases hkk : k = (c, d)
        · subst hkk; exact ih2 (c, d) (Or.inl hnotin)
        · apply ih2 k
          rcases hk with hk | hk
          · left; intro hin; apply hk; simp at hin ⊢; right; exact hin
          · right; exact hk


theorem getElem_of_mem_nodup {m : ChanMap} (hnd : (m.map (·.1)).Nodup) {e : Key × ChanState} (he : e ∈ m) :
    m.get? e.1 = some e.2 := by
  induction m with
  | nil => cases he
  | cons x rest ih =>
    obtain ⟨k, v⟩ := x
    simp only [List.map_cons, List.nodup_cons] at hnd
    simp at he
    rcases he with rfl | he
    · simp [AMap.get?]
    · have hne : k ≠ e.1 := by
        intro eq; apply hnd.1; rw [eq]; exact List.mem_map_of_mem he
      simp [AMap.get?, hne]; exact ih hnd.2 he

theorem mem_of_getElem {m : ChanMap} {k : Key} {v : ChanState} (h : m.get? k = some v) : (k, v) ∈ m := by
  induction m with
  | nil => simp [AMap.get?] at h
  | cons x rest ih =>
    obtain ⟨k', v'⟩ := x
    by_cases hk : k' = k
    · subst hk; simp [AMap.get?] at h; subst h; simp
    · simp [AMap.get?, hk] at h; simp; right; exact ih h

/-- **C12, migration lemma (balance reconciliation)**: `v2::update_balances` on a contract with exactly
one channel (distinct storage keys) sets, for every denomination with an entry on that channel, the
outstanding balance to the contract's real balance of that denomination (which must not be smaller
than the booked one, else the migration fails); entries of other keys are untouched. -/
theorem updateBalances_reconciles {s s' : State} {hold : Denom → Option Nat} {ch : String}
    (hch : s.channels = [ch]) (hnd : (s.chan.map (·.1)).Nodup) (h : updateBalances s hold = .ok s') :
    (∀ d cs, s.chan.get? (ch, d) = some cs →
      ∃ bal, hold d = some bal ∧ outstanding s' ch d = bal ∧ cs.outstanding ≤ bal) ∧
    (∀ c d, c ≠ ch → outstanding s' c d = outstanding s c d) := by
  unfold updateBalances at h
  rw [hch] at h
  simp at h
  obtain ⟨m, hm, rfl⟩ := h
  obtain ⟨r1, r2⟩ := updateDenoms_reconciles ch hold s.chan s.chan m hm hnd (fun e he => getElem_of_mem_nodup hnd he)
  constructor
  · intro d cs hg
    exact r1 ((ch, d), cs) (mem_of_getElem hg) rfl
  · intro c d hc
    exact r2 (c, d) (Or.inr hc)

/-- **C12, migration lemma (config rewrite)**: migrating a pre-0.12 layout (`v1::CONFIG` with
`gov_contract`) installs the old `gov_contract` as admin, keeps `default_timeout`, and the default
gas limit is exactly what the migrate message sets (unset if it sets none); the allow list is kept. -/
theorem migrate_v1_config {s s' : State} {gas : Option Nat} {hold : Denom → Option Nat} {gov : Addr}
    (hv : Version.le s.version MIGRATE_VERSION_2 = true) (hg : s.v1gov = some gov)
    (h : migrate s gas hold = .ok s') :
    s'.admin = some gov ∧ s'.v1gov = none ∧ s'.config.defaultTimeout = s.config.defaultTimeout ∧
    s'.config.defaultGasLimit = gas ∧ s'.allow = s.allow := by
  simp [migrate] at h
  obtain ⟨_, _, _, s1, h1, s2, h2, s3, h3, rfl⟩ := h
  simp [hv, hg] at h1
  subst h1
  have e2 : s2.admin = some gov ∧ s2.v1gov = none ∧ s2.config = ⟨s.config.defaultTimeout, none⟩ ∧ s2.allow = s.allow := by
    split at h2
    · unfold updateBalances at h2
      split at h2
      · simp at h2; subst h2; exact ⟨rfl, rfl, rfl, rfl⟩
      · simp at h2; obtain ⟨m, _, rfl⟩ := h2; exact ⟨rfl, rfl, rfl, rfl⟩
      · simp at h2
    · simp at h2; subst h2; exact ⟨rfl, rfl, rfl, rfl⟩
  obtain ⟨a2, b2, c2, d2⟩ := e2
  have e3 : s3.admin = some gov ∧ s3.v1gov = none ∧ s3.config.defaultTimeout = s.config.defaultTimeout ∧
      s3.config.defaultGasLimit = gas ∧ s3.allow = s.allow := by
    split at h3
    · rename_i g
      simp [loadConfig, b2] at h3
      subst h3
      simp [a2, b2, c2, d2]
    · simp at h3; subst h3; simp [a2, c2, d2, b2]
  split <;> exact e3


/-! ## The upgrade path: migrating from the pre-0.13.1 rules while tokens are still outstanding -/

/-- **C12, migrate_books_inflight**: a successful `migrate` from a stored version ≤ 0.13.0 (v1 → v2 →
current or v2 → current) of a one-channel contract (distinct storage keys): for every denomination with
an entry on that channel, the real holdings `bal` existed and were at least the booked outstanding
balance, and afterwards `outstanding = bal` (= the real holdings, which `migrate` does not move) and
`total_sent` grew by exactly the same difference `bal − outstanding_before` — the tokens in flight
under the old rules (escrowed, not yet acknowledged) are booked as if they had been added when sent. -/
theorem migrate_books_inflight {w w' : World} {blk : Block} {g : Option Nat} {o : Outcome} {ch : String}
    (hnd : AMap.NodupKeys w.st.chan) (hv : Version.le w.st.version MIGRATE_VERSION_3 = true)
    (hch : w.st.channels = [ch]) (h : w.exec blk (.migrate g) = .ok (w', o))
    {d : Denom} {cs : ChanState} (hg : w.st.chan.get? (ch, d) = some cs) :
    ∃ bal, w.holdings d = some bal ∧ w'.holdings d = some bal ∧ cs.outstanding ≤ bal ∧
      w'.st.chan.get? (ch, d) = some ⟨bal, cs.totalSent + (bal - cs.outstanding)⟩ ∧
      outstanding w'.st ch d = bal ∧
      totAt w'.st.chan (ch, d) = totAt w.st.chan (ch, d) + (bal - outstanding w.st ch d) ∧
      outstanding w'.st ch d = outstanding w.st ch d + (bal - outstanding w.st ch d) := by
  obtain ⟨hm, e2, e3, e4, e5, _⟩ := exec_migrate_frame h
  obtain ⟨r1, _⟩ := migrate_legacy_entry hnd hv hch hm
  obtain ⟨bal, hb, hle, hget⟩ := r1 d cs hg
  refine ⟨bal, hb, by rw [holdings_eq_of_frame e2 e3 e4 e5 d]; exact hb, hle, hget, ?_, ?_, ?_⟩
  · simp [outstanding, hget]
  · simp [totAt, outstanding, hget, hg]
  · simp [outstanding, hget, hg]; omega

/-- The other keys: entries of a channel other than the migrated one (there are none in a well-formed
state) and absent keys are not touched by the migration. -/
theorem migrate_other_keys {w w' : World} {blk : Block} {g : Option Nat} {o : Outcome} {ch : String}
    (hnd : AMap.NodupKeys w.st.chan) (hv : Version.le w.st.version MIGRATE_VERSION_3 = true)
    (hch : w.st.channels = [ch]) (h : w.exec blk (.migrate g) = .ok (w', o)) (k : Key)
    (hk : k ∉ AMap.keys w.st.chan ∨ k.1 ≠ ch) : w'.st.chan.get? k = w.st.chan.get? k :=
  (migrate_legacy_entry hnd hv hch (exec_migrate_frame h).1).2 k hk

/-- **C12, redeem_after_migrate_ok**: after such a migration every token the contract holds for the
channel is redeemable / refundable as far as the books are concerned: for any amount up to the real
holdings `bal` of a denomination of the channel, the `reduce_channel_balance` step (of an incoming
redemption, an error acknowledgement or a timeout) cannot fail. -/
theorem redeem_after_migrate_ok {w w' : World} {blk : Block} {g : Option Nat} {o : Outcome} {ch : String}
    (hnd : AMap.NodupKeys w.st.chan) (hv : Version.le w.st.version MIGRATE_VERSION_3 = true)
    (hch : w.st.channels = [ch]) (h : w.exec blk (.migrate g) = .ok (w', o))
    {d : Denom} {cs : ChanState} (hg : w.st.chan.get? (ch, d) = some cs)
    {bal amt : Nat} (hb : w'.holdings d = some bal) (hle : amt ≤ bal) :
    ∃ m, reduceBalance w'.st.chan ch d amt = .ok m ∧ outAt m (ch, d) = bal - amt := by
  obtain ⟨bal', _, hb', _, hget, _⟩ := migrate_books_inflight hnd hv hch h hg
  rw [hb] at hb'; cases hb'
  refine ⟨_, reduceBalance_ok_of_le hget hle, ?_⟩
  simp [outAt]

/-- **C12, receive_after_migrate_ok**: a later honest redemption — an incoming packet on the migrated
channel whose voucher denomination carries the packet's source port/channel, for an in-flight amount
up to the holdings, of a payable token — is accepted by `do_ibc_packet_receive` (not refused for
insufficient channel balance): it produces the payout sub-message for the full amount. -/
theorem receive_after_migrate_ok {w w' : World} {blk : Block} {g : Option Nat} {o : Outcome}
    (hnd : AMap.NodupKeys w.st.chan) (hv : Version.le w.st.version MIGRATE_VERSION_3 = true)
    {p : PacketIn} (hch : w.st.channels = [p.destChan]) (h : w.exec blk (.migrate g) = .ok (w', o))
    {d : Denom} {cs : ChanState} (hg : w.st.chan.get? (p.destChan, d) = some cs)
    {bal amt : Nat} (hb : w'.holdings d = some bal) (hle : amt ≤ bal)
    (hamt : p.amount = some amt) (hvch : p.voucher = some (p.srcPort, p.srcChan, d))
    {tv : Bool} {gas : Option Nat} (hgas : checkGasLimit w'.st d tv = .ok gas) :
    ∃ s1, doReceive w'.st p tv = .ok (s1, ⟨p.receiver, amt, d, gas, RECEIVE_ID⟩) ∧
      outstanding s1 p.destChan d = bal - amt := by
  obtain ⟨bal', _, hb', _, hget, _⟩ := migrate_books_inflight hnd hv hch h hg
  rw [hb] at hb'; cases hb'
  refine ⟨_, doReceive_ok_of_entry hget hamt hvch hle hgas, ?_⟩
  simp [outstanding]

/-- **C12, refund_after_migrate_ok**: likewise a later error acknowledgement or timeout of a transfer
that was in flight during the migration (amount up to the holdings, payable token) is accepted by
`on_packet_failure`: the refund sub-message for the full amount is produced. -/
theorem refund_after_migrate_ok {w w' : World} {blk : Block} {g : Option Nat} {o : Outcome} {ch : String}
    (hnd : AMap.NodupKeys w.st.chan) (hv : Version.le w.st.version MIGRATE_VERSION_3 = true)
    (hch : w.st.channels = [ch]) (h : w.exec blk (.migrate g) = .ok (w', o))
    {pk : Packet} {cs : ChanState} (hg : w.st.chan.get? (ch, pk.denom) = some cs)
    {bal : Nat} (hb : w'.holdings pk.denom = some bal) (hle : pk.amount ≤ bal)
    {tv : Bool} {gas : Option Nat} (hgas : checkGasLimit w'.st pk.denom tv = .ok gas) :
    ∃ s1, onPacketFailure w'.st ch (some pk) tv = .ok (s1, ⟨pk.sender, pk.amount, pk.denom, gas, ACK_FAILURE_ID⟩) ∧
      outstanding s1 ch pk.denom = bal - pk.amount := by
  obtain ⟨bal', _, hb', _, hget, _⟩ := migrate_books_inflight hnd hv hch h hg
  rw [hb] at hb'; cases hb'
  refine ⟨_, onPacketFailure_ok_of_entry hget hle hgas, ?_⟩
  simp [outstanding]

/-! ## The re-baselined ledger is the contract's own `total_sent` counter -/

/-- **C12, outstanding_identity with packets in flight at the start**: the identity of
`outstanding_identity` for a start state that already has packets in flight (`fl`: sent by an earlier
history — e.g. under the old code, before a migration — and still awaiting their acknowledgement or
timeout, which `admissible` then lets through once each). -/
theorem outstanding_identity_inflight (w : World) (fl : List (String × Packet)) (ops : List (Block × Op))
    (c : String) (d : Denom) :
    let wg := runG (w, Ghost.initWith w fl) ops
    outstanding wg.1.st c d + wg.2.failed (c, d) + wg.2.redeemed (c, d) = wg.2.sent (c, d) := by
  intro wg
  exact (runG_ledger ops (ledgerInv_initWith w fl)).1 (c, d)

/-- **C12, sent_tracks_total_sent**: on every history from a well-formed state — with migrations anywhere,
and any set `fl` of packets in flight at the start — the ghost ledger `sent` of `outstanding_identity` and
the contract's own counter `total_sent` (reported by `Channel{id}`) move in lock step, for every channel
and denomination: a transfer adds its amount to both, and a migration from ≤ 0.13.0, which re-baselines
`sent`, adds to `total_sent` exactly what it adds to `outstanding` (the in-flight tokens it books).  So
the re-baselining is not an artefact of the ghost: `sent − sent₀ = total_sent − total_sent₀` throughout. -/
theorem sent_tracks_total_sent (w : World) (fl : List (String × Packet)) (ops : List (Block × Op))
    (hwf : WellFormed w.st) (c : String) (d : Denom) :
    let wg := runG (w, Ghost.initWith w fl) ops
    totAt wg.1.st.chan (c, d) + outstanding w.st c d = wg.2.sent (c, d) + totAt w.st.chan (c, d) := by
  intro wg
  have h0 : TotInv (totAt w.st.chan) (outAt w.st.chan) (w, Ghost.initWith w fl) := by
    intro k; simp only [Ghost.init, Ghost.initWith]; omega
  have := runG_totInv ops hwf (ledgerInv_initWith w fl) h0 (c, d)
  rw [outstanding_eq]; exact this

/-- **C12, outstanding_identity in observable terms**: combining the two, on every history (migrations
included) `outstanding + failedOrTimedOut + redeemed = outstanding₀ + (total_sent − total_sent₀)`, stated
additively: the accounting identity with "sent" read off the contract's own `total_sent`. -/
theorem outstanding_identity_total_sent (w : World) (fl : List (String × Packet)) (ops : List (Block × Op))
    (hwf : WellFormed w.st) (c : String) (d : Denom) :
    let wg := runG (w, Ghost.initWith w fl) ops
    outstanding wg.1.st c d + wg.2.failed (c, d) + wg.2.redeemed (c, d) + totAt w.st.chan (c, d)
      = outstanding w.st c d + totAt wg.1.st.chan (c, d) := by
  have h1 := outstanding_identity_inflight w fl ops c d
  have h2 := sent_tracks_total_sent w fl ops hwf c d
  simp only at h1 h2 ⊢
  omega

/-- From a fresh instantiation: `outstanding + failedOrTimedOut + redeemed = total_sent`. -/
theorem outstanding_identity_fresh {m : InstMsg} {s : State} (hi : instantiate m = .ok s) (w : World) (ops : List (Block × Op))
    (c : String) (d : Denom) :
    let wg := runG ({ w with st := s }, Ghost.init { w with st := s }) ops
    outstanding wg.1.st c d + wg.2.failed (c, d) + wg.2.redeemed (c, d) = totAt wg.1.st.chan (c, d) := by
  intro wg
  have h := outstanding_identity_total_sent { w with st := s } [] ops (instantiate_wellFormed hi) c d
  rw [Ghost.initWith_nil] at h
  simp [instantiate] at hi
  obtain ⟨_, allow, _, rfl⟩ := hi
  simpa [totAt, outstanding] using h

/-! ## Error acknowledgements are unobservable -/

/-- `REPLY_ARGS` is not observable: no query reads it. -/
theorem replyArgs_not_observable (s : State) (r : Option ReplyArgs) :
    (∀ id, queryChannel { s with replyArgs := r } id = queryChannel s id) ∧
    queryConfig { s with replyArgs := r } = queryConfig s ∧
    queryAdmin { s with replyArgs := r } = queryAdmin s ∧
    (∀ c, queryAllowed { s with replyArgs := r } c = queryAllowed s c) ∧
    (∀ a l, queryListAllowed { s with replyArgs := r } a l = queryListAllowed s a l) ∧
    ({ s with replyArgs := r } : State).channels = s.channels :=
  ⟨fun _ => rfl, rfl, rfl, fun _ => rfl, fun _ _ => rfl, rfl⟩

/-- **C12, error_ack_queries_unchanged**: whenever the final acknowledgement of an incoming packet is an
error, everything observable is exactly as before the packet: the result of every query of the
contract (`Channel{id}` = balances and total_sent per denomination, `ListChannels`, `Config`, `Admin`,
`Allowed`, `ListAllowed` for every argument), the contract's real holdings of every denomination and
every bank and cw20 balance of every account; and no payout went out.  (The only storage item that may
differ, `REPLY_ARGS`, is read by no query.) -/
theorem error_ack_queries_unchanged {w w' : World} {blk : Block} {p : PacketIn} {rv tv f : Bool} {o : Outcome}
    (h : w.exec blk (.recv p rv tv f) = .ok (w', o)) (ha : o.ack = some .error) :
    (∀ id, queryChannel w'.st id = queryChannel w.st id) ∧
    w'.st.channels = w.st.channels ∧
    queryConfig w'.st = queryConfig w.st ∧
    queryAdmin w'.st = queryAdmin w.st ∧
    (∀ c, queryAllowed w'.st c = queryAllowed w.st c) ∧
    (∀ a l, queryListAllowed w'.st a l = queryListAllowed w.st a l) ∧
    (∀ d, w'.holdings d = w.holdings d) ∧
    (∀ a d, w'.bankBal a d = w.bankBal a d) ∧
    (∀ t a, w'.tokBal t a = w.tokBal t a) := by
  have e := error_ack_state_unchanged h ha
  generalize w'.st.replyArgs = r at e
  subst e
  exact ⟨fun _ => rfl, rfl, rfl, rfl, fun _ => rfl, fun _ _ => rfl, fun d => by cases d <;> rfl, fun _ _ => rfl, fun _ _ => rfl⟩

/-! ## Explicit environment assumptions -/

/-- **C12, outstanding_identity with explicit environment**: the accounting identity
`outstanding + failedOrTimedOut + redeemed = sent` on every history of the *unguarded* semantics that
satisfies the environment assumptions E1–E3. -/
theorem outstanding_identity_explicit_env (w : World) (ops : List (Block × Op))
    (henv : EnvAssumptions w.self w.tokens ops) (c : String) (d : Denom) :
    let wg := runGRaw (w, Ghost.init w) ops
    outstanding wg.1.st c d + wg.2.failed (c, d) + wg.2.redeemed (c, d) = wg.2.sent (c, d) := by
  intro wg
  have : wg = runG (w, Ghost.init w) ops := runGRaw_eq_runG (w, Ghost.init w) ops henv
  rw [this]
  exact outstanding_identity w ops c d

/-- **C12, storage_keys_faithful** (where E3 is needed): on every history satisfying the environment
assumptions — in particular no native denomination attached to a transfer starts with `cw20:` — from a
well-formed state whose stored native denominations satisfy E3 (e.g. a fresh instantiation), the
books have exactly one entry per *storage* key: two entries under the same channel whose
denominations render to the same string (`Amount::denom()`, what `Channel{id}` reports and what the
contract uses as map key) are the same entry.  Hence every per-`(channel, denomination)` statement
about the model is a statement about the contract's `CHANNEL_STATE[(channel, denom string)]`. -/
theorem storage_keys_faithful (w : World) (ops : List (Block × Op))
    (henv : EnvAssumptions w.self w.tokens ops) (hwf : WellFormed w.st) (hk : KeysFaithful w.st.chan)
    {e e' : Key × ChanState} (he : e ∈ (runRaw w ops).st.chan) (he' : e' ∈ (runRaw w ops).st.chan)
    (hc : e.1.1 = e'.1.1) (hr : e.1.2.render = e'.1.2.render) : e = e' := by
  obtain ⟨h1, h2⟩ := runRaw_keysFaithful w ops henv hwf hk
  exact entries_eq_of_same_storage_key h1.1 h2 he he' hc hr

/-! ## Non-vacuity: concrete histories -/

def w0 : World :=
  { st := { config := ⟨3600, none⟩, admin := some "gov", allow := [("T1", some 500)], channels := ["channel-0"],
            chan := [], versionName := CONTRACT_NAME, version := CONTRACT_VERSION },
    self := "ics20", tokens := ["T1"], faulty := [], bank := [(("alice", "uatom"), 100)], tok := [(("T1", "alice"), 100)] }

def b0 : Block := ⟨1, 1000⟩
def tm : TransferMsg := ⟨"channel-0", "remote-bob", none, some "memo"⟩
def pkt (d : Denom) (amt : Nat) : PacketIn :=
  ⟨"transfer", "channel-10", "channel-0", some amt, some ("transfer", "channel-10", d), "alice", "remote-bob"⟩

/-- send 40 T1, redeem 15 (paid), redeem 10 with a failing payout (error ack, nothing changes),
then the remaining send of 60 uatom fails remotely and is refunded -/
def hist : List (Block × Op) :=
  [(b0, .sendCw20 "alice" "T1" 40 (some tm)),
   (b0, .recv (pkt (.cw20 "T1") 15) true true false),
   (b0, .recv (pkt (.cw20 "T1") 10) false true false),
   (b0, .transferNative "alice" [("uatom", 60)] tm),
   (b0, .ack "channel-0" (some ⟨60, .native "uatom", "remote-bob", "alice", some "memo"⟩) (some false) true true false)]

example : outstanding (runG (w0, Ghost.init w0) hist).1.st "channel-0" (.cw20 "T1") = 25 := by decide
example : (runG (w0, Ghost.init w0) hist).2.sent ("channel-0", .cw20 "T1") = 40 := by decide
example : (runG (w0, Ghost.init w0) hist).2.redeemed ("channel-0", .cw20 "T1") = 15 := by decide
example : (runG (w0, Ghost.init w0) hist).2.failed ("channel-0", .native "uatom") = 60 := by decide
example : outstanding (runG (w0, Ghost.init w0) hist).1.st "channel-0" (.native "uatom") = 0 := by decide
example : (runG (w0, Ghost.init w0) hist).1.bankBal "alice" "uatom" = 100 := by decide
example : (runG (w0, Ghost.init w0) hist).1.tokBal "T1" "alice" = 75 := by decide
/-- the emitted packet of the first transfer -/
example : ((w0.exec b0 (.sendCw20 "alice" "T1" 40 (some tm))).toOption.map (·.2.sent)) =
    some [⟨"channel-0", ⟨40, .cw20 "T1", "remote-bob", "alice", some "memo"⟩, 1000 + 3600 * 1000000000⟩] := by decide


/-! ## Non-vacuity: the upgrade path and unobservable error acknowledgements -/

/-- A contract stored by release 0.11.1 (pre-allow-list layout: `gov_contract` inside the config, no `ADMIN`
item, no allow list): one channel; it booked 40 uatom / 10 T1 (acknowledged transfers) and holds 100 uatom /
25 T1 — 60 uatom and 15 T1 are in flight. -/
def wL : World :=
  { st := { config := ⟨3600, none⟩, v1gov := some "gov", admin := none, allow := [], channels := ["channel-0"],
            chan := [(("channel-0", .native "uatom"), ⟨40, 70⟩), (("channel-0", .cw20 "T1"), ⟨10, 10⟩)],
            versionName := CONTRACT_NAME, version := ⟨0, 11, 1, none⟩ },
    self := "ics20", tokens := ["T1"], faulty := [], bank := [(("ics20", "uatom"), 100)],
    tok := [(("T1", "ics20"), 25)] }

/-- the hypotheses of `migrate_books_inflight` / `redeem_after_migrate_ok` hold on `wL` -/
example : AMap.NodupKeys wL.st.chan ∧ Version.le wL.st.version MIGRATE_VERSION_3 = true ∧
    wL.st.channels = ["channel-0"] ∧ (wL.exec b0 (.migrate (some 5000))).isOk = true ∧
    wL.st.chan.get? ("channel-0", .cw20 "T1") = some ⟨10, 10⟩ := by
  refine ⟨by unfold AMap.NodupKeys; decide, by decide, by decide, by decide, by decide⟩

/-- after the migration: outstanding = holdings, total_sent grew by the same 60 / 15 -/
example : (wL.step b0 (.migrate (some 5000))).st.chan =
    [(("channel-0", .native "uatom"), ⟨100, 130⟩), (("channel-0", .cw20 "T1"), ⟨25, 25⟩)] := by decide

/-- migrate, then the in-flight 15 T1 fail remotely and are refunded, and the other 10 T1 plus all 100 uatom
are redeemed by incoming packets: every step succeeds, the books end at zero (T1 is payable through the
default gas limit set by the migration). -/
def histL : List (Block × Op) :=
  [(b0, .migrate (some 5000)),
   (b0, .timeout "channel-0" (some ⟨15, .cw20 "T1", "remote-bob", "alice", none⟩) true true false),
   (b0, .recv (pkt (.cw20 "T1") 10) true true false),
   (b0, .recv (pkt (.native "uatom") 100) true true false)]

example : (run wL histL).st.chan = [(("channel-0", .native "uatom"), ⟨0, 130⟩), (("channel-0", .cw20 "T1"), ⟨0, 25⟩)] ∧
    (run wL histL).tokBal "T1" "alice" = 25 ∧ (run wL histL).bankBal "alice" "uatom" = 100 := by decide

/-- an error acknowledgement that *does* change storage (`REPLY_ARGS` is written, the payout to an invalid
receiver fails, `reply` restores the balance): ack = error, and the books are the same -/
example : ((run w0 (hist.take 2)).exec b0 (.recv (pkt (.cw20 "T1") 10) false true false)).toOption.map
      (fun r => (r.2.ack, r.1.st.replyArgs, r.1.st.chan == (run w0 (hist.take 2)).st.chan)) =
    some (some .error, some ⟨"channel-0", .cw20 "T1", 10⟩, true) := by decide

/-- `sent_tracks_total_sent` on the legacy history: the migration books 60 uatom in flight — the ghost
`sent` goes from 40 to 100, the contract's `total_sent` from 70 to 130. -/
example : WellFormed wL.st := ⟨by unfold AMap.NodupKeys; decide, by decide⟩
/-- the 15 T1 sent under the old code are in flight at the start -/
def flL : List (String × Packet) := [("channel-0", ⟨15, .cw20 "T1", "remote-bob", "alice", none⟩)]
example : (runG (wL, Ghost.initWith wL flL) histL).2.sent ("channel-0", .native "uatom") = 100 ∧
    totAt (runG (wL, Ghost.initWith wL flL) histL).1.st.chan ("channel-0", .native "uatom") = 130 ∧
    (runG (wL, Ghost.initWith wL flL) histL).2.redeemed ("channel-0", .native "uatom") = 100 ∧
    (runG (wL, Ghost.initWith wL flL) histL).2.failed ("channel-0", .cw20 "T1") = 15 ∧
    (runG (wL, Ghost.initWith wL flL) histL).2.sent ("channel-0", .cw20 "T1") = 25 := by decide

/-- The environment assumptions hold of the demo history, and a state with the keys of `wL` is faithful. -/
example : EnvAssumptions w0.self w0.tokens hist := by
  refine ⟨?_, ⟨?_, ?_⟩, ?_⟩
  · intro blk snd funds sender amt msg hm; simp [hist] at hm
  · intro blk snd funds msg hm
    simp [hist] at hm
    obtain ⟨_, rfl, _⟩ := hm; decide
  · intro blk snd token amt msg hm
    simp [hist] at hm
    obtain ⟨_, rfl, _⟩ := hm; decide
  · intro blk snd funds msg hm f hf
    simp [hist] at hm
    obtain ⟨_, _, rfl, _⟩ := hm
    simp at hf; subst hf; exact nativeOk_of_take (by decide)
example : KeysFaithful wL.st.chan := by
  intro k hk
  simp [wL, AMap.keys] at hk
  rcases hk with rfl | rfl
  · exact nativeOk_of_take (by decide)
  · trivial

/-! ## All histories (no `admissible` filter); `sent` without re-baselining

`runU` (Lemmas/Ics20Ledger.lean) carries the ghosts over *every* op of a history; its world is `run`. -/

/-- **C12, outstanding_identity on every history** (clause "outstanding = sent − failed/timed-out −
redeemed, always", without the IBC-core assumption `admissible`): also when acknowledgements / timeouts
are forged, repeated or name packets never sent — `failed` then counts every failure the contract
*processed*.  The world of the ghost history is the plain history `run w ops`. -/
theorem outstanding_identity_all_histories (w : World) (ops : List (Block × Op)) (c : String) (d : Denom) :
    (runU (w, Ghost.init w) ops).1 = run w ops ∧
    outstanding (run w ops).st c d + (runU (w, Ghost.init w) ops).2.failed (c, d)
      + (runU (w, Ghost.init w) ops).2.redeemed (c, d) = (runU (w, Ghost.init w) ops).2.sent (c, d) := by
  have e : (runU (w, Ghost.init w) ops).1 = run w ops := runU_fst (w, Ghost.init w) ops
  have h := (runU_ledger ops (ledgerInv_init w)).1 (c, d)
  rw [e] at h
  exact ⟨e, h⟩

/-- **C12, sent_tracks_total_sent on every history**: the lock step of the ghost `sent` with the
contract's own `total_sent` counter, without the `admissible` filter. -/
theorem sent_tracks_total_sent_all_histories (w : World) (ops : List (Block × Op)) (hwf : WellFormed w.st)
    (c : String) (d : Denom) :
    totAt (run w ops).st.chan (c, d) + outstanding w.st c d =
      (runU (w, Ghost.init w) ops).2.sent (c, d) + totAt w.st.chan (c, d) := by
  have h0 : TotInv (totAt w.st.chan) (outAt w.st.chan) (w, Ghost.init w) := by
    intro k; simp only [Ghost.init]; omega
  have := runU_totInv ops hwf (ledgerInv_init w) h0 (c, d)
  rw [runU_fst] at this
  rw [outstanding_eq]; exact this

/-- **C12, `sent` is the sum of the accepted transfers** (clause 1 without the definitional step at a
migration): for a contract whose stored version is newer than 0.13.0, on every history with `migrate` ops
anywhere, `outstanding + failedOrTimedOut + redeemed = outstanding₀ + Σ accepted transfers`, where the sum
(`sentOf`) is read off the transaction outcomes — the packet amount of every accepted transfer on that
channel and denomination. -/
theorem outstanding_identity_sum_of_transfers (w : World) (ops : List (Block × Op))
    (hv : Version.lt MIGRATE_VERSION_3 w.st.version = true) (c : String) (d : Denom) :
    outstanding (run w ops).st c d + (runU (w, Ghost.init w) ops).2.failed (c, d)
      + (runU (w, Ghost.init w) ops).2.redeemed (c, d) = outstanding w.st c d + sentOf w ops (c, d) := by
  obtain ⟨_, h⟩ := outstanding_identity_all_histories w ops c d
  rw [h]
  exact runU_sent_postV3 (wg := (w, Ghost.init w)) ops hv (ledgerInv_init w) (c, d)

/-- **C12, the identity from a fresh instantiation, on every history**:
`outstanding + failedOrTimedOut + redeemed = Σ accepted transfers = total_sent`. -/
theorem outstanding_identity_fresh_all_histories {m : InstMsg} {s : State} (hi : instantiate m = .ok s) (w : World)
    (ops : List (Block × Op)) (c : String) (d : Denom) :
    outstanding (run { w with st := s } ops).st c d + (runU ({ w with st := s }, Ghost.init { w with st := s }) ops).2.failed (c, d)
      + (runU ({ w with st := s }, Ghost.init { w with st := s }) ops).2.redeemed (c, d) = sentOf { w with st := s } ops (c, d) ∧
    totAt (run { w with st := s } ops).st.chan (c, d) = sentOf { w with st := s } ops (c, d) := by
  have h1 := outstanding_identity_sum_of_transfers { w with st := s } ops (instantiate_postV3S hi) c d
  have h2 := sent_tracks_total_sent_all_histories { w with st := s } ops (instantiate_wellFormed hi) c d
  have h3 := (outstanding_identity_all_histories { w with st := s } ops c d).2
  have h0 : outstanding s c d = 0 ∧ totAt s.chan (c, d) = 0 := by
    simp [instantiate] at hi
    obtain ⟨_, allow, _, rfl⟩ := hi
    exact ⟨rfl, rfl⟩
  simp only [h0.1, h0.2] at h1 h2
  omega

/-- **C12, handling a packet never aborts, from a fresh instantiation** (`receive_never_aborts` with
its `Bounded` hypothesis discharged). -/
theorem receive_never_aborts_fresh {m : InstMsg} {s : State} (hi : instantiate m = .ok s) (w : World)
    (ops : List (Block × Op)) (blk : Block) (p : PacketIn) (rv tv f : Bool) :
    ∃ w' o, (run { w with st := s } ops).exec blk (.recv p rv tv f) = .ok (w', o) ∧ o.ack.isSome := by
  apply receive_never_aborts
  intro k
  simp [instantiate] at hi
  obtain ⟨_, allow, _, rfl⟩ := hi
  simp [outAt]

/-- `sentOf` on the demo history; with a forged second error acknowledgement of the 60 uatom appended, the
forged one is refused by the books (nothing outstanding) and the identity holds with `failed = 60`. -/
example : sentOf w0 hist ("channel-0", .cw20 "T1") = 40 ∧ sentOf w0 hist ("channel-0", .native "uatom") = 60 := by decide
example : (runU (w0, Ghost.init w0) (hist ++ hist.drop 4)).2.failed ("channel-0", .native "uatom") = 60 ∧
    outstanding (run w0 (hist ++ hist.drop 4)).st "channel-0" (.native "uatom") = 0 := by decide

/-! ## Packets in flight, and the honest counterparty of the quantifier

`Lemmas/Ics20Honest.lean`: `inflightSum`, `ackedOf` (Σ of the success acknowledgements processed along
`runG`), the annotated histories `List HEv` (our transactions interleaved with the counterparty's
`deliver` events), the counterparty state `CpState` (pending / delivered packets, minted vouchers),
`honestEv` / `HonestFrom` (what an honest counterparty chain and IBC core do) and the invariant `HInv`. -/

/-- **C12, inflight_accounting** (relates the ghost `inflight` — so far only a filter — to the ledgers;
clause "minus those whose send *failed or timed out*"): for a contract at a stored version newer than
0.13.0, on every admissible history (migrations anywhere), per channel and denomination
`failed + ackedOk + Σ in flight = sent − outstanding₀`, i.e. every failure and every success
acknowledgement consumed a distinct earlier send, and therefore
`outstanding + redeemed = outstanding₀ + ackedOk + Σ in flight`: the books are short of the packets in
flight exactly when more vouchers came back than were confirmed. -/
theorem inflight_accounting (w : World) (ops : List (Block × Op))
    (hv : Version.lt MIGRATE_VERSION_3 w.st.version = true) (c : String) (d : Denom) :
    let wg := runG (w, Ghost.init w) ops
    wg.2.failed (c, d) + ackedOf (w, Ghost.init w) ops (c, d) + inflightSum wg.2 (c, d) + outstanding w.st c d
      = wg.2.sent (c, d) ∧
    outstanding wg.1.st c d + wg.2.redeemed (c, d)
      = outstanding w.st c d + ackedOf (w, Ghost.init w) ops (c, d) + inflightSum wg.2 (c, d) := by
  intro wg
  have hwg : wg = runG (w, Ghost.init w) ops := rfl
  clear_value wg; subst hwg
  have h1 := runG_inflight (wg := (w, Ghost.init w)) ops hv (ledgerInv_init w) (c, d)
  have h2 := (runG_ledger ops (ledgerInv_init w)).1 (c, d)
  have e1 : (w, Ghost.init w).2.sent (c, d) = outAt w.st.chan (c, d) := rfl
  have e2 : (w, Ghost.init w).2.failed (c, d) = 0 := rfl
  have e3 : inflightSum (w, Ghost.init w).2 (c, d) = 0 := rfl
  rw [e1, e2, e3] at h1
  rw [outstanding_eq, outstanding_eq]
  constructor <;> omega

/-- **C12, refund_never_refused (honest counterparty)** — the content of "with an honest counterparty
chain" in the quantifier.  For a contract at a stored version newer than 0.13.0 (e.g. freshly
instantiated), on every annotated history that is honest (`HonestFrom`: success acknowledgements only
for packets the counterparty accepted, error acknowledgements / timeouts only for packets it did not
accept, vouchers come back only as far as they were minted — possibly before the acknowledgement of the
minting transfer is relayed; everything else arbitrary: any transfers, governance, migrations, fault
flags), for every packet `p` still pending on `chan`:

* the world is the plain history of the transactions, and it is an admissible history of `runG`;
* the channel balance covers the packet: `p.amount ≤ outstanding chan p.denom` — the refund is never
  refused for lack of channel balance;
* **exact condition for the refund transaction**: whenever the gas check of the denomination passes
  (`checkGasLimit … = .ok gas`: native, or a cw20 token that validates and is allow-listed or covered by
  a default gas limit), both the timeout and the error acknowledgement of `p` are processed — the
  transaction succeeds and emits the refund sub-message to the original sender for the full amount with
  that gas limit; and if the gas check fails (a token that is neither allowed nor default-covered, or an
  address that does not validate) the transaction is aborted as a whole (`refund_refused_iff_gas`). -/
theorem refund_never_refused (w : World) (hv : Version.lt MIGRATE_VERSION_3 w.st.version = true) (evs : List HEv)
    (hh : HonestFrom (HState.init w) evs) {chan : String} {p : Packet}
    (hm : (chan, p) ∈ (runH (HState.init w) evs).c.pending) :
    (runH (HState.init w) evs).w = run w (opsOf evs) ∧
    ((runH (HState.init w) evs).w, (runH (HState.init w) evs).g) = runG (w, Ghost.init w) (opsOf evs) ∧
    p.amount ≤ outstanding (run w (opsOf evs)).st chan p.denom ∧
    ∀ (blk : Block) (sv tv f : Bool) (gas : Option Nat), checkGasLimit (run w (opsOf evs)).st p.denom tv = .ok gas →
      (∃ w' o, (run w (opsOf evs)).exec blk (.timeout chan (some p) sv tv f) = .ok (w', o) ∧
        o.sub = some ⟨p.sender, p.amount, p.denom, gas, ACK_FAILURE_ID⟩) ∧
      (∃ w' o, (run w (opsOf evs)).exec blk (.ack chan (some p) (some false) sv tv f) = .ok (w', o) ∧
        o.sub = some ⟨p.sender, p.amount, p.denom, gas, ACK_FAILURE_ID⟩) := by
  have hI := runH_inv evs (hinv_init w hv) hh
  have hw : (runH (HState.init w) evs).w = run w (opsOf evs) := runH_w (HState.init w) evs
  obtain ⟨cs, hg, hle⟩ := hinv_pending_covered hI hm
  rw [hw] at hg
  refine ⟨hw, runH_eq_runG evs (hinv_init w hv) hh, by simp [outstanding, hg, hle], ?_⟩
  intro blk sv tv f gas hgas
  have hf := onPacketFailure_ok_of_entry hg hle hgas
  exact ⟨exec_timeout_ok hf blk sv f, exec_ackFail_ok hf blk sv f⟩

/-- **C12, the refund of a pending packet is refused iff the gas check refuses its denomination**
(honest counterparty, stored version newer than 0.13.0): the only way the timeout / error-acknowledgement
transaction of a pending packet can abort is `check_gas_limit` — a cw20 token that is neither on the
allow list nor covered by a default gas limit (or whose address does not validate). -/
theorem refund_refused_iff_gas (w : World) (hv : Version.lt MIGRATE_VERSION_3 w.st.version = true) (evs : List HEv)
    (hh : HonestFrom (HState.init w) evs) {chan : String} {p : Packet}
    (hm : (chan, p) ∈ (runH (HState.init w) evs).c.pending) (blk : Block) (sv tv f : Bool) :
    ((∃ e, (run w (opsOf evs)).exec blk (.timeout chan (some p) sv tv f) = .error e) ↔
      ∃ e, checkGasLimit (run w (opsOf evs)).st p.denom tv = .error e) ∧
    ((∃ e, (run w (opsOf evs)).exec blk (.ack chan (some p) (some false) sv tv f) = .error e) ↔
      ∃ e, checkGasLimit (run w (opsOf evs)).st p.denom tv = .error e) := by
  obtain ⟨_, _, _, hok⟩ := refund_never_refused w hv evs hh hm
  cases hg : checkGasLimit (run w (opsOf evs)).st p.denom tv with
  | ok gas =>
    obtain ⟨⟨w1, o1, h1, _⟩, ⟨w2, o2, h2, _⟩⟩ := hok blk sv tv f gas hg
    constructor <;> constructor
    · rintro ⟨e, he⟩; rw [h1] at he; cases he
    · rintro ⟨e, he⟩; cases he
    · rintro ⟨e, he⟩; rw [h2] at he; cases he
    · rintro ⟨e, he⟩; cases he
  | error e =>
    obtain ⟨h1, h2⟩ := refund_aborts_of_gas_error (chan := chan) hg blk sv f
    exact ⟨⟨fun _ => ⟨e, rfl⟩, fun _ => h1⟩, ⟨fun _ => ⟨e, rfl⟩, fun _ => h2⟩⟩

/-- **C12, honest histories from a fresh instantiation**: `refund_never_refused` with its version
hypothesis discharged by `instantiate`. -/
theorem refund_never_refused_fresh {m : InstMsg} {s : State} (hi : instantiate m = .ok s) (w : World) (evs : List HEv)
    (hh : HonestFrom (HState.init { w with st := s }) evs) {chan : String} {p : Packet}
    (hm : (chan, p) ∈ (runH (HState.init { w with st := s }) evs).c.pending) :
    p.amount ≤ outstanding (run { w with st := s } (opsOf evs)).st chan p.denom :=
  (refund_never_refused { w with st := s } (instantiate_postV3S hi) evs hh hm).2.2.1

/-! ### Non-vacuity: an honest annotated history, and what a dishonest counterparty breaks -/

def pT1 : Packet := ⟨40, .cw20 "T1", "remote-bob", "alice", some "memo"⟩
def pU : Packet := ⟨60, .native "uatom", "remote-bob", "alice", some "memo"⟩

/-- alice sends 40 T1; the counterparty accepts the packet and mints; 15 vouchers come back *before* the
success acknowledgement is relayed; the acknowledgement arrives; alice sends 60 uatom (still pending). -/
def hev : List HEv :=
  [.op b0 (.sendCw20 "alice" "T1" 40 (some tm)),
   .deliver "channel-0" pT1,
   .op b0 (.recv (pkt (.cw20 "T1") 15) true true false),
   .op b0 (.ack "channel-0" (some pT1) (some true) true true false),
   .op b0 (.transferNative "alice" [("uatom", 60)] tm)]

example : HonestFrom (HState.init w0) hev := by
  refine ⟨trivial, ?_, ?_, ?_, trivial, trivial⟩
  · show ("channel-0", pT1) ∈ (_ : List (String × Packet)); decide
  · intro amt port ch d h1 h2
    cases h1; cases h2; decide
  · show ("channel-0", pT1) ∈ (_ : List (String × Packet)); decide

example : ("channel-0", pU) ∈ (runH (HState.init w0) hev).c.pending ∧
    outstanding (runH (HState.init w0) hev).w.st "channel-0" (.native "uatom") = 60 ∧
    outstanding (runH (HState.init w0) hev).w.st "channel-0" (.cw20 "T1") = 25 ∧
    (runH (HState.init w0) hev).c.minted ("channel-0", .cw20 "T1") = 40 ∧
    ackedOf (w0, Ghost.init w0) (opsOf hev) ("channel-0", .cw20 "T1") = 40 ∧
    inflightSum (runG (w0, Ghost.init w0) (opsOf hev)).2 ("channel-0", .native "uatom") = 60 := by decide

/-- Honesty is needed: if the counterparty lets 40 vouchers "come back" for a packet it never accepted
(`redeemed + 40 > minted = 0`), the contract pays them out, and the timeout of the still pending packet is
then refused for lack of channel balance — the transaction aborts although T1 is allow-listed. -/
example : ¬ HonestFrom (HState.init w0) [.op b0 (.sendCw20 "alice" "T1" 40 (some tm)), .op b0 (.recv (pkt (.cw20 "T1") 40) true true false)] := by
  rintro ⟨_, h, _⟩
  have := h 40 _ _ _ rfl rfl
  revert this; decide
example : ((run w0 [(b0, .sendCw20 "alice" "T1" 40 (some tm)), (b0, .recv (pkt (.cw20 "T1") 40) true true false)]).exec b0
      (.timeout "channel-0" (some pT1) true true false)).isOk = false ∧
    (checkGasLimit (run w0 [(b0, .sendCw20 "alice" "T1" 40 (some tm)), (b0, .recv (pkt (.cw20 "T1") 40) true true false)]).st
      (.cw20 "T1") true).isOk = true := by decide

/-! ### Honest counterparty and a contract deployed with the current code: refunds are always processed -/

/-- **C12, refund_always_processed_fresh** (honest counterparty + C18 `in_channel_payable`): for a contract
created by `instantiate` (any allow list, any default gas limit or none), on every honest annotated
history (governance ops and migrations by anybody anywhere), for every packet still pending on a channel,
the timeout and the error acknowledgement of that packet — with the cw20 address of its denomination
validating (`tv = true`; it was `info.sender` of the original `Receive`) — are **processed**: the
transaction succeeds and emits the refund of the full amount to the original sender, with the gas limit
`expectedGas` (the token's allow-list limit, else the default).  Neither the channel balance (honest
counterparty) nor the gas check (the token passed the transfer gate, and the allow list only loosens) can
refuse it.  The refund sub-call itself may still fail; it is then swallowed (`C11.refund_effects_*`). -/
theorem refund_always_processed_fresh {m : InstMsg} {s : State} (hi : instantiate m = .ok s) (w : World) (evs : List HEv)
    (hh : HonestFrom (HState.init { w with st := s }) evs) {chan : String} {p : Packet}
    (hm : (chan, p) ∈ (runH (HState.init { w with st := s }) evs).c.pending) (blk : Block) (sv f : Bool) :
    (∃ w' o, (run { w with st := s } (opsOf evs)).exec blk (.timeout chan (some p) sv true f) = .ok (w', o) ∧
      o.sub = some ⟨p.sender, p.amount, p.denom, C18.expectedGas (run { w with st := s } (opsOf evs)).st p.denom, ACK_FAILURE_ID⟩) ∧
    (∃ w' o, (run { w with st := s } (opsOf evs)).exec blk (.ack chan (some p) (some false) sv true f) = .ok (w', o) ∧
      o.sub = some ⟨p.sender, p.amount, p.denom, C18.expectedGas (run { w with st := s } (opsOf evs)).st p.denom, ACK_FAILURE_ID⟩) := by
  have hv := instantiate_postV3S hi
  obtain ⟨_, _, hle, hok⟩ := refund_never_refused { w with st := s } hv evs hh hm
  have hpos := (runH_inv evs (hinv_init { w with st := s } hv) hh).pending_pos _ hm
  simp only at hpos
  apply hok blk sv true f
  cases hd : p.denom with
  | native dn => rfl
  | cw20 t =>
    rw [hd] at hle
    have hpos' : 0 < outstanding (run { w with st := s } (opsOf evs)).st chan (.cw20 t) := by omega
    exact (C18.in_channel_payable hi w (opsOf evs) chan t (Or.inr hpos')).2

/-- a fresh instantiation and an honest history to which `refund_always_processed_fresh` applies: T1 is
allow-listed, alice's 40 T1 are pending -/
example : ∃ s, instantiate ⟨3600, ⟨true, "gov"⟩, [(⟨true, "T1"⟩, some 500)], none⟩ = .ok s ∧
    HonestFrom (HState.init { w0 with st := s })
      [.op b0 (.connect "channel-0" ICS20_VERSION none false {}), .op b0 (.sendCw20 "alice" "T1" 40 (some tm))] ∧
    ("channel-0", pT1) ∈ (runH (HState.init { w0 with st := s })
      [.op b0 (.connect "channel-0" ICS20_VERSION none false {}), .op b0 (.sendCw20 "alice" "T1" 40 (some tm))]).c.pending :=
  ⟨_, rfl, ⟨trivial, trivial, trivial⟩, by decide⟩

/-! ## The emitted packet carries what was really escrowed -/

/-- **C12, transfer_escrow_effects** (the balance side of `transfer_emits_one_packet`: "a packet carrying
the *escrowed* amount"): for an accepted transfer the amount in the emitted packet is exactly what moved
into the contract —
* native: the sender's bank balance of that denomination dropped by `amt` (it had at least `amt`), the
  contract's rose by `amt`, every other bank balance and every cw20 balance is unchanged;
* cw20 `Send`: the same for the token balances of that token (a token that exists), every other token
  balance and every bank balance unchanged;
* a direct `Receive` hook call (the caller is not a token contract that exists: E1) moves nothing at all —
  the packet's denomination `cw20:<caller>` is then no real token and has no holdings. -/
theorem transfer_escrow_effects {w w' : World} {blk : Block} {o : Outcome} :
    (∀ snd funds msg, w.exec blk (.transferNative snd funds msg) = .ok (w', o) →
      ∃ d amt out, funds = [(d, amt)] ∧ o.sent = [out] ∧ out.packet.amount = amt ∧ out.packet.denom = .native d ∧
        amt ≤ w.bankBal snd d ∧ w'.bankBal snd d + amt = w.bankBal snd d ∧
        w'.bankBal w.self d = w.bankBal w.self d + amt ∧
        (∀ a x, (a, x) ≠ (snd, d) → (a, x) ≠ (w.self, d) → w'.bankBal a x = w.bankBal a x) ∧ w'.tok = w.tok) ∧
    (∀ snd token amt msg, w.exec blk (.sendCw20 snd token amt msg) = .ok (w', o) →
      ∃ out, o.sent = [out] ∧ out.packet.amount = amt ∧ out.packet.denom = .cw20 token ∧ w.tokens.contains token = true ∧
        amt ≤ w.tokBal token snd ∧ w'.tokBal token snd + amt = w.tokBal token snd ∧
        w'.tokBal token w.self = w.tokBal token w.self + amt ∧
        (∀ t a, (t, a) ≠ (token, snd) → (t, a) ≠ (token, w.self) → w'.tokBal t a = w.tokBal t a) ∧ w'.bank = w.bank) ∧
    (∀ snd funds sender amt msg, w.exec blk (.hook snd funds sender amt msg) = .ok (w', o) →
      ∃ out, o.sent = [out] ∧ out.packet.amount = amt ∧ out.packet.denom = .cw20 snd ∧
        w'.bank = w.bank ∧ w'.tok = w.tok ∧ w.holdings (.cw20 snd) = none) := by
  refine ⟨?_, ?_, ?_⟩
  · intro snd funds msg h
    obtain ⟨d, amt, w1, s, out, rfl, hself, hb, hs, rfl, rfl⟩ := exec_transferNative_spec h
    obtain ⟨ch, _, _, _, _, _, _, rfl, _⟩ := execTransfer_spec hs
    obtain ⟨hle, hbal⟩ := bankSend_spec hb
    have htk := (bankSend_frame hb).2.1
    refine ⟨d, amt, _, rfl, rfl, rfl, rfl, hle, ?_, ?_, ?_, htk⟩
    · have := hbal snd d; simp [Ne.symm hself] at this
      show w1.bankBal snd d + amt = _
      rw [this]; omega
    · have := hbal w.self d; simp [hself] at this
      exact this
    · intro a x h1 h2
      have := hbal a x
      simp [Ne.symm h1, Ne.symm h2] at this
      exact this
  · intro snd token amt msg h
    obtain ⟨w1, m, s, out, hself, htoken, hb, rfl, hs, rfl, rfl⟩ := exec_sendCw20_spec h
    obtain ⟨ch, _, _, _, _, _, _, rfl, _⟩ := execTransfer_spec hs
    obtain ⟨hle, hbal⟩ := tokSend_spec hb
    have hbk := (tokSend_frame hb).2.1
    refine ⟨_, rfl, rfl, rfl, htoken, hle, ?_, ?_, ?_, hbk⟩
    · have := hbal token snd; simp [Ne.symm hself] at this
      show w1.tokBal token snd + amt = _
      rw [this]; omega
    · have := hbal token w.self; simp [hself] at this
      exact this
    · intro t a h1 h2
      have := hbal t a
      simp [Ne.symm h1, Ne.symm h2] at this
      exact this
  · intro snd funds sender amt msg h
    obtain ⟨m, s, out, hnt, rfl, hs, rfl, rfl⟩ := exec_hook_spec h
    obtain ⟨ch, _, _, _, _, _, _, rfl, _⟩ := execTransfer_spec hs
    exact ⟨_, rfl, rfl, rfl, rfl, rfl, by simp only [World.holdings, hnt, Bool.false_eq_true, if_false]⟩

/-- the first transfer of the demo history moves 40 T1 from alice into the contract -/
example : (w0.step b0 (.sendCw20 "alice" "T1" 40 (some tm))).tokBal "T1" "ics20" = 40 ∧
    (w0.step b0 (.sendCw20 "alice" "T1" 40 (some tm))).tokBal "T1" "alice" = 60 := by decide

/-! ## Frame of a successful redemption -/

/-- **C12, success_ack_frame** (clause 2, "…and the balance reduced by it", with everything else pinned
down): with a success acknowledgement, exactly the packet's amount moved from the contract to the
receiver and every other bank and cw20 balance is unchanged (`C11.Moved`); only the entry of the redeemed
(channel, denomination) changed in the books — every other `outstanding`, and every `total_sent`
including that entry's, is as before; allow list, admin, config, channel list and stored version are
untouched; `REPLY_ARGS` holds the redeemed triple. -/
theorem success_ack_frame {w w' : World} {blk : Block} {p : PacketIn} {rv tv f : Bool} {o : Outcome}
    (h : w.exec blk (.recv p rv tv f) = .ok (w', o)) (ha : o.ack = some .success) (hrs : p.receiver ≠ w.self) :
    ∃ amt d, p.amount = some amt ∧ p.voucher = some (p.srcPort, p.srcChan, d) ∧
      C11.Moved w w' d p.receiver amt ∧
      (∀ k, k ≠ (p.destChan, d) → outAt w'.st.chan k = outAt w.st.chan k) ∧
      (∀ k, totAt w'.st.chan k = totAt w.st.chan k) ∧
      w'.st.allow = w.st.allow ∧ w'.st.admin = w.st.admin ∧ w'.st.config = w.st.config ∧
      w'.st.channels = w.st.channels ∧ w'.st.version = w.st.version ∧
      w'.st.replyArgs = some ⟨p.destChan, d, amt⟩ ∧
      o.sub = some ⟨p.receiver, amt, d, C18.expectedGas w.st d, RECEIVE_ID⟩ := by
  obtain ⟨s1, sub, hd, hp⟩ := (success_ack_iff_paid h).mp ha
  obtain ⟨amt, d, ch, hamt, hv, hred, rfl, hto, hsa, hsd, hid, g, hg, hgas⟩ := doReceive_spec hd
  obtain ⟨cs, _, _, _, ho, ht⟩ := reduceBalance_spec hred
  have hst := (payout_frame hp).1
  have hm := C11.payout_moved hp (by rw [hto]; exact hrs)
  rw [hsd, hto, hsa] at hm
  have hsub : o.sub = some sub := by
    rcases exec_recv_cases h with ⟨⟨e, he⟩, _⟩ | ⟨s1', sub', hd', hsub, _⟩
    · rw [hd] at he; cases he
    · rw [hd] at hd'; cases hd'; exact hsub
  have hsubeq : sub = ⟨p.receiver, amt, d, C18.expectedGas w.st d, RECEIVE_ID⟩ := by
    cases sub
    simp only at hto hsa hsd hid hgas
    rw [hto, hsa, hsd, hid, hgas, (C18.checkGasLimit_spec hg).1]
  refine ⟨amt, d, hamt, hv, ?_, ?_, ?_, ?_, ?_, ?_, ?_, ?_, ?_, by rw [hsub, hsubeq]⟩
  · cases d <;> exact hm
  · intro k hk; rw [hst]; simp only; rw [ho k]; simp [hk]
  · intro k; rw [hst]; exact ht k
  all_goals rw [hst]

example : ∃ w' o, (run w0 (hist.take 1)).exec b0 (.recv (pkt (.cw20 "T1") 15) true true false) = .ok (w', o) ∧
    o.ack = some .success ∧ w'.tokBal "T1" "alice" = 75 := ⟨_, _, rfl, by decide, by decide⟩

/-! ## Exactly which transfers are accepted -/

/-- **C12, transfer_accepted_iff** (the converse of `transfer_emits_one_packet`: the model does not accept
too little): `execute_transfer` accepts iff the amount is non-zero, the channel is registered, the config
has the current layout, the cw20 gate holds (native, or allow-listed, or a default gas limit is set), the
timeout `block.time + (requested ∨ default)·10⁹` fits `u64` (product and sum), the amount fits `u64`, and
neither `outstanding` nor `total_sent` of the key overflows `Uint128`. -/
theorem transfer_accepted_iff (s : State) (blk : Block) (msg : TransferMsg) (d : Denom) (amt : Nat) (snd : Addr) :
    (∃ r, execTransfer s blk msg d amt snd = .ok r) ↔
      amt ≠ 0 ∧ msg.channel ∈ s.channels ∧ s.v1gov = none ∧ transferGate s s.config d = true ∧
      (msg.timeout.getD s.config.defaultTimeout) * 1000000000 ≤ U64_MAX ∧
      blk.time + (msg.timeout.getD s.config.defaultTimeout) * 1000000000 ≤ U64_MAX ∧ amt ≤ U64_MAX ∧
      outAt s.chan (msg.channel, d) + amt ≤ U128_MAX ∧ totAt s.chan (msg.channel, d) + amt ≤ U128_MAX := by
  have hout : outAt s.chan (msg.channel, d) = ((s.chan.get? (msg.channel, d)).getD ⟨0, 0⟩).outstanding := by
    simp [outAt]; cases s.chan.get? (msg.channel, d) <;> rfl
  have htot : totAt s.chan (msg.channel, d) = ((s.chan.get? (msg.channel, d)).getD ⟨0, 0⟩).totalSent := by
    simp [totAt]; cases s.chan.get? (msg.channel, d) <;> rfl
  rw [hout, htot]
  cases hv : s.v1gov with
  | some g => simp [execTransfer, loadConfig, hv]
  | none => simp [execTransfer, loadConfig, hv, increaseBalance]

/-- **C12, send_accepted_iff** (transaction level, cw20 `Send` — also the liveness side of C18's gate: the
gate is not stricter than stated): a `Send{contract: ics20, amount, msg}` on a real token is accepted iff
the sender is not the contract itself, the token exists, the sender owns the amount, the hook message
decodes, and `execute_transfer` accepts (`transfer_accepted_iff`). -/
theorem send_accepted_iff (w : World) (blk : Block) (snd token : Addr) (amt : Nat) (msg : Option TransferMsg) :
    (∃ r, w.exec blk (.sendCw20 snd token amt msg) = .ok r) ↔
      snd ≠ w.self ∧ w.tokens.contains token = true ∧ amt ≤ w.tokBal token snd ∧
      ∃ m, msg = some m ∧ ∃ r, execTransfer w.st blk m (.cw20 token) amt snd = .ok r := by
  constructor
  · rintro ⟨⟨w', o⟩, h⟩
    obtain ⟨w1, m, s, out, hself, htoken, hb, rfl, hs, _, _⟩ := exec_sendCw20_spec h
    exact ⟨hself, htoken, (tokSend_spec hb).1, m, rfl, _, hs⟩
  · rintro ⟨hself, htoken, hle, m, rfl, ⟨s', out⟩, hs⟩
    have hb : ∃ w1, w.tokSend token snd w.self amt = some w1 := by
      unfold World.tokSend
      simp [Nat.not_lt.mpr hle]
    obtain ⟨w1, hb⟩ := hb
    have hst := (tokSend_frame hb).1
    refine ⟨({ w1 with st := s' }, { sent := [out] }), ?_⟩
    have htok' : token ∈ w.tokens := by simpa using htoken
    simp only [World.exec]
    simp [check, hself, htok', hb, hst, execReceive, hs, bind, Except.bind, pure, Except.pure]

example : ∃ r, w0.exec b0 (.sendCw20 "alice" "T1" 40 (some tm)) = .ok r :=
  (send_accepted_iff w0 b0 "alice" "T1" 40 (some tm)).mpr
    ⟨by decide, by decide, by decide, tm, rfl,
      (transfer_accepted_iff _ _ _ _ _ _).mpr ⟨by decide, by decide, by decide, by decide, by decide, by decide, by decide, by decide, by decide⟩⟩

/-- **C12, on histories that respect IBC core's guarantee `runG` skips nothing**: if every acknowledgement
/ timeout of the history is `admissible` where it happens (`AdmissibleFrom`: the guarantee as a predicate on
the history rather than as a filter), the ghost history of `outstanding_identity` is the unfiltered one and
its world is the plain history `run w ops` — so `outstanding_identity` speaks about exactly the states the
contract goes through. -/
theorem admissible_history_is_plain (w : World) (ops : List (Block × Op)) (h : AdmissibleFrom (w, Ghost.init w) ops) :
    runG (w, Ghost.init w) ops = runU (w, Ghost.init w) ops ∧ (runG (w, Ghost.init w) ops).1 = run w ops := by
  have e := runG_eq_runU ops h
  exact ⟨e, by rw [e]; exact runU_fst _ _⟩

/-- the demo history respects the guarantee -/
example : AdmissibleFrom (w0, Ghost.init w0) hist := by
  refine ⟨rfl, rfl, rfl, rfl, ?_, trivial⟩
  decide

end CwPlus.Props.C12
