import CwPlus.Model.Ics20
import CwPlus.Lemmas.Ics20Env
/-!
# C18 — cw20-ics20: the token allow-list is governance-only and only ever loosens

Theorems over the model `CwPlus.Ics20` (state machine + world dispatch); histories are arbitrary
lists of ops (`run`), failed transactions roll back.

## Environment assumptions (`structure EnvAssumptions`, Lemmas/Ics20Env.lean)

* **E1 `hook_only_from_send`** — a real cw20 token calls `ExecuteMsg::Receive` only from its own `Send`.
* **E2 `never_calls_itself`** — the ics20 contract is never the sender of a transfer.
* **E3 `native_not_cw20`** — no native denomination has the form `cw20:…`.

The model's `World.exec` refuses transactions violating E1 / E2.  **None of C18's statements depends on
E1–E3**: `allow_monotone_unguarded`, `allow_admin_only_unguarded` and `admin_never_cleared_unguarded`
prove the history-level clauses over the *unguarded* semantics (`World.execRaw` / `runRaw`: no
`impossible.*` checks, any account — the contract itself, real tokens — may send any transfer) without
any environment hypothesis; the per-handler clauses (`cw20_transfer_gate`, `payout_gas_limit_*`) are
about the handlers, which are the same in both semantics.

"Tokens already in a channel remain redeemable" is the invariant `InChannelPayable` (`in_channel_payable`
from `instantiate`, `in_channel_payable_inv` from any state satisfying it); it fails on the upgrade path from
the pre-allow-list layout when the migrate message sets no default gas limit
(`legacy_upgrade_strands_cw20`, `redeemable_after_upgrade_partial`).
-/
namespace CwPlus.Props.C18
open CwPlus CwPlus.Ics20

/-- Histories: any list of (block, op); failed transactions roll back. -/
def run (w : World) (ops : List (Block × Op)) : World :=
  ops.foldl (fun w o => w.step o.1 o.2) w

/-- The governance part of the state is untouched. -/
def SameGov (s s' : State) : Prop :=
  s'.allow = s.allow ∧ s'.admin = s.admin ∧ s'.config = s.config ∧ s'.v1gov = s.v1gov

theorem SameGov.refl (s : State) : SameGov s s := ⟨rfl, rfl, rfl, rfl⟩

theorem SameGov.trans {a b c : State} (h1 : SameGov a b) (h2 : SameGov b c) : SameGov a c := by
  obtain ⟨a1, a2, a3, a4⟩ := h1; obtain ⟨b1, b2, b3, b4⟩ := h2
  exact ⟨b1.trans a1, b2.trans a2, b3.trans a3, b4.trans a4⟩

/-! ## Frame lemmas: which handler touches which governance field -/

theorem execTransfer_gov {s s' : State} {blk msg d amt snd out}
    (h : execTransfer s blk msg d amt snd = .ok (s', out)) : SameGov s s' := by
  simp [execTransfer] at h
  obtain ⟨_, _, cfg, _, _, _, _, _, ch, _, rfl, _⟩ := h
  exact ⟨rfl, rfl, rfl, rfl⟩

theorem execTransferNative_gov {s s' : State} {blk snd funds msg out}
    (h : execTransferNative s blk snd funds msg = .ok (s', out)) : SameGov s s' := by
  unfold execTransferNative at h
  split at h
  · simp at h
  · exact execTransfer_gov h
  · simp at h

theorem execReceive_gov {s s' : State} {blk token funds sender amt msg out}
    (h : execReceive s blk token funds sender amt msg = .ok (s', out)) : SameGov s s' := by
  unfold execReceive at h
  simp at h
  obtain ⟨_, h⟩ := h
  split at h
  · simp at h
  · simp at h; exact execTransfer_gov h.2

theorem connect_gov {s s' : State} {id v cv ord peer}
    (h : ibcChannelConnect s id v cv ord peer = .ok s') : SameGov s s' := by
  simp [ibcChannelConnect] at h
  obtain ⟨_, _, rfl⟩ := h
  exact ⟨rfl, rfl, rfl, rfl⟩

theorem doReceive_gov {s s' : State} {p tv sub} (h : doReceive s p tv = .ok (s', sub)) : SameGov s s' := by
  unfold doReceive at h
  split at h
  · simp at h
  · split at h
    · simp at h
    · simp at h
      obtain ⟨_, _, g, _, ch, _, rfl, _⟩ := h
      exact ⟨rfl, rfl, rfl, rfl⟩

theorem ibcPacketReceive_gov (s : State) (p : PacketIn) (tv : Bool) : SameGov s (ibcPacketReceive s p tv).1 := by
  unfold ibcPacketReceive
  split
  · rename_i s' sub h; exact doReceive_gov h
  · exact SameGov.refl s

theorem reply_gov {s s' : State} {id ok d} (h : reply s id ok = .ok (s', d)) : SameGov s s' := by
  unfold reply at h
  split at h
  · split at h
    · simp at h; obtain ⟨rfl, _⟩ := h; exact SameGov.refl _
    · split at h
      · simp at h
      · simp at h
        obtain ⟨ch, _, rfl, _⟩ := h
        exact ⟨rfl, rfl, rfl, rfl⟩
  · split at h
    · split at h <;> (simp at h; obtain ⟨rfl, _⟩ := h; exact SameGov.refl _)
    · simp at h

theorem onPacketFailure_gov {s s' : State} {chan data tv sub}
    (h : onPacketFailure s chan data tv = .ok (s', sub)) : SameGov s s' := by
  unfold onPacketFailure at h
  split at h
  · simp at h
  · simp at h
    obtain ⟨ch, _, g, _, rfl, _⟩ := h
    exact ⟨rfl, rfl, rfl, rfl⟩

theorem ibcPacketAck_gov {s s' : State} {chan data ackOk tv sub}
    (h : ibcPacketAck s chan data ackOk tv = .ok (s', sub)) : SameGov s s' := by
  unfold ibcPacketAck at h
  split at h
  · simp at h
  · split at h
    · simp at h
    · simp at h; obtain ⟨rfl, _⟩ := h; exact SameGov.refl _
  · simp at h
    obtain ⟨s1, sub1, h1, rfl, _⟩ := h
    exact onPacketFailure_gov h1

theorem ibcPacketTimeout_gov {s s' : State} {chan data tv sub}
    (h : ibcPacketTimeout s chan data tv = .ok (s', sub)) : SameGov s s' := by
  simp [ibcPacketTimeout] at h
  obtain ⟨s1, sub1, h1, rfl, _⟩ := h
  exact onPacketFailure_gov h1

theorem payout_st {w w' : World} {sub tv f} (h : w.payout sub tv f = some w') : w'.st = w.st := by
  unfold World.payout at h
  split at h
  · split at h
    · simp at h
    · unfold World.bankSend at h; split at h <;> simp at h; subst h; rfl
  · split at h
    · simp at h
    · unfold World.tokSend at h; split at h <;> simp at h; subst h; rfl

theorem dispatch_gov {w w' : World} {sub tv f data d} (h : w.dispatch sub tv f data = .ok (w', d)) :
    SameGov w.st w'.st := by
  unfold World.dispatch at h
  split at h
  · simp at h; obtain ⟨rfl, _⟩ := h; exact SameGov.refl _
  · split at h
    · rename_i hp; simp at h; obtain ⟨rfl, _⟩ := h; rw [payout_st hp]; exact SameGov.refl _
    · simp at h
      obtain ⟨st', d', hr, rfl, _⟩ := h
      exact reply_gov hr

theorem bankSend_st {w w' : World} {a b d n} (h : w.bankSend a b d n = some w') : w'.st = w.st := by
  unfold World.bankSend at h; split at h <;> simp at h; subst h; rfl

theorem tokSend_st {w w' : World} {t a b n} (h : w.tokSend t a b n = some w') : w'.st = w.st := by
  unfold World.tokSend at h; split at h <;> simp at h; subst h; rfl


theorem updateBalances_gov {s s' : State} {hold} (h : updateBalances s hold = .ok s') :
    SameGov s s' := by
  unfold updateBalances at h
  split at h
  · simp at h; subst h; exact SameGov.refl _
  · simp at h; obtain ⟨m, _, rfl⟩ := h; exact ⟨rfl, rfl, rfl, rfl⟩
  · simp at h

/-- What `migrate` does to the governance fields. -/
theorem migrate_gov {s s' : State} {gas hold} (h : migrate s gas hold = .ok s') :
    s'.allow = s.allow ∧
    (s'.admin = s.admin ∨ ∃ g, s.v1gov = some g ∧ s'.admin = some g) ∧
    (s'.v1gov = s.v1gov ∨ s'.v1gov = none) ∧
    (∀ cfg, loadConfig s = .ok cfg → ∃ cfg', loadConfig s' = .ok cfg' ∧
        (cfg'.defaultGasLimit = cfg.defaultGasLimit ∨ (cfg'.defaultGasLimit = gas ∧ gas.isSome))) := by
  simp [migrate] at h
  obtain ⟨_, _, _, s1, h1, s2, h2, s3, h3, rfl⟩ := h
  -- stage 1
  have e1 : s1.allow = s.allow ∧ (s1.admin = s.admin ∨ ∃ g, s.v1gov = some g ∧ s1.admin = some g) ∧
      (s1.v1gov = s.v1gov ∨ s1.v1gov = none) ∧ (s.v1gov = none → s1 = s) := by
    split at h1
    · split at h1
      · simp at h1
      · rename_i g hg; simp at h1; subst h1
        exact ⟨rfl, Or.inr ⟨g, hg, rfl⟩, Or.inr rfl, fun hn => by simp [hn] at hg⟩
    · simp at h1; subst h1; exact ⟨rfl, Or.inl rfl, Or.inl rfl, fun _ => rfl⟩
  have e2 : SameGov s1 s2 := by
    split at h2
    · exact updateBalances_gov h2
    · simp at h2; subst h2; exact SameGov.refl _
  obtain ⟨a2, b2, d2, c2⟩ := e2
  have e3 : s3.allow = s2.allow ∧ s3.admin = s2.admin ∧ s3.v1gov = s2.v1gov ∧
      ((s3.config = s2.config ∧ gas = none) ∨ (∃ g, gas = some g ∧ s2.v1gov = none ∧ s3.config.defaultGasLimit = some g)) := by
    split at h3
    · rename_i g
      simp at h3
      obtain ⟨cfg, hc, rfl⟩ := h3
      refine ⟨rfl, rfl, rfl, Or.inr ⟨g, rfl, ?_, rfl⟩⟩
      unfold loadConfig at hc; split at hc
      · simp at hc
      · rename_i hv; simpa using hv
    · simp at h3; subst h3; exact ⟨rfl, rfl, rfl, Or.inl ⟨rfl, rfl⟩⟩
  obtain ⟨a1, b1, c1, f1⟩ := e1
  obtain ⟨a3, b3, c3, g3⟩ := e3
  have fin : ∀ (t : State), (t = s3 ∨ t = { s3 with version := CONTRACT_VERSION }) →
      t.allow = s3.allow ∧ t.admin = s3.admin ∧ t.v1gov = s3.v1gov ∧ t.config = s3.config := by
    intro t ht; rcases ht with rfl | rfl <;> exact ⟨rfl, rfl, rfl, rfl⟩
  have ht := fin (if s.version.lt CONTRACT_VERSION = true then { s3 with version := CONTRACT_VERSION } else s3)
    (by split <;> simp)
  obtain ⟨t1, t2, t3, t4⟩ := ht
  generalize (if s.version.lt CONTRACT_VERSION = true then { s3 with version := CONTRACT_VERSION } else s3) = T at t1 t2 t3 t4 ⊢
  refine ⟨by rw [t1, a3, a2, a1], ?_, ?_, ?_⟩
  · rw [t2, b3, b2]; exact b1
  · rw [t3, c3, c2]; exact c1
  · intro cfg hc
    have hv : s.v1gov = none := by
      unfold loadConfig at hc; split at hc
      · simp at hc
      · rename_i hv; simpa using hv
    have hcfg : cfg = s.config := by
      unfold loadConfig at hc; simp [hv] at hc; exact hc.symm
    have hs1 := f1 hv
    have hv3 : T.v1gov = none := by rw [t3, c3, c2, hs1]; exact hv
    refine ⟨T.config, ?_, ?_⟩
    · unfold loadConfig; simp [hv3]
    · rw [t4]
      rcases g3 with ⟨e, _⟩ | ⟨g, rfl, _, e⟩
      · left; rw [e, d2, hs1, hcfg]
      · right; exact ⟨e, rfl⟩


/-- Order on gas limits: `some a ⊑ some b` iff `a ≤ b`; everything `⊑ none` (unlimited). -/
def gasLe : Option Nat → Option Nat → Prop
  | _, none => True
  | none, some _ => False
  | some a, some b => a ≤ b

theorem gasLe_refl (g : Option Nat) : gasLe g g := by cases g <;> simp [gasLe]

theorem gasLe_trans {a b c : Option Nat} (h1 : gasLe a b) (h2 : gasLe b c) : gasLe a c := by
  cases a <;> cases b <;> cases c <;> simp_all [gasLe] <;> omega

theorem execAllow_spec {s s' : State} {snd c g} (h : execAllow s snd c g = .ok s') :
    s.admin = some snd ∧ c.valid = true ∧ s'.allow = s.allow.set c.text g ∧
    (∀ old, s.allow.get? c.text = some old → gasLe old g) ∧
    s'.admin = s.admin ∧ s'.config = s.config ∧ s'.v1gov = s.v1gov := by
  simp [execAllow] at h
  obtain ⟨ha, hv, hok, rfl⟩ := h
  refine ⟨ha, hv, rfl, ?_, rfl, rfl, rfl⟩
  intro old ho
  rw [ho] at hok
  cases old <;> cases g <;> simp_all [gasLe]

theorem execUpdateAdmin_spec {s s' : State} {snd a} (h : execUpdateAdmin s snd a = .ok s') :
    s.admin = some snd ∧ a.valid = true ∧ s'.admin = some a.text ∧
    s'.allow = s.allow ∧ s'.config = s.config ∧ s'.v1gov = s.v1gov := by
  simp [execUpdateAdmin] at h
  obtain ⟨hv, ha, rfl⟩ := h
  exact ⟨ha, hv, rfl, rfl, rfl, rfl⟩

/-- Every op other than `allow`, `updateAdmin`, `migrate` leaves the governance fields alone. -/
theorem exec_gov_other {w w' : World} {blk op o} (h : w.exec blk op = .ok (w', o))
    (h1 : ∀ snd c g, op ≠ .allow snd c g) (h2 : ∀ snd a, op ≠ .updateAdmin snd a) (h3 : ∀ g, op ≠ .migrate g) :
    SameGov w.st w'.st := by
  cases op with
  | allow snd c g => exact absurd rfl (h1 snd c g)
  | updateAdmin snd a => exact absurd rfl (h2 snd a)
  | migrate g => exact absurd rfl (h3 g)
  | connect id v cv ord peer =>
    simp [World.exec] at h
    obtain ⟨s, hs, rfl, _⟩ := h
    exact connect_gov hs
  | chanOpen v cv ord => obtain ⟨rfl, _⟩ := exec_chanOpen h; exact SameGov.refl _
  | chanClose id => exact (exec_chanClose h).elim
  | transferNative snd funds msg =>
    simp [World.exec] at h
    obtain ⟨_, w1, hw1, s, out, hs, rfl, _⟩ := h
    have e : w1.st = w.st := by
      split at hw1
      · split at hw1
        · simp at hw1
        · split at hw1
          · rename_i hb; simp at hw1; subst hw1; exact bankSend_st hb
          · simp at hw1
      · simp at hw1; subst hw1; rfl
      · simp at hw1
    have := execTransferNative_gov hs
    rw [e] at this; exact this
  | sendCw20 snd token amt msg =>
    simp [World.exec] at h
    obtain ⟨_, _, w1, hw1, s, out, hs, rfl, _⟩ := h
    have e : w1.st = w.st := by
      split at hw1
      · rename_i hb; simp at hw1; subst hw1; exact tokSend_st hb
      · simp at hw1
    have := execReceive_gov hs
    rw [e] at this; exact this
  | hook snd funds sender amt msg =>
    simp [World.exec] at h
    obtain ⟨_, _, s, out, hs, rfl, _⟩ := h
    exact execReceive_gov hs
  | recv p rv tv f =>
    simp [World.exec] at h
    obtain ⟨w1, d, hd, rfl, _⟩ := h
    have := dispatch_gov hd
    exact SameGov.trans (ibcPacketReceive_gov w.st p tv) this
  | ack chan data ackOk sv tv f =>
    simp [World.exec] at h
    obtain ⟨s, sub, hs, w1, d, hd, rfl, _⟩ := h
    exact SameGov.trans (ibcPacketAck_gov hs) (dispatch_gov hd)
  | timeout chan data sv tv f =>
    simp [World.exec] at h
    obtain ⟨s, sub, hs, w1, d, hd, rfl, _⟩ := h
    exact SameGov.trans (ibcPacketTimeout_gov hs) (dispatch_gov hd)


/-- Allow-list order: every entry of `m` is still in `m'`, with a limit that is at least as loose. -/
def AllowLe (m m' : AMap Addr (Option Nat)) : Prop :=
  ∀ t g, m.get? t = some g → ∃ g', m'.get? t = some g' ∧ gasLe g g'

theorem AllowLe.refl (m : AMap Addr (Option Nat)) : AllowLe m m :=
  fun _ g h => ⟨g, h, gasLe_refl g⟩

theorem AllowLe.trans {a b c : AMap Addr (Option Nat)} (h1 : AllowLe a b) (h2 : AllowLe b c) : AllowLe a c := by
  intro t g h
  obtain ⟨g1, hg1, l1⟩ := h1 t g h
  obtain ⟨g2, hg2, l2⟩ := h2 t g1 hg1
  exact ⟨g2, hg2, gasLe_trans l1 l2⟩

theorem exec_allow {w w' : World} {blk snd c g o} (h : w.exec blk (.allow snd c g) = .ok (w', o)) :
    execAllow w.st snd c g = .ok w'.st := by
  simp [World.exec] at h
  obtain ⟨s, hs, rfl, _⟩ := h
  exact hs

theorem exec_updateAdmin {w w' : World} {blk snd a o} (h : w.exec blk (.updateAdmin snd a) = .ok (w', o)) :
    execUpdateAdmin w.st snd a = .ok w'.st := by
  simp [World.exec] at h
  obtain ⟨s, hs, rfl, _⟩ := h
  exact hs

theorem exec_migrate {w w' : World} {blk g o} (h : w.exec blk (.migrate g) = .ok (w', o)) :
    migrate w.st g w.holdings = .ok w'.st := by
  simp [World.exec] at h
  obtain ⟨s, hs, rfl, _⟩ := h
  exact hs

/-- The allow list after a successful transaction. -/
theorem exec_allow_le {w w' : World} {blk op o} (h : w.exec blk op = .ok (w', o)) :
    AllowLe w.st.allow w'.st.allow := by
  by_cases h1 : ∃ snd c g, op = .allow snd c g
  · obtain ⟨snd, c, g, rfl⟩ := h1
    obtain ⟨_, _, e, hold, _⟩ := execAllow_spec (exec_allow h)
    intro t g0 ht
    rw [e, AMap.get?_set]
    by_cases hc : c.text = t
    · subst hc; simp; exact hold g0 ht
    · simp [hc]; exact ⟨g0, ht, gasLe_refl g0⟩
  · have e : w'.st.allow = w.st.allow := by
      by_cases h2 : ∃ snd a, op = .updateAdmin snd a
      · obtain ⟨snd, a, rfl⟩ := h2; exact (execUpdateAdmin_spec (exec_updateAdmin h)).2.2.2.1
      · by_cases h3 : ∃ g, op = .migrate g
        · obtain ⟨g, rfl⟩ := h3; exact (migrate_gov (exec_migrate h)).1
        · exact (exec_gov_other h (fun a b c e => h1 ⟨a, b, c, e⟩) (fun a b e => h2 ⟨a, b, e⟩) (fun a e => h3 ⟨a, e⟩)).1
    rw [e]; exact AllowLe.refl _

theorem step_allow_le (w : World) (blk : Block) (op : Op) : AllowLe w.st.allow (w.step blk op).st.allow := by
  unfold World.step
  split
  · rename_i w' o h; exact exec_allow_le h
  · exact AllowLe.refl _

/-- **C18, allow_monotone**: over every history (transfers, packets, acks, timeouts, Allow,
UpdateAdmin, migrate; any senders and arguments) an allowed token is never removed and its gas limit
never lowered: `some a ⊑ some b (a ≤ b) ⊑ none`. -/
theorem allow_monotone (w : World) (ops : List (Block × Op)) : AllowLe w.st.allow (run w ops).st.allow := by
  induction ops generalizing w with
  | nil => exact AllowLe.refl _
  | cons op rest ih => exact AllowLe.trans (step_allow_le w op.1 op.2) (ih (w.step op.1 op.2))

/-- **C18, allow_admin_only**: a transaction that changes the allow list is an `Allow` message sent
by the current admin (with a valid contract address). -/
theorem allow_admin_only {w : World} {blk : Block} {op : Op} (h : (w.step blk op).st.allow ≠ w.st.allow) :
    ∃ snd c g, op = .allow snd c g ∧ w.st.admin = some snd ∧ c.valid = true := by
  unfold World.step at h
  split at h
  · rename_i w' o hx
    by_cases h1 : ∃ snd c g, op = .allow snd c g
    · obtain ⟨snd, c, g, rfl⟩ := h1
      obtain ⟨ha, hv, _⟩ := execAllow_spec (exec_allow hx)
      exact ⟨snd, c, g, rfl, ha, hv⟩
    · exfalso; apply h
      by_cases h2 : ∃ snd a, op = .updateAdmin snd a
      · obtain ⟨snd, a, rfl⟩ := h2; exact (execUpdateAdmin_spec (exec_updateAdmin hx)).2.2.2.1
      · by_cases h3 : ∃ g, op = .migrate g
        · obtain ⟨g, rfl⟩ := h3; exact (migrate_gov (exec_migrate hx)).1
        · exact (exec_gov_other hx (fun a b c e => h1 ⟨a, b, c, e⟩) (fun a b e => h2 ⟨a, b, e⟩) (fun a e => h3 ⟨a, e⟩)).1
  · exact absurd rfl h

/-- **C18, update_admin_auth**: the admin changes only by `UpdateAdmin` from the current admin (to a
validated address), or by a migration from the pre-0.12 layout, which installs the old
`gov_contract` as admin. -/
theorem update_admin_auth {w : World} {blk : Block} {op : Op} (h : (w.step blk op).st.admin ≠ w.st.admin) :
    (∃ snd a, op = .updateAdmin snd a ∧ w.st.admin = some snd ∧ a.valid = true ∧ (w.step blk op).st.admin = some a.text) ∨
    (∃ g gov, op = .migrate g ∧ w.st.v1gov = some gov ∧ (w.step blk op).st.admin = some gov) := by
  unfold World.step at h ⊢
  split at h
  · rename_i w' o hx
    try simp only [hx]
    by_cases h2 : ∃ snd a, op = .updateAdmin snd a
    · obtain ⟨snd, a, rfl⟩ := h2
      obtain ⟨ha, hv, e, _⟩ := execUpdateAdmin_spec (exec_updateAdmin hx)
      exact Or.inl ⟨snd, a, rfl, ha, hv, e⟩
    · by_cases h3 : ∃ g, op = .migrate g
      · obtain ⟨g, rfl⟩ := h3
        rcases (migrate_gov (exec_migrate hx)).2.1 with e | ⟨gov, hg, e⟩
        · exact absurd e h
        · exact Or.inr ⟨g, gov, rfl, hg, e⟩
      · exfalso; apply h
        by_cases h1 : ∃ snd c g, op = .allow snd c g
        · obtain ⟨snd, c, g, rfl⟩ := h1; exact (execAllow_spec (exec_allow hx)).2.2.2.2.1
        · exact (exec_gov_other hx (fun a b c e => h1 ⟨a, b, c, e⟩) (fun a b e => h2 ⟨a, b, e⟩) (fun a e => h3 ⟨a, e⟩)).2.1
  · exact absurd rfl h

/-- Governance is never left vacant: once an admin is set it stays set on every history. -/
theorem admin_never_cleared (w : World) (ops : List (Block × Op)) (h : w.st.admin.isSome) :
    (run w ops).st.admin.isSome := by
  induction ops generalizing w with
  | nil => exact h
  | cons op rest ih =>
    apply ih
    by_cases e : (w.step op.1 op.2).st.admin = w.st.admin
    · rw [e]; exact h
    · rcases update_admin_auth e with ⟨_, _, _, _, _, e'⟩ | ⟨_, _, _, _, e'⟩ <;> simp [e']



/-- The gas limit a payout of `d` must carry: the token's allow-list entry, else the default. -/
def expectedGas (s : State) (d : Denom) : Option Nat :=
  match d with
  | .native _ => none
  | .cw20 a => match s.allow.get? a with | some g => g | none => s.config.defaultGasLimit

theorem loadConfig_ok {s : State} {cfg : Config} (h : loadConfig s = .ok cfg) : s.v1gov = none ∧ cfg = s.config := by
  unfold loadConfig at h
  split at h
  · simp at h
  · rename_i hv; simp at h; exact ⟨by simpa using hv, h.symm⟩

theorem checkGasLimit_spec {s : State} {d : Denom} {tv : Bool} {g : Option Nat} (h : checkGasLimit s d tv = .ok g) :
    g = expectedGas s d ∧
    ∀ a, d = .cw20 a → tv = true ∧ ((s.allow.get? a).isSome ∨
      ((s.allow.get? a) = none ∧ s.v1gov = none ∧ ∃ b, s.config.defaultGasLimit = some b ∧ g = some b)) := by
  unfold checkGasLimit at h
  split at h
  · simp at h; subst h; exact ⟨rfl, fun a e => by cases e⟩
  · rename_i a
    simp at h
    obtain ⟨htv, h⟩ := h
    split at h
    · rename_i g0 hg
      simp at h; subst h
      refine ⟨by simp [expectedGas, hg], ?_⟩
      intro a' e; cases e; exact ⟨htv, Or.inl (by simp [hg])⟩
    · rename_i hn
      simp at h
      obtain ⟨cfg, hc, h⟩ := h
      obtain ⟨hv, rfl⟩ := loadConfig_ok hc
      split at h
      · rename_i b hb
        simp at h; subst h
        refine ⟨by simp [expectedGas, hn, hb], ?_⟩
        intro a' e; cases e; exact ⟨htv, Or.inr ⟨hn, hv, b, hb, rfl⟩⟩
      · simp at h

/-- **C18, cw20_transfer_gate** (handler level): a cw20 transfer is accepted only if a default gas
limit is configured or the token is on the allow list. -/
theorem cw20_transfer_gate {s : State} {blk : Block} {msg : TransferMsg} {t : Addr} {amt : Nat} {snd : Addr}
    {r : State × SendOut} (h : execTransfer s blk msg (.cw20 t) amt snd = .ok r) :
    s.v1gov = none ∧ (s.config.defaultGasLimit.isSome ∨ (s.allow.get? t).isSome) := by
  simp [execTransfer] at h
  obtain ⟨_, _, cfg, hc, hg, _⟩ := h
  obtain ⟨hv, rfl⟩ := loadConfig_ok hc
  refine ⟨hv, ?_⟩
  simp [transferGate, AMap.contains] at hg
  rcases hg with h | h
  · left; simp [h]
  · right; exact h

/-- **C18, cw20_transfer_gate** (transaction level): `Send` on a real token and a direct `Receive`
hook call are accepted only under the same condition. -/
theorem cw20_transfer_gate_tx {w w' : World} {blk : Block} {o : Outcome} :
    (∀ snd t amt msg, w.exec blk (.sendCw20 snd t amt msg) = .ok (w', o) →
      w.st.config.defaultGasLimit.isSome ∨ (w.st.allow.get? t).isSome) ∧
    (∀ snd funds sender amt msg, w.exec blk (.hook snd funds sender amt msg) = .ok (w', o) →
      w.st.config.defaultGasLimit.isSome ∨ (w.st.allow.get? snd).isSome) := by
  constructor
  · intro snd t amt msg h
    simp [World.exec] at h
    obtain ⟨_, _, w1, hw1, s, out, hs, _⟩ := h
    have e : w1.st = w.st := by
      split at hw1
      · rename_i hb; simp at hw1; subst hw1; exact tokSend_st hb
      · simp at hw1
    rw [e] at hs
    unfold execReceive at hs
    simp at hs
    split at hs
    · simp at hs
    · simp at hs; exact (cw20_transfer_gate hs).2
  · intro snd funds sender amt msg h
    simp [World.exec] at h
    obtain ⟨_, _, s, out, hs, _⟩ := h
    unfold execReceive at hs
    simp at hs
    obtain ⟨_, hs⟩ := hs
    split at hs
    · simp at hs
    · simp at hs; exact (cw20_transfer_gate hs.2).2

/-- **C18, payout_gas_limit** (receive): the payout sub-message of an incoming packet carries the
token's current allow-list limit, else the default; it is `reply_on_error(RECEIVE_ID)`. -/
theorem payout_gas_limit_receive {s s' : State} {p : PacketIn} {tv : Bool} {ack : Ack} {sub : SubMsg}
    (h : ibcPacketReceive s p tv = (s', ack, some sub)) :
    sub.gas = expectedGas s sub.denom ∧ sub.replyId = RECEIVE_ID ∧ ack = .success := by
  unfold ibcPacketReceive at h
  split at h
  · rename_i s1 sub1 hd
    simp at h
    obtain ⟨_, rfl, rfl⟩ := h
    unfold doReceive at hd
    split at hd
    · simp at hd
    · split at hd
      · simp at hd
      · simp at hd
        obtain ⟨_, _, g, hg, ch, _, _, rfl⟩ := hd
        exact ⟨(checkGasLimit_spec hg).1, rfl, rfl⟩
  · simp at h

theorem onPacketFailure_gas {s s' : State} {chan : String} {data : Option Packet} {tv : Bool} {sub : SubMsg}
    (h : onPacketFailure s chan data tv = .ok (s', sub)) :
    sub.gas = expectedGas s sub.denom ∧ sub.replyId = ACK_FAILURE_ID := by
  unfold onPacketFailure at h
  split at h
  · simp at h
  · simp at h
    obtain ⟨ch, _, g, hg, _, rfl⟩ := h
    exact ⟨(checkGasLimit_spec hg).1, rfl⟩

/-- **C18, payout_gas_limit** (error acknowledgement): the refund sub-message carries the token's
current limit, else the default. -/
theorem payout_gas_limit_ack {s s' : State} {chan : String} {data : Option Packet} {ackOk : Option Bool} {tv : Bool}
    {sub : SubMsg} (h : ibcPacketAck s chan data ackOk tv = .ok (s', some sub)) :
    sub.gas = expectedGas s sub.denom ∧ sub.replyId = ACK_FAILURE_ID := by
  unfold ibcPacketAck at h
  split at h
  · simp at h
  · split at h <;> simp at h
  · simp at h
    exact onPacketFailure_gas h

/-- **C18, payout_gas_limit** (timeout): same for the timeout refund. -/
theorem payout_gas_limit_timeout {s s' : State} {chan : String} {data : Option Packet} {tv : Bool}
    {sub : SubMsg} (h : ibcPacketTimeout s chan data tv = .ok (s', some sub)) :
    sub.gas = expectedGas s sub.denom ∧ sub.replyId = ACK_FAILURE_ID := by
  simp [ibcPacketTimeout] at h
  exact onPacketFailure_gas h

/-- A configured default gas limit is never unset (its value may be changed by `migrate`). -/
theorem step_default_stays {w : World} {blk : Block} {op : Op} {cfg : Config}
    (h : loadConfig w.st = .ok cfg) (hs : cfg.defaultGasLimit.isSome) :
    ∃ cfg', loadConfig (w.step blk op).st = .ok cfg' ∧ cfg'.defaultGasLimit.isSome := by
  unfold World.step
  split
  · rename_i w' o hx
    by_cases h3 : ∃ g, op = .migrate g
    · obtain ⟨g, rfl⟩ := h3
      obtain ⟨cfg', hc', hd⟩ := (migrate_gov (exec_migrate hx)).2.2.2 cfg h
      refine ⟨cfg', hc', ?_⟩
      rcases hd with e | ⟨e, hg⟩
      · rw [e]; exact hs
      · rw [e]; exact hg
    · have hg : w'.st.config = w.st.config ∧ w'.st.v1gov = w.st.v1gov := by
        by_cases h1 : ∃ snd c g, op = .allow snd c g
        · obtain ⟨snd, c, g, rfl⟩ := h1
          have := execAllow_spec (exec_allow hx); exact ⟨this.2.2.2.2.2.1, this.2.2.2.2.2.2⟩
        · by_cases h2 : ∃ snd a, op = .updateAdmin snd a
          · obtain ⟨snd, a, rfl⟩ := h2
            have := execUpdateAdmin_spec (exec_updateAdmin hx); exact ⟨this.2.2.2.2.1, this.2.2.2.2.2⟩
          · have := exec_gov_other hx (fun a b c e => h1 ⟨a, b, c, e⟩) (fun a b e => h2 ⟨a, b, e⟩) (fun a e => h3 ⟨a, e⟩)
            exact ⟨this.2.2.1, this.2.2.2⟩
      refine ⟨cfg, ?_, hs⟩
      unfold loadConfig at h ⊢
      rw [hg.1, hg.2]; exact h
  · exact ⟨cfg, h, hs⟩

/-- One step keeps the gas check of a denomination passing. -/
theorem step_redeemable {w : World} {blk : Block} {op : Op} {d : Denom} {tv : Bool} {g : Option Nat}
    (h : checkGasLimit w.st d tv = .ok g) : ∃ g', checkGasLimit (w.step blk op).st d tv = .ok g' := by
  cases d with
  | native x => exact ⟨none, rfl⟩
  | cw20 a =>
    obtain ⟨_, hc⟩ := checkGasLimit_spec h
    obtain ⟨htv, hc⟩ := hc a rfl
    have hcases : (∃ g1, (w.step blk op).st.allow.get? a = some g1) ∨
        ((w.step blk op).st.allow.get? a = none ∧ ∃ cfg', loadConfig (w.step blk op).st = .ok cfg' ∧ cfg'.defaultGasLimit.isSome) := by
      rcases hc with hs | ⟨hn, hv, b, hb, _⟩
      · obtain ⟨g0, hg0⟩ := Option.isSome_iff_exists.mp hs
        obtain ⟨g1, hg1, _⟩ := step_allow_le w blk op a g0 hg0
        exact Or.inl ⟨g1, hg1⟩
      · cases hx : (w.step blk op).st.allow.get? a with
        | some g1 => exact Or.inl ⟨g1, rfl⟩
        | none =>
          right; refine ⟨rfl, ?_⟩
          exact step_default_stays (cfg := w.st.config) (by unfold loadConfig; simp [hv]) (by simp [hb])
    rcases hcases with ⟨g1, hg1⟩ | ⟨hn, cfg', hc', hd⟩
    · exact ⟨g1, by simp [checkGasLimit, htv, hg1]⟩
    · obtain ⟨b, hb⟩ := Option.isSome_iff_exists.mp hd
      exact ⟨some b, by simp [checkGasLimit, htv, hn, hc', hb]⟩

/-- **C18, "tokens already in a channel remain redeemable"**: if the gas check of a denomination
passes now (token allowed, or covered by the default), it passes after every history. -/
theorem redeemable_stays (w : World) (ops : List (Block × Op)) {d : Denom} {tv : Bool} {g : Option Nat}
    (h : checkGasLimit w.st d tv = .ok g) : ∃ g', checkGasLimit (run w ops).st d tv = .ok g' := by
  induction ops generalizing w g with
  | nil => exact ⟨g, h⟩
  | cons op rest ih =>
    obtain ⟨g1, h1⟩ := step_redeemable (blk := op.1) (op := op.2) h
    exact ih (w.step op.1 op.2) h1



/-! ## The initial allow list ("for every initial allow list and default gas limit")

An accepted `instantiate` records every entry of its allow list — for an address named more than once the last
entry — with exactly the submitted gas limit, whatever the default gas limit is; nothing else is listed.  The
monitors `C18/initial-allow-missing` / `C18/initial-allow-gas` evaluate this on the implementation. -/

/-- The allow list an `allowlist` argument denotes: later entries of the same address win. -/
def allowView (l : List (AddrArg × Option Nat)) (old : Option (Option Nat)) (k : Addr) : Option (Option Nat) :=
  l.foldl (fun acc p => if p.1.text = k then some p.2 else acc) old

theorem addAllows_get (l : List (AddrArg × Option Nat)) {m m' : AMap Addr (Option Nat)}
    (h : addAllows l m = .ok m') (k : Addr) : m'.get? k = allowView l (m.get? k) k := by
  induction l generalizing m with
  | nil => simp [addAllows] at h; subst h; rfl
  | cons p rest ih =>
    obtain ⟨a, g⟩ := p
    simp only [addAllows, check_bind_ok] at h
    obtain ⟨_, h⟩ := h
    rw [ih h]
    simp only [allowView, List.foldl_cons]
    by_cases hk : a.text = k
    · subst hk; simp [AMap.get?_set_eq]
    · simp [hk, AMap.get?_set_ne _ _ _ _ hk]

/-- **C18, initial allow list**: after an accepted `instantiate`, for every address `k` the stored entry is the one
the submitted list denotes. -/
theorem instantiate_allow {m : InstMsg} {s : State} (h : instantiate m = .ok s) (k : Addr) :
    s.allow.get? k = allowView m.allowlist none k := by
  simp [instantiate] at h
  obtain ⟨_, al, ha, rfl⟩ := h
  simpa using addAllows_get m.allowlist ha k

/-- In particular an entry that nobody else overrides is stored with its own limit — also when that limit
equals the default gas limit. -/
theorem instantiate_allow_last {m : InstMsg} {s : State} (h : instantiate m = .ok s)
    (pre : List (AddrArg × Option Nat)) (a : AddrArg) (g : Option Nat) (post : List (AddrArg × Option Nat))
    (hl : m.allowlist = pre ++ (a, g) :: post) (hp : ∀ q ∈ post, q.1.text ≠ a.text) :
    s.allow.get? a.text = some g := by
  rw [instantiate_allow h, hl]
  simp only [allowView, List.foldl_append, List.foldl_cons, if_true]
  have : ∀ (r : List (AddrArg × Option Nat)) (acc : Option (Option Nat)), (∀ q ∈ r, q.1.text ≠ a.text) →
      r.foldl (fun acc p => if p.1.text = a.text then some p.2 else acc) acc = acc := by
    intro r
    induction r with
    | nil => intros; rfl
    | cons q r ihr =>
      intro acc hq
      simp only [List.foldl_cons]
      rw [if_neg (hq q (List.mem_cons_self ..))]
      exact ihr acc (fun q' hq' => hq q' (List.mem_cons_of_mem _ hq'))
  exact this post _ hp

example : (match instantiate { defaultTimeout := 10, gov := ⟨true, "gov"⟩, allowlist := [(⟨true, "T1"⟩, some 500)],
                               defaultGasLimit := some 500 } with
           | .ok s => s.allow | .error _ => []) = [("T1", some 500)] := by decide

/-! ## Independence from the environment assumptions: the unguarded semantics -/

/-- A successful transaction of the unguarded semantics is either a transaction of the model or one of
the three transfer transactions, which leave the governance fields alone whoever sends them. -/
theorem execRaw_cases {w w' : World} {blk : Block} {op : Op} {o : Outcome} (h : w.execRaw blk op = .ok (w', o)) :
    w.exec blk op = .ok (w', o) ∨
    (((∃ snd funds msg, op = .transferNative snd funds msg) ∨ (∃ snd token amt msg, op = .sendCw20 snd token amt msg) ∨
      (∃ snd funds sender amt msg, op = .hook snd funds sender amt msg)) ∧ SameGov w.st w'.st) := by
  cases op with
  | transferNative snd funds msg =>
    right
    refine ⟨Or.inl ⟨snd, funds, msg, rfl⟩, ?_⟩
    simp [World.execRaw] at h
    obtain ⟨w1, hw1, s, out, hs, rfl, _⟩ := h
    have e : w1.st = w.st := by
      split at hw1
      · split at hw1
        · simp at hw1
        · split at hw1
          · rename_i hb; simp at hw1; subst hw1; exact bankSend_st hb
          · simp at hw1
      · simp at hw1; subst hw1; rfl
      · simp at hw1
    have := execTransferNative_gov hs
    rw [e] at this; exact this
  | sendCw20 snd token amt msg =>
    right
    refine ⟨Or.inr (Or.inl ⟨snd, token, amt, msg, rfl⟩), ?_⟩
    simp [World.execRaw] at h
    obtain ⟨_, w1, hw1, s, out, hs, rfl, _⟩ := h
    have e : w1.st = w.st := by
      split at hw1
      · rename_i hb; simp at hw1; subst hw1; exact tokSend_st hb
      · simp at hw1
    have := execReceive_gov hs
    rw [e] at this; exact this
  | hook snd funds sender amt msg =>
    right
    refine ⟨Or.inr (Or.inr ⟨snd, funds, sender, amt, msg, rfl⟩), ?_⟩
    simp [World.execRaw] at h
    obtain ⟨_, s, out, hs, rfl, _⟩ := h
    exact execReceive_gov hs
  | connect id v cv ord peer => exact Or.inl h
  | chanOpen v cv ord => exact Or.inl h
  | chanClose id => exact Or.inl h
  | allow snd c g => exact Or.inl h
  | updateAdmin snd a => exact Or.inl h
  | migrate g => exact Or.inl h
  | recv p rv tv f => exact Or.inl h
  | ack chan data ackOk sv tv f => exact Or.inl h
  | timeout chan data sv tv f => exact Or.inl h

theorem stepRaw_allow_le (w : World) (blk : Block) (op : Op) : AllowLe w.st.allow (w.stepRaw blk op).st.allow := by
  unfold World.stepRaw
  split
  · rename_i w' o h
    rcases execRaw_cases h with h | ⟨_, hg⟩
    · exact exec_allow_le h
    · rw [hg.1]; exact AllowLe.refl _
  · exact AllowLe.refl _

/-- **C18, allow_monotone without environment assumptions**: over every history of the unguarded semantics
an allowed token is never removed and its gas limit never lowered. -/
theorem allow_monotone_unguarded (w : World) (ops : List (Block × Op)) : AllowLe w.st.allow (runRaw w ops).st.allow := by
  induction ops generalizing w with
  | nil => exact AllowLe.refl _
  | cons op rest ih => exact AllowLe.trans (stepRaw_allow_le w op.1 op.2) (ih (w.stepRaw op.1 op.2))

/-- **C18, allow_admin_only without environment assumptions**: also under the unguarded semantics a
transaction that changes the allow list is an `Allow` message sent by the current admin. -/
theorem allow_admin_only_unguarded {w : World} {blk : Block} {op : Op} (h : (w.stepRaw blk op).st.allow ≠ w.st.allow) :
    ∃ snd c g, op = .allow snd c g ∧ w.st.admin = some snd ∧ c.valid = true := by
  have key : (w.stepRaw blk op).st.allow = (w.step blk op).st.allow := by
    unfold World.stepRaw World.step
    cases hr : w.execRaw blk op with
    | error e =>
      simp only
      cases hx : w.exec blk op with
      | error e' => rfl
      | ok r =>
        exfalso
        have := execRaw_eq_exec (blk := blk) (exec_guard (w' := r.1) (o := r.2) hx)
        rw [hr, hx] at this; cases this
    | ok r =>
      obtain ⟨w', o⟩ := r
      simp only
      rcases execRaw_cases hr with hx | ⟨hop, hg⟩
      · rw [hx]
      · cases hx : w.exec blk op with
        | error e' => simp only; exact hg.1
        | ok r' =>
          have := execRaw_eq_exec (blk := blk) (exec_guard (w' := r'.1) (o := r'.2) hx)
          rw [hr, hx] at this; cases this; rfl
  rw [key] at h
  exact allow_admin_only h

/-- **C18, governance is never left vacant, without environment assumptions**. -/
theorem admin_never_cleared_unguarded (w : World) (ops : List (Block × Op)) (h : w.st.admin.isSome) :
    (runRaw w ops).st.admin.isSome := by
  induction ops generalizing w with
  | nil => exact h
  | cons op rest ih =>
    apply ih
    show (w.stepRaw op.1 op.2).st.admin.isSome
    unfold World.stepRaw
    split
    · rename_i w' o hr
      rcases execRaw_cases hr with hx | ⟨_, hg⟩
      · have : w' = w.step op.1 op.2 := by unfold World.step; rw [hx]
        rw [this]
        exact admin_never_cleared w [op] h
      · rw [hg.2.1]; exact h
    · exact h

/-! ## Non-vacuity: a concrete world on which the hypotheses are satisfiable -/

/-- gov = "gov", token "T1" allowed with limit 500, no default, channel-0 connected, "alice" owns 100 T1. -/
def w0 : World :=
  { st := { config := ⟨3600, none⟩, admin := some "gov", allow := [("T1", some 500)], channels := ["channel-0"],
            chan := [], versionName := CONTRACT_NAME, version := CONTRACT_VERSION },
    self := "ics20", tokens := ["T1", "T2"], faulty := ["T2"], bank := [], tok := [(("T1", "alice"), 100), (("T2", "alice"), 100)] }

def b0 : Block := ⟨1, 1000⟩

/-- the admin raises T1's limit; a stranger and a lowering attempt are refused; the admin hands over -/
example : (run w0 [(b0, .allow "gov" ⟨true, "T1"⟩ (some 700))]).st.allow = [("T1", some 700)] := by decide
example : (run w0 [(b0, .allow "mallory" ⟨true, "T1"⟩ none)]).st.allow = [("T1", some 500)] := by decide
example : (run w0 [(b0, .allow "gov" ⟨true, "T1"⟩ (some 499))]).st.allow = [("T1", some 500)] := by decide
example : (run w0 [(b0, .allow "gov" ⟨true, "T1"⟩ none), (b0, .allow "gov" ⟨true, "T1"⟩ (some 9))]).st.allow = [("T1", none)] := by decide
example : (run w0 [(b0, .updateAdmin "gov" ⟨true, "gov2"⟩), (b0, .allow "gov" ⟨true, "T2"⟩ none)]).st.allow = [("T1", some 500)] := by decide
example : (run w0 [(b0, .updateAdmin "gov" ⟨true, "gov2"⟩)]).st.admin = some "gov2" := by decide
/-- the gate: T1 (allowed) is accepted, T2 (not allowed, no default) is refused -/
example : ((w0.exec b0 (.sendCw20 "alice" "T1" 40 (some ⟨"channel-0", "bob", none, none⟩))).isOk) = true := by decide
example : ((w0.exec b0 (.sendCw20 "alice" "T2" 40 (some ⟨"channel-0", "bob", none, none⟩))).isOk) = false := by decide
/-- acknowledgement and gas limit of the sub-message of a transaction -/
def ackAndGas (r : Res (World × Outcome)) : Option (Option Ack × Option (Option Nat)) :=
  match r with
  | .ok r => some (r.2.ack, r.2.sub.map (·.gas))
  | .error _ => none

/-- a redemption of T1 vouchers pays out with T1's limit -/
example : ackAndGas ((run w0 [(b0, .sendCw20 "alice" "T1" 40 (some ⟨"channel-0", "bob", none, none⟩))]).exec b0
      (.recv ⟨"transfer", "channel-10", "channel-0", some 15, some ("transfer", "channel-10", .cw20 "T1"), "alice", "bob"⟩ true true false))
    = some (some .success, some (some 500)) := by decide


/-- the unguarded semantics really is laxer: a direct hook call by the real token `T1` is accepted by
`execRaw`, refused by the model's `exec`; the allow list is untouched either way -/
example : (w0.execRaw b0 (.hook "T1" [] ⟨true, "mallory"⟩ 5 (some ⟨"channel-0", "bob", none, none⟩))).isOk = true ∧
    (w0.exec b0 (.hook "T1" [] ⟨true, "mallory"⟩ 5 (some ⟨"channel-0", "bob", none, none⟩))).isOk = false ∧
    (runRaw w0 [(b0, .hook "T1" [] ⟨true, "mallory"⟩ 5 (some ⟨"channel-0", "bob", none, none⟩))]).st.allow = w0.st.allow := by
  decide

/-! ## "Tokens already in a channel remain redeemable" as an invariant of histories

`redeemable_stays` says: a gas check that passes keeps passing.  What the clause needs in addition is the
link from *being in a channel* to the gas check passing.  `Payable s t`: token `t` is on the allow list,
or the (current-layout) config has a default gas limit — exactly when `check_gas_limit` accepts the token
(`payable_iff_gas`).  `InChannelPayable s`: every cw20 token with an entry in the channel books is payable.
Every transaction preserves it (a new cw20 key is created only by a transfer, which passed the gate;
`Payable` is monotone), it holds after `instantiate`, hence on every history of a contract deployed with
the current code (`in_channel_payable`).  It does **not** hold on the upgrade path from the
pre-allow-list layout: `legacy_upgrade_strands_cw20`. -/

/-- `check_gas_limit` accepts the cw20 token `t`: it is on the allow list, or a default gas limit is
configured (and the config has the current layout). -/
def Payable (s : State) (t : Addr) : Prop :=
  (s.allow.get? t).isSome ∨ (s.v1gov = none ∧ s.config.defaultGasLimit.isSome)

/-- `Payable` is exactly "the gas check of the token passes" (for an address that validates), and the
limit attached is then `expectedGas`. -/
theorem payable_iff_gas (s : State) (t : Addr) :
    Payable s t ↔ checkGasLimit s (.cw20 t) true = .ok (expectedGas s (.cw20 t)) := by
  constructor
  · intro h
    cases hg : s.allow.get? t with
    | some g => simp [checkGasLimit, expectedGas, hg, check, bind, Except.bind, pure, Except.pure]
    | none =>
      rcases h with h | ⟨hv, hd⟩
      · simp [hg] at h
      · obtain ⟨b, hb⟩ := Option.isSome_iff_exists.mp hd
        simp [checkGasLimit, expectedGas, hg, loadConfig, hv, hb, check, bind, Except.bind, pure, Except.pure]
  · intro h
    obtain ⟨_, hc⟩ := checkGasLimit_spec h
    rcases (hc t rfl).2 with h1 | ⟨_, hv, b, hb, _⟩
    · exact Or.inl h1
    · exact Or.inr ⟨hv, by simp [hb]⟩

/-- `Payable` is monotone along every transaction. -/
theorem step_payable {w : World} {blk : Block} {op : Op} {t : Addr} (h : Payable w.st t) :
    Payable (w.step blk op).st t := by
  have h1 := (payable_iff_gas _ _).mp h
  obtain ⟨g', h2⟩ := step_redeemable (blk := blk) (op := op) h1
  have := (checkGasLimit_spec h2).1
  subst this
  exact (payable_iff_gas _ _).mpr h2

theorem run_payable (w : World) (ops : List (Block × Op)) {t : Addr} (h : Payable w.st t) : Payable (run w ops).st t := by
  induction ops generalizing w with
  | nil => exact h
  | cons op rest ih => exact ih (w.step op.1 op.2) (step_payable h)

theorem reduce_keys {m m' : ChanMap} {c : String} {d : Denom} {amt : Nat} (h : reduceBalance m c d amt = .ok m') :
    ∀ k ∈ AMap.keys m', k ∈ AMap.keys m := by
  obtain ⟨cs, hg, _, rfl, _, _⟩ := reduceBalance_spec h
  intro k hk
  rcases AMap.mem_keys_set.mp hk with hk | rfl
  · exact hk
  · exact mem_keys_of_get? hg

theorem increase_keys {m m' : ChanMap} {c : String} {d : Denom} {amt : Nat} (h : increaseBalance m c d amt = .ok m') :
    ∀ k ∈ AMap.keys m', k ∈ AMap.keys m ∨ k = (c, d) := by
  simp [increaseBalance] at h
  obtain ⟨_, _, rfl⟩ := h
  intro k hk
  exact AMap.mem_keys_set.mp hk

/-- The reconciliation loop of `v2::update_balances` adds no key. -/
theorem updateDenoms_keys_sub (ch : String) (hold : Denom → Option Nat) (es : List (Key × ChanState)) (m m' : ChanMap)
    (h : updateDenoms ch hold es m = .ok m') : ∀ k ∈ AMap.keys m', k ∈ AMap.keys m ∨ k ∈ es.map (·.1) := by
  induction es generalizing m with
  | nil => simp [updateDenoms] at h; subst h; intro k hk; exact Or.inl hk
  | cons e rest ih =>
    obtain ⟨⟨c, d⟩, cs⟩ := e
    have lift : ∀ {m1 : ChanMap}, updateDenoms ch hold rest m1 = .ok m' → (∀ k ∈ AMap.keys m1, k ∈ AMap.keys m ∨ k = (c, d)) →
        ∀ k ∈ AMap.keys m', k ∈ AMap.keys m ∨ k ∈ (((c, d), cs) :: rest).map (·.1) := by
      intro m1 h1 hsub k hk
      rcases ih m1 h1 k hk with h2 | h2
      · rcases hsub k h2 with h3 | rfl
        · exact Or.inl h3
        · exact Or.inr (by simp)
      · exact Or.inr (by simp only [List.map_cons, List.mem_cons]; exact Or.inr h2)
    unfold updateDenoms at h
    split at h
    · split at h
      · simp at h
      · simp at h
        obtain ⟨_, h⟩ := h
        split at h
        · exact lift h (fun k hk => Or.inl hk)
        · simp at h
          obtain ⟨_, _, h⟩ := h
          exact lift h (fun k hk => AMap.mem_keys_set.mp hk)
    · exact lift h (fun k hk => Or.inl hk)

/-- `migrate` (any stored version) adds no key to the channel books. -/
theorem migrate_keys_sub {s s' : State} {gas : Option Nat} {hold : Denom → Option Nat}
    (h : migrate s gas hold = .ok s') : ∀ k ∈ AMap.keys s'.chan, k ∈ AMap.keys s.chan := by
  obtain ⟨_, hb⟩ := migrate_books h
  rcases hb with ⟨_, e⟩ | ⟨_, s1, s2, e1, _, hu, e2⟩
  · rw [e]; exact fun _ hk => hk
  · rcases updateBalances_cases hu with ⟨_, rfl⟩ | ⟨ch, m, _, hm, rfl⟩
    · rw [e2, e1]; exact fun _ hk => hk
    · intro k hk
      rw [e2] at hk
      rcases updateDenoms_keys_sub ch hold s1.chan s1.chan m hm k hk with h1 | h1
      · rw [← e1]; exact h1
      · rw [← e1]; exact h1

/-- A cw20 key of the books after a transaction was there before, or was created by a transfer of that
token — which passed the gate, so the token is payable. -/
theorem exec_new_cw20_key {w w' : World} {blk : Block} {op : Op} {o : Outcome} (h : w.exec blk op = .ok (w', o))
    {c : String} {t : Addr} (hk : (c, Denom.cw20 t) ∈ AMap.keys w'.st.chan) :
    (c, Denom.cw20 t) ∈ AMap.keys w.st.chan ∨ Payable w.st t := by
  have gate : ∀ {blk msg t' amt snd r}, execTransfer w.st blk msg (.cw20 t') amt snd = .ok r → Payable w.st t' := by
    intro blk msg t' amt snd r hr
    obtain ⟨hv, hd⟩ := cw20_transfer_gate hr
    rcases hd with hd | hd
    · exact Or.inr ⟨hv, hd⟩
    · exact Or.inl hd
  cases op with
  | connect id v cv ord peer =>
    rw [(exec_plain_frame h (Or.inl ⟨id, v, cv, ord, peer, rfl⟩)).1] at hk; exact Or.inl hk
  | chanOpen v cv ord => obtain ⟨rfl, _⟩ := exec_chanOpen h; exact Or.inl hk
  | chanClose id => exact (exec_chanClose h).elim
  | allow snd c' gg =>
    rw [(exec_plain_frame h (Or.inr (Or.inl ⟨snd, c', gg, rfl⟩))).1] at hk; exact Or.inl hk
  | updateAdmin snd a =>
    rw [(exec_plain_frame h (Or.inr (Or.inr ⟨snd, a, rfl⟩))).1] at hk; exact Or.inl hk
  | migrate gg => exact Or.inl (migrate_keys_sub (exec_migrate h) _ hk)
  | transferNative snd funds msg =>
    obtain ⟨d, amt, w1, s, out, _, _, _, hs, rfl, rfl⟩ := exec_transferNative_spec h
    obtain ⟨ch, hinc, rfl, _⟩ := execTransfer_spec hs
    rcases increase_keys hinc _ hk with h1 | h1
    · exact Or.inl h1
    · cases h1
  | sendCw20 snd token amt msg =>
    obtain ⟨w1, m, s, out, _, _, _, _, hs, rfl, rfl⟩ := exec_sendCw20_spec h
    obtain ⟨ch, hinc, rfl, _⟩ := execTransfer_spec hs
    rcases increase_keys hinc _ hk with h1 | h1
    · exact Or.inl h1
    · cases h1; exact Or.inr (gate hs)
  | hook snd funds sender amt msg =>
    obtain ⟨m, s, out, _, _, hs, rfl, rfl⟩ := exec_hook_spec h
    obtain ⟨ch, hinc, rfl, _⟩ := execTransfer_spec hs
    rcases increase_keys hinc _ hk with h1 | h1
    · exact Or.inl h1
    · cases h1; exact Or.inr (gate hs)
  | recv p rv tv f =>
    rcases exec_recv_cases h with ⟨_, rfl, _, _⟩ | ⟨s1, sub, hd, _, hc⟩
    · exact Or.inl hk
    · obtain ⟨amt, d, ch, _, _, hred, rfl, _⟩ := doReceive_spec hd
      rcases hc with ⟨hp, _⟩ | ⟨_, _, ra, ch2, hra, hundo, rfl⟩
      · rw [(payout_frame hp).1] at hk; exact Or.inl (reduce_keys hred _ hk)
      · simp at hra; subst hra
        have := undoReduce_reduce_eq hred hundo
        subst this
        exact Or.inl hk
  | ack chan data ackOk sv tv f =>
    rcases exec_ack_cases h with ⟨_, rfl, _, _⟩ | ⟨_, s1, sub, hf, _, hc⟩
    · exact Or.inl hk
    · obtain ⟨p, ch, rfl, hred, rfl, _⟩ := onPacketFailure_spec hf
      rcases hc with ⟨hp, _⟩ | ⟨_, rfl, _⟩
      · rw [(payout_frame hp).1] at hk; exact Or.inl (reduce_keys hred _ hk)
      · exact Or.inl (reduce_keys hred _ hk)
  | timeout chan data sv tv f =>
    obtain ⟨s1, sub, hf, _, hc⟩ := exec_timeout_cases h
    obtain ⟨p, ch, rfl, hred, rfl, _⟩ := onPacketFailure_spec hf
    rcases hc with ⟨hp, _⟩ | ⟨_, rfl, _⟩
    · rw [(payout_frame hp).1] at hk; exact Or.inl (reduce_keys hred _ hk)
    · exact Or.inl (reduce_keys hred _ hk)

/-- Every cw20 token with an entry in the channel books is payable. -/
def InChannelPayable (s : State) : Prop := ∀ c t, (c, Denom.cw20 t) ∈ AMap.keys s.chan → Payable s t

theorem step_inChannelPayable {w : World} (blk : Block) (op : Op) (hi : InChannelPayable w.st) :
    InChannelPayable (w.step blk op).st := by
  intro c t hk
  cases hx : w.exec blk op with
  | error e =>
    have hw : w.step blk op = w := by unfold World.step; rw [hx]
    rw [hw] at hk ⊢; exact hi c t hk
  | ok r =>
    obtain ⟨w', o⟩ := r
    have hw : w.step blk op = w' := by unfold World.step; rw [hx]
    rw [hw] at hk
    rcases exec_new_cw20_key hx hk with h1 | h1
    · exact step_payable (hi c t h1)
    · exact step_payable h1

/-- **C18, in_channel_payable (inductive form)**: "tokens already in a channel remain redeemable" from any
state in which every cw20 token of the books is payable, on every history — whatever the stored version,
with `migrate`, `Allow`, `UpdateAdmin` by anybody anywhere. -/
theorem in_channel_payable_inv (w : World) (ops : List (Block × Op)) (hi : InChannelPayable w.st) :
    InChannelPayable (run w ops).st := by
  induction ops generalizing w with
  | nil => exact hi
  | cons op rest ih => exact ih (w.step op.1 op.2) (step_inChannelPayable op.1 op.2 hi)

/-- **C18, in_channel_payable** (clause "so tokens already in a channel remain redeemable", at full
strength for contracts deployed with the current code): after an accepted `instantiate` — any initial
allow list, any default gas limit or none — on every history, every cw20 token that has an entry in the
channel books (in particular every token with a positive outstanding balance on some channel) is on the
allow list or covered by a default gas limit, i.e. the gas check of its payout / refund passes, with the
limit `expectedGas` (its own allow-list limit, else the default). -/
theorem in_channel_payable {m : InstMsg} {s : State} (hi : instantiate m = .ok s) (w : World) (ops : List (Block × Op))
    (c : String) (t : Addr) :
    ((c, Denom.cw20 t) ∈ AMap.keys (run { w with st := s } ops).st.chan ∨
      0 < outstanding (run { w with st := s } ops).st c (.cw20 t)) →
    Payable (run { w with st := s } ops).st t ∧
    checkGasLimit (run { w with st := s } ops).st (.cw20 t) true =
      .ok (expectedGas (run { w with st := s } ops).st (.cw20 t)) := by
  intro hk
  have h0 : InChannelPayable ({ w with st := s } : World).st := by
    intro c t hk
    simp [instantiate] at hi
    obtain ⟨_, allow, _, rfl⟩ := hi
    simp [AMap.keys] at hk
  have hinv := in_channel_payable_inv { w with st := s } ops h0
  have hmem : (c, Denom.cw20 t) ∈ AMap.keys (run { w with st := s } ops).st.chan := by
    rcases hk with hk | hk
    · exact hk
    · unfold outstanding at hk
      cases hg : (run { w with st := s } ops).st.chan.get? (c, .cw20 t) with
      | none => simp [hg] at hk
      | some cs => exact mem_keys_of_get? hg
  have hp := hinv c t hmem
  exact ⟨hp, (payable_iff_gas _ _).mp hp⟩

/-- What a migration with a default gas limit establishes: afterwards the config has the current layout
and that default, so *every* cw20 token is payable. -/
theorem migrate_default_payable {s s' : State} {g : Nat} {hold : Denom → Option Nat}
    (h : migrate s (some g) hold = .ok s') : ∀ t, Payable s' t := by
  simp [migrate] at h
  obtain ⟨_, _, _, s1, _, s2, _, cfg, hc, rfl⟩ := h
  obtain ⟨hv, _⟩ := loadConfig_ok hc
  intro t
  right
  split <;> exact ⟨hv, rfl⟩

/-- **C18, redeemable_after_upgrade_partial** — the part of "tokens already in a channel remain
redeemable" that holds on the upgrade path from a release ≤ 0.13.0.  *Missing part* (false, see
`legacy_upgrade_strands_cw20`): a pre-0.12 store has no allow list (any cw20 token could be sent) and the
v1 → v2 conversion of `migrate` writes `default_gas_limit: None`; when the migrate message sets no default
either, the cw20 tokens already escrowed are neither allowed nor default-covered afterwards.  What holds:
(1) a successful `migrate` that carries a default gas limit makes every token payable, and it stays
payable on every later history; (2) from any state (any stored version) in which the tokens of the books
are payable they remain so (`in_channel_payable_inv`). -/
theorem redeemable_after_upgrade_partial {w w' : World} {blk : Block} {g : Nat} {o : Outcome}
    (h : w.exec blk (.migrate (some g)) = .ok (w', o)) (ops : List (Block × Op)) (t : Addr) :
    Payable (run w' ops).st t ∧
    checkGasLimit (run w' ops).st (.cw20 t) true = .ok (expectedGas (run w' ops).st (.cw20 t)) := by
  have hp := run_payable w' ops (migrate_default_payable (exec_migrate h) t)
  exact ⟨hp, (payable_iff_gas _ _).mp hp⟩

/-! ### The upgrade path from the pre-allow-list layout strands cw20 tokens (counterexample) -/

/-- A contract stored by release 0.11.1 (`gov_contract` inside the config, no `ADMIN` item, no allow list):
one channel; 10 T1 booked (acknowledged transfers), 25 T1 held — 15 T1 sent by alice are still in flight. -/
def wLeg : World :=
  { st := { config := ⟨3600, none⟩, v1gov := some "gov", admin := none, allow := [], channels := ["channel-0"],
            chan := [(("channel-0", .cw20 "T1"), ⟨10, 10⟩)], versionName := CONTRACT_NAME, version := ⟨0, 11, 1, none⟩ },
    self := "ics20", tokens := ["T1"], faulty := [], bank := [], tok := [(("T1", "ics20"), 25)] }

/-- the in-flight packet of the old code -/
def pLeg : Packet := ⟨15, .cw20 "T1", "remote-bob", "alice", none⟩
/-- an honest redemption of 10 T1 vouchers -/
def rLeg : PacketIn := ⟨"transfer", "channel-10", "channel-0", some 10, some ("transfer", "channel-10", .cw20 "T1"), "alice", "remote-bob"⟩

/-- **C18, legacy_upgrade_strands_cw20** (machine-checked counterexample to "tokens already in a channel
remain redeemable" on the upgrade path).  Start: the 0.11.1 state `wLeg`.  `migrate` with
`default_gas_limit: None` succeeds: admin := "gov", books reconciled to 25 T1 outstanding, version 2.0.0,
allow list empty, no default.  Then
1. `InChannelPayable` fails: `check_gas_limit` refuses T1 (`notallowed`) although 25 T1 are outstanding;
2. an honest redemption of T1 vouchers is answered with an error acknowledgement, nothing is paid;
3. the timeout and the error acknowledgement of the in-flight packet *abort* (`on_packet_failure` runs
   the gas check after reducing the balance; the error rolls the transaction back), so the relayer can
   never get them processed and alice's 15 T1 stay in escrow;
4. only governance can repair it: after `Allow{T1}` by the installed admin (or a second `migrate` carrying
   a default gas limit) the same timeout is processed and alice is refunded. -/
theorem legacy_upgrade_strands_cw20 :
    (wLeg.exec b0 (.migrate none)).isOk = true ∧
    (run wLeg [(b0, .migrate none)]).st.chan = [(("channel-0", .cw20 "T1"), ⟨25, 25⟩)] ∧
    (run wLeg [(b0, .migrate none)]).st.admin = some "gov" ∧
    (run wLeg [(b0, .migrate none)]).st.version = CONTRACT_VERSION ∧
    (checkGasLimit (run wLeg [(b0, .migrate none)]).st (.cw20 "T1") true).tag = "notallowed" ∧
    ackAndGas ((run wLeg [(b0, .migrate none)]).exec b0 (.recv rLeg true true false)) = some (some .error, none) ∧
    ((run wLeg [(b0, .migrate none)]).exec b0 (.timeout "channel-0" (some pLeg) true true false)).isOk = false ∧
    ((run wLeg [(b0, .migrate none)]).exec b0 (.ack "channel-0" (some pLeg) (some false) true true false)).isOk = false ∧
    (run wLeg [(b0, .migrate none), (b0, .timeout "channel-0" (some pLeg) true true false)]).tokBal "T1" "alice" = 0 ∧
    (run wLeg [(b0, .migrate none), (b0, .allow "gov" ⟨true, "T1"⟩ none),
               (b0, .timeout "channel-0" (some pLeg) true true false)]).tokBal "T1" "alice" = 15 ∧
    (run wLeg [(b0, .migrate none), (b0, .migrate (some 5000)),
               (b0, .timeout "channel-0" (some pLeg) true true false)]).tokBal "T1" "alice" = 15 := by
  decide

/-- … and therefore the invariant fails after that migration. -/
theorem legacy_upgrade_not_payable : ¬ InChannelPayable (run wLeg [(b0, .migrate none)]).st := by
  intro h
  have hp := h "channel-0" "T1" (by decide)
  have := congrArg Res.isOk ((payable_iff_gas _ _).mp hp)
  revert this; decide

/-- with a default gas limit in the migrate message the same upgrade is fine
(`redeemable_after_upgrade_partial` applies) -/
example : (wLeg.exec b0 (.migrate (some 5000))).isOk = true ∧
    (run wLeg [(b0, .migrate (some 5000)), (b0, .timeout "channel-0" (some pLeg) true true false)]).tokBal "T1" "alice" = 15 := by
  decide

/-- `in_channel_payable` is not vacuous: a fresh contract without default, T1 allow-listed, 40 T1 escrowed -/
example : ∃ s, instantiate ⟨3600, ⟨true, "gov"⟩, [(⟨true, "T1"⟩, some 500)], none⟩ = .ok s ∧
    0 < outstanding (run { w0 with st := s } [(b0, .connect "channel-0" ICS20_VERSION none false {}),
      (b0, .sendCw20 "alice" "T1" 40 (some ⟨"channel-0", "bob", none, none⟩))]).st "channel-0" (.cw20 "T1") :=
  ⟨_, rfl, by decide⟩

/-! ## Transaction-level payout gas, monotone limits, strangers, the exact effect of `Allow` -/

/-- **C18, payout_gas_limit at transaction level** (clause "each payout is issued with the token's
current limit, else the default", composed through `World.exec`): whatever the transaction — an incoming
packet, an error acknowledgement, a timeout — if its outcome carries a payout / refund sub-message, that
sub-message has the gas limit `expectedGas` of its denomination in the state *before* the transaction
(the token's allow-list entry, else the default; none for native coins) and is `reply_on_error` with one
of the two reply ids; no other kind of transaction emits a sub-message. -/
theorem payout_gas_limit_tx {w w' : World} {blk : Block} {op : Op} {o : Outcome} {sub : SubMsg}
    (h : w.exec blk op = .ok (w', o)) (hs : o.sub = some sub) :
    sub.gas = expectedGas w.st sub.denom ∧ (sub.replyId = RECEIVE_ID ∨ sub.replyId = ACK_FAILURE_ID) ∧
    ((∃ p rv tv f, op = .recv p rv tv f) ∨ (∃ chan data sv tv f, op = .ack chan data (some false) sv tv f) ∨
     (∃ chan data sv tv f, op = .timeout chan data sv tv f)) := by
  cases op with
  | connect id v cv ord peer =>
    have := (exec_plain_frame h (Or.inl ⟨id, v, cv, ord, peer, rfl⟩)).2.2.2.2.2.2.2.1
    rw [this] at hs; cases hs
  | chanOpen v cv ord => obtain ⟨_, rfl⟩ := exec_chanOpen h; cases hs
  | chanClose id => exact (exec_chanClose h).elim
  | allow snd c gg =>
    have := (exec_plain_frame h (Or.inr (Or.inl ⟨snd, c, gg, rfl⟩))).2.2.2.2.2.2.2.1
    rw [this] at hs; cases hs
  | updateAdmin snd a =>
    have := (exec_plain_frame h (Or.inr (Or.inr ⟨snd, a, rfl⟩))).2.2.2.2.2.2.2.1
    rw [this] at hs; cases hs
  | migrate gg =>
    have := (exec_migrate_frame h).2.2.2.2.2.2.1
    rw [this] at hs; cases hs
  | transferNative snd funds msg =>
    obtain ⟨d, amt, w1, s, out, _, _, _, _, _, rfl⟩ := exec_transferNative_spec h; cases hs
  | sendCw20 snd token amt msg =>
    obtain ⟨w1, m, s, out, _, _, _, _, _, _, rfl⟩ := exec_sendCw20_spec h; cases hs
  | hook snd funds sender amt msg =>
    obtain ⟨m, s, out, _, _, _, _, rfl⟩ := exec_hook_spec h; cases hs
  | recv p rv tv f =>
    rcases exec_recv_cases h with ⟨_, _, _, hn⟩ | ⟨s1, sub', hd, hsub, _⟩
    · rw [hn] at hs; cases hs
    · rw [hsub] at hs; cases hs
      obtain ⟨amt, d, ch, _, _, _, _, _, _, hsd, hid, g, hg, hgas⟩ := doReceive_spec hd
      refine ⟨?_, Or.inl hid, Or.inl ⟨p, rv, tv, f, rfl⟩⟩
      rw [hgas, hsd]; exact (checkGasLimit_spec hg).1
  | ack chan data ackOk sv tv f =>
    rcases exec_ack_cases h with ⟨_, _, _, hn⟩ | ⟨rfl, s1, sub', hf, hsub, _⟩
    · rw [hn] at hs; cases hs
    · rw [hsub] at hs; cases hs
      obtain ⟨h1, h2⟩ := onPacketFailure_gas hf
      exact ⟨h1, Or.inr h2, Or.inr (Or.inl ⟨chan, data, sv, tv, f, rfl⟩)⟩
  | timeout chan data sv tv f =>
    obtain ⟨s1, sub', hf, hsub, _⟩ := exec_timeout_cases h
    rw [hsub] at hs; cases hs
    obtain ⟨h1, h2⟩ := onPacketFailure_gas hf
    exact ⟨h1, Or.inr h2, Or.inr (Or.inr ⟨chan, data, sv, tv, f, rfl⟩)⟩

/-- **C18, payout_gas_monotone** (clause "its limit is never lowered", read off the payouts): for a token
on the allow list, the gas limit attached to its payouts never shrinks along any history (`some a ⊑
some b` for `a ≤ b`, everything `⊑` unlimited).  (For a token covered only by the default this is
legitimately not so: `migrate` may set a smaller default.) -/
theorem payout_gas_monotone (w : World) (ops : List (Block × Op)) {t : Addr} {g : Option Nat}
    (h : w.st.allow.get? t = some g) :
    gasLe (expectedGas w.st (.cw20 t)) (expectedGas (run w ops).st (.cw20 t)) := by
  obtain ⟨g', hg', hle⟩ := allow_monotone w ops t g h
  simp only [expectedGas, h, hg']
  exact hle

/-- **C18, strangers and former governance are complete no-ops** (clauses 1 and 2, "histories by admin,
former admin, strangers"): an `Allow` or `UpdateAdmin` sent by anybody who is not the current admin
leaves the whole world unchanged — not only the allow list. -/
theorem stranger_noop (w : World) (blk : Block) (snd : Addr) (h : w.st.admin ≠ some snd) :
    (∀ c g, w.step blk (.allow snd c g) = w) ∧ (∀ a, w.step blk (.updateAdmin snd a) = w) := by
  constructor
  · intro c g
    unfold World.step
    cases hx : w.exec blk (.allow snd c g) with
    | error e => rfl
    | ok r => exact absurd (execAllow_spec (exec_allow hx)).1 h
  · intro a
    unfold World.step
    cases hx : w.exec blk (.updateAdmin snd a) with
    | error e => rfl
    | ok r => exact absurd (execUpdateAdmin_spec (exec_updateAdmin hx)).1 h

/-- After governance was handed over, the former admin is a stranger. -/
theorem former_admin_noop {w : World} {blk : Block} {old : Addr} {a : AddrArg} {w' : World} {o : Outcome}
    (h : w.exec blk (.updateAdmin old a) = .ok (w', o)) (hne : a.text ≠ old) (blk' : Block) :
    (∀ c g, w'.step blk' (.allow old c g) = w') ∧ (∀ a', w'.step blk' (.updateAdmin old a') = w') := by
  have := (execUpdateAdmin_spec (exec_updateAdmin h)).2.2.1
  apply stranger_noop
  rw [this]; intro e; cases e; exact hne rfl

/-- **C18, allow_effect** (what an accepted `Allow` changes): it was sent by the admin with a valid
address; exactly the entry of that address changes, to the submitted limit, which is at least as loose
as the old one (if there was one); every other entry and the rest of the governance state are untouched. -/
theorem allow_effect {w w' : World} {blk : Block} {snd : Addr} {c : AddrArg} {g : Option Nat} {o : Outcome}
    (h : w.exec blk (.allow snd c g) = .ok (w', o)) :
    w.st.admin = some snd ∧ c.valid = true ∧ w'.st.allow.get? c.text = some g ∧
    (∀ old, w.st.allow.get? c.text = some old → gasLe old g) ∧
    (∀ t, t ≠ c.text → w'.st.allow.get? t = w.st.allow.get? t) ∧
    w'.st.admin = w.st.admin ∧ w'.st.config = w.st.config := by
  obtain ⟨h1, h2, h3, h4, h5, h6, _⟩ := execAllow_spec (exec_allow h)
  refine ⟨h1, h2, by rw [h3]; simp, h4, ?_, h5, h6⟩
  intro t ht
  rw [h3, AMap.get?_set_ne _ _ _ _ (Ne.symm ht)]

/-- on `w0`: "mallory" is a stranger; T1's payouts carry 500 now and at least 500 after any history -/
example : w0.st.admin ≠ some "mallory" := by decide
example : w0.st.allow.get? "T1" = some (some 500) := by decide
example : expectedGas (run w0 [(b0, .allow "gov" ⟨true, "T1"⟩ (some 700))]).st (.cw20 "T1") = some 700 := by decide

end CwPlus.Props.C18
