import CwPlus.Props.C20
import CwPlus.Props.C04
import CwPlus.Lemmas.Cw4GroupNodup
import CwPlus.Lemmas.Cw1SubkeysNodup
import CwPlus.Lemmas.Cw3FixedNodup
import CwPlus.Lemmas.Cw3FlexNodup
import CwPlus.Lemmas.Cw4StakeNodup
import CwPlus.Lemmas.Ics20Nodup
import CwPlus.Lemmas.Cw3StatusTotal
import CwPlus.Props.C06Flex
/-!
# C20 — the 13 listings outside cw20-base

`Props/C20.lean` proves the generic pagination theorems and instantiates them for the three listings of
cw20-base.  This file instantiates them for the other 13 paginated listings of the suite, as the models
define them:

| contract            | listing (model function)                                   | key, order            | cursor            |
|---------------------|-------------------------------------------------------------|-----------------------|-------------------|
| cw1-subkeys         | `AllAllowances` (`Cw1Subkeys.queryAllAllowances`)           | spender, ascending    | raw string; expired entries filtered before `take` |
| cw1-subkeys         | `AllPermissions` (`Cw1Subkeys.queryAllPermissions`)         | spender, ascending    | raw string        |
| cw3-fixed-multisig  | `ListProposals` (`Cw3Fixed.listProposals`)                  | id, ascending         | id                |
| cw3-fixed-multisig  | `ReverseProposals` (`Cw3Fixed.reverseProposals`)            | id, descending        | id (`start_before`) |
| cw3-fixed-multisig  | `ListVotes` (`Cw3Fixed.listVotes`)                          | voter, ascending      | raw string        |
| cw3-fixed-multisig  | `ListVoters` (`Cw3Fixed.listVoters`)                        | voter, ascending      | raw string        |
| cw3-flex-multisig   | `ListProposals`, `ReverseProposals` (`Cw3Flex.…`)           | as cw3-fixed          | id                |
| cw3-flex-multisig   | `ListVotes` (`Cw3Flex.listVotes`)                           | voter, ascending      | validated (`maybe_addr`) |
| cw3-flex-multisig   | `ListVoters` (`Cw3Flex.listVoters` = the group's `ListMembers`) | member, ascending | validated         |
| cw4-group           | `ListMembers` (`Cw4Group.queryListMembers`)                 | member, ascending     | validated         |
| cw4-stake           | `ListMembers` (`Cw4Stake.queryListMembers`)                 | member, ascending     | validated         |
| cw20-ics20          | `ListAllowed` (`Ics20.queryListAllowed`)                    | token, ascending      | validated         |

For every listing there are

* `<listing>_eq` where the query is not literally a `page` (cursor validation, `viewAll`): the query as
  `if guard then .ok (page …) else .error _`;
* `<listing>_page_len`: every page has at most `effLimit limit = min (limit or 10) 30` items, together with
  the exact set of inputs the query rejects;
* `<listing>_loop`: completeness for a state whose underlying map has no duplicate keys;
* `<listing>_complete`: completeness in every *reachable* state (any accepted instantiation, any history),
  using the `NodupKeys` invariants of `Lemmas/*Nodup.lean`, `Cw3Core.WF`, `Cw3Fixed.Inv`.

The client loop is `fetchLoop q key none fuel` of `Base/Paginate.lean`: request a page, continue from the key of
the last returned item.  For a validated cursor the client wraps the returned address as an argument that
validates (`⟨true, addr⟩`): it is an address the contract itself stored and returned.

Two peculiarities of the models (both are what the Rust code does):

* `ListProposals` / `ReverseProposals` map `current_status` over the page (`viewAll`) and the whole query fails
  when that fails for one listed proposal.  For cw3-fixed this never happens in a reachable state
  (`fixed_status_total`, from `Cw3Fixed.Inv` and `C04.no_panic`).  For cw3-flex the recorded total weight of a
  proposal need not bound its tally (finding D3 of C06), so the flex theorems carry the hypothesis
  `StatusTotal core blk` (every stored proposal has a status at the query block).  `flex_status_total` discharges
  it in every reachable flex world in which the four tally counters of every proposal together fit `u64`
  (`TallyFits`; the handlers store only records they could evaluate, and such a record has a status at every
  block: `Cw3.cs_stable`); `tally_overflow_no_status` shows the one way it can fail otherwise.
* cw3-flex reads its voters from the group contract of its world; `Cw3Flex.Reachable` starts from an arbitrary
  group state, so `flex_listVoters_complete` additionally assumes that the initial group state is itself
  reachable from an accepted `Cw4Group.instantiate`.
-/
namespace CwPlus.Props.C20Listings
open CwPlus CwPlus.Paginate CwPlus.Props.C20

/-! ## helpers -/

@[simp] theorem okItems_ok {α : Type} (l : List α) : okItems (.ok l : Res (List α)) = l := rfl
@[simp] theorem okItems_error {α : Type} (e : String) : okItems (.error e : Res (List α)) = [] := rfl

/-- A failed query shows no items; a successful one at most a page. -/
theorem okItems_ite_len {α : Type} (g : Bool) (l : List α) (e : String) (n : Nat) (h : l.length ≤ n) :
    (okItems (if g = true then (.ok l : Res (List α)) else .error e)).length ≤ n := by
  cases g <;> simp [h]

/-! ## cw4-group: `ListMembers` -/

/-- With an absent or validating cursor the query is a page of the sorted current members; an invalid
cursor is rejected (`maybe_addr`). -/
theorem group_listMembers_eq (s : Cw4Group.State) (after : Option Cw4Group.AddrArg) (limit : Option Nat) :
    Cw4Group.queryListMembers s after limit =
      if after.all (·.valid) = true then
        .ok (page strLt (sortedEntries strLt s.members.cur) (after.map (·.text)) limit)
      else .error "addr" := by
  cases after with
  | none => rfl
  | some a => cases hv : a.valid <;>
      simp [Cw4Group.queryListMembers, hv, check, bind, Except.bind, pure, Except.pure]

/-- (a) A page of `ListMembers` has at most `min (limit or 10) 30` items; the query is rejected exactly
when a cursor is given that does not validate. -/
theorem group_listMembers_page_len (s : Cw4Group.State) (after : Option Cw4Group.AddrArg) (limit : Option Nat) :
    (okItems (Cw4Group.queryListMembers s after limit)).length ≤ effLimit limit ∧
    (Cw4Group.queryListMembers s after limit).isOk = after.all (·.valid) := by
  rw [group_listMembers_eq]
  refine ⟨okItems_ite_len _ _ _ _ (page_length_le _ _ _ _), ?_⟩
  cases after.all (·.valid) <;> rfl

/-- (b) state level: if the current members are distinct, the client loop returns all of them, ascending. -/
theorem group_listMembers_loop {s : Cw4Group.State} (hs : AMap.NodupKeys s.members.cur) (limit : Option Nat)
    (hl : limit ≠ some 0) {fuel : Nat} (hf : s.members.cur.length + 1 ≤ fuel) :
    fetchLoop (fun c => okItems (Cw4Group.queryListMembers s (c.map (⟨true, ·⟩)) limit)) (·.1) none fuel
      = sortedEntries strLt s.members.cur :=
  listing_complete_id strictTotal_strLt hs hl
    (fun c => by cases c <;> simp [group_listMembers_eq]) hf

/-- (b) `ListMembers` of cw4-group is complete in every reachable state: after any accepted instantiation and
any history of calls, for every limit ≠ 0, the loop returns every current member exactly once in address order. -/
theorem group_listMembers_complete {m : Cw4Group.InstMsg} {h0 : Nat} {s0 : Cw4Group.State}
    (hi : Cw4Group.instantiate m h0 = .ok s0) (ops : List Cw4Group.Op) (limit : Option Nat) (hl : limit ≠ some 0)
    {fuel : Nat} (hf : (Cw4Group.run s0 ops).members.cur.length + 1 ≤ fuel) :
    fetchLoop (fun c => okItems (Cw4Group.queryListMembers (Cw4Group.run s0 ops) (c.map (⟨true, ·⟩)) limit))
        (·.1) none fuel
      = sortedEntries strLt (Cw4Group.run s0 ops).members.cur :=
  group_listMembers_loop (Cw4Group.run_nodup ops (Cw4Group.instantiate_nodup hi)) limit hl hf

/-! ## cw4-stake: `ListMembers` -/

theorem stake_listMembers_eq (s : Cw4Stake.State) (after : Option Cw4Stake.AddrArg) (limit : Option Nat) :
    Cw4Stake.queryListMembers s after limit =
      if after.all (·.valid) = true then
        .ok (page strLt (sortedEntries strLt s.members.cur) (after.map (·.text)) limit)
      else .error "addr" := by
  cases after with
  | none => rfl
  | some a => cases hv : a.valid <;>
      simp [Cw4Stake.queryListMembers, hv, check, bind, Except.bind, pure, Except.pure]

/-- (a) page bound; rejected exactly when the cursor does not validate. -/
theorem stake_listMembers_page_len (s : Cw4Stake.State) (after : Option Cw4Stake.AddrArg) (limit : Option Nat) :
    (okItems (Cw4Stake.queryListMembers s after limit)).length ≤ effLimit limit ∧
    (Cw4Stake.queryListMembers s after limit).isOk = after.all (·.valid) := by
  rw [stake_listMembers_eq]
  refine ⟨okItems_ite_len _ _ _ _ (page_length_le _ _ _ _), ?_⟩
  cases after.all (·.valid) <;> rfl

theorem stake_listMembers_loop {s : Cw4Stake.State} (hs : AMap.NodupKeys s.members.cur) (limit : Option Nat)
    (hl : limit ≠ some 0) {fuel : Nat} (hf : s.members.cur.length + 1 ≤ fuel) :
    fetchLoop (fun c => okItems (Cw4Stake.queryListMembers s (c.map (⟨true, ·⟩)) limit)) (·.1) none fuel
      = sortedEntries strLt s.members.cur :=
  listing_complete_id strictTotal_strLt hs hl
    (fun c => by cases c <;> simp [stake_listMembers_eq]) hf

/-- (b) `ListMembers` of cw4-stake is complete in every reachable world: any accepted instantiation, any
initial balances and hook environment, any history of transactions. -/
theorem stake_listMembers_complete {m : Cw4Stake.InstMsg} {s0 : Cw4Stake.State} (hi : Cw4Stake.instantiate m = .ok s0)
    (bal : AMap Addr Nat) (accepting : List Addr) (ops : List (Block × Cw4Stake.Op)) (limit : Option Nat)
    (hl : limit ≠ some 0) {fuel : Nat}
    (hf : (Cw4Stake.run (Cw4Stake.World.init s0 bal accepting) ops).st.members.cur.length + 1 ≤ fuel) :
    fetchLoop (fun c => okItems (Cw4Stake.queryListMembers
        (Cw4Stake.run (Cw4Stake.World.init s0 bal accepting) ops).st (c.map (⟨true, ·⟩)) limit)) (·.1) none fuel
      = sortedEntries strLt (Cw4Stake.run (Cw4Stake.World.init s0 bal accepting) ops).st.members.cur :=
  stake_listMembers_loop
    (Cw4Stake.run_nodup (w := Cw4Stake.World.init s0 bal accepting) (Cw4Stake.instantiate_nodup hi) ops) limit hl hf

/-! ## cw1-subkeys: `AllAllowances` (filtered), `AllPermissions` -/

/-- Histories of the subkeys contract: any list of (block, sender, message); failed calls roll back. -/
def subkeysRun (s : Cw1Subkeys.State) (ops : List (Block × Addr × Cw1Subkeys.Msg)) : Cw1Subkeys.State :=
  ops.foldl (fun s op => Cw1Subkeys.step s op.1 op.2.1 op.2.2) s

/-- The filter of `AllAllowances`: entries that are not expired at the query block. -/
def live (blk : Block) (p : Addr × Cw1Subkeys.Allowance) : Bool := !p.2.expires.isExpired blk

/-- `AllAllowances` is `range(after).filter(not expired).take(limit)`. -/
theorem subkeys_allAllowances_eq (s : Cw1Subkeys.State) (blk : Block) (after : Option String) (limit : Option Nat) :
    Cw1Subkeys.queryAllAllowances s blk after limit
      = pageFiltered strLt (live blk) (sortedEntries strLt s.allowances) after limit :=
  (pageFiltered_eq strLt (live blk) _ after limit).symm

/-- (a) A page of `AllAllowances` has at most `min (limit or 10) 30` items — expired entries do not count,
they are dropped before `take`; the raw cursor is never rejected (the query is total) and no expired entry is shown. -/
theorem subkeys_allAllowances_page_len (s : Cw1Subkeys.State) (blk : Block) (after : Option String)
    (limit : Option Nat) :
    (Cw1Subkeys.queryAllAllowances s blk after limit).length ≤ effLimit limit ∧
    ∀ x ∈ Cw1Subkeys.queryAllAllowances s blk after limit, x.2.expires.isExpired blk = false := by
  refine ⟨page_length_le _ _ _ _, ?_⟩
  intro x hx
  have := (page_sublist strLt _ after limit).subset hx
  simpa using (List.mem_filter.mp this).2

theorem subkeys_allAllowances_loop {s : Cw1Subkeys.State} (hs : AMap.NodupKeys s.allowances) (blk : Block)
    (limit : Option Nat) (hl : limit ≠ some 0) {fuel : Nat} (hf : s.allowances.length + 1 ≤ fuel) :
    fetchLoop (fun c => Cw1Subkeys.queryAllAllowances s blk c limit) (·.1) none fuel
      = (sortedEntries strLt s.allowances).filter (live blk) :=
  listing_complete_filtered_id strictTotal_strLt hs (live blk) hl
    (fun c => subkeys_allAllowances_eq s blk c limit) hf

/-- (b) `AllAllowances` is complete in every reachable state: the loop returns exactly the allowances that are
not expired at the query block, each once, ascending by spender. -/
theorem subkeys_allAllowances_complete {m : Cw1Subkeys.InstMsg} {s0 : Cw1Subkeys.State}
    (hi : Cw1Subkeys.instantiate m = .ok s0) (ops : List (Block × Addr × Cw1Subkeys.Msg)) (blk : Block)
    (limit : Option Nat) (hl : limit ≠ some 0) {fuel : Nat} (hf : (subkeysRun s0 ops).allowances.length + 1 ≤ fuel) :
    fetchLoop (fun c => Cw1Subkeys.queryAllAllowances (subkeysRun s0 ops) blk c limit) (·.1) none fuel
      = (sortedEntries strLt (subkeysRun s0 ops).allowances).filter (live blk) :=
  subkeys_allAllowances_loop (Cw1Subkeys.run_nodup ops (Cw1Subkeys.instantiate_nodup hi)).allowances blk limit hl hf

/-- (a) A page of `AllPermissions` has at most `min (limit or 10) 30` items; the query is total (raw cursor). -/
theorem subkeys_allPermissions_page_len (s : Cw1Subkeys.State) (after : Option String) (limit : Option Nat) :
    (Cw1Subkeys.queryAllPermissions s after limit).length ≤ effLimit limit :=
  page_length_le _ _ _ _

theorem subkeys_allPermissions_loop {s : Cw1Subkeys.State} (hs : AMap.NodupKeys s.permissions)
    (limit : Option Nat) (hl : limit ≠ some 0) {fuel : Nat} (hf : s.permissions.length + 1 ≤ fuel) :
    fetchLoop (fun c => Cw1Subkeys.queryAllPermissions s c limit) (·.1) none fuel
      = sortedEntries strLt s.permissions :=
  listing_complete_id strictTotal_strLt hs hl (fun _ => rfl) hf

/-- (b) `AllPermissions` is complete in every reachable state. -/
theorem subkeys_allPermissions_complete {m : Cw1Subkeys.InstMsg} {s0 : Cw1Subkeys.State}
    (hi : Cw1Subkeys.instantiate m = .ok s0) (ops : List (Block × Addr × Cw1Subkeys.Msg))
    (limit : Option Nat) (hl : limit ≠ some 0) {fuel : Nat} (hf : (subkeysRun s0 ops).permissions.length + 1 ≤ fuel) :
    fetchLoop (fun c => Cw1Subkeys.queryAllPermissions (subkeysRun s0 ops) c limit) (·.1) none fuel
      = sortedEntries strLt (subkeysRun s0 ops).permissions :=
  subkeys_allPermissions_loop (Cw1Subkeys.run_nodup ops (Cw1Subkeys.instantiate_nodup hi)).permissions limit hl hf

/-! ## cw20-ics20: `ListAllowed` -/

/-- Histories of the ics20 world: any list of (block, transaction); failed transactions roll back. -/
def ics20Run (w : Ics20.World) (ops : List (Block × Ics20.Op)) : Ics20.World :=
  ops.foldl (fun w o => w.step o.1 o.2) w

theorem ics20_listAllowed_eq (s : Ics20.State) (after : Option Ics20.AddrArg) (limit : Option Nat) :
    Ics20.queryListAllowed s after limit =
      if after.all (·.valid) = true then
        .ok (page strLt (sortedEntries strLt s.allow) (after.map (·.text)) limit)
      else .error "addr" := by
  cases after with
  | none => rfl
  | some a => cases hv : a.valid <;>
      simp [Ics20.queryListAllowed, hv, check, bind, Except.bind, pure, Except.pure]

/-- (a) page bound; rejected exactly when the cursor does not validate. -/
theorem ics20_listAllowed_page_len (s : Ics20.State) (after : Option Ics20.AddrArg) (limit : Option Nat) :
    (okItems (Ics20.queryListAllowed s after limit)).length ≤ effLimit limit ∧
    (Ics20.queryListAllowed s after limit).isOk = after.all (·.valid) := by
  rw [ics20_listAllowed_eq]
  refine ⟨okItems_ite_len _ _ _ _ (page_length_le _ _ _ _), ?_⟩
  cases after.all (·.valid) <;> rfl

theorem ics20_listAllowed_loop {s : Ics20.State} (hs : AMap.NodupKeys s.allow) (limit : Option Nat)
    (hl : limit ≠ some 0) {fuel : Nat} (hf : s.allow.length + 1 ≤ fuel) :
    fetchLoop (fun c => okItems (Ics20.queryListAllowed s (c.map (⟨true, ·⟩)) limit)) (·.1) none fuel
      = sortedEntries strLt s.allow :=
  listing_complete_id strictTotal_strLt hs hl
    (fun c => by cases c <;> simp [ics20_listAllowed_eq]) hf

/-- (b) `ListAllowed` is complete in every reachable world: the contract state comes from an accepted
instantiation, the rest of the world (balances, tokens) is arbitrary, then any history of transactions
(transfers, IBC callbacks, `Allow`, `UpdateAdmin`, `migrate`). -/
theorem ics20_listAllowed_complete {m : Ics20.InstMsg} {w0 : Ics20.World} (hi : Ics20.instantiate m = .ok w0.st)
    (ops : List (Block × Ics20.Op)) (limit : Option Nat) (hl : limit ≠ some 0) {fuel : Nat}
    (hf : (ics20Run w0 ops).st.allow.length + 1 ≤ fuel) :
    fetchLoop (fun c => okItems (Ics20.queryListAllowed (ics20Run w0 ops).st (c.map (⟨true, ·⟩)) limit)) (·.1) none fuel
      = sortedEntries strLt (ics20Run w0 ops).st.allow :=
  ics20_listAllowed_loop (Ics20.run_nodup ops (Ics20.instantiate_nodup hi)) limit hl hf

/-! ## cw3 core (shared by cw3-fixed and cw3-flex): proposals forward / reverse, votes -/

/-- Every stored proposal has a status at block `blk` (`current_status` does not fail). -/
def StatusTotal (c : Cw3Core.Core) (blk : Block) : Prop :=
  ∀ id p, c.proposals.get? id = some p → ∃ st, p.currentStatus blk = .ok st

theorem statusTotal_of_mem {c : Cw3Core.Core} {blk : Block} (hn : AMap.NodupKeys c.proposals)
    (hv : StatusTotal c blk) {x : Nat × Cw3Core.Proposal} (hx : x ∈ c.proposals) :
    ∃ st, x.2.currentStatus blk = .ok st :=
  hv x.1 x.2 ((AMap.get?_eq_some_iff hn).mpr hx)

/-- `ListProposals` succeeds exactly when every proposal on the page has a status at the query block, and then
shows one view per entry of the page (in particular at most `min (limit or 10) 30`). -/
theorem core_listProposals_page_len (c : Cw3Core.Core) (blk : Block) (after limit : Option Nat) :
    (okItems (Cw3Core.listProposals c blk after limit)).length ≤ effLimit limit ∧
    ((Cw3Core.listProposals c blk after limit).isOk = true ↔
      ∀ x ∈ page natLt (sortedEntries natLt c.proposals) after limit, ∃ st, x.2.currentStatus blk = .ok st) := by
  unfold Cw3Core.listProposals
  cases h : Cw3Core.viewAll blk (page natLt (sortedEntries natLt c.proposals) after limit) with
  | ok vs =>
    refine ⟨?_, fun _ => (Cw3Core.viewAll_ok_all h).1, fun _ => rfl⟩
    simp only [okItems_ok, Cw3Core.viewAll_length h]
    exact page_length_le _ _ _ _
  | error e =>
    refine ⟨by simp, fun hok => (by cases hok), fun hall => ?_⟩
    rw [Cw3Core.viewAll_eq_map hall] at h; cases h

/-- The same for `ReverseProposals`. -/
theorem core_reverseProposals_page_len (c : Cw3Core.Core) (blk : Block) (before limit : Option Nat) :
    (okItems (Cw3Core.reverseProposals c blk before limit)).length ≤ effLimit limit ∧
    ((Cw3Core.reverseProposals c blk before limit).isOk = true ↔
      ∀ x ∈ Cw3Core.pageDesc natLt (sortedEntries natLt c.proposals) before limit,
        ∃ st, x.2.currentStatus blk = .ok st) := by
  unfold Cw3Core.reverseProposals
  cases h : Cw3Core.viewAll blk (Cw3Core.pageDesc natLt (sortedEntries natLt c.proposals) before limit) with
  | ok vs =>
    refine ⟨?_, fun _ => (Cw3Core.viewAll_ok_all h).1, fun _ => rfl⟩
    simp only [okItems_ok, Cw3Core.viewAll_length h]
    exact Cw3Core.pageDesc_length_le _ _ _ _
  | error e =>
    refine ⟨by simp, fun hok => (by cases hok), fun hall => ?_⟩
    rw [Cw3Core.viewAll_eq_map hall] at h; cases h

/-- With distinct ids and computable statuses `ListProposals` is the page of the ascending listing, viewed. -/
theorem core_listProposals_eq {c : Cw3Core.Core} {blk : Block} (hn : AMap.NodupKeys c.proposals)
    (hv : StatusTotal c blk) (after limit : Option Nat) :
    Cw3Core.listProposals c blk after limit
      = .ok ((page natLt (sortedEntries natLt c.proposals) after limit).map (Cw3Core.viewD blk)) :=
  Cw3Core.viewAll_eq_map fun _ hx =>
    statusTotal_of_mem hn hv (mem_sortedEntries.mp ((page_sublist natLt _ after limit).subset hx))

/-- With distinct ids and computable statuses `ReverseProposals` is the page of the descending listing, viewed. -/
theorem core_reverseProposals_eq {c : Cw3Core.Core} {blk : Block} (hn : AMap.NodupKeys c.proposals)
    (hv : StatusTotal c blk) (before limit : Option Nat) :
    Cw3Core.reverseProposals c blk before limit
      = .ok ((pageDesc natLt (sortedEntriesDesc natLt c.proposals) before limit).map (Cw3Core.viewD blk)) := by
  unfold Cw3Core.reverseProposals
  rw [Cw3Core.pageDesc_eq strictTotal_natLt hn]
  exact Cw3Core.viewAll_eq_map fun _ hx =>
    statusTotal_of_mem hn hv (mem_sortedEntries.mp ((page_sublist _ _ before limit).subset hx))

/-- Completeness of `ListProposals` (state level): the loop (cursor = id of the last view) returns exactly the
views of all stored proposals in ascending id order. -/
theorem core_listProposals_loop {c : Cw3Core.Core} {blk : Block} (hn : AMap.NodupKeys c.proposals)
    (hv : StatusTotal c blk) (limit : Option Nat) (hl : limit ≠ some 0) {fuel : Nat}
    (hf : c.proposals.length + 1 ≤ fuel) :
    Cw3Core.viewAll blk (sortedEntries natLt c.proposals)
      = .ok (fetchLoop (fun cur => okItems (Cw3Core.listProposals c blk cur limit)) (·.id) none fuel) := by
  rw [listing_complete strictTotal_natLt hn hl (f := Cw3Core.viewD blk) (key := (·.id))
    (fun cur => by rw [core_listProposals_eq hn hv]; rfl) (fun _ => rfl) hf]
  exact Cw3Core.viewAll_eq_map fun _ hx => statusTotal_of_mem hn hv (mem_sortedEntries.mp hx)

/-- Completeness of `ReverseProposals` (state level): the loop (`start_before` = id of the last view) returns
exactly the views of all stored proposals in descending id order. -/
theorem core_reverseProposals_loop {c : Cw3Core.Core} {blk : Block} (hn : AMap.NodupKeys c.proposals)
    (hv : StatusTotal c blk) (limit : Option Nat) (hl : limit ≠ some 0) {fuel : Nat}
    (hf : c.proposals.length + 1 ≤ fuel) :
    Cw3Core.viewAll blk (sortedEntries natLt c.proposals).reverse
      = .ok (fetchLoop (fun cur => okItems (Cw3Core.reverseProposals c blk cur limit)) (·.id) none fuel) := by
  have h := listing_complete_desc strictTotal_natLt hn hl (f := Cw3Core.viewD blk) (key := (·.id))
    (q := fun cur => okItems (Cw3Core.reverseProposals c blk cur limit))
    (fun cur => by rw [core_reverseProposals_eq hn hv]; rfl) (fun _ => rfl) hf
  rw [h.1, h.2]
  exact Cw3Core.viewAll_eq_map fun _ hx =>
    statusTotal_of_mem hn hv (mem_sortedEntries.mp (List.mem_reverse.mp hx))

/-- Completeness of `ListVotes` of one proposal (state level, raw cursor). -/
theorem core_listVotes_loop {c : Cw3Core.Core} (hw : Cw3Core.WF c) (id : Nat) (limit : Option Nat)
    (hl : limit ≠ some 0) {fuel : Nat} (hf : (Cw3Core.ballotsOf c id).length + 1 ≤ fuel) :
    fetchLoop (fun cur => Cw3Core.listVotes c id cur limit) (·.1) none fuel
      = sortedEntries strLt (Cw3Core.ballotsOf c id) :=
  listing_complete_id strictTotal_strLt (hw.nodup id) hl (fun _ => rfl) hf

/-! ## cw3-fixed-multisig: `ListProposals`, `ReverseProposals`, `ListVotes`, `ListVoters` -/

/-- In a reachable world of cw3-fixed `current_status` never fails: the tally of every proposal is bounded by
its total weight, which is the configured `u64` total, and the threshold passed `validate` (C04 `no_panic`). -/
theorem fixed_status_total {fuel : Nat} {w : Cw3Fixed.World} (hr : Cw3Fixed.Reachable fuel w) (blk : Block) :
    StatusTotal w.ms.core blk := by
  intro id p hp
  have hi := Cw3Fixed.reachable_inv hr
  have hc := hi.propCfg id p hp
  have prem : C04.Premise p.tally :=
    ⟨by simpa [Cw3Core.Proposal.tally, C04.cast] using hi.tally_le hp,
     by show p.totalWeight ≤ U64_MAX; rw [hc.1]; exact hi.totalU64,
     by show p.threshold.validate p.totalWeight = .ok (); rw [hc.2.1, hc.1]; exact hi.thrValid⟩
  exact (C04.no_panic prem blk).2.2

/-- (a) `ListProposals`: page bound, and the exact rejection condition (a listed proposal without status). -/
theorem fixed_listProposals_page_len (s : Cw3Fixed.State) (blk : Block) (after limit : Option Nat) :
    (okItems (Cw3Fixed.listProposals s blk after limit)).length ≤ effLimit limit ∧
    ((Cw3Fixed.listProposals s blk after limit).isOk = true ↔
      ∀ x ∈ page natLt (sortedEntries natLt s.core.proposals) after limit, ∃ st, x.2.currentStatus blk = .ok st) :=
  core_listProposals_page_len s.core blk after limit

/-- (a) `ReverseProposals`: page bound and rejection condition. -/
theorem fixed_reverseProposals_page_len (s : Cw3Fixed.State) (blk : Block) (before limit : Option Nat) :
    (okItems (Cw3Fixed.reverseProposals s blk before limit)).length ≤ effLimit limit ∧
    ((Cw3Fixed.reverseProposals s blk before limit).isOk = true ↔
      ∀ x ∈ Cw3Core.pageDesc natLt (sortedEntries natLt s.core.proposals) before limit,
        ∃ st, x.2.currentStatus blk = .ok st) :=
  core_reverseProposals_page_len s.core blk before limit

/-- In a reachable world neither proposal listing ever fails, for any cursor, limit and query block. -/
theorem fixed_proposal_listings_total {fuel : Nat} {w : Cw3Fixed.World} (hr : Cw3Fixed.Reachable fuel w) (blk : Block)
    (cur limit : Option Nat) :
    (Cw3Fixed.listProposals w.ms blk cur limit).isOk = true ∧ (Cw3Fixed.reverseProposals w.ms blk cur limit).isOk = true := by
  have hn := Cw3Fixed.reachable_nodup hr
  have hv := fixed_status_total hr blk
  constructor
  · show (Cw3Core.listProposals w.ms.core blk cur limit).isOk = true
    rw [core_listProposals_eq hn hv]; rfl
  · show (Cw3Core.reverseProposals w.ms.core blk cur limit).isOk = true
    rw [core_reverseProposals_eq hn hv]; rfl

/-- (b) `ListProposals` of cw3-fixed is complete in every reachable world, at every query block: the loop returns
the views of all proposals, ascending by id, each once. -/
theorem fixed_listProposals_complete {fuel : Nat} {w : Cw3Fixed.World} (hr : Cw3Fixed.Reachable fuel w) (blk : Block)
    (limit : Option Nat) (hl : limit ≠ some 0) {n : Nat} (hf : w.ms.core.proposals.length + 1 ≤ n) :
    Cw3Core.viewAll blk (sortedEntries natLt w.ms.core.proposals)
      = .ok (fetchLoop (fun cur => okItems (Cw3Fixed.listProposals w.ms blk cur limit)) (·.id) none n) :=
  core_listProposals_loop (Cw3Fixed.reachable_nodup hr) (fixed_status_total hr blk) limit hl hf

/-- (b) `ReverseProposals` of cw3-fixed is complete in every reachable world: all proposals, descending by id. -/
theorem fixed_reverseProposals_complete {fuel : Nat} {w : Cw3Fixed.World} (hr : Cw3Fixed.Reachable fuel w) (blk : Block)
    (limit : Option Nat) (hl : limit ≠ some 0) {n : Nat} (hf : w.ms.core.proposals.length + 1 ≤ n) :
    Cw3Core.viewAll blk (sortedEntries natLt w.ms.core.proposals).reverse
      = .ok (fetchLoop (fun cur => okItems (Cw3Fixed.reverseProposals w.ms blk cur limit)) (·.id) none n) :=
  core_reverseProposals_loop (Cw3Fixed.reachable_nodup hr) (fixed_status_total hr blk) limit hl hf

/-- (a) `ListVotes`: page bound; total (raw cursor, unknown proposal ids list nothing). -/
theorem fixed_listVotes_page_len (s : Cw3Fixed.State) (id : Nat) (after : Option String) (limit : Option Nat) :
    (Cw3Fixed.listVotes s id after limit).length ≤ effLimit limit :=
  page_length_le _ _ _ _

/-- (b) `ListVotes` of cw3-fixed is complete in every reachable world, for every proposal id. -/
theorem fixed_listVotes_complete {fuel : Nat} {w : Cw3Fixed.World} (hr : Cw3Fixed.Reachable fuel w) (id : Nat)
    (limit : Option Nat) (hl : limit ≠ some 0) {n : Nat} (hf : (Cw3Core.ballotsOf w.ms.core id).length + 1 ≤ n) :
    fetchLoop (fun cur => Cw3Fixed.listVotes w.ms id cur limit) (·.1) none n
      = sortedEntries strLt (Cw3Core.ballotsOf w.ms.core id) :=
  core_listVotes_loop (Cw3Fixed.reachable_inv hr).wf id limit hl hf

/-- (a) `ListVoters`: page bound; total (raw cursor). -/
theorem fixed_listVoters_page_len (s : Cw3Fixed.State) (after : Option String) (limit : Option Nat) :
    (Cw3Fixed.listVoters s after limit).length ≤ effLimit limit :=
  page_length_le _ _ _ _

theorem fixed_listVoters_loop {s : Cw3Fixed.State} (hs : AMap.NodupKeys s.voters) (limit : Option Nat)
    (hl : limit ≠ some 0) {n : Nat} (hf : s.voters.length + 1 ≤ n) :
    fetchLoop (fun cur => Cw3Fixed.listVoters s cur limit) (·.1) none n = sortedEntries strLt s.voters :=
  listing_complete_id strictTotal_strLt hs hl (fun _ => rfl) hf

/-- (b) `ListVoters` of cw3-fixed is complete in every reachable world. -/
theorem fixed_listVoters_complete {fuel : Nat} {w : Cw3Fixed.World} (hr : Cw3Fixed.Reachable fuel w)
    (limit : Option Nat) (hl : limit ≠ some 0) {n : Nat} (hf : w.ms.voters.length + 1 ≤ n) :
    fetchLoop (fun cur => Cw3Fixed.listVoters w.ms cur limit) (·.1) none n = sortedEntries strLt w.ms.voters :=
  fixed_listVoters_loop (Cw3Fixed.reachable_inv hr).votersNodup limit hl hf

/-! ## cw3-flex-multisig: `ListProposals`, `ReverseProposals`, `ListVotes`, `ListVoters` -/

/-- (a) `ListProposals`: page bound, and the exact rejection condition (a listed proposal without status). -/
theorem flex_listProposals_page_len (s : Cw3Flex.State) (blk : Block) (after limit : Option Nat) :
    (okItems (Cw3Flex.listProposals s blk after limit)).length ≤ effLimit limit ∧
    ((Cw3Flex.listProposals s blk after limit).isOk = true ↔
      ∀ x ∈ page natLt (sortedEntries natLt s.core.proposals) after limit, ∃ st, x.2.currentStatus blk = .ok st) :=
  core_listProposals_page_len s.core blk after limit

/-- (a) `ReverseProposals`: page bound and rejection condition. -/
theorem flex_reverseProposals_page_len (s : Cw3Flex.State) (blk : Block) (before limit : Option Nat) :
    (okItems (Cw3Flex.reverseProposals s blk before limit)).length ≤ effLimit limit ∧
    ((Cw3Flex.reverseProposals s blk before limit).isOk = true ↔
      ∀ x ∈ Cw3Core.pageDesc natLt (sortedEntries natLt s.core.proposals) before limit,
        ∃ st, x.2.currentStatus blk = .ok st) :=
  core_reverseProposals_page_len s.core blk before limit

/-- (b) `ListProposals` of cw3-flex is complete in every reachable world at every query block at which every
stored proposal has a status (`StatusTotal`; see the header: unlike cw3-fixed this is not an invariant of the
flex model because of D3). -/
theorem flex_listProposals_complete {ext : Cw3Flex.Ext} {fuel : Nat} {w : Cw3Flex.World}
    (hr : Cw3Flex.Reachable ext fuel w) (blk : Block) (hv : StatusTotal w.flex.core blk)
    (limit : Option Nat) (hl : limit ≠ some 0) {n : Nat} (hf : w.flex.core.proposals.length + 1 ≤ n) :
    Cw3Core.viewAll blk (sortedEntries natLt w.flex.core.proposals)
      = .ok (fetchLoop (fun cur => okItems (Cw3Flex.listProposals w.flex blk cur limit)) (·.id) none n) :=
  core_listProposals_loop (Cw3Flex.reachable_nodup hr) hv limit hl hf

/-- (b) `ReverseProposals` of cw3-flex, same hypothesis: all proposals, descending by id. -/
theorem flex_reverseProposals_complete {ext : Cw3Flex.Ext} {fuel : Nat} {w : Cw3Flex.World}
    (hr : Cw3Flex.Reachable ext fuel w) (blk : Block) (hv : StatusTotal w.flex.core blk)
    (limit : Option Nat) (hl : limit ≠ some 0) {n : Nat} (hf : w.flex.core.proposals.length + 1 ≤ n) :
    Cw3Core.viewAll blk (sortedEntries natLt w.flex.core.proposals).reverse
      = .ok (fetchLoop (fun cur => okItems (Cw3Flex.reverseProposals w.flex blk cur limit)) (·.id) none n) :=
  core_reverseProposals_loop (Cw3Flex.reachable_nodup hr) hv limit hl hf

/-- The four tally counters of every stored proposal together fit `u64`. -/
def TallyFits (c : Cw3Core.Core) : Prop := ∀ id p, c.proposals.get? id = some p → p.Fits

/-- In a reachable cw3-flex world whose tallies fit `u64`, every stored proposal has a status at every block —
whatever the group did (the recorded total need not bound the tally): the handlers evaluate `current_status` on
the record they store, and a record that could be evaluated once can be evaluated at every block. -/
theorem flex_status_total {ext : Cw3Flex.Ext} {fuel : Nat} {w : Cw3Flex.World} (hr : Cw3Flex.Reachable ext fuel w)
    (hfit : TallyFits w.flex.core) (blk : Block) : StatusTotal w.flex.core blk :=
  fun id p hp => Cw3Flex.reachable_statusInv hr id p hp (hfit id p hp) blk

/-- Hence in such a world neither proposal listing ever fails. -/
theorem flex_proposal_listings_total {ext : Cw3Flex.Ext} {fuel : Nat} {w : Cw3Flex.World}
    (hr : Cw3Flex.Reachable ext fuel w) (hfit : TallyFits w.flex.core) (blk : Block) (cur limit : Option Nat) :
    (Cw3Flex.listProposals w.flex blk cur limit).isOk = true ∧ (Cw3Flex.reverseProposals w.flex blk cur limit).isOk = true := by
  have hn := Cw3Flex.reachable_nodup hr
  have hv := flex_status_total hr hfit blk
  constructor
  · show (Cw3Core.listProposals w.flex.core blk cur limit).isOk = true
    rw [core_listProposals_eq hn hv]; rfl
  · show (Cw3Core.reverseProposals w.flex.core blk cur limit).isOk = true
    rw [core_reverseProposals_eq hn hv]; rfl

attribute [local instance] C04.decEqRes in
/-- The proviso `TallyFits` cannot be dropped from `cs_stable`: a quorum proposal without Yes weight whose
`Votes::total()` overflows is Open before its expiry and has no status afterwards. -/
theorem tally_overflow_no_status :
    Cw3.currentStatus ⟨.open, .thresholdQuorum Cw3.DEC_ONE Cw3.DEC_ONE, 1, ⟨0, 0, 1, U64_MAX⟩, .atHeight 10⟩ ⟨5, 0⟩
      = .ok .open ∧
    (Cw3.currentStatus ⟨.open, .thresholdQuorum Cw3.DEC_ONE Cw3.DEC_ONE, 1, ⟨0, 0, 1, U64_MAX⟩, .atHeight 10⟩
      ⟨10, 0⟩).isOk = false := by
  decide

/-- cw3-flex validates the `ListVotes` cursor (`maybe_addr`), unlike cw3-fixed. -/
theorem flex_listVotes_eq (s : Cw3Flex.State) (id : Nat) (after : Option Cw3Core.AddrArg) (limit : Option Nat) :
    Cw3Flex.listVotes s id after limit =
      if after.all (·.valid) = true then
        .ok (page strLt (sortedEntries strLt (Cw3Core.ballotsOf s.core id)) (after.map (·.text)) limit)
      else .error "addr" := by
  cases after with
  | none => rfl
  | some a => cases hv : a.valid <;>
      simp [Cw3Flex.listVotes, Cw3Core.listVotes, hv, check, bind, Except.bind, pure, Except.pure]

/-- (a) `ListVotes`: page bound; rejected exactly when the cursor does not validate. -/
theorem flex_listVotes_page_len (s : Cw3Flex.State) (id : Nat) (after : Option Cw3Core.AddrArg) (limit : Option Nat) :
    (okItems (Cw3Flex.listVotes s id after limit)).length ≤ effLimit limit ∧
    (Cw3Flex.listVotes s id after limit).isOk = after.all (·.valid) := by
  rw [flex_listVotes_eq]
  refine ⟨okItems_ite_len _ _ _ _ (page_length_le _ _ _ _), ?_⟩
  cases after.all (·.valid) <;> rfl

/-- (b) `ListVotes` of cw3-flex is complete in every reachable world, for every proposal id. -/
theorem flex_listVotes_complete {ext : Cw3Flex.Ext} {fuel : Nat} {w : Cw3Flex.World}
    (hr : Cw3Flex.Reachable ext fuel w) (id : Nat) (limit : Option Nat) (hl : limit ≠ some 0) {n : Nat}
    (hf : (Cw3Core.ballotsOf w.flex.core id).length + 1 ≤ n) :
    fetchLoop (fun cur => okItems (Cw3Flex.listVotes w.flex id (cur.map (⟨true, ·⟩)) limit)) (·.1) none n
      = sortedEntries strLt (Cw3Core.ballotsOf w.flex.core id) :=
  listing_complete_id strictTotal_strLt ((Cw3Flex.reachable_inv hr).wf.nodup id) hl
    (fun c => by cases c <;> simp [flex_listVotes_eq]) hf

/-- (a) `ListVoters` of cw3-flex is the group's `ListMembers`: page bound; rejected exactly when the cursor
does not validate. -/
theorem flex_listVoters_page_len (g : Cw4Group.State) (after : Option Cw4Group.AddrArg) (limit : Option Nat) :
    (okItems (Cw3Flex.listVoters g after limit)).length ≤ effLimit limit ∧
    (Cw3Flex.listVoters g after limit).isOk = after.all (·.valid) :=
  group_listMembers_page_len g after limit

/-- (b) `ListVoters` of cw3-flex is complete in every world whose group contract was instantiated (any accepted
`Cw4Group.instantiate`, any history `gops` of group calls before the multisig is set up) and then went through
any history `ops` of the world — transactions on the multisig, on the group (also through executed proposals
that call `UpdateMembers`) and on the token.  Holds for any multisig state `s`. -/
theorem flex_listVoters_complete {gm : Cw4Group.InstMsg} {h0 : Nat} {g0 : Cw4Group.State}
    (hg : Cw4Group.instantiate gm h0 = .ok g0) (gops : List Cw4Group.Op) (s : Cw3Flex.State) (t : Cw20.State)
    (bank : AMap (Addr × String) Nat) (self groupAddr tokenAddr : Addr) (hh : Nat) (ext : Cw3Flex.Ext) (fuel : Nat)
    (ops : List Cw3Flex.Op) (limit : Option Nat) (hl : limit ≠ some 0) {n : Nat}
    (hf : (Cw3Flex.run ext fuel (Cw3Flex.World.init s (Cw4Group.run g0 gops) t bank self groupAddr tokenAddr hh)
      ops).group.members.cur.length + 1 ≤ n) :
    fetchLoop (fun cur => okItems (Cw3Flex.listVoters
        (Cw3Flex.run ext fuel (Cw3Flex.World.init s (Cw4Group.run g0 gops) t bank self groupAddr tokenAddr hh) ops).group
        (cur.map (⟨true, ·⟩)) limit)) (·.1) none n
      = sortedEntries strLt
        (Cw3Flex.run ext fuel (Cw3Flex.World.init s (Cw4Group.run g0 gops) t bank self groupAddr tokenAddr hh)
          ops).group.members.cur :=
  group_listMembers_loop
    (Cw3Flex.run_group_nodup ext fuel ops _ (Cw4Group.run_nodup gops (Cw4Group.instantiate_nodup hg))) limit hl hf

/-! ## All 13 listings together -/

/-- **C20 for the 13 listings outside cw20-base.**  Take any reachable state of each of the six contracts
(any accepted instantiation, any history; the flex world stands on a group contract that was itself instantiated
and went through any history), any limit other than 0 (absent, 1, …, above 30), any query block `blk`, any
proposal id.  For every listing the client loop "request a page, continue from the key of the last returned item"
returns every current item exactly once in key order: the sorted entries of the underlying map — reversed for
`ReverseProposals`, restricted to the unexpired entries for the subkeys `AllAllowances`.  (`length + 1` requests
suffice; the `…_complete` theorems give the same for every larger number.)  The only hypothesis that is not
reachability is `StatusTotal` for the two proposal listings of cw3-flex (see the header); `flex_status_total`
derives it from `TallyFits` (the tally of every stored proposal fits `u64`). -/
theorem all_listings_complete
    -- cw1-subkeys
    {skm : Cw1Subkeys.InstMsg} {sk0 : Cw1Subkeys.State} (hsk : Cw1Subkeys.instantiate skm = .ok sk0)
    (skops : List (Block × Addr × Cw1Subkeys.Msg))
    -- cw3-fixed
    {xfuel : Nat} {wx : Cw3Fixed.World} (hfx : Cw3Fixed.Reachable xfuel wx)
    -- cw4-group, and cw3-flex on top of it
    {gm : Cw4Group.InstMsg} {h0 : Nat} {g0 : Cw4Group.State} (hg : Cw4Group.instantiate gm h0 = .ok g0)
    (gops : List Cw4Group.Op)
    {fm : Cw3Flex.InstMsg} {fs : Cw3Flex.State} (hfi : Cw3Flex.instantiate fm (some (Cw4Group.run g0 gops)) = .ok fs)
    (t : Cw20.State) (bank : AMap (Addr × String) Nat) (self groupAddr tokenAddr : Addr) (hh : Nat)
    (ext : Cw3Flex.Ext) (ffuel : Nat) (fops : List Cw3Flex.Op)
    -- cw4-stake
    {sm : Cw4Stake.InstMsg} {ss0 : Cw4Stake.State} (hst : Cw4Stake.instantiate sm = .ok ss0)
    (bal : AMap Addr Nat) (accepting : List Addr) (sops : List (Block × Cw4Stake.Op))
    -- cw20-ics20
    {im : Ics20.InstMsg} {iw0 : Ics20.World} (hic : Ics20.instantiate im = .ok iw0.st) (iops : List (Block × Ics20.Op))
    -- query parameters
    (blk : Block) (id : Nat) (limit : Option Nat) (hl : limit ≠ some 0)
    (hv : StatusTotal (Cw3Flex.run ext ffuel
      (Cw3Flex.World.init fs (Cw4Group.run g0 gops) t bank self groupAddr tokenAddr hh) fops).flex.core blk) :
    let sk := subkeysRun sk0 skops
    let g := Cw4Group.run g0 gops
    let wf := Cw3Flex.run ext ffuel (Cw3Flex.World.init fs g t bank self groupAddr tokenAddr hh) fops
    let ws := Cw4Stake.run (Cw4Stake.World.init ss0 bal accepting) sops
    let wi := ics20Run iw0 iops
    -- 1, 2: cw1-subkeys
    (fetchLoop (fun c => Cw1Subkeys.queryAllAllowances sk blk c limit) (·.1) none (sk.allowances.length + 1)
        = (sortedEntries strLt sk.allowances).filter (live blk)) ∧
    (fetchLoop (fun c => Cw1Subkeys.queryAllPermissions sk c limit) (·.1) none (sk.permissions.length + 1)
        = sortedEntries strLt sk.permissions) ∧
    -- 3 - 6: cw3-fixed
    (Cw3Core.viewAll blk (sortedEntries natLt wx.ms.core.proposals)
        = .ok (fetchLoop (fun c => okItems (Cw3Fixed.listProposals wx.ms blk c limit)) (·.id) none
            (wx.ms.core.proposals.length + 1))) ∧
    (Cw3Core.viewAll blk (sortedEntries natLt wx.ms.core.proposals).reverse
        = .ok (fetchLoop (fun c => okItems (Cw3Fixed.reverseProposals wx.ms blk c limit)) (·.id) none
            (wx.ms.core.proposals.length + 1))) ∧
    (fetchLoop (fun c => Cw3Fixed.listVotes wx.ms id c limit) (·.1) none ((Cw3Core.ballotsOf wx.ms.core id).length + 1)
        = sortedEntries strLt (Cw3Core.ballotsOf wx.ms.core id)) ∧
    (fetchLoop (fun c => Cw3Fixed.listVoters wx.ms c limit) (·.1) none (wx.ms.voters.length + 1)
        = sortedEntries strLt wx.ms.voters) ∧
    -- 7 - 10: cw3-flex
    (Cw3Core.viewAll blk (sortedEntries natLt wf.flex.core.proposals)
        = .ok (fetchLoop (fun c => okItems (Cw3Flex.listProposals wf.flex blk c limit)) (·.id) none
            (wf.flex.core.proposals.length + 1))) ∧
    (Cw3Core.viewAll blk (sortedEntries natLt wf.flex.core.proposals).reverse
        = .ok (fetchLoop (fun c => okItems (Cw3Flex.reverseProposals wf.flex blk c limit)) (·.id) none
            (wf.flex.core.proposals.length + 1))) ∧
    (fetchLoop (fun c => okItems (Cw3Flex.listVotes wf.flex id (c.map (⟨true, ·⟩)) limit)) (·.1) none
          ((Cw3Core.ballotsOf wf.flex.core id).length + 1)
        = sortedEntries strLt (Cw3Core.ballotsOf wf.flex.core id)) ∧
    (fetchLoop (fun c => okItems (Cw3Flex.listVoters wf.group (c.map (⟨true, ·⟩)) limit)) (·.1) none
          (wf.group.members.cur.length + 1)
        = sortedEntries strLt wf.group.members.cur) ∧
    -- 11: cw4-group
    (fetchLoop (fun c => okItems (Cw4Group.queryListMembers g (c.map (⟨true, ·⟩)) limit)) (·.1) none
          (g.members.cur.length + 1)
        = sortedEntries strLt g.members.cur) ∧
    -- 12: cw4-stake
    (fetchLoop (fun c => okItems (Cw4Stake.queryListMembers ws.st (c.map (⟨true, ·⟩)) limit)) (·.1) none
          (ws.st.members.cur.length + 1)
        = sortedEntries strLt ws.st.members.cur) ∧
    -- 13: cw20-ics20
    (fetchLoop (fun c => okItems (Ics20.queryListAllowed wi.st (c.map (⟨true, ·⟩)) limit)) (·.1) none
          (wi.st.allow.length + 1)
        = sortedEntries strLt wi.st.allow) := by
  intro sk g wf ws wi
  have hrf : Cw3Flex.Reachable ext ffuel wf :=
    ⟨fm, fs, g, t, bank, self, groupAddr, tokenAddr, hh, fops, hfi, rfl⟩
  exact ⟨subkeys_allAllowances_complete hsk skops blk limit hl (Nat.le_refl _),
    subkeys_allPermissions_complete hsk skops limit hl (Nat.le_refl _),
    fixed_listProposals_complete hfx blk limit hl (Nat.le_refl _),
    fixed_reverseProposals_complete hfx blk limit hl (Nat.le_refl _),
    fixed_listVotes_complete hfx id limit hl (Nat.le_refl _),
    fixed_listVoters_complete hfx limit hl (Nat.le_refl _),
    flex_listProposals_complete hrf blk hv limit hl (Nat.le_refl _),
    flex_reverseProposals_complete hrf blk hv limit hl (Nat.le_refl _),
    flex_listVotes_complete hrf id limit hl (Nat.le_refl _),
    flex_listVoters_complete hg gops fs t bank self groupAddr tokenAddr hh ext ffuel fops limit hl (Nat.le_refl _),
    group_listMembers_complete hg gops limit hl (Nat.le_refl _),
    stake_listMembers_complete hst bal accepting sops limit hl (Nat.le_refl _),
    ics20_listAllowed_complete hic iops limit hl (Nat.le_refl _)⟩

/-- **Page bounds of the 13 listings**, for every state (reachable or not), cursor and limit: no page has more
than `effLimit limit = min (limit or 10) 30` items (a rejected query shows none). -/
theorem all_listings_page_len (sk : Cw1Subkeys.State) (fx : Cw3Fixed.State) (fl : Cw3Flex.State)
    (g : Cw4Group.State) (st : Cw4Stake.State) (ic : Ics20.State) (blk : Block) (id : Nat)
    (cs : Option String) (cn : Option Nat) (cg : Option Cw4Group.AddrArg) (c3 : Option Cw3Core.AddrArg)
    (c4 : Option Cw4Stake.AddrArg) (ci : Option Ics20.AddrArg) (limit : Option Nat) :
    (Cw1Subkeys.queryAllAllowances sk blk cs limit).length ≤ effLimit limit ∧
    (Cw1Subkeys.queryAllPermissions sk cs limit).length ≤ effLimit limit ∧
    (okItems (Cw3Fixed.listProposals fx blk cn limit)).length ≤ effLimit limit ∧
    (okItems (Cw3Fixed.reverseProposals fx blk cn limit)).length ≤ effLimit limit ∧
    (Cw3Fixed.listVotes fx id cs limit).length ≤ effLimit limit ∧
    (Cw3Fixed.listVoters fx cs limit).length ≤ effLimit limit ∧
    (okItems (Cw3Flex.listProposals fl blk cn limit)).length ≤ effLimit limit ∧
    (okItems (Cw3Flex.reverseProposals fl blk cn limit)).length ≤ effLimit limit ∧
    (okItems (Cw3Flex.listVotes fl id c3 limit)).length ≤ effLimit limit ∧
    (okItems (Cw3Flex.listVoters g cg limit)).length ≤ effLimit limit ∧
    (okItems (Cw4Group.queryListMembers g cg limit)).length ≤ effLimit limit ∧
    (okItems (Cw4Stake.queryListMembers st c4 limit)).length ≤ effLimit limit ∧
    (okItems (Ics20.queryListAllowed ic ci limit)).length ≤ effLimit limit ∧
    effLimit limit ≤ 30 ∧ effLimit none = 10 :=
  ⟨(subkeys_allAllowances_page_len sk blk cs limit).1, subkeys_allPermissions_page_len sk cs limit,
   (fixed_listProposals_page_len fx blk cn limit).1, (fixed_reverseProposals_page_len fx blk cn limit).1,
   fixed_listVotes_page_len fx id cs limit, fixed_listVoters_page_len fx cs limit,
   (flex_listProposals_page_len fl blk cn limit).1, (flex_reverseProposals_page_len fl blk cn limit).1,
   (flex_listVotes_page_len fl id c3 limit).1, (flex_listVoters_page_len g cg limit).1,
   (group_listMembers_page_len g cg limit).1, (stake_listMembers_page_len st c4 limit).1,
   (ics20_listAllowed_page_len ic ci limit).1, effLimit_le_max limit, effLimit_none⟩

/-! ## cw3-flex: `TallyFits` and `StatusTotal` from the snapshot weights (no tally hypothesis)

`flex_status_total` needs `TallyFits` (the four counters of every stored proposal together fit `u64`).  Here it is
*derived* for worlds reached by a history at non-decreasing block heights, on top of a group whose total is the sum
of its member weights (cw4-group's own invariant, C09): every voter's ballot carries the voter's snapshot weight at
the proposal's start height (C06 `ballots_are_snapshot`), the voters of one proposal are distinct, and the snapshot
weights of distinct addresses at one height add up to at most the group total of that height, which is a `u64`.
The only ballot that is not a snapshot weight is the proposer's own (defect D3: `Propose` reads the *current*
weight), so the theorems carry, per proposal, the hypothesis that the proposer's recorded ballot does not exceed
the proposer's snapshot weight at the start height — exactly what C06's `proposer_and_total_are_snapshot_partial`
establishes under its guard "no group write earlier in the proposal's own block" and what
`later_changes_irrelevant` preserves.  Without it the statement is false of the code (D3 lets the proposer's
same-block weight exceed its snapshot weight, so the counters can exceed `u64` together). -/

open CwPlus.Snapshot in
/-- The lookups of distinct keys in a map without repeated keys add up to at most the sum of the map. -/
theorem sum_lookups_le_sum : ∀ (l : List Addr) (m : AMap Addr Nat), l.Nodup → AMap.NodupKeys m →
    (l.map (fun a => (m.get? a).getD 0)).sum ≤ AMap.sum m
  | [], _, _, _ => by simp
  | a :: l', m, hl, hm => by
    have hl' := List.nodup_cons.mp hl
    have ih := sum_lookups_le_sum l' (m.erase a) hl'.2 (AMap.nodup_erase hm)
    have hs := AMap.sum_erase m a hm
    have hc : l'.map (fun x => ((m.erase a).get? x).getD 0) = l'.map (fun x => (m.get? x).getD 0) := by
      apply List.map_congr_left
      intro x hx
      have hne : a ≠ x := fun e => hl'.1 (e ▸ hx)
      rw [AMap.get?_erase_ne _ _ _ hne]
    rw [hc] at ih
    simp only [List.map_cons, List.sum_cons]
    omega

open CwPlus.Snapshot in
/-- At every height, the snapshot weights of any distinct addresses together fit `u64`. -/
def SnapSum (m : SnapMap Addr Nat) : Prop :=
  ∀ (h : Nat) (l : List Addr), l.Nodup → (l.map (fun a => (m.atHeight a h).getD 0)).sum ≤ U64_MAX

open CwPlus.Snapshot in
theorem snapSum_empty : SnapSum (SnapMap.empty : SnapMap Addr Nat) := by
  intro h l _
  have : l.map (fun a => ((SnapMap.empty : SnapMap Addr Nat).atHeight a h).getD 0) = l.map (fun _ => 0) := by
    apply List.map_congr_left; intro a _; rfl
  have h0 : ∀ l : List Addr, (l.map (fun _ => 0)).sum = 0 := by
    intro l; induction l with
    | nil => rfl
    | cons _ _ ih => simp [ih]
  rw [this, h0]; exact Nat.zero_le _

open CwPlus.Snapshot in
/-- One block of writes at a height not below the changelog keeps `SnapSum`, provided the resulting current map
has distinct keys and a sum that fits `u64`: earlier-or-equal heights see the old answers, later heights the new
current values. -/
theorem snapSum_sameBlock {m m' : SnapMap Addr Nat} {hw : Nat} (hs : SnapMap.SameBlock m m' hw) (hle : m.LogLe hw)
    (hsum : SnapSum m) (hn : AMap.NodupKeys m'.cur) (hfit : AMap.sum m'.cur ≤ U64_MAX) : SnapSum m' := by
  intro h l hl
  by_cases hh : h ≤ hw
  · have : l.map (fun a => (m'.atHeight a h).getD 0) = l.map (fun a => (m.atHeight a h).getD 0) := by
      apply List.map_congr_left; intro a _; rw [hs.atHeight_le hle a hh]
    rw [this]; exact hsum h l hl
  · have hle' : m'.LogLe hw := hs.logLe hle (Nat.le_refl _)
    have : l.map (fun a => (m'.atHeight a h).getD 0) = l.map (fun a => (m'.cur.get? a).getD 0) := by
      apply List.map_congr_left; intro a _
      rw [SnapMap.atHeight_of_logLe hle' (by omega) a]; rfl
    rw [this]
    exact Nat.le_trans (sum_lookups_le_sum l m'.cur hl hn) hfit

/-- A successful cw4-group call at a height not below the changelog keeps `SnapSum` (uses the group's own
invariant C09: total = Σ member weights, fits `u64`). -/
theorem snapSum_execute {g g' : Cw4Group.State} {hw : Nat} {snd : Addr} {m : Cw4Group.Msg} {outs : List Cw4Group.Out}
    (hg : Cw4Group.execute g hw snd m = .ok (g', outs)) (hi : C09.Inv g) (hle : g.members.LogLe hw)
    (hs : SnapSum g.members) : SnapSum g'.members := by
  obtain ⟨_, hn, hfit⟩ := C09.execute_inv hi hg
  exact snapSum_sameBlock (C09.execute_sameBlock hg).1 hle hs hn hfit

/-- The hypotheses on the group are satisfiable: a freshly instantiated group has `SnapSum`, its own invariant,
and changelogs bounded by its instantiation height. -/
theorem group_instantiate_snapSum {msg : Cw4Group.InstMsg} {h0 : Nat} {g0 : Cw4Group.State}
    (hi : Cw4Group.instantiate msg h0 = .ok g0) :
    C09.Inv g0 ∧ SnapSum g0.members ∧ g0.members.LogLe h0 ∧ g0.total.LogLe h0 := by
  obtain ⟨hm, ht, _, _⟩ := C09.instantiate_snapshots hi
  have hinv := C09.instantiate_inv hi
  exact ⟨hinv, snapSum_sameBlock (C09.instantiate_sameBlock hi).1 (Snapshot.SnapMap.logLe_empty h0) snapSum_empty
    hinv.2.1 hinv.2.2, hm, ht⟩

/-- … and so has every group state reached from it by calls at non-decreasing heights `≥ h0`, with changelogs
bounded by the height of the last call (or `h0`). -/
theorem group_run_snapSum (ops : List Cw4Group.Op) : ∀ (g : Cw4Group.State) (B : Nat), C09.Inv g →
    SnapSum g.members → g.members.LogLe B → g.total.LogLe B → (∀ op ∈ ops, B ≤ op.height) → Cw4Group.Ordered ops →
    ∃ B', C09.Inv (Cw4Group.run g ops) ∧ SnapSum (Cw4Group.run g ops).members ∧
      (Cw4Group.run g ops).members.LogLe B' ∧ (Cw4Group.run g ops).total.LogLe B' ∧ B ≤ B' ∧
      ∀ op ∈ ops, op.height ≤ B' := by
  induction ops with
  | nil => intro g B hi hs hm ht _ _; exact ⟨B, hi, hs, hm, ht, Nat.le_refl _, by simp⟩
  | cons op rest ih =>
    intro g B hi hs hm ht hge hord
    have hp := List.pairwise_cons.mp hord
    have hB := hge op (by simp)
    have hsb := C09.stepOp_sameBlock g op
    have hi' := C09.stepOp_inv op hi
    have hs' : SnapSum (Cw4Group.stepOp g op).members :=
      snapSum_sameBlock hsb.1 (hm.mono hB) hs hi'.2.1 hi'.2.2
    obtain ⟨B', h1, h2, h3, h4, h5, h6⟩ := ih (Cw4Group.stepOp g op) op.height hi' hs'
      (hsb.1.logLe (hm.mono hB) (Nat.le_refl _)) (hsb.2.logLe (ht.mono hB) (Nat.le_refl _))
      (fun o ho => hp.1 o ho) hp.2
    refine ⟨B', h1, h2, h3, h4, Nat.le_trans hB h5, ?_⟩
    intro o ho
    rcases List.mem_cons.mp ho with rfl | ho
    · exact h5
    · exact h6 o ho

/-- The world invariant: C06's `SnapInv` (ballots of non-proposers are snapshot weights, changelogs bounded by
`H`) together with the group's own invariant and `SnapSum`. -/
structure TallyInv (w : Cw3Flex.World) (H : Nat) : Prop where
  snap : C06Flex.SnapInv w H
  ginv : C09.Inv w.group
  gsum : SnapSum w.group.members

theorem tallyInv_step (ext : Cw3Flex.Ext) (fuel : Nat) {w : Cw3Flex.World} {H : Nat} (op : Cw3Flex.Op)
    (hq : TallyInv w H) (hH : H ≤ op.blk.height) : TallyInv (Cw3Flex.step ext fuel w op) op.blk.height := by
  have hq' : TallyInv w op.blk.height := ⟨hq.snap.mono hH, hq.ginv, hq.gsum⟩
  unfold Cw3Flex.step
  split
  · rename_i w' htx
    exact Cw3Flex.tx_inv ext (fun w => TallyInv w op.blk.height) op.blk
      (fun w snd funds em s' out hq he => ⟨C06Flex.snap_flex hq.snap he, hq.ginv, hq.gsum⟩)
      (fun w snd m g' outs hq hg => ⟨C06Flex.snap_group hq.snap hg, C09.execute_inv hq.ginv hg,
        snapSum_execute hg hq.ginv hq.snap.membersLe hq.gsum⟩)
      (fun w b hq => ⟨⟨hq.snap.inv, hq.snap.membersLe, hq.snap.totalLe, hq.snap.startLe, hq.snap.ballot⟩, hq.ginv, hq.gsum⟩)
      (fun w t hq => ⟨⟨hq.snap.inv, hq.snap.membersLe, hq.snap.totalLe, hq.snap.startLe, hq.snap.ballot⟩, hq.ginv, hq.gsum⟩)
      hq' htx
  · exact hq'

theorem tallyInv_run (ext : Cw3Flex.Ext) (fuel : Nat) (ops : List Cw3Flex.Op) : ∀ (w : Cw3Flex.World) (H : Nat),
    TallyInv w H → (∀ op ∈ ops, H ≤ op.blk.height) → C06Flex.Ordered ops →
    ∃ H', TallyInv (Cw3Flex.run ext fuel w ops) H' := by
  induction ops with
  | nil => intro w H hq _ _; exact ⟨H, hq⟩
  | cons op rest ih =>
    intro w H hq hge hord
    have hp := List.pairwise_cons.mp hord
    exact ih _ op.blk.height (tallyInv_step ext fuel op hq (hge op (by simp))) (fun o ho => hp.1 o ho) hp.2

/-- The ballots of a map weigh together at most what a bound `f` on each voter's ballot adds up to over the voters. -/
theorem weightSum_le_bound (f : Addr → Nat) : ∀ (bs : AMap Addr Cw3Core.Ballot),
    (∀ a b, (a, b) ∈ bs → b.weight ≤ f a) → Cw3Core.weightSum bs ≤ ((AMap.keys bs).map f).sum
  | [], _ => by simp [AMap.keys]
  | (a, b) :: rest, h => by
    have h1 := h a b (by simp)
    have ih := weightSum_le_bound f rest (fun a' b' hm => h a' b' (List.mem_cons_of_mem _ hm))
    simp only [Cw3Core.weightSum, AMap.keys, List.map_cons, List.sum_cons] at ih ⊢
    omega

/-- In a world with `TallyInv`, a stored proposal whose proposer's recorded ballot does not exceed the proposer's
snapshot weight at the start height has a tally that fits `u64`. -/
theorem tallyInv_fits {w : Cw3Flex.World} {H : Nat} (hq : TallyInv w H) {id : Nat} {p : Cw3Core.Proposal}
    (hp : w.flex.core.proposals.get? id = some p)
    (hprop : ∀ b, (Cw3Core.ballotsOf w.flex.core id).get? p.proposer = some b →
      b.weight ≤ (Cw3Flex.memberAt w.group p.proposer p.startHeight).getD 0) : p.Fits := by
  have hwf := hq.snap.inv.wf
  have hn := hwf.nodup id
  have hb : Cw3Core.weightSum (Cw3Core.ballotsOf w.flex.core id)
      ≤ ((AMap.keys (Cw3Core.ballotsOf w.flex.core id)).map
          (fun a => (w.group.members.atHeight a p.startHeight).getD 0)).sum := by
    apply weightSum_le_bound
    intro a b hm
    have hg := AMap.get?_of_mem_nodup hn hm
    by_cases e : a = p.proposer
    · subst e; exact hprop b hg
    · have := (hq.snap.ballot id p a b hp hg e).1
      simp only [Cw3Flex.memberAt] at this
      rw [this]; exact Nat.le_refl _
  have hs := hq.gsum p.startHeight (AMap.keys (Cw3Core.ballotsOf w.flex.core id)) hn
  have ht := hwf.tally id p hp
  have he := Cw3Core.weightSum_eq (Cw3Core.ballotsOf w.flex.core id)
  unfold Cw3Core.Proposal.Fits
  rw [ht]
  simp only [Cw3Core.tallyOf]
  omega

/-- **`TallyFits` derived (partial: per proposal, under the proposer-snapshot guard).**  Instantiate the multisig on
a group with its own invariant, `SnapSum` and changelogs bounded by `H0` (e.g. any group reached from an accepted
`Cw4Group.instantiate` by calls at non-decreasing heights: `group_instantiate_snapSum`, `group_run_snapSum`), run any
history of transactions (multisig, group, token; nested dispatches included) at non-decreasing block heights `≥ H0`.
Then every stored proposal whose proposer's recorded ballot is at most the proposer's snapshot weight at the start
height — in particular every proposal created in a block without an earlier group write
(`C06Flex.proposer_and_total_are_snapshot_partial`) — has a tally that fits `u64`, and hence a status at every block.
The missing part (proposals created right after a same-block group update, D3) is false of the code. -/
theorem flex_tally_fits_partial {ext : Cw3Flex.Ext} {fuel : Nat} {m : Cw3Flex.InstMsg} {s : Cw3Flex.State}
    {g : Cw4Group.State} {t : Cw20.State} {bank : AMap (Addr × String) Nat} {self ga ta : Addr} {H0 : Nat}
    (hi : Cw3Flex.instantiate m (some g) = .ok s) (hgi : C09.Inv g) (hgs : SnapSum g.members)
    (hgm : g.members.LogLe H0) (hgt : g.total.LogLe H0)
    (ops : List Cw3Flex.Op) (hge : ∀ op ∈ ops, H0 ≤ op.blk.height) (hord : C06Flex.Ordered ops)
    {id : Nat} {p : Cw3Core.Proposal} :
    let w := Cw3Flex.run ext fuel (Cw3Flex.World.init s g t bank self ga ta H0) ops
    w.flex.core.proposals.get? id = some p →
    (∀ b, (Cw3Core.ballotsOf w.flex.core id).get? p.proposer = some b →
      b.weight ≤ (Cw3Flex.memberAt w.group p.proposer p.startHeight).getD 0) →
    p.Fits ∧ ∀ blk, ∃ st, p.currentStatus blk = .ok st := by
  intro w hp hprop
  have hcore : s.core = Cw3Core.Core.empty := by
    simp only [Cw3Flex.instantiate, Res.bind_ok] at hi
    obtain ⟨_, _, _, _, _, _, _, _, hi⟩ := hi
    simp at hi; subst hi; rfl
  have h0 : TallyInv (Cw3Flex.World.init s g t bank self ga ta H0) H0 := by
    refine ⟨⟨Cw3Flex.instantiate_inv hi, hgm, hgt, ?_, ?_⟩, hgi, hgs⟩
    · intro id p hp; simp [Cw3Flex.World.init, hcore, Cw3Core.Core.empty] at hp
    · intro id p a b hp; simp [Cw3Flex.World.init, hcore, Cw3Core.Core.empty] at hp
  obtain ⟨H', hq⟩ := tallyInv_run ext fuel ops _ H0 h0 hge hord
  have hfit := tallyInv_fits hq hp hprop
  have hr : Cw3Flex.Reachable ext fuel w := ⟨m, s, g, t, bank, self, ga, ta, H0, ops, hi, rfl⟩
  exact ⟨hfit, Cw3Flex.reachable_statusInv hr id p hp hfit⟩

/-- **`StatusTotal` for the flex proposal listings without a tally hypothesis (partial).**  In the worlds of
`flex_tally_fits_partial`, if *every* stored proposal satisfies the proposer-snapshot guard, every stored proposal
has a status at every block, so `ListProposals` / `ReverseProposals` never fail and are complete from the start
(`flex_listProposals_complete`, `flex_reverseProposals_complete`) and from every cursor (`…_complete_after`). -/
theorem flex_status_total_partial {ext : Cw3Flex.Ext} {fuel : Nat} {m : Cw3Flex.InstMsg} {s : Cw3Flex.State}
    {g : Cw4Group.State} {t : Cw20.State} {bank : AMap (Addr × String) Nat} {self ga ta : Addr} {H0 : Nat}
    (hi : Cw3Flex.instantiate m (some g) = .ok s) (hgi : C09.Inv g) (hgs : SnapSum g.members)
    (hgm : g.members.LogLe H0) (hgt : g.total.LogLe H0)
    (ops : List Cw3Flex.Op) (hge : ∀ op ∈ ops, H0 ≤ op.blk.height) (hord : C06Flex.Ordered ops)
    (hguard : ∀ id p b,
      (Cw3Flex.run ext fuel (Cw3Flex.World.init s g t bank self ga ta H0) ops).flex.core.proposals.get? id = some p →
      (Cw3Core.ballotsOf (Cw3Flex.run ext fuel (Cw3Flex.World.init s g t bank self ga ta H0) ops).flex.core id).get?
        p.proposer = some b →
      b.weight ≤ (Cw3Flex.memberAt (Cw3Flex.run ext fuel (Cw3Flex.World.init s g t bank self ga ta H0) ops).group
        p.proposer p.startHeight).getD 0)
    (blk : Block) (cur limit : Option Nat) :
    let w := Cw3Flex.run ext fuel (Cw3Flex.World.init s g t bank self ga ta H0) ops
    TallyFits w.flex.core ∧ StatusTotal w.flex.core blk ∧
    (Cw3Flex.listProposals w.flex blk cur limit).isOk = true ∧ (Cw3Flex.reverseProposals w.flex blk cur limit).isOk = true := by
  intro w
  have hfits : TallyFits w.flex.core := fun id p hp =>
    (flex_tally_fits_partial hi hgi hgs hgm hgt ops hge hord hp (fun b hb => hguard id p b hp hb)).1
  have hr : Cw3Flex.Reachable ext fuel w := ⟨m, s, g, t, bank, self, ga, ta, H0, ops, hi, rfl⟩
  exact ⟨hfits, flex_status_total hr hfits blk, flex_proposal_listings_total hr hfits blk cur limit⟩

/-! ### The guard stated on the history: no group write earlier in the proposal's own block

The committed ghost log of a world (`World.log`) records every handler call of every committed transaction in
order, nested dispatches included: `.proposed id snd` for a successful `Propose`, `.groupWrite h` for a successful
group call in block `h` (the instantiation of the group counts as a write in block `H0`).  `GoodFor log id h` says:
before the `Propose` that created proposal `id`, the log has no group write of block `h`.  For `h` the proposal's
start height this is the guard of C06 (`proposer_and_total_are_snapshot_partial`).  Below it is shown to imply, over
whole histories, that the proposer's ballot is the proposer's snapshot weight — and hence, with the previous section,
`TallyFits` and `StatusTotal`. -/

/-- In `log`, no group write of block `h` precedes the `Propose` that created proposal `id`. -/
def GoodFor (log : List Cw3Flex.Event) (id h : Nat) : Prop :=
  ∀ pre post snd, log = pre ++ Cw3Flex.Event.proposed id snd :: post → Cw3Flex.Event.groupWrite h ∉ pre

theorem goodFor_append {log : List Cw3Flex.Event} {ev : Cw3Flex.Event} {id h : Nat}
    (hg : GoodFor (log ++ [ev]) id h) : GoodFor log id h := by
  intro pre post snd hl
  exact hg pre (post ++ [ev]) snd (by rw [hl]; simp)

theorem goodFor_new {log : List Cw3Flex.Event} {id h : Nat} {snd : Addr}
    (hg : GoodFor (log ++ [Cw3Flex.Event.proposed id snd]) id h) : Cw3Flex.Event.groupWrite h ∉ log :=
  hg log [] snd rfl

open CwPlus.Snapshot in
/-- Every changelog height of every key satisfies `P`. -/
def LogAll (m : SnapMap Addr Nat) (P : Nat → Prop) : Prop := ∀ k e, e ∈ (m.cell k).log → P e.1

open CwPlus.Snapshot in
theorem logAll_mono {m : SnapMap Addr Nat} {P Q : Nat → Prop} (h : ∀ x, P x → Q x) (hm : LogAll m P) : LogAll m Q :=
  fun k e he => h _ (hm k e he)

open CwPlus.Snapshot in
/-- One block of writes at height `hw` adds only changelog entries of height `hw`. -/
theorem logAll_sameBlock {m m' : SnapMap Addr Nat} {hw : Nat} {P : Nat → Prop} (hs : SnapMap.SameBlock m m' hw)
    (hm : LogAll m P) (hp : P hw) : LogAll m' P := by
  obtain ⟨ws, hws, rfl⟩ := hs
  induction ws generalizing m with
  | nil => exact hm
  | cons w ws ih =>
    rw [SnapMap.writes_cons]
    refine ih ?_ (fun w' hw' => hws w' (List.mem_cons_of_mem _ hw'))
    intro k e he
    rw [SnapMap.cell_write] at he
    split at he
    · simp only [Cell.write] at he
      split at he
      · exact hm k e he
      · rcases List.mem_cons.mp he with rfl | hmem
        · show P w.2.1
          rw [hws w (by simp)]; exact hp
        · exact hm k e hmem
    · exact hm k e he

/-- The world invariant for the history-level guard: `TallyInv`; every group changelog height is below `H0` or
recorded as a group write in the ghost log; and the proposer's ballot of every proposal whose `Propose` was not
preceded by a group write of its own block is the proposer's snapshot weight at the start height. -/
structure GuardInv (H0 : Nat) (w : Cw3Flex.World) (H : Nat) : Prop where
  tally : TallyInv w H
  h0le : H0 ≤ H
  link : LogAll w.group.members (fun x => x < H0 ∨ Cw3Flex.Event.groupWrite x ∈ w.log)
  prop : ∀ id p b, w.flex.core.proposals.get? id = some p →
    (Cw3Core.ballotsOf w.flex.core id).get? p.proposer = some b → GoodFor w.log id p.startHeight →
    Cw3Flex.memberAt w.group p.proposer p.startHeight = some b.weight

open CwPlus.Cw3Core in
/-- A flex handler call in block `H` keeps `GuardInv · H`. -/
theorem guard_flex {H0 : Nat} {w : Cw3Flex.World} {blk : Block} {snd : Addr} {funds : List Cw3Flex.Coin}
    {em : Cw3Flex.ExecMsg} {s' : Cw3Flex.State} {out : List Cw3Flex.Out}
    (hq : GuardInv H0 w blk.height) (he : Cw3Flex.execute w.flex w.group w.self blk snd funds em = .ok (s', out)) :
    GuardInv H0 { w with flex := s', log := w.log ++ [Cw3Flex.eventOf w.flex snd em] } blk.height := by
  refine ⟨⟨C06Flex.snap_flex hq.tally.snap he, hq.tally.ginv, hq.tally.gsum⟩, hq.h0le,
    logAll_mono (fun x hx => hx.imp id (fun h => List.mem_append_left _ h)) hq.link, ?_⟩
  have hinv := hq.tally.snap.inv
  obtain ⟨_, hc⟩ := Cw3Flex.execute_cases he
  rcases hc with ⟨t, d, msgs, latest, w0, total, id0, hm, hw0, _, _, _, hp⟩ | ⟨id0, v, hm, _, hv⟩ |
    ⟨id0, p0, msgs, hm, _, hex, _⟩ | ⟨id0, p0, hm, _, hcl, _⟩ | ⟨hm, _, rfl, _⟩
  · obtain ⟨expires, st, _, _, hid, _, hc'⟩ := propose_spec hp
    have hnone : w.flex.core.proposals.get? id0 = none := hinv.wf.fresh (by omega)
    have hb0 : ballotsOf w.flex.core id0 = [] := hinv.wf.noBallots id0 hnone
    intro id p b hpp hb hgood
    simp only [hc', AMap.get?_set] at hpp
    simp only [hc', ballotsOf_set] at hb
    by_cases e : id0 = id
    · simp only [e, if_true, Option.some.injEq] at hpp hb
      rw [← e, hb0] at hb
      subst hpp
      simp only [AMap.set, AMap.get?, if_true, Option.some.injEq] at hb
      subst hb
      -- the new proposal: proposer = snd, start height = this block, ballot weight = current weight
      subst hm
      have hgw : Cw3Flex.Event.groupWrite blk.height ∉ w.log := by
        have hid' : id0 = w.flex.core.count + 1 := hid
        have : GoodFor (w.log ++ [Cw3Flex.Event.proposed id snd]) id blk.height := by
          have hev : Cw3Flex.eventOf w.flex snd (.propose t d msgs latest) = Cw3Flex.Event.proposed id snd := by
            simp [Cw3Flex.eventOf, ← e, hid']
          rw [← hev]; exact hgood
        exact goodFor_new this
      show w.group.members.atHeight snd blk.height = some w0
      have hlt : ∀ e' ∈ (w.group.members.cell snd).log, e'.1 < blk.height := by
        intro e' he'
        have h1 := hq.tally.snap.membersLe snd e' he'
        rcases hq.link snd e' he' with h2 | h2
        · have := hq.h0le; omega
        · have hne : e'.1 ≠ blk.height := fun heq => hgw (heq ▸ h2)
          omega
      rw [Snapshot.SnapMap.atHeight_eq, Snapshot.Cell.atHeight_of_logLt hlt]
      exact hw0
    · simp only [e, if_false] at hpp hb
      exact hq.prop id p b hpp hb (goodFor_append hgood)
  · obtain ⟨p1, w1, votes, st, hp1, _, _, hw, hw1, hnb, _, _, hc'⟩ := vote_spec hv
    intro id p b hpp hb hgood
    simp only [hc', AMap.get?_set] at hpp
    simp only [hc', ballotsOf_set] at hb
    by_cases e : id0 = id
    · simp only [e, if_true, Option.some.injEq] at hpp hb
      subst hpp; subst e
      rw [AMap.get?_set] at hb
      by_cases ea : snd = p1.proposer
      · simp only [ea, if_true, Option.some.injEq] at hb; subst hb; rw [← ea]; exact hw
      · simp only [ea, if_false] at hb; exact hq.prop id0 p1 b hp1 hb (goodFor_append hgood)
    · simp only [e, if_false] at hpp hb; exact hq.prop id p b hpp hb (goodFor_append hgood)
  · obtain ⟨p1, hp1, _, _, _, hc'⟩ := execute_spec hex
    intro id p b hpp hb hgood
    simp only [hc', AMap.get?_set] at hpp
    simp only [hc', ballotsOf_frame] at hb
    by_cases e : id0 = id
    · simp only [e, if_true, Option.some.injEq] at hpp; subst hpp; subst e
      exact hq.prop id0 p1 b hp1 hb (goodFor_append hgood)
    · simp only [e, if_false] at hpp; exact hq.prop id p b hpp hb (goodFor_append hgood)
  · obtain ⟨p1, _, hp1, _, _, _, _, _, _, hc'⟩ := close_spec hcl
    intro id p b hpp hb hgood
    simp only [hc', AMap.get?_set] at hpp
    simp only [hc', ballotsOf_frame] at hb
    by_cases e : id0 = id
    · simp only [e, if_true, Option.some.injEq] at hpp; subst hpp; subst e
      exact hq.prop id0 p1 b hp1 hb (goodFor_append hgood)
    · simp only [e, if_false] at hpp; exact hq.prop id p b hpp hb (goodFor_append hgood)
  · intro id p b hpp hb hgood
    exact hq.prop id p b hpp hb (goodFor_append hgood)

/-- A group call in block `H` keeps `GuardInv · H`. -/
theorem guard_group {H0 : Nat} {w : Cw3Flex.World} {blk : Block} {snd : Addr} {m : Cw4Group.Msg} {g' : Cw4Group.State}
    {outs : List Cw4Group.Out} (hq : GuardInv H0 w blk.height)
    (hg : Cw4Group.execute w.group blk.height snd m = .ok (g', outs)) :
    GuardInv H0 { w with group := g', log := w.log ++ [Cw3Flex.Event.groupWrite blk.height] } blk.height := by
  have hs := C09.execute_sameBlock hg
  refine ⟨⟨C06Flex.snap_group hq.tally.snap hg, C09.execute_inv hq.tally.ginv hg,
      snapSum_execute hg hq.tally.ginv hq.tally.snap.membersLe hq.tally.gsum⟩, hq.h0le, ?_, ?_⟩
  · exact logAll_sameBlock hs.1
      (logAll_mono (fun x hx => hx.imp id (fun h => List.mem_append_left _ h)) hq.link)
      (Or.inr (List.mem_append_right _ (by simp)))
  · intro id p b hp hb hgood
    have := hq.prop id p b hp hb (goodFor_append hgood)
    show g'.members.atHeight p.proposer p.startHeight = some b.weight
    rw [hs.1.atHeight_le hq.tally.snap.membersLe p.proposer (hq.tally.snap.startLe id p hp)]
    exact this

theorem guard_step (ext : Cw3Flex.Ext) (fuel : Nat) {H0 : Nat} {w : Cw3Flex.World} {H : Nat} (op : Cw3Flex.Op)
    (hq : GuardInv H0 w H) (hH : H ≤ op.blk.height) :
    GuardInv H0 (Cw3Flex.step ext fuel w op) op.blk.height := by
  have hq' : GuardInv H0 w op.blk.height :=
    ⟨⟨hq.tally.snap.mono hH, hq.tally.ginv, hq.tally.gsum⟩, Nat.le_trans hq.h0le hH, hq.link, hq.prop⟩
  unfold Cw3Flex.step
  split
  · rename_i w' htx
    exact Cw3Flex.tx_inv ext (fun w => GuardInv H0 w op.blk.height) op.blk
      (fun w snd funds em s' out hq he => guard_flex hq he)
      (fun w snd m g' outs hq hg => guard_group hq hg)
      (fun w b hq => ⟨⟨⟨hq.tally.snap.inv, hq.tally.snap.membersLe, hq.tally.snap.totalLe, hq.tally.snap.startLe,
        hq.tally.snap.ballot⟩, hq.tally.ginv, hq.tally.gsum⟩, hq.h0le, hq.link, hq.prop⟩)
      (fun w t hq => ⟨⟨⟨hq.tally.snap.inv, hq.tally.snap.membersLe, hq.tally.snap.totalLe, hq.tally.snap.startLe,
        hq.tally.snap.ballot⟩, hq.tally.ginv, hq.tally.gsum⟩, hq.h0le, hq.link, hq.prop⟩)
      hq' htx
  · exact hq'

theorem guard_run (ext : Cw3Flex.Ext) (fuel : Nat) {H0 : Nat} (ops : List Cw3Flex.Op) : ∀ (w : Cw3Flex.World) (H : Nat),
    GuardInv H0 w H → (∀ op ∈ ops, H ≤ op.blk.height) → C06Flex.Ordered ops →
    ∃ H', GuardInv H0 (Cw3Flex.run ext fuel w ops) H' := by
  induction ops with
  | nil => intro w H hq _ _; exact ⟨H, hq⟩
  | cons op rest ih =>
    intro w H hq hge hord
    have hp := List.pairwise_cons.mp hord
    exact ih _ op.blk.height (guard_step ext fuel op hq (hge op (by simp))) (fun o ho => hp.1 o ho) hp.2

/-- **C06 for the proposer over whole histories, and `StatusTotal` under the history-level guard (partial).**
Instantiate the multisig on a group as in `flex_tally_fits_partial`, run any history of transactions at
non-decreasing block heights `≥ H0`.  For every stored proposal whose `Propose` was not preceded, in the committed
history (nested dispatches included), by a group write of the proposal's own block (`GoodFor`):
* the proposer's ballot carries the weight the group — in its final state — reports for the proposer at the
  proposal's start height (the statement `C06Flex.proposer_and_total_are_snapshot_partial` makes for one call);
* the tally fits `u64` and the proposal has a status at every block.
If every stored proposal satisfies the guard, `ListProposals` and `ReverseProposals` never fail (`StatusTotal`), for
every cursor, limit and query block.  Proposals created right after a same-block group update are excluded: for them
the statement is false of the code (D3, `C06Flex.C06_flex_counterexample`). -/
theorem flex_status_total_guarded {ext : Cw3Flex.Ext} {fuel : Nat} {m : Cw3Flex.InstMsg} {s : Cw3Flex.State}
    {g : Cw4Group.State} {t : Cw20.State} {bank : AMap (Addr × String) Nat} {self ga ta : Addr} {H0 : Nat}
    (hi : Cw3Flex.instantiate m (some g) = .ok s) (hgi : C09.Inv g) (hgs : SnapSum g.members)
    (hgm : g.members.LogLe H0) (hgt : g.total.LogLe H0)
    (ops : List Cw3Flex.Op) (hge : ∀ op ∈ ops, H0 ≤ op.blk.height) (hord : C06Flex.Ordered ops) :
    let w := Cw3Flex.run ext fuel (Cw3Flex.World.init s g t bank self ga ta H0) ops
    (∀ id p, w.flex.core.proposals.get? id = some p → GoodFor w.log id p.startHeight →
      (∀ b, (Cw3Core.ballotsOf w.flex.core id).get? p.proposer = some b →
        Cw3Flex.memberAt w.group p.proposer p.startHeight = some b.weight)
      ∧ p.Fits ∧ ∀ blk, ∃ st, p.currentStatus blk = .ok st)
    ∧ ((∀ id p, w.flex.core.proposals.get? id = some p → GoodFor w.log id p.startHeight) →
        TallyFits w.flex.core ∧ ∀ blk cur limit, StatusTotal w.flex.core blk ∧
          (Cw3Flex.listProposals w.flex blk cur limit).isOk = true ∧
          (Cw3Flex.reverseProposals w.flex blk cur limit).isOk = true) := by
  intro w
  have hcore : s.core = Cw3Core.Core.empty := by
    simp only [Cw3Flex.instantiate, Res.bind_ok] at hi
    obtain ⟨_, _, _, _, _, _, _, _, hi⟩ := hi
    simp at hi; subst hi; rfl
  have h0 : GuardInv H0 (Cw3Flex.World.init s g t bank self ga ta H0) H0 := by
    refine ⟨⟨⟨Cw3Flex.instantiate_inv hi, hgm, hgt, ?_, ?_⟩, hgi, hgs⟩, Nat.le_refl _, ?_, ?_⟩
    · intro id p hp; simp [Cw3Flex.World.init, hcore, Cw3Core.Core.empty] at hp
    · intro id p a b hp; simp [Cw3Flex.World.init, hcore, Cw3Core.Core.empty] at hp
    · intro k e he
      have hle : e.1 ≤ H0 := hgm k e he
      by_cases hlt : e.1 < H0
      · exact Or.inl hlt
      · have : e.1 = H0 := by omega
        exact Or.inr (by simp [Cw3Flex.World.init, this])
    · intro id p b hp; simp [Cw3Flex.World.init, hcore, Cw3Core.Core.empty] at hp
  obtain ⟨H', hq⟩ := guard_run ext fuel ops _ H0 h0 hge hord
  have hr : Cw3Flex.Reachable ext fuel w := ⟨m, s, g, t, bank, self, ga, ta, H0, ops, hi, rfl⟩
  have key : ∀ id p, w.flex.core.proposals.get? id = some p → GoodFor w.log id p.startHeight →
      (∀ b, (Cw3Core.ballotsOf w.flex.core id).get? p.proposer = some b →
        Cw3Flex.memberAt w.group p.proposer p.startHeight = some b.weight) ∧ p.Fits := by
    intro id p hp hgood
    have hsnap : ∀ b, (Cw3Core.ballotsOf w.flex.core id).get? p.proposer = some b →
        Cw3Flex.memberAt w.group p.proposer p.startHeight = some b.weight :=
      fun b hb => hq.prop id p b hp hb hgood
    exact ⟨hsnap, tallyInv_fits hq.tally hp (fun b hb => by rw [hsnap b hb]; exact Nat.le_refl _)⟩
  refine ⟨fun id p hp hgood => ?_, fun hall => ?_⟩
  · obtain ⟨h1, h2⟩ := key id p hp hgood
    exact ⟨h1, h2, Cw3Flex.reachable_statusInv hr id p hp h2⟩
  · have hfits : TallyFits w.flex.core := fun id p hp => (key id p hp (hall id p hp)).2
    exact ⟨hfits, fun blk cur limit => ⟨flex_status_total hr hfits blk, flex_proposal_listings_total hr hfits blk cur limit⟩⟩

/-! ## Every cursor: the 13 listings started from an arbitrary `start_after` / `start_before`

The `*_complete` theorems above start the client loop without cursor.  Below, for each of the 13 listings, the
loop is started at an **arbitrary** cursor `c` (a key taken from an earlier page, a key removed since, or any other
value; for the listings that validate the cursor the client passes it as an address that validates): it returns
exactly the current items strictly beyond `c`, in key order, each once — the sorted entries filtered by
`key > c` (`key < c` for `ReverseProposals`).  Instances of `C20.listing_complete_after(_desc/_filtered)`;
`C20.listing_split_at_cursor` says that these items together with the items up to `c` are the whole listing. -/

theorem group_listMembers_loop_after {s : Cw4Group.State} (hs : AMap.NodupKeys s.members.cur) (limit : Option Nat)
    (hl : limit ≠ some 0) (c : String) {fuel : Nat} (hf : s.members.cur.length + 1 ≤ fuel) :
    fetchLoop (fun c => okItems (Cw4Group.queryListMembers s (c.map (⟨true, ·⟩)) limit)) (·.1) (some c) fuel
      = (sortedEntries strLt s.members.cur).filter (fun x => strLt c x.1) :=
  listing_complete_after_id strictTotal_strLt hs hl
    (fun c => by cases c <;> simp [group_listMembers_eq]) c hf

/-- cw4-group `ListMembers` from any cursor, every reachable state. -/
theorem group_listMembers_complete_after {m : Cw4Group.InstMsg} {h0 : Nat} {s0 : Cw4Group.State}
    (hi : Cw4Group.instantiate m h0 = .ok s0) (ops : List Cw4Group.Op) (limit : Option Nat) (hl : limit ≠ some 0)
    (c : String) {fuel : Nat} (hf : (Cw4Group.run s0 ops).members.cur.length + 1 ≤ fuel) :
    fetchLoop (fun c => okItems (Cw4Group.queryListMembers (Cw4Group.run s0 ops) (c.map (⟨true, ·⟩)) limit))
        (·.1) (some c) fuel
      = (sortedEntries strLt (Cw4Group.run s0 ops).members.cur).filter (fun x => strLt c x.1) :=
  group_listMembers_loop_after (Cw4Group.run_nodup ops (Cw4Group.instantiate_nodup hi)) limit hl c hf

theorem stake_listMembers_loop_after {s : Cw4Stake.State} (hs : AMap.NodupKeys s.members.cur) (limit : Option Nat)
    (hl : limit ≠ some 0) (c : String) {fuel : Nat} (hf : s.members.cur.length + 1 ≤ fuel) :
    fetchLoop (fun c => okItems (Cw4Stake.queryListMembers s (c.map (⟨true, ·⟩)) limit)) (·.1) (some c) fuel
      = (sortedEntries strLt s.members.cur).filter (fun x => strLt c x.1) :=
  listing_complete_after_id strictTotal_strLt hs hl
    (fun c => by cases c <;> simp [stake_listMembers_eq]) c hf

/-- cw4-stake `ListMembers` from any cursor, every reachable world. -/
theorem stake_listMembers_complete_after {m : Cw4Stake.InstMsg} {s0 : Cw4Stake.State}
    (hi : Cw4Stake.instantiate m = .ok s0) (bal : AMap Addr Nat) (accepting : List Addr)
    (ops : List (Block × Cw4Stake.Op)) (limit : Option Nat) (hl : limit ≠ some 0) (c : String) {fuel : Nat}
    (hf : (Cw4Stake.run (Cw4Stake.World.init s0 bal accepting) ops).st.members.cur.length + 1 ≤ fuel) :
    fetchLoop (fun c => okItems (Cw4Stake.queryListMembers
        (Cw4Stake.run (Cw4Stake.World.init s0 bal accepting) ops).st (c.map (⟨true, ·⟩)) limit)) (·.1) (some c) fuel
      = (sortedEntries strLt (Cw4Stake.run (Cw4Stake.World.init s0 bal accepting) ops).st.members.cur).filter
          (fun x => strLt c x.1) :=
  stake_listMembers_loop_after
    (Cw4Stake.run_nodup (w := Cw4Stake.World.init s0 bal accepting) (Cw4Stake.instantiate_nodup hi) ops) limit hl c hf

theorem subkeys_allAllowances_loop_after {s : Cw1Subkeys.State} (hs : AMap.NodupKeys s.allowances) (blk : Block)
    (limit : Option Nat) (hl : limit ≠ some 0) (c : String) {fuel : Nat} (hf : s.allowances.length + 1 ≤ fuel) :
    fetchLoop (fun c => Cw1Subkeys.queryAllAllowances s blk c limit) (·.1) (some c) fuel
      = ((sortedEntries strLt s.allowances).filter (live blk)).filter (fun x => strLt c x.1) :=
  listing_complete_filtered_after_id strictTotal_strLt hs (live blk) hl
    (fun c => subkeys_allAllowances_eq s blk c limit) c hf

/-- cw1-subkeys `AllAllowances` from any cursor, every reachable state: the unexpired allowances beyond `c`. -/
theorem subkeys_allAllowances_complete_after {m : Cw1Subkeys.InstMsg} {s0 : Cw1Subkeys.State}
    (hi : Cw1Subkeys.instantiate m = .ok s0) (ops : List (Block × Addr × Cw1Subkeys.Msg)) (blk : Block)
    (limit : Option Nat) (hl : limit ≠ some 0) (c : String) {fuel : Nat}
    (hf : (subkeysRun s0 ops).allowances.length + 1 ≤ fuel) :
    fetchLoop (fun c => Cw1Subkeys.queryAllAllowances (subkeysRun s0 ops) blk c limit) (·.1) (some c) fuel
      = ((sortedEntries strLt (subkeysRun s0 ops).allowances).filter (live blk)).filter (fun x => strLt c x.1) :=
  subkeys_allAllowances_loop_after (Cw1Subkeys.run_nodup ops (Cw1Subkeys.instantiate_nodup hi)).allowances blk limit hl c hf

theorem subkeys_allPermissions_loop_after {s : Cw1Subkeys.State} (hs : AMap.NodupKeys s.permissions)
    (limit : Option Nat) (hl : limit ≠ some 0) (c : String) {fuel : Nat} (hf : s.permissions.length + 1 ≤ fuel) :
    fetchLoop (fun c => Cw1Subkeys.queryAllPermissions s c limit) (·.1) (some c) fuel
      = (sortedEntries strLt s.permissions).filter (fun x => strLt c x.1) :=
  listing_complete_after_id strictTotal_strLt hs hl (fun _ => rfl) c hf

/-- cw1-subkeys `AllPermissions` from any cursor, every reachable state. -/
theorem subkeys_allPermissions_complete_after {m : Cw1Subkeys.InstMsg} {s0 : Cw1Subkeys.State}
    (hi : Cw1Subkeys.instantiate m = .ok s0) (ops : List (Block × Addr × Cw1Subkeys.Msg))
    (limit : Option Nat) (hl : limit ≠ some 0) (c : String) {fuel : Nat}
    (hf : (subkeysRun s0 ops).permissions.length + 1 ≤ fuel) :
    fetchLoop (fun c => Cw1Subkeys.queryAllPermissions (subkeysRun s0 ops) c limit) (·.1) (some c) fuel
      = (sortedEntries strLt (subkeysRun s0 ops).permissions).filter (fun x => strLt c x.1) :=
  subkeys_allPermissions_loop_after (Cw1Subkeys.run_nodup ops (Cw1Subkeys.instantiate_nodup hi)).permissions limit hl c hf

theorem ics20_listAllowed_loop_after {s : Ics20.State} (hs : AMap.NodupKeys s.allow) (limit : Option Nat)
    (hl : limit ≠ some 0) (c : String) {fuel : Nat} (hf : s.allow.length + 1 ≤ fuel) :
    fetchLoop (fun c => okItems (Ics20.queryListAllowed s (c.map (⟨true, ·⟩)) limit)) (·.1) (some c) fuel
      = (sortedEntries strLt s.allow).filter (fun x => strLt c x.1) :=
  listing_complete_after_id strictTotal_strLt hs hl
    (fun c => by cases c <;> simp [ics20_listAllowed_eq]) c hf

/-- cw20-ics20 `ListAllowed` from any cursor, every reachable world. -/
theorem ics20_listAllowed_complete_after {m : Ics20.InstMsg} {w0 : Ics20.World} (hi : Ics20.instantiate m = .ok w0.st)
    (ops : List (Block × Ics20.Op)) (limit : Option Nat) (hl : limit ≠ some 0) (c : String) {fuel : Nat}
    (hf : (ics20Run w0 ops).st.allow.length + 1 ≤ fuel) :
    fetchLoop (fun c => okItems (Ics20.queryListAllowed (ics20Run w0 ops).st (c.map (⟨true, ·⟩)) limit)) (·.1)
        (some c) fuel
      = (sortedEntries strLt (ics20Run w0 ops).st.allow).filter (fun x => strLt c x.1) :=
  ics20_listAllowed_loop_after (Ics20.run_nodup ops (Ics20.instantiate_nodup hi)) limit hl c hf

/-- `ListProposals` from any `start_after = cur` (state level): the views of the stored proposals with id above
`cur`, ascending. -/
theorem core_listProposals_loop_after {c : Cw3Core.Core} {blk : Block} (hn : AMap.NodupKeys c.proposals)
    (hv : StatusTotal c blk) (limit : Option Nat) (hl : limit ≠ some 0) (cur : Nat) {fuel : Nat}
    (hf : c.proposals.length + 1 ≤ fuel) :
    Cw3Core.viewAll blk ((sortedEntries natLt c.proposals).filter (fun x => natLt cur x.1))
      = .ok (fetchLoop (fun cur => okItems (Cw3Core.listProposals c blk cur limit)) (·.id) (some cur) fuel) := by
  rw [listing_complete_after strictTotal_natLt hn hl (f := Cw3Core.viewD blk) (key := (·.id))
    (fun cur => by rw [core_listProposals_eq hn hv]; rfl) (fun _ => rfl) cur hf]
  exact Cw3Core.viewAll_eq_map fun _ hx =>
    statusTotal_of_mem hn hv (mem_sortedEntries.mp (List.mem_filter.mp hx).1)

/-- `ReverseProposals` from any `start_before = cur` (state level): the views of the stored proposals with id
below `cur`, descending. -/
theorem core_reverseProposals_loop_after {c : Cw3Core.Core} {blk : Block} (hn : AMap.NodupKeys c.proposals)
    (hv : StatusTotal c blk) (limit : Option Nat) (hl : limit ≠ some 0) (cur : Nat) {fuel : Nat}
    (hf : c.proposals.length + 1 ≤ fuel) :
    Cw3Core.viewAll blk ((sortedEntries natLt c.proposals).reverse.filter (fun x => natLt x.1 cur))
      = .ok (fetchLoop (fun cur => okItems (Cw3Core.reverseProposals c blk cur limit)) (·.id) (some cur) fuel) := by
  rw [listing_complete_desc_after strictTotal_natLt hn hl (f := Cw3Core.viewD blk) (key := (·.id))
    (q := fun cur => okItems (Cw3Core.reverseProposals c blk cur limit))
    (fun cur => by rw [core_reverseProposals_eq hn hv]; rfl) (fun _ => rfl) cur hf]
  exact Cw3Core.viewAll_eq_map fun _ hx =>
    statusTotal_of_mem hn hv (mem_sortedEntries.mp (List.mem_reverse.mp (List.mem_filter.mp hx).1))

/-- `ListVotes` of one proposal from any raw cursor (state level). -/
theorem core_listVotes_loop_after {c : Cw3Core.Core} (hw : Cw3Core.WF c) (id : Nat) (limit : Option Nat)
    (hl : limit ≠ some 0) (cur : String) {fuel : Nat} (hf : (Cw3Core.ballotsOf c id).length + 1 ≤ fuel) :
    fetchLoop (fun cur => Cw3Core.listVotes c id cur limit) (·.1) (some cur) fuel
      = (sortedEntries strLt (Cw3Core.ballotsOf c id)).filter (fun x => strLt cur x.1) :=
  listing_complete_after_id strictTotal_strLt (hw.nodup id) hl (fun _ => rfl) cur hf

/-- cw3-fixed `ListProposals` from any cursor, every reachable world, every query block. -/
theorem fixed_listProposals_complete_after {fuel : Nat} {w : Cw3Fixed.World} (hr : Cw3Fixed.Reachable fuel w)
    (blk : Block) (limit : Option Nat) (hl : limit ≠ some 0) (cur : Nat) {n : Nat}
    (hf : w.ms.core.proposals.length + 1 ≤ n) :
    Cw3Core.viewAll blk ((sortedEntries natLt w.ms.core.proposals).filter (fun x => natLt cur x.1))
      = .ok (fetchLoop (fun cur => okItems (Cw3Fixed.listProposals w.ms blk cur limit)) (·.id) (some cur) n) :=
  core_listProposals_loop_after (Cw3Fixed.reachable_nodup hr) (fixed_status_total hr blk) limit hl cur hf

/-- cw3-fixed `ReverseProposals` from any `start_before`, every reachable world. -/
theorem fixed_reverseProposals_complete_after {fuel : Nat} {w : Cw3Fixed.World} (hr : Cw3Fixed.Reachable fuel w)
    (blk : Block) (limit : Option Nat) (hl : limit ≠ some 0) (cur : Nat) {n : Nat}
    (hf : w.ms.core.proposals.length + 1 ≤ n) :
    Cw3Core.viewAll blk ((sortedEntries natLt w.ms.core.proposals).reverse.filter (fun x => natLt x.1 cur))
      = .ok (fetchLoop (fun cur => okItems (Cw3Fixed.reverseProposals w.ms blk cur limit)) (·.id) (some cur) n) :=
  core_reverseProposals_loop_after (Cw3Fixed.reachable_nodup hr) (fixed_status_total hr blk) limit hl cur hf

/-- cw3-fixed `ListVotes` from any raw cursor, every reachable world, every proposal id. -/
theorem fixed_listVotes_complete_after {fuel : Nat} {w : Cw3Fixed.World} (hr : Cw3Fixed.Reachable fuel w) (id : Nat)
    (limit : Option Nat) (hl : limit ≠ some 0) (cur : String) {n : Nat}
    (hf : (Cw3Core.ballotsOf w.ms.core id).length + 1 ≤ n) :
    fetchLoop (fun cur => Cw3Fixed.listVotes w.ms id cur limit) (·.1) (some cur) n
      = (sortedEntries strLt (Cw3Core.ballotsOf w.ms.core id)).filter (fun x => strLt cur x.1) :=
  core_listVotes_loop_after (Cw3Fixed.reachable_inv hr).wf id limit hl cur hf

/-- cw3-fixed `ListVoters` from any raw cursor, every reachable world. -/
theorem fixed_listVoters_complete_after {fuel : Nat} {w : Cw3Fixed.World} (hr : Cw3Fixed.Reachable fuel w)
    (limit : Option Nat) (hl : limit ≠ some 0) (cur : String) {n : Nat} (hf : w.ms.voters.length + 1 ≤ n) :
    fetchLoop (fun cur => Cw3Fixed.listVoters w.ms cur limit) (·.1) (some cur) n
      = (sortedEntries strLt w.ms.voters).filter (fun x => strLt cur x.1) :=
  listing_complete_after_id strictTotal_strLt (Cw3Fixed.reachable_inv hr).votersNodup hl (fun _ => rfl) cur hf

/-- cw3-flex `ListProposals` from any cursor (same hypothesis `StatusTotal` as `flex_listProposals_complete`). -/
theorem flex_listProposals_complete_after {ext : Cw3Flex.Ext} {fuel : Nat} {w : Cw3Flex.World}
    (hr : Cw3Flex.Reachable ext fuel w) (blk : Block) (hv : StatusTotal w.flex.core blk)
    (limit : Option Nat) (hl : limit ≠ some 0) (cur : Nat) {n : Nat} (hf : w.flex.core.proposals.length + 1 ≤ n) :
    Cw3Core.viewAll blk ((sortedEntries natLt w.flex.core.proposals).filter (fun x => natLt cur x.1))
      = .ok (fetchLoop (fun cur => okItems (Cw3Flex.listProposals w.flex blk cur limit)) (·.id) (some cur) n) :=
  core_listProposals_loop_after (Cw3Flex.reachable_nodup hr) hv limit hl cur hf

/-- cw3-flex `ReverseProposals` from any `start_before` (same hypothesis). -/
theorem flex_reverseProposals_complete_after {ext : Cw3Flex.Ext} {fuel : Nat} {w : Cw3Flex.World}
    (hr : Cw3Flex.Reachable ext fuel w) (blk : Block) (hv : StatusTotal w.flex.core blk)
    (limit : Option Nat) (hl : limit ≠ some 0) (cur : Nat) {n : Nat} (hf : w.flex.core.proposals.length + 1 ≤ n) :
    Cw3Core.viewAll blk ((sortedEntries natLt w.flex.core.proposals).reverse.filter (fun x => natLt x.1 cur))
      = .ok (fetchLoop (fun cur => okItems (Cw3Flex.reverseProposals w.flex blk cur limit)) (·.id) (some cur) n) :=
  core_reverseProposals_loop_after (Cw3Flex.reachable_nodup hr) hv limit hl cur hf

/-- cw3-flex `ListVotes` from any (validating) cursor, every reachable world, every proposal id. -/
theorem flex_listVotes_complete_after {ext : Cw3Flex.Ext} {fuel : Nat} {w : Cw3Flex.World}
    (hr : Cw3Flex.Reachable ext fuel w) (id : Nat) (limit : Option Nat) (hl : limit ≠ some 0) (cur : String) {n : Nat}
    (hf : (Cw3Core.ballotsOf w.flex.core id).length + 1 ≤ n) :
    fetchLoop (fun cur => okItems (Cw3Flex.listVotes w.flex id (cur.map (⟨true, ·⟩)) limit)) (·.1) (some cur) n
      = (sortedEntries strLt (Cw3Core.ballotsOf w.flex.core id)).filter (fun x => strLt cur x.1) :=
  listing_complete_after_id strictTotal_strLt ((Cw3Flex.reachable_inv hr).wf.nodup id) hl
    (fun c => by cases c <;> simp [flex_listVotes_eq]) cur hf

/-- cw3-flex `ListVoters` from any (validating) cursor, in the worlds of `flex_listVoters_complete`. -/
theorem flex_listVoters_complete_after {gm : Cw4Group.InstMsg} {h0 : Nat} {g0 : Cw4Group.State}
    (hg : Cw4Group.instantiate gm h0 = .ok g0) (gops : List Cw4Group.Op) (s : Cw3Flex.State) (t : Cw20.State)
    (bank : AMap (Addr × String) Nat) (self groupAddr tokenAddr : Addr) (hh : Nat) (ext : Cw3Flex.Ext) (fuel : Nat)
    (ops : List Cw3Flex.Op) (limit : Option Nat) (hl : limit ≠ some 0) (cur : String) {n : Nat}
    (hf : (Cw3Flex.run ext fuel (Cw3Flex.World.init s (Cw4Group.run g0 gops) t bank self groupAddr tokenAddr hh)
      ops).group.members.cur.length + 1 ≤ n) :
    fetchLoop (fun cur => okItems (Cw3Flex.listVoters
        (Cw3Flex.run ext fuel (Cw3Flex.World.init s (Cw4Group.run g0 gops) t bank self groupAddr tokenAddr hh) ops).group
        (cur.map (⟨true, ·⟩)) limit)) (·.1) (some cur) n
      = (sortedEntries strLt
        (Cw3Flex.run ext fuel (Cw3Flex.World.init s (Cw4Group.run g0 gops) t bank self groupAddr tokenAddr hh)
          ops).group.members.cur).filter (fun x => strLt cur x.1) :=
  group_listMembers_loop_after
    (Cw3Flex.run_group_nodup ext fuel ops _ (Cw4Group.run_nodup gops (Cw4Group.instantiate_nodup hg))) limit hl cur hf

/-- **C20 "every cursor", the 13 listings outside cw20-base together.**  Same reachable states and hypotheses
as `all_listings_complete`; in addition an arbitrary string cursor `cs` (for the address-keyed listings) and an
arbitrary numeric cursor `cn` (for the proposal listings).  For every listing the client loop *started at that
cursor* returns exactly the current items strictly beyond it, in key order, each once. -/
theorem all_listings_complete_after
    {skm : Cw1Subkeys.InstMsg} {sk0 : Cw1Subkeys.State} (hsk : Cw1Subkeys.instantiate skm = .ok sk0)
    (skops : List (Block × Addr × Cw1Subkeys.Msg))
    {xfuel : Nat} {wx : Cw3Fixed.World} (hfx : Cw3Fixed.Reachable xfuel wx)
    {gm : Cw4Group.InstMsg} {h0 : Nat} {g0 : Cw4Group.State} (hg : Cw4Group.instantiate gm h0 = .ok g0)
    (gops : List Cw4Group.Op)
    {fm : Cw3Flex.InstMsg} {fs : Cw3Flex.State} (hfi : Cw3Flex.instantiate fm (some (Cw4Group.run g0 gops)) = .ok fs)
    (t : Cw20.State) (bank : AMap (Addr × String) Nat) (self groupAddr tokenAddr : Addr) (hh : Nat)
    (ext : Cw3Flex.Ext) (ffuel : Nat) (fops : List Cw3Flex.Op)
    {sm : Cw4Stake.InstMsg} {ss0 : Cw4Stake.State} (hst : Cw4Stake.instantiate sm = .ok ss0)
    (bal : AMap Addr Nat) (accepting : List Addr) (sops : List (Block × Cw4Stake.Op))
    {im : Ics20.InstMsg} {iw0 : Ics20.World} (hic : Ics20.instantiate im = .ok iw0.st) (iops : List (Block × Ics20.Op))
    (blk : Block) (id : Nat) (limit : Option Nat) (hl : limit ≠ some 0) (cs : String) (cn : Nat)
    (hv : StatusTotal (Cw3Flex.run ext ffuel
      (Cw3Flex.World.init fs (Cw4Group.run g0 gops) t bank self groupAddr tokenAddr hh) fops).flex.core blk) :
    let sk := subkeysRun sk0 skops
    let g := Cw4Group.run g0 gops
    let wf := Cw3Flex.run ext ffuel (Cw3Flex.World.init fs g t bank self groupAddr tokenAddr hh) fops
    let ws := Cw4Stake.run (Cw4Stake.World.init ss0 bal accepting) sops
    let wi := ics20Run iw0 iops
    let above : {ν : Type} → Addr × ν → Bool := fun x => strLt cs x.1
    (fetchLoop (fun c => Cw1Subkeys.queryAllAllowances sk blk c limit) (·.1) (some cs) (sk.allowances.length + 1)
        = ((sortedEntries strLt sk.allowances).filter (live blk)).filter above) ∧
    (fetchLoop (fun c => Cw1Subkeys.queryAllPermissions sk c limit) (·.1) (some cs) (sk.permissions.length + 1)
        = (sortedEntries strLt sk.permissions).filter above) ∧
    (Cw3Core.viewAll blk ((sortedEntries natLt wx.ms.core.proposals).filter (fun x => natLt cn x.1))
        = .ok (fetchLoop (fun c => okItems (Cw3Fixed.listProposals wx.ms blk c limit)) (·.id) (some cn)
            (wx.ms.core.proposals.length + 1))) ∧
    (Cw3Core.viewAll blk ((sortedEntries natLt wx.ms.core.proposals).reverse.filter (fun x => natLt x.1 cn))
        = .ok (fetchLoop (fun c => okItems (Cw3Fixed.reverseProposals wx.ms blk c limit)) (·.id) (some cn)
            (wx.ms.core.proposals.length + 1))) ∧
    (fetchLoop (fun c => Cw3Fixed.listVotes wx.ms id c limit) (·.1) (some cs) ((Cw3Core.ballotsOf wx.ms.core id).length + 1)
        = (sortedEntries strLt (Cw3Core.ballotsOf wx.ms.core id)).filter above) ∧
    (fetchLoop (fun c => Cw3Fixed.listVoters wx.ms c limit) (·.1) (some cs) (wx.ms.voters.length + 1)
        = (sortedEntries strLt wx.ms.voters).filter above) ∧
    (Cw3Core.viewAll blk ((sortedEntries natLt wf.flex.core.proposals).filter (fun x => natLt cn x.1))
        = .ok (fetchLoop (fun c => okItems (Cw3Flex.listProposals wf.flex blk c limit)) (·.id) (some cn)
            (wf.flex.core.proposals.length + 1))) ∧
    (Cw3Core.viewAll blk ((sortedEntries natLt wf.flex.core.proposals).reverse.filter (fun x => natLt x.1 cn))
        = .ok (fetchLoop (fun c => okItems (Cw3Flex.reverseProposals wf.flex blk c limit)) (·.id) (some cn)
            (wf.flex.core.proposals.length + 1))) ∧
    (fetchLoop (fun c => okItems (Cw3Flex.listVotes wf.flex id (c.map (⟨true, ·⟩)) limit)) (·.1) (some cs)
          ((Cw3Core.ballotsOf wf.flex.core id).length + 1)
        = (sortedEntries strLt (Cw3Core.ballotsOf wf.flex.core id)).filter above) ∧
    (fetchLoop (fun c => okItems (Cw3Flex.listVoters wf.group (c.map (⟨true, ·⟩)) limit)) (·.1) (some cs)
          (wf.group.members.cur.length + 1)
        = (sortedEntries strLt wf.group.members.cur).filter above) ∧
    (fetchLoop (fun c => okItems (Cw4Group.queryListMembers g (c.map (⟨true, ·⟩)) limit)) (·.1) (some cs)
          (g.members.cur.length + 1)
        = (sortedEntries strLt g.members.cur).filter above) ∧
    (fetchLoop (fun c => okItems (Cw4Stake.queryListMembers ws.st (c.map (⟨true, ·⟩)) limit)) (·.1) (some cs)
          (ws.st.members.cur.length + 1)
        = (sortedEntries strLt ws.st.members.cur).filter above) ∧
    (fetchLoop (fun c => okItems (Ics20.queryListAllowed wi.st (c.map (⟨true, ·⟩)) limit)) (·.1) (some cs)
          (wi.st.allow.length + 1)
        = (sortedEntries strLt wi.st.allow).filter above) := by
  intro sk g wf ws wi above
  have hrf : Cw3Flex.Reachable ext ffuel wf :=
    ⟨fm, fs, g, t, bank, self, groupAddr, tokenAddr, hh, fops, hfi, rfl⟩
  exact ⟨subkeys_allAllowances_complete_after hsk skops blk limit hl cs (Nat.le_refl _),
    subkeys_allPermissions_complete_after hsk skops limit hl cs (Nat.le_refl _),
    fixed_listProposals_complete_after hfx blk limit hl cn (Nat.le_refl _),
    fixed_reverseProposals_complete_after hfx blk limit hl cn (Nat.le_refl _),
    fixed_listVotes_complete_after hfx id limit hl cs (Nat.le_refl _),
    fixed_listVoters_complete_after hfx limit hl cs (Nat.le_refl _),
    flex_listProposals_complete_after hrf blk hv limit hl cn (Nat.le_refl _),
    flex_reverseProposals_complete_after hrf blk hv limit hl cn (Nat.le_refl _),
    flex_listVotes_complete_after hrf id limit hl cs (Nat.le_refl _),
    flex_listVoters_complete_after hg gops fs t bank self groupAddr tokenAddr hh ext ffuel fops limit hl cs (Nat.le_refl _),
    group_listMembers_complete_after hg gops limit hl cs (Nat.le_refl _),
    stake_listMembers_complete_after hst bal accepting sops limit hl cs (Nat.le_refl _),
    ics20_listAllowed_complete_after hic iops limit hl cs (Nat.le_refl _)⟩

/-! ## Non-vacuity: a concrete state per contract where the hypotheses hold, with concrete pages -/

/-- The sorted listing of a concrete map, from any sorted permutation of it (`mergeSort` does not reduce
in the kernel). -/
theorem sortedEntries_eq {κ ν : Type} [DecidableEq κ] {lt : κ → κ → Bool} (ht : StrictTotal lt) {m l : AMap κ ν}
    (hm : AMap.NodupKeys m) (hl : Sorted lt l) (hp : m.Perm l) : sortedEntries lt m = l :=
  Sorted.eq_of_perm ht (sortedEntries_sorted hm ht) hl ((sortedEntries_perm _ _).trans hp)

/-- cw4-group: three members stored in the order `b, a, c`. -/
def gEx : Cw4Group.State :=
  { admin := some "adm", hooks := [], members := { cur := [("b", 2), ("a", 1), ("c", 3)], log := [] },
    total := { cur := some 6, log := [] } }

theorem gEx_nodup : AMap.NodupKeys gEx.members.cur := by unfold AMap.NodupKeys AMap.keys; decide
theorem gEx_sorted : sortedEntries strLt gEx.members.cur = [("a", 1), ("b", 2), ("c", 3)] :=
  sortedEntries_eq strictTotal_strLt gEx_nodup (by unfold Sorted; decide) (by decide)

example : Cw4Group.queryListMembers gEx (some ⟨true, "a"⟩) (some 1) = .ok [("b", 2)] := by
  rw [group_listMembers_eq, gEx_sorted]; rfl
example : Cw4Group.queryListMembers gEx (some ⟨false, "a"⟩) (some 1) = .error "addr" := by
  rw [group_listMembers_eq]; rfl
example : fetchLoop (fun c => okItems (Cw4Group.queryListMembers gEx (c.map (⟨true, ·⟩)) (some 2))) (·.1) none 4
    = [("a", 1), ("b", 2), ("c", 3)] :=
  (group_listMembers_loop gEx_nodup (some 2) (by decide) (by decide)).trans gEx_sorted
/-- the same state is reachable: instantiate with `b, a`, then the admin adds `c` -/
example : (Cw4Group.instantiate ⟨some ⟨true, "adm"⟩, [(⟨true, "b"⟩, 2), (⟨true, "a"⟩, 1)]⟩ 1).map
      (fun s => (Cw4Group.run s [⟨2, "adm", .updateMembers [] [(⟨true, "c"⟩, 3)]⟩]).members.cur)
    = .ok [("a", 1), ("b", 2), ("c", 3)] := by
  rfl
/-- cw3-flex `ListVoters` reads the same group state -/
example : Cw3Flex.listVoters gEx (some ⟨true, "b"⟩) none = .ok [("c", 3)] := by
  show Cw4Group.queryListMembers gEx _ _ = _
  rw [group_listMembers_eq, gEx_sorted]; rfl

/-- cw4-stake: the same members. -/
def stEx : Cw4Stake.State :=
  { cfg := ⟨.native "ustake", 1, 1, .height 10⟩, admin := none, hooks := [], stake := [], claims := [],
    members := { cur := [("b", 2), ("a", 1), ("c", 3)], log := [] }, total := 6 }

theorem stEx_nodup : AMap.NodupKeys stEx.members.cur := by unfold AMap.NodupKeys AMap.keys; decide
theorem stEx_sorted : sortedEntries strLt stEx.members.cur = [("a", 1), ("b", 2), ("c", 3)] :=
  sortedEntries_eq strictTotal_strLt stEx_nodup (by unfold Sorted; decide) (by decide)
example : Cw4Stake.queryListMembers stEx none (some 2) = .ok [("a", 1), ("b", 2)] := by
  rw [stake_listMembers_eq, stEx_sorted]; rfl
example : Cw4Stake.queryListMembers stEx (some ⟨false, "zz"⟩) none = .error "addr" := by
  rw [stake_listMembers_eq]; rfl
example : fetchLoop (fun c => okItems (Cw4Stake.queryListMembers stEx (c.map (⟨true, ·⟩)) (some 1))) (·.1) none 4
    = [("a", 1), ("b", 2), ("c", 3)] :=
  (stake_listMembers_loop stEx_nodup (some 1) (by decide) (by decide)).trans stEx_sorted

/-- cw1-subkeys: three allowances; the one of `b` expired at height 5. -/
def skEx : Cw1Subkeys.State :=
  { cfg := ⟨["admin"], true⟩,
    allowances := [("c", ⟨[("ua", 3)], .never⟩), ("b", ⟨[("ua", 2)], .atHeight 5⟩), ("a", ⟨[("ua", 1)], .never⟩)],
    permissions := [("b", ⟨true, false, false, false⟩), ("a", ⟨false, true, false, false⟩)] }

theorem skEx_nodup : Cw1Subkeys.NodupInv skEx :=
  ⟨by unfold AMap.NodupKeys AMap.keys; decide, by unfold AMap.NodupKeys AMap.keys; decide⟩
theorem skEx_sorted : sortedEntries strLt skEx.allowances
    = [("a", ⟨[("ua", 1)], .never⟩), ("b", ⟨[("ua", 2)], .atHeight 5⟩), ("c", ⟨[("ua", 3)], .never⟩)] :=
  sortedEntries_eq strictTotal_strLt skEx_nodup.allowances (by unfold Sorted; decide) (by decide)
/-- at height 10 the page of two skips the expired `b` and still holds two items: filter before `take` -/
example : Cw1Subkeys.queryAllAllowances skEx ⟨10, 0⟩ none (some 2)
    = [("a", ⟨[("ua", 1)], .never⟩), ("c", ⟨[("ua", 3)], .never⟩)] := by
  simp only [Cw1Subkeys.queryAllAllowances, skEx_sorted]; decide
example : Cw1Subkeys.queryAllAllowances skEx ⟨4, 0⟩ none (some 2)
    = [("a", ⟨[("ua", 1)], .never⟩), ("b", ⟨[("ua", 2)], .atHeight 5⟩)] := by
  simp only [Cw1Subkeys.queryAllAllowances, skEx_sorted]; decide
example : fetchLoop (fun c => Cw1Subkeys.queryAllAllowances skEx ⟨10, 0⟩ c (some 1)) (·.1) none 4
    = [("a", ⟨[("ua", 1)], .never⟩), ("c", ⟨[("ua", 3)], .never⟩)] := by
  rw [subkeys_allAllowances_loop skEx_nodup.allowances ⟨10, 0⟩ (some 1) (by decide) (by decide), skEx_sorted]
  decide
example : Cw1Subkeys.queryAllPermissions skEx (some "a") none = [("b", ⟨true, false, false, false⟩)] := by
  have h : sortedEntries strLt skEx.permissions
      = [("a", ⟨false, true, false, false⟩), ("b", ⟨true, false, false, false⟩)] :=
    sortedEntries_eq strictTotal_strLt skEx_nodup.permissions (by unfold Sorted; decide) (by decide)
  simp only [Cw1Subkeys.queryAllPermissions, h]; decide

/-- cw20-ics20: two allowed tokens. -/
def icEx : Ics20.State :=
  { config := ⟨60, none⟩, admin := some "gov", allow := [("tokb", some 5), ("toka", none)], channels := [],
    chan := [], versionName := Ics20.CONTRACT_NAME, version := Ics20.CONTRACT_VERSION }

theorem icEx_nodup : AMap.NodupKeys icEx.allow := by unfold AMap.NodupKeys AMap.keys; decide
theorem icEx_sorted : sortedEntries strLt icEx.allow = [("toka", none), ("tokb", some 5)] :=
  sortedEntries_eq strictTotal_strLt icEx_nodup (by unfold Sorted; decide) (by decide)
example : Ics20.queryListAllowed icEx (some ⟨true, "toka"⟩) none = .ok [("tokb", some 5)] := by
  rw [ics20_listAllowed_eq, icEx_sorted]; rfl
example : Ics20.queryListAllowed icEx (some ⟨false, "toka"⟩) none = .error "addr" := by
  rw [ics20_listAllowed_eq]; rfl
example : fetchLoop (fun c => okItems (Ics20.queryListAllowed icEx (c.map (⟨true, ·⟩)) none)) (·.1) none 3
    = [("toka", none), ("tokb", some 5)] :=
  (ics20_listAllowed_loop icEx_nodup none (by decide) (by decide)).trans icEx_sorted

/-- cw3 core (used by both multisigs): proposal 2 stored before proposal 1, both no longer open; two ballots on 1. -/
def prEx (st : Cw3.Status) : Cw3Core.Proposal :=
  { title := "t", description := "d", startHeight := 1, expires := .atHeight 100, msgs := [], status := st,
    threshold := .absoluteCount 2, totalWeight := 3, votes := ⟨2, 0, 0, 0⟩, proposer := "a", deposit := none }

def cEx : Cw3Core.Core :=
  { count := 2, proposals := [(2, prEx .rejected), (1, prEx .executed)],
    ballots := [(1, [("b", ⟨1, .yes⟩), ("a", ⟨1, .yes⟩)])] }

theorem cEx_nodup : AMap.NodupKeys cEx.proposals := by unfold AMap.NodupKeys AMap.keys; decide
theorem cEx_sorted : sortedEntries natLt cEx.proposals = [(1, prEx .executed), (2, prEx .rejected)] :=
  sortedEntries_eq strictTotal_natLt cEx_nodup (by unfold Sorted; decide) (by decide)
theorem cEx_status (blk : Block) : StatusTotal cEx blk := by
  intro id p hp
  have hm := AMap.get?_some_mem hp
  simp only [cEx, List.mem_cons, Prod.mk.injEq, List.not_mem_nil, or_false] at hm
  rcases hm with ⟨_, rfl⟩ | ⟨_, rfl⟩ <;> exact ⟨_, rfl⟩

example : Cw3Core.listProposals cEx ⟨7, 0⟩ (some 1) none = .ok [Cw3Core.viewD ⟨7, 0⟩ (2, prEx .rejected)] := by
  rw [core_listProposals_eq cEx_nodup (cEx_status _), cEx_sorted]; rfl
example : Cw3Core.reverseProposals cEx ⟨7, 0⟩ (some 2) none = .ok [Cw3Core.viewD ⟨7, 0⟩ (1, prEx .executed)] := by
  rw [core_reverseProposals_eq cEx_nodup (cEx_status _),
    sortedEntriesDesc_eq_reverse cEx_nodup strictTotal_natLt, cEx_sorted]; rfl
example : fetchLoop (fun c => okItems (Cw3Core.reverseProposals cEx ⟨7, 0⟩ c (some 1))) (·.id) none 3
    = [Cw3Core.viewD ⟨7, 0⟩ (2, prEx .rejected), Cw3Core.viewD ⟨7, 0⟩ (1, prEx .executed)] := by
  have h := core_reverseProposals_loop cEx_nodup (cEx_status ⟨7, 0⟩) (some 1) (by decide) (fuel := 3) (by decide)
  rw [cEx_sorted] at h
  exact (Except.ok.inj h).symm

/-- the ballots of proposal 1, as listed by cw3-fixed (raw cursor) and cw3-flex (validated cursor) -/
theorem cEx_ballots : sortedEntries strLt (Cw3Core.ballotsOf cEx 1) = [("a", ⟨1, .yes⟩), ("b", ⟨1, .yes⟩)] :=
  sortedEntries_eq strictTotal_strLt (by unfold AMap.NodupKeys AMap.keys; decide) (by unfold Sorted; decide) (by decide)
example : Cw3Fixed.listVotes ⟨⟨.absoluteCount 2, 3, .height 100⟩, [("b", 1), ("a", 2)], cEx⟩ 1 (some "a") none
    = [("b", ⟨1, .yes⟩)] := by
  simp only [Cw3Fixed.listVotes, Cw3Core.listVotes, cEx_ballots]; decide
example : Cw3Flex.listVotes ⟨⟨.absoluteCount 2, .height 100, "grp", none, none⟩, cEx⟩ 1 (some ⟨true, "a"⟩) none
    = .ok [("b", ⟨1, .yes⟩)] := by
  rw [flex_listVotes_eq]; simp only [cEx_ballots]; rfl
example : Cw3Flex.listVotes ⟨⟨.absoluteCount 2, .height 100, "grp", none, none⟩, cEx⟩ 1 (some ⟨false, "a"⟩) none
    = .error "addr" := by
  rw [flex_listVotes_eq]; rfl
example : Cw3Fixed.listVoters ⟨⟨.absoluteCount 2, 3, .height 100⟩, [("b", 1), ("a", 2)], cEx⟩ none (some 1)
    = [("a", 2)] := by
  have h : sortedEntries strLt ([("b", 1), ("a", 2)] : AMap Addr Nat) = [("a", 2), ("b", 1)] :=
    sortedEntries_eq strictTotal_strLt (by unfold AMap.NodupKeys AMap.keys; decide) (by unfold Sorted; decide) (by decide)
  simp only [Cw3Fixed.listVoters, h]; decide

/-- `StatusTotal` is a real restriction outside reachable cw3-fixed states: a stored open proposal whose abstain
weight exceeds its recorded total makes `current_status`, hence both proposal listings, fail. -/
def cBad : Cw3Core.Core :=
  { count := 1,
    proposals := [(1, { prEx .open with threshold := .absolutePercentage Cw3.DEC_ONE, totalWeight := 1, votes := ⟨1, 0, 2, 0⟩ })],
    ballots := [] }
example : (Cw3Core.listProposals cBad ⟨7, 0⟩ none none).isOk = false := by
  have h : sortedEntries natLt cBad.proposals = cBad.proposals :=
    sortedEntries_of_sorted strictTotal_natLt (by unfold Sorted; decide)
  simp only [Cw3Core.listProposals, h]; decide


/-! ### Non-vacuity of the any-cursor theorems: loops started in the middle, at a key and between keys -/

example : fetchLoop (fun c => okItems (Cw4Group.queryListMembers gEx (c.map (⟨true, ·⟩)) (some 1))) (·.1) (some "a") 4
    = [("b", 2), ("c", 3)] := by
  rw [group_listMembers_loop_after gEx_nodup (some 1) (by decide) "a" (by decide), gEx_sorted]; decide
example : fetchLoop (fun c => okItems (Cw4Stake.queryListMembers stEx (c.map (⟨true, ·⟩)) none)) (·.1) (some "aa") 4
    = [("b", 2), ("c", 3)] := by
  rw [stake_listMembers_loop_after stEx_nodup none (by decide) "aa" (by decide), stEx_sorted]; decide
/-- filtered listing from the cursor "a" at height 10: the expired `b` is skipped, `c` remains -/
example : fetchLoop (fun c => Cw1Subkeys.queryAllAllowances skEx ⟨10, 0⟩ c (some 1)) (·.1) (some "a") 4
    = [("c", ⟨[("ua", 3)], .never⟩)] := by
  rw [subkeys_allAllowances_loop_after skEx_nodup.allowances ⟨10, 0⟩ (some 1) (by decide) "a" (by decide), skEx_sorted]
  decide
example : fetchLoop (fun c => okItems (Ics20.queryListAllowed icEx (c.map (⟨true, ·⟩)) (some 1))) (·.1) (some "toka") 3
    = [("tokb", some 5)] := by
  rw [ics20_listAllowed_loop_after icEx_nodup (some 1) (by decide) "toka" (by decide), icEx_sorted]; decide
/-- proposals: ascending from id 1, descending from `start_before = 2` -/
example : fetchLoop (fun c => okItems (Cw3Core.listProposals cEx ⟨7, 0⟩ c (some 1))) (·.id) (some 1) 3
    = [Cw3Core.viewD ⟨7, 0⟩ (2, prEx .rejected)] := by
  have h := core_listProposals_loop_after cEx_nodup (cEx_status ⟨7, 0⟩) (some 1) (by decide) 1 (fuel := 3) (by decide)
  rw [cEx_sorted] at h
  exact (Except.ok.inj h).symm
example : fetchLoop (fun c => okItems (Cw3Core.reverseProposals cEx ⟨7, 0⟩ c (some 1))) (·.id) (some 2) 3
    = [Cw3Core.viewD ⟨7, 0⟩ (1, prEx .executed)] := by
  have h := core_reverseProposals_loop_after cEx_nodup (cEx_status ⟨7, 0⟩) (some 1) (by decide) 2 (fuel := 3) (by decide)
  rw [cEx_sorted] at h
  exact (Except.ok.inj h).symm


/-! ### Non-vacuity of `flex_tally_fits_partial` / `flex_status_total_partial`

The D3 world of `Props/C06Flex.lean` (group `a:1, b:4` instantiated at height 5, multisig on top), with the
`Propose` one block *after* the group update (so the guard holds): update in block 10, `a` proposes in block 11
(weight 3 = its snapshot weight at 11), `b` votes in block 12. -/

def flexOps : List Cw3Flex.Op :=
  [⟨⟨10, 0⟩, .group "adm" (.updateMembers [] [(⟨true, "a"⟩, 3)])⟩,
   ⟨⟨11, 0⟩, .flex "a" [] (.propose "t" "d" [] none)⟩,
   ⟨⟨12, 0⟩, .flex "b" [] (.vote 1 .no)⟩]

def flexFinal : Cw3Flex.World := Cw3Flex.run C06Flex.Cex.noExt 10 C06Flex.Cex.world0 flexOps

theorem flexGroup0_ok : Cw4Group.instantiate ⟨some ⟨true, "adm"⟩, [(⟨true, "a"⟩, 1), (⟨true, "b"⟩, 4)]⟩ 5
    = .ok C06Flex.Cex.group0 := rfl

example : C06Flex.Ordered flexOps ∧ ∀ op ∈ flexOps, 5 ≤ op.blk.height := by unfold C06Flex.Ordered; decide

/-- the proposal exists, both ballots are recorded, and the proposer's ballot (3) is its snapshot weight at 11 -/
example : ((flexFinal.flex.core.proposals.get? 1).map fun p => (p.startHeight, p.proposer, p.votes.yes, p.votes.no))
      = some (11, "a", 3, 4)
    ∧ ((Cw3Core.ballotsOf flexFinal.flex.core 1).get? "a").map (·.weight) = some 3
    ∧ Cw3Flex.memberAt flexFinal.group "a" 11 = some 3 := by decide

example : ∃ p, flexFinal.flex.core.proposals.get? 1 = some p ∧ p.Fits ∧ ∀ blk, ∃ st, p.currentStatus blk = .ok st := by
  obtain ⟨h1, h2, h3, h4⟩ := group_instantiate_snapSum flexGroup0_ok
  have hp : ∃ p, flexFinal.flex.core.proposals.get? 1 = some p ∧ p.proposer = "a" ∧ p.startHeight = 11 := by
    cases hx : flexFinal.flex.core.proposals.get? 1 with
    | none => revert hx; decide
    | some p =>
      refine ⟨p, rfl, ?_, ?_⟩
      · have : (flexFinal.flex.core.proposals.get? 1).map (·.proposer) = some "a" := by decide
        rw [hx] at this; simpa using this
      · have : (flexFinal.flex.core.proposals.get? 1).map (·.startHeight) = some 11 := by decide
        rw [hx] at this; simpa using this
  obtain ⟨p, hp, hpr, hst⟩ := hp
  refine ⟨p, hp, ?_⟩
  refine flex_tally_fits_partial (m := C06Flex.Cex.inst) (s := C06Flex.Cex.flex0) (g := C06Flex.Cex.group0)
    (t := C06Flex.Cex.token0) (bank := []) (self := "ms") (ga := "grp") (ta := "tok") (H0 := 5) (ext := C06Flex.Cex.noExt)
    (fuel := 10) rfl h1 h2 h3 h4 flexOps (by decide) (by unfold C06Flex.Ordered; decide) (id := 1) hp ?_
  intro b hb
  rw [hpr, hst]
  rw [hpr] at hb
  have hb' : (Cw3Core.ballotsOf flexFinal.flex.core 1).get? "a" = some ⟨3, .yes⟩ := by decide
  have hm : Cw3Flex.memberAt flexFinal.group "a" 11 = some 3 := by decide
  have e : b = ⟨3, .yes⟩ := Option.some.inj (hb.symm.trans hb')
  rw [e]
  show 3 ≤ (Cw3Flex.memberAt flexFinal.group "a" 11).getD 0
  rw [hm]; decide


/-- `flex_status_total_guarded` on the same history: the committed log is
`[groupWrite 5, groupWrite 10, proposed 1 a, voted 1 b]`; the proposal started in block 11, and no group write of
block 11 precedes its `Propose` — the guard holds for every stored proposal, so both proposal listings are total. -/
example : flexFinal.log = [.groupWrite 5, .groupWrite 10, .proposed 1 "a", .voted 1 "b"] := by decide

example : ∀ blk cur limit, (Cw3Flex.listProposals flexFinal.flex blk cur limit).isOk = true ∧
    (Cw3Flex.reverseProposals flexFinal.flex blk cur limit).isOk = true := by
  obtain ⟨h1, h2, h3, h4⟩ := group_instantiate_snapSum flexGroup0_ok
  have hall : ∀ id p, flexFinal.flex.core.proposals.get? id = some p → GoodFor flexFinal.log id p.startHeight := by
    intro id p hp
    have hkeys : flexFinal.flex.core.proposals.map (·.1) = [1] := by decide
    have hid : id = 1 := by
      have := AMap.get?_some_mem hp
      have : id ∈ flexFinal.flex.core.proposals.map (·.1) := List.mem_map.mpr ⟨_, this, rfl⟩
      rw [hkeys] at this; simpa using this
    subst hid
    have hst : p.startHeight = 11 := by
      have : (flexFinal.flex.core.proposals.get? 1).map (·.startHeight) = some 11 := by decide
      rw [hp] at this; simpa using this
    rw [hst]
    intro pre post snd hlog hmem
    have hlog' : flexFinal.log = [.groupWrite 5, .groupWrite 10, .proposed 1 "a", .voted 1 "b"] := by decide
    have : Cw3Flex.Event.groupWrite 11 ∈ flexFinal.log := by rw [hlog]; exact List.mem_append_left _ hmem
    rw [hlog'] at this
    revert this; decide
  have := (flex_status_total_guarded (m := C06Flex.Cex.inst) (s := C06Flex.Cex.flex0) (g := C06Flex.Cex.group0)
    (t := C06Flex.Cex.token0) (bank := []) (self := "ms") (ga := "grp") (ta := "tok") (H0 := 5) (ext := C06Flex.Cex.noExt)
    (fuel := 10) rfl h1 h2 h3 h4 flexOps (by decide) (by unfold C06Flex.Ordered; decide)).2 hall
  intro blk cur limit
  exact (this.2 blk cur limit).2

/-- In the D3 history of C06 (group update and `Propose` in the same block 10) the guard fails for proposal 1:
`groupWrite 10` precedes `proposed 1 a`. -/
example : ¬ GoodFor C06Flex.Cex.final.log 1 10 := by
  intro h
  have hlog : C06Flex.Cex.final.log = [.groupWrite 5, .groupWrite 10, .proposed 1 "a", .voted 1 "b"] := by decide
  exact h [.groupWrite 5, .groupWrite 10] [.voted 1 "b"] "a" hlog (by simp)

end CwPlus.Props.C20Listings
